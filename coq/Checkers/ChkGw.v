(* Checkers/ChkGw.v — executable statements of the gateway-session properties on one
   step: the state before the event, the event, and what was observed on the wire.
   Extracted and applied to the implementation's observations (with the model's state as
   context); the soundness lemmas say the model's own outputs are always accepted. *)
From stdpp Require Import base option list numbers fin_maps nmap.
From Verif.Base Require Import Bytes.
From Verif.Codec Require Import Packets Decode Encode.
From Verif.Topics Require Import Predefined.
From Verif.Gateway Require Import GwTypes GwStep.
From Verif.Checkers Require Import ChkCodec.
Open Scope N_scope.

(* What the harness observes for one event. *)
Inductive obs :=
| ObSn (t : N) (dg : bytes)                  (* datagram written to the client *)
| ObMq (t : N) (m : mq_pkt) (valid : bool)   (* MQTT packet written to the broker; valid = accepted by the
                                                independent MQTT 3.1.1 validator of the harness *)
| ObMqGarbage (t : N)                        (* bytes on the broker connection that are no MQTT packet *)
| ObEnd (t : N).                             (* session returned; broker connection closed *)

(* wire projection of an MQTT packet (what a parser of the byte stream can see) *)
Definition wire (m : mq_pkt) : mq_pkt :=
  match m with
  | MqPublish dup q r t mid pl => MqPublish dup q r t (if q =? 0 then 0 else mid) pl
  | MqConnect c =>
    MqConnect {| c_cid := c_cid c; c_clean := c_clean c; c_keepalive := c_keepalive c;
                 c_will := c_will c; c_wqos := c_wqos c; c_wretain := c_wretain c;
                 c_wtopic := if c_will c then c_wtopic c else [];
                 c_wmsg := if c_will c then c_wmsg c else [];
                 c_uflag := c_uflag c; c_user := if c_uflag c then c_user c else [];
                 c_pflag := c_pflag c; c_pass := if c_pflag c then c_pass c else [] |}
  | _ => m
  end.

(* ------------------------------------------------------------------ MQTT 3.1.1 validity (C24) *)
Definition no_wildcard (t : bytes) : bool := negb (has_wildcard t).

Definition mqtt_valid (m : mq_pkt) : bool :=
  match m with
  | MqPublish dup q r t mid pl =>
    (q <=? 2) && negb (len t =? 0) && no_wildcard t && ((q =? 0) || negb (mid =? 0))
  | MqSubscribe mid _ fs =>
    negb (mid =? 0) && negb (len fs =? 0) && forallb (fun fq => negb (len (fst fq) =? 0) && (snd fq <=? 2)) fs
  | MqUnsubscribe mid fs => negb (mid =? 0) && negb (len fs =? 0) && forallb (fun f => negb (len f =? 0)) fs
  | MqConnect c =>
    Bool.eqb (c_will c) (negb (len (c_wtopic c) =? 0)) &&
    (c_will c || ((c_wqos c =? 0) && negb (c_wretain c))) && (c_wqos c <=? 2) &&
    (c_uflag c || negb (c_pflag c))
  | MqPuback mid | MqPubrec mid | MqPubrel mid | MqPubcomp mid => negb (mid =? 0)
  | _ => true
  end.

(* equality of MQTT packets (through a flattening) *)
Definition mq_fields (m : mq_pkt) : N * list N * list bytes :=
  match m with
  | MqConnect c => (1, [N_of_bool (c_clean c); c_keepalive c; N_of_bool (c_will c); c_wqos c; N_of_bool (c_wretain c);
                        N_of_bool (c_uflag c); N_of_bool (c_pflag c)],
                    [c_cid c; c_wtopic c; c_wmsg c; c_user c; c_pass c])
  | MqConnack sp rc => (2, [N_of_bool sp; rc], [])
  | MqPublish dup q r t mid pl => (3, [N_of_bool dup; q; N_of_bool r; mid], [t; pl])
  | MqPuback mid => (4, [mid], [])
  | MqPubrec mid => (5, [mid], [])
  | MqPubrel mid => (6, [mid], [])
  | MqPubcomp mid => (7, [mid], [])
  | MqSubscribe mid dup fs => (8, mid :: N_of_bool dup :: map snd fs, map fst fs)
  | MqSuback mid codes => (9, [mid], [codes])
  | MqUnsubscribe mid fs => (10, [mid], fs)
  | MqUnsuback mid => (11, [mid], [])
  | MqPingreq => (12, [], [])
  | MqPingresp => (13, [], [])
  | MqDisconnect => (14, [], [])
  end.

Definition mq_eqb (a b : mq_pkt) : bool :=
  match mq_fields a, mq_fields b with
  | (t1, n1, b1), (t2, n2, b2) => (t1 =? t2) && beq n1 n2 && beql b1 b2
  end.

(* observation of a model output *)
Definition obs_of_out (o : gw_out) : list obs :=
  match o with
  | OutSn t dg => [ObSn t dg]
  | OutMq t m => [ObMq t (wire m) (mqtt_valid (wire m))]
  | OutCancel _ _ => []
  | OutEnd t => [ObEnd t]
  end.
Definition obs_of_outs (os : list gw_out) : list obs := os ≫= obs_of_out.

Definition mq_of (o : obs) : list mq_pkt := match o with ObMq _ m _ => [m] | _ => [] end.
Definition sn_of (o : obs) : list bytes := match o with ObSn _ dg => [dg] | _ => [] end.
Definition mqs (os : list obs) : list mq_pkt := os ≫= mq_of.
Definition sns (os : list obs) : list bytes := os ≫= sn_of.

Definition is_mq_disconnect (m : mq_pkt) : bool := match m with MqDisconnect => true | _ => false end.
Definition is_mq_publish (m : mq_pkt) : bool := match m with MqPublish _ _ _ _ _ _ => true | _ => false end.

Definition ev_packet (ev : gw_event) : option packet :=
  match ev with
  | EvSn dg => match read_dgram dg with Ok p => Some p | _ => None end
  | _ => None
  end.

(* ------------------------------------------------------------------ C14 *)
(* An MQTT DISCONNECT appears only in the step that handles the client's DISCONNECT without
   a sleep duration; a session that returns has its broker connection closed (ObEnd covers both). *)
Definition chk_C14 (ev : gw_event) (os : list obs) : list N :=
  if existsb is_mq_disconnect (mqs os) then
    match ev_packet ev with
    | Some (Disconnect d) => if d =? 0 then [] else [1]
    | _ => [1]
    end
  else [].

(* ------------------------------------------------------------------ C01 *)
(* What a client topic ID denotes (specification; stated here independently of the handlers). *)
Definition denotes (cfg : gw_cfg) (s : gw_state) (tit tid : N) : option bytes :=
  match tit with
  | 0 => gw_registered s !! tid
  | 1 => get_name (predefined cfg) (gw_client_id s) tid
  | 2 => Some (decode_short tid)
  | _ => None
  end.

(* May the session relay this client packet at all (connected, or the QoS -1 exception)? *)
Definition accepts_publish (cfg : gw_cfg) (s : gw_state) (q tit : N) : bool :=
  match gw_st s with
  | Disconnected => negb (auth_enabled cfg) && (q =? 3) && ((tit =? 1) || (tit =? 2))
  | _ => true
  end.

Definition chk_C01 (cfg : gw_cfg) (s : gw_state) (ev : gw_event) (os : list obs) : list N :=
  if gw_ended s then [] else
  match gw_ending s, ev_packet ev with
  | None, Some (Publish dup q r tit tid mid data) =>
    let pubs := List.filter is_mq_publish (mqs os) in
    if negb (accepts_publish cfg s q tit) then (if len pubs =? 0 then [] else [3]) else
    match denotes cfg s tit tid with
    | Some topic =>
      (* not translatable to a valid MQTT PUBLISH (C24): rejected, never forwarded *)
      if has_wildcard topic || (((q =? 1) || (q =? 2)) && (mid =? 0)) then (if len pubs =? 0 then [] else [4]) else
      match pubs with
      | [m] => if mq_eqb m (wire (MqPublish dup (if q =? 3 then 0 else q) r topic mid data)) then [] else [1]
      | _ => [1]
      end
    | None => if len pubs =? 0 then [] else [2]
    end
  | _, _ => []
  end.

(* ------------------------------------------------------------------ C23 *)
(* packet types a gateway may send to a client *)
Definition gw_to_client (t : N) : bool :=
  (t =? T_ADVERTISE) || (t =? T_GWINFO) || (t =? T_CONNACK) || (t =? T_WILLTOPICREQ) || (t =? T_WILLMSGREQ) ||
  (t =? T_REGISTER) || (t =? T_REGACK) || (t =? T_PUBLISH) || (t =? T_PUBACK) || (t =? T_PUBCOMP) ||
  (t =? T_PUBREC) || (t =? T_PUBREL) || (t =? T_SUBACK) || (t =? T_UNSUBACK) || (t =? T_PINGRESP) ||
  (t =? T_DISCONNECT) || (t =? T_WILLTOPICRESP) || (t =? T_WILLMSGRESP).

Definition dgram_ok (dir : N -> bool) (dg : bytes) : list N :=
  (match read_dgram dg with Ok p => if dir (ptype p) then [] else [2] | _ => [1] end) ++
  (match announced_len dg with Some l => if l =? len dg then [] else [3] | None => [3] end) ++
  (if len dg <=? MaxPacketLen then [] else [4]).

Definition chk_C23 (os : list obs) : list N := sns os ≫= dgram_ok gw_to_client.

(* ------------------------------------------------------------------ C24 *)
Definition chk_C24 (os : list obs) : list N :=
  os ≫= (fun o => match o with
                  | ObMq _ m v => (if v then [] else [1]) ++ (if mqtt_valid m then [] else [2])
                  | ObMqGarbage _ => [3]
                  | _ => []
                  end).
