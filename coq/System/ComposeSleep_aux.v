(* System/ComposeSleep_aux.v — component lemmas for System/ComposeSleep.v (C26 "repeated sleep cycles", C11
   end to end): what the client library model (cl_step) and the gateway session model (gw_step) do, each on its
   own, in one sleep cycle.

     ClSt c st objs byt tms        the client in state st holds exactly the transaction objects objs (none by message ID,
                                   byt by packet type) and the timers tms; not cancelled, not exited, connection open
                                   (ClQuiet c <-> ClSt c Active ∅ ∅ [])
     GwSt g st buf                 the gateway session in state st with sleep buffer buf: no transaction, no timer, not
                                   ending (GwQuiet g <-> GwSt g Active (gw_buffer g))
     cl_sleep_call / cl_sleep_disc Sleep(ms) in the active state: DISCONNECT (ms / 1000) out, resend timer; DISCONNECT in:
                                   asleep, wake-up timer at now + ms
     cl_sleep_again                Sleep(ms) in the awake state: asleep at once, nothing is sent
     cl_wake_fire                  the wake-up timer: awake, PINGREQ (client ID), PINGRESP timer (one minute)
     cl_st_bpub0                   a PUBLISH (QoS 0, short topic name) in any ClSt state: the handler, nothing else
     cl_ww_pingresp                PINGRESP while waiting for it: Sleep returns nil, the client stays awake, idle
     cl_adv_idle_ex                time passing while no timer is due
     gw_sleep_disc                 DISCONNECT (duration > 0 that starts no sleep pinger): DISCONNECT back, asleep, buffer empty
     gw_asleep_bpub0               MQTT PUBLISH (QoS 0, short topic name) for a sleeping client: appended to the buffer
     gw_asleep_pingreq             PINGREQ of a sleeping client: the buffer in order, PINGRESP, asleep again, buffer empty
     gw_adv_st_ex                  time passing

   Style and tactics: see ComposeProofs_aux.v and ComposeProofs2_aux.v (call by value, whitelisted cbn). *)
From stdpp Require Import base option list numbers fin_maps nmap.
From Coq Require Import Lia ZArith ZifyN ZifyNat ZifyBool.
From RecordUpdate Require Import RecordSet.
From Verif.Base Require Import Bytes BytesProofs.
From Verif.Codec Require Import Packets Decode Encode EncodeProofs.
From Verif.Checkers Require Import ChkCodec.
From Verif.Topics Require Import Predefined.
From Verif.Gateway Require Import GwTypes GwStep GwWf.
From Verif.Match Require Import Match MatchProofs.
From Verif.Client Require Import ClTypes ClStep Sound_Client.
From Verif.System Require Import Compose RoutingProofs ComposeProofs_aux ComposeProofs2_aux ComposeLoss_aux.
Import RecordSetNotations.
Open Scope N_scope.
Ltac Zify.zify_post_hook ::= Z.div_mod_to_equations.

(* ------------------------------------------------------------------ the client: states with a sleep transaction *)

Record ClSt (c : cl_state) (st : cstate) (objs : Nmap ctxn) (byt : Nmap N) (tms : list ctimer) : Prop := {
  cs_st : cl_st c = st; cs_objs : cl_objs c = objs; cs_by_id : cl_by_id c = ∅; cs_by_type : cl_by_type c = byt;
  cs_timers : cl_timers c = tms; cs_canc : cl_cancelled c = None; cs_exited : cl_exited c = false;
  cs_closed : cl_conn_closed c = false; cs_mid : 1 <= cl_next_mid c <= 65535 }.

Ltac rwcs H := rewrite ?(cs_st _ _ _ _ _ H), ?(cs_objs _ _ _ _ _ H), ?(cs_by_id _ _ _ _ _ H), ?(cs_by_type _ _ _ _ _ H),
  ?(cs_timers _ _ _ _ _ H), ?(cs_canc _ _ _ _ _ H), ?(cs_exited _ _ _ _ _ H), ?(cs_closed _ _ _ _ _ H).
Tactic Notation "rws" :=
  match goal with
  | HQ : ClQuiet _ |- _ => rwq HQ
  | HS : ClSt _ _ _ _ _ |- _ => rwcs HS
  end.
Ltac res_canc_s := match goal with |- context [cl_cancelled ?s0] =>
  let E := fresh "E" in assert (E : cl_cancelled s0 = None) by (pk; rws; reflexivity); rewrite E; clear E end.
Ltac cgw_shell_s p Hwf := unfold cl_step; bi; pk; rws; bi; rewrite (read_pack_roundtrip p) by Hwf; bi.
Ltac cgw_end_s := bi; res_canc_s; bi.
Ltac v_send_s Hwf :=
  match goal with |- context [c_send ?s ?p] =>
    val (c_send s p) ltac:(unfold c_send; pk; rws; bi; rewrite (pack_fits p) by Hwf; bi; pk) end.
Ltac cl_st_s H := constructor; pk; rwcs H; try reflexivity; try apply Nd_ins_emp; try apply (cs_mid _ _ _ _ _ H).

Lemma ClQuiet_St c : ClQuiet c <-> ClSt c Active ∅ ∅ [].
Proof. split; intros H; constructor; apply H. Qed.

Lemma wf_disconnect d : d < 65536 -> wf_pkt (Disconnect d) = true.
Proof. intros H. cbn [wf_pkt]. unfold lt16. apply N.ltb_lt, H. Qed.

Definition tm_resend (T sq g : N) : ctimer := {| ctm_at := T; ctm_seq := sq; ctm_kind := CtmSleepResend g |}.
Definition tm_wake (T sq g : N) : ctimer := {| ctm_at := T; ctm_seq := sq; ctm_kind := CtmSleepWake g |}.
Definition tm_pingresp (T sq g : N) : ctimer := {| ctm_at := T; ctm_seq := sq; ctm_kind := CtmSleepPingresp g |}.
Definition sl_objs (g : N) (t : ctxn) : Nmap ctxn := <[g := t]> ∅.
Definition sl_byt (g : N) : Nmap N := <[TY_DISCONNECT := g]> ∅.

Lemma cl_sleep_call cfg c id ms : ClQuiet c -> ms / 1000 < 65536 ->
  exists c1, cl_step cfg c (CCall id (ASleep ms)) = (c1, [CoSn (cl_now c) (pack (Disconnect (ms / 1000)))]) /\
    ClSt c1 Active (sl_objs (cl_next_obj c) (CxSleep id CtAwaitDisconnect 0 ms)) (sl_byt (cl_next_obj c))
      [tm_resend (cl_now c + k_rdelay cfg) (cl_next_seq c) (cl_next_obj c)] /\
    cl_frame c c1 /\ cl_next_mid c1 = cl_next_mid c.
Proof.
  intros HQ Hd. eexists. split; [|split; [|split]].
  - ccall. pk. unfold c_new_obj. bi. pk. rws. bi. rewrite (u16_small (ms / 1000)) by exact Hd.
    v_send_s ltac:(apply wf_disconnect, Hd). bi. unfold c_arm, c_set_obj. pk. rws.
    rewrite (insert_insert (M:=Nmap)). reflexivity.
  - constructor; pk; rwq HQ; try reflexivity. apply (cq_mid _ HQ).
  - repeat split.
  - reflexivity.
Qed.

Lemma cl_sleep_disc cfg c g id n ms T0 sq0 :
  ClSt c Active (sl_objs g (CxSleep id CtAwaitDisconnect n ms)) (sl_byt g) [tm_resend T0 sq0 g] ->
  exists c', cl_step cfg c (CGw (pack (Disconnect 0))) = (c', []) /\
    ClSt c' Asleep (sl_objs g (CxSleep id CtSleeping n ms)) (sl_byt g) [tm_wake (cl_now c + ms) (cl_next_seq c) g] /\
    cl_frame c c' /\ cl_next_mid c' = cl_next_mid c.
Proof.
  intros HS. unfold sl_objs, sl_byt, tm_resend in HS. eexists. split; [|split; [|split]].
  - cgw_shell_s (Disconnect 0) ltac:(reflexivity).
    v_handle ltac:(pk; rws; nl; bi; pk; rws; nl; bi; pk; unfold c_disarm, c_arm, c_set_state, c_set_obj; pk; rws; pk;
                   rewrite N.eqb_refl; pk; rewrite (insert_insert (M:=Nmap))).
    cgw_end_s. reflexivity.
  - constructor; pk; rwcs HS; try reflexivity. apply (cs_mid _ _ _ _ _ HS).
  - repeat split.
  - reflexivity.
Qed.

(* ------------------------------------------------------------------ time *)

Lemma c_run_timers_S f cfg s t : c_run_timers (S f) cfg s t =
    let exit_at := if cl_exited s then None else cl_cancelled s in
    match c_min_timer (cl_timers s) with
    | Some tm =>
      let due := ctm_at tm <=? t in
      let before_exit := match exit_at with Some te => ctm_at tm <? te | None => true end in
      if due && before_exit then
        let s := s <| cl_now := ctm_at tm |>
                   <| cl_timers := List.filter (fun u => negb (ctm_seq u =? ctm_seq tm)) (cl_timers s) |> in
        match c_fire cfg s (ctm_kind tm) with
        | (s', o) => match c_run_timers f cfg s' t with (s'', o') => (s'', o ++ o') end
        end
      else match exit_at with
           | Some te =>
             if te <=? t then
               match c_exit s te with
               | (s1, o1) => match c_run_timers f cfg s1 t with (s2, o2) => (s2, o1 ++ o2) end
               end
             else (s, [])
           | None => (s, [])
           end
    | None =>
      match exit_at with
      | Some te => if te <=? t then c_exit s te else (s, [])
      | None => (s, [])
      end
    end.
Proof. reflexivity. Qed.

(* no timer is due: nothing happens *)
Lemma c_run_timers_idle cfg c st objs byt tms t f : ClSt c st objs byt tms ->
  (forall tm, c_min_timer tms = Some tm -> t < ctm_at tm) -> c_run_timers f cfg c t = (c, []).
Proof.
  intros HS Hnd. destruct f; [reflexivity|]. rewrite c_run_timers_S. bi. rwcs HS.
  destruct (c_min_timer tms) as [tm|] eqn:E; [|reflexivity].
  assert (Ed : (ctm_at tm <=? t) = false) by (apply N.leb_gt, Hnd; reflexivity). rewrite Ed. reflexivity.
Qed.

Lemma cl_st_now c st objs byt tms t : ClSt c st objs byt tms -> ClSt (c <| cl_now := t |>) st objs byt tms.
Proof. intros HS. constructor; pk; apply HS. Qed.

Lemma cl_adv_idle_ex cfg c st objs byt tms t : ClSt c st objs byt tms -> cl_now c <= t ->
  (forall tm, c_min_timer tms = Some tm -> t < ctm_at tm) ->
  exists c1, cl_step cfg c (CAdv (t - cl_now c)) = (c1, []) /\ ClSt c1 st objs byt tms /\ cl_now c1 = t /\
    cl_handlers c1 = cl_handlers c /\ cl_registered c1 = cl_registered c /\ cl_next_mid c1 = cl_next_mid c.
Proof.
  intros HS Ht Hnd. exists (c <| cl_now := cl_now c + (t - cl_now c) |>). split; [|split; [|split; [|repeat split]]].
  - unfold cl_step. rewrite (c_run_timers_idle cfg c st objs byt tms _ _ HS); [reflexivity|].
    intros tm E. assert (Et : cl_now c + (t - cl_now c) = t) by lia. rewrite Et. apply Hnd, E.
  - apply cl_st_now, HS.
  - cbn [cl_now set]. lia.
Qed.

Lemma c_advance_fuel_1 cfg c st objs byt tm d : ClSt c st objs byt [tm] -> exists f, c_advance_fuel cfg c d = S (S f).
Proof.
  intros HS. unfold c_advance_fuel. rwcs HS. cbn [length]. set (q := d / _).
  exists (N.to_nat (N.min 100000 (4 + (N.of_nat 1 + 1) * (3 + q))) - 2)%nat. lia.
Qed.

Lemma wf_pingreq cid : okb cid = true -> wf_pkt (Pingreq cid) = true.
Proof. intros H. exact H. Qed.

(* the wake-up timer fires: the client is awake, PINGREQ (client ID), waits for PINGRESP (at most one minute) *)
Lemma cl_wake_fire cfg c g id st n ms T sq d :
  ClSt c Asleep (sl_objs g (CxSleep id st n ms)) (sl_byt g) [tm_wake T sq g] -> okb (k_cid cfg) = true ->
  cl_now c + d = T ->
  exists c', cl_step cfg c (CAdv d) = (c', [CoSn T (pack (Pingreq (k_cid cfg)))]) /\
    ClSt c' Awake (sl_objs g (CxSleep id CtAwaitPingresp n ms)) (sl_byt g) [tm_pingresp (T + maxPingrespWait) (cl_next_seq c) g] /\
    cl_now c' = T /\ cl_handlers c' = cl_handlers c /\ cl_registered c' = cl_registered c /\ cl_next_mid c' = cl_next_mid c.
Proof.
  intros HS Hcid Hd. destruct (c_advance_fuel_1 cfg c _ _ _ _ d HS) as (f & Ef).
  unfold sl_objs, sl_byt, tm_wake in HS.
  assert (Et : (T + maxPingrespWait <=? T) = false) by (apply N.leb_gt; unfold maxPingrespWait; lia).
  eexists. split; [|split].
  - unfold cl_step. rewrite Ef, Hd. rewrite c_run_timers_S. bi. rws. cbn [c_min_timer]. pk. rewrite N.leb_refl. bi. pk.
    rewrite N.eqb_refl. pk.
    match goal with |- context [c_fire ?cfg0 ?s ?k] =>
      val (c_fire cfg0 s k) ltac:(unfold c_fire; pk; rws; nl; bi; unfold c_set_state, c_set_obj; pk; rws;
        rewrite (insert_insert (M:=Nmap)); v_send_s ltac:(apply wf_pingreq, Hcid); bi; unfold c_arm; pk) end.
    bi. rewrite c_run_timers_S. bi. pk. rws. cbn [c_min_timer]. pk.
    rewrite Et. pk. reflexivity.
  - constructor; pk; rwcs HS; try reflexivity. apply (cs_mid _ _ _ _ _ HS).
  - repeat split.
Qed.

(* ------------------------------------------------------------------ the client awake, waiting for PINGRESP *)

(* a PUBLISH (QoS 0, short topic name) is handed to the handler, whatever transaction is in progress *)
Lemma cl_st_bpub0 cfg c st objs byt tms dup retain topic mid payload :
  ClSt c st objs byt tms -> is_short_topic topic = true -> wf_bytes topic -> mid < 65536 -> okb payload = true ->
  exists c', cl_step cfg c (CGw (pack (Publish dup 0 retain TIT_SHORT (encode_short topic) mid payload))) =
             (c', cb_out c topic payload 0 retain dup mid) /\
    ClSt c' st objs byt tms /\ cl_frame c c' /\ cl_next_mid c' = cl_next_mid c.
Proof.
  intros HS Hs Hw Hm Hp. eexists. split; [|split; [|split]].
  - cgw_shell_s (Publish dup 0 retain TIT_SHORT (encode_short topic) mid payload)
      ltac:(apply wf_pub_short; [lia|assumption|assumption|assumption|assumption]).
    v_handle ltac:(pk; unfold topic_for_publish; pk; rewrite (decode_encode_short topic Hs Hw); bi;
                   unfold dispatch; pk).
    cgw_end_s. reflexivity.
  - constructor; pk; apply HS.
  - repeat split.
  - reflexivity.
Qed.

Lemma sl_byt_pingreq g : sl_byt g !! TY_PINGREQ = None.
Proof.
  unfold sl_byt. rewrite (lookup_insert_ne (M:=Nmap)); [apply Nl_emp|]. unfold TY_DISCONNECT, TY_PINGREQ. lia.
Qed.

(* PINGRESP ends the wake-up cycle: Sleep returns nil; the client stays awake *)
Lemma cl_ww_pingresp cfg c g id n ms T sq :
  ClSt c Awake (sl_objs g (CxSleep id CtAwaitPingresp n ms)) (sl_byt g) [tm_pingresp T sq g] ->
  exists c', cl_step cfg c (CGw (pack Pingresp)) = (c', [CoRet (cl_now c) id ROk]) /\
    ClSt c' Awake ∅ ∅ [] /\ cl_frame c c' /\ cl_next_mid c' = cl_next_mid c.
Proof.
  intros HS. pose proof (sl_byt_pingreq g) as Hpr. unfold sl_objs, tm_pingresp in HS.
  eexists. split; [|split; [|split]].
  - cgw_shell_s Pingresp ltac:(reflexivity).
    v_handle ltac:(unfold c_get_type; pk; rws; rewrite Hpr; bi; unfold sl_byt; nl; bi; pk; rws; nl; bi; pk;
      unfold complete;
      match goal with |- context [c_finish_obj ?s ?g0] =>
        val (c_finish_obj s g0) ltac:(unfold c_finish_obj; pk; rws; nl; bi; unfold c_disarm; pk; rws; pk;
                                      rewrite ?N.eqb_refl; pk) end;
      bi; res_canc_s; bi; pk; unfold ret; pk).
    cgw_end_s. reflexivity.
  - unfold sl_byt. constructor; pk; rwcs HS; try reflexivity; try apply Nd_ins_emp. apply (cs_mid _ _ _ _ _ HS).
  - repeat split.
  - reflexivity.
Qed.

(* Sleep in the awake state: no DISCONNECT is sent, the client is asleep at once *)
Lemma cl_sleep_again cfg c id ms : ClSt c Awake ∅ ∅ [] ->
  exists c', cl_step cfg c (CCall id (ASleep ms)) = (c', []) /\
    ClSt c' Asleep (sl_objs (cl_next_obj c) (CxSleep id CtSleeping 0 ms)) (sl_byt (cl_next_obj c))
      [tm_wake (cl_now c + ms) (cl_next_seq c) (cl_next_obj c)] /\
    cl_frame c c' /\ cl_next_mid c' = cl_next_mid c.
Proof.
  intros HS. eexists. split; [|split; [|split]].
  - unfold cl_step, do_call; bi; rws; bi. pk. unfold c_new_obj. bi. pk. rws. bi.
    unfold c_arm, c_set_state, c_set_obj. pk. rws. rewrite (insert_insert (M:=Nmap)). reflexivity.
  - constructor; pk; rwcs HS; try reflexivity. apply (cs_mid _ _ _ _ _ HS).
  - repeat split.
  - reflexivity.
Qed.

Lemma cl_deadline_st c st objs byt tms : ClSt c st objs byt tms ->
  cl_next_deadline c = match c_min_timer tms with Some tm => Some (ctm_at tm) | None => None end.
Proof. intros HS. unfold cl_next_deadline. rwcs HS. destruct (c_min_timer tms); reflexivity. Qed.

(* ------------------------------------------------------------------ the gateway session with a sleeping client *)

(* no transaction, no timer, not ending; state st (Asleep for a sleeping client), sleep buffer buf *)
Record GwSt (g : gw_state) (st : cstate) (buf : list (option N * packet)) : Prop := {
  gs_st : gw_st g = st; gs_buffer : gw_buffer g = buf;
  gs_objs : gw_objs g = ∅; gs_by_id : gw_by_id g = ∅; gs_connect : gw_connect g = None;
  gs_timers : gw_timers g = []; gs_ending : gw_ending g = None; gs_ended : gw_ended g = false;
  gs_accepted : gw_accepted g = true }.

Ltac rwgs H := rewrite ?(gs_st _ _ _ H), ?(gs_buffer _ _ _ H), ?(gs_objs _ _ _ H), ?(gs_by_id _ _ _ H), ?(gs_connect _ _ _ H),
  ?(gs_timers _ _ _ H), ?(gs_ending _ _ _ H), ?(gs_ended _ _ _ H).
Tactic Notation "rwgx" :=
  match goal with
  | HG : GwQuiet _ |- _ => rwgq HG
  | HS : GwSt _ _ _ |- _ => rwgs HS
  end.
Ltac gsn_s p Hwf := unfold gw_step; bi; rwgx; bi; gk; rwgx; bi; rewrite (read_pack_roundtrip p) by Hwf; bi;
  unfold handle_sn, packet_legal; gk; rwgx; bi; gk.
Ltac gmq_s := unfold gw_step; bi; rwgx; bi; gk; rwgx; bi; unfold handle_mq; bi.

Lemma GwQuiet_St g : GwQuiet g <-> GwSt g Active (gw_buffer g).
Proof. split; intros H; constructor; try apply H. reflexivity. Qed.

(* DISCONNECT with a sleep duration that starts no sleep pinger (not longer than the keep-alive, or no keep-alive):
   DISCONNECT back at once, the session is asleep with an empty buffer *)
Lemma gw_sleep_disc cfg g dur : GwQuiet g -> 0 < dur < 65536 -> gw_keepalive g = 0 \/ dur <= gw_keepalive g ->
  exists g', gw_step cfg g (EvSn (pack (Disconnect dur))) = (g', [OutSn (gw_now g) (pack (Disconnect 0))]) /\
    GwSt g' Asleep [] /\ gw_frame g g'.
Proof.
  intros HG Hd Hnp.
  assert (Hd0 : (dur =? 0) = false) by (apply N.eqb_neq; lia).
  assert (Enp : negb (gw_keepalive g =? 0) && (gw_keepalive g <? dur) = false).
  { destruct Hnp as [Hk|Hk]; [rewrite Hk; reflexivity|]. apply andb_false_iff. right. apply N.ltb_ge, Hk. }
  eexists. split; [|split].
  - gsn_s (Disconnect dur) ltac:(apply wf_disconnect; lia). rewrite Hd0. bi. rewrite Enp. bi.
    unfold sn_send_now. gk. rewrite (pack_fits (Disconnect 0)) by reflexivity. unfold andthen, ok, finish_r. bi. gk.
    reflexivity.
  - constructor; gk; rwgq HG; try reflexivity. apply (gq_accepted _ HG).
  - repeat split.
Qed.

(* a PUBLISH of the broker (QoS 0, short topic name) for a sleeping client: nothing is written, the packet is
   appended to the buffer *)
Lemma gw_asleep_bpub0 cfg g buf dup retain topic mid payload :
  GwSt g Asleep buf -> is_short_topic topic = true ->
  exists g', gw_step cfg g (EvMq (MqPublish dup 0 retain topic mid payload)) = (g', []) /\
    GwSt g' Asleep (buf ++ [(None, Publish dup 0 retain TIT_SHORT (encode_short topic) mid payload)]) /\ gw_frame g g'.
Proof.
  intros HS Hs. eexists. split; [|split].
  - gmq_s. unfold handle_broker_publish. rewrite Hs. bi. gk. unfold sn_send, sn_send_owned. gk. rwgx. bi.
    unfold ok, finish_r. gk. rwgx. reflexivity.
  - constructor; gk; rwgs HS; try reflexivity. apply (gs_accepted _ _ _ HS).
  - repeat split.
Qed.

(* the flush *)
Lemma send_all_awake s buf : gw_st s = Awake -> Forall (fun e => wf_pkt (snd e) = true) buf ->
  send_all s buf = (s, map (fun e => OutSn (gw_now s) (pack (snd e))) buf, HOk).
Proof.
  intros Hst Hwf. induction buf as [|[o p] buf IH]; [reflexivity|].
  inversion Hwf as [|? ? Hp Hwf']; subst. cbn [snd] in Hp.
  cbn [send_all map snd]. unfold sn_send, sn_send_owned. rewrite Hst, (pack_fits p Hp). unfold andthen, ok.
  rewrite (IH Hwf'). reflexivity.
Qed.

(* PINGREQ of the sleeping client: the buffered packets in order, then PINGRESP; asleep again, buffer empty *)
Lemma gw_asleep_pingreq cfg g buf cid :
  GwSt g Asleep buf -> Forall (fun e => wf_pkt (snd e) = true) buf -> okb cid = true ->
  exists g', gw_step cfg g (EvSn (pack (Pingreq cid))) =
             (g', map (fun e => OutSn (gw_now g) (pack (snd e))) buf ++ [OutSn (gw_now g) (pack Pingresp)]) /\
    GwSt g' Asleep [] /\ gw_frame g g'.
Proof.
  intros HS Hwf Hcid. eexists. split; [|split].
  - gsn_s (Pingreq cid) ltac:(apply wf_pingreq, Hcid).
    match goal with |- context [send_all ?s ?b] => rewrite (send_all_awake s b) by (try reflexivity; exact Hwf) end.
    unfold andthen. bi. unfold sn_send, sn_send_owned. gk. rewrite (pack_fits Pingresp) by reflexivity.
    unfold ok, finish_r. bi. gk. reflexivity.
  - constructor; gk; rwgs HS; try reflexivity. apply (gs_accepted _ _ _ HS).
  - repeat split.
Qed.

(* time passing: no timer is armed *)
Lemma run_timers_st cfg g st buf t f : GwSt g st buf -> run_timers f cfg g t = (g, []).
Proof. intros HS. destruct f; [reflexivity|]. cbn [run_timers]. rwgs HS. reflexivity. Qed.

Lemma gw_adv_st_ex cfg g st buf t : GwSt g st buf -> gw_now g <= t ->
  exists g1, gw_step cfg g (EvAdvance (t - gw_now g)) = (g1, []) /\ GwSt g1 st buf /\ gw_now g1 = t /\
    gw_client_id g1 = gw_client_id g /\ gw_registered g1 = gw_registered g /\ gw_keepalive g1 = gw_keepalive g.
Proof.
  intros HS Ht. exists (g <| gw_now := gw_now g + (t - gw_now g) |>). split; [|split; [|split; [|repeat split]]].
  - unfold gw_step. rewrite (gs_ended _ _ _ HS), (run_timers_st cfg g st buf _ _ HS), (gs_ended _ _ _ HS). reflexivity.
  - constructor; gk; apply HS.
  - cbn [gw_now set]. lia.
Qed.

Lemma gw_deadline_st g st buf : GwSt g st buf -> gw_next_deadline g = None.
Proof. intros HS. unfold gw_next_deadline. rwgs HS. reflexivity. Qed.

Print Assumptions cl_sleep_call.
Print Assumptions cl_sleep_disc.
Print Assumptions cl_sleep_again.
Print Assumptions cl_wake_fire.
Print Assumptions cl_st_bpub0.
Print Assumptions cl_ww_pingresp.
Print Assumptions cl_adv_idle_ex.
Print Assumptions gw_sleep_disc.
Print Assumptions gw_asleep_bpub0.
Print Assumptions gw_asleep_pingreq.
Print Assumptions gw_adv_st_ex.
