(* System/ComposeSleepQ1n.v — C26 / C11 end to end, QoS 1: a LIST of broker PUBLISHes with QoS 1 (pairwise distinct
   message IDs, each on a subscribed short topic name) during one sleep that ends before the gateway's first
   retransmission; exact traces for ALL configurations, states, subscriptions, durations and message lists in the
   stated ranges.  Generalises C26_sleep_cycle_q1_message of ComposeSleepQ1.v.

     SleepingQ1s cfg y subs id T l Tr   the client asleep (wake-up at T); the gateway session asleep with exactly the
                                     exchanges l (QoS 1, awaiting PUBACK, objects below the object counter and pairwise distinct,
                                     retry timers at Tr), whose packets are the sleep buffer in order of arrival
     bpubs1_asleep                   the messages, one after the other: only SoBS each; buffered
     e2e_wake_up_q1s                 SAdv d reaching T < Tr: wake_trace_q1s = C2G PINGREQ (client ID); the n PUBLISHes in order of
                                     arrival; PINGRESP; per message, in order: C2G PUBACK, the handler; SoRet T id ROk; then the n
                                     MQTT PUBACKs at the broker, in order.  End state AwakeS ... [] (no transaction, no timer)
     C26_sleep_cycle_q1_messages     QuietS; Sleep(ms), 1000 <= ms < RetryDelay; the messages (NoDup message IDs, at most 3332 -
                                     the fuel of the model's work list); SAdv d, ms <= d: exact traces
     wake_trace_q1s_facts            every message reaches the handler of its subscription exactly once, in order; the broker
                                     receives exactly the PUBACKs of all message IDs, in order; Sleep returns nil once
     sleep_q1_messages_instance      concrete instance (ecfg0 / loss_y0, three messages)

   The component lemmas are in ComposeSleepQ1n_aux.v. *)
From stdpp Require Import base option list numbers fin_maps nmap.
From Coq Require Import Lia ZArith ZifyN ZifyNat ZifyBool.
From RecordUpdate Require Import RecordSet.
From Verif.Base Require Import Bytes BytesProofs.
From Verif.Codec Require Import Packets Decode Encode EncodeProofs.
From Verif.Checkers Require Import ChkCodec.
From Verif.Topics Require Import Predefined.
From Verif.Gateway Require Import GwTypes GwStep GwWf.
From Verif.Match Require Import Match MatchProofs.
From Verif.Client Require Import ClTypes ClStep Sound_Client.
From Verif.System Require Import Compose RoutingProofs ComposeProofs_aux ComposeProofs ComposeProofs2_aux ComposeProofs2
  ComposeLoss_aux ComposeLoss ComposeSleep_aux ComposeSleep ComposeSleepQ1_aux ComposeSleepQ1 ComposeSleepQ1n_aux.
Import RecordSetNotations.
Open Scope N_scope.
Ltac Zify.zify_post_hook ::= Z.div_mod_to_equations.

(* ------------------------------------------------------------------ definitions *)

(* a broker message (bmsg of ComposeSleep.v) sent with QoS 1: as the broker sends it, as the gateway forwards it, the
   client's PUBACK, the handler invocation at time T *)
Definition bm1_mq (m : bmsg) : mq_pkt := MqPublish (bm_dup m) 1 (bm_retain m) (bm_topic m) (bm_mid m) (bm_payload m).
Definition bm1_sn (m : bmsg) : packet := pub_sn (bm_dup m) (bm_retain m) (bm_topic m) (bm_mid m) (bm_payload m).
Definition bm1_ack (m : bmsg) : packet := Puback (encode_short (bm_topic m)) (bm_mid m) RC_ACCEPTED.
Definition bm1_cb (T : N) (m : bmsg) : sys_out :=
  SoCb T (sub_id (bm_sub m)) (bm_topic m) (bm_payload m) 1 (bm_retain m) (bm_dup m) (bm_mid m).
Definition bm1_ok (subs : list subn) (m : bmsg) : Prop :=
  In (bm_sub m) subs /\ 1 <= bm_mid m < 65536 /\ okb (bm_payload m) = true.

Lemma bm1_ok_topic subs m : subs_ok subs -> bm1_ok subs m ->
  is_short_topic (bm_topic m) = true /\ wf_bytes (bm_topic m) /\ encode_short (bm_topic m) < 65536.
Proof.
  intros [Hf _] (Hin & _). rewrite Forall_forall in Hf. destruct (topic_ok_spec _ (Hf _ Hin)) as (Hs & Hw & _).
  split; [exact Hs|]. split; [exact Hw|]. apply encode_short_lt; assumption.
Qed.
Lemma bm1_sn_wf subs m : subs_ok subs -> bm1_ok subs m -> wf_pkt (bm1_sn m) = true.
Proof.
  intros Hok Hm. destruct (bm1_ok_topic subs m Hok Hm) as (Hs & Hw & _). destruct Hm as (_ & Hmid & Hp).
  apply wf_pub_sn; [assumption|assumption|lia|assumption].
Qed.

(* pairwise distinct *)
Fixpoint dist (l : list N) : Prop := match l with [] => True | x :: r => ~ In x r /\ dist r end.
Lemma dist_snoc l x : dist l -> ~ In x l -> dist (l ++ [x]).
Proof.
  induction l as [|a l IH]; cbn [dist app]; intros Hd Hx.
  - split; [intros []|exact I].
  - destruct Hd as [Ha Hd]. split.
    + intros Hin. apply in_app_or in Hin. destruct Hin as [Hin|[Heq|[]]]; [exact (Ha Hin)|]. apply Hx. left. symmetry. exact Heq.
    + apply IH; [exact Hd|]. intros Hin. apply Hx. right. exact Hin.
Qed.
Lemma NoDup_dist l : NoDup l -> dist l.
Proof. induction l as [|a l IH]; intros H; [exact I|]. inversion H as [|x r Hn Hd]; subst. split; [exact Hn|exact (IH Hd)]. Qed.

(* the Sleep call id is blocked, the client asleep (wake-up at T); the gateway session is asleep and holds exactly the
   exchanges l (QoS 1, awaiting PUBACK, retry timers at Tr), whose packets are the sleep buffer, in order of arrival *)
Definition SleepingQ1s (cfg : e2e_cfg) (y : sys) (subs : list subn) (id T : N) (l : list pend) (Tr : N) : Prop :=
  (exists g n ms sq, ClSt (y_cl y) Asleep (sl_objs g (CxSleep id CtSleeping n ms)) (sl_byt g) [tm_wake T sq g]) /\
  GwPl (y_gw y) Asleep (buf_of l) l Tr /\ Forall (fun e => p_o e < gw_next_obj (y_gw y)) l /\ dist (map p_o l) /\
  Linked cfg y /\ gw_now (y_gw y) <= T /\ SubsIn y subs.

Lemma Sleeping_Q1s cfg y subs id T Tr : Sleeping cfg y subs id T [] -> SleepingQ1s cfg y subs id T [] Tr.
Proof.
  intros (HC & HG & HL & HT & HS). split; [exact HC|]. split; [apply GwSt_Pl; exact HG|]. split; [constructor|].
  split; [exact I|]. split; [exact HL|]. split; [exact HT|exact HS].
Qed.

(* ------------------------------------------------------------------ 1. the broker PUBLISHes (QoS 1) while the client sleeps *)

Lemma not_in_lt l (x : N) : Forall (fun e => p_o e < x) l -> ~ In x (map p_o l).
Proof.
  induction 1 as [|e l He _ IH]; [intros []|]. cbn [map]. intros [H|H]; [lia|exact (IH H)].
Qed.

Lemma bpub1_asleep_step cfg y subs id T l m Tr : SleepingQ1s cfg y subs id T l Tr ->
  Tr = gw_now (y_gw y) + retry_delay (e_gw cfg) -> bm1_ok subs m -> ~ In (bm_mid m) (map p_mid l) ->
  exists y' e, sys_step cfg y (SBpub (bm1_mq m)) = (y', [SoBS (gw_now (y_gw y)) (bm1_mq m)]) /\
    p_mid e = bm_mid m /\ p_pub e = bm1_sn m /\ SleepingQ1s cfg y' subs id T (l ++ [e]) Tr /\
    gw_now (y_gw y') = gw_now (y_gw y) /\ y_br y' = y_br y /\ y_c2g_k y' = y_c2g_k y /\ y_g2c_k y' = y_g2c_k y.
Proof.
  intros (HC & HG & Hlt & Hdo & (Hnow & Hcid & Hbc & Heof) & HT & HSub) -> Hm Hnm.
  pose proof HSub as (_ & _ & Hok). destruct (bm1_ok_topic subs m Hok Hm) as (Hs & _ & _).
  destruct y as [c g b k1 k2 eof]. cbn [y_cl y_gw y_br y_br_eof y_c2g_k y_g2c_k] in *.
  pose proof (not_in_lt l _ Hlt) as Hno.
  destruct (gw_asleep_bpub1_l (e_gw cfg) g l (bm_dup m) (bm_retain m) (bm_topic m) (bm_mid m) (bm_payload m) HG Hs Hno Hnm)
    as (g1 & Eg1 & HG1 & (Hgn & Hgc & _) & Hgo).
  eexists. exists {| p_o := gw_next_obj g; p_mid := bm_mid m; p_pub := bm1_sn m; p_sq := gw_next_seq g |}.
  split; [|split; [|split; [|split; [|split; [|split; [|split]]]]]].
  - unfold sys_step, bm1_mq. sk. rewrite Hbc. rewrite pump_fuel_eq. sk. rewrite Eg1. sk. reflexivity.
  - reflexivity.
  - reflexivity.
  - unfold SleepingQ1s. sk. split; [exact HC|]. split; [exact HG1|]. split; [|split; [|split; [|split; [rewrite Hgn; exact HT|exact HSub]]]].
    + rewrite Hgo. apply Forall_app. split; [|constructor; [cbn [p_o]; lia|constructor]].
      apply Forall_forall. intros e He. rewrite Forall_forall in Hlt. specialize (Hlt e He). cbn beta in Hlt. lia.
    + rewrite map_app. cbn [map p_o]. apply dist_snoc; assumption.
    + unfold Linked. sk. split; [rewrite Hgn; exact Hnow|]. split; [rewrite Hgc; exact Hcid|]. split; assumption.
  - exact Hgn.
  - reflexivity.
  - reflexivity.
  - reflexivity.
Qed.

Lemma bpubs1_asleep cfg subs id T Tr msgs : forall y l,
  SleepingQ1s cfg y subs id T l Tr -> Tr = gw_now (y_gw y) + retry_delay (e_gw cfg) ->
  Forall (bm1_ok subs) msgs -> dist (map bm_mid msgs) ->
  (forall x, In x (map p_mid l) -> ~ In x (map bm_mid msgs)) ->
  exists y' l', sys_run cfg y (map (fun m => SBpub (bm1_mq m)) msgs) =
      (map (fun m => [SoBS (gw_now (y_gw y)) (bm1_mq m)]) msgs, y') /\
    map p_mid l' = map bm_mid msgs /\ map p_pub l' = map bm1_sn msgs /\
    SleepingQ1s cfg y' subs id T (l ++ l') Tr /\
    gw_now (y_gw y') = gw_now (y_gw y) /\ y_br y' = y_br y /\ y_c2g_k y' = y_c2g_k y /\ y_g2c_k y' = y_g2c_k y.
Proof.
  induction msgs as [|m msgs IH]; intros y l HS HTr Hms Hd Hfr.
  - exists y, []. rewrite app_nil_r. split; [reflexivity|]. split; [reflexivity|]. split; [reflexivity|]. split; [exact HS|]. repeat split.
  - inversion Hms as [|? ? Hm Hms']; subst. cbn [map dist] in Hd, Hfr. destruct Hd as [Hnin Hd].
    destruct (bpub1_asleep_step cfg y subs id T l m _ HS eq_refl Hm) as (y1 & e & E1 & Hem & Hep & HS1 & Hn1 & Hb1 & Hkc1 & Hkg1).
    { intros Hin. exact (Hfr _ Hin (or_introl eq_refl)). }
    destruct (IH y1 (l ++ [e]) HS1 ltac:(rewrite Hn1; reflexivity) Hms' Hd) as (y2 & l' & E2 & Hlm & Hlp & HS2 & Hn2 & Hb2 & Hkc2 & Hkg2).
    { intros x Hx. rewrite map_app in Hx. apply in_app_or in Hx. destruct Hx as [Hx|[Hx|[]]].
      - intros Hin. exact (Hfr _ Hx (or_intror Hin)).
      - rewrite <- Hx, Hem. exact Hnin. }
    exists y2, (e :: l'). rewrite <- app_assoc in HS2. cbn [app] in HS2.
    split; [|split; [|split; [|split; [exact HS2|split; [rewrite Hn2; exact Hn1|split; [rewrite Hb2; exact Hb1|split]]]]]].
    + cbn [map sys_run]. rewrite E1, E2, Hn1. reflexivity.
    + cbn [map]. rewrite Hem, Hlm. reflexivity.
    + cbn [map]. rewrite Hep, Hlp. reflexivity.
    + rewrite Hkc2; exact Hkc1.
    + rewrite Hkg2; exact Hkg1.
Qed.

(* ------------------------------------------------------------------ 2. the wake-up before the first retransmission *)

(* the client receives the flushed PUBLISHes one after the other: PUBACK and handler for each; the PUBACKs queue up for the gateway *)
Lemma pump_cl_pubs1 cfg subs st objs byt tms g b k2 eof ms : forall f c k1 rest,
  ClSt c st objs byt tms -> cl_handlers c = handlers_of subs -> subs_ok subs -> Forall (bm1_ok subs) ms ->
  (forall i, (i < length ms)%nat -> nth_fault (e_c2g cfg) (k1 + i) = FDeliver) ->
  exists c', ClSt c' st objs byt tms /\ cl_frame c c' /\
    pump (length ms + f) cfg (Build_sys c g b k1 k2 eof) (map (fun m => ToCl (pack (bm1_sn m))) ms ++ rest) =
    (let P := pump f cfg (Build_sys c' g b (k1 + length ms) k2 eof)
                            (rest ++ map (fun m => ToGw (pack (bm1_ack m))) ms) in
     (fst P, flat_map (fun m => [SoC2G (cl_now c) FDeliver (pack (bm1_ack m)); bm1_cb (cl_now c) m]) ms ++ snd P)).
Proof.
  induction ms as [|m ms IH]; intros f c k1 rest HS Hh Hok Hms Hfc.
  - exists c. split; [exact HS|]. split; [repeat split|].
    cbn [length map app Nat.add flat_map]. rewrite Nat.add_0_r, app_nil_r. destruct (pump f cfg _ rest). reflexivity.
  - inversion Hms as [|? ? Hm Hms']; subst.
    destruct (bm1_ok_topic subs m Hok Hm) as (Hs & Hw & _). pose proof Hm as (Hin & Hmid & Hp).
    destruct (cl_st_bpub1 (e_cl cfg) c st objs byt tms (bm_dup m) (bm_retain m) (bm_topic m) (bm_mid m) (bm_payload m)
                HS Hs Hw ltac:(lia) Hp) as (c1 & Ec1 & HS1 & (Hc1n & Hc1h & Hc1r) & _).
    destruct (IH f c1 (S k1) (rest ++ [ToGw (pack (bm1_ack m))]) HS1 ltac:(rewrite Hc1h; exact Hh) Hok Hms')
      as (c' & HS' & (Hcn & Hch & Hcr) & E).
    { intros i Hi. rewrite <- (Hfc (S i) ltac:(cbn [length]; lia)). f_equal. lia. }
    exists c'. split; [exact HS'|]. split.
    + split; [rewrite Hcn; exact Hc1n|]. split; [rewrite Hch; exact Hc1h|rewrite Hcr; exact Hc1r].
    + pose proof (Hfc O ltac:(cbn [length]; lia)) as H0. rewrite Nat.add_0_r in H0.
      cbn [length map app Nat.add flat_map]. rewrite pump_S. sk. unfold bm1_sn at 1. unfold pub_sn. rewrite Ec1.
      sk. rewrite H0. sk. rewrite cl_outs_cb. rewrite Hh. unfold bm_topic. rewrite (handle_set_subs subs (bm_sub m) Hok Hin).
      sk. ynorm. rewrite <- app_assoc. fold (bm_topic m). fold (bm1_ack m). rewrite E. rewrite Hc1n.
      rewrite <- app_assoc. cbn [app length]. rewrite Nat.add_succ_r. reflexivity.
Qed.

(* the gateway (asleep again) receives the PUBACKs in order: MQTT PUBACK for each; they queue up for the broker *)
Lemma pump_gw_acks cfg subs c b k1 k2 eof Tr ms : forall l f g rest,
  GwPl g Asleep [] l Tr -> map p_mid l = map bm_mid ms -> dist (map p_o l) -> dist (map bm_mid ms) ->
  subs_ok subs -> Forall (bm1_ok subs) ms ->
  exists g', GwPl g' Asleep [] [] Tr /\ gw_now g' = gw_now g /\ gw_client_id g' = gw_client_id g /\
    pump (length ms + f) cfg (Build_sys c g b k1 k2 eof) (map (fun m => ToGw (pack (bm1_ack m))) ms ++ rest) =
    (let P := pump f cfg (Build_sys c g' b k1 k2 eof)
                            (rest ++ map (fun m => ToBroker (MqPuback (bm_mid m))) ms) in
     (fst P, map (fun m => SoBR (gw_now g) (MqPuback (bm_mid m))) ms ++ snd P)).
Proof.
  induction ms as [|m ms IH]; intros l f g rest HG Hlm Hdo Hdm Hok Hms.
  - destruct l as [|e l]; [|discriminate Hlm]. exists g. split; [exact HG|]. split; [reflexivity|]. split; [reflexivity|].
    cbn [length map app Nat.add]. rewrite app_nil_r. destruct (pump f cfg _ rest). reflexivity.
  - destruct l as [|e l]; [discriminate Hlm|]. cbn [map] in Hlm. injection Hlm as Hem Hlm.
    cbn [map dist] in Hdo, Hdm. destruct Hdo as [Hno Hdo]. destruct Hdm as [Hnm Hdm].
    inversion Hms as [|? ? Hm Hms']; subst.
    destruct (bm1_ok_topic subs m Hok Hm) as (_ & _ & He). pose proof Hm as (_ & Hmid & _).
    destruct (gw_pl_puback (e_gw cfg) g e l Tr (encode_short (bm_topic m)) HG Hno ltac:(rewrite Hem, Hlm; exact Hnm) He
                ltac:(rewrite Hem; exact Hmid)) as (g1 & Eg1 & HG1 & (Hg1n & Hg1c & _)).
    rewrite Hem in Eg1.
    destruct (IH l f g1 (rest ++ [ToBroker (MqPuback (bm_mid m))]) HG1 Hlm Hdo Hdm Hok Hms') as (g' & HG' & Hgn & Hgc & E).
    exists g'. split; [exact HG'|]. split; [rewrite Hgn; exact Hg1n|]. split; [rewrite Hgc; exact Hg1c|].
    cbn [length map app Nat.add]. rewrite pump_S. sk. unfold bm1_ack at 1. rewrite Eg1. sk. ynorm.
    rewrite <- app_assoc. rewrite E. rewrite Hg1n. rewrite <- app_assoc. cbn [app]. reflexivity.
Qed.

(* the broker takes the PUBACKs: no answer *)
Lemma pump_broker_acks cfg c g b k1 k2 eof (ms : list bmsg) : forall f rest, b_closed b = false ->
  pump (length ms + f) cfg (Build_sys c g b k1 k2 eof) (map (fun m => ToBroker (MqPuback (bm_mid m))) ms ++ rest) =
  pump f cfg (Build_sys c g b k1 k2 eof) rest.
Proof.
  induction ms as [|m ms IH]; intros f rest Hbc; [reflexivity|].
  cbn [length map app Nat.add]. rewrite pump_S. sk. unfold broker_recv. rewrite Hbc. sk. rewrite Hbc. sk. ynorm.
  rewrite app_nil_r. rewrite (IH f rest Hbc). destruct (pump f cfg _ rest). reflexivity.
Qed.

Lemma pump_fuel_split3 n : N.of_nat n <= 3332 -> exists f, pump_fuel = S (n + S (n + (n + f))).
Proof. intros Hn. exists (N.to_nat 9998 - n - n - n)%nat. unfold pump_fuel. lia. Qed.

(* what the model produces at the wake-up time T: PINGREQ (client ID); the buffered PUBLISHes in order of arrival, then
   PINGRESP (one step of the gateway); per message, in order: the client's PUBACK and the handler; Sleep returns nil; then
   the gateway relays the PUBACKs to the broker, in order *)
Definition wake_trace_q1s (cfg : e2e_cfg) (T id : N) (ms : list bmsg) : list sys_out :=
  SoC2G T FDeliver (pack (Pingreq (k_cid (e_cl cfg)))) ::
  map (fun m => SoG2C T FDeliver (pack (bm1_sn m))) ms ++
  SoG2C T FDeliver (pack Pingresp) ::
  flat_map (fun m => [SoC2G T FDeliver (pack (bm1_ack m)); bm1_cb T m]) ms ++
  SoRet T id ROk :: map (fun m => SoBR T (MqPuback (bm_mid m))) ms.

Lemma buf_of_wf subs l ms : subs_ok subs -> Forall (bm1_ok subs) ms -> map p_pub l = map bm1_sn ms ->
  Forall (fun e : option N * packet => wf_pkt (snd e) = true) (buf_of l).
Proof.
  intros Hok Hms. revert l. induction Hms as [|m ms Hm _ IH]; intros l Hl; destruct l as [|e l]; try discriminate Hl; [constructor|].
  cbn [map] in Hl. injection Hl as He Hl. cbn [buf_of map]. constructor; [cbn [snd]; rewrite He; exact (bm1_sn_wf subs m Hok Hm)|].
  exact (IH l Hl).
Qed.

Lemma adv_both_wake_q1s cfg y subs id T l Tr ms :
  SleepingQ1s cfg y subs id T l Tr -> map p_mid l = map bm_mid ms -> map p_pub l = map bm1_sn ms ->
  Forall (bm1_ok subs) ms -> dist (map bm_mid ms) -> okb (k_cid (e_cl cfg)) = true -> T < Tr ->
  N.of_nat (length ms) <= 3332 ->
  (forall i, (i <= length ms)%nat -> nth_fault (e_c2g cfg) (y_c2g_k y + i) = FDeliver) ->
  (forall i, (i <= length ms)%nat -> nth_fault (e_g2c cfg) (y_g2c_k y + i) = FDeliver) ->
  exists y', advance_both cfg y T = (y', wake_trace_q1s cfg T id ms) /\
    AwakeS cfg y' subs [] /\ gw_now (y_gw y') = T /\ y_br y' = y_br y /\
    y_c2g_k y' = (y_c2g_k y + S (length ms))%nat /\ y_g2c_k y' = (y_g2c_k y + S (length ms))%nat.
Proof.
  intros ((g0 & n & ms0 & sq & HC) & HG & _ & Hdo & (Hnow & Hcid & Hbc & Heof) & HT & (Hb & Hh & Hok)) Hlm Hlp Hms Hdm Hokc HTr Hlen Hfc Hfg.
  destruct y as [c g b k1 k2 eof]. cbn [y_cl y_gw y_br y_br_eof y_c2g_k y_g2c_k] in *.
  destruct (cl_wake_fire (e_cl cfg) c g0 id CtSleeping n ms0 T sq (T - cl_now c) HC Hokc ltac:(lia))
    as (c1 & Ec1 & HC1 & Hc1n & Hc1h & _).
  destruct (gw_adv_pl_ex (e_gw cfg) g _ _ _ _ T HG HT HTr) as (g1 & Eg1 & HG1 & Hg1n & Hg1c & _).
  destruct (gw_pl_pingreq (e_gw cfg) g1 _ _ _ (k_cid (e_cl cfg)) HG1 (buf_of_wf subs l ms Hok Hms Hlp) Hokc)
    as (g2 & Eg2 & HG2 & (Hg2n & Hg2c & _)).
  assert (Eo : map (fun e : option N * packet => OutSn (gw_now g1) (pack (snd e))) (buf_of l) ++ [OutSn (gw_now g1) (pack Pingresp)] =
               map (OutSn T) (map (fun m => pack (bm1_sn m)) ms ++ [pack Pingresp])).
  { rewrite Hg1n. unfold buf_of. rewrite map_app, !map_map. cbn [snd].
    rewrite <- (map_map p_pub (fun p => OutSn T (pack p))), Hlp, map_map. reflexivity. }
  rewrite Eo in Eg2. clear Eo.
  destruct (pump_fuel_split3 (length ms) Hlen) as (f & Ef).
  set (k2' := (k2 + length (map (fun m => pack (bm1_sn m)) ms ++ [pack Pingresp]))%nat).
  destruct (pump_cl_pubs1 cfg subs _ _ _ _ g2 b k2' eof ms (S (length ms + (length ms + f))) c1 (S k1) [ToCl (pack Pingresp)]
              HC1 ltac:(rewrite Hc1h; exact Hh) Hok Hms) as (c2 & HC2 & (Hc2n & Hc2h & _) & Ep1).
  { intros i Hi. rewrite <- (Hfc (S i) ltac:(lia)). f_equal. lia. }
  destruct (cl_ww_pingresp (e_cl cfg) c2 _ _ _ _ _ _ HC2) as (c3 & Ec3 & HC3 & (Hc3n & Hc3h & _) & _).
  destruct (pump_gw_acks cfg subs c3 b (S k1 + length ms)%nat k2' eof Tr ms l (length ms + f) g2 [] HG2 Hlm Hdo Hdm Hok Hms)
    as (g3 & HG3 & Hg3n & Hg3c & Ep2).
  pose proof (Hfc O ltac:(lia)) as Hfc0. rewrite Nat.add_0_r in Hfc0.
  eexists. split; [|split; [|split; [|split; [|split]]]].
  - unfold advance_both. sk. rewrite Ec1. sk. rewrite Hfc0.
    sk. ynorm. rewrite Eg1. sk. ynorm.
    rewrite Ef. rewrite pump_S. sk. rewrite Eg2. ynorm.
    rewrite gw_outs_deliver.
    2:{ intros i Hi. rewrite app_length, map_length in Hi. cbn [length] in Hi. apply Hfg. lia. }
    fold k2'. rewrite map_app, map_map. cbn [map app]. rewrite Ep1.
    cbn [app]. rewrite pump_S. sk. rewrite Ec3. sk. ynorm. rewrite app_nil_r.
    rewrite <- (app_nil_r (map (fun m => ToGw (pack (bm1_ack m))) ms)). rewrite Ep2. cbn [app].
    rewrite <- (app_nil_r (map (fun m => ToBroker (MqPuback (bm_mid m))) ms)). rewrite (pump_broker_acks cfg c3 g3 b _ _ eof ms f [] Hbc).
    rewrite pump_nil.
    unfold wake_trace_q1s. rewrite map_app, map_map. cbn [map]. rewrite ?Hc2n, ?Hc1n, ?Hg2n, ?Hg1n.
    rewrite <- !app_assoc. cbn [app]. rewrite app_nil_r. reflexivity.
  - unfold AwakeS. sk. split; [exact HC3|]. split; [apply (GwPl_St _ _ _ Tr); exact HG3|]. split; [|split; [exact Hb|split; [|exact Hok]]].
    + unfold Linked. sk. split; [rewrite Hc3n, Hc2n, Hc1n, Hg3n, Hg2n, Hg1n; reflexivity|].
      split; [rewrite Hg3c, Hg2c, Hg1c; exact Hcid|]. split; assumption.
    + sk. rewrite Hc3h, Hc2h, Hc1h. exact Hh.
  - sk. rewrite Hg3n, Hg2n. exact Hg1n.
  - reflexivity.
  - sk. lia.
  - sk. unfold k2'. rewrite app_length, map_length. cbn [length]. lia.
Qed.

Lemma deadline_sleeping_q1s cfg y subs id T l Tr : SleepingQ1s cfg y subs id T l Tr -> T < Tr ->
  min_opt (cl_next_deadline (y_cl y)) (gw_next_deadline (y_gw y)) = Some T.
Proof.
  intros ((g0 & n & ms0 & sq & HC) & HG & _) HTr. rewrite (cl_deadline_st _ _ _ _ _ HC). cbn [c_min_timer tm_wake ctm_at].
  destruct l as [|e l].
  - rewrite (gw_deadline_st _ _ _ (GwPl_St _ _ _ _ HG)). reflexivity.
  - rewrite (gw_deadline_pl _ _ _ _ _ _ HG). cbn [min_opt]. f_equal. lia.
Qed.

Theorem e2e_wake_up_q1s cfg y subs id T l Tr ms d :
  SleepingQ1s cfg y subs id T l Tr -> map p_mid l = map bm_mid ms -> map p_pub l = map bm1_sn ms ->
  Forall (bm1_ok subs) ms -> dist (map bm_mid ms) -> okb (k_cid (e_cl cfg)) = true -> T < Tr ->
  N.of_nat (length ms) <= 3332 ->
  (forall i, (i <= length ms)%nat -> nth_fault (e_c2g cfg) (y_c2g_k y + i) = FDeliver) ->
  (forall i, (i <= length ms)%nat -> nth_fault (e_g2c cfg) (y_g2c_k y + i) = FDeliver) ->
  T <= gw_now (y_gw y) + d ->
  exists y', sys_step cfg y (SAdv d) = (y', wake_trace_q1s cfg T id ms) /\
    AwakeS cfg y' subs [] /\ gw_now (y_gw y') = gw_now (y_gw y) + d /\ y_br y' = y_br y.
Proof.
  intros HS Hlm Hlp Hms Hdm Hokc HTr Hlen Hfc Hfg Hd.
  destruct (adv_both_wake_q1s cfg y subs id T l Tr ms HS Hlm Hlp Hms Hdm Hokc HTr Hlen Hfc Hfg) as (y1 & E1 & HA1 & Hn1 & Hb1 & _).
  pose proof HS as (_ & _ & _ & _ & HL & HT & _). pose proof HL as (Hnow & _).
  change (sys_step cfg y (SAdv d)) with (advance_to adv_fuel cfg y (sys_now y + d)).
  rewrite (sys_now_linked cfg y HL). destruct adv_fuel_eq as (f & ->).
  rewrite advance_to_S, (deadline_sleeping_q1s cfg y subs id T l Tr HS HTr).
  destruct (T <? gw_now (y_gw y) + d) eqn:Elt.
  - assert (Emax : N.max T (N.max (cl_now (y_cl y)) (gw_now (y_gw y))) = T) by lia. rewrite Emax, E1.
    rewrite (adv_to_awake cfg y1 subs [] _ f HA1).
    destruct (adv_both_awake cfg y1 subs [] (gw_now (y_gw y) + d) HA1 ltac:(apply N.ltb_lt in Elt; lia))
      as (y2 & E2 & HA2 & Hn2 & Hb2 & _).
    rewrite E2, app_nil_r. exists y2. split; [reflexivity|]. split; [exact HA2|]. split; [exact Hn2|rewrite Hb2; exact Hb1].
  - assert (gw_now (y_gw y) + d = T) as -> by (apply N.ltb_ge in Elt; lia). rewrite E1.
    exists y1. split; [reflexivity|]. split; [exact HA1|]. split; [exact Hn1|exact Hb1].
Qed.

(* ------------------------------------------------------------------ 3. the cycle *)

Theorem C26_sleep_cycle_q1_messages cfg y subs id ms msgs d :
  QuietS cfg y subs -> 1000 <= ms -> ms / 1000 < 65536 ->
  gw_keepalive (y_gw y) = 0 \/ ms / 1000 <= gw_keepalive (y_gw y) ->
  ms < retry_delay (e_gw cfg) ->
  Forall (bm1_ok subs) msgs -> NoDup (map bm_mid msgs) -> N.of_nat (length msgs) <= 3332 -> okb (k_cid (e_cl cfg)) = true ->
  (forall i, (i <= S (length msgs))%nat -> nth_fault (e_c2g cfg) (y_c2g_k y + i) = FDeliver) ->
  (forall i, (i <= S (length msgs))%nat -> nth_fault (e_g2c cfg) (y_g2c_k y + i) = FDeliver) ->
  ms <= d ->
  let t := gw_now (y_gw y) in
  exists oss y', sys_run cfg y (SCall id (ASleep ms) :: map (fun m => SBpub (bm1_mq m)) msgs ++ [SAdv d]) = (oss, y') /\
    oss = [SoC2G t FDeliver (pack (Disconnect (ms / 1000))); SoG2C t FDeliver (pack (Disconnect 0))] ::
          map (fun m => [SoBS t (bm1_mq m)]) msgs ++ [wake_trace_q1s cfg (t + ms) id msgs] /\
    AwakeS cfg y' subs [] /\ gw_now (y_gw y') = t + d /\ y_br y' = y_br y.
Proof.
  intros HQ Hms Hdur Hnp Hrd Hmsgs Hnd Hlen Hokc Hfc Hfg Hd t. subst t.
  pose proof (NoDup_dist _ Hnd) as Hdm.
  destruct (e2e_sleep_call cfg y subs id ms HQ Hms Hdur Hnp) as (y1 & E1 & HS1 & Hn1 & Hb1 & Hkc1 & Hkg1).
  { rewrite <- (Hfc O ltac:(lia)). f_equal. lia. }
  { rewrite <- (Hfg O ltac:(lia)). f_equal. lia. }
  set (Tr := gw_now (y_gw y) + retry_delay (e_gw cfg)).
  destruct (bpubs1_asleep cfg subs id _ Tr msgs y1 [] (Sleeping_Q1s cfg y1 subs id _ Tr HS1) ltac:(rewrite Hn1; reflexivity) Hmsgs Hdm
              ltac:(intros x [])) as (y2 & l & E2 & Hlm & Hlp & HS2 & Hn2 & Hb2 & Hkc2 & Hkg2).
  cbn [app] in HS2.
  destruct (e2e_wake_up_q1s cfg y2 subs id _ l Tr msgs d HS2 Hlm Hlp Hmsgs Hdm Hokc ltac:(unfold Tr; lia) Hlen)
    as (y3 & E3 & HA3 & Hn3 & Hb3).
  - intros i Hi. rewrite Hkc2, Hkc1. rewrite <- (Hfc (S i) ltac:(lia)). f_equal. lia.
  - intros i Hi. rewrite Hkg2, Hkg1. rewrite <- (Hfg (S i) ltac:(lia)). f_equal. lia.
  - rewrite Hn2, Hn1. lia.
  - eexists. exists y3. split; [|split; [reflexivity|split; [exact HA3|split; [rewrite Hn3, Hn2, Hn1; reflexivity|rewrite Hb3, Hb2; exact Hb1]]]].
    cbn [sys_run]. rewrite E1.
    rewrite (sys_run_app cfg _ [SAdv d] y1 _ y2 [wake_trace_q1s cfg (gw_now (y_gw y) + ms) id msgs] y3 E2).
    + rewrite Hn1. reflexivity.
    + cbn [sys_run]. rewrite E3. reflexivity.
Qed.

(* what the trace of the wake-up says *)
Definition bm1_rec (m : bmsg) : N * bytes * bytes * N * bool * bool * N :=
  (sub_id (bm_sub m), bm_topic m, bm_payload m, 1, bm_retain m, bm_dup m, bm_mid m).

Lemma flat_map_flat_one {A B C} (f : B -> list C) (g : A -> list B) (h : A -> C) l :
  (forall x, flat_map f (g x) = [h x]) -> flat_map f (flat_map g l) = map h l.
Proof. intros H. induction l as [|x l IH]; [reflexivity|]. cbn [flat_map map]. rewrite flat_map_app, H, IH. reflexivity. Qed.
Lemma flat_map_flat_nil {A B C} (f : B -> list C) (g : A -> list B) l :
  (forall x, flat_map f (g x) = []) -> flat_map f (flat_map g l) = [].
Proof. intros H. induction l as [|x l IH]; [reflexivity|]. cbn [flat_map]. rewrite flat_map_app, H, IH. reflexivity. Qed.

Lemma wake_trace_q1s_facts cfg T id ms :
  cbs_full (wake_trace_q1s cfg T id ms) = map bm1_rec ms /\
  rets_of (wake_trace_q1s cfg T id ms) = [(id, ROk)] /\
  brs_of (wake_trace_q1s cfg T id ms) = map (fun m => MqPuback (bm_mid m)) ms.
Proof.
  unfold wake_trace_q1s, cbs_full, rets_of, brs_of. cbn [flat_map app]. rewrite !flat_map_app. cbn [flat_map app]. rewrite !flat_map_app.
  cbn [flat_map app]. split; [|split].
  - rewrite (flat_map_map_nil _ _ ms) by reflexivity. rewrite (flat_map_flat_one _ _ bm1_rec ms) by reflexivity.
    rewrite (flat_map_map_nil _ _ ms) by reflexivity. rewrite app_nil_r. reflexivity.
  - rewrite (flat_map_map_nil _ _ ms) by reflexivity. rewrite (flat_map_flat_nil _ _ ms) by reflexivity.
    rewrite (flat_map_map_nil _ _ ms) by reflexivity. reflexivity.
  - rewrite (flat_map_map_nil _ _ ms) by reflexivity. rewrite (flat_map_flat_nil _ _ ms) by reflexivity.
    rewrite (flat_map_map_one _ _ (fun m => MqPuback (bm_mid m)) ms) by reflexivity. reflexivity.
Qed.

(* ------------------------------------------------------------------ 4. a concrete instance *)

Definition q1_m1 : bmsg := {| bm_dup := false; bm_retain := false; bm_sub := loss_sub; bm_mid := 1000; bm_payload := [7] |}.
Definition q1_m2 : bmsg := {| bm_dup := false; bm_retain := true; bm_sub := loss_sub; bm_mid := 1001; bm_payload := [8] |}.
Definition q1_m3 : bmsg := {| bm_dup := true; bm_retain := false; bm_sub := loss_sub; bm_mid := 1002; bm_payload := [9] |}.

Example sleep_q1_messages_instance :
  exists y', sys_run ecfg0 loss_y0 (SCall 3 (ASleep 5000) :: map (fun m => SBpub (bm1_mq m)) [q1_m1; q1_m2; q1_m3] ++ [SAdv 7000]) =
    ([[SoC2G 0 FDeliver [4; 24; 0; 5]; SoG2C 0 FDeliver [2; 24]];
      [SoBS 0 (bm1_mq q1_m1)]; [SoBS 0 (bm1_mq q1_m2)]; [SoBS 0 (bm1_mq q1_m3)];
      [SoC2G 5000 FDeliver [4; 22; 99; 49];
       SoG2C 5000 FDeliver [8; 12; 34; 97; 98; 3; 232; 7]; SoG2C 5000 FDeliver [8; 12; 50; 97; 98; 3; 233; 8];
       SoG2C 5000 FDeliver [8; 12; 162; 97; 98; 3; 234; 9]; SoG2C 5000 FDeliver [2; 23];
       SoC2G 5000 FDeliver [7; 13; 97; 98; 3; 232; 0]; SoCb 5000 2 [97; 98] [7] 1 false false 1000;
       SoC2G 5000 FDeliver [7; 13; 97; 98; 3; 233; 0]; SoCb 5000 2 [97; 98] [8] 1 true false 1001;
       SoC2G 5000 FDeliver [7; 13; 97; 98; 3; 234; 0]; SoCb 5000 2 [97; 98] [9] 1 false true 1002;
       SoRet 5000 3 ROk;
       SoBR 5000 (MqPuback 1000); SoBR 5000 (MqPuback 1001); SoBR 5000 (MqPuback 1002)]], y') /\
    AwakeS ecfg0 y' [loss_sub] [].
Proof.
  destruct (C26_sleep_cycle_q1_messages ecfg0 loss_y0 [loss_sub] 3 5000 [q1_m1; q1_m2; q1_m3] 7000)
    as (oss & y' & E & Eo & HA & _).
  - exact loss_y0_quiet.
  - lia.
  - lia.
  - right. vm_compute. intros H. discriminate H.
  - vm_compute. reflexivity.
  - repeat constructor; cbn [bm_mid q1_m1 q1_m2 q1_m3]; lia.
  - cbn [map bm_mid q1_m1 q1_m2 q1_m3]. repeat constructor; cbn [In]; intros H; repeat destruct H as [H|H]; try discriminate H; exact H.
  - cbn [length]. lia.
  - reflexivity.
  - intros i _. apply nth_fault_nil.
  - intros i _. apply nth_fault_nil.
  - lia.
  - subst oss. exists y'. split; [exact E|exact HA].
Qed.

(* ------------------------------------------------------------------ 5. assumptions *)

Print Assumptions e2e_wake_up_q1s.
Print Assumptions C26_sleep_cycle_q1_messages.
Print Assumptions wake_trace_q1s_facts.
Print Assumptions sleep_q1_messages_instance.
