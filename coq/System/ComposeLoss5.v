(* System/ComposeLoss5.v — C16 (liveness), QoS 2 WITH the REGISTER step: one broker PUBLISH with QoS 2 on a name that has
   no topic ID yet (RegReady), an active quiescent client, no other traffic; any pattern rs0 of at most RetryCount failed
   rounds of the REGISTER step (REGISTER or REGACK lost), then a LOSSLESS QoS 2 flow (rs1 = rs2 = [] of the general
   statement; the general three-phase statement needs the lemmas of ComposeLoss3_aux.v generalised from short topic names
   and snpub = None to registered topic IDs and snpub = Some pub - not done here).

     C16_new_topic_qos2_survives_register_losses   exact traces of SBpub m and SAdv d together (SoBS m :: traceRq ... rs0);
                                    Quiet again; RegDone: both sides have the new registration
     traceRq_facts                  the handler of the first matching subscription runs exactly once, the broker receives exactly
                                    [PUBREC mid; PUBCOMP mid], no call returns
     reg_q2_instance / _computed    a concrete pattern (ecfgL5: REGACK lost, REGISTER lost)

   The component lemmas are in ComposeLoss5_aux.v. *)
From stdpp Require Import base option list numbers fin_maps nmap.
From Coq Require Import Lia ZArith ZifyN ZifyNat ZifyBool.
From RecordUpdate Require Import RecordSet.
From Verif.Base Require Import Bytes BytesProofs.
From Verif.Codec Require Import Packets Decode Encode EncodeProofs.
From Verif.Checkers Require Import ChkCodec.
From Verif.Topics Require Import Predefined.
From Verif.Gateway Require Import GwTypes GwStep GwWf.
From Verif.Match Require Import Match MatchProofs.
From Verif.Client Require Import ClTypes ClStep Sound_Client.
From Verif.System Require Import Compose RoutingProofs ComposeProofs_aux ComposeProofs ComposeProofs2_aux ComposeProofs2
  ComposeProofs3_aux ComposeLoss_aux ComposeLoss ComposeLoss2_aux ComposeLoss2 ComposeLoss3_aux ComposeLoss4_aux ComposeLoss5_aux.
Import RecordSetNotations.
Open Scope N_scope.
Ltac Zify.zify_post_hook ::= Z.div_mod_to_equations.

(* ------------------------------------------------------------------ the theorem *)

Lemma adv_fuel_S5 : exists f, adv_fuel = S f.
Proof. exists (N.to_nat 99999). unfold adv_fuel. lia. Qed.

(* C16 (liveness), QoS 2 with the REGISTER step: one broker PUBLISH with QoS 2 on a name that has no topic ID yet, an active
   quiescent client, no other traffic.  The REGISTER step fails as rs0 says (true: the REGISTER is lost; false: it is
   delivered and the REGACK is lost), length rs0 <= RetryCount rounds; the next round gets through and the QoS 2 flow that
   follows (PUBLISH under the new topic ID, PUBREC, PUBREL, PUBCOMP) is lossless.  Exact traces; the handler of the first
   matching subscription runs exactly once; the broker receives PUBREC and PUBCOMP; Quiet again with the new registration. *)
Theorem C16_new_topic_qos2_survives_register_losses cfg y dup retain topic mid payload rs0 d :
  Quiet cfg y -> RegReady cfg y topic -> 1 <= mid < 65536 -> okb payload = true ->
  0 < retry_delay (e_gw cfg) ->
  N.of_nat (length rs0) <= retry_count (e_gw cfg) -> N.of_nat (length rs0) < 99990 ->
  faultsq cfg rs0 (y_c2g_k y) (y_g2c_k y) ->
  N.of_nat (length rs0) * retry_delay (e_gw cfg) <= d ->
  let t := gw_now (y_gw y) in
  let i := gw_seq_next (y_gw y) in
  let hs := handle_set (cl_handlers (y_cl y)) topic in
  let m := MqPublish dup 2 retain topic mid payload in
  exists y1 y2 tr1 tr2,
    sys_step cfg y (SBpub m) = (y1, tr1) /\ sys_step cfg y1 (SAdv d) = (y2, tr2) /\
    tr1 ++ tr2 = SoBS t m :: traceRq retain topic mid i payload hs (retry_delay (e_gw cfg)) rs0 t dup /\
    Quiet cfg y2 /\ gw_now (y_gw y2) = t + d /\ RegDone y y2 topic i.
Proof.
  intros HQ Hready Hm Hp Hrd Hrc0 Hk Hfaults Hd t i hs m. subst t m.
  pose proof (RegReady_pre cfg y topic Hready) as Hpre. fold i in Hpre.
  pose proof Hready as (_ & Ho1 & _ & _ & _ & _ & Hi & _). cbv zeta in Hi. fold i in Hi.
  set (rd := retry_delay (e_gw cfg)) in *.
  pose proof (breg2_entry cfg y dup retain topic mid payload HQ Hready Hm Hp) as H0. cbv zeta in H0. fold i in H0.
  destruct H0 as (y0 & HH0 & Hn0 & Hb0 & Hc0 & Hg0 & Hkc0 & Hkg0 & E0).
  assert (Hhs0 : handle_set (cl_handlers (y_cl y0)) topic = hs) by (rewrite Hc0; reflexivity).
  assert (Hpre0 : RegPre (cl_registered (y_cl y0)) topic i) by (rewrite Hc0; exact Hpre).
  destruct rs0 as [|b0 r0].
  - destruct Hfaults as (Hfg0 & Hfg1 & Hfg2 & Hfc0 & Hfc1 & Hfc2). cbn [length] in *.
    rewrite Hfg0 in E0. cbn [map copies] in E0. unfold pump_rest11 in E0.
    pose proof (S0q retain topic mid i payload hs Ho1 Hi Hm Hp cfg y0 0 _ (S (S pump_rest)) dup HH0 Hhs0 Hpre0
                  ltac:(rewrite Hkc0; exact Hfc0) ltac:(rewrite Hkc0; exact Hfc1) ltac:(rewrite Hkc0; exact Hfc2)
                  ltac:(rewrite Hkg0; exact Hfg1) ltac:(rewrite Hkg0; exact Hfg2)) as H1.
    cbv zeta in H1. destruct H1 as (y1 & E1 & HQ1 & Hn1 & Hb1 & Hh1 & Hr1 & Hg1).
    rewrite E1 in E0.
    destruct adv_fuel_S5 as (f & Ef). pose proof HQ1 as (_ & _ & Hnow1 & _).
    destruct (adv_both_quiet2 cfg y1 (gw_now (y_gw y1) + d) HQ1 ltac:(lia)) as (y2 & E2 & HQ2 & Hn2 & Hb2 & Hh2 & _ & _ & (Hrc2 & Hrg2) & _).
    exists y1, y2. eexists. exists []. split; [exact E0|]. split; [|split; [|split; [exact HQ2|split]]].
    + change (sys_step cfg y1 (SAdv d)) with (advance_to adv_fuel cfg y1 (sys_now y1 + d)).
      unfold sys_now. rewrite Hnow1, N.max_id, Ef, (adv_to_quiet cfg y1 _ f HQ1). exact E2.
    + rewrite app_nil_r, Hn0. reflexivity.
    + rewrite Hn2, Hn1, Hn0. reflexivity.
    + split; [rewrite Hb2, Hb1; exact Hb0|]. split; [rewrite Hh2, Hh1, Hc0; reflexivity|].
      split; [rewrite Hrc2, Hr1, Hc0; reflexivity|rewrite Hrg2, Hg1, Hg0; reflexivity].
  - assert (Efl : nth_fault (e_g2c cfg) (y_g2c_k y) = fl_of b0) by (destruct b0; cbn [faultsq] in Hfaults; exact (proj1 Hfaults)).
    unfold pump_rest11 in E0. rewrite Efl in E0.
    assert (Hstep : exists y1, pump (S (S (S (S (S (S (S (S (S (S (S pump_rest))))))))))) cfg y0
                       (map ToCl (copies (fl_of b0) (pack (Register i mid topic)))) =
                       (y1, if b0 then [] else [SoC2G (gw_now (y_gw y)) FDrop (pack (Regack i mid RC_ACCEPTED))]) /\
              Hold2 cfg y1 None (txreg2 mid i topic (pubr2 dup retain i mid payload) 0) mid (gw_now (y_gw y) + rd) /\
              gw_now (y_gw y1) = gw_now (y_gw y) /\ y_br y1 = y_br y0 /\ cl_handlers (y_cl y1) = cl_handlers (y_cl y0) /\
              cl_registered (y_cl y1) = (if b0 then cl_registered (y_cl y0) else reg_set (cl_registered (y_cl y0)) topic i) /\
              gw_registered (y_gw y1) = gw_registered (y_gw y0) /\
              y_c2g_k y1 = (if b0 then y_c2g_k y0 else S (y_c2g_k y0)) /\ y_g2c_k y1 = y_g2c_k y0).
    { destruct b0; cbn [fl_of map copies].
      - exists y0. rewrite pump_nil. split; [reflexivity|]. split; [exact HH0|]. split; [exact Hn0|]. repeat split.
      - destruct Hfaults as (_ & Hfc & _).
        destruct (pump_reg_ackdrop cfg y0 i topic _ mid _ (S (S (S (S (S (S (S (S (S (S pump_rest)))))))))) HH0 Ho1 Hi Hm
                    Hpre0 ltac:(rewrite Hkc0; exact Hfc))
          as (y1 & E1 & HH1 & Hn1 & Hb1 & Hh1 & Hr1 & Hg1 & Hkc1 & Hkg1).
        exists y1. rewrite E1, Hn0. split; [reflexivity|]. split; [exact HH1|]. split; [rewrite Hn1; exact Hn0|].
        split; [exact Hb1|]. split; [exact Hh1|]. split; [exact Hr1|]. split; [rewrite Hg1; reflexivity|]. split; assumption. }
    destruct Hstep as (y1 & E1 & HH1 & Hn1 & Hb1 & Hh1 & Hr1 & Hg1 & Hkc1 & Hkg1).
    rewrite E1 in E0.
    destruct (regpre_step topic i _ Hpre0) as (Hpre' & Hidem & _).
    assert (Hpre1 : RegPre (cl_registered (y_cl y1)) topic i /\
                    reg_set (cl_registered (y_cl y1)) topic i = reg_set (cl_registered (y_cl y)) topic i).
    { rewrite Hr1. destruct b0; [split; [exact Hpre0|rewrite Hc0; reflexivity]|]. split; [exact Hpre'|rewrite Hidem, Hc0; reflexivity]. }
    destruct (advRq retain topic mid i payload hs Ho1 Hi Hm Hp cfg r0 dup _ y1 0 (gw_now (y_gw y) + rd)
                adv_fuel (gw_now (y_gw y1) + d) HH1 ltac:(rewrite Hh1; exact Hhs0) (proj1 Hpre1) (proj2 Hpre1)
                ltac:(cbn [length] in Hrc0; lia) Hrd)
      as (y2 & E2 & HQ2 & Hn2 & Hb2 & Hh2 & Hr2 & Hg2).
    { rewrite Hkc1, Hkg1, Hkc0, Hkg0. destruct b0; cbn [faultsq] in Hfaults; [exact (proj2 Hfaults)|exact (proj2 (proj2 Hfaults))]. }
    { rewrite Hn1. cbn [length] in Hd. fold rd. lia. }
    { unfold adv_fuel. cbn [length] in Hk. lia. }
    exists y1, y2. eexists. eexists. split; [exact E0|]. split; [|split; [|split; [exact HQ2|split]]].
    + rewrite (sys_step_adv2 cfg y1 _ _ _ _ d HH1). exact E2.
    + cbn [traceRq app]. destruct b0; reflexivity.
    + rewrite Hn2, Hn1. reflexivity.
    + split; [rewrite Hb2, Hb1; exact Hb0|]. split; [rewrite Hh2, Hh1, Hc0; reflexivity|].
      split; [exact Hr2|rewrite Hg2, Hg1, Hg0; reflexivity].
Qed.

(* the handler of the first matching subscription runs exactly once; the broker receives exactly PUBREC and PUBCOMP *)
Lemma traceRq_facts retain topic mid i payload h hs' rd rs0 : forall T dp,
  cbs_full (traceRq retain topic mid i payload (h :: hs') rd rs0 T dp) = [(h, topic, payload, 2, retain, dp, mid)] /\
  brs_of (traceRq retain topic mid i payload (h :: hs') rd rs0 T dp) = [MqPubrec mid; MqPubcomp mid] /\
  rets_of (traceRq retain topic mid i payload (h :: hs') rd rs0 T dp) = [].
Proof.
  induction rs0 as [|b r IH]; intros T dp; [repeat split|].
  destruct (IH (T + rd) dp) as (I1 & I2 & I3).
  unfold cbs_full, brs_of, rets_of in *. cbn [traceRq flat_map]. rewrite !flat_map_app, I1, I2, I3.
  destruct b; repeat split.
Qed.

(* ------------------------------------------------------------------ a concrete instance *)

(* reg_y0 of ComposeLoss2.v (Connect, Subscribe "a/#" QoS 1 granted; two datagrams each way so far); QoS 2 message on "a/bc":
   the REGACK is lost, the retransmitted REGISTER is lost, the third round and the QoS 2 flow get through.  (The broker
   sends QoS 2; the handler is that of the matching subscription.) *)
Definition ecfgL5 : e2e_cfg :=
  {| e_gw := gcfg0; e_cl := ccfg0; e_c2g := [FDeliver; FDeliver; FDrop]; e_g2c := [FDeliver; FDeliver; FDeliver; FDrop] |}.

Example reg_q2_instance :
  exists y1 y2 tr1 tr2,
    sys_step ecfgL5 reg_y0 (SBpub (MqPublish false 2 false reg_topic 1000 [7])) = (y1, tr1) /\
    sys_step ecfgL5 y1 (SAdv 25000) = (y2, tr2) /\
    cbs_full (tr1 ++ tr2) = [(2, reg_topic, [7], 2, false, false, 1000)] /\
    brs_of (tr1 ++ tr2) = [MqPubrec 1000; MqPubcomp 1000] /\ rets_of (tr1 ++ tr2) = [] /\
    Quiet ecfgL5 y2 /\ gw_now (y_gw y2) = 25000 /\ RegDone reg_y0 y2 reg_topic 1.
Proof.
  destruct reg_y0_facts as (Enow & Ekc & Ekg & Eseq & Ehs & Ereg).
  destruct (C16_new_topic_qos2_survives_register_losses ecfgL5 reg_y0 false false reg_topic 1000 [7] [false; true] 25000)
    as (y1 & y2 & tr1 & tr2 & E1 & E2 & Et & HQ & Hn & HD).
  - apply reg_y0_quiet. reflexivity.
  - apply reg_y0_ready. reflexivity.
  - lia.
  - reflexivity.
  - vm_compute. reflexivity.
  - vm_compute. intros H. discriminate H.
  - vm_compute. reflexivity.
  - rewrite Ekc, Ekg. vm_compute. repeat split; reflexivity.
  - vm_compute. intros H. discriminate H.
  - rewrite Ehs, Eseq in Et. rewrite Eseq in HD.
    destruct (traceRq_facts false reg_topic 1000 1 [7] 2 [] (retry_delay (e_gw ecfgL5)) [false; true] (gw_now (y_gw reg_y0)) false)
      as (F1 & F2 & F3).
    exists y1, y2, tr1, tr2. split; [exact E1|]. split; [exact E2|]. rewrite Et.
    split; [exact F1|]. split; [exact F2|]. split; [exact F3|]. split; [exact HQ|]. split; [rewrite Hn, Enow; reflexivity|exact HD].
Qed.

Example reg_q2_computed :
  map cbs_of (fst (sys_run ecfgL5 reg_y0 [SBpub (MqPublish false 2 false reg_topic 1000 [7]); SAdv 25000])) =
    [[]; [(2, reg_topic, [7])]] /\
  map brs_of (fst (sys_run ecfgL5 reg_y0 [SBpub (MqPublish false 2 false reg_topic 1000 [7]); SAdv 25000])) =
    [[]; [MqPubrec 1000; MqPubcomp 1000]].
Proof. vm_compute. split; reflexivity. Qed.

(* ------------------------------------------------------------------ assumptions *)

Print Assumptions C16_new_topic_qos2_survives_register_losses.
Print Assumptions traceRq_facts.
Print Assumptions reg_q2_instance.
Print Assumptions reg_q2_computed.
