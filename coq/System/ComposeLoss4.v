(* System/ComposeLoss4.v — C16 (liveness), the REGISTER step under ANY loss pattern within the retry budgets: one broker
   PUBLISH with QoS 1 on a name that has no topic ID yet (RegReady of ComposeLoss2.v), an active quiescent client, no other
   traffic; exact traces for ALL configurations, states, names, message IDs, payloads and loss patterns in the stated ranges.

     C16_new_topic_qos1_survives_any_loss_pattern   phase 0 (REGISTER -> REGACK) fails length rs0 <= RetryCount rounds, phase 1
                                   (PUBLISH -> PUBACK, a fresh budget) length rs1 <= RetryCount rounds; the traces of SBpub m and
                                   SAdv d together are SoBS m :: traceR ... rs0 rs1; Quiet again; RegDone: both sides have the
                                   new registration (recorded once), broker and handler table unchanged
     traceR_facts                  the handler of the first matching subscription runs 1 + (number of lost PUBACKs) times (QoS 1:
                                   at least once), the broker receives exactly one PUBACK, no call returns
     reg_pattern_instance / _computed   a concrete pattern (ecfgL4: REGACK lost, REGISTER lost, PUBLISH lost, PUBACK lost)

   The component lemmas are in ComposeLoss4_aux.v. *)
From stdpp Require Import base option list numbers fin_maps nmap.
From Coq Require Import Lia ZArith ZifyN ZifyNat ZifyBool.
From RecordUpdate Require Import RecordSet.
From Verif.Base Require Import Bytes BytesProofs.
From Verif.Codec Require Import Packets Decode Encode EncodeProofs.
From Verif.Checkers Require Import ChkCodec.
From Verif.Topics Require Import Predefined.
From Verif.Gateway Require Import GwTypes GwStep GwWf.
From Verif.Match Require Import Match MatchProofs.
From Verif.Client Require Import ClTypes ClStep Sound_Client.
From Verif.System Require Import Compose RoutingProofs ComposeProofs_aux ComposeProofs ComposeProofs2_aux ComposeProofs2
  ComposeProofs3_aux ComposeLoss_aux ComposeLoss ComposeLoss2_aux ComposeLoss2 ComposeLoss3_aux ComposeLoss4_aux.
Import RecordSetNotations.
Open Scope N_scope.
Ltac Zify.zify_post_hook ::= Z.div_mod_to_equations.

(* ------------------------------------------------------------------ the theorem *)

Lemma adv_fuel_S4 : exists f, adv_fuel = S f.
Proof. exists (N.to_nat 99999). unfold adv_fuel. lia. Qed.

(* C16 (liveness) for one broker PUBLISH with QoS 1 on a name that has no topic ID yet (RegReady: the REGISTER step is
   needed), an ACTIVE quiescent client, no other traffic.  Phase 0 (REGISTER -> REGACK): the first transmission and the
   following retransmissions fail as rs0 says (true: the REGISTER is lost; false: it is delivered - the client registers the
   name, or accepts the same registration again - and the REGACK is lost), length rs0 <= RetryCount; the next round gets
   through and the gateway sends the PUBLISH it kept, under the new topic ID.  Phase 1 (PUBLISH -> PUBACK, a fresh retry
   budget): fails as rs1 says (true: PUBLISH lost; false: delivered - the handler runs - and the PUBACK lost), length rs1 <=
   RetryCount; the next round gets through.  The traces of SBpub m and SAdv d (d >= (length rs0 + length rs1) * RetryDelay)
   together are exactly SoBS m :: traceR ...; the system is quiescent again and both sides have the new registration. *)
Theorem C16_new_topic_qos1_survives_any_loss_pattern cfg y dup retain topic mid payload rs0 rs1 d :
  Quiet cfg y -> RegReady cfg y topic -> 1 <= mid < 65536 -> okb payload = true ->
  0 < retry_delay (e_gw cfg) ->
  N.of_nat (length rs0) <= retry_count (e_gw cfg) -> N.of_nat (length rs1) <= retry_count (e_gw cfg) ->
  N.of_nat (length rs0 + length rs1) < 99990 ->
  faults1 cfg rs0 rs1 (y_c2g_k y) (y_g2c_k y) ->
  N.of_nat (length rs0 + length rs1) * retry_delay (e_gw cfg) <= d ->
  let t := gw_now (y_gw y) in
  let i := gw_seq_next (y_gw y) in
  let hs := handle_set (cl_handlers (y_cl y)) topic in
  let m := MqPublish dup 1 retain topic mid payload in
  exists y1 y2 tr1 tr2,
    sys_step cfg y (SBpub m) = (y1, tr1) /\ sys_step cfg y1 (SAdv d) = (y2, tr2) /\
    tr1 ++ tr2 = SoBS t m :: traceR retain topic mid i payload hs (retry_delay (e_gw cfg)) rs0 rs1 t dup /\
    Quiet cfg y2 /\ gw_now (y_gw y2) = t + d /\ RegDone y y2 topic i.
Proof.
  intros HQ Hready Hm Hp Hrd Hrc0 Hrc1 Hk Hfaults Hd t i hs m. subst t m.
  pose proof (RegReady_pre cfg y topic Hready) as Hpre. fold i in Hpre.
  pose proof Hready as (_ & Ho1 & _ & _ & _ & _ & Hi & _). cbv zeta in Hi. fold i in Hi.
  set (rd := retry_delay (e_gw cfg)) in *.
  pose proof (breg_entry cfg y dup retain topic mid payload HQ Hready Hm Hp) as H0. cbv zeta in H0. fold i in H0.
  destruct H0 as (y0 & HH0 & Hn0 & Hb0 & Hc0 & Hg0 & Hkc0 & Hkg0 & E0).
  assert (Hhs0 : handle_set (cl_handlers (y_cl y0)) topic = hs) by (rewrite Hc0; reflexivity).
  assert (Hpre0 : RegPre (cl_registered (y_cl y0)) topic i) by (rewrite Hc0; exact Hpre).
  fold (register_dg topic mid i) in E0.
  destruct rs0 as [|b0 r0].
  - destruct Hfaults as (Hfg & Hfc & Hfaults1). cbn [length Nat.add] in *.
    rewrite Hfg in E0. cbn [map copies] in E0. unfold pump_rest11 in E0.
    pose proof (S0 retain topic mid i payload hs Ho1 Hi Hm Hp cfg y0 0 _ (S (S (S (S (S (S pump_rest)))))) dup
                  (match rs1 with b1 :: _ => Some b1 | [] => None end) HH0 Hhs0 Hpre0 ltac:(rewrite Hkc0; exact Hfc)) as H1.
    cbv zeta in H1. destruct H1 as (y1 & E1 & Hpost & Hn1 & Hb1 & Hh1 & Hr1 & Hg1 & Hkc1 & Hkg1).
    { rewrite Hkc0, Hkg0. destruct rs1 as [|[|] r1]; cbn [faults_ok] in Hfaults1.
      - exact Hfaults1.
      - exact (proj1 Hfaults1).
      - destruct Hfaults1 as (A & B & _). split; assumption. }
    rewrite E1 in E0.
    assert (Hhs1 : handle_set (cl_handlers (y_cl y1)) topic = hs) by (rewrite Hh1; exact Hhs0).
    destruct (regpre_step topic i _ Hpre0) as (_ & _ & Hfind). rewrite <- Hr1 in Hfind.
    destruct rs1 as [|b1 r1].
    + destruct adv_fuel_S4 as (f & Ef).
      pose proof Hpost as (_ & _ & Hnow1 & _).
      destruct (adv_both_quiet2 cfg y1 (gw_now (y_gw y1) + d) Hpost ltac:(lia)) as (y2 & E2 & HQ2 & Hn2 & Hb2 & Hh2 & _ & _ & (Hrc2 & Hrg2) & _).
      exists y1, y2. eexists. exists []. split; [exact E0|]. split; [|split; [|split; [exact HQ2|split]]].
      * change (sys_step cfg y1 (SAdv d)) with (advance_to adv_fuel cfg y1 (sys_now y1 + d)).
        unfold sys_now. rewrite Hnow1, N.max_id, Ef, (adv_to_quiet cfg y1 _ f Hpost). exact E2.
      * rewrite app_nil_r, Hn0. reflexivity.
      * rewrite Hn2, Hn1, Hn0. reflexivity.
      * split; [rewrite Hb2, Hb1; exact Hb0|]. split; [rewrite Hh2, Hh1, Hc0; reflexivity|].
        split; [rewrite Hrc2, Hr1, Hc0; reflexivity|rewrite Hrg2, Hg1, Hg0; reflexivity].
    + pose proof Hpost as HH1. cbv beta iota in HH1. rewrite Hn0 in HH1.
      destruct (advA retain topic mid i payload hs Hi Hm Hp cfg r1 y1 dup _ 0 (gw_now (y_gw y) + rd)
                  adv_fuel (gw_now (y_gw y1) + d) HH1 Hhs1 Hfind ltac:(cbn [length] in Hrc1; lia) Hrd)
        as (y2 & E2 & HQ2 & Hn2 & Hb2 & Hh2 & (Hrc2 & Hrg2)).
      { rewrite Hkc1, Hkg1, Hkc0, Hkg0. destruct b1; cbn [faults_ok] in Hfaults1; [exact (proj2 Hfaults1)|exact (proj2 (proj2 Hfaults1))]. }
      { rewrite Hn1, Hn0. cbn [length] in Hd. fold rd. lia. }
      { unfold adv_fuel. cbn [length] in Hk. lia. }
      exists y1, y2. eexists. eexists. split; [exact E0|]. split; [|split; [|split; [exact HQ2|split]]].
      * rewrite (sys_step_adv2 cfg y1 _ _ _ _ d HH1). exact E2.
      * rewrite Hn0. cbn [traceR]. rewrite (traceA_rest retain topic mid i payload hs rd (b1 :: r1)). cbn [restA].
        destruct b1; reflexivity.
      * rewrite Hn2, Hn1, Hn0. reflexivity.
      * split; [rewrite Hb2, Hb1; exact Hb0|]. split; [rewrite Hh2, Hh1, Hc0; reflexivity|].
        split; [rewrite Hrc2, Hr1, Hc0; reflexivity|rewrite Hrg2, Hg1, Hg0; reflexivity].
  - destruct (R0f topic mid i Ho1 Hi Hm cfg y0 _ 0 _
                (S (S (S (S (S (S (S (S (S (S pump_rest)))))))))) (nth_fault (e_g2c cfg) (y_g2c_k y)) b0 HH0 Hpre0)
      as (y1 & E1 & HH1 & Hn1 & Hb1 & Hh1 & Hr1 & Hg1 & Hkc1 & Hkg1).
    { rewrite Hkc0. destruct b0; cbn [faults1] in Hfaults; [exact (proj1 Hfaults)|]. destruct Hfaults as (A & B & _). split; assumption. }
    unfold pump_rest11 in E0. rewrite E1 in E0.
    assert (Efl : nth_fault (e_g2c cfg) (y_g2c_k y) = fl_of b0) by (destruct b0; cbn [faults1] in Hfaults; exact (proj1 Hfaults)).
    destruct (regpre_step topic i _ Hpre0) as (Hpre' & Hidem & _).
    assert (Hpre1 : RegPre (cl_registered (y_cl y1)) topic i /\
                    reg_set (cl_registered (y_cl y1)) topic i = reg_set (cl_registered (y_cl y)) topic i).
    { rewrite Hr1. destruct b0; [split; [exact Hpre0|rewrite Hc0; reflexivity]|]. split; [exact Hpre'|rewrite Hidem, Hc0; reflexivity]. }
    destruct (advR retain topic mid i payload hs Ho1 Hi Hm Hp cfg rs1 r0 dup _ y1 0 (gw_now (y_gw y) + rd)
                adv_fuel (gw_now (y_gw y1) + d) HH1 ltac:(rewrite Hh1; exact Hhs0) (proj1 Hpre1) (proj2 Hpre1)
                ltac:(cbn [length] in Hrc0; lia) Hrc1 Hrd)
      as (y2 & E2 & HQ2 & Hn2 & Hb2 & Hh2 & Hr2 & Hg2).
    { rewrite Hkc1, Hkg1, Hkc0, Hkg0. destruct b0; cbn [faults1] in Hfaults; [exact (proj2 Hfaults)|exact (proj2 (proj2 Hfaults))]. }
    { rewrite Hn1, Hn0. cbn [length] in Hd. fold rd. lia. }
    { unfold adv_fuel. cbn [length] in Hk. lia. }
    exists y1, y2. eexists. eexists. split; [exact E0|]. split; [|split; [|split; [exact HQ2|split]]].
    + rewrite (sys_step_adv2 cfg y1 _ _ _ _ d HH1). exact E2.
    + rewrite Efl, Hn0. cbn [traceR app]. destruct b0; reflexivity.
    + rewrite Hn2, Hn1, Hn0. reflexivity.
    + split; [rewrite Hb2, Hb1; exact Hb0|]. split; [rewrite Hh2, Hh1, Hc0; reflexivity|].
      split; [exact Hr2|rewrite Hg2, Hg1, Hg0; reflexivity].
Qed.

(* ------------------------------------------------------------------ what the trace says *)

Lemma traceA_facts retain topic mid i payload h hs' rd rs1 : forall T dp,
  cbs_of (traceA retain topic mid i payload (h :: hs') rd rs1 T dp) = repeat (h, topic, payload) (S (count_false rs1)) /\
  brs_of (traceA retain topic mid i payload (h :: hs') rd rs1 T dp) = [MqPuback mid] /\
  rets_of (traceA retain topic mid i payload (h :: hs') rd rs1 T dp) = [].
Proof.
  induction rs1 as [|b r IH]; intros T dp; [repeat split|].
  destruct (IH (T + rd) true) as (I1 & I2 & I3).
  unfold cbs_of, brs_of, rets_of in *. cbn [traceA flat_map]. rewrite !flat_map_app, I1, I2, I3.
  destruct b; repeat split.
Qed.

(* QoS 1: the handler of the first matching subscription runs once per PUBLISH that reaches the client - 1 + (number of lost
   PUBACKs) times, all with that topic and payload; the broker receives exactly one PUBACK; no call returns.  Lost REGISTERs
   and REGACKs cause no handler invocation *)
Lemma traceR_facts retain topic mid i payload h hs' rd rs1 rs0 : forall T dp,
  cbs_of (traceR retain topic mid i payload (h :: hs') rd rs0 rs1 T dp) = repeat (h, topic, payload) (S (count_false rs1)) /\
  brs_of (traceR retain topic mid i payload (h :: hs') rd rs0 rs1 T dp) = [MqPuback mid] /\
  rets_of (traceR retain topic mid i payload (h :: hs') rd rs0 rs1 T dp) = [].
Proof.
  induction rs0 as [|b r IH]; intros T dp.
  - exact (traceA_facts retain topic mid i payload h hs' rd rs1 T dp).
  - destruct (IH (T + rd) dp) as (I1 & I2 & I3).
    unfold cbs_of, brs_of, rets_of in *. cbn [traceR flat_map]. rewrite !flat_map_app, I1, I2, I3.
    destruct b; repeat split.
Qed.

(* ------------------------------------------------------------------ a concrete instance *)

(* reg_y0 of ComposeLoss2.v (ecfg0: RetryCount 3, RetryDelay 10 s; Connect, Subscribe "a/#"; two datagrams each way so far);
   message on "a/bc".  From now on: the REGACK is lost; the retransmitted REGISTER is lost; the third gets through; the PUBLISH
   is lost; its retransmission is delivered (handler) but the PUBACK is lost; the next round gets through (handler again) *)
Definition ecfgL4 : e2e_cfg :=
  {| e_gw := gcfg0; e_cl := ccfg0;
     e_c2g := [FDeliver; FDeliver; FDrop; FDeliver; FDrop];
     e_g2c := [FDeliver; FDeliver; FDeliver; FDrop; FDeliver; FDrop; FDeliver] |}.

Example reg_pattern_instance :
  exists y1 y2 tr1 tr2,
    sys_step ecfgL4 reg_y0 (SBpub (MqPublish false 1 false reg_topic 1000 [7])) = (y1, tr1) /\
    sys_step ecfgL4 y1 (SAdv 45000) = (y2, tr2) /\
    cbs_of (tr1 ++ tr2) = [(2, reg_topic, [7]); (2, reg_topic, [7])] /\
    brs_of (tr1 ++ tr2) = [MqPuback 1000] /\ rets_of (tr1 ++ tr2) = [] /\
    Quiet ecfgL4 y2 /\ gw_now (y_gw y2) = 45000 /\ RegDone reg_y0 y2 reg_topic 1.
Proof.
  destruct reg_y0_facts as (Enow & Ekc & Ekg & Eseq & Ehs & Ereg).
  destruct (C16_new_topic_qos1_survives_any_loss_pattern ecfgL4 reg_y0 false false reg_topic 1000 [7] [false; true] [true; false] 45000)
    as (y1 & y2 & tr1 & tr2 & E1 & E2 & Et & HQ & Hn & HD).
  - apply reg_y0_quiet. reflexivity.
  - apply reg_y0_ready. reflexivity.
  - lia.
  - reflexivity.
  - vm_compute. reflexivity.
  - vm_compute. intros H. discriminate H.
  - vm_compute. intros H. discriminate H.
  - vm_compute. reflexivity.
  - rewrite Ekc, Ekg. vm_compute. repeat split; reflexivity.
  - vm_compute. intros H. discriminate H.
  - rewrite Ehs, Eseq in Et. rewrite Eseq in HD.
    destruct (traceR_facts false reg_topic 1000 1 [7] 2 [] (retry_delay (e_gw ecfgL4)) [true; false] [false; true] (gw_now (y_gw reg_y0)) false)
      as (F1 & F2 & F3).
    exists y1, y2, tr1, tr2. split; [exact E1|]. split; [exact E2|]. rewrite Et.
    split; [exact F1|]. split; [exact F2|]. split; [exact F3|]. split; [exact HQ|]. split; [rewrite Hn, Enow; reflexivity|exact HD].
Qed.

(* the same run, computed *)
Example reg_pattern_computed :
  fst (sys_run ecfgL4 reg_y0 [SBpub (MqPublish false 1 false reg_topic 1000 [7]); SAdv 45000]) =
    [[SoBS 0 (MqPublish false 1 false reg_topic 1000 [7]);
      SoG2C 0 FDeliver [10; 10; 0; 1; 3; 232; 97; 47; 98; 99]; SoC2G 0 FDrop [7; 11; 0; 1; 3; 232; 0]];
     [SoG2C 10000 FDrop [10; 10; 0; 1; 3; 232; 97; 47; 98; 99];
      SoG2C 20000 FDeliver [10; 10; 0; 1; 3; 232; 97; 47; 98; 99]; SoC2G 20000 FDeliver [7; 11; 0; 1; 3; 232; 0];
      SoG2C 20000 FDrop [8; 12; 32; 0; 1; 3; 232; 7];
      SoG2C 30000 FDeliver [8; 12; 160; 0; 1; 3; 232; 7]; SoC2G 30000 FDrop [7; 13; 0; 1; 3; 232; 0];
      SoCb 30000 2 reg_topic [7] 1 false true 1000;
      SoG2C 40000 FDeliver [8; 12; 160; 0; 1; 3; 232; 7]; SoC2G 40000 FDeliver [7; 13; 0; 1; 3; 232; 0];
      SoCb 40000 2 reg_topic [7] 1 false true 1000; SoBR 40000 (MqPuback 1000)]].
Proof. vm_compute. reflexivity. Qed.

(* ------------------------------------------------------------------ assumptions *)

Print Assumptions C16_new_topic_qos1_survives_any_loss_pattern.
Print Assumptions traceR_facts.
Print Assumptions reg_pattern_instance.
Print Assumptions reg_pattern_computed.
