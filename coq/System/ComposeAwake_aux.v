(* System/ComposeAwake_aux.v — component lemmas for System/ComposeAwake.v: API calls in the AWAKE state (after Sleep
   has returned; the gateway session is still asleep).

     cl_awake_ping / cl_awake_pingresp   Ping: PINGREQ without client ID out, retry timer; PINGRESP in: the call returns nil
     cl_awake_pub0                       Publish QoS 0 (short topic name): PUBLISH out, returns nil at once
     cl_awake_disconnect                 Disconnect: DISCONNECT out / in, returns nil, disconnected, group context cancelled
     gw_asleep_pub0                      the client's PUBLISH QoS 0 is forwarded to the broker also while the session is asleep
     gw_asleep_disconnect                DISCONNECT 0 of a sleeping session: MQTT DISCONNECT, DISCONNECT back (written, not queued),
                                         the session begins to end; the sleep buffer is not flushed

   Style and tactics: see ComposeSleep_aux.v. *)
From stdpp Require Import base option list numbers fin_maps nmap.
From Coq Require Import Lia ZArith ZifyN ZifyNat ZifyBool.
From RecordUpdate Require Import RecordSet.
From Verif.Base Require Import Bytes BytesProofs.
From Verif.Codec Require Import Packets Decode Encode EncodeProofs.
From Verif.Checkers Require Import ChkCodec.
From Verif.Topics Require Import Predefined.
From Verif.Gateway Require Import GwTypes GwStep GwWf.
From Verif.Match Require Import Match MatchProofs.
From Verif.Client Require Import ClTypes ClStep Sound_Client.
From Verif.System Require Import Compose RoutingProofs ComposeProofs_aux ComposeProofs2_aux ComposeLoss_aux ComposeSleep_aux.
Import RecordSetNotations.
Open Scope N_scope.
Ltac Zify.zify_post_hook ::= Z.div_mod_to_equations.

(* ------------------------------------------------------------------ the client awake and idle (after Sleep has returned) *)

Definition tm_retry (T sq g : N) : ctimer := {| ctm_at := T; ctm_seq := sq; ctm_kind := CtmRetry g |}.
Definition pg_objs (g id : N) : Nmap ctxn := <[g := CxRetry id 5 TY_PINGREQ CtNone (Pingreq []) 0 id]> ∅.
Definition pg_byt (g : N) : Nmap N := <[TY_PINGREQ := g]> ∅.

Ltac v_start_retry_s Hwf :=
  match goal with |- context [start_retry ?cfg ?s ?call ?kind ?key ?st ?p ?bt] =>
    val (start_retry cfg s call kind key st p bt)
      ltac:(unfold start_retry, c_new_obj, c_arm, c_send; pk; rws; pk; rewrite (pack_fits p) by Hwf; pk) end.

(* Ping: PINGREQ (no client ID) out, retry timer *)
Lemma cl_awake_ping cfg c id : ClSt c Awake ∅ ∅ [] ->
  exists c1, cl_step cfg c (CCall id APing) = (c1, [CoSn (cl_now c) (pack (Pingreq []))]) /\
    ClSt c1 Awake (pg_objs (cl_next_obj c) id) (pg_byt (cl_next_obj c))
      [tm_retry (cl_now c + k_rdelay cfg) (cl_next_seq c) (cl_next_obj c)] /\ cl_frame c c1.
Proof.
  intros HS. eexists. split; [|split].
  - unfold cl_step, do_call; bi; rws; bi. v_start_retry_s ltac:(reflexivity). bi. pk. rws. reflexivity.
  - constructor; pk; rwcs HS; try reflexivity. apply (cs_mid _ _ _ _ _ HS).
  - repeat split.
Qed.

(* PINGRESP: Ping returns nil *)
Lemma cl_awake_pingresp cfg c g id T sq : ClSt c Awake (pg_objs g id) (pg_byt g) [tm_retry T sq g] ->
  exists c', cl_step cfg c (CGw (pack Pingresp)) = (c', [CoRet (cl_now c) id ROk]) /\
    ClSt c' Awake ∅ ∅ [] /\ cl_frame c c'.
Proof.
  intros HS. unfold pg_objs, pg_byt, tm_retry in HS. eexists. split; [|split].
  - cgw_shell_s Pingresp ltac:(reflexivity).
    v_handle ltac:(unfold c_get_type; pk; rws; nl; bi; pk; rws; nl; bi; pk; unfold complete;
      match goal with |- context [c_finish_obj ?s ?g0] =>
        val (c_finish_obj s g0) ltac:(unfold c_finish_obj; pk; rws; nl; bi; unfold c_disarm; pk; rws; pk;
                                      rewrite ?N.eqb_refl; pk) end;
      bi; res_canc_s; bi; pk; unfold ret; pk).
    cgw_end_s. reflexivity.
  - constructor; pk; rwcs HS; try reflexivity; try apply Nd_ins_emp. apply (cs_mid _ _ _ _ _ HS).
  - repeat split.
Qed.

(* Publish on a short topic name, QoS 0 *)
Lemma cl_awake_pub0 cfg c id topic retain payload :
  ClSt c Awake ∅ ∅ [] -> is_short_topic topic = true -> wf_bytes topic -> okb payload = true ->
  exists c', cl_step cfg c (CCall id (APublish topic 0 retain payload)) =
             (c', [CoSn (cl_now c) (pack (Publish false 0 retain TIT_SHORT (encode_short topic) (cl_next_mid c) payload));
                   CoRet (cl_now c) id ROk]) /\
    ClSt c' Awake ∅ ∅ [] /\ cl_frame c c'.
Proof.
  intros HS Hs Hw Hp. pose proof (cs_mid _ _ _ _ _ HS) as Hmid. eexists. split; [|split].
  - unfold cl_step, do_call; bi; rws; bi. rewrite Hs. bi. unfold do_publish, c_next_mid, c_send, ret. pk. rws. pk.
    rewrite (pack_fits (Publish false 0 retain TIT_SHORT (encode_short topic) (cl_next_mid c) payload))
      by (apply wf_pub_short; [lia|assumption|assumption|lia|assumption]).
    pk. rws. reflexivity.
  - constructor; pk; rwcs HS; try reflexivity. apply next_mid_range, Hmid.
  - repeat split.
Qed.

(* Disconnect: DISCONNECT out, DISCONNECT in, the call returns nil; the client is disconnected, its group context cancelled *)
Lemma cl_awake_disconnect cfg c id : ClSt c Awake ∅ ∅ [] ->
  exists c1 c', cl_step cfg c (CCall id ADisconnect) = (c1, [CoSn (cl_now c) (pack (Disconnect 0))]) /\
    cl_step cfg c1 (CGw (pack (Disconnect 0))) = (c', [CoRet (cl_now c) id ROk]) /\
    cl_st c' = Disconnected /\ cl_cancelled c' = Some (cl_now c + 1000) /\ cl_exited c' = false /\ cl_now c' = cl_now c /\
    cl_now c1 = cl_now c.
Proof.
  intros HS.
  assert (Hpoll : (cl_now c + readTimeout * ((cl_now c - cl_now c) / readTimeout + 1) <=? cl_now c) = false).
  { apply N.leb_gt. unfold readTimeout. rewrite N.sub_diag. change (0 / 1000) with 0. lia. }
  assert (Hpoll' : cl_now c + readTimeout * ((cl_now c - cl_now c) / readTimeout + 1) = cl_now c + 1000).
  { unfold readTimeout. rewrite N.sub_diag. change (0 / 1000) with 0. lia. }
  eexists. eexists. split; [|split].
  - unfold cl_step, do_call; bi; rws; bi. v_start_retry_s ltac:(reflexivity). bi. unfold c_set_state. pk. rws. reflexivity.
  - unfold cl_step; bi; pk; rws; bi; rewrite (read_pack_roundtrip (Disconnect 0)) by reflexivity; bi;
    unfold handle_packet; bi; unfold c_get_id, c_get_type; pk; nl; bi; pk; nl; bi; pk.
    unfold complete.
    match goal with |- context [c_finish_obj ?s ?g] =>
      val (c_finish_obj s g) ltac:(unfold c_finish_obj; pk; nl; bi; unfold c_disarm; pk; rewrite ?N.eqb_refl; pk) end.
    bi. pk. rws. pk.
    match goal with |- context [c_cancel_from_api ?s] =>
      val (c_cancel_from_api s) ltac:(unfold c_cancel_from_api, c_stop_ctx_timers, next_poll; pk; rws; pk) end.
    unfold ret. pk. rewrite Hpoll. reflexivity.
  - pk. rewrite Hpoll'. repeat split. apply (cs_exited _ _ _ _ _ HS).
Qed.

(* ------------------------------------------------------------------ the gateway session asleep *)

(* PUBLISH (short topic name, QoS 0) of the client: forwarded to the broker also while the session is asleep *)
Lemma gw_asleep_pub0 cfg g buf topic retain mid payload :
  GwSt g Asleep buf -> is_short_topic topic = true -> wf_bytes topic -> has_wildcard topic = false ->
  mid < 65536 -> okb payload = true ->
  exists g', gw_step cfg g (EvSn (pack (Publish false 0 retain TIT_SHORT (encode_short topic) mid payload))) =
             (g', [OutMq (gw_now g) (MqPublish false 0 retain topic mid payload)]) /\
    GwSt g' Asleep buf /\ gw_frame g g'.
Proof.
  intros HG Hs Hw Hwild Hm Hp. eexists. split; [|split].
  - gsn_s (Publish false 0 retain TIT_SHORT (encode_short topic) mid payload)
      ltac:(apply wf_pub_short; [lia|assumption|assumption|assumption|assumption]).
    unfold handle_client_publish, resolve_client_topic. gk. rewrite (decode_encode_short topic Hs Hw), Hwild. gk.
    unfold mq_send, ok, finish_r. gk. reflexivity.
  - constructor; gk; rwgs HG; try reflexivity. apply (gs_accepted _ _ _ HG).
  - repeat split.
Qed.

(* DISCONNECT (duration 0) of the client while the session is asleep: MQTT DISCONNECT to the broker, DISCONNECT back (written,
   not queued: the state is set to disconnected first), the session begins to end; what is in the sleep buffer stays there *)
Lemma gw_asleep_disconnect cfg g buf : GwSt g Asleep buf ->
  exists g', gw_step cfg g (EvSn (pack (Disconnect 0))) =
             (g', [OutMq (gw_now g) MqDisconnect; OutSn (gw_now g) (pack (Disconnect 0)); OutCancel (gw_now g) EcClientDisconnect]) /\
    gw_st g' = Disconnected /\ (exists te, gw_ending g' = Some te) /\ gw_ended g' = false /\ gw_now g' = gw_now g /\
    gw_buffer g' = buf.
Proof.
  intros HG. eexists. split.
  - gsn_s (Disconnect 0) ltac:(reflexivity). unfold mq_send, ok, andthen. gk.
    unfold sn_send, sn_send_owned. gk. rewrite (pack_fits (Disconnect 0)) by reflexivity.
    unfold ok, stop, finish_r, begin_end. gk. reflexivity.
  - gk. split; [reflexivity|]. split; [eexists; reflexivity|]. split; [apply (gs_ended _ _ _ HG)|]. split; [reflexivity|].
    apply (gs_buffer _ _ _ HG).
Qed.

Lemma gw_eof_ending2 cfg g te : gw_ended g = false -> gw_ending g = Some te -> gw_step cfg g EvMqEof = (g, []).
Proof. intros H1 H2. unfold gw_step. rewrite H1, H2. reflexivity. Qed.

Print Assumptions cl_awake_ping.
Print Assumptions cl_awake_pingresp.
Print Assumptions cl_awake_pub0.
Print Assumptions cl_awake_disconnect.
Print Assumptions gw_asleep_pub0.
Print Assumptions gw_asleep_disconnect.
