(* System/ComposeLoss4_aux.v — component lemmas for System/ComposeLoss4.v (C16, the REGISTER step of a broker PUBLISH with
   QoS 1 under any loss pattern within the retry budgets): the traces of the two phases as functions of the loss pattern and
   the induction over the rounds.

     tailA, traceA, restA          phase 1 (PUBLISH under the new topic ID -> PUBACK): the rounds rs1 (true: PUBLISH lost; false:
                                   delivered - the handler runs - and the PUBACK lost), then the round that succeeds
     traceR                        phase 0 (REGISTER -> REGACK): the rounds rs0 (true: REGISTER lost; false: delivered, REGACK lost),
                                   the round that succeeds (the gateway sends the PUBLISH it kept), then phase 1; the fault-list
                                   hypotheses are faults1 / faults_ok of ComposeLoss3_aux.v / ComposeLoss.v
     RA, R0f, S0                   one round after the gateway has written its datagram (Hold2 of ComposeLoss2.v)
     advA, contA, advR             the retransmission rounds of phase 1 / of phase 0 followed by phase 1, by induction on the pattern

   Builds on ComposeLoss2.v (breg_entry, fire_entry, pump_reg_head, pump_reg_ackdrop, pump_pubg1_round / _ackdrop, adv_ack_finish). *)
From stdpp Require Import base option list numbers fin_maps nmap.
From Coq Require Import Lia ZArith ZifyN ZifyNat ZifyBool.
From RecordUpdate Require Import RecordSet.
From Verif.Base Require Import Bytes BytesProofs.
From Verif.Codec Require Import Packets Decode Encode EncodeProofs.
From Verif.Checkers Require Import ChkCodec.
From Verif.Topics Require Import Predefined.
From Verif.Gateway Require Import GwTypes GwStep GwWf.
From Verif.Match Require Import Match MatchProofs.
From Verif.Client Require Import ClTypes ClStep Sound_Client.
From Verif.System Require Import Compose RoutingProofs ComposeProofs_aux ComposeProofs ComposeProofs2_aux ComposeProofs2
  ComposeProofs3_aux ComposeLoss_aux ComposeLoss ComposeLoss2_aux ComposeLoss2 ComposeLoss3_aux.
Import RecordSetNotations.
Open Scope N_scope.
Ltac Zify.zify_post_hook ::= Z.div_mod_to_equations.

Section REG.
Variables (retain : bool) (topic : bytes) (mid i : N) (payload : bytes) (hs : list N).

Definition puback_dg : bytes := pack (Puback i mid RC_ACCEPTED).
Definition regack_dg : bytes := pack (Regack i mid RC_ACCEPTED).
Definition register_dg : bytes := pack (Register i mid topic).

(* a round of phase 1 (PUBLISH under the new topic ID -> PUBACK) after the PUBLISH (DUP flag dp) has been written:
   o = Some true - it is lost; Some false - delivered (the handler runs: QoS 1), the PUBACK lost; None - both get through *)
Definition tailA (o : option bool) (t : N) (dp : bool) : list sys_out :=
  match o with
  | Some true => []
  | Some false => SoC2G t FDrop puback_dg :: cb_of hs t topic payload 1 retain dp mid
  | None => SoC2G t FDeliver puback_dg :: cb_of hs t topic payload 1 retain dp mid ++ [SoBR t (MqPuback mid)]
  end.
Fixpoint traceA (rd : N) (rs1 : list bool) (T : N) (dp : bool) : list sys_out :=
  match rs1 with
  | [] => SoG2C T FDeliver (pack (pubr dp retain i mid payload)) :: tailA None T dp
  | b :: r => SoG2C T (fl_of b) (pack (pubr dp retain i mid payload)) :: tailA (Some b) T dp ++ traceA rd r (T + rd) true
  end.
Definition restA (rd : N) (rs1 : list bool) (T : N) : list sys_out :=
  match rs1 with [] => [] | b :: r => traceA rd r (T + rd) true end.
Lemma traceA_rest rd rs1 T dp :
  traceA rd rs1 T dp = SoG2C T (match rs1 with b :: _ => fl_of b | [] => FDeliver end) (pack (pubr dp retain i mid payload)) ::
                       tailA (match rs1 with b :: _ => Some b | [] => None end) T dp ++ restA rd rs1 T.
Proof. destruct rs1 as [|b r]; cbn [traceA restA]; [rewrite app_nil_r|]; reflexivity. Qed.

(* phase 0 (REGISTER -> REGACK) from a transmission of REGISTER at T on: the failed rounds rs0 (true: REGISTER lost; false:
   delivered, the REGACK lost), then the round in which the REGACK reaches the gateway, which sends the PUBLISH it kept (DUP
   flag dp as the broker sent it); then phase 1 *)
Fixpoint traceR (rd : N) (rs0 rs1 : list bool) (T : N) (dp : bool) : list sys_out :=
  match rs0 with
  | [] => SoG2C T FDeliver register_dg :: SoC2G T FDeliver regack_dg :: traceA rd rs1 T dp
  | b :: r => SoG2C T (fl_of b) register_dg :: (if b then [] else [SoC2G T FDrop regack_dg]) ++ traceR rd r rs1 (T + rd) dp
  end.

Hypothesis Ho1 : okb1 topic = true.
Hypothesis Hi : i < 65536.
Hypothesis Hm : 1 <= mid < 65536.
Hypothesis Hp : okb payload = true.

Lemma scb_eq y t dp : handle_set (cl_handlers (y_cl y)) topic = hs -> scb_at y t topic payload 1 retain dp mid = cb_of hs t topic payload 1 retain dp mid.
Proof. intros H. unfold scb_at, cb_of. rewrite H. reflexivity. Qed.

Lemma regpre_step r : RegPre r topic i ->
  RegPre (reg_set r topic i) topic i /\ reg_set (reg_set r topic i) topic i = reg_set r topic i /\
  reg_find_id (reg_set r topic i) i = Some topic.
Proof.
  intros H. destruct (RegPre_set r topic i H) as [Hl Hf]. split; [right; split; assumption|]. split; [apply reg_set_same, Hl|exact Hf].
Qed.

(* ------------------------------------------------------------------ one round, after the gateway has written its datagram *)

Lemma RA cfg y p pub0 n T f dp fl (o : option bool) :
  Hold2 cfg y None (tx_ack mid p pub0 n) mid T -> handle_set (cl_handlers (y_cl y)) topic = hs ->
  reg_find_id (cl_registered (y_cl y)) i = Some topic ->
  match o with
  | Some true => fl = FDrop
  | Some false => fl = FDeliver /\ nth_fault (e_c2g cfg) (y_c2g_k y) = FDrop
  | None => fl = FDeliver /\ nth_fault (e_c2g cfg) (y_c2g_k y) = FDeliver
  end ->
  exists y', pump (S (S (S f))) cfg y (map ToCl (copies fl (pack (pubr dp retain i mid payload)))) = (y', tailA o (gw_now (y_gw y)) dp) /\
    match o with None => Quiet cfg y' | Some _ => Hold2 cfg y' None (tx_ack mid p pub0 n) mid T end /\
    gw_now (y_gw y') = gw_now (y_gw y) /\ y_br y' = y_br y /\ cl_handlers (y_cl y') = cl_handlers (y_cl y) /\ reg_frame y y' /\
    y_c2g_k y' = match o with Some true => y_c2g_k y | _ => S (y_c2g_k y) end /\ y_g2c_k y' = y_g2c_k y.
Proof.
  intros HH Hhs Hfind Ho.
  assert (Hwf : wf_pkt (Publish dp 1 retain TIT_REGISTERED i mid payload) = true) by (apply (wf_pubr dp retain i mid payload); [exact Hi|lia|exact Hp]).
  destruct o as [[|]|].
  - subst fl. exists y. cbn [map copies]. rewrite pump_nil. split; [reflexivity|]. split; [exact HH|]. repeat split.
  - destruct Ho as [-> Hfc]. cbn [map copies]. unfold pubr.
    destruct (pump_pubg1_ackdrop cfg y _ dp retain TIT_REGISTERED i mid payload topic T (S (S f)) HH Hwf Hi Hm Hfind Hfc)
      as (y' & E & HH' & Hn' & Hb' & Hh' & Hr' & Hkc' & Hkg').
    exists y'. rewrite E, (scb_eq y _ dp Hhs). split; [reflexivity|]. split; [exact HH'|]. repeat split; try assumption; apply Hr'.
  - destruct Ho as [-> Hfc]. cbn [map copies]. unfold pubr.
    destruct (pump_pubg1_round cfg y _ _ n dp retain TIT_REGISTERED i mid payload topic T f HH Hwf Hi Hm Hfind Hfc)
      as (y' & E & HQ' & Hn' & Hb' & Hh' & Hr' & Hkc' & Hkg').
    exists y'. rewrite E, (scb_eq y _ dp Hhs). split; [reflexivity|]. split; [exact HQ'|]. repeat split; try assumption; apply Hr'.
Qed.

Lemma R0f cfg y pub n T f fl (b : bool) :
  Hold2 cfg y None (tx_reg mid i topic pub n) mid T -> RegPre (cl_registered (y_cl y)) topic i ->
  (if b then fl = FDrop else fl = FDeliver /\ nth_fault (e_c2g cfg) (y_c2g_k y) = FDrop) ->
  exists y', pump (S f) cfg y (map ToCl (copies fl register_dg)) =
             (y', if b then [] else [SoC2G (gw_now (y_gw y)) FDrop regack_dg]) /\
    Hold2 cfg y' None (tx_reg mid i topic pub n) mid T /\
    gw_now (y_gw y') = gw_now (y_gw y) /\ y_br y' = y_br y /\ cl_handlers (y_cl y') = cl_handlers (y_cl y) /\
    cl_registered (y_cl y') = (if b then cl_registered (y_cl y) else reg_set (cl_registered (y_cl y)) topic i) /\
    gw_registered (y_gw y') = gw_registered (y_gw y) /\
    y_c2g_k y' = (if b then y_c2g_k y else S (y_c2g_k y)) /\ y_g2c_k y' = y_g2c_k y.
Proof.
  intros HH Hpre Hb. destruct b.
  - subst fl. exists y. cbn [map copies]. rewrite pump_nil. split; [reflexivity|]. split; [exact HH|]. repeat split.
  - destruct Hb as [-> Hfc]. cbn [map copies]. unfold register_dg.
    destruct (pump_reg_ackdrop cfg y i topic _ mid T f HH Ho1 Hi Hm Hpre Hfc) as (y' & E & HH' & Hn' & Hb' & Hh' & Hr' & Hg' & Hkc' & Hkg').
    exists y'. split; [exact E|]. split; [exact HH'|]. repeat split; try assumption. rewrite Hg'. reflexivity.
Qed.

(* the round of phase 0 that succeeds, with the first transmission of the PUBLISH (o1: how that one fares) *)
Lemma S0 cfg y n T f dp (o1 : option bool) :
  Hold2 cfg y None (tx_reg mid i topic (pubr dp retain i mid payload) n) mid T -> handle_set (cl_handlers (y_cl y)) topic = hs ->
  RegPre (cl_registered (y_cl y)) topic i ->
  nth_fault (e_c2g cfg) (y_c2g_k y) = FDeliver ->
  match o1 with
  | Some true => nth_fault (e_g2c cfg) (y_g2c_k y) = FDrop
  | Some false => nth_fault (e_g2c cfg) (y_g2c_k y) = FDeliver /\ nth_fault (e_c2g cfg) (S (y_c2g_k y)) = FDrop
  | None => nth_fault (e_g2c cfg) (y_g2c_k y) = FDeliver /\ nth_fault (e_c2g cfg) (S (y_c2g_k y)) = FDeliver
  end ->
  let t := gw_now (y_gw y) in
  exists y', pump (S (S (S (S (S f))))) cfg y [ToCl register_dg] =
      (y', SoC2G t FDeliver regack_dg ::
           SoG2C t (match o1 with Some true => FDrop | _ => FDeliver end) (pack (pubr dp retain i mid payload)) :: tailA o1 t dp) /\
    match o1 with
    | None => Quiet cfg y'
    | Some _ => Hold2 cfg y' None (tx_ack mid (pubr dp retain i mid payload) (pubr dp retain i mid payload) 0) mid (t + retry_delay (e_gw cfg))
    end /\
    gw_now (y_gw y') = t /\ y_br y' = y_br y /\ cl_handlers (y_cl y') = cl_handlers (y_cl y) /\
    cl_registered (y_cl y') = reg_set (cl_registered (y_cl y)) topic i /\
    gw_registered (y_gw y') = <[i := topic]> (gw_registered (y_gw y)) /\
    y_c2g_k y' = match o1 with Some true => S (y_c2g_k y) | _ => S (S (y_c2g_k y)) end /\ y_g2c_k y' = S (y_g2c_k y).
Proof.
  intros HH Hhs Hpre Hfc Ho t. subst t. destruct (regpre_step _ Hpre) as (_ & _ & Hfind).
  destruct (pump_reg_head cfg y i topic (pubr dp retain i mid payload) mid n T HH Ho1
              (wf_pubr dp retain i mid payload Hi ltac:(lia) Hp) Hi Hm Hpre Hfc)
    as (y1 & HH1 & Hn1 & Hb1 & Hh1 & Hr1 & Hg1 & Hkc1 & Hkg1 & E).
  destruct (RA cfg y1 _ _ 0 _ f dp (nth_fault (e_g2c cfg) (y_g2c_k y)) o1 HH1 ltac:(rewrite Hh1; exact Hhs) ltac:(rewrite Hr1; exact Hfind))
    as (y' & E2 & Hpost & Hn' & Hb' & Hh' & (Hrc' & Hrg') & Hkc' & Hkg').
  { rewrite Hkc1. destruct o1 as [[|]|]; [exact Ho| |]; (destruct Ho as [A B]; split; [exact A|exact B]). }
  exists y'. split; [|split; [exact Hpost|split; [rewrite Hn'; exact Hn1|split; [rewrite Hb'; exact Hb1|split; [rewrite Hh'; exact Hh1|
    split; [rewrite Hrc'; exact Hr1|split; [rewrite Hrg'; exact Hg1|split]]]]]]].
  - unfold register_dg. rewrite (E (S (S (S f)))). rewrite E2, Hn1.
    assert (Efl : nth_fault (e_g2c cfg) (y_g2c_k y) = match o1 with Some true => FDrop | _ => FDeliver end)
      by (destruct o1 as [[|]|]; [exact Ho|exact (proj1 Ho)|exact (proj1 Ho)]).
    rewrite Efl. reflexivity.
  - rewrite Hkc', Hkc1. destruct o1 as [[|]|]; reflexivity.
  - rewrite Hkg'. exact Hkg1.
Qed.

(* ------------------------------------------------------------------ the retransmission rounds of phase 1 *)

Lemma advA cfg rs1 : forall y dp0 pub0 n T f t,
  Hold2 cfg y None (tx_ack mid (pubr dp0 retain i mid payload) pub0 n) mid T -> handle_set (cl_handlers (y_cl y)) topic = hs ->
  reg_find_id (cl_registered (y_cl y)) i = Some topic ->
  n + N.of_nat (length rs1) + 1 <= retry_count (e_gw cfg) -> 0 < retry_delay (e_gw cfg) ->
  faults_ok cfg rs1 (y_c2g_k y) (y_g2c_k y) ->
  T + N.of_nat (length rs1) * retry_delay (e_gw cfg) <= t -> (length rs1 + 2 <= f)%nat ->
  exists y', advance_to f cfg y t = (y', traceA (retry_delay (e_gw cfg)) rs1 T true) /\
    Quiet cfg y' /\ gw_now (y_gw y') = t /\ y_br y' = y_br y /\ cl_handlers (y_cl y') = cl_handlers (y_cl y) /\ reg_frame y y'.
Proof.
  induction rs1 as [|b r IH]; intros y dp0 pub0 n T f t HH Hhs Hfind Hn Hrd Hfaults Ht Hf.
  - destruct Hfaults as [Hfg Hfc]. cbn [length] in *.
    pose proof (adv_ack_finish cfg y dp0 retain i mid payload pub0 topic n T O f t HH Hi Hm Hp Hfind ltac:(lia) Hrd ltac:(intros j Hj; lia)
                  ltac:(rewrite Nat.add_0_r; exact Hfg) Hfc Ht Hf) as H.
    cbv zeta in H. destruct H as (y' & E & HQ' & Hn' & Hb' & Hh' & Hr' & _).
    assert (ET : T + N.of_nat 0 * retry_delay (e_gw cfg) = T) by lia. rewrite ET in E.
    exists y'. split; [|split; [exact HQ'|split; [exact Hn'|split; [exact Hb'|split; [exact Hh'|exact Hr']]]]].
    rewrite E. cbn [drops app traceA tailA]. rewrite (scb_eq y _ true Hhs). reflexivity.
  - destruct f as [|f]; [cbn [length] in Hf; lia|].
    assert (HTk : T + N.of_nat (length (b :: r)) * retry_delay (e_gw cfg) =
                  T + retry_delay (e_gw cfg) + N.of_nat (length r) * retry_delay (e_gw cfg)) by (cbn [length]; lia).
    rewrite HTk in Ht. clear HTk.
    pose proof HH as (_ & _ & Hnow & HT & _).
    assert (Elt : (T <? t) = true) by (apply N.ltb_lt; lia).
    assert (Emax : N.max T (N.max (cl_now (y_cl y)) (gw_now (y_gw y))) = T) by lia.
    rewrite advance_to_S, (deadline_hold cfg y _ _ _ _ HH), Elt, Emax.
    destruct (fire_entry cfg y _ mid 1 AwaitPuback (pubr dp0 retain i mid payload) (Some pub0) n T HH
                ltac:(rewrite set_dup_pubr; apply wf_pubr; [exact Hi|lia|exact Hp]) ltac:(cbn [length] in Hn; lia) Hrd)
      as (y1 & HH1 & Hn1 & Hb1 & Hh1 & (Hrc1 & Hrg1) & Hkc1 & Hkg1 & E).
    cbv zeta in E. rewrite pump_fuel_eq in E. rewrite set_dup_pubr in E, HH1.
    destruct (RA cfg y1 (pubr true retain i mid payload) pub0 (n + 1) (T + retry_delay (e_gw cfg))
                (S (S (S (S (S (S (S (S (S pump_rest))))))))) true (nth_fault (e_g2c cfg) (y_g2c_k y)) (Some b) HH1
                ltac:(rewrite Hh1; exact Hhs) ltac:(rewrite Hrc1; exact Hfind))
      as (y2 & E2 & HH2 & Hn2 & Hb2 & Hh2 & (Hrc2 & Hrg2) & Hkc2 & Hkg2).
    { rewrite Hkc1. destruct b; [exact (proj1 Hfaults)|]. destruct Hfaults as (A & B & _). split; assumption. }
    rewrite E2 in E. rewrite E.
    assert (Efl : nth_fault (e_g2c cfg) (y_g2c_k y) = fl_of b) by (destruct b; exact (proj1 Hfaults)).
    destruct (IH y2 true pub0 (n + 1) (T + retry_delay (e_gw cfg)) f t HH2 ltac:(rewrite Hh2, Hh1; exact Hhs)
                ltac:(rewrite Hrc2, Hrc1; exact Hfind) ltac:(cbn [length] in Hn; lia) Hrd)
      as (y3 & E3 & HQ3 & Hn3 & Hb3 & Hh3 & (Hrc3 & Hrg3)); [|exact Ht|cbn [length] in Hf; lia|].
    { rewrite Hkc2, Hkg2, Hkc1, Hkg1. destruct b; [exact (proj2 Hfaults)|exact (proj2 (proj2 Hfaults))]. }
    rewrite E3. exists y3. split; [|split; [exact HQ3|split; [exact Hn3|split; [rewrite Hb3, Hb2; exact Hb1|split; [rewrite Hh3, Hh2; exact Hh1|]]]]].
    + cbn [traceA]. rewrite Efl, Hn1. cbn [app]. reflexivity.
    + split; [rewrite Hrc3, Hrc2; exact Hrc1|rewrite Hrg3, Hrg2; exact Hrg1].
Qed.

Lemma contA cfg y held tx T y2 tr rs1 dp f t :
  Hold2 cfg y held tx mid T -> advance_both cfg y T = (y2, tr) -> gw_now (y_gw y2) = T ->
  match rs1 with
  | [] => Quiet cfg y2
  | b :: r => Hold2 cfg y2 None (tx_ack mid (pubr dp retain i mid payload) (pubr dp retain i mid payload) 0) mid (T + retry_delay (e_gw cfg)) /\
              faults_ok cfg r (y_c2g_k y2) (y_g2c_k y2)
  end ->
  handle_set (cl_handlers (y_cl y2)) topic = hs -> reg_find_id (cl_registered (y_cl y2)) i = Some topic ->
  N.of_nat (length rs1) <= retry_count (e_gw cfg) -> 0 < retry_delay (e_gw cfg) ->
  T + N.of_nat (length rs1) * retry_delay (e_gw cfg) <= t -> (length rs1 + 2 <= f)%nat ->
  exists y', advance_to f cfg y t = (y', tr ++ restA (retry_delay (e_gw cfg)) rs1 T) /\
    Quiet cfg y' /\ gw_now (y_gw y') = t /\ y_br y' = y_br y2 /\ cl_handlers (y_cl y') = cl_handlers (y_cl y2) /\ reg_frame y2 y'.
Proof.
  intros HH E Hn2 Hpost Hhs Hfind Hrc Hrd Ht Hf. destruct rs1 as [|b r].
  - cbn [length] in *. destruct (adv_to_final cfg y held tx mid T y2 tr t f HH ltac:(lia) E Hpost Hn2 Hf)
      as (y' & E' & HQ' & Hn' & Hb' & Hh' & _ & _ & Hr' & _).
    exists y'. cbn [restA]. rewrite app_nil_r. split; [exact E'|]. split; [exact HQ'|]. split; [exact Hn'|]. split; [exact Hb'|]. split; [exact Hh'|exact Hr'].
  - destruct Hpost as [HH2 Hfaults]. destruct f as [|f]; [cbn [length] in Hf; lia|].
    pose proof HH as (_ & _ & Hnow & HT & _).
    assert (Elt : (T <? t) = true) by (apply N.ltb_lt; cbn [length] in Ht; lia).
    assert (Emax : N.max T (N.max (cl_now (y_cl y)) (gw_now (y_gw y))) = T) by lia.
    rewrite advance_to_S, (deadline_hold cfg y _ _ _ _ HH), Elt, Emax, E.
    destruct (advA cfg r y2 dp _ 0 (T + retry_delay (e_gw cfg)) f t HH2 Hhs Hfind ltac:(cbn [length] in Hrc; lia) Hrd Hfaults
                ltac:(cbn [length] in Ht; lia) ltac:(cbn [length] in Hf; lia)) as (y' & E' & HQ' & Hn' & Hb' & Hh' & Hr').
    rewrite E'. exists y'. cbn [restA]. split; [reflexivity|]. split; [exact HQ'|]. split; [exact Hn'|]. split; [exact Hb'|]. split; [exact Hh'|exact Hr'].
Qed.

(* ------------------------------------------------------------------ the retransmission rounds of phase 0, then phase 1 *)

Lemma advR cfg rs1 rs0 dp R1 : forall y n T f t,
  Hold2 cfg y None (tx_reg mid i topic (pubr dp retain i mid payload) n) mid T ->
  handle_set (cl_handlers (y_cl y)) topic = hs ->
  RegPre (cl_registered (y_cl y)) topic i -> reg_set (cl_registered (y_cl y)) topic i = R1 ->
  n + N.of_nat (length rs0) + 1 <= retry_count (e_gw cfg) -> N.of_nat (length rs1) <= retry_count (e_gw cfg) ->
  0 < retry_delay (e_gw cfg) ->
  faults1 cfg rs0 rs1 (y_c2g_k y) (y_g2c_k y) ->
  T + N.of_nat (length rs0 + length rs1) * retry_delay (e_gw cfg) <= t -> (length rs0 + length rs1 + 2 <= f)%nat ->
  exists y', advance_to f cfg y t = (y', traceR (retry_delay (e_gw cfg)) rs0 rs1 T dp) /\
    Quiet cfg y' /\ gw_now (y_gw y') = t /\ y_br y' = y_br y /\ cl_handlers (y_cl y') = cl_handlers (y_cl y) /\
    cl_registered (y_cl y') = R1 /\ gw_registered (y_gw y') = <[i := topic]> (gw_registered (y_gw y)).
Proof.
  induction rs0 as [|b r IH]; intros y n T f t HH Hhs Hpre HR1 Hn Hrc1 Hrd Hfaults Ht Hf.
  - destruct Hfaults as (Hfg & Hfc & Hfaults1). cbn [length Nat.add] in *.
    destruct (fire_entry cfg y _ mid 1 AwaitRegack (Register i mid topic) (Some (pubr dp retain i mid payload)) n T HH
                ltac:(apply wf_reg_any; [exact Hi|lia|exact Ho1]) ltac:(lia) Hrd)
      as (y1 & HH1 & Hn1 & Hb1 & Hh1 & (Hrc1' & Hrg1) & Hkc1 & Hkg1 & E).
    cbv zeta in E. rewrite pump_fuel_eq, Hfg in E. change (set_dup (Register i mid topic)) with (Register i mid topic) in E, HH1.
    cbn [map copies] in E.
    pose proof (S0 cfg y1 (n + 1) (T + retry_delay (e_gw cfg)) (S (S (S (S (S (S (S pump_rest))))))) dp
                  (match rs1 with b1 :: _ => Some b1 | [] => None end) HH1
                  ltac:(rewrite Hh1; exact Hhs) ltac:(rewrite Hrc1'; exact Hpre) ltac:(rewrite Hkc1; exact Hfc)) as H.
    cbv zeta in H. destruct H as (y2 & E2 & Hpost & Hn2 & Hb2 & Hh2 & Hr2 & Hg2 & Hkc2 & Hkg2).
    { rewrite Hkc1, Hkg1. destruct rs1 as [|[|] r1]; cbn [faults_ok] in Hfaults1.
      - exact Hfaults1.
      - exact (proj1 Hfaults1).
      - destruct Hfaults1 as (A & B & _). split; assumption. }
    fold register_dg in E. rewrite E2 in E.
    destruct (regpre_step _ Hpre) as (_ & _ & Hfind). rewrite HR1 in Hfind.
    assert (Hreg2 : cl_registered (y_cl y2) = R1) by (rewrite Hr2, Hrc1'; exact HR1).
    destruct (contA cfg y _ _ T y2 _ rs1 dp f t HH E ltac:(rewrite Hn2; exact Hn1)) as (y' & E' & HQ' & Hn' & Hb' & Hh' & (Hrc' & Hrg')).
    + destruct rs1 as [|b1 r1]; [exact Hpost|]. split; [rewrite Hn1 in Hpost; exact Hpost|].
      rewrite Hkc2, Hkg2, Hkc1, Hkg1. destruct b1; cbn [faults_ok] in Hfaults1; [exact (proj2 Hfaults1)|exact (proj2 (proj2 Hfaults1))].
    + rewrite Hh2, Hh1. exact Hhs.
    + rewrite Hreg2. exact Hfind.
    + exact Hrc1.
    + exact Hrd.
    + exact Ht.
    + exact Hf.
    + exists y'. split; [|split; [exact HQ'|split; [exact Hn'|split; [rewrite Hb', Hb2; exact Hb1|split; [rewrite Hh', Hh2; exact Hh1|
        split; [rewrite Hrc'; exact Hreg2|rewrite Hrg', Hg2, Hrg1; reflexivity]]]]]].
      rewrite E'. cbn [traceR]. rewrite (traceA_rest _ rs1 T dp). rewrite Hn1.
      destruct rs1 as [|[|] r1]; reflexivity.
  - destruct f as [|f]; [cbn [length] in Hf; lia|].
    assert (HTk : T + N.of_nat (length (b :: r) + length rs1) * retry_delay (e_gw cfg) =
                  T + retry_delay (e_gw cfg) + N.of_nat (length r + length rs1) * retry_delay (e_gw cfg)) by (cbn [length]; lia).
    rewrite HTk in Ht. clear HTk.
    pose proof HH as (_ & _ & Hnow & HT & _).
    assert (Elt : (T <? t) = true) by (apply N.ltb_lt; lia).
    assert (Emax : N.max T (N.max (cl_now (y_cl y)) (gw_now (y_gw y))) = T) by lia.
    rewrite advance_to_S, (deadline_hold cfg y _ _ _ _ HH), Elt, Emax.
    destruct (fire_entry cfg y _ mid 1 AwaitRegack (Register i mid topic) (Some (pubr dp retain i mid payload)) n T HH
                ltac:(apply wf_reg_any; [exact Hi|lia|exact Ho1]) ltac:(cbn [length] in Hn; lia) Hrd)
      as (y1 & HH1 & Hn1 & Hb1 & Hh1 & (Hrc1' & Hrg1) & Hkc1 & Hkg1 & E).
    cbv zeta in E. rewrite pump_fuel_eq in E. change (set_dup (Register i mid topic)) with (Register i mid topic) in E, HH1.
    fold register_dg in E.
    destruct (R0f cfg y1 _ (n + 1) (T + retry_delay (e_gw cfg)) (S (S (S (S (S (S (S (S (S (S (S pump_rest)))))))))))
                (nth_fault (e_g2c cfg) (y_g2c_k y)) b HH1 ltac:(rewrite Hrc1'; exact Hpre))
      as (y2 & E2 & HH2 & Hn2 & Hb2 & Hh2 & Hr2 & Hg2 & Hkc2 & Hkg2).
    { rewrite Hkc1. destruct b; cbn [faults1] in Hfaults; [exact (proj1 Hfaults)|]. destruct Hfaults as (A & B & _). split; assumption. }
    rewrite E2 in E. rewrite E.
    assert (Efl : nth_fault (e_g2c cfg) (y_g2c_k y) = fl_of b) by (destruct b; cbn [faults1] in Hfaults; exact (proj1 Hfaults)).
    destruct (regpre_step _ Hpre) as (Hpre' & Hidem & _).
    assert (Hpre2 : RegPre (cl_registered (y_cl y2)) topic i /\ reg_set (cl_registered (y_cl y2)) topic i = R1).
    { rewrite Hr2, Hrc1'. destruct b; [split; assumption|]. split; [exact Hpre'|rewrite Hidem; exact HR1]. }
    destruct (IH y2 (n + 1) (T + retry_delay (e_gw cfg)) f t HH2 ltac:(rewrite Hh2, Hh1; exact Hhs) (proj1 Hpre2) (proj2 Hpre2)
                ltac:(cbn [length] in Hn; lia) Hrc1 Hrd) as (y3 & E3 & HQ3 & Hn3 & Hb3 & Hh3 & Hr3 & Hg3); [|exact Ht|cbn [length] in Hf; lia|].
    { rewrite Hkc2, Hkg2, Hkc1, Hkg1. destruct b; cbn [faults1] in Hfaults; [exact (proj2 Hfaults)|exact (proj2 (proj2 Hfaults))]. }
    rewrite E3. exists y3. split; [|split; [exact HQ3|split; [exact Hn3|split; [rewrite Hb3, Hb2; exact Hb1|split; [rewrite Hh3, Hh2; exact Hh1|
      split; [exact Hr3|rewrite Hg3, Hg2, Hrg1; reflexivity]]]]]].
    cbn [traceR]. rewrite Efl, Hn1. destruct b; reflexivity.
Qed.

End REG.

Print Assumptions advA.
Print Assumptions advR.
