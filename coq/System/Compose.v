(* System/Compose.v — the client library, a lossy MQTT-SN link, one gateway session and a
   conforming MQTT broker as ONE system (properties C16, C26).

   The components are the step functions of Client/ClStep.v and Gateway/GwStep.v, unchanged.  The
   link treats the k-th datagram of each direction according to a fault list (deliver, drop,
   deliver twice); delivery takes no time.  The broker is a specification broker: it accepts,
   acknowledges, keeps a subscription table, routes by the MQTT matching relation of Match.v.
   An external event (API call, broker-originated PUBLISH, passing of time) is followed by
   everything it causes, up to quiescence (a work list, in FIFO order per channel). *)
From stdpp Require Import base option list numbers fin_maps nmap.
From RecordUpdate Require Import RecordSet.
From Verif.Base Require Import Bytes.
From Verif.Codec Require Import Packets Decode Encode.
From Verif.Topics Require Import Predefined.
From Verif.Gateway Require Import GwTypes GwStep.
From Verif.Match Require Import Match.
From Verif.Client Require Import ClTypes ClStep.
Import RecordSetNotations.
Open Scope N_scope.

Inductive fault := FDeliver | FDrop | FDup.

Record e2e_cfg := {
  e_gw : gw_cfg;
  e_cl : cl_cfg;
  e_c2g : list fault;      (* treatment of the k-th datagram from client to gateway *)
  e_g2c : list fault }.

(* ------------------------------------------------------------------ the broker *)

Record broker := {
  b_subs : list (bytes * N);   (* subscription table: filter, granted QoS (in order of subscription) *)
  b_next_mid : N;              (* packet identifiers of the PUBLISHes it originates *)
  b_inflight2 : list N;        (* QoS 2 PUBLISHes of the gateway received but not yet released *)
  b_closed : bool }.
Definition broker_init : broker := {| b_subs := []; b_next_mid := 1000; b_inflight2 := []; b_closed := false |}.

#[export] Instance eta_broker : Settable _ := settable! Build_broker <b_subs; b_next_mid; b_inflight2; b_closed>.

Definition sub_set (fq : bytes * N) (l : list (bytes * N)) : list (bytes * N) :=
  if existsb (fun e => beq (fst e) (fst fq)) l
  then map (fun e => if beq (fst e) (fst fq) then fq else e) l      (* re-subscribing replaces the QoS *)
  else l ++ [fq].
Definition sub_del (f : bytes) (l : list (bytes * N)) := List.filter (fun e => negb (beq (fst e) f)) l.
Definition sub_matching (l : list (bytes * N)) (topic : bytes) : list (bytes * N) :=
  List.filter (fun e => match_route (split (fst e)) (split topic)) l.

(* route one PUBLISH to the (single) client of this gateway: one copy, at the highest QoS of the
   matching subscriptions capped by the QoS of the message [MQTT-3.3.5-1] *)
Definition route (b : broker) (q : N) (topic payload : bytes) : broker * list mq_pkt :=
  match sub_matching (b_subs b) topic with
  | [] => (b, [])
  | ms =>
    let q' := N.min q (fold_left N.max (map snd ms) 0) in
    if q' =? 0 then (b, [MqPublish false 0 false topic 0 payload])
    else (b <| b_next_mid := b_next_mid b + 1 |>, [MqPublish false q' false topic (b_next_mid b) payload])
  end.

(* what the broker answers to a packet of the gateway *)
Definition broker_recv (b : broker) (m : mq_pkt) : broker * list mq_pkt :=
  if b_closed b then (b, []) else
  match m with
  | MqConnect _ => (b, [MqConnack false 0])
  | MqSubscribe mid _ fs =>
    (b <| b_subs := fold_left (fun l fq => if snd fq <=? 2 then sub_set fq l else l) fs (b_subs b) |>,
     [MqSuback mid (map (fun fq => if snd fq <=? 2 then snd fq else 128) fs)])
  | MqUnsubscribe mid fs => (b <| b_subs := fold_left (fun l f => sub_del f l) fs (b_subs b) |>, [MqUnsuback mid])
  | MqPublish _ q _ topic mid payload =>
    if q =? 2 then
      if existsb (N.eqb mid) (b_inflight2 b) then (b, [MqPubrec mid])       (* repeated: PUBREC again, not routed again *)
      else let '(b', pubs) := route (b <| b_inflight2 := b_inflight2 b ++ [mid] |>) q topic payload in (b', MqPubrec mid :: pubs)
    else
      let '(b', pubs) := route b q topic payload in
      (b', (if q =? 1 then [MqPuback mid] else []) ++ pubs)
  | MqPubrel mid => (b <| b_inflight2 := List.filter (fun i => negb (i =? mid)) (b_inflight2 b) |>, [MqPubcomp mid])
  | MqPubrec mid => (b, [MqPubrel mid])
  | MqPingreq => (b, [MqPingresp])
  | MqDisconnect => (b <| b_closed := true |>, [])
  | _ => (b, [])
  end.

(* ------------------------------------------------------------------ the system *)

Record sys := {
  y_cl : cl_state; y_gw : gw_state; y_br : broker;
  y_c2g_k : nat; y_g2c_k : nat;          (* datagrams written so far in each direction *)
  y_br_eof : bool                        (* the broker closed the connection and the gateway has been told *)
}.
#[export] Instance eta_sys : Settable _ := settable! Build_sys <y_cl; y_gw; y_br; y_c2g_k; y_g2c_k; y_br_eof>.

Definition sys_init (cfg : e2e_cfg) : sys :=
  {| y_cl := cl_init; y_gw := init_state (e_gw cfg); y_br := broker_init; y_c2g_k := 0; y_g2c_k := 0; y_br_eof := false |}.

Inductive sys_out :=
| SoC2G (t : N) (f : fault) (dg : bytes)
| SoG2C (t : N) (f : fault) (dg : bytes)
| SoBR (t : N) (m : mq_pkt)       (* the broker received *)
| SoBS (t : N) (m : mq_pkt)       (* the broker sent *)
| SoRet (t : N) (id : N) (r : cres)
| SoCb (t : N) (sub : N) (topic payload : bytes) (qos : N) (retain dup : bool) (mid : N)
| SoExit (t : N)
| SoGwEnd (t : N).

Inductive item := ToGw (dg : bytes) | ToCl (dg : bytes) | ToBroker (m : mq_pkt) | FromBroker (m : mq_pkt) | BrokerEof.

Definition nth_fault (l : list fault) (k : nat) : fault := nth k l FDeliver.
Definition copies {A} (f : fault) (x : A) : list A :=
  match f with FDeliver => [x] | FDrop => [] | FDup => [x; x] end.

(* outputs of a client step: trace lines and new work *)
Fixpoint cl_outs (cfg : e2e_cfg) (y : sys) (os : list cl_out) : sys * list sys_out * list item :=
  match os with
  | [] => (y, [], [])
  | o :: rest =>
    let '(y1, tr1, w1) :=
      match o with
      | CoSn t dg =>
        let f := nth_fault (e_c2g cfg) (y_c2g_k y) in
        (y <| y_c2g_k := S (y_c2g_k y) |>, [SoC2G t f dg], map ToGw (copies f dg))
      | CoRet t id r => (y, [SoRet t id r], [])
      | CoCb t sub topic payload q r d mid => (y, [SoCb t sub topic payload q r d mid], [])
      | CoExit t => (y, [SoExit t], [])
      end in
    let '(y2, tr2, w2) := cl_outs cfg y1 rest in
    (y2, tr1 ++ tr2, w1 ++ w2)
  end.

Fixpoint gw_outs (cfg : e2e_cfg) (y : sys) (os : list gw_out) : sys * list sys_out * list item :=
  match os with
  | [] => (y, [], [])
  | o :: rest =>
    let '(y1, tr1, w1) :=
      match o with
      | OutSn t dg =>
        let f := nth_fault (e_g2c cfg) (y_g2c_k y) in
        (y <| y_g2c_k := S (y_g2c_k y) |>, [SoG2C t f dg], map ToCl (copies f dg))
      | OutMq t m => (y, [SoBR t m], [ToBroker m])
      | OutCancel _ _ => (y, [], [])
      | OutEnd t => (y, [SoGwEnd t], [])
      end in
    let '(y2, tr2, w2) := gw_outs cfg y1 rest in
    (y2, tr1 ++ tr2, w1 ++ w2)
  end.

Definition pump_fuel : nat := N.to_nat 10000.
Definition adv_fuel : nat := N.to_nat 100000.

(* process the work list to quiescence *)
Fixpoint pump (fuel : nat) (cfg : e2e_cfg) (y : sys) (work : list item) : sys * list sys_out :=
  match fuel, work with
  | O, _ | _, [] => (y, [])
  | S fuel', it :: rest =>
    let '(y1, tr1, w1) :=
      match it with
      | ToGw dg =>
        let '(g, os) := gw_step (e_gw cfg) (y_gw y) (EvSn dg) in gw_outs cfg (y <| y_gw := g |>) os
      | ToCl dg =>
        let '(c, os) := cl_step (e_cl cfg) (y_cl y) (CGw dg) in cl_outs cfg (y <| y_cl := c |>) os
      | ToBroker m =>
        let '(b, replies) := broker_recv (y_br y) m in
        let t := gw_now (y_gw y) in
        (y <| y_br := b |>, map (SoBS t) replies,
         map FromBroker replies ++ (if b_closed b && negb (y_br_eof y) then [BrokerEof] else []))
      | FromBroker m =>
        let '(g, os) := gw_step (e_gw cfg) (y_gw y) (EvMq m) in gw_outs cfg (y <| y_gw := g |>) os
      | BrokerEof =>
        let '(g, os) := gw_step (e_gw cfg) (y_gw y) EvMqEof in gw_outs cfg (y <| y_gw := g |> <| y_br_eof := true |>) os
      end in
    let '(y2, tr2) := pump fuel' cfg y1 (rest ++ w1) in
    (y2, tr1 ++ tr2)
  end.

(* ------------------------------------------------------------------ time *)

Definition min_opt (a b : option N) : option N :=
  match a, b with Some x, Some y => Some (N.min x y) | Some x, None => Some x | None, y => y end.

Definition cl_next_deadline (s : cl_state) : option N :=
  min_opt (match c_min_timer (cl_timers s) with Some tm => Some (ctm_at tm) | None => None end)
          (if cl_exited s then None else cl_cancelled s).
Definition gw_next_deadline (s : gw_state) : option N :=
  if gw_ended s then None else
  match gw_ending s with
  | Some te => Some te
  | None => match min_timer (gw_timers s) with Some tm => Some (tm_at tm) | None => None end
  end.

(* both components advance to time t (t >= both clocks; the clocks are equal between events) *)
Definition advance_both (cfg : e2e_cfg) (y : sys) (t : N) : sys * list sys_out :=
  let dc := t - cl_now (y_cl y) in
  let dg := t - gw_now (y_gw y) in
  let '(c, cos) := cl_step (e_cl cfg) (y_cl y) (CAdv dc) in
  let '(y1, tr1, w1) := cl_outs cfg (y <| y_cl := c |>) cos in
  let '(g, gos) := gw_step (e_gw cfg) (y_gw y1) (EvAdvance dg) in
  let '(y2, tr2, w2) := gw_outs cfg (y1 <| y_gw := g |>) gos in
  let '(y3, tr3) := pump pump_fuel cfg y2 (w1 ++ w2) in
  (y3, tr1 ++ tr2 ++ tr3).

(* advance to time t, stopping at every deadline of either component on the way *)
Fixpoint advance_to (fuel : nat) (cfg : e2e_cfg) (y : sys) (t : N) : sys * list sys_out :=
  match fuel with
  | O => (y, [])
  | S fuel' =>
    match min_opt (cl_next_deadline (y_cl y)) (gw_next_deadline (y_gw y)) with
    | Some d =>
      if d <? t then
        let '(y1, tr1) := advance_both cfg y (N.max d (N.max (cl_now (y_cl y)) (gw_now (y_gw y)))) in
        let '(y2, tr2) := advance_to fuel' cfg y1 t in
        (y2, tr1 ++ tr2)
      else advance_both cfg y t
    | None => advance_both cfg y t
    end
  end.

(* ------------------------------------------------------------------ events *)

(* the system clock (a session that has ended no longer advances its own) *)
Definition sys_now (y : sys) : N := N.max (cl_now (y_cl y)) (gw_now (y_gw y)).

Inductive sys_event :=
| SCall (id : N) (a : api)
| SBpub (m : mq_pkt)          (* a PUBLISH originated by the broker (another client published) *)
| SBurst (ms : list mq_pkt)   (* several such PUBLISHes back to back: the gateway has handled all of them before
                                 the client's answer to the first one arrives *)
| SAdv (d : N).

Definition sys_step (cfg : e2e_cfg) (y : sys) (ev : sys_event) : sys * list sys_out :=
  match ev with
  | SCall id a =>
    let '(c, os) := cl_step (e_cl cfg) (y_cl y) (CCall id a) in
    let '(y1, tr1, w1) := cl_outs cfg (y <| y_cl := c |>) os in
    let '(y2, tr2) := pump pump_fuel cfg y1 w1 in
    (y2, tr1 ++ tr2)
  | SBpub m =>
    if b_closed (y_br y) then (y, []) else
    let '(y1, tr1) := pump pump_fuel cfg y [FromBroker m] in
    (y1, SoBS (gw_now (y_gw y)) m :: tr1)
  | SBurst ms =>
    if b_closed (y_br y) then (y, []) else
    let '(y1, tr1) := pump pump_fuel cfg y (map FromBroker ms) in
    (y1, map (SoBS (gw_now (y_gw y))) ms ++ tr1)
  | SAdv d => advance_to adv_fuel cfg y (sys_now y + d)
  end.

Fixpoint sys_run (cfg : e2e_cfg) (y : sys) (evs : list sys_event) : list (list sys_out) * sys :=
  match evs with
  | [] => ([], y)
  | ev :: evs' =>
    let '(y1, o) := sys_step cfg y ev in
    let '(os, y2) := sys_run cfg y1 evs' in
    (o :: os, y2)
  end.
