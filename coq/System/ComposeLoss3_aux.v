(* System/ComposeLoss3_aux.v — component lemmas for System/ComposeLoss3.v (C16, QoS 2 under any loss pattern within the
   retry budget): the traces of the two phases as functions of the loss pattern, and the induction over the rounds.

     held_of hd, rel_of, tail2, trace2, rest2   phase 2 (PUBREL -> PUBCOMP): hd = the DUP flag of the PUBLISH the client still
                                   holds (None: nothing - the handler has run); the rounds rs2 (true: PUBREL lost; false: PUBREL
                                   delivered, PUBCOMP lost), then the round that succeeds
     trace1, faults1               phase 1 (PUBLISH -> PUBREC): the rounds rs1 (true: PUBLISH lost; false: delivered, PUBREC
                                   lost), the round that succeeds (BR PUBREC, BS PUBREL), then phase 2; the fault-list hypotheses
     R2, R1f, S1                   one round after the gateway has written its datagram (Hold2 of ComposeLoss2.v)
     adv2, cont2, adv1             the retransmission rounds of phase 2 / of phase 1 followed by phase 2, by induction on the pattern

   Builds on ComposeLoss2.v (Hold2, fire_entry, pump_pub_head, pump_pub_recdrop, pump_rel_deliver / _drop, adv_comp_finish). *)
From stdpp Require Import base option list numbers fin_maps nmap.
From Coq Require Import Lia ZArith ZifyN ZifyNat ZifyBool.
From RecordUpdate Require Import RecordSet.
From Verif.Base Require Import Bytes BytesProofs.
From Verif.Codec Require Import Packets Decode Encode EncodeProofs.
From Verif.Checkers Require Import ChkCodec.
From Verif.Topics Require Import Predefined.
From Verif.Gateway Require Import GwTypes GwStep GwWf.
From Verif.Match Require Import Match MatchProofs.
From Verif.Client Require Import ClTypes ClStep Sound_Client.
From Verif.System Require Import Compose RoutingProofs ComposeProofs_aux ComposeProofs ComposeProofs2_aux ComposeProofs2
  ComposeProofs3_aux ComposeLoss_aux ComposeLoss ComposeLoss2_aux ComposeLoss2.
Import RecordSetNotations.
Open Scope N_scope.
Ltac Zify.zify_post_hook ::= Z.div_mod_to_equations.

Section Q2.
Variables (retain : bool) (topic : bytes) (mid : N) (payload : bytes) (hs : list N).

(* what the client holds: nothing, or the copy of the PUBLISH it received last (its DUP flag) *)
Definition held_of (hd : option bool) : option packet := option_map (fun dp => pub2 dp retain topic mid payload) hd.

(* the handler invocation caused by a PUBREL at time t *)
Definition rel_of (t : N) (hd : option bool) : list sys_out :=
  match hd with Some dp => cb_of hs t topic payload 2 retain dp mid | None => [] end.

(* a round of phase 2 after the PUBREL datagram has been written: o = Some true - the PUBREL is lost; Some false - it is
   delivered (the handler runs if the client still holds the PUBLISH) and the client's PUBCOMP is lost; None - both get through *)
Definition tail2 (o : option bool) (t : N) (hd : option bool) : list sys_out :=
  match o with
  | Some true => []
  | Some false => rel_of t hd ++ [SoC2G t FDrop (pack (Pubcomp mid))]
  | None => rel_of t hd ++ [SoC2G t FDeliver (pack (Pubcomp mid)); SoBR t (MqPubcomp mid)]
  end.
Definition hd_after2 (b : bool) (hd : option bool) : option bool := if b then hd else None.
Definition fl_of (b : bool) : fault := if b then FDrop else FDeliver.

(* phase 2 from a transmission of PUBREL at T on: the failed rounds rs2 (RetryDelay apart), then the round that succeeds *)
Fixpoint trace2 (rd : N) (rs2 : list bool) (T : N) (hd : option bool) : list sys_out :=
  match rs2 with
  | [] => SoG2C T FDeliver (pack (Pubrel mid)) :: tail2 None T hd
  | b :: r => SoG2C T (fl_of b) (pack (Pubrel mid)) :: tail2 (Some b) T hd ++ trace2 rd r (T + rd) (hd_after2 b hd)
  end.
Definition rest2 (rd : N) (rs2 : list bool) (T : N) (hd : option bool) : list sys_out :=
  match rs2 with [] => [] | b :: r => trace2 rd r (T + rd) (hd_after2 b hd) end.
Lemma trace2_rest rd rs2 T hd :
  trace2 rd rs2 T hd = SoG2C T (match rs2 with b :: _ => fl_of b | [] => FDeliver end) (pack (Pubrel mid)) ::
                       tail2 (match rs2 with b :: _ => Some b | [] => None end) T hd ++ rest2 rd rs2 T hd.
Proof. destruct rs2 as [|b r]; cbn [trace2 rest2]; [rewrite app_nil_r|]; reflexivity. Qed.

(* phase 1 from a transmission of the PUBLISH (DUP flag dp) at T on: the failed rounds rs1 (true: the PUBLISH is lost; false:
   the client's PUBREC is lost), then the round in which PUBREC reaches the gateway and the broker answers PUBREL; then phase 2 *)
Fixpoint trace1 (rd : N) (rs1 rs2 : list bool) (T : N) (dp : bool) : list sys_out :=
  match rs1 with
  | [] => SoG2C T FDeliver (pack (pub2 dp retain topic mid payload)) ::
          [SoC2G T FDeliver (pack (Pubrec mid)); SoBR T (MqPubrec mid); SoBS T (MqPubrel mid)] ++ trace2 rd rs2 T (Some dp)
  | b :: r => SoG2C T (fl_of b) (pack (pub2 dp retain topic mid payload)) ::
              (if b then [] else [SoC2G T FDrop (pack (Pubrec mid))]) ++ trace1 rd r rs2 (T + rd) true
  end.

(* the link: the fault list at the positions the rounds use (kc, kg: the link counters when the transmission begins);
   phase 2 alone is faults_ok of ComposeLoss.v *)
Fixpoint faults1 (cfg : e2e_cfg) (rs1 rs2 : list bool) (kc kg : nat) : Prop :=
  match rs1 with
  | [] => nth_fault (e_g2c cfg) kg = FDeliver /\ nth_fault (e_c2g cfg) kc = FDeliver /\ faults_ok cfg rs2 (S kc) (S kg)
  | true :: r => nth_fault (e_g2c cfg) kg = FDrop /\ faults1 cfg r rs2 kc (S kg)
  | false :: r => nth_fault (e_g2c cfg) kg = FDeliver /\ nth_fault (e_c2g cfg) kc = FDrop /\ faults1 cfg r rs2 (S kc) (S kg)
  end.

Hypothesis Hs : is_short_topic topic = true.
Hypothesis Hw : wf_bytes topic.
Hypothesis Hm : 1 <= mid < 65536.
Hypothesis Hp : okb payload = true.

Lemma ht_of ccfg c hd : held_topic ccfg c (held_of hd) topic.
Proof. destruct hd; cbn [held_of option_map held_topic pub2]; [apply tfp_short; assumption|exact I]. Qed.

Lemma rel_eq y t hd : handle_set (cl_handlers (y_cl y)) topic = hs -> rel_scb y t topic (held_of hd) = rel_of t hd.
Proof. intros H. destruct hd; [|reflexivity]. cbn [held_of option_map pub2 rel_scb rel_of]. unfold scb_at, cb_of. rewrite H. reflexivity. Qed.

(* ------------------------------------------------------------------ one round, after the gateway has written its datagram *)

Lemma R2 cfg y hd n T f fl (o : option bool) :
  Hold2 cfg y (held_of hd) (tx_comp mid n) mid T -> handle_set (cl_handlers (y_cl y)) topic = hs ->
  match o with
  | Some true => fl = FDrop
  | Some false => fl = FDeliver /\ nth_fault (e_c2g cfg) (y_c2g_k y) = FDrop
  | None => fl = FDeliver /\ nth_fault (e_c2g cfg) (y_c2g_k y) = FDeliver
  end ->
  exists y', pump (S (S (S f))) cfg y (map ToCl (copies fl (pack (Pubrel mid)))) = (y', tail2 o (gw_now (y_gw y)) hd) /\
    match o with
    | None => Quiet cfg y'
    | Some b => Hold2 cfg y' (held_of (hd_after2 b hd)) (tx_comp mid n) mid T
    end /\
    gw_now (y_gw y') = gw_now (y_gw y) /\ y_br y' = y_br y /\ cl_handlers (y_cl y') = cl_handlers (y_cl y) /\
    y_c2g_k y' = match o with Some true => y_c2g_k y | _ => S (y_c2g_k y) end /\ y_g2c_k y' = y_g2c_k y.
Proof.
  intros HH Hhs Ho. destruct o as [[|]|].
  - subst fl. exists y. cbn [map copies]. rewrite pump_nil. split; [reflexivity|]. split; [exact HH|]. repeat split.
  - destruct Ho as [-> Hfc]. cbn [map copies].
    destruct (pump_rel_drop cfg y _ topic mid n T (S (S f)) HH (ht_of _ _ hd) Hm Hfc) as (y' & E & HH' & Hn' & Hb' & Hh' & Hkc' & Hkg').
    exists y'. rewrite E, (rel_eq y _ hd Hhs). split; [reflexivity|]. split; [exact HH'|]. repeat split; assumption.
  - destruct Ho as [-> Hfc]. cbn [map copies].
    destruct (pump_rel_deliver cfg y _ topic mid n T f HH (ht_of _ _ hd) Hm Hfc) as (y' & E & HQ' & Hn' & Hb' & Hh' & Hkc' & Hkg').
    exists y'. rewrite E, (rel_eq y _ hd Hhs). split; [reflexivity|]. split; [exact HQ'|]. repeat split; assumption.
Qed.

Lemma R1f cfg y hd p n T f dp fl (b : bool) :
  Hold2 cfg y (held_of hd) (tx_rec mid p n) mid T ->
  (if b then fl = FDrop else fl = FDeliver /\ nth_fault (e_c2g cfg) (y_c2g_k y) = FDrop) ->
  exists y', pump (S f) cfg y (map ToCl (copies fl (pack (pub2 dp retain topic mid payload)))) =
             (y', if b then [] else [SoC2G (gw_now (y_gw y)) FDrop (pack (Pubrec mid))]) /\
    Hold2 cfg y' (held_of (if b then hd else Some dp)) (tx_rec mid p n) mid T /\
    gw_now (y_gw y') = gw_now (y_gw y) /\ y_br y' = y_br y /\ cl_handlers (y_cl y') = cl_handlers (y_cl y) /\
    y_c2g_k y' = (if b then y_c2g_k y else S (y_c2g_k y)) /\ y_g2c_k y' = y_g2c_k y.
Proof.
  intros HH Hb. destruct b.
  - subst fl. exists y. cbn [map copies]. rewrite pump_nil. split; [reflexivity|]. split; [exact HH|]. repeat split.
  - destruct Hb as [-> Hfc]. cbn [map copies].
    destruct (pump_pub_recdrop cfg y _ _ dp retain TIT_SHORT (encode_short topic) mid payload T f HH
                (wf_pub2 dp retain topic mid payload Hs Hw ltac:(lia) Hp) Hm Hfc) as (y' & E & HH' & Hn' & Hb' & Hh' & Hkc' & Hkg').
    exists y'. split; [exact E|]. split; [exact HH'|]. repeat split; assumption.
Qed.

(* the round of phase 1 that succeeds, with the first transmission of PUBREL (o2: how that one fares) *)
Lemma S1 cfg y hd p n T f dp (o2 : option bool) :
  Hold2 cfg y (held_of hd) (tx_rec mid p n) mid T -> handle_set (cl_handlers (y_cl y)) topic = hs ->
  nth_fault (e_c2g cfg) (y_c2g_k y) = FDeliver ->
  match o2 with
  | Some true => nth_fault (e_g2c cfg) (y_g2c_k y) = FDrop
  | Some false => nth_fault (e_g2c cfg) (y_g2c_k y) = FDeliver /\ nth_fault (e_c2g cfg) (S (y_c2g_k y)) = FDrop
  | None => nth_fault (e_g2c cfg) (y_g2c_k y) = FDeliver /\ nth_fault (e_c2g cfg) (S (y_c2g_k y)) = FDeliver
  end ->
  let t := gw_now (y_gw y) in
  exists y', pump (S (S (S (S (S (S (S f))))))) cfg y [ToCl (pack (pub2 dp retain topic mid payload))] =
      (y', [SoC2G t FDeliver (pack (Pubrec mid)); SoBR t (MqPubrec mid); SoBS t (MqPubrel mid)] ++
           SoG2C t (match o2 with Some true => FDrop | _ => FDeliver end) (pack (Pubrel mid)) :: tail2 o2 t (Some dp)) /\
    match o2 with
    | None => Quiet cfg y'
    | Some b => Hold2 cfg y' (held_of (hd_after2 b (Some dp))) (tx_comp mid 0) mid (t + retry_delay (e_gw cfg))
    end /\
    gw_now (y_gw y') = t /\ y_br y' = y_br y /\ cl_handlers (y_cl y') = cl_handlers (y_cl y) /\
    y_c2g_k y' = match o2 with Some true => S (y_c2g_k y) | _ => S (S (y_c2g_k y)) end /\ y_g2c_k y' = S (y_g2c_k y).
Proof.
  intros HH Hhs Hfc Ho t. subst t.
  destruct (pump_pub_head cfg y _ p n dp retain TIT_SHORT (encode_short topic) mid payload T HH
              (wf_pub2 dp retain topic mid payload Hs Hw ltac:(lia) Hp) Hm Hfc)
    as (y1 & HH1 & Hn1 & Hb1 & Hh1 & Hr1 & Hkc1 & Hkg1 & E).
  destruct (R2 cfg y1 (Some dp) 0 _ f (nth_fault (e_g2c cfg) (y_g2c_k y)) o2 HH1 ltac:(rewrite Hh1; exact Hhs))
    as (y' & E2 & Hpost & Hn' & Hb' & Hh' & Hkc' & Hkg').
  { rewrite Hkc1. destruct o2 as [[|]|]; [exact Ho| |]; (destruct Ho as [A B]; split; [exact A|exact B]). }
  exists y'. split; [|split; [exact Hpost|split; [rewrite Hn'; exact Hn1|split; [rewrite Hb'; exact Hb1|split; [rewrite Hh'; exact Hh1|split]]]]].
  - unfold pub2. rewrite (E (S (S (S f)))). rewrite E2, Hn1.
    assert (Efl : nth_fault (e_g2c cfg) (y_g2c_k y) = match o2 with Some true => FDrop | _ => FDeliver end)
      by (destruct o2 as [[|]|]; [exact Ho|exact (proj1 Ho)|exact (proj1 Ho)]).
    rewrite Efl. reflexivity.
  - rewrite Hkc', Hkc1. destruct o2 as [[|]|]; reflexivity.
  - rewrite Hkg'. exact Hkg1.
Qed.

(* ------------------------------------------------------------------ the retransmission rounds of phase 2 *)

Lemma adv2 cfg rs2 : forall y hd n T f t,
  Hold2 cfg y (held_of hd) (tx_comp mid n) mid T -> handle_set (cl_handlers (y_cl y)) topic = hs ->
  n + N.of_nat (length rs2) + 1 <= retry_count (e_gw cfg) -> 0 < retry_delay (e_gw cfg) ->
  faults_ok cfg rs2 (y_c2g_k y) (y_g2c_k y) ->
  T + N.of_nat (length rs2) * retry_delay (e_gw cfg) <= t -> (length rs2 + 2 <= f)%nat ->
  exists y', advance_to f cfg y t = (y', trace2 (retry_delay (e_gw cfg)) rs2 T hd) /\
    Quiet cfg y' /\ gw_now (y_gw y') = t /\ y_br y' = y_br y /\ cl_handlers (y_cl y') = cl_handlers (y_cl y).
Proof.
  induction rs2 as [|b r IH]; intros y hd n T f t HH Hhs Hn Hrd Hfaults Ht Hf.
  - destruct Hfaults as [Hfg Hfc]. cbn [length] in *.
    pose proof (adv_comp_finish cfg y _ topic mid n T O f t HH (ht_of _ _ hd) Hm ltac:(lia) Hrd ltac:(intros i Hi; lia)
                  ltac:(rewrite Nat.add_0_r; exact Hfg) Hfc Ht Hf) as H.
    cbv zeta in H. destruct H as (y' & E & HQ' & Hn' & Hb' & Hh' & _).
    assert (ET : T + N.of_nat 0 * retry_delay (e_gw cfg) = T) by lia. rewrite ET in E.
    exists y'. split; [|split; [exact HQ'|split; [exact Hn'|split; [exact Hb'|exact Hh']]]].
    rewrite E. cbn [drops app trace2 tail2]. rewrite (rel_eq y _ hd Hhs). reflexivity.
  - destruct f as [|f]; [cbn [length] in Hf; lia|].
    assert (HTk : T + N.of_nat (length (b :: r)) * retry_delay (e_gw cfg) =
                  T + retry_delay (e_gw cfg) + N.of_nat (length r) * retry_delay (e_gw cfg)) by (cbn [length]; lia).
    rewrite HTk in Ht. clear HTk.
    pose proof HH as (_ & _ & Hnow & HT & _).
    assert (Elt : (T <? t) = true) by (apply N.ltb_lt; lia).
    assert (Emax : N.max T (N.max (cl_now (y_cl y)) (gw_now (y_gw y))) = T) by lia.
    rewrite advance_to_S, (deadline_hold cfg y _ _ _ _ HH), Elt, Emax.
    destruct (fire_entry cfg y _ mid 2 AwaitPubcomp (Pubrel mid) None n T HH (proj1 (proj2 (wf_mid3 mid ltac:(lia))))
                ltac:(cbn [length] in Hn; lia) Hrd) as (y1 & HH1 & Hn1 & Hb1 & Hh1 & Hr1 & Hkc1 & Hkg1 & E).
    cbv zeta in E. rewrite pump_fuel_eq in E.
    destruct (R2 cfg y1 hd (n + 1) (T + retry_delay (e_gw cfg)) (S (S (S (S (S (S (S (S (S pump_rest)))))))))
                (nth_fault (e_g2c cfg) (y_g2c_k y)) (Some b) HH1 ltac:(rewrite Hh1; exact Hhs))
      as (y2 & E2 & HH2 & Hn2 & Hb2 & Hh2 & Hkc2 & Hkg2).
    { rewrite Hkc1. destruct b; [exact (proj1 Hfaults)|]. destruct Hfaults as (A & B & _). split; assumption. }
    change (set_dup (Pubrel mid)) with (Pubrel mid) in E. rewrite E2 in E. rewrite E.
    assert (Efl : nth_fault (e_g2c cfg) (y_g2c_k y) = fl_of b) by (destruct b; [exact (proj1 Hfaults)|exact (proj1 Hfaults)]).
    destruct (IH y2 (hd_after2 b hd) (n + 1) (T + retry_delay (e_gw cfg)) f t HH2 ltac:(rewrite Hh2, Hh1; exact Hhs)
                ltac:(cbn [length] in Hn; lia) Hrd) as (y3 & E3 & HQ3 & Hn3 & Hb3 & Hh3); [|exact Ht|cbn [length] in Hf; lia|].
    { rewrite Hkc2, Hkg2, Hkc1, Hkg1. destruct b; [exact (proj2 Hfaults)|exact (proj2 (proj2 Hfaults))]. }
    rewrite E3. exists y3. split; [|split; [exact HQ3|split; [exact Hn3|split; [rewrite Hb3, Hb2; exact Hb1|rewrite Hh3, Hh2; exact Hh1]]]].
    cbn [trace2]. rewrite Efl, Hn1. cbn [app]. reflexivity.
Qed.

(* the exchange after a round at T that leaves it completed (rs2 = []) or waiting for PUBCOMP *)
Lemma cont2 cfg y held tx T y2 tr rs2 hd f t :
  Hold2 cfg y held tx mid T -> advance_both cfg y T = (y2, tr) -> gw_now (y_gw y2) = T ->
  match rs2 with
  | [] => Quiet cfg y2
  | b :: r => Hold2 cfg y2 (held_of (hd_after2 b hd)) (tx_comp mid 0) mid (T + retry_delay (e_gw cfg)) /\
              faults_ok cfg r (y_c2g_k y2) (y_g2c_k y2)
  end ->
  handle_set (cl_handlers (y_cl y2)) topic = hs ->
  N.of_nat (length rs2) <= retry_count (e_gw cfg) -> 0 < retry_delay (e_gw cfg) ->
  T + N.of_nat (length rs2) * retry_delay (e_gw cfg) <= t -> (length rs2 + 2 <= f)%nat ->
  exists y', advance_to f cfg y t = (y', tr ++ rest2 (retry_delay (e_gw cfg)) rs2 T hd) /\
    Quiet cfg y' /\ gw_now (y_gw y') = t /\ y_br y' = y_br y2 /\ cl_handlers (y_cl y') = cl_handlers (y_cl y2).
Proof.
  intros HH E Hn2 Hpost Hhs Hrc Hrd Ht Hf. destruct rs2 as [|b r].
  - cbn [length] in *. destruct (adv_to_final cfg y held tx mid T y2 tr t f HH ltac:(lia) E Hpost Hn2 Hf)
      as (y' & E' & HQ' & Hn' & Hb' & Hh' & _).
    exists y'. cbn [rest2]. rewrite app_nil_r. split; [exact E'|]. split; [exact HQ'|]. split; [exact Hn'|]. split; [exact Hb'|exact Hh'].
  - destruct Hpost as [HH2 Hfaults]. destruct f as [|f]; [cbn [length] in Hf; lia|].
    pose proof HH as (_ & _ & Hnow & HT & _).
    assert (Elt : (T <? t) = true) by (apply N.ltb_lt; cbn [length] in Ht; lia).
    assert (Emax : N.max T (N.max (cl_now (y_cl y)) (gw_now (y_gw y))) = T) by lia.
    rewrite advance_to_S, (deadline_hold cfg y _ _ _ _ HH), Elt, Emax, E.
    destruct (adv2 cfg r y2 (hd_after2 b hd) 0 (T + retry_delay (e_gw cfg)) f t HH2 Hhs ltac:(cbn [length] in Hrc; lia) Hrd Hfaults
                ltac:(cbn [length] in Ht; lia) ltac:(cbn [length] in Hf; lia)) as (y' & E' & HQ' & Hn' & Hb' & Hh').
    rewrite E'. exists y'. cbn [rest2]. split; [reflexivity|]. split; [exact HQ'|]. split; [exact Hn'|]. split; [exact Hb'|exact Hh'].
Qed.

(* ------------------------------------------------------------------ the retransmission rounds of phase 1, then phase 2 *)

Lemma adv1 cfg rs2 rs1 : forall y hd dp n T f t,
  Hold2 cfg y (held_of hd) (tx_rec mid (pub2 dp retain topic mid payload) n) mid T ->
  handle_set (cl_handlers (y_cl y)) topic = hs ->
  n + N.of_nat (length rs1) + 1 <= retry_count (e_gw cfg) -> N.of_nat (length rs2) <= retry_count (e_gw cfg) ->
  0 < retry_delay (e_gw cfg) ->
  faults1 cfg rs1 rs2 (y_c2g_k y) (y_g2c_k y) ->
  T + N.of_nat (length rs1 + length rs2) * retry_delay (e_gw cfg) <= t -> (length rs1 + length rs2 + 2 <= f)%nat ->
  exists y', advance_to f cfg y t = (y', trace1 (retry_delay (e_gw cfg)) rs1 rs2 T true) /\
    Quiet cfg y' /\ gw_now (y_gw y') = t /\ y_br y' = y_br y /\ cl_handlers (y_cl y') = cl_handlers (y_cl y).
Proof.
  induction rs1 as [|b r IH]; intros y hd dp n T f t HH Hhs Hn Hrc2 Hrd Hfaults Ht Hf.
  - destruct Hfaults as (Hfg & Hfc & Hfaults2). cbn [length Nat.add] in *.
    destruct (fire_entry cfg y _ mid 2 AwaitPubrec (pub2 dp retain topic mid payload) None n T HH
                ltac:(rewrite set_dup_pub2; apply wf_pub2; [assumption|assumption|lia|assumption]) ltac:(lia) Hrd)
      as (y1 & HH1 & Hn1 & Hb1 & Hh1 & Hr1 & Hkc1 & Hkg1 & E).
    cbv zeta in E. rewrite pump_fuel_eq, Hfg in E. rewrite set_dup_pub2 in E, HH1. cbn [map copies] in E.
    pose proof (S1 cfg y1 hd (pub2 true retain topic mid payload) (n + 1) (T + retry_delay (e_gw cfg))
                  (S (S (S (S (S pump_rest))))) true (match rs2 with b2 :: _ => Some b2 | [] => None end) HH1
                  ltac:(rewrite Hh1; exact Hhs) ltac:(rewrite Hkc1; exact Hfc)) as H.
    cbv zeta in H. destruct H as (y2 & E2 & Hpost & Hn2 & Hb2 & Hh2 & Hkc2 & Hkg2).
    { rewrite Hkc1, Hkg1. destruct rs2 as [|[|] r2]; cbn [faults_ok] in Hfaults2.
      - exact Hfaults2.
      - exact (proj1 Hfaults2).
      - destruct Hfaults2 as (A & B & _). split; assumption. }
    rewrite E2 in E.
    destruct (cont2 cfg y _ _ T y2 _ rs2 (Some true) f t HH E ltac:(rewrite Hn2; exact Hn1)) as (y' & E' & HQ' & Hn' & Hb' & Hh').
    + destruct rs2 as [|b2 r2]; [exact Hpost|]. split; [rewrite Hn1 in Hpost; exact Hpost|].
      rewrite Hkc2, Hkg2, Hkc1, Hkg1. destruct b2; cbn [faults_ok] in Hfaults2; [exact (proj2 Hfaults2)|exact (proj2 (proj2 Hfaults2))].
    + rewrite Hh2, Hh1. exact Hhs.
    + exact Hrc2.
    + exact Hrd.
    + exact Ht.
    + exact Hf.
    + exists y'. split; [|split; [exact HQ'|split; [exact Hn'|split; [rewrite Hb', Hb2; exact Hb1|rewrite Hh', Hh2; exact Hh1]]]].
      rewrite E'. cbn [trace1]. rewrite (trace2_rest _ rs2 T (Some true)). rewrite Hn1.
      destruct rs2 as [|[|] r2]; reflexivity.
  - destruct f as [|f]; [cbn [length] in Hf; lia|].
    assert (HTk : T + N.of_nat (length (b :: r) + length rs2) * retry_delay (e_gw cfg) =
                  T + retry_delay (e_gw cfg) + N.of_nat (length r + length rs2) * retry_delay (e_gw cfg)) by (cbn [length]; lia).
    rewrite HTk in Ht. clear HTk.
    pose proof HH as (_ & _ & Hnow & HT & _).
    assert (Elt : (T <? t) = true) by (apply N.ltb_lt; lia).
    assert (Emax : N.max T (N.max (cl_now (y_cl y)) (gw_now (y_gw y))) = T) by lia.
    rewrite advance_to_S, (deadline_hold cfg y _ _ _ _ HH), Elt, Emax.
    destruct (fire_entry cfg y _ mid 2 AwaitPubrec (pub2 dp retain topic mid payload) None n T HH
                ltac:(rewrite set_dup_pub2; apply wf_pub2; [assumption|assumption|lia|assumption]) ltac:(cbn [length] in Hn; lia) Hrd)
      as (y1 & HH1 & Hn1 & Hb1 & Hh1 & Hr1 & Hkc1 & Hkg1 & E).
    cbv zeta in E. rewrite pump_fuel_eq in E. rewrite set_dup_pub2 in E, HH1.
    destruct (R1f cfg y1 hd (pub2 true retain topic mid payload) (n + 1) (T + retry_delay (e_gw cfg))
                (S (S (S (S (S (S (S (S (S (S (S pump_rest))))))))))) true (nth_fault (e_g2c cfg) (y_g2c_k y)) b HH1)
      as (y2 & E2 & HH2 & Hn2 & Hb2 & Hh2 & Hkc2 & Hkg2).
    { rewrite Hkc1. destruct b; cbn [faults1] in Hfaults; [exact (proj1 Hfaults)|]. destruct Hfaults as (A & B & _). split; assumption. }
    rewrite E2 in E. rewrite E.
    assert (Efl : nth_fault (e_g2c cfg) (y_g2c_k y) = fl_of b) by (destruct b; cbn [faults1] in Hfaults; exact (proj1 Hfaults)).
    destruct (IH y2 (if b then hd else Some true) true (n + 1) (T + retry_delay (e_gw cfg)) f t HH2 ltac:(rewrite Hh2, Hh1; exact Hhs)
                ltac:(cbn [length] in Hn; lia) Hrc2 Hrd) as (y3 & E3 & HQ3 & Hn3 & Hb3 & Hh3); [|exact Ht|cbn [length] in Hf; lia|].
    { rewrite Hkc2, Hkg2, Hkc1, Hkg1. destruct b; cbn [faults1] in Hfaults; [exact (proj2 Hfaults)|exact (proj2 (proj2 Hfaults))]. }
    rewrite E3. exists y3. split; [|split; [exact HQ3|split; [exact Hn3|split; [rewrite Hb3, Hb2; exact Hb1|rewrite Hh3, Hh2; exact Hh1]]]].
    cbn [trace1]. rewrite Efl, Hn1. destruct b; reflexivity.
Qed.

End Q2.

Print Assumptions adv2.
Print Assumptions adv1.
