(* System/ComposeProofs2.v — C26 (partial), continued: subscriptions and handler delivery in the
   composed system of System/Compose.v, for SHORT topic names (two well-formed bytes; they need no
   REGISTER step), proved for ALL configurations, states, topic names and payloads in the stated
   ranges.  Continues System/ComposeProofs.v (Quiet, lossless, cfg_ok, e2e_connect, e2e_ping,
   e2e_publish_short_q0 / _q1).

   e2e_subscribe_short_gen    Subscribe (QoS <= 2) from ANY Quiet state (whatever subscriptions exist,
                              re-subscription included): exact trace, result Quiet, the broker's table is
                              sub_set (topic, q) of the old one, the client's handler table tbl_store
   e2e_bpub_short_q0_gen / _q1_gen   a broker PUBLISH (QoS 0 / 1, any DUP and RETAIN) in ANY Quiet state:
                              exact trace; the callback invoked is the first candidate of handle_set
   QuietS cfg y subs          Quiet, and exactly the subscriptions subs (topic, granted QoS, handler id;
                              short wildcard-free pairwise distinct topics) are in place on both sides:
                              b_subs of the broker and cl_handlers of the client
   e2e_subscribe_short        from QuietS ... subs, a new topic: exact trace, QuietS ... (subs ++ [(topic, q, id)])
   e2e_bpub_short_q0 / _q1    from QuietS ... subs with (topic, g, h) in subs: exact trace with exactly one
                              SoCb (handler h, that topic, that payload), for q = 1 the broker receives
                              PUBACK mid; QuietS ... subs again
   C26_partial_subscriptions  programs  Connect :: evs  (Ping / Publish QoS 0-1 on short topics nobody
                              subscribed to / Subscribe on new short topics / broker PUBLISHes on subscribed
                              topics): every call returns nil with its documented effect at the broker and
                              invokes no handler; every broker message is delivered to exactly one handler
                              invocation (the one of its topic's subscription) with its topic and payload

   The component lemmas are in ComposeProofs2_aux.v. *)
From stdpp Require Import base option list numbers fin_maps nmap.
From Coq Require Import Lia ZArith ZifyN ZifyNat ZifyBool.
From RecordUpdate Require Import RecordSet.
From Verif.Base Require Import Bytes BytesProofs.
From Verif.Codec Require Import Packets Decode Encode EncodeProofs.
From Verif.Checkers Require Import ChkCodec.
From Verif.Topics Require Import Predefined.
From Verif.Gateway Require Import GwTypes GwStep GwWf.
From Verif.Match Require Import Match MatchProofs.
From Verif.Client Require Import ClTypes ClStep Sound_Client.
From Verif.System Require Import Compose RoutingProofs ComposeProofs_aux ComposeProofs ComposeProofs2_aux.
Import RecordSetNotations.
Open Scope N_scope.
Ltac Zify.zify_post_hook ::= Z.div_mod_to_equations.

(* ------------------------------------------------------------------ 1. Subscribe, short topic name *)

Theorem e2e_subscribe_short_gen cfg y id topic q : lossless cfg -> Quiet cfg y ->
  is_short_topic topic = true -> wf_bytes topic -> q <= 2 ->
  let t := gw_now (y_gw y) in
  let mid := cl_next_mid (y_cl y) in
  exists y', sys_step cfg y (SCall id (ASubscribe topic q)) =
    (y', [SoC2G t FDeliver (pack (Subscribe false q TIT_SHORT mid (encode_short topic) []));
          SoBR t (MqSubscribe mid false [(topic, q)]); SoBS t (MqSuback mid [q]);
          SoG2C t FDeliver (pack (Suback q 0 mid RC_ACCEPTED)); SoRet t id ROk]) /\
    Quiet cfg y' /\
    y_br y' = y_br y <| b_subs := sub_set (topic, q) (b_subs (y_br y)) |> /\
    cl_handlers (y_cl y') = tbl_store (cl_handlers (y_cl y)) (split topic) id.
Proof.
  intros [Hc2g Hg2c] (HC & HG & Hnow & Hcid & Hbc & Heof) Hs Hw Hq t mid. subst t mid.
  destruct y as [c g b k1 k2 eof]. cbn [y_cl y_gw y_br y_br_eof] in *.
  pose proof (cq_mid _ HC) as Hmid.
  assert (Hqle : (q <=? 2) = true) by (apply N.leb_le; exact Hq).
  destruct (cl_sub (e_cl cfg) c id topic q q HC Hs Hw ltac:(lia) ltac:(lia))
    as (c1 & c' & Ec1 & Ec2 & HC' & Hcn & Hcr & Hch).
  destruct (gw_sub (e_gw cfg) g topic q (cl_next_mid c) HG Hs Hw Hq ltac:(lia))
    as (g1 & g' & Eg1 & Eg2 & HG' & (Hgn & Hgc & _) & Hg1n).
  eexists. split; [|split; [|split]].
  - unfold sys_step. sk. rewrite Ec1. sk. rewrite Hc2g, nth_fault_nil. sk.
    rewrite pump_fuel_eq. sk. rewrite Eg1. sk.
    unfold broker_recv. rewrite Hbc. cbn [fold_left map snd]. rewrite Hqle. sk. rewrite Hbc. sk.
    rewrite Eg2. sk. rewrite Hg2c, nth_fault_nil. sk. rewrite Ec2. sk.
    rewrite Hnow, Hg1n. reflexivity.
  - unfold Quiet. sk. split; [exact HC'|]. split; [exact HG'|]. split; [rewrite Hcn, Hgn; exact Hnow|].
    split; [rewrite Hgc; exact Hcid|]. split; assumption.
  - reflexivity.
  - exact Hch.
Qed.

(* ------------------------------------------------------------------ 2. broker PUBLISH, short topic name *)

(* the handler invocation: the first candidate of the client's handler table, if there is one *)
Definition scb_out (y : sys) (topic payload : bytes) (q : N) (retain dup : bool) (mid : N) : list sys_out :=
  match handle_set (cl_handlers (y_cl y)) topic with
  | sub :: _ => [SoCb (gw_now (y_gw y)) sub topic payload q retain dup mid]
  | [] => []
  end.

Lemma cl_outs_cb cfg y c topic payload q retain dup mid :
  cl_outs cfg y (cb_out c topic payload q retain dup mid) =
  (y, match handle_set (cl_handlers c) topic with
      | sub :: _ => [SoCb (cl_now c) sub topic payload q retain dup mid]
      | [] => []
      end, []).
Proof. unfold cb_out. destruct (handle_set (cl_handlers c) topic); reflexivity. Qed.

Theorem e2e_bpub_short_q0_gen cfg y dup retain topic mid payload : lossless cfg -> Quiet cfg y ->
  is_short_topic topic = true -> wf_bytes topic -> mid < 65536 -> okb payload = true ->
  let t := gw_now (y_gw y) in
  exists y', sys_step cfg y (SBpub (MqPublish dup 0 retain topic mid payload)) =
    (y', SoBS t (MqPublish dup 0 retain topic mid payload) ::
         SoG2C t FDeliver (pack (Publish dup 0 retain TIT_SHORT (encode_short topic) mid payload)) ::
         scb_out y topic payload 0 retain dup mid) /\
    Quiet cfg y' /\ y_br y' = y_br y /\ cl_handlers (y_cl y') = cl_handlers (y_cl y).
Proof.
  intros [Hc2g Hg2c] (HC & HG & Hnow & Hcid & Hbc & Heof) Hs Hw Hm Hp t. subst t.
  destruct y as [c g b k1 k2 eof]. unfold scb_out. cbn [y_cl y_gw y_br y_br_eof] in *.
  destruct (gw_bpub0 (e_gw cfg) g dup retain topic mid payload HG Hs Hw Hm Hp) as (g' & Eg1 & HG' & (Hgn & Hgc & _)).
  destruct (cl_bpub0 (e_cl cfg) c dup retain topic mid payload HC Hs Hw Hm Hp) as (c' & Ec1 & HC' & (Hcn & Hch & Hcr) & _).
  eexists. split; [|split; [|split]].
  - unfold sys_step. sk. rewrite Hbc.
    rewrite pump_fuel_eq. sk. rewrite Eg1. sk. rewrite Hg2c, nth_fault_nil. sk.
    rewrite Ec1. sk. rewrite cl_outs_cb. sk. rewrite ?app_nil_r, Hnow. reflexivity.
  - unfold Quiet. sk. split; [exact HC'|]. split; [exact HG'|]. split; [rewrite Hcn, Hgn; exact Hnow|].
    split; [rewrite Hgc; exact Hcid|]. split; assumption.
  - reflexivity.
  - exact Hch.
Qed.

Theorem e2e_bpub_short_q1_gen cfg y dup retain topic mid payload : lossless cfg -> Quiet cfg y ->
  is_short_topic topic = true -> wf_bytes topic -> 1 <= mid < 65536 -> okb payload = true ->
  let t := gw_now (y_gw y) in
  exists y', sys_step cfg y (SBpub (MqPublish dup 1 retain topic mid payload)) =
    (y', SoBS t (MqPublish dup 1 retain topic mid payload) ::
         SoG2C t FDeliver (pack (Publish dup 1 retain TIT_SHORT (encode_short topic) mid payload)) ::
         SoC2G t FDeliver (pack (Puback (encode_short topic) mid RC_ACCEPTED)) ::
         scb_out y topic payload 1 retain dup mid ++ [SoBR t (MqPuback mid)]) /\
    Quiet cfg y' /\ y_br y' = y_br y /\ cl_handlers (y_cl y') = cl_handlers (y_cl y).
Proof.
  intros [Hc2g Hg2c] (HC & HG & Hnow & Hcid & Hbc & Heof) Hs Hw Hm Hp t. subst t.
  destruct y as [c g b k1 k2 eof]. unfold scb_out. cbn [y_cl y_gw y_br y_br_eof] in *.
  destruct (gw_bpub1 (e_gw cfg) g dup retain topic mid payload HG Hs Hw Hm Hp)
    as (g1 & g' & Eg1 & Eg2 & HG' & (Hgn & Hgc & _) & Hg1n).
  destruct (cl_bpub1 (e_cl cfg) c dup retain topic mid payload HC Hs Hw ltac:(lia) Hp)
    as (c' & Ec1 & HC' & (Hcn & Hch & Hcr) & _).
  eexists. split; [|split; [|split]].
  - unfold sys_step. sk. rewrite Hbc.
    rewrite pump_fuel_eq. sk. rewrite Eg1. sk. rewrite Hg2c, nth_fault_nil. sk.
    rewrite Ec1. sk. rewrite Hc2g, nth_fault_nil. sk. rewrite cl_outs_cb. sk.
    rewrite Eg2. sk. unfold broker_recv. rewrite Hbc. sk. rewrite Hbc. sk.
    rewrite ?app_nil_r, Hnow. reflexivity.
  - unfold Quiet. sk. split; [exact HC'|]. split; [exact HG'|]. split; [rewrite Hcn, Hgn; exact Hnow|].
    split; [rewrite Hgc; exact Hcid|]. split; assumption.
  - reflexivity.
  - exact Hch.
Qed.

(* ------------------------------------------------------------------ 3. the subscriptions in place *)

(* a connected quiescent system in which exactly the subscriptions subs (topic, granted QoS, handler
   id, in order of subscription; short wildcard-free pairwise distinct topic names) are in place: they
   are the broker's subscription table and the client's handler table *)
Definition QuietS (cfg : e2e_cfg) (y : sys) (subs : list subn) : Prop :=
  Quiet cfg y /\ b_subs (y_br y) = bsubs_of subs /\ cl_handlers (y_cl y) = handlers_of subs /\ subs_ok subs.

Lemma QuietS_nil cfg y : Quiet cfg y -> b_subs (y_br y) = [] -> cl_handlers (y_cl y) = [] -> QuietS cfg y [].
Proof. intros HQ Hb Hh. split; [exact HQ|]. split; [exact Hb|]. split; [exact Hh|exact subs_ok_nil]. Qed.

(* Subscribe on a new short topic name: the subscription (granted QoS q, handler id) is in place afterwards *)
Theorem e2e_subscribe_short cfg y subs id topic q : lossless cfg -> QuietS cfg y subs ->
  topic_ok topic = true -> q <= 2 -> ~ In topic (map sub_topic subs) ->
  let t := gw_now (y_gw y) in
  let mid := cl_next_mid (y_cl y) in
  exists y', sys_step cfg y (SCall id (ASubscribe topic q)) =
    (y', [SoC2G t FDeliver (pack (Subscribe false q TIT_SHORT mid (encode_short topic) []));
          SoBR t (MqSubscribe mid false [(topic, q)]); SoBS t (MqSuback mid [q]);
          SoG2C t FDeliver (pack (Suback q 0 mid RC_ACCEPTED)); SoRet t id ROk]) /\
    QuietS cfg y' (subs ++ [(topic, q, id)]).
Proof.
  intros Hll (HQ & Hb & Hh & Hok) Ht Hq Hnew t mid. subst t mid.
  destruct (topic_ok_spec topic Ht) as (Hs & Hw & _).
  destruct (e2e_subscribe_short_gen cfg y id topic q Hll HQ Hs Hw Hq) as (y' & E & HQ' & Hbr & Hch).
  exists y'. split; [exact E|]. split; [exact HQ'|]. split; [|split].
  - rewrite Hbr. cbn [b_subs set]. rewrite Hb. apply sub_set_fresh, Hnew.
  - rewrite Hch, Hh. apply tbl_store_fresh, Hnew.
  - apply subs_ok_snoc; [exact Hok|exact Ht|exact Hnew].
Qed.

Lemma scb_out_subs cfg y subs s payload q retain dup mid : QuietS cfg y subs -> In s subs ->
  scb_out y (sub_topic s) payload q retain dup mid = [SoCb (gw_now (y_gw y)) (sub_id s) (sub_topic s) payload q retain dup mid].
Proof.
  intros (_ & _ & Hh & Hok) Hin. unfold scb_out. rewrite Hh, (handle_set_subs subs s Hok Hin). reflexivity.
Qed.

Lemma QuietS_frame cfg y y' subs : QuietS cfg y subs -> Quiet cfg y' -> y_br y' = y_br y ->
  cl_handlers (y_cl y') = cl_handlers (y_cl y) -> QuietS cfg y' subs.
Proof.
  intros (_ & Hb & Hh & Hok) HQ' Hbr Hch. split; [exact HQ'|]. split; [rewrite Hbr; exact Hb|].
  split; [rewrite Hch; exact Hh|exact Hok].
Qed.

(* a broker PUBLISH (QoS 0) on the topic of a subscription: exactly one handler invocation, the handler of
   that subscription, with that topic and payload *)
Theorem e2e_bpub_short_q0 cfg y subs s dup retain mid payload : lossless cfg -> QuietS cfg y subs ->
  In s subs -> mid < 65536 -> okb payload = true ->
  let t := gw_now (y_gw y) in
  let topic := sub_topic s in
  exists y', sys_step cfg y (SBpub (MqPublish dup 0 retain topic mid payload)) =
    (y', [SoBS t (MqPublish dup 0 retain topic mid payload);
          SoG2C t FDeliver (pack (Publish dup 0 retain TIT_SHORT (encode_short topic) mid payload));
          SoCb t (sub_id s) topic payload 0 retain dup mid]) /\
    QuietS cfg y' subs.
Proof.
  intros Hll HS Hin Hm Hp t topic. subst t topic. pose proof HS as (HQ & _ & _ & Hf & _).
  rewrite Forall_forall in Hf. destruct (topic_ok_spec _ (Hf s Hin)) as (Hs & Hw & _).
  destruct (e2e_bpub_short_q0_gen cfg y dup retain (sub_topic s) mid payload Hll HQ Hs Hw Hm Hp)
    as (y' & E & HQ' & Hbr & Hch).
  rewrite (scb_out_subs cfg y subs s payload 0 retain dup mid HS Hin) in E.
  exists y'. split; [exact E|]. exact (QuietS_frame cfg y y' subs HS HQ' Hbr Hch).
Qed.

(* ... QoS 1: moreover the client's PUBACK reaches the broker *)
Theorem e2e_bpub_short_q1 cfg y subs s dup retain mid payload : lossless cfg -> QuietS cfg y subs ->
  In s subs -> 1 <= mid < 65536 -> okb payload = true ->
  let t := gw_now (y_gw y) in
  let topic := sub_topic s in
  exists y', sys_step cfg y (SBpub (MqPublish dup 1 retain topic mid payload)) =
    (y', [SoBS t (MqPublish dup 1 retain topic mid payload);
          SoG2C t FDeliver (pack (Publish dup 1 retain TIT_SHORT (encode_short topic) mid payload));
          SoC2G t FDeliver (pack (Puback (encode_short topic) mid RC_ACCEPTED));
          SoCb t (sub_id s) topic payload 1 retain dup mid;
          SoBR t (MqPuback mid)]) /\
    QuietS cfg y' subs.
Proof.
  intros Hll HS Hin Hm Hp t topic. subst t topic. pose proof HS as (HQ & _ & _ & Hf & _).
  rewrite Forall_forall in Hf. destruct (topic_ok_spec _ (Hf s Hin)) as (Hs & Hw & _).
  destruct (e2e_bpub_short_q1_gen cfg y dup retain (sub_topic s) mid payload Hll HQ Hs Hw Hm Hp)
    as (y' & E & HQ' & Hbr & Hch).
  rewrite (scb_out_subs cfg y subs s payload 1 retain dup mid HS Hin) in E.
  exists y'. split; [exact E|]. exact (QuietS_frame cfg y y' subs HS HQ' Hbr Hch).
Qed.

(* ------------------------------------------------------------------ 4. programs *)

(* the documented effect of a call at the broker, with Subscribe (effect_of of ComposeProofs.v has none) *)
Definition effect_of2 (cfg : e2e_cfg) (a : api) (mid : N) : option mq_pkt :=
  match a with
  | ASubscribe t q => Some (MqSubscribe mid false [(t, q)])
  | _ => effect_of cfg a mid
  end.

Definition cbs_full (os : list sys_out) : list (N * bytes * bytes * N * bool * bool * N) :=
  flat_map (fun o => match o with
                     | SoCb _ sub topic payload q r d mid => [(sub, topic, payload, q, r, d, mid)]
                     | _ => [] end) os.

(* the call returns nil, exactly once; the broker receives exactly the documented packet; no handler is invoked *)
Definition call_ok2 (cfg : e2e_cfg) (id : N) (a : api) (os : list sys_out) : Prop :=
  rets_of os = [(id, ROk)] /\ (exists mid m, effect_of2 cfg a mid = Some m /\ brs_of os = [m]) /\ cbs_full os = [].

Definition subscribed (subs : list subn) (t : bytes) : bool :=
  match sub_lookup subs t with Some _ => true | None => false end.

(* the events covered, given the subscriptions in place:
   - Ping;
   - Publish with QoS 0 or 1 on a 2-byte wildcard-free topic name nobody subscribed to, payload of at most 7168 bytes;
   - Subscribe with QoS <= 2 on a 2-byte wildcard-free topic name not yet subscribed to;
   - a broker PUBLISH with QoS 0 or 1 (any DUP, RETAIN) on a subscribed topic name, payload of at most 7168 bytes,
     message ID below 65536 and, for QoS 1, not 0 *)
Definition ev_okb (subs : list subn) (ev : sys_event) : bool :=
  match ev with
  | SCall _ APing => true
  | SCall _ (APublish t q r p) => simple_callb (APublish t q r p) && negb (subscribed subs t)
  | SCall _ (ASubscribe t q) => topic_ok t && (q <=? 2) && negb (subscribed subs t)
  | SBpub (MqPublish dup q r t mid p) =>
    subscribed subs t && okb p && (mid <? 65536) && ((q =? 0) || ((q =? 1) && (1 <=? mid)))
  | _ => false
  end.

Definition subs_after (subs : list subn) (ev : sys_event) : list subn :=
  match ev with
  | SCall id (ASubscribe t q) => subs ++ [(t, q, id)]
  | _ => subs
  end.

Fixpoint prog_okb (subs : list subn) (evs : list sys_event) : bool :=
  match evs with
  | [] => true
  | ev :: evs' => ev_okb subs ev && prog_okb (subs_after subs ev) evs'
  end.

Fixpoint subs_final (subs : list subn) (evs : list sys_event) : list subn :=
  match evs with
  | [] => subs
  | ev :: evs' => subs_final (subs_after subs ev) evs'
  end.

(* what the trace of an event must say: a call succeeds with its effect; a broker message is delivered to
   exactly one handler invocation - the handler of the subscription on its topic - with its topic, payload,
   QoS and flags, no call returns, and the broker receives PUBACK for QoS 1 and nothing for QoS 0 *)
Definition ev_post (cfg : e2e_cfg) (subs : list subn) (ev : sys_event) (os : list sys_out) : Prop :=
  match ev with
  | SCall id a => call_ok2 cfg id a os
  | SBpub (MqPublish dup q r t mid p) =>
    exists s, sub_lookup subs t = Some s /\ cbs_full os = [(sub_id s, t, p, q, r, dup, mid)] /\
      rets_of os = [] /\ brs_of os = (if q =? 1 then [MqPuback mid] else [])
  | _ => False
  end.

Fixpoint run_post (cfg : e2e_cfg) (subs : list subn) (evs : list sys_event) (oss : list (list sys_out)) : Prop :=
  match evs, oss with
  | [], [] => True
  | ev :: evs', os :: oss' => ev_post cfg subs ev os /\ run_post cfg (subs_after subs ev) evs' oss'
  | _, _ => False
  end.

Lemma subscribed_false subs t : subscribed subs t = false -> ~ In t (map sub_topic subs).
Proof. unfold subscribed. intros H. apply sub_lookup_none. destruct (sub_lookup subs t); [discriminate H|reflexivity]. Qed.

Lemma subs_step cfg y subs ev : lossless cfg -> QuietS cfg y subs -> ev_okb subs ev = true ->
  exists y' os, sys_step cfg y ev = (y', os) /\ ev_post cfg subs ev os /\ QuietS cfg y' (subs_after subs ev).
Proof.
  intros Hll HS Hev. pose proof HS as (HQ & Hb & Hh & Hok). destruct ev as [id a|m|ms|d]; try discriminate Hev.
  - destruct a as [|?|topic qos|? ?|topic qos retain payload|? ? ? ?|?|?| |?| |]; try discriminate Hev.
    + (* Subscribe *)
      cbn [ev_okb] in Hev. apply andb_true_iff in Hev. destruct Hev as [Hev Hns].
      apply andb_true_iff in Hev. destruct Hev as [Ht Hq]. apply N.leb_le in Hq.
      apply negb_true_iff, subscribed_false in Hns.
      destruct (e2e_subscribe_short cfg y subs id topic qos Hll HS Ht Hq Hns) as (y' & E & HS').
      exists y'. eexists. split; [exact E|]. split; [|exact HS'].
      split; [reflexivity|]. split; [|reflexivity]. eexists. eexists. split; reflexivity.
    + (* Publish *)
      cbn [ev_okb] in Hev. apply andb_true_iff in Hev. destruct Hev as [Ha Hns].
      apply negb_true_iff, subscribed_false in Hns.
      cbn [simple_callb] in Ha. repeat (apply andb_true_iff in Ha; destruct Ha as [Ha ?]).
      match goal with H : wf_bytesb _ = true |- _ => apply wf_bytesb_spec in H end.
      match goal with H : negb _ = true |- _ => apply negb_true_iff in H end.
      assert (Hnm : sub_matching (b_subs (y_br y)) topic = []).
      { rewrite Hb. apply sub_matching_none; [exact (proj1 Hok)|exact Hns]. }
      apply orb_true_iff in Ha. destruct Ha as [Hq|Hq]; apply N.eqb_eq in Hq; subst qos.
      * destruct (e2e_publish_short_q0 cfg y id topic retain payload Hll HQ) as (y' & E & HQ' & Hbr & Hch); try assumption.
        exists y'. eexists. split; [exact E|]. split; [|exact (QuietS_frame cfg y y' subs HS HQ' Hbr Hch)].
        split; [reflexivity|]. split; [|reflexivity]. eexists. eexists. split; reflexivity.
      * destruct (e2e_publish_short_q1 cfg y id topic retain payload Hll HQ) as (y' & E & HQ' & Hbr & Hch); try assumption.
        exists y'. eexists. split; [exact E|]. split; [|exact (QuietS_frame cfg y y' subs HS HQ' Hbr Hch)].
        split; [reflexivity|]. split; [|reflexivity]. eexists. eexists. split; reflexivity.
    + (* Ping *)
      destruct (e2e_ping cfg y id Hll HQ) as (y' & E & HQ' & Hbr & Hch).
      exists y'. eexists. split; [exact E|]. split; [|exact (QuietS_frame cfg y y' subs HS HQ' Hbr Hch)].
      split; [reflexivity|]. split; [|reflexivity]. exists 0. eexists. split; reflexivity.
  - (* broker PUBLISH *)
    destruct m as [?|? ?|dup qos retain topic mid payload|?|?|?|?|? ? ?|? ?|? ?|?| | |]; try discriminate Hev.
    cbn [ev_okb] in Hev. apply andb_true_iff in Hev. destruct Hev as [Hev Hqm].
    apply andb_true_iff in Hev. destruct Hev as [Hev Hm]. apply N.ltb_lt in Hm.
    apply andb_true_iff in Hev. destruct Hev as [Hsub Hp].
    unfold subscribed in Hsub. destruct (sub_lookup subs topic) as [s|] eqn:Hl; [|discriminate Hsub].
    destruct (sub_lookup_some subs topic s Hl) as [Hin Hst]. subst topic.
    cbn [subs_after ev_post]. rewrite Hl.
    apply orb_true_iff in Hqm. destruct Hqm as [Hq|Hq].
    + apply N.eqb_eq in Hq. subst qos.
      destruct (e2e_bpub_short_q0 cfg y subs s dup retain mid payload Hll HS Hin Hm Hp) as (y' & E & HS').
      exists y'. eexists. split; [exact E|]. split; [|exact HS'].
      exists s. split; [reflexivity|]. split; [reflexivity|]. split; reflexivity.
    + apply andb_true_iff in Hq. destruct Hq as [Hq Hm1]. apply N.eqb_eq in Hq. subst qos. apply N.leb_le in Hm1.
      destruct (e2e_bpub_short_q1 cfg y subs s dup retain mid payload Hll HS Hin (conj Hm1 Hm) Hp) as (y' & E & HS').
      exists y'. eexists. split; [exact E|]. split; [|exact HS'].
      exists s. split; [reflexivity|]. split; [reflexivity|]. split; reflexivity.
Qed.

Lemma subs_run cfg (evs : list sys_event) : lossless cfg ->
  forall y subs, QuietS cfg y subs -> prog_okb subs evs = true ->
  exists oss y', sys_run cfg y evs = (oss, y') /\ run_post cfg subs evs oss /\ QuietS cfg y' (subs_final subs evs).
Proof.
  intros Hll. induction evs as [|ev evs IH]; intros y subs HS Hall.
  - exists [], y. split; [reflexivity|]. split; [exact I|exact HS].
  - cbn [prog_okb] in Hall. apply andb_true_iff in Hall. destruct Hall as [Hev Hall].
    destruct (subs_step cfg y subs ev Hll HS Hev) as (y1 & os & E & Hpost & HS1).
    destruct (IH y1 (subs_after subs ev) HS1 Hall) as (oss & y' & Er & Hposts & HS').
    exists (os :: oss), y'. split; [|split].
    + cbn [sys_run]. rewrite E, Er. reflexivity.
    + split; [exact Hpost|exact Hposts].
    + exact HS'.
Qed.

(* C26 for the programs  Connect; Ping / Publish / Subscribe calls and broker PUBLISHes on short topic
   names : every call returns nil, has exactly its documented effect at the broker and invokes no handler;
   every broker message is delivered to exactly one handler invocation - that of the Subscribe call on its
   topic - with its topic and payload; the system ends connected and quiescent with exactly the
   subscriptions of the program in place at the broker and in the client *)
Theorem C26_partial_subscriptions cfg id0 (evs : list sys_event) : cfg_ok cfg ->
  prog_okb [] evs = true ->
  exists os0 oss y', sys_run cfg (sys_init cfg) (SCall id0 AConnect :: evs) = (os0 :: oss, y') /\
    call_ok cfg id0 AConnect os0 /\ run_post cfg [] evs oss /\ QuietS cfg y' (subs_final [] evs).
Proof.
  intros Hcfg Hall. pose proof Hcfg as (Hll & _).
  destruct (e2e_connect cfg id0 Hcfg) as (y1 & E & _ & _ & _ & _ & HQ1 & Hbr & Hch).
  assert (HS1 : QuietS cfg y1 []) by (apply QuietS_nil; [exact HQ1|rewrite Hbr; reflexivity|exact Hch]).
  destruct (subs_run cfg evs Hll y1 [] HS1 Hall) as (oss & y' & Er & Hposts & HS').
  eexists. exists oss, y'. split; [|split; [|split; [exact Hposts|exact HS']]].
  - cbn [sys_run]. rewrite E, Er. reflexivity.
  - split; [reflexivity|]. exists 0. eexists. split; reflexivity.
Qed.

(* ... and a final Disconnect also returns nil, reaches the broker as DISCONNECT, and leaves the client
   disconnected *)
Lemma sys_run_app cfg evs1 : forall evs2 y oss1 y1 oss2 y2,
  sys_run cfg y evs1 = (oss1, y1) -> sys_run cfg y1 evs2 = (oss2, y2) ->
  sys_run cfg y (evs1 ++ evs2) = (oss1 ++ oss2, y2).
Proof.
  induction evs1 as [|ev evs1 IH]; intros evs2 y0 oss1 y1 oss2 y2 H1 H2.
  - cbn [sys_run] in H1. injection H1 as <- <-. exact H2.
  - cbn [sys_run app] in *. destruct (sys_step cfg y0 ev) as [ya o]. destruct (sys_run cfg ya evs1) as [os yb] eqn:Eb.
    injection H1 as <- <-. rewrite (IH evs2 ya os yb oss2 y2 Eb H2). reflexivity.
Qed.

Theorem C26_partial_subscriptions_disconnect cfg id0 (evs : list sys_event) idd : cfg_ok cfg ->
  prog_okb [] evs = true ->
  exists os0 oss osd y', sys_run cfg (sys_init cfg) (SCall id0 AConnect :: evs ++ [SCall idd ADisconnect]) =
                           (os0 :: oss ++ [osd], y') /\
    call_ok cfg id0 AConnect os0 /\ run_post cfg [] evs oss /\ call_ok cfg idd ADisconnect osd /\
    cl_st (y_cl y') = Disconnected /\ b_closed (y_br y') = true /\ b_subs (y_br y') = bsubs_of (subs_final [] evs).
Proof.
  intros Hcfg Hall. pose proof Hcfg as (Hll & _).
  destruct (C26_partial_subscriptions cfg id0 evs Hcfg Hall) as (os0 & oss & y1 & Er & Hc & Hposts & HS1).
  pose proof HS1 as (HQ1 & Hb1 & _).
  (* the broker's table survives the exchange: the specification broker only marks itself closed *)
  assert (Hd : exists y' osd, sys_step cfg y1 (SCall idd ADisconnect) = (y', osd) /\ call_ok cfg idd ADisconnect osd /\
                 cl_st (y_cl y') = Disconnected /\ b_closed (y_br y') = true /\ b_subs (y_br y') = b_subs (y_br y1)).
  { destruct HQ1 as (HC & HG & Hnow & Hcid & Hbc & Heof). destruct Hll as [Hc2g Hg2c].
    destruct y1 as [c g b k1 k2 eof]. cbn [y_cl y_gw y_br y_br_eof] in *.
    destruct (cl_disconnect (e_cl cfg) c idd HC) as (c1 & c' & Ec1 & Ec2 & Hst & Hcanc & Hex & Hcn).
    destruct (gw_disconnect (e_gw cfg) g HG) as (g' & Eg1 & Hgst & (te & Hend) & Hended & Hgn).
    pose proof (gw_eof_ending (e_gw cfg) g' te Hended Hend) as Eg2.
    eexists. eexists. split; [|split; [|split; [|split]]].
    - unfold sys_step. sk. rewrite Ec1. sk. rewrite Hc2g, nth_fault_nil. sk.
      rewrite pump_fuel_eq. sk. rewrite Eg1. sk. rewrite Hg2c, nth_fault_nil. sk.
      unfold broker_recv. rewrite Hbc. sk. rewrite Heof. sk.
      rewrite Ec2. sk. rewrite Eg2. sk. reflexivity.
    - split; [reflexivity|]. exists 0. eexists. split; reflexivity.
    - sk. exact Hst.
    - reflexivity.
    - reflexivity. }
  destruct Hd as (y' & osd & Ed & Hcd & Hst & Hbc' & Hbs').
  exists os0, oss, osd, y'. split; [|split; [exact Hc|split; [exact Hposts|split; [exact Hcd|split; [exact Hst|split; [exact Hbc'|]]]]]].
  - change (SCall id0 AConnect :: evs ++ [SCall idd ADisconnect]) with ((SCall id0 AConnect :: evs) ++ [SCall idd ADisconnect]).
    change (os0 :: oss ++ [osd]) with ((os0 :: oss) ++ [osd]).
    apply (sys_run_app cfg _ _ _ _ _ _ _ Er). cbn [sys_run]. rewrite Ed. reflexivity.
  - rewrite Hbs'. exact Hb1.
Qed.

(* ------------------------------------------------------------------ 5. a concrete program (test; the hypotheses are satisfiable) *)

Definition prog0 : list sys_event :=
  [SCall 2 (ASubscribe [97; 98] 1);
   SBpub (MqPublish false 1 false [97; 98] 1000 [7]);
   SCall 3 (APublish [99; 100] 1 true [1; 2]);
   SCall 4 APing;
   SCall 5 (ASubscribe [99; 101] 0);
   SBpub (MqPublish true 0 true [99; 101] 0 [8]);
   SBpub (MqPublish false 0 false [97; 98] 0 []);
   SCall 6 (APublish [99; 102] 0 false [])].

Example prog0_test :
  prog_okb [] prog0 = true /\
  subs_final [] prog0 = [([97; 98], 1, 2); ([99; 101], 0, 5)] /\
  map cbs_of (fst (sys_run ecfg0 (sys_init ecfg0) (SCall 1 AConnect :: prog0))) =
    [[]; []; [(2, [97; 98], [7])]; []; []; []; [(5, [99; 101], [8])]; [(2, [97; 98], [])]; []] /\
  map rets_of (fst (sys_run ecfg0 (sys_init ecfg0) (SCall 1 AConnect :: prog0))) =
    [[(1, ROk)]; [(2, ROk)]; []; [(3, ROk)]; [(4, ROk)]; [(5, ROk)]; []; []; [(6, ROk)]] /\
  b_subs (y_br (snd (sys_run ecfg0 (sys_init ecfg0) (SCall 1 AConnect :: prog0)))) = [([97; 98], 1); ([99; 101], 0)].
Proof. vm_compute. repeat split; reflexivity. Qed.

(* the restrictions of the program check are needed for the shape of the statement, not for delivery:
   re-subscription moves the handler (tbl_store) but replaces in place at the broker (sub_set), and a Publish
   on a subscribed topic is routed back to the client's own handler (the trace continues with that delivery) *)
Example resubscribe_and_loopback_test :
  let y2 := fst (sys_step ecfg0 (fst (sys_step ecfg0 (sys_init ecfg0) (SCall 1 AConnect))) (SCall 2 (ASubscribe [97; 98] 1))) in
  let y3 := fst (sys_step ecfg0 y2 (SCall 3 (ASubscribe [99; 100] 1))) in
  let r4 := sys_step ecfg0 y3 (SCall 4 (ASubscribe [97; 98] 2)) in
  let r5 := sys_step ecfg0 (fst r4) (SCall 5 (APublish [97; 98] 1 false [1])) in
  b_subs (y_br (fst r4)) = [([97; 98], 2); ([99; 100], 1)] /\
  cl_handlers (y_cl (fst r4)) = [([99; 100], ([[99; 100]], 3)); ([97; 98], ([[97; 98]], 4))] /\
  rets_of (snd r5) = [(5, ROk)] /\ cbs_of (snd r5) = [(4, [97; 98], [1])] /\
  brs_of (snd r5) = [MqPublish false 1 false [97; 98] 4 [1]; MqPuback 1000] /\ quietb ecfg0 (fst r5) = true.
Proof. vm_compute. repeat split; reflexivity. Qed.

(* ------------------------------------------------------------------ 6. assumptions *)

Print Assumptions e2e_subscribe_short_gen.
Print Assumptions e2e_bpub_short_q0_gen.
Print Assumptions e2e_bpub_short_q1_gen.
Print Assumptions e2e_subscribe_short.
Print Assumptions e2e_bpub_short_q0.
Print Assumptions e2e_bpub_short_q1.
Print Assumptions C26_partial_subscriptions.
Print Assumptions C26_partial_subscriptions_disconnect.
Print Assumptions prog0_test.
Print Assumptions resubscribe_and_loopback_test.
