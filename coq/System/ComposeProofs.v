(* System/ComposeProofs.v — C26 (partial): end-to-end theorems about the composed system of
   System/Compose.v (client library model + lossless link + gateway session model + specification
   broker), proved for ALL configurations, states, topic names and payloads in the stated ranges.

   Quiet cfg y        a connected, quiescent system state
   e2e_connect        Connect from sys_init: exact trace, result Quiet
   e2e_publish_short_q0 / _q1, e2e_ping      from ANY Quiet state: exact trace, result Quiet
   e2e_disconnect     from any Quiet state: exact trace, client and gateway disconnected
   C26_partial        every program  AConnect :: calls  of simple calls succeeds call by call (ROk)
                      with its documented effect at the broker
   C26_refuted_burst  (vm_compute) two broker PUBLISHes in flight on an unregistered topic: only one
                      reaches the handler

   The component lemmas are in ComposeProofs_aux.v. *)
From stdpp Require Import base option list numbers fin_maps nmap.
From Coq Require Import Lia ZArith ZifyN ZifyNat ZifyBool.
From RecordUpdate Require Import RecordSet.
From Verif.Base Require Import Bytes BytesProofs.
From Verif.Codec Require Import Packets Decode Encode EncodeProofs.
From Verif.Checkers Require Import ChkCodec.
From Verif.Topics Require Import Predefined.
From Verif.Gateway Require Import GwTypes GwStep GwWf.
From Verif.Match Require Import Match MatchProofs.
From Verif.Client Require Import ClTypes ClStep Sound_Client.
From Verif.System Require Import Compose RoutingProofs ComposeProofs_aux.
Import RecordSetNotations.
Open Scope N_scope.
Ltac Zify.zify_post_hook ::= Z.div_mod_to_equations.

(* ------------------------------------------------------------------ definitions *)

Definition lossless (cfg : e2e_cfg) : Prop := e_c2g cfg = [] /\ e_g2c cfg = [].

(* a connected, quiescent system: client and gateway session active with no transaction in progress
   and no timer armed (ClQuiet, GwQuiet: see ComposeProofs_aux.v), equal clocks, the session is
   that of this client, the broker connection open *)
Definition Quiet (cfg : e2e_cfg) (y : sys) : Prop :=
  ClQuiet (y_cl y) /\ GwQuiet (y_gw y) /\ cl_now (y_cl y) = gw_now (y_gw y) /\
  gw_client_id (y_gw y) = k_cid (e_cl cfg) /\ b_closed (y_br y) = false /\ y_br_eof y = false.

(* the hypotheses on the configuration *)
Definition cfg_ok (cfg : e2e_cfg) : Prop :=
  lossless cfg /\ wf_cfg (e_gw cfg) /\ wf_cl_cfg (e_cl cfg) /\ auth_enabled (e_gw cfg) = false /\
  k_user (e_cl cfg) = [] /\ k_will (e_cl cfg) = [] /\ 0 < k_keepalive (e_cl cfg) < 65536.

(* ------------------------------------------------------------------ tools *)

Definition pump_rest : nat := N.to_nat 9988.
Lemma pump_fuel_eq : pump_fuel = S (S (S (S (S (S (S (S (S (S (S (S pump_rest))))))))))).
Proof.
  unfold pump_fuel, pump_rest. change 10000 with (12 + 9988). rewrite N2Nat.inj_add. reflexivity.
Qed.

Lemma nth_fault_nil k : nth_fault [] k = FDeliver.
Proof. unfold nth_fault. destruct k; reflexivity. Qed.

Lemma pump_nil fuel cfg y : pump fuel cfg y [] = (y, []).
Proof. destruct fuel; reflexivity. Qed.

Ltac sk := cbn [sys_step pump cl_outs gw_outs set y_cl y_gw y_br y_c2g_k y_g2c_k y_br_eof fst snd app map copies
  e_gw e_cl e_c2g e_g2c andb negb N.eqb Pos.eqb b_closed b_subs b_next_mid b_inflight2].

(* what a trace says *)
Definition rets_of (os : list sys_out) : list (N * cres) :=
  flat_map (fun o => match o with SoRet _ id r => [(id, r)] | _ => [] end) os.
Definition brs_of (os : list sys_out) : list mq_pkt :=
  flat_map (fun o => match o with SoBR _ m => [m] | _ => [] end) os.
Definition cbs_of (os : list sys_out) : list (N * bytes * bytes) :=
  flat_map (fun o => match o with SoCb _ sub topic payload _ _ _ _ => [(sub, topic, payload)] | _ => [] end) os.

(* ------------------------------------------------------------------ 1. Quiet after Connect (test) *)

Definition gcfg0 : gw_cfg := {| auth_enabled := false; cfg_user := None; cfg_pass := None; retry_delay := 10000;
  retry_count := 3; predefined := []; min_tid := 1; max_tid := 65534 |}.
Definition ccfg0 : cl_cfg := {| k_cid := [99; 49]; k_user := []; k_pass := []; k_keepalive := 60; k_ctimeout := 5000;
  k_rdelay := 10000; k_rcount := 3; k_clean := true; k_will := []; k_wmsg := []; k_wqos := 0; k_wretain := false;
  k_predef := [] |}.
Definition ecfg0 : e2e_cfg := {| e_gw := gcfg0; e_cl := ccfg0; e_c2g := []; e_g2c := [] |}.

(* Quiet as a boolean, for the test *)
Definition Nmap_is_empty {A} (m : Nmap A) : bool := match map_to_list m with [] => true | _ => false end.
Definition quietb (cfg : e2e_cfg) (y : sys) : bool :=
  let c := y_cl y in let g := y_gw y in
  cstate_eqb (cl_st c) Active && Nmap_is_empty (cl_objs c) && Nmap_is_empty (cl_by_id c) && Nmap_is_empty (cl_by_type c) &&
  (len (cl_timers c) =? 0) && match cl_cancelled c with None => true | _ => false end && negb (cl_exited c) &&
  negb (cl_conn_closed c) && (1 <=? cl_next_mid c) && (cl_next_mid c <=? 65535) &&
  cstate_eqb (gw_st g) Active && Nmap_is_empty (gw_objs g) && Nmap_is_empty (gw_by_id g) &&
  match gw_connect g with None => true | _ => false end && (len (gw_timers g) =? 0) &&
  match gw_ending g with None => true | _ => false end && negb (gw_ended g) && gw_accepted g &&
  (cl_now c =? gw_now g) && beq (gw_client_id g) (k_cid (e_cl cfg)) && negb (b_closed (y_br y)) && negb (y_br_eof y).

Example quiet_after_connect_test : quietb ecfg0 (fst (sys_step ecfg0 (sys_init ecfg0) (SCall 1 AConnect))) = true.
Proof. vm_compute. reflexivity. Qed.

(* ------------------------------------------------------------------ 2(d) Ping *)

Theorem e2e_ping cfg y id : lossless cfg -> Quiet cfg y ->
  let t := gw_now (y_gw y) in
  exists y', sys_step cfg y (SCall id APing) =
    (y', [SoC2G t FDeliver (pack (Pingreq [])); SoBR t MqPingreq; SoBS t MqPingresp;
          SoG2C t FDeliver (pack Pingresp); SoRet t id ROk]) /\
    Quiet cfg y' /\ y_br y' = y_br y /\ cl_handlers (y_cl y') = cl_handlers (y_cl y).
Proof.
  intros [Hc2g Hg2c] (HC & HG & Hnow & Hcid & Hbc & Heof) t. subst t.
  destruct y as [c g b k1 k2 eof]. cbn [y_cl y_gw y_br y_br_eof] in *.
  destruct (cl_ping (e_cl cfg) c id HC) as (c1 & c' & Ec1 & Ec2 & HC' & (Hcn & Hch & Hcr) & _).
  destruct (gw_ping (e_gw cfg) g HG) as (g1 & g' & Eg1 & Eg2 & HG' & (Hgn & Hgc & _) & Hg1n).
  eexists. split; [|split; [|split]].
  - unfold sys_step. sk. rewrite Ec1. sk. rewrite Hc2g, nth_fault_nil. sk.
    rewrite pump_fuel_eq. sk. rewrite Eg1. sk.
    unfold broker_recv. rewrite Hbc. sk. rewrite Hbc. sk.
    rewrite Eg2. sk. rewrite Hg2c, nth_fault_nil. sk. rewrite Ec2. sk.
    rewrite Hnow, Hg1n. reflexivity.
  - unfold Quiet. sk. split; [exact HC'|]. split; [exact HG'|]. split; [rewrite Hcn, Hgn; exact Hnow|].
    split; [rewrite Hgc; exact Hcid|]. split; assumption.
  - reflexivity.
  - exact Hch.
Qed.

(* ------------------------------------------------------------------ 2(b) Publish, short topic, QoS 0 *)

(* Restriction: no subscription of this client matches the topic (otherwise the broker routes the
   message back and the trace continues with that delivery). *)
Theorem e2e_publish_short_q0 cfg y id topic retain payload : lossless cfg -> Quiet cfg y ->
  is_short_topic topic = true -> wf_bytes topic -> has_wildcard topic = false -> okb payload = true ->
  sub_matching (b_subs (y_br y)) topic = [] ->
  let t := gw_now (y_gw y) in
  let mid := cl_next_mid (y_cl y) in
  exists y', sys_step cfg y (SCall id (APublish topic 0 retain payload)) =
    (y', [SoC2G t FDeliver (pack (Publish false 0 retain TIT_SHORT (encode_short topic) mid payload));
          SoRet t id ROk; SoBR t (MqPublish false 0 retain topic mid payload)]) /\
    Quiet cfg y' /\ y_br y' = y_br y /\ cl_handlers (y_cl y') = cl_handlers (y_cl y).
Proof.
  intros [Hc2g Hg2c] (HC & HG & Hnow & Hcid & Hbc & Heof) Hs Hw Hwild Hp Hnm t mid. subst t mid.
  destruct y as [c g b k1 k2 eof]. cbn [y_cl y_gw y_br y_br_eof] in *.
  pose proof (cq_mid _ HC) as Hmid.
  destruct (cl_pub0 (e_cl cfg) c id topic retain payload HC Hs Hw Hp) as (c' & Ec1 & HC' & (Hcn & Hch & Hcr)).
  destruct (gw_pub0 (e_gw cfg) g topic retain (cl_next_mid c) payload HG Hs Hw Hwild ltac:(lia) Hp)
    as (g' & Eg1 & HG' & (Hgn & Hgc & _)).
  eexists. split; [|split; [|split]].
  - unfold sys_step. sk. rewrite Ec1. sk. rewrite Hc2g, nth_fault_nil. sk.
    rewrite pump_fuel_eq. sk. rewrite Eg1. sk.
    unfold broker_recv, route. rewrite Hbc. sk. rewrite Hnm. sk. rewrite Hbc. sk.
    rewrite Hnow. reflexivity.
  - unfold Quiet. sk. split; [exact HC'|]. split; [exact HG'|]. split; [rewrite Hcn, Hgn; exact Hnow|].
    split; [rewrite Hgc; exact Hcid|]. split; assumption.
  - reflexivity.
  - exact Hch.
Qed.

(* ------------------------------------------------------------------ 2(c) Publish, short topic, QoS 1 *)

Theorem e2e_publish_short_q1 cfg y id topic retain payload : lossless cfg -> Quiet cfg y ->
  is_short_topic topic = true -> wf_bytes topic -> has_wildcard topic = false -> okb payload = true ->
  sub_matching (b_subs (y_br y)) topic = [] ->
  let t := gw_now (y_gw y) in
  let mid := cl_next_mid (y_cl y) in
  exists y', sys_step cfg y (SCall id (APublish topic 1 retain payload)) =
    (y', [SoC2G t FDeliver (pack (Publish false 1 retain TIT_SHORT (encode_short topic) mid payload));
          SoBR t (MqPublish false 1 retain topic mid payload); SoBS t (MqPuback mid);
          SoG2C t FDeliver (pack (Puback (encode_short topic) mid RC_ACCEPTED)); SoRet t id ROk]) /\
    Quiet cfg y' /\ y_br y' = y_br y /\ cl_handlers (y_cl y') = cl_handlers (y_cl y).
Proof.
  intros [Hc2g Hg2c] (HC & HG & Hnow & Hcid & Hbc & Heof) Hs Hw Hwild Hp Hnm t mid. subst t mid.
  destruct y as [c g b k1 k2 eof]. cbn [y_cl y_gw y_br y_br_eof] in *.
  pose proof (cq_mid _ HC) as Hmid.
  destruct (cl_pub1 (e_cl cfg) c id topic retain payload HC Hs Hw Hp) as (c1 & c' & Ec1 & Ec2 & HC' & (Hcn & Hch & Hcr)).
  destruct (gw_pub1 (e_gw cfg) g topic retain (cl_next_mid c) payload HG Hs Hw Hwild ltac:(lia) Hp)
    as (g1 & g' & Eg1 & Eg2 & HG' & (Hgn & Hgc & _) & Hg1n).
  eexists. split; [|split; [|split]].
  - unfold sys_step. sk. rewrite Ec1. sk. rewrite Hc2g, nth_fault_nil. sk.
    rewrite pump_fuel_eq. sk. rewrite Eg1. sk.
    unfold broker_recv, route. rewrite Hbc. sk. rewrite Hnm. sk. rewrite Hbc. sk.
    rewrite Eg2. sk. rewrite Hg2c, nth_fault_nil. sk. rewrite Ec2. sk.
    rewrite Hnow, Hg1n. reflexivity.
  - unfold Quiet. sk. split; [exact HC'|]. split; [exact HG'|]. split; [rewrite Hcn, Hgn; exact Hnow|].
    split; [rewrite Hgc; exact Hcid|]. split; assumption.
  - reflexivity.
  - exact Hch.
Qed.

(* ------------------------------------------------------------------ 2(e) Disconnect *)

Theorem e2e_disconnect cfg y id : lossless cfg -> Quiet cfg y ->
  let t := gw_now (y_gw y) in
  exists y', sys_step cfg y (SCall id ADisconnect) =
    (y', [SoC2G t FDeliver (pack (Disconnect 0)); SoBR t MqDisconnect;
          SoG2C t FDeliver (pack (Disconnect 0)); SoRet t id ROk]) /\
    cl_st (y_cl y') = Disconnected /\ gw_st (y_gw y') = Disconnected /\ b_closed (y_br y') = true /\
    cl_cancelled (y_cl y') = Some (t + 1000) /\ (exists te, gw_ending (y_gw y') = Some te).
Proof.
  intros [Hc2g Hg2c] (HC & HG & Hnow & Hcid & Hbc & Heof) t. subst t.
  destruct y as [c g b k1 k2 eof]. cbn [y_cl y_gw y_br y_br_eof] in *.
  destruct (cl_disconnect (e_cl cfg) c id HC) as (c1 & c' & Ec1 & Ec2 & Hst & Hcanc & Hex & Hcn).
  destruct (gw_disconnect (e_gw cfg) g HG) as (g' & Eg1 & Hgst & (te & Hend) & Hended & Hgn).
  pose proof (gw_eof_ending (e_gw cfg) g' te Hended Hend) as Eg2.
  eexists. split.
  - unfold sys_step. sk. rewrite Ec1. sk. rewrite Hc2g, nth_fault_nil. sk.
    rewrite pump_fuel_eq. sk. rewrite Eg1. sk. rewrite Hg2c, nth_fault_nil. sk.
    unfold broker_recv. rewrite Hbc. sk. rewrite Heof. sk.
    rewrite Ec2. sk. rewrite Eg2. sk.
    rewrite Hnow. reflexivity.
  - sk. split; [exact Hst|]. split; [exact Hgst|]. split; [reflexivity|]. split; [rewrite Hcanc, Hnow; reflexivity|].
    exists te. exact Hend.
Qed.

(* ------------------------------------------------------------------ 2(a) Connect *)

Lemma connect_pkt_eq ccfg : k_will ccfg = [] -> 0 < k_keepalive ccfg < 65536 ->
  connect_pkt ccfg = Connect false (k_clean ccfg) 1 (k_keepalive ccfg) (k_cid ccfg).
Proof.
  intros Hw Hk. unfold connect_pkt. rewrite Hw. change (negb (len (@nil N) =? 0)) with false.
  rewrite (u16_small (k_keepalive ccfg)) by lia. reflexivity.
Qed.

Lemma okb1_cid ccfg : wf_cl_cfg ccfg -> okb1 (k_cid ccfg) = true.
Proof.
  intros Hcfg. pose proof (wf_connect_pkt ccfg Hcfg) as H. unfold connect_pkt in H. cbn [wf_pkt] in H.
  apply andb_true_iff in H. exact (proj2 H).
Qed.

Theorem e2e_connect cfg id : cfg_ok cfg ->
  let ccfg := e_cl cfg in
  let mq := mq_connect_of (e_gw cfg) (k_clean ccfg) (k_keepalive ccfg) (k_cid ccfg) in
  exists y', sys_step cfg (sys_init cfg) (SCall id AConnect) =
    (y', [SoC2G 0 FDeliver (pack (connect_pkt ccfg)); SoBR 0 (MqConnect mq); SoBS 0 (MqConnack false 0);
          SoG2C 0 FDeliver (pack (Connack RC_ACCEPTED)); SoRet 0 id ROk]) /\
    c_cid mq = k_cid ccfg /\ c_keepalive mq = k_keepalive ccfg /\ c_clean mq = k_clean ccfg /\ c_will mq = false /\
    Quiet cfg y' /\ y_br y' = broker_init /\ cl_handlers (y_cl y') = [].
Proof.
  intros ([Hc2g Hg2c] & Hgw & Hcl & Hauth & Hu & Hwl & Hka) ccfg mq. subst ccfg mq.
  destruct (cl_connect (e_cl cfg) id Hcl Hu) as (c1 & c' & Ec1 & Ec2 & HC' & Hcn & Hch & Hcr).
  destruct (gw_connect_idle (e_gw cfg) (init_state (e_gw cfg)) (k_clean (e_cl cfg)) (k_keepalive (e_cl cfg))
              (k_cid (e_cl cfg)) false (gw_idle_init _) Hauth Hka (okb1_cid _ Hcl))
    as (g1 & g' & Eg1 & Eg2 & HG' & Hgn & Hgc & _ & Hg1n).
  rewrite <- (connect_pkt_eq (e_cl cfg) Hwl Hka) in Eg1.
  change (gw_now (init_state (e_gw cfg))) with 0 in *.
  eexists. split; [|split; [reflexivity|split; [reflexivity|split; [reflexivity|split; [reflexivity|split; [|split]]]]]].
  - unfold sys_step, sys_init. sk. rewrite Ec1. sk. rewrite Hc2g, nth_fault_nil. sk.
    rewrite pump_fuel_eq. sk. rewrite Eg1. sk.
    unfold broker_recv, broker_init. sk.
    rewrite Eg2. sk. rewrite Hg2c, nth_fault_nil. sk. rewrite Ec2. sk.
    rewrite Hg1n. reflexivity.
  - unfold Quiet. sk. split; [exact HC'|]. split; [exact HG'|]. split; [rewrite Hcn, Hgn; reflexivity|].
    split; [exact Hgc|]. split; reflexivity.
  - reflexivity.
  - exact Hch.
Qed.

(* ------------------------------------------------------------------ 3. programs *)

(* the calls covered: Ping, and Publish with QoS 0 or 1 on a 2-byte topic name without wildcard
   characters, with a payload of at most 7168 bytes; the call ids are arbitrary *)
Definition simple_callb (a : api) : bool :=
  match a with
  | APing => true
  | APublish t q r p => ((q =? 0) || (q =? 1)) && is_short_topic t && wf_bytesb t && negb (has_wildcard t) && okb p
  | _ => false
  end.

(* the documented effect of a call at the broker: the MQTT packet the broker receives
   (mid: the message ID the client library chose; compare effect_seen in Checkers/ChkE2E.v) *)
Definition effect_of (cfg : e2e_cfg) (a : api) (mid : N) : option mq_pkt :=
  match a with
  | AConnect => Some (MqConnect (mq_connect_of (e_gw cfg) (k_clean (e_cl cfg)) (k_keepalive (e_cl cfg)) (k_cid (e_cl cfg))))
  | APing => Some MqPingreq
  | APublish t q r p => Some (MqPublish false q r t mid p)
  | ADisconnect => Some MqDisconnect
  | _ => None
  end.

(* the call returns nil, exactly once, and the broker receives exactly the documented packet *)
Definition call_ok (cfg : e2e_cfg) (id : N) (a : api) (os : list sys_out) : Prop :=
  rets_of os = [(id, ROk)] /\ exists mid m, effect_of cfg a mid = Some m /\ brs_of os = [m].

(* invariant of the programs: Quiet, and no subscription at the broker *)
Definition QuietNS (cfg : e2e_cfg) (y : sys) : Prop := Quiet cfg y /\ b_subs (y_br y) = [].

Lemma simple_step cfg y id a : lossless cfg -> QuietNS cfg y -> simple_callb a = true ->
  exists y' os, sys_step cfg y (SCall id a) = (y', os) /\ call_ok cfg id a os /\ QuietNS cfg y'.
Proof.
  intros Hll [HQ Hns] Ha. destruct a; try discriminate.
  - (* Publish *)
    cbn [simple_callb] in Ha. repeat (apply andb_true_iff in Ha; destruct Ha as [Ha ?]).
    match goal with H : wf_bytesb _ = true |- _ => apply wf_bytesb_spec in H end.
    match goal with H : negb _ = true |- _ => apply negb_true_iff in H end.
    assert (Hnm : sub_matching (b_subs (y_br y)) topic = []) by (rewrite Hns; reflexivity).
    apply orb_true_iff in Ha. destruct Ha as [Hq|Hq]; apply N.eqb_eq in Hq; subst qos.
    + destruct (e2e_publish_short_q0 cfg y id topic retain payload Hll HQ) as (y' & E & HQ' & Hbr & _); try assumption.
      exists y'. eexists. split; [exact E|]. split.
      * split; [reflexivity|]. eexists. eexists. split; reflexivity.
      * split; [exact HQ'|]. rewrite Hbr. exact Hns.
    + destruct (e2e_publish_short_q1 cfg y id topic retain payload Hll HQ) as (y' & E & HQ' & Hbr & _); try assumption.
      exists y'. eexists. split; [exact E|]. split.
      * split; [reflexivity|]. eexists. eexists. split; reflexivity.
      * split; [exact HQ'|]. rewrite Hbr. exact Hns.
  - (* Ping *)
    destruct (e2e_ping cfg y id Hll HQ) as (y' & E & HQ' & Hbr & _).
    exists y'. eexists. split; [exact E|]. split.
    + split; [reflexivity|]. exists 0. eexists. split; reflexivity.
    + split; [exact HQ'|]. rewrite Hbr. exact Hns.
Qed.

Definition ev_of (ia : N * api) : sys_event := SCall (fst ia) (snd ia).

Lemma simple_run cfg (calls : list (N * api)) : lossless cfg ->
  forallb (fun ia => simple_callb (snd ia)) calls = true ->
  forall y, QuietNS cfg y ->
  exists oss y', sys_run cfg y (map ev_of calls) = (oss, y') /\
    Forall2 (fun ia os => call_ok cfg (fst ia) (snd ia) os) calls oss /\ QuietNS cfg y'.
Proof.
  intros Hll. induction calls as [|[id a] calls IH]; intros Hall y HQ.
  - exists [], y. split; [reflexivity|]. split; [constructor|exact HQ].
  - cbn [forallb snd] in Hall. apply andb_true_iff in Hall. destruct Hall as [Ha Hall].
    destruct (simple_step cfg y id a Hll HQ Ha) as (y1 & os & E & Hok & HQ1).
    destruct (IH Hall y1 HQ1) as (oss & y' & Er & Hf & HQ').
    exists (os :: oss), y'. split.
    + cbn [map sys_run]. change (ev_of (id, a)) with (SCall id a). rewrite E, Er. reflexivity.
    + split; [constructor; [exact Hok|exact Hf]|exact HQ'].
Qed.

(* C26 for the programs  Connect; simple calls : every call returns nil and has exactly its
   documented effect at the broker; the system ends connected and quiescent *)
Theorem C26_partial cfg id0 (calls : list (N * api)) : cfg_ok cfg ->
  forallb (fun ia => simple_callb (snd ia)) calls = true ->
  exists oss y', sys_run cfg (sys_init cfg) (map ev_of ((id0, AConnect) :: calls)) = (oss, y') /\
    Forall2 (fun ia os => call_ok cfg (fst ia) (snd ia) os) ((id0, AConnect) :: calls) oss /\ Quiet cfg y'.
Proof.
  intros Hcfg Hall. pose proof Hcfg as (Hll & _).
  destruct (e2e_connect cfg id0 Hcfg) as (y1 & E & _ & _ & _ & _ & HQ1 & Hbr & _).
  assert (HQ1' : QuietNS cfg y1) by (split; [exact HQ1|rewrite Hbr; reflexivity]).
  destruct (simple_run cfg calls Hll Hall y1 HQ1') as (oss & y' & Er & Hf & HQ' & _).
  eexists. exists y'. split.
  - cbn [map sys_run]. change (ev_of (id0, AConnect)) with (SCall id0 AConnect). rewrite E, Er. reflexivity.
  - split; [|exact HQ']. constructor; [|exact Hf].
    split; [reflexivity|]. exists 0. eexists. split; reflexivity.
Qed.

(* ... and a final Disconnect also returns nil, reaches the broker as DISCONNECT, and leaves the
   client disconnected *)
Theorem C26_partial_disconnect cfg id0 (calls : list (N * api)) idd : cfg_ok cfg ->
  forallb (fun ia => simple_callb (snd ia)) calls = true ->
  exists oss y', sys_run cfg (sys_init cfg) (map ev_of ((id0, AConnect) :: calls ++ [(idd, ADisconnect)])) = (oss, y') /\
    Forall2 (fun ia os => call_ok cfg (fst ia) (snd ia) os) ((id0, AConnect) :: calls ++ [(idd, ADisconnect)]) oss /\
    cl_st (y_cl y') = Disconnected /\ b_closed (y_br y') = true.
Proof.
  intros Hcfg Hall. pose proof Hcfg as (Hll & _).
  destruct (C26_partial cfg id0 calls Hcfg Hall) as (oss & y1 & Er & Hf & HQ1).
  destruct (e2e_disconnect cfg y1 idd Hll HQ1) as (y' & E & Hst & _ & Hbc & _).
  match type of E with _ = (_, ?os) => exists (oss ++ [os]) end.
  exists y'. split; [|split; [|split; [exact Hst|exact Hbc]]].
  - change ((id0, AConnect) :: calls ++ [(idd, ADisconnect)]) with (((id0, AConnect) :: calls) ++ [(idd, ADisconnect)]).
    rewrite map_app. 
    assert (Happ : forall evs1 evs2 y oss1 y1 oss2 y2, sys_run cfg y evs1 = (oss1, y1) -> sys_run cfg y1 evs2 = (oss2, y2) ->
                   sys_run cfg y (evs1 ++ evs2) = (oss1 ++ oss2, y2)).
    { induction evs1 as [|ev evs1 IH]; intros evs2 y0 oss1 y1' oss2 y2 H1 H2.
      - cbn [sys_run] in H1. injection H1 as <- <-. exact H2.
      - cbn [sys_run app] in *. destruct (sys_step cfg y0 ev) as [ya o]. destruct (sys_run cfg ya evs1) as [os yb] eqn:Eb.
        injection H1 as <- <-. rewrite (IH evs2 ya os yb oss2 y2 Eb H2). reflexivity. }
    apply (Happ _ _ _ _ _ _ _ Er). cbn [map sys_run]. change (ev_of (idd, ADisconnect)) with (SCall idd ADisconnect).
    rewrite E. reflexivity.
  - change ((id0, AConnect) :: calls ++ [(idd, ADisconnect)]) with (((id0, AConnect) :: calls) ++ [(idd, ADisconnect)]).
    apply Forall2_app; [exact Hf|]. constructor; [|constructor].
    split; [reflexivity|]. exists 0. eexists. split; reflexivity.
Qed.

(* ------------------------------------------------------------------ 4. refutation witness *)

(* C26 itself ("every broker message matching a subscription reaches the handler") is FALSE for the
   composed models.  Connect, Subscribe "a/#" (QoS 1); then two broker PUBLISHes (QoS 1, message IDs
   1000 and 1001) on the not yet registered topic "a/n0" are in flight at the same time (sys_step
   pumps every SBpub to quiescence on its own, so the burst is given to pump as one work list, the
   way the broker connection delivers it).  The gateway sends REGISTER (topic ID 1) for the first
   and, the name not being registered yet, REGISTER (topic ID 2) for the same name for the second;
   the client accepts the first and rejects the second (REGACK, rc 2: the name is already registered
   with ID 1); the gateway drops the second message: ONE handler invocation, one PUBACK at the
   broker, message 1001 is never delivered nor acknowledged. *)
Definition burst_y : sys :=
  fst (sys_step ecfg0 (fst (sys_step ecfg0 (sys_init ecfg0) (SCall 1 AConnect))) (SCall 2 (ASubscribe [97; 47; 35] 1))).
Definition burst_m1 : mq_pkt := MqPublish false 1 false [97; 47; 110; 48] 1000 [7].
Definition burst_m2 : mq_pkt := MqPublish false 1 false [97; 47; 110; 48] 1001 [8].

Example C26_refuted_burst :
  lossless ecfg0 /\
  (* the subscription is in place: call 2 returned nil and its handler matches the topic *)
  rets_of (snd (sys_step ecfg0 (fst (sys_step ecfg0 (sys_init ecfg0) (SCall 1 AConnect))) (SCall 2 (ASubscribe [97; 47; 35] 1))))
    = [(2, ROk)] /\
  handle_set (cl_handlers (y_cl burst_y)) [97; 47; 110; 48] = [2] /\
  snd (pump pump_fuel ecfg0 burst_y [FromBroker burst_m1; FromBroker burst_m2]) =
    [SoG2C 0 FDeliver (pack (Register 1 1000 [97; 47; 110; 48]));
     SoG2C 0 FDeliver (pack (Register 2 1001 [97; 47; 110; 48]));
     SoC2G 0 FDeliver (pack (Regack 1 1000 RC_ACCEPTED));
     SoC2G 0 FDeliver (pack (Regack 2 1001 RC_INVALID_TOPIC_ID));
     SoG2C 0 FDeliver (pack (Publish false 1 false TIT_REGISTERED 1 1000 [7]));
     SoC2G 0 FDeliver (pack (Puback 1 1000 RC_ACCEPTED));
     SoCb 0 2 [97; 47; 110; 48] [7] 1 false false 1000;
     SoBR 0 (MqPuback 1000)] /\
  cbs_of (snd (pump pump_fuel ecfg0 burst_y [FromBroker burst_m1; FromBroker burst_m2])) = [(2, [97; 47; 110; 48], [7])].
Proof. vm_compute. repeat split; reflexivity. Qed.

(* the same two messages one after the other (each pumped to quiescence) are both delivered *)
Example burst_sequential_ok :
  let r1 := sys_step ecfg0 burst_y (SBpub burst_m1) in
  let r2 := sys_step ecfg0 (fst r1) (SBpub burst_m2) in
  cbs_of (snd r1) = [(2, [97; 47; 110; 48], [7])] /\ cbs_of (snd r2) = [(2, [97; 47; 110; 48], [8])].
Proof. vm_compute. split; reflexivity. Qed.

(* ------------------------------------------------------------------ 5. assumptions *)

Print Assumptions quiet_after_connect_test.
Print Assumptions e2e_connect.
Print Assumptions e2e_publish_short_q0.
Print Assumptions e2e_publish_short_q1.
Print Assumptions e2e_ping.
Print Assumptions e2e_disconnect.
Print Assumptions C26_partial.
Print Assumptions C26_partial_disconnect.
Print Assumptions C26_refuted_burst.
Print Assumptions burst_sequential_ok.

(* ------------------------------------------------------------------ 6. the burst as a history of the monitor *)
From Verif.Checkers Require Import ChkE2E.

(* The same burst as an event of a history (SBurst): the end-to-end monitor of Checkers/ChkE2E.v,
   folded over the composed model, reports clause (26,4) - a broker message for an active client with
   a matching subscription does not reach its handler over a lossless link; the two messages one
   after the other (two SBpub events) are both delivered. *)
Definition burst_hist : list sys_event :=
  [SCall 1 AConnect; SCall 2 (ASubscribe [97; 47; 35] 1); SBurst [burst_m1; burst_m2]].
Example C26_refuted_monitor :
  ChkE2E.lossless ecfg0 = true /\
  emon_run ecfg0 (sys_init ecfg0) emon_init burst_hist = [(26, 4)] /\
  emon_run ecfg0 (sys_init ecfg0) emon_init
    [SCall 1 AConnect; SCall 2 (ASubscribe [97; 47; 35] 1); SBpub burst_m1; SBpub burst_m2] = [].
Proof. vm_compute. repeat split; reflexivity. Qed.
Print Assumptions C26_refuted_monitor.
