(* System/ComposeProofs3.v — C26 (partial), continued: registration of topic names, Publish on
   registered names, QoS 2 Publish and Unsubscribe in the composed system of System/Compose.v,
   proved for ALL configurations, states, topic names and payloads in the stated ranges, over a
   lossless link.  Continues System/ComposeProofs.v (Quiet, lossless, cfg_ok) and
   System/ComposeProofs2.v (QuietS).

   QuietR cfg y regs          Quiet, and the client's and the gateway's registration tables agree: exactly
                              the names regs (name, topic ID; pairwise distinct names) are registered on
                              both sides (RegsAgree, ComposeProofs3_aux.v)
   sys_frame y y'             the handler table and registration table of the client and the registration
                              table and topic-ID allocator of the gateway are unchanged
   e2e_register               Register of a not yet registered name: REGISTER, REGACK (the allocator's next
                              topic ID), nil; NOTHING at the broker; QuietR ... (regs ++ [(name, that ID)])
   e2e_publish_q0_gen / _q1_gen / _q2_gen   Publish (QoS 0 / 1 / 2) from ANY Quiet state on a topic name the
                              client sends as (topic ID type, topic ID) - a short name, or a registered name -
                              which the gateway resolves to that name: exact trace, result Quiet, sys_frame
   e2e_publish_registered_q0 / _q1 / _q2    ... on a registered name (topic ID type "registered", its ID)
   e2e_publish_short_q2       ... QoS 2 on a short name: PUBLISH, PUBREC, PUBREL, PUBCOMP all the way
   e2e_publish_short_q0_f / _q1_f           ... QoS 0 / 1 on a short name (as in ComposeProofs.v), with sys_frame
   e2e_unsubscribe_short_gen  Unsubscribe (short name) from ANY Quiet state: exact trace, the broker's table is
                              sub_del of the old one, the client's handler table tbl_remove
   e2e_unsubscribe_short      from QuietS ... subs: QuietS ... (subs_del topic subs): the subscription on that
                              name is gone on both sides, the others are in place
   e2e_ping_f, e2e_subscribe_short_f, e2e_bpub_short_q0_f / _q1_f, e2e_connect_f
                              the theorems of ComposeProofs.v / ComposeProofs2.v once more, with sys_frame
   C26_partial_programs3      programs  Connect :: evs  of Ping / Register / Publish QoS 0-2 on short or
                              registered names / Subscribe / Unsubscribe calls and broker PUBLISHes on
                              subscribed names (executable check prog_okb3; invariant QuietP)
   prog3_test, publish_registered_wildcard_test, register_skips_predefined_test   (vm_compute) a program that
                              passes the check, and why two of the restrictions are needed

   The component lemmas are in ComposeProofs3_aux.v. *)
From stdpp Require Import base option list numbers fin_maps nmap.
From Coq Require Import Lia ZArith ZifyN ZifyNat ZifyBool.
From RecordUpdate Require Import RecordSet.
From Verif.Base Require Import Bytes BytesProofs.
From Verif.Codec Require Import Packets Decode Encode EncodeProofs.
From Verif.Checkers Require Import ChkCodec.
From Verif.Topics Require Import Predefined.
From Verif.Gateway Require Import GwTypes GwStep GwWf.
From Verif.Match Require Import Match MatchProofs.
From Verif.Client Require Import ClTypes ClStep Sound_Client.
From Verif.System Require Import Compose RoutingProofs ComposeProofs_aux ComposeProofs ComposeProofs2_aux ComposeProofs2
  ComposeProofs3_aux.
Import RecordSetNotations.
Open Scope N_scope.
Ltac Zify.zify_post_hook ::= Z.div_mod_to_equations.

(* ------------------------------------------------------------------ definitions *)

(* a connected quiescent system in which exactly the names regs (name, topic ID) are registered, in the
   client and in the gateway session *)
Definition QuietR (cfg : e2e_cfg) (y : sys) (regs : list (bytes * N)) : Prop :=
  Quiet cfg y /\ RegsAgree (y_cl y) (y_gw y) regs.

(* what an exchange leaves alone besides the broker *)
Definition sys_frame (y y' : sys) : Prop :=
  cl_handlers (y_cl y') = cl_handlers (y_cl y) /\ cl_registered (y_cl y') = cl_registered (y_cl y) /\
  gw_frame3 (y_gw y) (y_gw y').

Lemma QuietR_frame cfg y y' regs : QuietR cfg y regs -> Quiet cfg y' -> sys_frame y y' -> QuietR cfg y' regs.
Proof.
  intros [_ HA] HQ' (_ & Hr & Hg). split; [exact HQ'|]. exact (RegsAgree_frame _ _ _ _ regs HA Hr Hg).
Qed.

Lemma QuietS_frame3 cfg y y' subs : QuietS cfg y subs -> Quiet cfg y' -> y_br y' = y_br y -> sys_frame y y' ->
  QuietS cfg y' subs.
Proof. intros HS HQ' Hbr (Hh & _). exact (QuietS_frame cfg y y' subs HS HQ' Hbr Hh). Qed.

Ltac quiet_tac HC' HG' Hcn Hgn Hnow Hgc Hcid :=
  unfold Quiet; sk; split; [exact HC'|]; split; [exact HG'|]; split; [rewrite Hcn, Hgn; exact Hnow|];
  split; [rewrite Hgc; exact Hcid|]; split; assumption.

(* ------------------------------------------------------------------ 1. Register *)

(* Hypotheses on the gateway's allocator: its next topic ID is not the last of the range (the allocator
   would be exhausted afterwards) and is not a predefined topic ID of this client (the gateway would skip it).
   The name needs not be wildcard-free: neither the client library nor the gateway checks that in Register. *)
Theorem e2e_register cfg y regs id topic : lossless cfg -> QuietR cfg y regs ->
  okb1 topic = true -> reg_lookup regs topic = None ->
  gw_seq_next (y_gw y) < max_tid (e_gw cfg) -> max_tid (e_gw cfg) < 65536 ->
  get_name (predefined (e_gw cfg)) (k_cid (e_cl cfg)) (gw_seq_next (y_gw y)) = None ->
  let t := gw_now (y_gw y) in
  let mid := cl_next_mid (y_cl y) in
  let tid := gw_seq_next (y_gw y) in
  exists y', sys_step cfg y (SCall id (ARegister topic)) =
    (y', [SoC2G t FDeliver (pack (Register 0 mid topic));
          SoG2C t FDeliver (pack (Regack tid mid RC_ACCEPTED)); SoRet t id ROk]) /\
    QuietR cfg y' (regs ++ [(topic, tid)]) /\ y_br y' = y_br y /\
    cl_handlers (y_cl y') = cl_handlers (y_cl y) /\
    cl_registered (y_cl y') = regs ++ [(topic, tid)] /\ gw_registered (y_gw y') !! tid = Some topic /\
    gw_seq_next (y_gw y') = tid + 1.
Proof.
  intros [Hc2g Hg2c] ((HC & HG & Hnow & Hcid & Hbc & Heof) & HA) Ht Hnew Hmax Hmax16 Hpd t mid tid. subst t mid tid.
  destruct y as [c g b k1 k2 eof]. cbn [y_cl y_gw y_br y_br_eof] in *.
  pose proof (cq_mid _ HC) as Hmid.
  destruct (cl_register (e_cl cfg) c id topic (gw_seq_next g) HC Ht ltac:(lia))
    as (c1 & c' & Ec1 & Ec2 & HC' & Hcn & Hch & Hcr).
  rewrite <- Hcid in Hpd.
  destruct (gw_register (e_gw cfg) g topic (cl_next_mid c) HG Ht ltac:(lia)
              (RegsAgree_find_none _ _ _ _ HA Hnew) (ra_nm _ _ _ HA) (ra_ov _ _ _ HA) ltac:(lia) ltac:(lia) Hpd)
    as (g' & Eg1 & HG' & (Hgn & Hgc & _) & Hgr & Hgs & Hgo & Hgm).
  assert (HA' : RegsAgree c' g' (regs ++ [(topic, gw_seq_next g)])).
  { apply (RegsAgree_add c g c' g' regs topic HA Hnew Hcr Hgr Hgs); [lia|exact Hgo|exact Hgm]. }
  eexists. split; [|split; [|split; [|split; [|split; [|split]]]]].
  - unfold sys_step. sk. rewrite Ec1. sk. rewrite Hc2g, nth_fault_nil. sk.
    rewrite pump_fuel_eq. sk. rewrite Eg1. sk. rewrite Hg2c, nth_fault_nil. sk. rewrite Ec2. sk.
    rewrite Hnow. reflexivity.
  - split; [|sk; exact HA']. quiet_tac HC' HG' Hcn Hgn Hnow Hgc Hcid.
  - reflexivity.
  - sk. exact Hch.
  - sk. exact (ra_cl _ _ _ HA').
  - sk. rewrite Hgr. apply (lookup_insert (M:=Nmap)).
  - sk. exact Hgs.
Qed.

(* ------------------------------------------------------------------ 2. Publish, any topic ID type *)

(* Restriction (as in ComposeProofs.v): no subscription of this client matches the topic (otherwise the
   broker routes the message back and the trace continues with that delivery). *)
Theorem e2e_publish_q0_gen cfg y id topic tit tid retain payload : lossless cfg -> Quiet cfg y ->
  pub_tid (y_cl y) topic = Some (tit, tid) -> resolve_client_topic (e_gw cfg) (y_gw y) tit tid = Some topic ->
  tid < 65536 -> has_wildcard topic = false -> okb payload = true ->
  sub_matching (b_subs (y_br y)) topic = [] ->
  let t := gw_now (y_gw y) in
  let mid := cl_next_mid (y_cl y) in
  exists y', sys_step cfg y (SCall id (APublish topic 0 retain payload)) =
    (y', [SoC2G t FDeliver (pack (Publish false 0 retain tit tid mid payload));
          SoRet t id ROk; SoBR t (MqPublish false 0 retain topic mid payload)]) /\
    Quiet cfg y' /\ y_br y' = y_br y /\ sys_frame y y'.
Proof.
  intros [Hc2g Hg2c] (HC & HG & Hnow & Hcid & Hbc & Heof) Hpt Hres Htid Hwild Hp Hnm t mid. subst t mid.
  destruct y as [c g b k1 k2 eof]. cbn [y_cl y_gw y_br y_br_eof] in *.
  pose proof (cq_mid _ HC) as Hmid. pose proof (pub_tid_tit _ _ _ _ Hpt) as Htit.
  destruct (cl_pubg0 (e_cl cfg) c id topic tit tid retain payload HC Hpt Htid Hp) as (c' & Ec1 & HC' & (Hcn & Hch & Hcr)).
  destruct (gw_pubg0 (e_gw cfg) g topic tit tid retain (cl_next_mid c) payload HG Hres Hwild Htit Htid ltac:(lia) Hp)
    as (g' & Eg1 & HG' & Hgf). pose proof Hgf as ((Hgn & Hgc & _) & _).
  eexists. split; [|split; [|split]].
  - unfold sys_step. sk. rewrite Ec1. sk. rewrite Hc2g, nth_fault_nil. sk.
    rewrite pump_fuel_eq. sk. rewrite Eg1. sk.
    unfold broker_recv, route. rewrite Hbc. sk. rewrite Hnm. sk. rewrite Hbc. sk.
    rewrite Hnow. reflexivity.
  - quiet_tac HC' HG' Hcn Hgn Hnow Hgc Hcid.
  - reflexivity.
  - split; [exact Hch|]. split; [exact Hcr|exact Hgf].
Qed.

Theorem e2e_publish_q1_gen cfg y id topic tit tid retain payload : lossless cfg -> Quiet cfg y ->
  pub_tid (y_cl y) topic = Some (tit, tid) -> resolve_client_topic (e_gw cfg) (y_gw y) tit tid = Some topic ->
  tid < 65536 -> has_wildcard topic = false -> okb payload = true ->
  sub_matching (b_subs (y_br y)) topic = [] ->
  let t := gw_now (y_gw y) in
  let mid := cl_next_mid (y_cl y) in
  exists y', sys_step cfg y (SCall id (APublish topic 1 retain payload)) =
    (y', [SoC2G t FDeliver (pack (Publish false 1 retain tit tid mid payload));
          SoBR t (MqPublish false 1 retain topic mid payload); SoBS t (MqPuback mid);
          SoG2C t FDeliver (pack (Puback tid mid RC_ACCEPTED)); SoRet t id ROk]) /\
    Quiet cfg y' /\ y_br y' = y_br y /\ sys_frame y y'.
Proof.
  intros [Hc2g Hg2c] (HC & HG & Hnow & Hcid & Hbc & Heof) Hpt Hres Htid Hwild Hp Hnm t mid. subst t mid.
  destruct y as [c g b k1 k2 eof]. cbn [y_cl y_gw y_br y_br_eof] in *.
  pose proof (cq_mid _ HC) as Hmid. pose proof (pub_tid_tit _ _ _ _ Hpt) as Htit.
  destruct (cl_pubg1 (e_cl cfg) c id topic tit tid retain payload HC Hpt Htid Hp)
    as (c1 & c' & Ec1 & Ec2 & HC' & (Hcn & Hch & Hcr)).
  destruct (gw_pubg1 (e_gw cfg) g topic tit tid retain (cl_next_mid c) payload HG Hres Hwild Htit Htid ltac:(lia) Hp)
    as (g1 & g' & Eg1 & Eg2 & HG' & Hgf & Hg1n). pose proof Hgf as ((Hgn & Hgc & _) & _).
  eexists. split; [|split; [|split]].
  - unfold sys_step. sk. rewrite Ec1. sk. rewrite Hc2g, nth_fault_nil. sk.
    rewrite pump_fuel_eq. sk. rewrite Eg1. sk.
    unfold broker_recv, route. rewrite Hbc. sk. rewrite Hnm. sk. rewrite Hbc. sk.
    rewrite Eg2. sk. rewrite Hg2c, nth_fault_nil. sk. rewrite Ec2. sk.
    rewrite Hnow, Hg1n. reflexivity.
  - quiet_tac HC' HG' Hcn Hgn Hnow Hgc Hcid.
  - reflexivity.
  - split; [exact Hch|]. split; [exact Hcr|exact Hgf].
Qed.

Lemma gw_frame3_trans g1 g2 g3 : gw_frame3 g1 g2 -> gw_frame3 g2 g3 -> gw_frame3 g1 g3.
Proof.
  intros ((A1 & A2 & A3 & A4) & A5 & A6 & A7) ((B1 & B2 & B3 & B4) & B5 & B6 & B7).
  repeat split; etransitivity; eassumption.
Qed.

(* QoS 2.  Restriction on the broker: it is not holding this message ID from an unfinished QoS 2 exchange
   (it would take the PUBLISH for a repetition and not forward it); in particular b_inflight2 = []. *)
Theorem e2e_publish_q2_gen cfg y id topic tit tid retain payload : lossless cfg -> Quiet cfg y ->
  pub_tid (y_cl y) topic = Some (tit, tid) -> resolve_client_topic (e_gw cfg) (y_gw y) tit tid = Some topic ->
  tid < 65536 -> has_wildcard topic = false -> okb payload = true ->
  sub_matching (b_subs (y_br y)) topic = [] ->
  existsb (N.eqb (cl_next_mid (y_cl y))) (b_inflight2 (y_br y)) = false ->
  let t := gw_now (y_gw y) in
  let mid := cl_next_mid (y_cl y) in
  exists y', sys_step cfg y (SCall id (APublish topic 2 retain payload)) =
    (y', [SoC2G t FDeliver (pack (Publish false 2 retain tit tid mid payload));
          SoBR t (MqPublish false 2 retain topic mid payload); SoBS t (MqPubrec mid);
          SoG2C t FDeliver (pack (Pubrec mid));
          SoC2G t FDeliver (pack (Pubrel mid));
          SoBR t (MqPubrel mid); SoBS t (MqPubcomp mid);
          SoG2C t FDeliver (pack (Pubcomp mid)); SoRet t id ROk]) /\
    Quiet cfg y' /\ y_br y' = y_br y /\ sys_frame y y'.
Proof.
  intros [Hc2g Hg2c] (HC & HG & Hnow & Hcid & Hbc & Heof) Hpt Hres Htid Hwild Hp Hnm Hinf t mid. subst t mid.
  destruct y as [c g b k1 k2 eof]. cbn [y_cl y_gw y_br y_br_eof] in *.
  pose proof (cq_mid _ HC) as Hmid. pose proof (pub_tid_tit _ _ _ _ Hpt) as Htit.
  destruct (cl_pubg2 (e_cl cfg) c id topic tit tid retain payload HC Hpt Htid Hp)
    as (c1 & c2 & c' & Ec1 & Ec2 & Ec3 & HC' & (Hcn & Hch & Hcr)).
  destruct (gw_pubg2 (e_gw cfg) g topic tit tid retain (cl_next_mid c) payload HG Hres Hwild Htit Htid ltac:(lia) Hp)
    as (g1 & Eg1 & HG1 & Hgf1).
  destruct (gw_mq_pubrec (e_gw cfg) g1 (cl_next_mid c) HG1 ltac:(lia)) as (g2 & Eg2 & HG2 & Hgf2).
  destruct (gw_sn_pubrel (e_gw cfg) g2 (cl_next_mid c) HG2 ltac:(lia)) as (g3 & Eg3 & HG3 & Hgf3).
  destruct (gw_mq_pubcomp (e_gw cfg) g3 (cl_next_mid c) HG3 ltac:(lia)) as (g' & Eg4 & HG' & Hgf4).
  pose proof (gw_frame3_trans _ _ _ Hgf1 Hgf2) as Hgf12. pose proof (gw_frame3_trans _ _ _ Hgf12 Hgf3) as Hgf13.
  pose proof (gw_frame3_trans _ _ _ Hgf13 Hgf4) as Hgf.
  pose proof Hgf1 as ((Hg1n & _) & _). pose proof Hgf12 as ((Hg2n & _) & _). pose proof Hgf13 as ((Hg3n & _) & _).
  pose proof Hgf as ((Hgn & Hgc & _) & _).
  eexists. split; [|split; [|split]].
  - unfold sys_step. sk. rewrite Ec1. sk. rewrite Hc2g, nth_fault_nil. sk.
    rewrite pump_fuel_eq. sk. rewrite Eg1. sk.
    unfold broker_recv at 1. unfold route. rewrite Hbc. sk. rewrite Hinf. sk. rewrite Hnm. sk. rewrite Hbc. sk.
    rewrite Eg2. sk. rewrite Hg2c, nth_fault_nil. sk. rewrite Ec2. sk. rewrite Hc2g, nth_fault_nil. sk.
    rewrite Eg3. sk.
    unfold broker_recv. sk. rewrite Hbc. sk. rewrite Hbc. sk.
    rewrite Eg4. sk. rewrite Hg2c, nth_fault_nil. sk. rewrite Ec3. sk.
    rewrite Hg1n, Hg2n, Hg3n, Hnow. reflexivity.
  - quiet_tac HC' HG' Hcn Hgn Hnow Hgc Hcid.
  - sk. rewrite (inflight_release _ _ Hinf). destruct b; reflexivity.
  - split; [exact Hch|]. split; [exact Hcr|exact Hgf].
Qed.

(* ------------------------------------------------------------------ 2a. Publish on a registered name *)

(* the name is registered (QuietR ... regs with (topic, tid) in regs), is not a 2-byte name (those are sent in
   the short form, see e2e_publish_short_q0 / _q1 / _q2) and has no wildcard character (the gateway ends the
   session otherwise) *)
Theorem e2e_publish_registered_q0 cfg y regs id topic tid retain payload : lossless cfg -> QuietR cfg y regs ->
  In (topic, tid) regs -> is_short_topic topic = false -> has_wildcard topic = false -> okb payload = true ->
  sub_matching (b_subs (y_br y)) topic = [] ->
  let t := gw_now (y_gw y) in
  let mid := cl_next_mid (y_cl y) in
  exists y', sys_step cfg y (SCall id (APublish topic 0 retain payload)) =
    (y', [SoC2G t FDeliver (pack (Publish false 0 retain TIT_REGISTERED tid mid payload));
          SoRet t id ROk; SoBR t (MqPublish false 0 retain topic mid payload)]) /\
    QuietR cfg y' regs /\ y_br y' = y_br y /\ sys_frame y y'.
Proof.
  intros Hll HR Hin Hns Hwild Hp Hnm t mid. subst t mid. pose proof HR as [HQ HA].
  destruct (RegsAgree_pub (e_gw cfg) _ _ regs topic tid HA Hin Hns) as (Hpt & Hres & Htid).
  destruct (e2e_publish_q0_gen cfg y id topic TIT_REGISTERED tid retain payload Hll HQ Hpt Hres Htid Hwild Hp Hnm)
    as (y' & E & HQ' & Hbr & Hf).
  exists y'. split; [exact E|]. split; [exact (QuietR_frame cfg y y' regs HR HQ' Hf)|]. split; [exact Hbr|exact Hf].
Qed.

Theorem e2e_publish_registered_q1 cfg y regs id topic tid retain payload : lossless cfg -> QuietR cfg y regs ->
  In (topic, tid) regs -> is_short_topic topic = false -> has_wildcard topic = false -> okb payload = true ->
  sub_matching (b_subs (y_br y)) topic = [] ->
  let t := gw_now (y_gw y) in
  let mid := cl_next_mid (y_cl y) in
  exists y', sys_step cfg y (SCall id (APublish topic 1 retain payload)) =
    (y', [SoC2G t FDeliver (pack (Publish false 1 retain TIT_REGISTERED tid mid payload));
          SoBR t (MqPublish false 1 retain topic mid payload); SoBS t (MqPuback mid);
          SoG2C t FDeliver (pack (Puback tid mid RC_ACCEPTED)); SoRet t id ROk]) /\
    QuietR cfg y' regs /\ y_br y' = y_br y /\ sys_frame y y'.
Proof.
  intros Hll HR Hin Hns Hwild Hp Hnm t mid. subst t mid. pose proof HR as [HQ HA].
  destruct (RegsAgree_pub (e_gw cfg) _ _ regs topic tid HA Hin Hns) as (Hpt & Hres & Htid).
  destruct (e2e_publish_q1_gen cfg y id topic TIT_REGISTERED tid retain payload Hll HQ Hpt Hres Htid Hwild Hp Hnm)
    as (y' & E & HQ' & Hbr & Hf).
  exists y'. split; [exact E|]. split; [exact (QuietR_frame cfg y y' regs HR HQ' Hf)|]. split; [exact Hbr|exact Hf].
Qed.

Theorem e2e_publish_registered_q2 cfg y regs id topic tid retain payload : lossless cfg -> QuietR cfg y regs ->
  In (topic, tid) regs -> is_short_topic topic = false -> has_wildcard topic = false -> okb payload = true ->
  sub_matching (b_subs (y_br y)) topic = [] ->
  existsb (N.eqb (cl_next_mid (y_cl y))) (b_inflight2 (y_br y)) = false ->
  let t := gw_now (y_gw y) in
  let mid := cl_next_mid (y_cl y) in
  exists y', sys_step cfg y (SCall id (APublish topic 2 retain payload)) =
    (y', [SoC2G t FDeliver (pack (Publish false 2 retain TIT_REGISTERED tid mid payload));
          SoBR t (MqPublish false 2 retain topic mid payload); SoBS t (MqPubrec mid);
          SoG2C t FDeliver (pack (Pubrec mid));
          SoC2G t FDeliver (pack (Pubrel mid));
          SoBR t (MqPubrel mid); SoBS t (MqPubcomp mid);
          SoG2C t FDeliver (pack (Pubcomp mid)); SoRet t id ROk]) /\
    QuietR cfg y' regs /\ y_br y' = y_br y /\ sys_frame y y'.
Proof.
  intros Hll HR Hin Hns Hwild Hp Hnm Hinf t mid. subst t mid. pose proof HR as [HQ HA].
  destruct (RegsAgree_pub (e_gw cfg) _ _ regs topic tid HA Hin Hns) as (Hpt & Hres & Htid).
  destruct (e2e_publish_q2_gen cfg y id topic TIT_REGISTERED tid retain payload Hll HQ Hpt Hres Htid Hwild Hp Hnm Hinf)
    as (y' & E & HQ' & Hbr & Hf).
  exists y'. split; [exact E|]. split; [exact (QuietR_frame cfg y y' regs HR HQ' Hf)|]. split; [exact Hbr|exact Hf].
Qed.

(* ------------------------------------------------------------------ 3. Publish, short topic name, QoS 2 *)

Theorem e2e_publish_short_q2 cfg y id topic retain payload : lossless cfg -> Quiet cfg y ->
  is_short_topic topic = true -> wf_bytes topic -> has_wildcard topic = false -> okb payload = true ->
  sub_matching (b_subs (y_br y)) topic = [] ->
  existsb (N.eqb (cl_next_mid (y_cl y))) (b_inflight2 (y_br y)) = false ->
  let t := gw_now (y_gw y) in
  let mid := cl_next_mid (y_cl y) in
  exists y', sys_step cfg y (SCall id (APublish topic 2 retain payload)) =
    (y', [SoC2G t FDeliver (pack (Publish false 2 retain TIT_SHORT (encode_short topic) mid payload));
          SoBR t (MqPublish false 2 retain topic mid payload); SoBS t (MqPubrec mid);
          SoG2C t FDeliver (pack (Pubrec mid));
          SoC2G t FDeliver (pack (Pubrel mid));
          SoBR t (MqPubrel mid); SoBS t (MqPubcomp mid);
          SoG2C t FDeliver (pack (Pubcomp mid)); SoRet t id ROk]) /\
    Quiet cfg y' /\ y_br y' = y_br y /\ sys_frame y y'.
Proof.
  intros Hll HQ Hs Hw Hwild Hp Hnm Hinf.
  exact (e2e_publish_q2_gen cfg y id topic TIT_SHORT (encode_short topic) retain payload Hll HQ
           (pub_tid_short _ _ Hs) (short_out _ _ _ Hs Hw) (encode_short_lt _ Hs Hw) Hwild Hp Hnm Hinf).
Qed.

(* ... and QoS 0 / 1 on a short name again, with sys_frame (e2e_publish_short_q0 / _q1 of ComposeProofs.v
   state the same traces with a smaller frame) *)
Theorem e2e_publish_short_q0_f cfg y id topic retain payload : lossless cfg -> Quiet cfg y ->
  is_short_topic topic = true -> wf_bytes topic -> has_wildcard topic = false -> okb payload = true ->
  sub_matching (b_subs (y_br y)) topic = [] ->
  let t := gw_now (y_gw y) in
  let mid := cl_next_mid (y_cl y) in
  exists y', sys_step cfg y (SCall id (APublish topic 0 retain payload)) =
    (y', [SoC2G t FDeliver (pack (Publish false 0 retain TIT_SHORT (encode_short topic) mid payload));
          SoRet t id ROk; SoBR t (MqPublish false 0 retain topic mid payload)]) /\
    Quiet cfg y' /\ y_br y' = y_br y /\ sys_frame y y'.
Proof.
  intros Hll HQ Hs Hw Hwild Hp Hnm.
  exact (e2e_publish_q0_gen cfg y id topic TIT_SHORT (encode_short topic) retain payload Hll HQ
           (pub_tid_short _ _ Hs) (short_out _ _ _ Hs Hw) (encode_short_lt _ Hs Hw) Hwild Hp Hnm).
Qed.

Theorem e2e_publish_short_q1_f cfg y id topic retain payload : lossless cfg -> Quiet cfg y ->
  is_short_topic topic = true -> wf_bytes topic -> has_wildcard topic = false -> okb payload = true ->
  sub_matching (b_subs (y_br y)) topic = [] ->
  let t := gw_now (y_gw y) in
  let mid := cl_next_mid (y_cl y) in
  exists y', sys_step cfg y (SCall id (APublish topic 1 retain payload)) =
    (y', [SoC2G t FDeliver (pack (Publish false 1 retain TIT_SHORT (encode_short topic) mid payload));
          SoBR t (MqPublish false 1 retain topic mid payload); SoBS t (MqPuback mid);
          SoG2C t FDeliver (pack (Puback (encode_short topic) mid RC_ACCEPTED)); SoRet t id ROk]) /\
    Quiet cfg y' /\ y_br y' = y_br y /\ sys_frame y y'.
Proof.
  intros Hll HQ Hs Hw Hwild Hp Hnm.
  exact (e2e_publish_q1_gen cfg y id topic TIT_SHORT (encode_short topic) retain payload Hll HQ
           (pub_tid_short _ _ Hs) (short_out _ _ _ Hs Hw) (encode_short_lt _ Hs Hw) Hwild Hp Hnm).
Qed.

(* ------------------------------------------------------------------ 4. Unsubscribe, short topic name *)

Theorem e2e_unsubscribe_short_gen cfg y id topic : lossless cfg -> Quiet cfg y ->
  is_short_topic topic = true -> wf_bytes topic ->
  let t := gw_now (y_gw y) in
  let mid := cl_next_mid (y_cl y) in
  exists y', sys_step cfg y (SCall id (AUnsub topic)) =
    (y', [SoC2G t FDeliver (pack (Unsubscribe TIT_SHORT mid (encode_short topic) []));
          SoBR t (MqUnsubscribe mid [topic]); SoBS t (MqUnsuback mid);
          SoG2C t FDeliver (pack (Unsuback mid)); SoRet t id ROk]) /\
    Quiet cfg y' /\
    y_br y' = y_br y <| b_subs := sub_del topic (b_subs (y_br y)) |> /\
    cl_handlers (y_cl y') = tbl_remove (cl_handlers (y_cl y)) (split topic) /\
    cl_registered (y_cl y') = cl_registered (y_cl y) /\ gw_frame3 (y_gw y) (y_gw y').
Proof.
  intros [Hc2g Hg2c] (HC & HG & Hnow & Hcid & Hbc & Heof) Hs Hw t mid. subst t mid.
  destruct y as [c g b k1 k2 eof]. cbn [y_cl y_gw y_br y_br_eof] in *.
  pose proof (cq_mid _ HC) as Hmid.
  destruct (cl_unsub (e_cl cfg) c id topic HC Hs Hw) as (c1 & c' & Ec1 & Ec2 & HC' & Hcn & Hcr & Hch).
  destruct (gw_unsub (e_gw cfg) g topic (cl_next_mid c) HG Hs Hw ltac:(lia)) as (g1 & Eg1 & HG1 & Hgf1).
  destruct (gw_mq_unsuback (e_gw cfg) g1 (cl_next_mid c) HG1 ltac:(lia)) as (g' & Eg2 & HG' & Hgf2).
  pose proof (gw_frame3_trans _ _ _ Hgf1 Hgf2) as Hgf.
  pose proof Hgf1 as ((Hg1n & _) & _). pose proof Hgf as ((Hgn & Hgc & _) & _).
  eexists. split; [|split; [|split; [|split; [|split]]]].
  - unfold sys_step. sk. rewrite Ec1. sk. rewrite Hc2g, nth_fault_nil. sk.
    rewrite pump_fuel_eq. sk. rewrite Eg1. sk.
    unfold broker_recv. rewrite Hbc. cbn [fold_left]. sk. rewrite Hbc. sk.
    rewrite Eg2. sk. rewrite Hg2c, nth_fault_nil. sk. rewrite Ec2. sk.
    rewrite Hg1n, Hnow. reflexivity.
  - quiet_tac HC' HG' Hcn Hgn Hnow Hgc Hcid.
  - reflexivity.
  - sk. exact Hch.
  - sk. exact Hcr.
  - sk. exact Hgf.
Qed.

(* from a state with the subscriptions subs in place: afterwards exactly the subscriptions on OTHER topic names
   are in place - at the broker and in the client's handler table (the topic needs not be subscribed to: the call
   succeeds all the same and nothing changes) *)
Theorem e2e_unsubscribe_short cfg y subs id topic : lossless cfg -> QuietS cfg y subs ->
  is_short_topic topic = true -> wf_bytes topic ->
  let t := gw_now (y_gw y) in
  let mid := cl_next_mid (y_cl y) in
  exists y', sys_step cfg y (SCall id (AUnsub topic)) =
    (y', [SoC2G t FDeliver (pack (Unsubscribe TIT_SHORT mid (encode_short topic) []));
          SoBR t (MqUnsubscribe mid [topic]); SoBS t (MqUnsuback mid);
          SoG2C t FDeliver (pack (Unsuback mid)); SoRet t id ROk]) /\
    QuietS cfg y' (subs_del topic subs) /\
    ~ In topic (map sub_topic (subs_del topic subs)) /\
    (forall s, In s subs -> sub_topic s <> topic -> In s (subs_del topic subs)) /\
    sub_matching (b_subs (y_br y')) topic = [] /\ handle_set (cl_handlers (y_cl y')) topic = [] /\
    cl_registered (y_cl y') = cl_registered (y_cl y) /\ gw_frame3 (y_gw y) (y_gw y') /\
    b_inflight2 (y_br y') = b_inflight2 (y_br y).
Proof.
  intros Hll (HQ & Hb & Hh & Hok) Hs Hw t mid. subst t mid.
  destruct (e2e_unsubscribe_short_gen cfg y id topic Hll HQ Hs Hw) as (y' & E & HQ' & Hbr & Hch & Hcr & Hgf).
  pose proof (subs_ok_del topic subs Hok) as Hok'.
  assert (Hb' : b_subs (y_br y') = bsubs_of (subs_del topic subs)).
  { rewrite Hbr. cbn [b_subs set]. rewrite Hb. apply sub_del_subs. }
  assert (Hh' : cl_handlers (y_cl y') = handlers_of (subs_del topic subs)).
  { rewrite Hch, Hh. apply tbl_remove_subs. }
  exists y'. split; [exact E|]. split; [|split; [|split; [|split; [|split; [|split; [|split]]]]]].
  - split; [exact HQ'|]. split; [exact Hb'|]. split; [exact Hh'|exact Hok'].
  - apply subs_del_gone.
  - intros s. apply subs_del_other.
  - rewrite Hb'. apply sub_matching_none; [exact (proj1 Hok')|apply subs_del_gone].
  - rewrite Hh'. apply handle_set_none; [exact (proj1 Hok')|apply subs_del_gone].
  - exact Hcr.
  - exact Hgf.
  - rewrite Hbr. reflexivity.
Qed.

(* ------------------------------------------------------------------ 5. the earlier exchanges, with sys_frame *)

(* e2e_ping, e2e_subscribe_short_gen, e2e_bpub_short_q0_gen / _q1_gen and e2e_connect of ComposeProofs.v /
   ComposeProofs2.v again (same traces, same proofs): they leave the registration tables and the gateway's
   topic-ID allocator alone *)
Theorem e2e_ping_f cfg y id : lossless cfg -> Quiet cfg y ->
  let t := gw_now (y_gw y) in
  exists y', sys_step cfg y (SCall id APing) =
    (y', [SoC2G t FDeliver (pack (Pingreq [])); SoBR t MqPingreq; SoBS t MqPingresp;
          SoG2C t FDeliver (pack Pingresp); SoRet t id ROk]) /\
    Quiet cfg y' /\ y_br y' = y_br y /\ sys_frame y y'.
Proof.
  intros [Hc2g Hg2c] (HC & HG & Hnow & Hcid & Hbc & Heof) t. subst t.
  destruct y as [c g b k1 k2 eof]. cbn [y_cl y_gw y_br y_br_eof] in *.
  destruct (cl_ping (e_cl cfg) c id HC) as (c1 & c' & Ec1 & Ec2 & HC' & (Hcn & Hch & Hcr) & _).
  destruct (gw_ping3 (e_gw cfg) g HG) as (g1 & g' & Eg1 & Eg2 & HG' & Hgf & Hg1n). pose proof Hgf as ((Hgn & Hgc & _) & _).
  eexists. split; [|split; [|split]].
  - unfold sys_step. sk. rewrite Ec1. sk. rewrite Hc2g, nth_fault_nil. sk.
    rewrite pump_fuel_eq. sk. rewrite Eg1. sk.
    unfold broker_recv. rewrite Hbc. sk. rewrite Hbc. sk.
    rewrite Eg2. sk. rewrite Hg2c, nth_fault_nil. sk. rewrite Ec2. sk.
    rewrite Hnow, Hg1n. reflexivity.
  - quiet_tac HC' HG' Hcn Hgn Hnow Hgc Hcid.
  - reflexivity.
  - split; [exact Hch|]. split; [exact Hcr|exact Hgf].
Qed.

Theorem e2e_subscribe_short_f cfg y id topic q : lossless cfg -> Quiet cfg y ->
  is_short_topic topic = true -> wf_bytes topic -> q <= 2 ->
  let t := gw_now (y_gw y) in
  let mid := cl_next_mid (y_cl y) in
  exists y', sys_step cfg y (SCall id (ASubscribe topic q)) =
    (y', [SoC2G t FDeliver (pack (Subscribe false q TIT_SHORT mid (encode_short topic) []));
          SoBR t (MqSubscribe mid false [(topic, q)]); SoBS t (MqSuback mid [q]);
          SoG2C t FDeliver (pack (Suback q 0 mid RC_ACCEPTED)); SoRet t id ROk]) /\
    Quiet cfg y' /\
    y_br y' = y_br y <| b_subs := sub_set (topic, q) (b_subs (y_br y)) |> /\
    cl_handlers (y_cl y') = tbl_store (cl_handlers (y_cl y)) (split topic) id /\
    cl_registered (y_cl y') = cl_registered (y_cl y) /\ gw_frame3 (y_gw y) (y_gw y').
Proof.
  intros [Hc2g Hg2c] (HC & HG & Hnow & Hcid & Hbc & Heof) Hs Hw Hq t mid. subst t mid.
  destruct y as [c g b k1 k2 eof]. cbn [y_cl y_gw y_br y_br_eof] in *.
  pose proof (cq_mid _ HC) as Hmid.
  assert (Hqle : (q <=? 2) = true) by (apply N.leb_le; exact Hq).
  destruct (cl_sub (e_cl cfg) c id topic q q HC Hs Hw ltac:(lia) ltac:(lia))
    as (c1 & c' & Ec1 & Ec2 & HC' & Hcn & Hcr & Hch).
  destruct (gw_sub3 (e_gw cfg) g topic q (cl_next_mid c) HG Hs Hw Hq ltac:(lia))
    as (g1 & g' & Eg1 & Eg2 & HG' & Hgf & Hg1n). pose proof Hgf as ((Hgn & Hgc & _) & _).
  eexists. split; [|split; [|split; [|split; [|split]]]].
  - unfold sys_step. sk. rewrite Ec1. sk. rewrite Hc2g, nth_fault_nil. sk.
    rewrite pump_fuel_eq. sk. rewrite Eg1. sk.
    unfold broker_recv. rewrite Hbc. cbn [fold_left map snd]. rewrite Hqle. sk. rewrite Hbc. sk.
    rewrite Eg2. sk. rewrite Hg2c, nth_fault_nil. sk. rewrite Ec2. sk.
    rewrite Hnow, Hg1n. reflexivity.
  - quiet_tac HC' HG' Hcn Hgn Hnow Hgc Hcid.
  - reflexivity.
  - sk. exact Hch.
  - sk. exact Hcr.
  - sk. exact Hgf.
Qed.

Theorem e2e_bpub_short_q0_f cfg y dup retain topic mid payload : lossless cfg -> Quiet cfg y ->
  is_short_topic topic = true -> wf_bytes topic -> mid < 65536 -> okb payload = true ->
  let t := gw_now (y_gw y) in
  exists y', sys_step cfg y (SBpub (MqPublish dup 0 retain topic mid payload)) =
    (y', SoBS t (MqPublish dup 0 retain topic mid payload) ::
         SoG2C t FDeliver (pack (Publish dup 0 retain TIT_SHORT (encode_short topic) mid payload)) ::
         scb_out y topic payload 0 retain dup mid) /\
    Quiet cfg y' /\ y_br y' = y_br y /\ sys_frame y y'.
Proof.
  intros [Hc2g Hg2c] (HC & HG & Hnow & Hcid & Hbc & Heof) Hs Hw Hm Hp t. subst t.
  destruct y as [c g b k1 k2 eof]. unfold scb_out. cbn [y_cl y_gw y_br y_br_eof] in *.
  destruct (gw_bpub0_3 (e_gw cfg) g dup retain topic mid payload HG Hs Hw Hm Hp) as (g' & Eg1 & HG' & Hgf).
  pose proof Hgf as ((Hgn & Hgc & _) & _).
  destruct (cl_bpub0 (e_cl cfg) c dup retain topic mid payload HC Hs Hw Hm Hp) as (c' & Ec1 & HC' & (Hcn & Hch & Hcr) & _).
  eexists. split; [|split; [|split]].
  - unfold sys_step. sk. rewrite Hbc.
    rewrite pump_fuel_eq. sk. rewrite Eg1. sk. rewrite Hg2c, nth_fault_nil. sk.
    rewrite Ec1. sk. rewrite cl_outs_cb. sk. rewrite ?app_nil_r, Hnow. reflexivity.
  - quiet_tac HC' HG' Hcn Hgn Hnow Hgc Hcid.
  - reflexivity.
  - split; [exact Hch|]. split; [exact Hcr|exact Hgf].
Qed.

Theorem e2e_bpub_short_q1_f cfg y dup retain topic mid payload : lossless cfg -> Quiet cfg y ->
  is_short_topic topic = true -> wf_bytes topic -> 1 <= mid < 65536 -> okb payload = true ->
  let t := gw_now (y_gw y) in
  exists y', sys_step cfg y (SBpub (MqPublish dup 1 retain topic mid payload)) =
    (y', SoBS t (MqPublish dup 1 retain topic mid payload) ::
         SoG2C t FDeliver (pack (Publish dup 1 retain TIT_SHORT (encode_short topic) mid payload)) ::
         SoC2G t FDeliver (pack (Puback (encode_short topic) mid RC_ACCEPTED)) ::
         scb_out y topic payload 1 retain dup mid ++ [SoBR t (MqPuback mid)]) /\
    Quiet cfg y' /\ y_br y' = y_br y /\ sys_frame y y'.
Proof.
  intros [Hc2g Hg2c] (HC & HG & Hnow & Hcid & Hbc & Heof) Hs Hw Hm Hp t. subst t.
  destruct y as [c g b k1 k2 eof]. unfold scb_out. cbn [y_cl y_gw y_br y_br_eof] in *.
  destruct (gw_bpub1_3 (e_gw cfg) g dup retain topic mid payload HG Hs Hw Hm Hp)
    as (g1 & g' & Eg1 & Eg2 & HG' & Hgf & Hg1n). pose proof Hgf as ((Hgn & Hgc & _) & _).
  destruct (cl_bpub1 (e_cl cfg) c dup retain topic mid payload HC Hs Hw ltac:(lia) Hp)
    as (c' & Ec1 & HC' & (Hcn & Hch & Hcr) & _).
  eexists. split; [|split; [|split]].
  - unfold sys_step. sk. rewrite Hbc.
    rewrite pump_fuel_eq. sk. rewrite Eg1. sk. rewrite Hg2c, nth_fault_nil. sk.
    rewrite Ec1. sk. rewrite Hc2g, nth_fault_nil. sk. rewrite cl_outs_cb. sk.
    rewrite Eg2. sk. unfold broker_recv. rewrite Hbc. sk. rewrite Hbc. sk.
    rewrite ?app_nil_r, Hnow. reflexivity.
  - quiet_tac HC' HG' Hcn Hgn Hnow Hgc Hcid.
  - reflexivity.
  - split; [exact Hch|]. split; [exact Hcr|exact Hgf].
Qed.

(* Connect from the initial state: nothing is registered, the allocator is at the first topic ID *)
Theorem e2e_connect_f cfg id : cfg_ok cfg ->
  let ccfg := e_cl cfg in
  let mq := mq_connect_of (e_gw cfg) (k_clean ccfg) (k_keepalive ccfg) (k_cid ccfg) in
  exists y', sys_step cfg (sys_init cfg) (SCall id AConnect) =
    (y', [SoC2G 0 FDeliver (pack (connect_pkt ccfg)); SoBR 0 (MqConnect mq); SoBS 0 (MqConnack false 0);
          SoG2C 0 FDeliver (pack (Connack RC_ACCEPTED)); SoRet 0 id ROk]) /\
    Quiet cfg y' /\ y_br y' = broker_init /\ cl_handlers (y_cl y') = [] /\
    cl_registered (y_cl y') = [] /\ gw_registered (y_gw y') = ∅ /\ gw_seq_next (y_gw y') = min_tid (e_gw cfg) /\
    gw_seq_overflow (y_gw y') = false /\ gw_no_more_tids (y_gw y') = false.
Proof.
  intros ([Hc2g Hg2c] & Hgw & Hcl & Hauth & Hu & Hwl & Hka) ccfg mq. subst ccfg mq.
  destruct (cl_connect (e_cl cfg) id Hcl Hu) as (c1 & c' & Ec1 & Ec2 & HC' & Hcn & Hch & Hcr).
  destruct (gw_connect_idle3 (e_gw cfg) (init_state (e_gw cfg)) (k_clean (e_cl cfg)) (k_keepalive (e_cl cfg))
              (k_cid (e_cl cfg)) false (gw_idle_init _) Hauth Hka (okb1_cid _ Hcl))
    as (g1 & g' & Eg1 & Eg2 & HG' & Hgn & Hgc & _ & Hg1n & Hgr & Hgs & Hgo & Hgm).
  rewrite <- (connect_pkt_eq (e_cl cfg) Hwl Hka) in Eg1.
  change (gw_now (init_state (e_gw cfg))) with 0 in *.
  eexists. split; [|split; [|split; [|split; [|split; [|split; [|split; [|split]]]]]]].
  - unfold sys_step, sys_init. sk. rewrite Ec1. sk. rewrite Hc2g, nth_fault_nil. sk.
    rewrite pump_fuel_eq. sk. rewrite Eg1. sk.
    unfold broker_recv, broker_init. sk.
    rewrite Eg2. sk. rewrite Hg2c, nth_fault_nil. sk. rewrite Ec2. sk.
    rewrite Hg1n. reflexivity.
  - unfold Quiet. sk. split; [exact HC'|]. split; [exact HG'|]. split; [rewrite Hcn, Hgn; reflexivity|].
    split; [exact Hgc|]. split; reflexivity.
  - reflexivity.
  - sk. exact Hch.
  - sk. exact Hcr.
  - sk. rewrite Hgr. reflexivity.
  - sk. rewrite Hgs. reflexivity.
  - sk. rewrite Hgo. reflexivity.
  - sk. rewrite Hgm. reflexivity.
Qed.

(* ------------------------------------------------------------------ 6. programs *)

(* the invariant of the programs: the subscriptions subs and the registrations regs are in place on both
   sides, the gateway has handed out the topic IDs min_tid, min_tid + 1, ... in order, and the broker holds no
   unfinished QoS 2 exchange *)
Definition QuietP (cfg : e2e_cfg) (y : sys) (subs : list subn) (regs : list (bytes * N)) : Prop :=
  QuietS cfg y subs /\ RegsAgree (y_cl y) (y_gw y) regs /\
  gw_seq_next (y_gw y) = min_tid (e_gw cfg) + len regs /\ b_inflight2 (y_br y) = [].

Definition registered (regs : list (bytes * N)) (t : bytes) : bool :=
  match reg_lookup regs t with Some _ => true | None => false end.

(* the events covered, given the subscriptions and registrations in place:
   - Ping;
   - Register of a non-empty name of at most 7168 well-formed bytes that is not registered yet (fewer than 65533
     names being registered);
   - Publish with QoS 0, 1 or 2, payload of at most 7168 bytes, on a wildcard-free name that is either a 2-byte
     name nobody subscribed to or (not a 2-byte name and) registered;
   - Subscribe with QoS <= 2 on a 2-byte wildcard-free name not yet subscribed to;
   - Unsubscribe on a 2-byte name (subscribed to or not);
   - a broker PUBLISH with QoS 0 or 1 (any DUP, RETAIN) on a subscribed name, payload of at most 7168 bytes,
     message ID below 65536 and, for QoS 1, not 0 *)
Definition ev_okb3 (subs : list subn) (regs : list (bytes * N)) (ev : sys_event) : bool :=
  match ev with
  | SCall _ APing => true
  | SCall _ (ARegister t) => okb1 t && negb (registered regs t) && (len regs <? 65533)
  | SCall _ (APublish t q r p) =>
    (q <=? 2) && negb (has_wildcard t) && okb p &&
    (if is_short_topic t then wf_bytesb t && negb (subscribed subs t) else registered regs t)
  | SCall _ (ASubscribe t q) => topic_ok t && (q <=? 2) && negb (subscribed subs t)
  | SCall _ (AUnsub t) => is_short_topic t && wf_bytesb t
  | SBpub (MqPublish dup q r t mid p) =>
    subscribed subs t && okb p && (mid <? 65536) && ((q =? 0) || ((q =? 1) && (1 <=? mid)))
  | _ => false
  end.

Definition subs_after3 (subs : list subn) (ev : sys_event) : list subn :=
  match ev with
  | SCall id (ASubscribe t q) => subs ++ [(t, q, id)]
  | SCall _ (AUnsub t) => subs_del t subs
  | _ => subs
  end.

(* the k-th registered name gets the topic ID k (IDs start at min_tid = 1) *)
Definition regs_after3 (regs : list (bytes * N)) (ev : sys_event) : list (bytes * N) :=
  match ev with
  | SCall _ (ARegister t) => regs ++ [(t, 1 + len regs)]
  | _ => regs
  end.

Fixpoint prog_okb3 (subs : list subn) (regs : list (bytes * N)) (evs : list sys_event) : bool :=
  match evs with
  | [] => true
  | ev :: evs' => ev_okb3 subs regs ev && prog_okb3 (subs_after3 subs ev) (regs_after3 regs ev) evs'
  end.

Fixpoint subs_final3 (subs : list subn) (evs : list sys_event) : list subn :=
  match evs with [] => subs | ev :: evs' => subs_final3 (subs_after3 subs ev) evs' end.
Fixpoint regs_final3 (regs : list (bytes * N)) (evs : list sys_event) : list (bytes * N) :=
  match evs with [] => regs | ev :: evs' => regs_final3 (regs_after3 regs ev) evs' end.

(* the documented effect of a call at the broker: the MQTT packets the broker receives, in order (mid: the
   message ID the client library chose).  Register has none: it is between the client and the gateway. *)
Definition effects3 (cfg : e2e_cfg) (a : api) (mid : N) : list mq_pkt :=
  match a with
  | ARegister _ => []
  | AUnsub t => [MqUnsubscribe mid [t]]
  | APublish t q r p => if q =? 2 then [MqPublish false 2 r t mid p; MqPubrel mid] else [MqPublish false q r t mid p]
  | _ => match effect_of2 cfg a mid with Some m => [m] | None => [] end
  end.

(* the call returns nil, exactly once; the broker receives exactly the documented packets; no handler is invoked *)
Definition call_ok3 (cfg : e2e_cfg) (id : N) (a : api) (os : list sys_out) : Prop :=
  rets_of os = [(id, ROk)] /\ (exists mid, brs_of os = effects3 cfg a mid) /\ cbs_full os = [].

(* what the trace of an event must say (compare ev_post of ComposeProofs2.v) *)
Definition ev_post3 (cfg : e2e_cfg) (subs : list subn) (ev : sys_event) (os : list sys_out) : Prop :=
  match ev with
  | SCall id a => call_ok3 cfg id a os
  | SBpub (MqPublish dup q r t mid p) =>
    exists s, sub_lookup subs t = Some s /\ cbs_full os = [(sub_id s, t, p, q, r, dup, mid)] /\
      rets_of os = [] /\ brs_of os = (if q =? 1 then [MqPuback mid] else [])
  | _ => False
  end.

Fixpoint run_post3 (cfg : e2e_cfg) (subs : list subn) (evs : list sys_event) (oss : list (list sys_out)) : Prop :=
  match evs, oss with
  | [], [] => True
  | ev :: evs', os :: oss' => ev_post3 cfg subs ev os /\ run_post3 cfg (subs_after3 subs ev) evs' oss'
  | _, _ => False
  end.

Lemma registered_false regs t : registered regs t = false -> reg_lookup regs t = None.
Proof. unfold registered. destruct (reg_lookup regs t); [discriminate|reflexivity]. Qed.

Lemma registered_true regs t : distinct (map fst regs) -> registered regs t = true -> exists i, In (t, i) regs.
Proof.
  unfold registered. intros _ H. destruct (reg_lookup regs t) as [i|] eqn:E; [|discriminate H]. exists i.
  clear H. induction regs as [|[m j] r IH]; [discriminate E|]. cbn [reg_lookup] in E.
  destruct (beq m t) eqn:Eb.
  - injection E as ->. apply beq_true in Eb. subst m. left. reflexivity.
  - right. exact (IH E).
Qed.

(* the hypotheses on the configuration: cfg_ok, and no predefined topic IDs for this client *)
Definition cfg_ok3 (cfg : e2e_cfg) : Prop :=
  cfg_ok cfg /\ forall i, get_name (predefined (e_gw cfg)) (k_cid (e_cl cfg)) i = None.

Lemma QuietP_frame cfg y y' subs regs : QuietP cfg y subs regs -> Quiet cfg y' -> y_br y' = y_br y ->
  sys_frame y y' -> QuietP cfg y' subs regs.
Proof.
  intros (HS & HA & Hseq & Hinf) HQ' Hbr Hf. split; [exact (QuietS_frame3 cfg y y' subs HS HQ' Hbr Hf)|].
  destruct Hf as (_ & Hr & Hg). split; [exact (RegsAgree_frame _ _ _ _ regs HA Hr Hg)|].
  split; [|rewrite Hbr; exact Hinf]. destruct Hg as (_ & Hs & _). rewrite Hs. exact Hseq.
Qed.

Lemma prog_step3 cfg y subs regs ev : cfg_ok3 cfg -> QuietP cfg y subs regs -> ev_okb3 subs regs ev = true ->
  exists y' os, sys_step cfg y ev = (y', os) /\ ev_post3 cfg subs ev os /\
    QuietP cfg y' (subs_after3 subs ev) (regs_after3 regs ev).
Proof.
  intros [Hcfg Hnopd] HP Hev. pose proof Hcfg as (Hll & (_ & Hmin & Hmax & _) & _).
  pose proof HP as (HS & HA & Hseq & Hinf). pose proof HS as (HQ & Hb & Hh & Hok).
  destruct ev as [id a|m|ms|d]; try discriminate Hev.
  - destruct a as [|topic|topic qos|? ?|topic qos retain payload|? ? ? ?|topic|?| |?| |]; try discriminate Hev.
    + (* Register *)
      cbn [ev_okb3] in Hev. apply andb_true_iff in Hev. destruct Hev as [Hev Hlen].
      apply andb_true_iff in Hev. destruct Hev as [Ht Hnr]. apply N.ltb_lt in Hlen.
      apply negb_true_iff, registered_false in Hnr.
      destruct (e2e_register cfg y regs id topic Hll (conj HQ HA) Ht Hnr ltac:(lia) ltac:(lia) (Hnopd _))
        as (y' & E & [HQ' HA'] & Hbr & Hch & _ & _ & Hgs).
      exists y'. eexists. split; [exact E|]. split.
      * split; [reflexivity|]. split; [|reflexivity]. exists 0. reflexivity.
      * cbn [subs_after3 regs_after3]. rewrite Hseq, Hmin in HA', Hgs.
        split; [exact (QuietS_frame cfg y y' subs HS HQ' Hbr Hch)|]. split; [exact HA'|].
        split; [|rewrite Hbr; exact Hinf]. rewrite Hgs, Hmin, len_app, len_cons, len_nil. lia.
    + (* Subscribe *)
      cbn [ev_okb3] in Hev. apply andb_true_iff in Hev. destruct Hev as [Hev Hns].
      apply andb_true_iff in Hev. destruct Hev as [Ht Hq]. apply N.leb_le in Hq.
      apply negb_true_iff, subscribed_false in Hns. destruct (topic_ok_spec topic Ht) as (Hs & Hw & _).
      destruct (e2e_subscribe_short_f cfg y id topic qos Hll HQ Hs Hw Hq) as (y' & E & HQ' & Hbr & Hch & Hcr & Hgf).
      exists y'. eexists. split; [exact E|]. split.
      * split; [reflexivity|]. split; [|reflexivity]. eexists. reflexivity.
      * cbn [subs_after3 regs_after3]. split; [|split; [exact (RegsAgree_frame _ _ _ _ regs HA Hcr Hgf)|split]].
        -- split; [exact HQ'|]. split; [|split].
           ++ rewrite Hbr. cbn [b_subs set]. rewrite Hb. apply sub_set_fresh, Hns.
           ++ rewrite Hch, Hh. apply tbl_store_fresh, Hns.
           ++ apply subs_ok_snoc; [exact Hok|exact Ht|exact Hns].
        -- destruct Hgf as (_ & Hgs & _). rewrite Hgs. exact Hseq.
        -- rewrite Hbr. exact Hinf.
    + (* Publish *)
      cbn [ev_okb3] in Hev. apply andb_true_iff in Hev. destruct Hev as [Hev Hsel].
      apply andb_true_iff in Hev. destruct Hev as [Hev Hp]. apply andb_true_iff in Hev. destruct Hev as [Hq Hwild].
      apply N.leb_le in Hq. apply negb_true_iff in Hwild.
      assert (Hroute : exists tit tid, pub_tid (y_cl y) topic = Some (tit, tid) /\
                resolve_client_topic (e_gw cfg) (y_gw y) tit tid = Some topic /\ tid < 65536 /\
                sub_matching (b_subs (y_br y)) topic = []).
      { destruct (is_short_topic topic) eqn:Hs.
        - apply andb_true_iff in Hsel. destruct Hsel as [Hw Hns]. apply wf_bytesb_spec in Hw.
          apply negb_true_iff, subscribed_false in Hns.
          exists TIT_SHORT, (encode_short topic). split; [exact (pub_tid_short _ _ Hs)|].
          split; [exact (short_out _ _ _ Hs Hw)|]. split; [exact (encode_short_lt _ Hs Hw)|].
          rewrite Hb. apply sub_matching_none; [exact (proj1 Hok)|exact Hns].
        - destruct (registered_true regs topic (ra_names _ _ _ HA) Hsel) as (tid & Hin).
          destruct (RegsAgree_pub (e_gw cfg) _ _ regs topic tid HA Hin Hs) as (Hpt & Hres & Htid).
          exists TIT_REGISTERED, tid. split; [exact Hpt|]. split; [exact Hres|]. split; [exact Htid|].
          rewrite Hb. apply sub_matching_none; [exact (proj1 Hok)|exact (not_short_not_sub subs topic (proj1 Hok) Hs)]. }
      destruct Hroute as (tit & tid & Hpt & Hres & Htid & Hnm).
      assert (Hq3 : qos = 0 \/ qos = 1 \/ qos = 2) by lia. destruct Hq3 as [->|[->| ->]].
      * destruct (e2e_publish_q0_gen cfg y id topic tit tid retain payload Hll HQ Hpt Hres Htid Hwild Hp Hnm)
          as (y' & E & HQ' & Hbr & Hf).
        exists y'. eexists. split; [exact E|]. split; [|exact (QuietP_frame cfg y y' subs regs HP HQ' Hbr Hf)].
        split; [reflexivity|]. split; [|reflexivity]. eexists. reflexivity.
      * destruct (e2e_publish_q1_gen cfg y id topic tit tid retain payload Hll HQ Hpt Hres Htid Hwild Hp Hnm)
          as (y' & E & HQ' & Hbr & Hf).
        exists y'. eexists. split; [exact E|]. split; [|exact (QuietP_frame cfg y y' subs regs HP HQ' Hbr Hf)].
        split; [reflexivity|]. split; [|reflexivity]. eexists. reflexivity.
      * assert (Hinf' : existsb (N.eqb (cl_next_mid (y_cl y))) (b_inflight2 (y_br y)) = false) by (rewrite Hinf; reflexivity).
        destruct (e2e_publish_q2_gen cfg y id topic tit tid retain payload Hll HQ Hpt Hres Htid Hwild Hp Hnm Hinf')
          as (y' & E & HQ' & Hbr & Hf).
        exists y'. eexists. split; [exact E|]. split; [|exact (QuietP_frame cfg y y' subs regs HP HQ' Hbr Hf)].
        split; [reflexivity|]. split; [|reflexivity]. eexists. reflexivity.
    + (* Unsubscribe *)
      cbn [ev_okb3] in Hev. apply andb_true_iff in Hev. destruct Hev as [Hs Hw]. apply wf_bytesb_spec in Hw.
      destruct (e2e_unsubscribe_short cfg y subs id topic Hll HS Hs Hw)
        as (y' & E & HS' & _ & _ & _ & _ & Hcr & Hgf & Hinf').
      exists y'. eexists. split; [exact E|]. split.
      * split; [reflexivity|]. split; [|reflexivity]. eexists. reflexivity.
      * cbn [subs_after3 regs_after3]. split; [exact HS'|]. split; [exact (RegsAgree_frame _ _ _ _ regs HA Hcr Hgf)|].
        split; [|rewrite Hinf'; exact Hinf]. destruct Hgf as (_ & Hgs & _). rewrite Hgs. exact Hseq.
    + (* Ping *)
      destruct (e2e_ping_f cfg y id Hll HQ) as (y' & E & HQ' & Hbr & Hf).
      exists y'. eexists. split; [exact E|]. split; [|exact (QuietP_frame cfg y y' subs regs HP HQ' Hbr Hf)].
      split; [reflexivity|]. split; [|reflexivity]. exists 0. reflexivity.
  - (* broker PUBLISH *)
    destruct m as [?|? ?|dup qos retain topic mid payload|?|?|?|?|? ? ?|? ?|? ?|?| | |]; try discriminate Hev.
    cbn [ev_okb3] in Hev. apply andb_true_iff in Hev. destruct Hev as [Hev Hqm].
    apply andb_true_iff in Hev. destruct Hev as [Hev Hm]. apply N.ltb_lt in Hm.
    apply andb_true_iff in Hev. destruct Hev as [Hsub Hp].
    unfold subscribed in Hsub. destruct (sub_lookup subs topic) as [s|] eqn:Hl; [|discriminate Hsub].
    destruct (sub_lookup_some subs topic s Hl) as [Hin Hst]. subst topic.
    pose proof (proj1 Hok) as Hf. rewrite Forall_forall in Hf. destruct (topic_ok_spec _ (Hf s Hin)) as (Hs & Hw & _).
    cbn [subs_after3 regs_after3 ev_post3]. rewrite Hl.
    apply orb_true_iff in Hqm. destruct Hqm as [Hq|Hq].
    + apply N.eqb_eq in Hq. subst qos.
      destruct (e2e_bpub_short_q0_f cfg y dup retain (sub_topic s) mid payload Hll HQ Hs Hw Hm Hp)
        as (y' & E & HQ' & Hbr & Hfr).
      rewrite (scb_out_subs cfg y subs s payload 0 retain dup mid HS Hin) in E.
      exists y'. eexists. split; [exact E|]. split; [|exact (QuietP_frame cfg y y' subs regs HP HQ' Hbr Hfr)].
      exists s. split; [reflexivity|]. split; [reflexivity|]. split; reflexivity.
    + apply andb_true_iff in Hq. destruct Hq as [Hq Hm1]. apply N.eqb_eq in Hq. subst qos. apply N.leb_le in Hm1.
      destruct (e2e_bpub_short_q1_f cfg y dup retain (sub_topic s) mid payload Hll HQ Hs Hw (conj Hm1 Hm) Hp)
        as (y' & E & HQ' & Hbr & Hfr).
      rewrite (scb_out_subs cfg y subs s payload 1 retain dup mid HS Hin) in E.
      exists y'. eexists. split; [exact E|]. split; [|exact (QuietP_frame cfg y y' subs regs HP HQ' Hbr Hfr)].
      exists s. split; [reflexivity|]. split; [reflexivity|]. split; reflexivity.
Qed.

Lemma prog_run3 cfg (evs : list sys_event) : cfg_ok3 cfg ->
  forall y subs regs, QuietP cfg y subs regs -> prog_okb3 subs regs evs = true ->
  exists oss y', sys_run cfg y evs = (oss, y') /\ run_post3 cfg subs evs oss /\
    QuietP cfg y' (subs_final3 subs evs) (regs_final3 regs evs).
Proof.
  intros Hcfg. induction evs as [|ev evs IH]; intros y subs regs HP Hall.
  - exists [], y. split; [reflexivity|]. split; [exact I|exact HP].
  - cbn [prog_okb3] in Hall. apply andb_true_iff in Hall. destruct Hall as [Hev Hall].
    destruct (prog_step3 cfg y subs regs ev Hcfg HP Hev) as (y1 & os & E & Hpost & HP1).
    destruct (IH y1 _ _ HP1 Hall) as (oss & y' & Er & Hposts & HP').
    exists (os :: oss), y'. split; [|split].
    + cbn [sys_run]. rewrite E, Er. reflexivity.
    + split; [exact Hpost|exact Hposts].
    + exact HP'.
Qed.

(* C26 for the programs  Connect; Ping / Register / Publish (QoS 0-2, short or registered names) / Subscribe /
   Unsubscribe calls and broker PUBLISHes on subscribed short names : every call returns nil, has exactly its
   documented effect at the broker and invokes no handler; every broker message is delivered to exactly one
   handler invocation - that of the Subscribe call on its topic - with its topic and payload; the system ends
   connected and quiescent with exactly the subscriptions and registrations of the program in place on both sides *)
Theorem C26_partial_programs3 cfg id0 (evs : list sys_event) : cfg_ok3 cfg ->
  prog_okb3 [] [] evs = true ->
  exists os0 oss y', sys_run cfg (sys_init cfg) (SCall id0 AConnect :: evs) = (os0 :: oss, y') /\
    call_ok cfg id0 AConnect os0 /\ run_post3 cfg [] evs oss /\
    QuietP cfg y' (subs_final3 [] evs) (regs_final3 [] evs).
Proof.
  intros Hcfg3 Hall. pose proof Hcfg3 as [Hcfg _].
  destruct (e2e_connect_f cfg id0 Hcfg) as (y1 & E & HQ1 & Hbr & Hch & Hcr & Hgr & Hgs & Hgo & Hgm).
  assert (HP1 : QuietP cfg y1 [] []).
  { split; [apply QuietS_nil; [exact HQ1|rewrite Hbr; reflexivity|exact Hch]|]. split; [|split].
    - constructor.
      + exact Hcr.
      + intros i name. rewrite Hgr, (lookup_empty (M:=Nmap)). split; [discriminate|intros []].
      + exact I.
      + intros name i [].
      + rewrite Hgs. destruct Hcfg as (_ & (_ & Hmin & _) & _). rewrite Hmin. lia.
      + exact Hgm.
      + exact Hgo.
    - rewrite Hgs, len_nil. lia.
    - rewrite Hbr. reflexivity. }
  destruct (prog_run3 cfg evs Hcfg3 y1 [] [] HP1 Hall) as (oss & y' & Er & Hposts & HP').
  eexists. exists oss, y'. split; [|split; [|split; [exact Hposts|exact HP']]].
  - cbn [sys_run]. rewrite E, Er. reflexivity.
  - split; [reflexivity|]. exists 0. eexists. split; reflexivity.
Qed.

(* ------------------------------------------------------------------ 7. a concrete program (test; the hypotheses are satisfiable) *)

Lemma cfg_ok3_ecfg0 : cfg_ok3 ecfg0.
Proof.
  split; [|intros i; reflexivity].
  split; [split; reflexivity|]. split.
  { split; [constructor|]. split; [reflexivity|]. split; [reflexivity|]. split; [reflexivity|]. split; exact I. }
  split.
  { unfold wf_cl_cfg, ecfg0, ccfg0. cbn [e_cl k_cid k_user k_pass k_will k_wmsg k_wqos k_rdelay k_ctimeout].
    repeat split; try (apply wf_bytesb_spec; reflexivity); try reflexivity; try (intros H; discriminate H). }
  split; [reflexivity|]. split; [reflexivity|]. split; [reflexivity|]. split; reflexivity.
Qed.

Definition prog3 : list sys_event :=
  [SCall 2 (ARegister [97; 47; 98]);
   SCall 3 (APublish [97; 47; 98] 0 false [1; 2]);
   SCall 4 (APublish [97; 47; 98] 1 true [3]);
   SCall 5 (APublish [97; 47; 98] 2 false []);
   SCall 6 (APublish [97; 98] 2 true [1; 2]);
   SCall 7 (ASubscribe [97; 98] 1);
   SBpub (MqPublish false 1 false [97; 98] 1000 [7]);
   SCall 8 (ARegister [99; 47; 100; 47; 101]);
   SCall 9 (AUnsub [97; 98]);
   SCall 10 (APublish [97; 98] 1 false [9]);
   SCall 11 (APublish [99; 47; 100; 47; 101] 2 true [5]);
   SCall 12 APing].

Example prog3_test :
  prog_okb3 [] [] prog3 = true /\
  subs_final3 [] prog3 = [] /\
  regs_final3 [] prog3 = [([97; 47; 98], 1); ([99; 47; 100; 47; 101], 2)] /\
  map rets_of (fst (sys_run ecfg0 (sys_init ecfg0) (SCall 1 AConnect :: prog3))) =
    [[(1, ROk)]; [(2, ROk)]; [(3, ROk)]; [(4, ROk)]; [(5, ROk)]; [(6, ROk)]; [(7, ROk)]; []; [(8, ROk)]; [(9, ROk)];
     [(10, ROk)]; [(11, ROk)]; [(12, ROk)]] /\
  map cbs_of (fst (sys_run ecfg0 (sys_init ecfg0) (SCall 1 AConnect :: prog3))) =
    [[]; []; []; []; []; []; []; [(7, [97; 98], [7])]; []; []; []; []; []] /\
  map brs_of (tl (fst (sys_run ecfg0 (sys_init ecfg0) (SCall 1 AConnect :: prog3)))) =
    [[]; [MqPublish false 0 false [97; 47; 98] 2 [1; 2]]; [MqPublish false 1 true [97; 47; 98] 3 [3]];
     [MqPublish false 2 false [97; 47; 98] 4 []; MqPubrel 4]; [MqPublish false 2 true [97; 98] 5 [1; 2]; MqPubrel 5];
     [MqSubscribe 6 false [([97; 98], 1)]]; [MqPuback 1000]; []; [MqUnsubscribe 8 [[97; 98]]];
     [MqPublish false 1 false [97; 98] 9 [9]]; [MqPublish false 2 true [99; 47; 100; 47; 101] 10 [5]; MqPubrel 10];
     [MqPingreq]] /\
  (let y := snd (sys_run ecfg0 (sys_init ecfg0) (SCall 1 AConnect :: prog3)) in
   cl_registered (y_cl y) = [([97; 47; 98], 1); ([99; 47; 100; 47; 101], 2)] /\
   map_to_list (gw_registered (y_gw y)) = [(1, [97; 47; 98]); (2, [99; 47; 100; 47; 101])] /\
   cl_handlers (y_cl y) = [] /\ b_subs (y_br y) = [] /\ b_inflight2 (y_br y) = [] /\ quietb ecfg0 y = true).
Proof. vm_compute. repeat split; reflexivity. Qed.

(* the restrictions are needed for the shape of the statements:
   - a registered name with a wildcard character can be registered (neither side checks), but a Publish on it
     makes the gateway end the session (handleClientPublish refuses what is not a valid MQTT PUBLISH): nothing
     reaches the broker, the gateway's DISCONNECT terminates the client and the call returns ErrTerminated;
   - if the allocator's next topic ID is a predefined topic ID of the client, the gateway skips it: the name gets
     the next free ID instead *)
Example publish_registered_wildcard_test :
  let y1 := fst (sys_step ecfg0 (sys_init ecfg0) (SCall 1 AConnect)) in
  let r2 := sys_step ecfg0 y1 (SCall 2 (ARegister [97; 47; 43])) in
  let r3 := sys_step ecfg0 (fst r2) (SCall 3 (APublish [97; 47; 43] 1 false [1])) in
  rets_of (snd r2) = [(2, ROk)] /\ cl_registered (y_cl (fst r2)) = [([97; 47; 43], 1)] /\
  snd r3 = [SoC2G 0 FDeliver (pack (Publish false 1 false TIT_REGISTERED 1 2 [1]));
            SoG2C 0 FDeliver (pack (Disconnect 0)); SoExit 0; SoRet 0 3 RCancelled] /\
  brs_of (snd r3) = [] /\ cl_st (y_cl (fst r3)) = Disconnected /\ quietb ecfg0 (fst r3) = false.
Proof. vm_compute. repeat split; reflexivity. Qed.

Definition gcfg_pd : gw_cfg := {| auth_enabled := false; cfg_user := None; cfg_pass := None; retry_delay := 10000;
  retry_count := 3; predefined := [([99; 49], <[1 := [112; 47; 113]]> ∅)]; min_tid := 1; max_tid := 65534 |}.
Definition ecfg_pd : e2e_cfg := {| e_gw := gcfg_pd; e_cl := ccfg0; e_c2g := []; e_g2c := [] |}.

Example register_skips_predefined_test :
  let y1 := fst (sys_step ecfg_pd (sys_init ecfg_pd) (SCall 1 AConnect)) in
  let r2 := sys_step ecfg_pd y1 (SCall 2 (ARegister [97; 47; 98])) in
  gw_seq_next (y_gw y1) = 1 /\
  snd r2 = [SoC2G 0 FDeliver (pack (Register 0 1 [97; 47; 98]));
            SoG2C 0 FDeliver (pack (Regack 2 1 RC_ACCEPTED)); SoRet 0 2 ROk] /\
  cl_registered (y_cl (fst r2)) = [([97; 47; 98], 2)] /\ gw_seq_next (y_gw (fst r2)) = 3.
Proof. vm_compute. repeat split; reflexivity. Qed.

(* ------------------------------------------------------------------ 8. assumptions *)

Print Assumptions e2e_register.
Print Assumptions e2e_publish_q0_gen.
Print Assumptions e2e_publish_q1_gen.
Print Assumptions e2e_publish_q2_gen.
Print Assumptions e2e_publish_registered_q0.
Print Assumptions e2e_publish_registered_q1.
Print Assumptions e2e_publish_registered_q2.
Print Assumptions e2e_publish_short_q2.
Print Assumptions e2e_publish_short_q0_f.
Print Assumptions e2e_publish_short_q1_f.
Print Assumptions e2e_unsubscribe_short_gen.
Print Assumptions e2e_unsubscribe_short.
Print Assumptions e2e_ping_f.
Print Assumptions e2e_subscribe_short_f.
Print Assumptions e2e_bpub_short_q0_f.
Print Assumptions e2e_bpub_short_q1_f.
Print Assumptions e2e_connect_f.
Print Assumptions C26_partial_programs3.
Print Assumptions cfg_ok3_ecfg0.
Print Assumptions prog3_test.
Print Assumptions publish_registered_wildcard_test.
Print Assumptions register_skips_predefined_test.
