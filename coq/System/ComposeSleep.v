(* System/ComposeSleep.v — C26 "repeated sleep cycles" (with C11 end to end): one sleep cycle of the client in
   the composed system of System/Compose.v as exact traces, proved for ALL configurations, states, subscriptions,
   sleep durations, message IDs and payloads in the stated ranges; broker messages with QoS 0 on subscribed short
   topic names.  The link delivers at the positions used (nth_fault at the link counters y_c2g_k / y_g2c_k of the
   state, as in ComposeLoss.v; lossless cfg implies them); the start state is QuietS cfg y subs of ComposeProofs2.v.

     Sleeping cfg y subs id T buf   the Sleep call id is blocked: the client is asleep, its wake-up timer (the only timer)
                                    due at T >= now; the gateway session is asleep, no transaction, no timer (no sleep
                                    pinger), its buffer holds exactly the packets buf; subscriptions subs in place
     AwakeS cfg y subs buf          after the wake-up: the client awake and idle, the gateway session asleep, buffer buf
     e2e_sleep_call                 QuietS --Sleep(ms)--> C2G DISCONNECT(ms / 1000), G2C DISCONNECT; no return, nothing at the
                                    broker; Sleeping ... (now + ms) []     (1000 <= ms, ms / 1000 < 65536, no sleep pinger:
                                    gw_keepalive = 0 or ms / 1000 <= gw_keepalive)
     e2e_bpub_while_asleep_q0(_gen) Sleeping buf --broker PUBLISH QoS 0--> only SoBS; Sleeping (buf ++ [that PUBLISH])
     e2e_sleep_wait                 SAdv d not reaching T: nothing happens
     e2e_wake_up                    Sleeping (map bm_sn ms) --SAdv d, T <= now + d--> at T: C2G PINGREQ (client ID), the buffered
                                    PUBLISHes in order, PINGRESP, one handler invocation per message in order, SoRet T id ROk;
                                    AwakeS ... [] at now + d (no upper bound on d).  e2e_wake_up_0 / _1: zero / one message
     e2e_bpub_while_awake_q0, e2e_sleep_again    in AwakeS a broker message is buffered as well; Sleep sends nothing
     C26_sleep_cycle(_delivery)     Sleep call, n messages, wake-up: exact traces / every message reaches the handler of its
                                    subscription exactly once, in order, after the PINGREQ; Sleep returns nil once
     C26_sleep_cycle_timed          the same with the messages arriving at different times of the sleep
     C26_sleep_cycle_again, C26_sleep_cycles(_again)   further cycles from AwakeS; any number of cycles
     sleep_cycles_instance etc.     concrete instances and observations (Sleep shorter than 1 s disconnects; Publish QoS 1
                                    after the wake-up fails; QoS 1 messages are duplicated in the buffer)

   The component lemmas are in ComposeSleep_aux.v. *)
From stdpp Require Import base option list numbers fin_maps nmap.
From Coq Require Import Lia ZArith ZifyN ZifyNat ZifyBool.
From RecordUpdate Require Import RecordSet.
From Verif.Base Require Import Bytes BytesProofs.
From Verif.Codec Require Import Packets Decode Encode EncodeProofs.
From Verif.Checkers Require Import ChkCodec.
From Verif.Topics Require Import Predefined.
From Verif.Gateway Require Import GwTypes GwStep GwWf.
From Verif.Match Require Import Match MatchProofs.
From Verif.Client Require Import ClTypes ClStep Sound_Client.
From Verif.System Require Import Compose RoutingProofs ComposeProofs_aux ComposeProofs ComposeProofs2_aux ComposeProofs2
  ComposeLoss_aux ComposeLoss ComposeSleep_aux.
Import RecordSetNotations.
Open Scope N_scope.
Ltac Zify.zify_post_hook ::= Z.div_mod_to_equations.

(* ------------------------------------------------------------------ definitions *)

(* the subscriptions in place on both sides (as in QuietS) *)
Definition SubsIn (y : sys) (subs : list subn) : Prop :=
  b_subs (y_br y) = bsubs_of subs /\ cl_handlers (y_cl y) = handlers_of subs /\ subs_ok subs.

(* equal clocks, the session is that of this client, the broker connection open *)
Definition Linked (cfg : e2e_cfg) (y : sys) : Prop :=
  cl_now (y_cl y) = gw_now (y_gw y) /\ gw_client_id (y_gw y) = k_cid (e_cl cfg) /\
  b_closed (y_br y) = false /\ y_br_eof y = false.

Definition gbuf (buf : list packet) : list (option N * packet) := map (pair None) buf.

Definition Sleeping (cfg : e2e_cfg) (y : sys) (subs : list subn) (id T : N) (buf : list packet) : Prop :=
  (exists g n ms sq, ClSt (y_cl y) Asleep (sl_objs g (CxSleep id CtSleeping n ms)) (sl_byt g) [tm_wake T sq g]) /\
  GwSt (y_gw y) Asleep (gbuf buf) /\ Linked cfg y /\ gw_now (y_gw y) <= T /\ SubsIn y subs.

Definition AwakeS (cfg : e2e_cfg) (y : sys) (subs : list subn) (buf : list packet) : Prop :=
  ClSt (y_cl y) Awake ∅ ∅ [] /\ GwSt (y_gw y) Asleep (gbuf buf) /\ Linked cfg y /\ SubsIn y subs.

(* ------------------------------------------------------------------ 1. the Sleep call *)

Theorem e2e_sleep_call cfg y subs id ms : QuietS cfg y subs ->
  1000 <= ms -> ms / 1000 < 65536 ->
  gw_keepalive (y_gw y) = 0 \/ ms / 1000 <= gw_keepalive (y_gw y) ->
  nth_fault (e_c2g cfg) (y_c2g_k y) = FDeliver -> nth_fault (e_g2c cfg) (y_g2c_k y) = FDeliver ->
  let t := gw_now (y_gw y) in
  exists y', sys_step cfg y (SCall id (ASleep ms)) =
    (y', [SoC2G t FDeliver (pack (Disconnect (ms / 1000))); SoG2C t FDeliver (pack (Disconnect 0))]) /\
    Sleeping cfg y' subs id (t + ms) [] /\ gw_now (y_gw y') = t /\ y_br y' = y_br y /\
    y_c2g_k y' = S (y_c2g_k y) /\ y_g2c_k y' = S (y_g2c_k y).
Proof.
  intros ((HC & HG & Hnow & Hcid & Hbc & Heof) & Hb & Hh & Hok) Hms Hd Hnp Hfc Hfg t. subst t.
  destruct y as [c g b k1 k2 eof]. cbn [y_cl y_gw y_br y_br_eof y_c2g_k y_g2c_k] in *.
  destruct (cl_sleep_call (e_cl cfg) c id ms HC Hd) as (c1 & Ec1 & HS1 & (Hc1n & Hc1h & _) & _).
  destruct (cl_sleep_disc (e_cl cfg) c1 _ _ _ _ _ _ HS1) as (c2 & Ec2 & HS2 & (Hc2n & Hc2h & _) & _).
  assert (Hd0 : 0 < ms / 1000 < 65536) by lia.
  destruct (gw_sleep_disc (e_gw cfg) g (ms / 1000) HG Hd0 Hnp) as (g1 & Eg1 & HG1 & (Hgn & Hgc & _)).
  eexists. split; [|split; [|split; [|split; [|split]]]].
  - unfold sys_step. sk. rewrite Ec1. sk. rewrite Hfc. sk.
    rewrite pump_fuel_eq. sk. rewrite Eg1. sk. rewrite Hfg. sk. rewrite Ec2. sk.
    rewrite Hnow. reflexivity.
  - unfold Sleeping. sk. split; [|split; [exact HG1|split; [|split; [|split; [|split]]]]].
    + eexists. eexists. eexists. eexists. rewrite <- Hnow, <- Hc1n. exact HS2.
    + unfold Linked. sk. split; [rewrite Hc2n, Hc1n, Hgn; exact Hnow|]. split; [rewrite Hgc; exact Hcid|]. split; assumption.
    + rewrite Hgn. lia.
    + exact Hb.
    + sk. rewrite Hc2h, Hc1h. exact Hh.
    + exact Hok.
  - exact Hgn.
  - reflexivity.
  - reflexivity.
  - reflexivity.
Qed.

(* ------------------------------------------------------------------ 2. a broker PUBLISH (QoS 0) while the client sleeps *)

Lemma gbuf_snoc buf p : gbuf buf ++ [(None, p)] = gbuf (buf ++ [p]).
Proof. unfold gbuf. rewrite map_app. reflexivity. Qed.

Theorem e2e_bpub_while_asleep_q0_gen cfg y subs id T buf dup retain topic mid payload :
  Sleeping cfg y subs id T buf -> is_short_topic topic = true ->
  let t := gw_now (y_gw y) in
  exists y', sys_step cfg y (SBpub (MqPublish dup 0 retain topic mid payload)) =
    (y', [SoBS t (MqPublish dup 0 retain topic mid payload)]) /\
    Sleeping cfg y' subs id T (buf ++ [Publish dup 0 retain TIT_SHORT (encode_short topic) mid payload]) /\
    gw_now (y_gw y') = t /\ y_br y' = y_br y /\ y_c2g_k y' = y_c2g_k y /\ y_g2c_k y' = y_g2c_k y.
Proof.
  intros (HC & HG & (Hnow & Hcid & Hbc & Heof) & HT & HSub) Hs t. subst t.
  destruct y as [c g b k1 k2 eof]. cbn [y_cl y_gw y_br y_br_eof y_c2g_k y_g2c_k] in *.
  destruct (gw_asleep_bpub0 (e_gw cfg) g _ dup retain topic mid payload HG Hs) as (g1 & Eg1 & HG1 & (Hgn & Hgc & _)).
  rewrite gbuf_snoc in HG1.
  eexists. split; [|split; [|split; [|split; [|split]]]].
  - unfold sys_step. sk. rewrite Hbc. rewrite pump_fuel_eq. sk. rewrite Eg1. sk. reflexivity.
  - unfold Sleeping. sk. split; [exact HC|]. split; [exact HG1|]. split; [|split; [rewrite Hgn; exact HT|exact HSub]].
    unfold Linked. sk. split; [rewrite Hgn; exact Hnow|]. split; [rewrite Hgc; exact Hcid|]. split; assumption.
  - exact Hgn.
  - reflexivity.
  - reflexivity.
  - reflexivity.
Qed.

(* ------------------------------------------------------------------ 3. the wake-up *)

(* a broker message (QoS 0) on the topic of a subscription: DUP and RETAIN flags, the subscription, message ID, payload *)
Record bmsg := { bm_dup : bool; bm_retain : bool; bm_sub : subn; bm_mid : N; bm_payload : bytes }.
Definition bm_topic (m : bmsg) : bytes := sub_topic (bm_sub m).
(* as the broker sends it, as the gateway forwards it, and the handler invocation it causes at time t *)
Definition bm_mq (m : bmsg) : mq_pkt := MqPublish (bm_dup m) 0 (bm_retain m) (bm_topic m) (bm_mid m) (bm_payload m).
Definition bm_sn (m : bmsg) : packet :=
  Publish (bm_dup m) 0 (bm_retain m) TIT_SHORT (encode_short (bm_topic m)) (bm_mid m) (bm_payload m).
Definition bm_cb (t : N) (m : bmsg) : sys_out :=
  SoCb t (sub_id (bm_sub m)) (bm_topic m) (bm_payload m) 0 (bm_retain m) (bm_dup m) (bm_mid m).
Definition bm_ok (subs : list subn) (m : bmsg) : Prop :=
  In (bm_sub m) subs /\ bm_mid m < 65536 /\ okb (bm_payload m) = true.

Lemma bm_ok_topic subs m : subs_ok subs -> bm_ok subs m -> is_short_topic (bm_topic m) = true /\ wf_bytes (bm_topic m).
Proof.
  intros [Hf _] (Hin & _). rewrite Forall_forall in Hf. destruct (topic_ok_spec _ (Hf _ Hin)) as (Hs & Hw & _).
  split; assumption.
Qed.

Lemma bm_sn_wf subs m : subs_ok subs -> bm_ok subs m -> wf_pkt (bm_sn m) = true.
Proof.
  intros Hok Hm. destruct (bm_ok_topic subs m Hok Hm) as [Hs Hw]. destruct Hm as (_ & Hmid & Hp).
  apply wf_pub_short; [lia|assumption|assumption|assumption|assumption].
Qed.

Lemma gbuf_wf subs ms : subs_ok subs -> Forall (bm_ok subs) ms ->
  Forall (fun e : option N * packet => wf_pkt (snd e) = true) (gbuf (map bm_sn ms)).
Proof.
  intros Hok Hms. unfold gbuf. induction Hms as [|m ms Hm Hms IH]; cbn [map]; constructor; [|exact IH].
  cbn [snd]. exact (bm_sn_wf subs m Hok Hm).
Qed.

(* the gateway writes a list of datagrams, all of them delivered *)
Lemma gw_outs_deliver cfg t c g b k1 eof dgs : forall k2,
  (forall i, (i < length dgs)%nat -> nth_fault (e_g2c cfg) (k2 + i) = FDeliver) ->
  gw_outs cfg (Build_sys c g b k1 k2 eof) (map (OutSn t) dgs) =
  (Build_sys c g b k1 (k2 + length dgs) eof, map (SoG2C t FDeliver) dgs, map ToCl dgs).
Proof.
  induction dgs as [|dg dgs IH]; intros k2 Hf.
  - cbn [map gw_outs length]. rewrite Nat.add_0_r. reflexivity.
  - cbn [map gw_outs]. sk. pose proof (Hf O ltac:(cbn [length]; lia)) as H0. rewrite Nat.add_0_r in H0. rewrite H0. sk.
    change (Build_sys c g b k1 k2 eof <| y_g2c_k := S k2 |>) with (Build_sys c g b k1 (S k2) eof).
    rewrite (IH (S k2)).
    + cbn [length]. rewrite Nat.add_succ_r. reflexivity.
    + intros i Hi. rewrite <- (Hf (S i) ltac:(cbn [length]; lia)). f_equal. lia.
Qed.

Lemma pump_S f cfg y it rest : pump (S f) cfg y (it :: rest) =
    let '(y1, tr1, w1) :=
      match it with
      | ToGw dg =>
        let '(g, os) := gw_step (e_gw cfg) (y_gw y) (EvSn dg) in gw_outs cfg (y <| y_gw := g |>) os
      | ToCl dg =>
        let '(c, os) := cl_step (e_cl cfg) (y_cl y) (CGw dg) in cl_outs cfg (y <| y_cl := c |>) os
      | ToBroker m =>
        let '(b, replies) := broker_recv (y_br y) m in
        let t := gw_now (y_gw y) in
        (y <| y_br := b |>, map (SoBS t) replies,
         map FromBroker replies ++ (if b_closed b && negb (y_br_eof y) then [BrokerEof] else []))
      | FromBroker m =>
        let '(g, os) := gw_step (e_gw cfg) (y_gw y) (EvMq m) in gw_outs cfg (y <| y_gw := g |>) os
      | BrokerEof =>
        let '(g, os) := gw_step (e_gw cfg) (y_gw y) EvMqEof in gw_outs cfg (y <| y_gw := g |> <| y_br_eof := true |>) os
      end in
    let '(y2, tr2) := pump f cfg y1 (rest ++ w1) in
    (y2, tr1 ++ tr2).
Proof. reflexivity. Qed.

(* the client, whatever it is doing, receives the flushed PUBLISHes one after the other: one handler invocation each *)
Lemma pump_cl_pubs cfg subs st objs byt tms g b k1 k2 eof ms : forall f c rest,
  ClSt c st objs byt tms -> cl_handlers c = handlers_of subs -> subs_ok subs -> Forall (bm_ok subs) ms ->
  exists c', ClSt c' st objs byt tms /\ cl_frame c c' /\ cl_next_mid c' = cl_next_mid c /\
    pump (length ms + f) cfg (Build_sys c g b k1 k2 eof) (map (fun m => ToCl (pack (bm_sn m))) ms ++ rest) =
    (let '(y2, tr2) := pump f cfg (Build_sys c' g b k1 k2 eof) rest in (y2, map (bm_cb (cl_now c)) ms ++ tr2)).
Proof.
  induction ms as [|m ms IH]; intros f c rest HS Hh Hok Hms.
  - exists c. split; [exact HS|]. split; [repeat split|]. split; [reflexivity|].
    cbn [length map app Nat.add]. destruct (pump f cfg _ rest). reflexivity.
  - inversion Hms as [|? ? Hm Hms']; subst.
    destruct (bm_ok_topic subs m Hok Hm) as [Hs Hw]. pose proof Hm as (Hin & Hmid & Hp).
    destruct (cl_st_bpub0 (e_cl cfg) c st objs byt tms (bm_dup m) (bm_retain m) (bm_topic m) (bm_mid m) (bm_payload m)
                HS Hs Hw Hmid Hp) as (c1 & Ec1 & HS1 & (Hc1n & Hc1h & Hc1r) & Hc1m).
    destruct (IH f c1 rest HS1 ltac:(rewrite Hc1h; exact Hh) Hok Hms') as (c' & HS' & (Hcn & Hch & Hcr) & Hcm & E).
    exists c'. split; [exact HS'|]. split; [|split].
    + split; [rewrite Hcn; exact Hc1n|]. split; [rewrite Hch; exact Hc1h|rewrite Hcr; exact Hc1r].
    + rewrite Hcm. exact Hc1m.
    + cbn [length map app Nat.add]. rewrite pump_S. sk. fold (bm_sn m). unfold bm_sn at 1. rewrite Ec1.
      rewrite cl_outs_cb. rewrite Hh. unfold bm_topic. rewrite (handle_set_subs subs (bm_sub m) Hok Hin).
      sk. rewrite app_nil_r.
      change (Build_sys c g b k1 k2 eof <| y_cl := c1 |>) with (Build_sys c1 g b k1 k2 eof). rewrite E. rewrite Hc1n. destruct (pump f cfg _ rest). reflexivity.
Qed.

(* normal form of updates of an explicit system record *)
Ltac ynorm := repeat first
  [ match goal with |- context [Build_sys ?a ?b ?c ?d ?e ?g <| y_cl := ?v |>] =>
      change (Build_sys a b c d e g <| y_cl := v |>) with (Build_sys v b c d e g) end
  | match goal with |- context [Build_sys ?a ?b ?c ?d ?e ?g <| y_gw := ?v |>] =>
      change (Build_sys a b c d e g <| y_gw := v |>) with (Build_sys a v c d e g) end
  | match goal with |- context [Build_sys ?a ?b ?c ?d ?e ?g <| y_br := ?v |>] =>
      change (Build_sys a b c d e g <| y_br := v |>) with (Build_sys a b v d e g) end
  | match goal with |- context [Build_sys ?a ?b ?c ?d ?e ?g <| y_c2g_k := ?v |>] =>
      change (Build_sys a b c d e g <| y_c2g_k := v |>) with (Build_sys a b c v e g) end
  | match goal with |- context [Build_sys ?a ?b ?c ?d ?e ?g <| y_g2c_k := ?v |>] =>
      change (Build_sys a b c d e g <| y_g2c_k := v |>) with (Build_sys a b c d v g) end
  | match goal with |- context [Build_sys ?a ?b ?c ?d ?e ?g <| y_br_eof := ?v |>] =>
      change (Build_sys a b c d e g <| y_br_eof := v |>) with (Build_sys a b c d e v) end ].

Lemma pump_fuel_split n : N.of_nat n <= 9998 -> exists f, pump_fuel = S (n + S f).
Proof. intros Hn. exists (N.to_nat 9998 - n)%nat. unfold pump_fuel. lia. Qed.

(* what the wake-up at time T produces: PINGREQ with the client ID; the buffered PUBLISHes in order, then PINGRESP;
   one handler invocation per message, in order; Sleep returns nil *)
Definition wake_trace (cfg : e2e_cfg) (T id : N) (ms : list bmsg) : list sys_out :=
  SoC2G T FDeliver (pack (Pingreq (k_cid (e_cl cfg)))) ::
  map (fun m => SoG2C T FDeliver (pack (bm_sn m))) ms ++
  SoG2C T FDeliver (pack Pingresp) :: map (bm_cb T) ms ++ [SoRet T id ROk].

Lemma adv_both_wake cfg y subs id T ms :
  Sleeping cfg y subs id T (map bm_sn ms) -> Forall (bm_ok subs) ms -> okb (k_cid (e_cl cfg)) = true ->
  N.of_nat (length ms) <= 9998 ->
  nth_fault (e_c2g cfg) (y_c2g_k y) = FDeliver ->
  (forall i, (i <= length ms)%nat -> nth_fault (e_g2c cfg) (y_g2c_k y + i) = FDeliver) ->
  exists y', advance_both cfg y T = (y', wake_trace cfg T id ms) /\
    AwakeS cfg y' subs [] /\ gw_now (y_gw y') = T /\ y_br y' = y_br y /\
    y_c2g_k y' = S (y_c2g_k y) /\ y_g2c_k y' = (y_g2c_k y + S (length ms))%nat.
Proof.
  intros ((g0 & n & ms0 & sq & HC) & HG & (Hnow & Hcid & Hbc & Heof) & HT & (Hb & Hh & Hok)) Hms Hokc Hlen Hfc Hfg.
  destruct y as [c g b k1 k2 eof]. cbn [y_cl y_gw y_br y_br_eof y_c2g_k y_g2c_k] in *.
  destruct (cl_wake_fire (e_cl cfg) c g0 id CtSleeping n ms0 T sq (T - cl_now c) HC Hokc ltac:(lia))
    as (c1 & Ec1 & HC1 & Hc1n & Hc1h & _).
  destruct (gw_adv_st_ex (e_gw cfg) g _ _ T HG HT) as (g1 & Eg1 & HG1 & Hg1n & Hg1c & _).
  destruct (gw_asleep_pingreq (e_gw cfg) g1 _ (k_cid (e_cl cfg)) HG1 (gbuf_wf subs ms Hok Hms) Hokc)
    as (g2 & Eg2 & HG2 & (Hg2n & Hg2c & _)).
  assert (Eo : map (fun e : option N * packet => OutSn (gw_now g1) (pack (snd e))) (gbuf (map bm_sn ms)) ++
               [OutSn (gw_now g1) (pack Pingresp)] =
               map (OutSn T) (map (fun m => pack (bm_sn m)) ms ++ [pack Pingresp])).
  { rewrite Hg1n. unfold gbuf. rewrite map_app, !map_map. reflexivity. }
  rewrite Eo in Eg2. clear Eo.
  destruct (pump_fuel_split (length ms) Hlen) as (f & Ef).
  destruct (pump_cl_pubs cfg subs _ _ _ _ g2 b (S k1) (k2 + length (map (fun m => pack (bm_sn m)) ms ++ [pack Pingresp])) eof
              ms (S f) c1 [ToCl (pack Pingresp)] HC1 ltac:(rewrite Hc1h; exact Hh) Hok Hms)
    as (c2 & HC2 & (Hc2n & Hc2h & _) & _ & Ep).
  destruct (cl_ww_pingresp (e_cl cfg) c2 _ _ _ _ _ _ HC2) as (c3 & Ec3 & HC3 & (Hc3n & Hc3h & _) & _).
  eexists. split; [|split; [|split; [|split; [|split]]]].
  - unfold advance_both. sk. rewrite Ec1. sk. rewrite Hfc. sk. ynorm. rewrite Eg1. sk. ynorm.
    rewrite Ef. rewrite pump_S. sk. rewrite Eg2. ynorm.
    rewrite gw_outs_deliver.
    2:{ intros i Hi. rewrite app_length, map_length in Hi. cbn [length] in Hi. apply Hfg. lia. }
    rewrite map_app, map_map. cbn [map app]. rewrite Ep.
    rewrite pump_S. sk. rewrite Ec3. sk. rewrite pump_nil.
    unfold wake_trace. rewrite map_app, map_map. cbn [map]. rewrite Hc2n, Hc1n. rewrite <- !app_assoc. reflexivity.
  - unfold AwakeS. sk. split; [exact HC3|]. split; [exact HG2|]. split; [|split; [exact Hb|split; [|exact Hok]]].
    + unfold Linked. sk. split; [rewrite Hc3n, Hc2n, Hc1n, Hg2n, Hg1n; reflexivity|].
      split; [rewrite Hg2c, Hg1c; exact Hcid|]. split; assumption.
    + sk. rewrite Hc3h, Hc2h, Hc1h. exact Hh.
  - sk. rewrite Hg2n. exact Hg1n.
  - reflexivity.
  - reflexivity.
  - sk. rewrite app_length, map_length. cbn [length]. lia.
Qed.

(* time passing while nothing is due *)
Lemma adv_both_awake cfg y subs buf t : AwakeS cfg y subs buf -> gw_now (y_gw y) <= t ->
  exists y', advance_both cfg y t = (y', []) /\ AwakeS cfg y' subs buf /\ gw_now (y_gw y') = t /\ y_br y' = y_br y /\
    y_c2g_k y' = y_c2g_k y /\ y_g2c_k y' = y_g2c_k y.
Proof.
  intros (HC & HG & (Hnow & Hcid & Hbc & Heof) & (Hb & Hh & Hok)) Ht.
  destruct y as [c g b k1 k2 eof]. cbn [y_cl y_gw y_br y_br_eof y_c2g_k y_g2c_k] in *.
  destruct (cl_adv_idle_ex (e_cl cfg) c _ _ _ _ t HC ltac:(lia) ltac:(intros tm E; discriminate E))
    as (c1 & Ec & HC1 & Hcn & Hch & _).
  destruct (gw_adv_st_ex (e_gw cfg) g _ _ t HG Ht) as (g1 & Eg & HG1 & Hgn & Hgc & _).
  eexists. split; [|split; [|split; [|split; [|split]]]].
  - unfold advance_both. sk. rewrite Ec. sk. rewrite Eg. sk. rewrite pump_nil. reflexivity.
  - unfold AwakeS. sk. split; [exact HC1|]. split; [exact HG1|]. split; [|split; [exact Hb|split; [|exact Hok]]].
    + unfold Linked. sk. split; [rewrite Hcn, Hgn; reflexivity|]. split; [rewrite Hgc; exact Hcid|]. split; assumption.
    + sk. rewrite Hch. exact Hh.
  - exact Hgn.
  - reflexivity.
  - reflexivity.
  - reflexivity.
Qed.

Lemma adv_both_sleeping cfg y subs id T buf t : Sleeping cfg y subs id T buf -> gw_now (y_gw y) <= t -> t < T ->
  exists y', advance_both cfg y t = (y', []) /\ Sleeping cfg y' subs id T buf /\ gw_now (y_gw y') = t /\ y_br y' = y_br y /\
    y_c2g_k y' = y_c2g_k y /\ y_g2c_k y' = y_g2c_k y.
Proof.
  intros ((g0 & n & ms0 & sq & HC) & HG & (Hnow & Hcid & Hbc & Heof) & HT & (Hb & Hh & Hok)) Ht HtT.
  destruct y as [c g b k1 k2 eof]. cbn [y_cl y_gw y_br y_br_eof y_c2g_k y_g2c_k] in *.
  destruct (cl_adv_idle_ex (e_cl cfg) c _ _ _ _ t HC ltac:(lia)
              ltac:(intros tm E; cbn [c_min_timer] in E; injection E as <-; exact HtT))
    as (c1 & Ec & HC1 & Hcn & Hch & _).
  destruct (gw_adv_st_ex (e_gw cfg) g _ _ t HG Ht) as (g1 & Eg & HG1 & Hgn & Hgc & _).
  eexists. split; [|split; [|split; [|split; [|split]]]].
  - unfold advance_both. sk. rewrite Ec. sk. rewrite Eg. sk. rewrite pump_nil. reflexivity.
  - unfold Sleeping. sk. split; [exists g0, n, ms0, sq; exact HC1|]. split; [exact HG1|].
    split; [|split; [rewrite Hgn; lia|split; [exact Hb|split; [|exact Hok]]]].
    + unfold Linked. sk. split; [rewrite Hcn, Hgn; reflexivity|]. split; [rewrite Hgc; exact Hcid|]. split; assumption.
    + sk. rewrite Hch. exact Hh.
  - exact Hgn.
  - reflexivity.
  - reflexivity.
  - reflexivity.
Qed.

Lemma deadline_awake cfg y subs buf : AwakeS cfg y subs buf ->
  min_opt (cl_next_deadline (y_cl y)) (gw_next_deadline (y_gw y)) = None.
Proof. intros (HC & HG & _). rewrite (cl_deadline_st _ _ _ _ _ HC), (gw_deadline_st _ _ _ HG). reflexivity. Qed.

Lemma deadline_sleeping cfg y subs id T buf : Sleeping cfg y subs id T buf ->
  min_opt (cl_next_deadline (y_cl y)) (gw_next_deadline (y_gw y)) = Some T.
Proof.
  intros ((g0 & n & ms0 & sq & HC) & HG & _). rewrite (cl_deadline_st _ _ _ _ _ HC), (gw_deadline_st _ _ _ HG). reflexivity.
Qed.

Lemma adv_to_awake cfg y subs buf t f : AwakeS cfg y subs buf -> advance_to (S f) cfg y t = advance_both cfg y t.
Proof. intros HA. rewrite advance_to_S, (deadline_awake cfg y subs buf HA). reflexivity. Qed.

Lemma adv_fuel_eq : exists f, adv_fuel = S (S f).
Proof. exists (N.to_nat 99998). unfold adv_fuel. lia. Qed.

Lemma sys_now_linked cfg y : Linked cfg y -> sys_now y = gw_now (y_gw y).
Proof. intros (Hnow & _). unfold sys_now. rewrite Hnow. apply N.max_id. Qed.

(* SAdv d reaching the wake-up time T: at T the wake-up cycle (wake_trace); then time passes to now + d.  No upper
   bound on d: PINGRESP arrives at T, the one-minute timer is stopped, nothing is armed afterwards *)
Theorem e2e_wake_up cfg y subs id T ms d :
  Sleeping cfg y subs id T (map bm_sn ms) -> Forall (bm_ok subs) ms -> okb (k_cid (e_cl cfg)) = true ->
  N.of_nat (length ms) <= 9998 ->
  nth_fault (e_c2g cfg) (y_c2g_k y) = FDeliver ->
  (forall i, (i <= length ms)%nat -> nth_fault (e_g2c cfg) (y_g2c_k y + i) = FDeliver) ->
  T <= gw_now (y_gw y) + d ->
  exists y', sys_step cfg y (SAdv d) = (y', wake_trace cfg T id ms) /\
    AwakeS cfg y' subs [] /\ gw_now (y_gw y') = gw_now (y_gw y) + d /\ y_br y' = y_br y /\
    y_c2g_k y' = S (y_c2g_k y) /\ y_g2c_k y' = (y_g2c_k y + S (length ms))%nat.
Proof.
  intros HS Hms Hokc Hlen Hfc Hfg Hd.
  destruct (adv_both_wake cfg y subs id T ms HS Hms Hokc Hlen Hfc Hfg) as (y1 & E1 & HA1 & Hn1 & Hb1 & Hkc1 & Hkg1).
  pose proof HS as (_ & _ & HL & HT & _). pose proof HL as (Hnow & _).
  change (sys_step cfg y (SAdv d)) with (advance_to adv_fuel cfg y (sys_now y + d)).
  rewrite (sys_now_linked cfg y HL). destruct adv_fuel_eq as (f & ->).
  rewrite advance_to_S, (deadline_sleeping cfg y subs id T _ HS).
  destruct (T <? gw_now (y_gw y) + d) eqn:Elt.
  - assert (Emax : N.max T (N.max (cl_now (y_cl y)) (gw_now (y_gw y))) = T) by lia. rewrite Emax, E1.
    rewrite (adv_to_awake cfg y1 subs [] _ f HA1).
    destruct (adv_both_awake cfg y1 subs [] (gw_now (y_gw y) + d) HA1 ltac:(apply N.ltb_lt in Elt; lia))
      as (y2 & E2 & HA2 & Hn2 & Hb2 & Hkc2 & Hkg2).
    rewrite E2, app_nil_r. exists y2. split; [reflexivity|]. split; [exact HA2|]. split; [exact Hn2|].
    split; [rewrite Hb2; exact Hb1|]. split; [rewrite Hkc2; exact Hkc1|rewrite Hkg2; exact Hkg1].
  - assert (gw_now (y_gw y) + d = T) as -> by (apply N.ltb_ge in Elt; lia). rewrite E1.
    exists y1. split; [reflexivity|]. split; [exact HA1|]. split; [exact Hn1|]. split; [exact Hb1|]. split; [exact Hkc1|exact Hkg1].
Qed.

(* SAdv d not reaching the wake-up time: nothing happens *)
Theorem e2e_sleep_wait cfg y subs id T buf d : Sleeping cfg y subs id T buf -> gw_now (y_gw y) + d < T ->
  exists y', sys_step cfg y (SAdv d) = (y', []) /\ Sleeping cfg y' subs id T buf /\
    gw_now (y_gw y') = gw_now (y_gw y) + d /\ y_br y' = y_br y /\ y_c2g_k y' = y_c2g_k y /\ y_g2c_k y' = y_g2c_k y.
Proof.
  intros HS Hd. pose proof HS as (_ & _ & HL & _).
  change (sys_step cfg y (SAdv d)) with (advance_to adv_fuel cfg y (sys_now y + d)).
  rewrite (sys_now_linked cfg y HL). destruct adv_fuel_eq as (f & ->).
  rewrite advance_to_S, (deadline_sleeping cfg y subs id T _ HS).
  assert (Elt : (T <? gw_now (y_gw y) + d) = false) by (apply N.ltb_ge; lia). rewrite Elt.
  exact (adv_both_sleeping cfg y subs id T buf (gw_now (y_gw y) + d) HS ltac:(lia) Hd).
Qed.

(* ------------------------------------------------------------------ 3'. zero and one buffered message; subscribed topics *)

Theorem e2e_bpub_while_asleep_q0 cfg y subs id T buf m :
  Sleeping cfg y subs id T buf -> bm_ok subs m ->
  let t := gw_now (y_gw y) in
  exists y', sys_step cfg y (SBpub (bm_mq m)) = (y', [SoBS t (bm_mq m)]) /\
    Sleeping cfg y' subs id T (buf ++ [bm_sn m]) /\
    gw_now (y_gw y') = t /\ y_br y' = y_br y /\ y_c2g_k y' = y_c2g_k y /\ y_g2c_k y' = y_g2c_k y.
Proof.
  intros HS Hm. pose proof HS as (_ & _ & _ & _ & (_ & _ & Hok)).
  destruct (bm_ok_topic subs m Hok Hm) as [Hs _].
  exact (e2e_bpub_while_asleep_q0_gen cfg y subs id T buf (bm_dup m) (bm_retain m) (bm_topic m) (bm_mid m) (bm_payload m) HS Hs).
Qed.

(* nothing was buffered: PINGREQ, PINGRESP, Sleep returns nil *)
Corollary e2e_wake_up_0 cfg y subs id T d :
  Sleeping cfg y subs id T [] -> okb (k_cid (e_cl cfg)) = true ->
  nth_fault (e_c2g cfg) (y_c2g_k y) = FDeliver -> nth_fault (e_g2c cfg) (y_g2c_k y) = FDeliver ->
  T <= gw_now (y_gw y) + d ->
  exists y', sys_step cfg y (SAdv d) =
    (y', [SoC2G T FDeliver (pack (Pingreq (k_cid (e_cl cfg)))); SoG2C T FDeliver (pack Pingresp); SoRet T id ROk]) /\
    AwakeS cfg y' subs [] /\ gw_now (y_gw y') = gw_now (y_gw y) + d /\ y_br y' = y_br y /\
    y_c2g_k y' = S (y_c2g_k y) /\ y_g2c_k y' = S (y_g2c_k y).
Proof.
  intros HS Hokc Hfc Hfg Hd.
  destruct (e2e_wake_up cfg y subs id T [] d HS ltac:(constructor) Hokc ltac:(cbn [length]; lia) Hfc) as (y' & E & HA & Hn & Hb & Hkc & Hkg); [|exact Hd|].
  - intros i Hi. cbn [length] in Hi. assert (i = O) as -> by lia. rewrite Nat.add_0_r. exact Hfg.
  - exists y'. split; [exact E|]. split; [exact HA|]. split; [exact Hn|]. split; [exact Hb|]. split; [exact Hkc|].
    rewrite Hkg. cbn [length]. lia.
Qed.

(* one message was buffered: PINGREQ, that PUBLISH, PINGRESP, its handler once, Sleep returns nil *)
Corollary e2e_wake_up_1 cfg y subs id T m d :
  Sleeping cfg y subs id T [bm_sn m] -> bm_ok subs m -> okb (k_cid (e_cl cfg)) = true ->
  nth_fault (e_c2g cfg) (y_c2g_k y) = FDeliver ->
  nth_fault (e_g2c cfg) (y_g2c_k y) = FDeliver -> nth_fault (e_g2c cfg) (S (y_g2c_k y)) = FDeliver ->
  T <= gw_now (y_gw y) + d ->
  exists y', sys_step cfg y (SAdv d) =
    (y', [SoC2G T FDeliver (pack (Pingreq (k_cid (e_cl cfg)))); SoG2C T FDeliver (pack (bm_sn m));
          SoG2C T FDeliver (pack Pingresp); bm_cb T m; SoRet T id ROk]) /\
    AwakeS cfg y' subs [] /\ gw_now (y_gw y') = gw_now (y_gw y) + d /\ y_br y' = y_br y /\
    y_c2g_k y' = S (y_c2g_k y) /\ y_g2c_k y' = S (S (y_g2c_k y)).
Proof.
  intros HS Hm Hokc Hfc Hfg0 Hfg1 Hd.
  destruct (e2e_wake_up cfg y subs id T [m] d HS ltac:(constructor; [exact Hm|constructor]) Hokc ltac:(cbn [length]; lia) Hfc)
    as (y' & E & HA & Hn & Hb & Hkc & Hkg); [|exact Hd|].
  - intros i Hi. cbn [length] in Hi. destruct i as [|[|i]]; [rewrite Nat.add_0_r; exact Hfg0| |lia].
    rewrite Nat.add_1_r. exact Hfg1.
  - exists y'. split; [exact E|]. split; [exact HA|]. split; [exact Hn|]. split; [exact Hb|]. split; [exact Hkc|].
    rewrite Hkg. cbn [length]. lia.
Qed.

(* ------------------------------------------------------------------ 3''. after the wake-up: the next Sleep *)

(* the gateway still regards the client as asleep: a broker PUBLISH (QoS 0) after the wake-up cycle is buffered, too *)
Theorem e2e_bpub_while_awake_q0 cfg y subs buf m :
  AwakeS cfg y subs buf -> bm_ok subs m ->
  let t := gw_now (y_gw y) in
  exists y', sys_step cfg y (SBpub (bm_mq m)) = (y', [SoBS t (bm_mq m)]) /\
    AwakeS cfg y' subs (buf ++ [bm_sn m]) /\
    gw_now (y_gw y') = t /\ y_br y' = y_br y /\ y_c2g_k y' = y_c2g_k y /\ y_g2c_k y' = y_g2c_k y.
Proof.
  intros (HC & HG & (Hnow & Hcid & Hbc & Heof) & HSub) Hm t. subst t.
  pose proof HSub as (_ & _ & Hok). destruct (bm_ok_topic subs m Hok Hm) as [Hs _].
  destruct y as [c g b k1 k2 eof]. cbn [y_cl y_gw y_br y_br_eof y_c2g_k y_g2c_k] in *.
  destruct (gw_asleep_bpub0 (e_gw cfg) g _ (bm_dup m) (bm_retain m) (bm_topic m) (bm_mid m) (bm_payload m) HG Hs)
    as (g1 & Eg1 & HG1 & (Hgn & Hgc & _)).
  rewrite gbuf_snoc in HG1.
  eexists. split; [|split; [|split; [|split; [|split]]]].
  - unfold sys_step, bm_mq. sk. rewrite Hbc. rewrite pump_fuel_eq. sk. rewrite Eg1. sk. reflexivity.
  - unfold AwakeS. sk. split; [exact HC|]. split; [exact HG1|]. split; [|exact HSub].
    unfold Linked. sk. split; [rewrite Hgn; exact Hnow|]. split; [rewrite Hgc; exact Hcid|]. split; assumption.
  - exact Hgn.
  - reflexivity.
  - reflexivity.
  - reflexivity.
Qed.

(* Sleep in that state: nothing is sent (no DISCONNECT: the gateway is not told the new duration), the client is
   asleep at once, wake-up at now + ms *)
Theorem e2e_sleep_again cfg y subs buf id ms : AwakeS cfg y subs buf ->
  exists y', sys_step cfg y (SCall id (ASleep ms)) = (y', []) /\
    Sleeping cfg y' subs id (gw_now (y_gw y) + ms) buf /\
    gw_now (y_gw y') = gw_now (y_gw y) /\ y_br y' = y_br y /\ y_c2g_k y' = y_c2g_k y /\ y_g2c_k y' = y_g2c_k y.
Proof.
  intros (HC & HG & (Hnow & Hcid & Hbc & Heof) & (Hb & Hh & Hok)).
  destruct y as [c g b k1 k2 eof]. cbn [y_cl y_gw y_br y_br_eof y_c2g_k y_g2c_k] in *.
  destruct (cl_sleep_again (e_cl cfg) c id ms HC) as (c1 & Ec1 & HC1 & (Hcn & Hch & _) & _).
  eexists. split; [|split; [|split; [|split; [|split]]]].
  - unfold sys_step. sk. rewrite Ec1. sk. rewrite pump_nil. reflexivity.
  - unfold Sleeping. sk. split; [|split; [exact HG|split; [|split; [lia|split; [exact Hb|split; [|exact Hok]]]]]].
    + eexists. eexists. eexists. eexists. rewrite <- Hnow. exact HC1.
    + unfold Linked. sk. split; [rewrite Hcn; exact Hnow|]. split; [exact Hcid|]. split; assumption.
    + sk. rewrite Hch. exact Hh.
  - reflexivity.
  - reflexivity.
  - reflexivity.
  - reflexivity.
Qed.

(* ------------------------------------------------------------------ 4. the sleep cycle *)

(* broker messages (QoS 0) on subscribed topics, one after the other, while the client sleeps: only buffered *)
Lemma asleep_bpubs cfg subs id T msgs : forall y ms0,
  Sleeping cfg y subs id T (map bm_sn ms0) -> Forall (bm_ok subs) msgs ->
  exists y', sys_run cfg y (map (fun m => SBpub (bm_mq m)) msgs) =
      (map (fun m => [SoBS (gw_now (y_gw y)) (bm_mq m)]) msgs, y') /\
    Sleeping cfg y' subs id T (map bm_sn (ms0 ++ msgs)) /\ gw_now (y_gw y') = gw_now (y_gw y) /\ y_br y' = y_br y /\
    y_c2g_k y' = y_c2g_k y /\ y_g2c_k y' = y_g2c_k y.
Proof.
  induction msgs as [|m msgs IH]; intros y ms0 HS Hms.
  - exists y. rewrite app_nil_r. split; [reflexivity|]. split; [exact HS|]. repeat split.
  - inversion Hms as [|? ? Hm Hms']; subst.
    destruct (e2e_bpub_while_asleep_q0 cfg y subs id T _ m HS Hm) as (y1 & E1 & HS1 & Hn1 & Hb1 & Hkc1 & Hkg1).
    change (map bm_sn ms0 ++ [bm_sn m]) with (map bm_sn ms0 ++ map bm_sn [m]) in HS1. rewrite <- map_app in HS1.
    destruct (IH y1 (ms0 ++ [m]) HS1 Hms') as (y2 & E2 & HS2 & Hn2 & Hb2 & Hkc2 & Hkg2).
    rewrite <- app_assoc in HS2. cbn [app] in HS2.
    exists y2. split; [|split; [exact HS2|split; [rewrite Hn2; exact Hn1|split; [rewrite Hb2; exact Hb1|split]]]].
    + cbn [map sys_run]. rewrite E1, E2, Hn1. reflexivity.
    + rewrite Hkc2; exact Hkc1.
    + rewrite Hkg2; exact Hkg1.
Qed.

(* the events of one cycle: the Sleep call, broker messages while the client sleeps, time passing beyond the wake-up *)
Definition cycle_evs (id ms : N) (msgs : list bmsg) (d : N) : list sys_event :=
  SCall id (ASleep ms) :: map (fun m => SBpub (bm_mq m)) msgs ++ [SAdv d].

(* From a connected quiescent state with the subscriptions subs in place: Sleep (at least one second, a duration
   that starts no sleep pinger); n broker messages (QoS 0) on subscribed topics; time passes to the wake-up or
   beyond.  DISCONNECT (duration in seconds) / DISCONNECT and nothing else at the call; every broker message is
   only buffered; at now + ms: PINGREQ (client ID), the n PUBLISHes in order, PINGRESP, the n handler invocations in
   order, and Sleep returns nil.  Afterwards the client is awake and idle, the gateway regards it as asleep with
   an empty buffer. *)
Theorem C26_sleep_cycle cfg y subs id ms msgs d :
  QuietS cfg y subs -> 1000 <= ms -> ms / 1000 < 65536 ->
  gw_keepalive (y_gw y) = 0 \/ ms / 1000 <= gw_keepalive (y_gw y) ->
  Forall (bm_ok subs) msgs -> N.of_nat (length msgs) <= 9998 -> okb (k_cid (e_cl cfg)) = true ->
  nth_fault (e_c2g cfg) (y_c2g_k y) = FDeliver -> nth_fault (e_c2g cfg) (S (y_c2g_k y)) = FDeliver ->
  (forall i, (i <= S (length msgs))%nat -> nth_fault (e_g2c cfg) (y_g2c_k y + i) = FDeliver) ->
  ms <= d ->
  let t := gw_now (y_gw y) in
  exists y', sys_run cfg y (cycle_evs id ms msgs d) =
    ([SoC2G t FDeliver (pack (Disconnect (ms / 1000))); SoG2C t FDeliver (pack (Disconnect 0))] ::
     map (fun m => [SoBS t (bm_mq m)]) msgs ++ [wake_trace cfg (t + ms) id msgs], y') /\
    AwakeS cfg y' subs [] /\ gw_now (y_gw y') = t + d /\ y_br y' = y_br y /\
    y_c2g_k y' = S (S (y_c2g_k y)) /\ y_g2c_k y' = (y_g2c_k y + S (S (length msgs)))%nat.
Proof.
  intros HQ Hms Hdur Hnp Hmsgs Hlen Hokc Hfc0 Hfc1 Hfg Hd t. subst t.
  destruct (e2e_sleep_call cfg y subs id ms HQ Hms Hdur Hnp Hfc0 ltac:(rewrite <- (Hfg O ltac:(lia)); f_equal; lia))
    as (y1 & E1 & HS1 & Hn1 & Hb1 & Hkc1 & Hkg1).
  destruct (asleep_bpubs cfg subs id _ msgs y1 [] HS1 Hmsgs) as (y2 & E2 & HS2 & Hn2 & Hb2 & Hkc2 & Hkg2).
  cbn [app] in HS2.
  destruct (e2e_wake_up cfg y2 subs id _ msgs d HS2 Hmsgs Hokc Hlen) as (y3 & E3 & HA3 & Hn3 & Hb3 & Hkc3 & Hkg3).
  - rewrite Hkc2, Hkc1. exact Hfc1.
  - intros i Hi. rewrite Hkg2, Hkg1. rewrite <- (Hfg (S i) ltac:(lia)). f_equal. lia.
  - rewrite Hn2, Hn1. lia.
  - exists y3. split; [|split; [exact HA3|split; [rewrite Hn3, Hn2, Hn1; reflexivity|split; [rewrite Hb3, Hb2; exact Hb1|split]]]].
    + unfold cycle_evs. cbn [sys_run]. rewrite E1.
      rewrite (sys_run_app cfg _ [SAdv d] y1 _ y2 [wake_trace cfg (gw_now (y_gw y) + ms) id msgs] y3 E2).
      * rewrite Hn1. reflexivity.
      * cbn [sys_run]. rewrite E3. reflexivity.
    + rewrite Hkc3, Hkc2, Hkc1. reflexivity.
    + rewrite Hkg3, Hkg2, Hkg1. lia.
Qed.

(* the next cycles: the client is awake (Sleep sends nothing), the gateway has regarded it as asleep all along;
   messages buffered since the last wake-up (ms0) are flushed together with those of this cycle *)
Theorem C26_sleep_cycle_again cfg y subs ms0 id ms msgs d :
  AwakeS cfg y subs (map bm_sn ms0) -> Forall (bm_ok subs) ms0 -> Forall (bm_ok subs) msgs ->
  N.of_nat (length (ms0 ++ msgs)) <= 9998 -> okb (k_cid (e_cl cfg)) = true ->
  nth_fault (e_c2g cfg) (y_c2g_k y) = FDeliver ->
  (forall i, (i <= length (ms0 ++ msgs))%nat -> nth_fault (e_g2c cfg) (y_g2c_k y + i) = FDeliver) ->
  ms <= d ->
  let t := gw_now (y_gw y) in
  exists y', sys_run cfg y (cycle_evs id ms msgs d) =
    ([] :: map (fun m => [SoBS t (bm_mq m)]) msgs ++ [wake_trace cfg (t + ms) id (ms0 ++ msgs)], y') /\
    AwakeS cfg y' subs [] /\ gw_now (y_gw y') = t + d /\ y_br y' = y_br y /\
    y_c2g_k y' = S (y_c2g_k y) /\ y_g2c_k y' = (y_g2c_k y + S (length (ms0 ++ msgs)))%nat.
Proof.
  intros HA Hms0 Hmsgs Hlen Hokc Hfc Hfg Hd t. subst t.
  destruct (e2e_sleep_again cfg y subs _ id ms HA) as (y1 & E1 & HS1 & Hn1 & Hb1 & Hkc1 & Hkg1).
  destruct (asleep_bpubs cfg subs id _ msgs y1 ms0 HS1 Hmsgs) as (y2 & E2 & HS2 & Hn2 & Hb2 & Hkc2 & Hkg2).
  destruct (e2e_wake_up cfg y2 subs id _ (ms0 ++ msgs) d HS2 ltac:(apply Forall_app; split; assumption) Hokc Hlen)
    as (y3 & E3 & HA3 & Hn3 & Hb3 & Hkc3 & Hkg3).
  - rewrite Hkc2, Hkc1. exact Hfc.
  - intros i Hi. rewrite Hkg2, Hkg1. exact (Hfg i Hi).
  - rewrite Hn2, Hn1. lia.
  - exists y3. split; [|split; [exact HA3|split; [rewrite Hn3, Hn2, Hn1; reflexivity|split; [rewrite Hb3, Hb2; exact Hb1|split]]]].
    + unfold cycle_evs. cbn [sys_run]. rewrite E1.
      rewrite (sys_run_app cfg _ [SAdv d] y1 _ y2 [wake_trace cfg (gw_now (y_gw y) + ms) id (ms0 ++ msgs)] y3 E2).
      * rewrite Hn1. reflexivity.
      * cbn [sys_run]. rewrite E3. reflexivity.
    + rewrite Hkc3, Hkc2, Hkc1. reflexivity.
    + rewrite Hkg3, Hkg2, Hkg1. reflexivity.
Qed.

(* ------------------------------------------------------------------ 5. what the traces say *)

Lemma flat_map_map_nil {A B C} (f : B -> list C) (g : A -> B) l : (forall x, f (g x) = []) -> flat_map f (map g l) = [].
Proof. intros H. induction l as [|x l IH]; [reflexivity|]. cbn [map flat_map]. rewrite H, IH. reflexivity. Qed.
Lemma flat_map_map_one {A B C} (f : B -> list C) (g : A -> B) (h : A -> C) l :
  (forall x, f (g x) = [h x]) -> flat_map f (map g l) = map h l.
Proof. intros H. induction l as [|x l IH]; [reflexivity|]. cbn [map flat_map]. rewrite H, IH. reflexivity. Qed.

(* the handler invocation a message must cause: handler of its subscription, topic, payload, QoS 0, flags, message ID *)
Definition bm_rec (m : bmsg) : N * bytes * bytes * N * bool * bool * N :=
  (sub_id (bm_sub m), bm_topic m, bm_payload m, 0, bm_retain m, bm_dup m, bm_mid m).

Lemma wake_trace_cbs cfg T id ms : cbs_full (wake_trace cfg T id ms) = map bm_rec ms.
Proof.
  unfold wake_trace, cbs_full. cbn [flat_map app]. rewrite flat_map_app. cbn [flat_map app].
  rewrite flat_map_app. cbn [flat_map]. rewrite (flat_map_map_nil _ _ ms) by reflexivity.
  rewrite (flat_map_map_one _ (bm_cb T) bm_rec ms) by reflexivity. rewrite app_nil_r. reflexivity.
Qed.
Lemma wake_trace_rets cfg T id ms : rets_of (wake_trace cfg T id ms) = [(id, ROk)].
Proof.
  unfold wake_trace, rets_of. cbn [flat_map app]. rewrite flat_map_app. cbn [flat_map app].
  rewrite flat_map_app. cbn [flat_map]. rewrite (flat_map_map_nil _ _ ms) by reflexivity.
  rewrite (flat_map_map_nil _ (bm_cb T) ms) by reflexivity. reflexivity.
Qed.
Lemma wake_trace_brs cfg T id ms : brs_of (wake_trace cfg T id ms) = [].
Proof.
  unfold wake_trace, brs_of. cbn [flat_map app]. rewrite flat_map_app. cbn [flat_map app].
  rewrite flat_map_app. cbn [flat_map]. rewrite (flat_map_map_nil _ _ ms) by reflexivity.
  rewrite (flat_map_map_nil _ (bm_cb T) ms) by reflexivity. reflexivity.
Qed.
(* the wake-up trace begins with the PINGREQ: every handler invocation comes after it *)
Lemma wake_trace_head cfg T id ms : exists rest,
  wake_trace cfg T id ms = SoC2G T FDeliver (pack (Pingreq (k_cid (e_cl cfg)))) :: rest.
Proof. eexists. reflexivity. Qed.

(* C26 for one sleep cycle, as properties of the run: the traces of the call and of the messages contain no handler
   invocation and no return; the trace of the wake-up begins with PINGREQ at now + ms, invokes for every message, in
   order, exactly once, the handler of its subscription with its topic, payload and flags, and Sleep returns nil once;
   the broker receives nothing *)
Corollary C26_sleep_cycle_delivery cfg y subs id ms msgs d :
  QuietS cfg y subs -> 1000 <= ms -> ms / 1000 < 65536 ->
  gw_keepalive (y_gw y) = 0 \/ ms / 1000 <= gw_keepalive (y_gw y) ->
  Forall (bm_ok subs) msgs -> N.of_nat (length msgs) <= 9998 -> okb (k_cid (e_cl cfg)) = true ->
  nth_fault (e_c2g cfg) (y_c2g_k y) = FDeliver -> nth_fault (e_c2g cfg) (S (y_c2g_k y)) = FDeliver ->
  (forall i, (i <= S (length msgs))%nat -> nth_fault (e_g2c cfg) (y_g2c_k y + i) = FDeliver) ->
  ms <= d ->
  exists o0 os ow rest y', sys_run cfg y (cycle_evs id ms msgs d) = (o0 :: os ++ [ow], y') /\
    length os = length msgs /\
    cbs_full o0 = [] /\ rets_of o0 = [] /\ brs_of o0 = [] /\
    Forall (fun o => cbs_full o = [] /\ rets_of o = [] /\ brs_of o = []) os /\
    ow = SoC2G (gw_now (y_gw y) + ms) FDeliver (pack (Pingreq (k_cid (e_cl cfg)))) :: rest /\
    cbs_full ow = map bm_rec msgs /\ rets_of ow = [(id, ROk)] /\ brs_of ow = [] /\
    AwakeS cfg y' subs [].
Proof.
  intros HQ Hms Hdur Hnp Hmsgs Hlen Hokc Hfc0 Hfc1 Hfg Hd.
  destruct (C26_sleep_cycle cfg y subs id ms msgs d HQ Hms Hdur Hnp Hmsgs Hlen Hokc Hfc0 Hfc1 Hfg Hd)
    as (y' & E & HA & _).
  destruct (wake_trace_head cfg (gw_now (y_gw y) + ms) id msgs) as (rest & Er).
  eexists. eexists. eexists. exists rest, y'. split; [exact E|].
  split; [apply map_length|]. split; [reflexivity|]. split; [reflexivity|]. split; [reflexivity|].
  split; [|split; [exact Er|split; [apply wake_trace_cbs|split; [apply wake_trace_rets|split; [apply wake_trace_brs|exact HA]]]]].
  apply Forall_map. apply Forall_forall. intros m _. repeat split.
Qed.

(* ------------------------------------------------------------------ 6. repeated sleep cycles *)

Record cycle := { cy_id : N; cy_ms : N; cy_msgs : list bmsg; cy_d : N }.
Definition cycle_ok (subs : list subn) (cy : cycle) : Prop :=
  Forall (bm_ok subs) (cy_msgs cy) /\ N.of_nat (length (cy_msgs cy)) <= 9998 /\ cy_ms cy <= cy_d cy.
Definition cy_evs (cy : cycle) : list sys_event := cycle_evs (cy_id cy) (cy_ms cy) (cy_msgs cy) (cy_d cy).
(* the traces of a cycle that starts at time t in the awake state *)
Definition cy_trace (cfg : e2e_cfg) (t : N) (cy : cycle) : list (list sys_out) :=
  [] :: map (fun m => [SoBS t (bm_mq m)]) (cy_msgs cy) ++ [wake_trace cfg (t + cy_ms cy) (cy_id cy) (cy_msgs cy)].
Fixpoint cys_trace (cfg : e2e_cfg) (t : N) (cys : list cycle) : list (list sys_out) :=
  match cys with
  | [] => []
  | cy :: r => cy_trace cfg t cy ++ cys_trace cfg (t + cy_d cy) r
  end.

Lemma lossless_nth cfg : lossless cfg -> (forall k, nth_fault (e_c2g cfg) k = FDeliver) /\ (forall k, nth_fault (e_g2c cfg) k = FDeliver).
Proof. intros [H1 H2]. rewrite H1, H2. split; intros k; apply nth_fault_nil. Qed.

Theorem C26_sleep_cycles_again cfg subs cys : lossless cfg -> okb (k_cid (e_cl cfg)) = true ->
  Forall (cycle_ok subs) cys -> forall y, AwakeS cfg y subs [] ->
  exists y', sys_run cfg y (flat_map cy_evs cys) = (cys_trace cfg (gw_now (y_gw y)) cys, y') /\ AwakeS cfg y' subs [].
Proof.
  intros Hll Hokc Hcys. destruct (lossless_nth cfg Hll) as [Hc Hg].
  induction Hcys as [|cy cys (Hmsgs & Hlen & Hd) _ IH]; intros y HA.
  - exists y. split; [reflexivity|exact HA].
  - destruct (C26_sleep_cycle_again cfg y subs [] (cy_id cy) (cy_ms cy) (cy_msgs cy) (cy_d cy) HA ltac:(constructor) Hmsgs
                Hlen Hokc (Hc _) ltac:(intros; apply Hg) Hd) as (y1 & E1 & HA1 & Hn1 & _).
    destruct (IH y1 HA1) as (y2 & E2 & HA2).
    exists y2. split; [|exact HA2]. cbn [flat_map cys_trace].
    rewrite (sys_run_app cfg (cy_evs cy) _ _ _ _ _ _ E1 E2). rewrite Hn1. reflexivity.
Qed.

(* the first cycle from the connected quiescent state (DISCONNECT exchange), any number of further cycles *)
Theorem C26_sleep_cycles cfg y subs cy cys : lossless cfg -> okb (k_cid (e_cl cfg)) = true ->
  QuietS cfg y subs -> 1000 <= cy_ms cy -> cy_ms cy / 1000 < 65536 ->
  gw_keepalive (y_gw y) = 0 \/ cy_ms cy / 1000 <= gw_keepalive (y_gw y) ->
  cycle_ok subs cy -> Forall (cycle_ok subs) cys ->
  let t := gw_now (y_gw y) in
  exists y', sys_run cfg y (cy_evs cy ++ flat_map cy_evs cys) =
    (([SoC2G t FDeliver (pack (Disconnect (cy_ms cy / 1000))); SoG2C t FDeliver (pack (Disconnect 0))] ::
      map (fun m => [SoBS t (bm_mq m)]) (cy_msgs cy) ++ [wake_trace cfg (t + cy_ms cy) (cy_id cy) (cy_msgs cy)]) ++
     cys_trace cfg (t + cy_d cy) cys, y') /\
    AwakeS cfg y' subs [].
Proof.
  intros Hll Hokc HQ Hms Hdur Hnp (Hmsgs & Hlen & Hd) Hcys t. subst t. destruct (lossless_nth cfg Hll) as [Hc Hg].
  destruct (C26_sleep_cycle cfg y subs (cy_id cy) (cy_ms cy) (cy_msgs cy) (cy_d cy) HQ Hms Hdur Hnp Hmsgs Hlen Hokc
              (Hc _) (Hc _) ltac:(intros; apply Hg) Hd) as (y1 & E1 & HA1 & Hn1 & _).
  destruct (C26_sleep_cycles_again cfg subs cys Hll Hokc Hcys y1 HA1) as (y2 & E2 & HA2).
  exists y2. split; [|exact HA2]. rewrite (sys_run_app cfg (cy_evs cy) _ _ _ _ _ _ E1 E2). rewrite Hn1. reflexivity.
Qed.

(* ------------------------------------------------------------------ 7. messages arriving at different times of the sleep *)

(* each message after a delay; the delays add up to less than the rest of the sleep *)
Definition timed_evs (l : list (N * bmsg)) : list sys_event :=
  flat_map (fun dm => [SAdv (fst dm); SBpub (bm_mq (snd dm))]) l.
Definition tsum (l : list (N * bmsg)) : N := fold_right (fun dm a => fst dm + a) 0 l.
Fixpoint timed_trace (t : N) (l : list (N * bmsg)) : list (list sys_out) :=
  match l with
  | [] => []
  | dm :: r => [] :: [SoBS (t + fst dm) (bm_mq (snd dm))] :: timed_trace (t + fst dm) r
  end.

Lemma asleep_timed cfg subs id T l : forall y ms0,
  Sleeping cfg y subs id T (map bm_sn ms0) -> Forall (bm_ok subs) (map snd l) -> gw_now (y_gw y) + tsum l < T ->
  exists y', sys_run cfg y (timed_evs l) = (timed_trace (gw_now (y_gw y)) l, y') /\
    Sleeping cfg y' subs id T (map bm_sn (ms0 ++ map snd l)) /\ gw_now (y_gw y') = gw_now (y_gw y) + tsum l /\
    y_br y' = y_br y /\ y_c2g_k y' = y_c2g_k y /\ y_g2c_k y' = y_g2c_k y.
Proof.
  induction l as [|[d m] l IH]; intros y ms0 HS Hms Hsum.
  - exists y. cbn [map tsum fold_right]. rewrite app_nil_r, N.add_0_r. split; [reflexivity|]. split; [exact HS|]. repeat split.
  - cbn [map snd] in Hms. inversion Hms as [|? ? Hm Hms']; subst. cbn [tsum fold_right fst] in Hsum. fold (tsum l) in Hsum.
    destruct (e2e_sleep_wait cfg y subs id T _ d HS ltac:(lia)) as (y0 & E0 & HS0 & Hn0 & Hb0 & Hkc0 & Hkg0).
    destruct (e2e_bpub_while_asleep_q0 cfg y0 subs id T _ m HS0 Hm) as (y1 & E1 & HS1 & Hn1 & Hb1 & Hkc1 & Hkg1).
    change (map bm_sn ms0 ++ [bm_sn m]) with (map bm_sn ms0 ++ map bm_sn [m]) in HS1. rewrite <- map_app in HS1.
    destruct (IH y1 (ms0 ++ [m]) HS1 Hms' ltac:(rewrite Hn1, Hn0; lia)) as (y2 & E2 & HS2 & Hn2 & Hb2 & Hkc2 & Hkg2).
    rewrite <- app_assoc in HS2. cbn [app] in HS2.
    exists y2. split; [|split; [exact HS2|split; [|split; [rewrite Hb2, Hb1; exact Hb0|split]]]].
    + cbn [timed_evs flat_map app sys_run fst snd]. fold (timed_evs l). rewrite E0, E1, E2, Hn1, Hn0. reflexivity.
    + cbn [tsum fold_right fst]. fold (tsum l). rewrite Hn2, Hn1, Hn0. lia.
    + rewrite Hkc2, Hkc1; exact Hkc0.
    + rewrite Hkg2, Hkg1; exact Hkg0.
Qed.

Theorem C26_sleep_cycle_timed cfg y subs id ms l d :
  QuietS cfg y subs -> 1000 <= ms -> ms / 1000 < 65536 ->
  gw_keepalive (y_gw y) = 0 \/ ms / 1000 <= gw_keepalive (y_gw y) ->
  Forall (bm_ok subs) (map snd l) -> N.of_nat (length l) <= 9998 -> okb (k_cid (e_cl cfg)) = true ->
  nth_fault (e_c2g cfg) (y_c2g_k y) = FDeliver -> nth_fault (e_c2g cfg) (S (y_c2g_k y)) = FDeliver ->
  (forall i, (i <= S (length l))%nat -> nth_fault (e_g2c cfg) (y_g2c_k y + i) = FDeliver) ->
  tsum l < ms -> ms <= tsum l + d ->
  let t := gw_now (y_gw y) in
  exists y', sys_run cfg y (SCall id (ASleep ms) :: timed_evs l ++ [SAdv d]) =
    ([SoC2G t FDeliver (pack (Disconnect (ms / 1000))); SoG2C t FDeliver (pack (Disconnect 0))] ::
     timed_trace t l ++ [wake_trace cfg (t + ms) id (map snd l)], y') /\
    AwakeS cfg y' subs [] /\ gw_now (y_gw y') = t + tsum l + d /\ y_br y' = y_br y.
Proof.
  intros HQ Hms Hdur Hnp Hmsgs Hlen Hokc Hfc0 Hfc1 Hfg Hlt Hd t. subst t.
  destruct (e2e_sleep_call cfg y subs id ms HQ Hms Hdur Hnp Hfc0 ltac:(rewrite <- (Hfg O ltac:(lia)); f_equal; lia))
    as (y1 & E1 & HS1 & Hn1 & Hb1 & Hkc1 & Hkg1).
  destruct (asleep_timed cfg subs id _ l y1 [] HS1 Hmsgs ltac:(rewrite Hn1; lia)) as (y2 & E2 & HS2 & Hn2 & Hb2 & Hkc2 & Hkg2).
  cbn [app] in HS2.
  destruct (e2e_wake_up cfg y2 subs id _ (map snd l) d HS2 Hmsgs Hokc ltac:(rewrite map_length; exact Hlen))
    as (y3 & E3 & HA3 & Hn3 & Hb3 & _).
  - rewrite Hkc2, Hkc1. exact Hfc1.
  - intros i Hi. rewrite map_length in Hi. rewrite Hkg2, Hkg1. rewrite <- (Hfg (S i) ltac:(lia)). f_equal. lia.
  - rewrite Hn2, Hn1. lia.
  - exists y3. split; [|split; [exact HA3|split; [rewrite Hn3, Hn2, Hn1; reflexivity|rewrite Hb3, Hb2; exact Hb1]]].
    cbn [sys_run]. rewrite E1.
    rewrite (sys_run_app cfg _ [SAdv d] y1 _ y2 [wake_trace cfg (gw_now (y_gw y) + ms) id (map snd l)] y3 E2).
    + rewrite Hn1. reflexivity.
    + cbn [sys_run]. rewrite E3. reflexivity.
Qed.

(* ------------------------------------------------------------------ 8. concrete instances (the hypotheses are satisfiable) and observations *)

Definition sl_m1 : bmsg := {| bm_dup := false; bm_retain := false; bm_sub := loss_sub; bm_mid := 0; bm_payload := [7] |}.
Definition sl_m2 : bmsg := {| bm_dup := false; bm_retain := true; bm_sub := loss_sub; bm_mid := 0; bm_payload := [8] |}.
Definition sl_m3 : bmsg := {| bm_dup := true; bm_retain := false; bm_sub := loss_sub; bm_mid := 5; bm_payload := [] |}.
Definition sl_cy1 : cycle := {| cy_id := 3; cy_ms := 30000; cy_msgs := [sl_m1; sl_m2]; cy_d := 40000 |}.
Definition sl_cy2 : cycle := {| cy_id := 4; cy_ms := 5000; cy_msgs := [sl_m3]; cy_d := 5000 |}.
Definition sl_cy3 : cycle := {| cy_id := 5; cy_ms := 0; cy_msgs := []; cy_d := 1 |}.

Lemma sl_m_ok m : In m [sl_m1; sl_m2; sl_m3] -> bm_ok [loss_sub] m.
Proof.
  intros [<-|[<-|[<-|[]]]]; (split; [left; reflexivity|]; split; [cbn [bm_mid sl_m1 sl_m2 sl_m3]; lia|reflexivity]).
Qed.

(* the first cycle after Connect and Subscribe "ab" (ecfg0: keep-alive 60 s): Sleep(30 s), two messages, 40 s pass;
   then Sleep(5 s) with one message, and Sleep(0) *)
Example sleep_cycles_instance :
  exists y', sys_run ecfg0 loss_y0 (cy_evs sl_cy1 ++ flat_map cy_evs [sl_cy2; sl_cy3]) =
    ([[SoC2G 0 FDeliver [4; 24; 0; 30]; SoG2C 0 FDeliver [2; 24]];
      [SoBS 0 (MqPublish false 0 false [97; 98] 0 [7])];
      [SoBS 0 (MqPublish false 0 true [97; 98] 0 [8])];
      [SoC2G 30000 FDeliver [4; 22; 99; 49];
       SoG2C 30000 FDeliver [8; 12; 2; 97; 98; 0; 0; 7]; SoG2C 30000 FDeliver [8; 12; 18; 97; 98; 0; 0; 8];
       SoG2C 30000 FDeliver [2; 23];
       SoCb 30000 2 [97; 98] [7] 0 false false 0; SoCb 30000 2 [97; 98] [8] 0 true false 0;
       SoRet 30000 3 ROk];
      [];
      [SoBS 40000 (MqPublish true 0 false [97; 98] 5 [])];
      [SoC2G 45000 FDeliver [4; 22; 99; 49];
       SoG2C 45000 FDeliver [7; 12; 130; 97; 98; 0; 5]; SoG2C 45000 FDeliver [2; 23];
       SoCb 45000 2 [97; 98] [] 0 false true 5;
       SoRet 45000 4 ROk];
      [];
      [SoC2G 45000 FDeliver [4; 22; 99; 49]; SoG2C 45000 FDeliver [2; 23]; SoRet 45000 5 ROk]], y') /\
    AwakeS ecfg0 y' [loss_sub] [].
Proof.
  destruct (C26_sleep_cycles ecfg0 loss_y0 [loss_sub] sl_cy1 [sl_cy2; sl_cy3]) as (y' & E & HA).
  - split; reflexivity.
  - reflexivity.
  - exact loss_y0_quiet.
  - cbn [cy_ms sl_cy1]. lia.
  - cbn [cy_ms sl_cy1]. lia.
  - right. vm_compute. intros H. discriminate H.
  - split; [|split].
    + constructor; [apply sl_m_ok; left; reflexivity|]. constructor; [apply sl_m_ok; right; left; reflexivity|constructor].
    + cbn [length cy_msgs sl_cy1]. lia.
    + cbn [cy_ms cy_d sl_cy1]. lia.
  - constructor; [|constructor; [|constructor]].
    + split; [|split].
      * constructor; [apply sl_m_ok; right; right; left; reflexivity|constructor].
      * cbn [length cy_msgs sl_cy2]. lia.
      * cbn [cy_ms cy_d sl_cy2]. lia.
    + split; [constructor|]. split; [cbn [length cy_msgs sl_cy3]; lia|cbn [cy_ms cy_d sl_cy3]; lia].
  - exists y'. split; [|exact HA]. rewrite E. f_equal.
Qed.

(* the same, computed *)
Example sleep_cycles_test :
  map cbs_of (fst (sys_run ecfg0 loss_y0 (cy_evs sl_cy1 ++ flat_map cy_evs [sl_cy2; sl_cy3]))) =
    [[]; []; []; [(2, [97; 98], [7]); (2, [97; 98], [8])]; []; []; [(2, [97; 98], [])]; []; []] /\
  map rets_of (fst (sys_run ecfg0 loss_y0 (cy_evs sl_cy1 ++ flat_map cy_evs [sl_cy2; sl_cy3]))) =
    [[]; []; []; [(3, ROk)]; []; []; [(4, ROk)]; []; [(5, ROk)]].
Proof. vm_compute. split; reflexivity. Qed.

(* Observations (vm_compute on ecfg0; none of them contradicts a theorem above, they delimit the hypotheses).

   (a) 1000 <= ms is necessary: Sleep(500 ms) sends DISCONNECT with duration 0, which is the ordinary DISCONNECT: the
       broker connection is closed and the session ends; the client "sleeps", its wake-up PINGREQ (at 500) is not answered,
       and Sleep returns a timeout error one minute later. *)
Example sleep_subsecond_disconnects :
  fst (sys_run ecfg0 loss_y0 [SCall 3 (ASleep 500); SAdv 2000; SAdv 70000]) =
    [[SoC2G 0 FDeliver [2; 24]; SoBR 0 MqDisconnect; SoG2C 0 FDeliver [2; 24]];
     [SoGwEnd 100; SoC2G 500 FDeliver [4; 22; 99; 49]];
     [SoRet 60500 3 RTimeout]].
Proof. vm_compute. reflexivity. Qed.

(* (b) the no-pinger hypothesis is not needed for the cycle to work: Sleep(90 s) with keep-alive 60 s - the gateway's sleep
       pinger sends MQTT PINGREQ at 60 s; the wake-up is as above *)
Example sleep_longer_than_keepalive :
  fst (sys_run ecfg0 loss_y0 [SCall 3 (ASleep 90000); SBpub (bm_mq sl_m1); SAdv 100000]) =
    [[SoC2G 0 FDeliver [4; 24; 0; 90]; SoG2C 0 FDeliver [2; 24]];
     [SoBS 0 (MqPublish false 0 false [97; 98] 0 [7])];
     [SoBR 60000 MqPingreq; SoBS 60000 MqPingresp;
      SoC2G 90000 FDeliver [4; 22; 99; 49]; SoG2C 90000 FDeliver [8; 12; 2; 97; 98; 0; 0; 7]; SoG2C 90000 FDeliver [2; 23];
      SoCb 90000 2 [97; 98] [7] 0 false false 0; SoRet 90000 3 ROk]].
Proof. vm_compute. reflexivity. Qed.

(* (c) after the wake-up cycle (AwakeS: the client awake, the gateway regards it as asleep) a call that needs an answer
       relayed from the BROKER fails: Publish QoS 1 reaches the broker, but the gateway buffers the PUBACK for the "sleeping"
       client; the client retransmits RetryCount times (the broker receives the message four times) and the call returns
       ErrNoMoreRetries.  (Ping succeeds: the gateway answers a PINGREQ of a sleeping client itself; Publish QoS 0 succeeds.) *)
Example publish_q1_after_wakeup_fails :
  fst (sys_run ecfg0 loss_y0 [SCall 3 (ASleep 30000); SAdv 30000; SCall 4 (APublish [99; 100] 1 false [1]); SAdv 50000]) =
    [[SoC2G 0 FDeliver [4; 24; 0; 30]; SoG2C 0 FDeliver [2; 24]];
     [SoC2G 30000 FDeliver [4; 22; 99; 49]; SoG2C 30000 FDeliver [2; 23]; SoRet 30000 3 ROk];
     [SoC2G 30000 FDeliver [8; 12; 34; 99; 100; 0; 2; 1]; SoBR 30000 (MqPublish false 1 false [99; 100] 2 [1]);
      SoBS 30000 (MqPuback 2)];
     [SoC2G 40000 FDeliver [8; 12; 162; 99; 100; 0; 2; 1]; SoBR 40000 (MqPublish true 1 false [99; 100] 2 [1]);
      SoBS 40000 (MqPuback 2);
      SoC2G 50000 FDeliver [8; 12; 162; 99; 100; 0; 2; 1]; SoBR 50000 (MqPublish true 1 false [99; 100] 2 [1]);
      SoBS 50000 (MqPuback 2);
      SoC2G 60000 FDeliver [8; 12; 162; 99; 100; 0; 2; 1]; SoBR 60000 (MqPublish true 1 false [99; 100] 2 [1]);
      SoBS 60000 (MqPuback 2); SoRet 70000 4 RNoRetries]].
Proof. vm_compute. reflexivity. Qed.

(* (d) QoS 0 only: a QoS 1 message for a client that sleeps longer than RetryDelay (10 s) is put into the buffer once more
       at every retransmission; at the wake-up (30 s) four copies are flushed and the handler runs four times *)
Example sleep_q1_duplicates :
  cbs_of (concat (fst (sys_run ecfg0 loss_y0
    [SCall 3 (ASleep 30000); SBpub (MqPublish false 1 false [97; 98] 1000 [7]); SAdv 30000]))) =
    [(2, [97; 98], [7]); (2, [97; 98], [7]); (2, [97; 98], [7]); (2, [97; 98], [7])].
Proof. vm_compute. reflexivity. Qed.

(* ------------------------------------------------------------------ 9. assumptions *)

Print Assumptions e2e_sleep_call.
Print Assumptions e2e_bpub_while_asleep_q0_gen.
Print Assumptions e2e_bpub_while_asleep_q0.
Print Assumptions e2e_sleep_wait.
Print Assumptions e2e_wake_up.
Print Assumptions e2e_wake_up_0.
Print Assumptions e2e_wake_up_1.
Print Assumptions e2e_bpub_while_awake_q0.
Print Assumptions e2e_sleep_again.
Print Assumptions C26_sleep_cycle.
Print Assumptions C26_sleep_cycle_delivery.
Print Assumptions C26_sleep_cycle_again.
Print Assumptions C26_sleep_cycles_again.
Print Assumptions C26_sleep_cycles.
Print Assumptions C26_sleep_cycle_timed.
Print Assumptions sleep_cycles_instance.
Print Assumptions sleep_cycles_test.
Print Assumptions sleep_subsecond_disconnects.
Print Assumptions sleep_longer_than_keepalive.
Print Assumptions publish_q1_after_wakeup_fails.
Print Assumptions sleep_q1_duplicates.
