(* System/ComposeSleepQ1.v — C26 / C11 end to end, QoS 1: ONE broker PUBLISH with QoS 1 on a subscribed short topic
   name during a sleep that ends before the gateway's first retransmission, as exact traces, for ALL configurations,
   states, subscriptions, durations, message IDs and payloads in the stated ranges.  Continues ComposeSleep.v (Sleeping,
   AwakeS, e2e_sleep_call); link hypotheses positional (nth_fault at the link counters; lossless cfg implies them).

     SleepingQ1 cfg y subs id T pub mid Tr   the client asleep (wake-up timer at T, Sleep call id blocked); the gateway session
                                     asleep with exactly one transaction: the broker PUBLISH (packet pub, message ID mid)
                                     awaiting PUBACK, not retransmitted yet, retry timer at Tr; the buffer is [that packet]
     e2e_bpub_while_asleep_q1        Sleeping [] --broker PUBLISH QoS 1--> only SoBS; SleepingQ1 with Tr = now + RetryDelay
     e2e_wake_up_q1                  SleepingQ1, T < Tr, SAdv d with T <= now + d: at T the exact trace wake_trace_q1 =
                                     C2G PINGREQ (client ID); G2C PUBLISH (QoS 1, flags as the broker sent them); G2C PINGRESP;
                                     C2G PUBACK; the handler (once); SoRet T id ROk; BR MQTT PUBACK mid.
                                     (The gateway writes PUBLISH and PINGRESP in one step; the client's PUBACK is handled by the
                                     gateway AFTER the flush, when the session is asleep again - it is relayed all the same, and
                                     Sleep has returned before the broker sees the PUBACK.)  End state AwakeS ... []: no gateway
                                     transaction, no timer, empty buffer
     C26_sleep_cycle_q1_message      QuietS; Sleep(ms), 1000 <= ms < RetryDelay of the gateway; the message; SAdv d, ms <= d
     sleep_q1_instance / _test       concrete instance (ecfg0); sleep_q1_at_retry_duplicates: ms = RetryDelay gives two copies

   The component lemmas are in ComposeSleepQ1_aux.v. *)
From stdpp Require Import base option list numbers fin_maps nmap.
From Coq Require Import Lia ZArith ZifyN ZifyNat ZifyBool.
From RecordUpdate Require Import RecordSet.
From Verif.Base Require Import Bytes BytesProofs.
From Verif.Codec Require Import Packets Decode Encode EncodeProofs.
From Verif.Checkers Require Import ChkCodec.
From Verif.Topics Require Import Predefined.
From Verif.Gateway Require Import GwTypes GwStep GwWf.
From Verif.Match Require Import Match MatchProofs.
From Verif.Client Require Import ClTypes ClStep Sound_Client.
From Verif.System Require Import Compose RoutingProofs ComposeProofs_aux ComposeProofs ComposeProofs2_aux ComposeProofs2
  ComposeLoss_aux ComposeLoss ComposeSleep_aux ComposeSleep ComposeSleepQ1_aux.
Import RecordSetNotations.
Open Scope N_scope.
Ltac Zify.zify_post_hook ::= Z.div_mod_to_equations.

(* ------------------------------------------------------------------ definitions *)

(* the MQTT-SN form of a broker PUBLISH (QoS 1) on a short topic name: pub_sn of ComposeLoss.v *)

(* the Sleep call id is blocked, the client asleep with its wake-up timer at T; the gateway session is asleep and holds
   exactly one transaction - a broker PUBLISH (QoS 1, packet pub, message ID mid) awaiting PUBACK, never retransmitted,
   retry timer due at Tr - whose packet is the only entry of the sleep buffer *)
Definition SleepingQ1 (cfg : e2e_cfg) (y : sys) (subs : list subn) (id T : N) (pub : packet) (mid Tr : N) : Prop :=
  (exists g n ms sq, ClSt (y_cl y) Asleep (sl_objs g (CxSleep id CtSleeping n ms)) (sl_byt g) [tm_wake T sq g]) /\
  (exists o sq, GwPd (y_gw y) Asleep [(Some o, pub)] o pub mid Tr sq) /\
  Linked cfg y /\ gw_now (y_gw y) <= T /\ SubsIn y subs.

(* ------------------------------------------------------------------ 1. the broker PUBLISH (QoS 1) while the client sleeps *)

Theorem e2e_bpub_while_asleep_q1 cfg y subs id T s dup retain mid payload :
  Sleeping cfg y subs id T [] -> In s subs ->
  let t := gw_now (y_gw y) in
  let topic := sub_topic s in
  exists y', sys_step cfg y (SBpub (MqPublish dup 1 retain topic mid payload)) =
    (y', [SoBS t (MqPublish dup 1 retain topic mid payload)]) /\
    SleepingQ1 cfg y' subs id T (pub_sn dup retain topic mid payload) mid (t + retry_delay (e_gw cfg)) /\
    gw_now (y_gw y') = t /\ y_br y' = y_br y /\ y_c2g_k y' = y_c2g_k y /\ y_g2c_k y' = y_g2c_k y.
Proof.
  intros (HC & HG & (Hnow & Hcid & Hbc & Heof) & HT & HSub) Hin t topic. subst t topic.
  pose proof HSub as (_ & _ & (Hf & _)). rewrite Forall_forall in Hf. destruct (topic_ok_spec _ (Hf s Hin)) as (Hs & _ & _).
  destruct y as [c g b k1 k2 eof]. cbn [y_cl y_gw y_br y_br_eof y_c2g_k y_g2c_k] in *.
  destruct (gw_asleep_bpub1 (e_gw cfg) g dup retain (sub_topic s) mid payload HG Hs) as (g1 & Eg1 & HD1 & (Hgn & Hgc & _)).
  eexists. split; [|split; [|split; [|split; [|split]]]].
  - unfold sys_step. sk. rewrite Hbc. rewrite pump_fuel_eq. sk. rewrite Eg1. sk. reflexivity.
  - unfold SleepingQ1. sk. split; [exact HC|]. split; [eexists; eexists; exact HD1|].
    split; [|split; [rewrite Hgn; exact HT|exact HSub]].
    unfold Linked. sk. split; [rewrite Hgn; exact Hnow|]. split; [rewrite Hgc; exact Hcid|]. split; assumption.
  - exact Hgn.
  - reflexivity.
  - reflexivity.
  - reflexivity.
Qed.

(* ------------------------------------------------------------------ 2. the wake-up before the first retransmission *)

(* what the model produces at the wake-up time T: PINGREQ (client ID); the gateway flushes the PUBLISH and sends
   PINGRESP (one step of the gateway); the client answers the PUBLISH with PUBACK and runs the handler, then takes the
   PINGRESP: Sleep returns nil; only then the gateway - asleep again - handles the PUBACK and relays it to the broker *)
Definition wake_trace_q1 (cfg : e2e_cfg) (T id : N) (s : subn) (dup retain : bool) (mid : N) (payload : bytes) : list sys_out :=
  [SoC2G T FDeliver (pack (Pingreq (k_cid (e_cl cfg))));
   SoG2C T FDeliver (pack (pub_sn dup retain (sub_topic s) mid payload));
   SoG2C T FDeliver (pack Pingresp);
   SoC2G T FDeliver (pack (Puback (encode_short (sub_topic s)) mid RC_ACCEPTED));
   SoCb T (sub_id s) (sub_topic s) payload 1 retain dup mid;
   SoRet T id ROk;
   SoBR T (MqPuback mid)].

Lemma adv_both_wake_q1 cfg y subs id T s dup retain mid payload Tr :
  SleepingQ1 cfg y subs id T (pub_sn dup retain (sub_topic s) mid payload) mid Tr -> In s subs ->
  1 <= mid < 65536 -> okb payload = true -> okb (k_cid (e_cl cfg)) = true -> T < Tr ->
  nth_fault (e_c2g cfg) (y_c2g_k y) = FDeliver -> nth_fault (e_c2g cfg) (S (y_c2g_k y)) = FDeliver ->
  nth_fault (e_g2c cfg) (y_g2c_k y) = FDeliver -> nth_fault (e_g2c cfg) (S (y_g2c_k y)) = FDeliver ->
  exists y', advance_both cfg y T = (y', wake_trace_q1 cfg T id s dup retain mid payload) /\
    AwakeS cfg y' subs [] /\ gw_now (y_gw y') = T /\ y_br y' = y_br y /\
    y_c2g_k y' = S (S (y_c2g_k y)) /\ y_g2c_k y' = S (S (y_g2c_k y)).
Proof.
  intros ((g0 & n & ms0 & sq & HC) & (o & sq' & HD) & (Hnow & Hcid & Hbc & Heof) & HT & (Hb & Hh & Hok)) Hin Hm Hp Hokc HTr
    Hfc0 Hfc1 Hfg0 Hfg1.
  pose proof Hok as (Hf & _). rewrite Forall_forall in Hf. destruct (topic_ok_spec _ (Hf s Hin)) as (Hs & Hw & _).
  pose proof (encode_short_lt _ Hs Hw) as He.
  assert (Hwfp : wf_pkt (pub_sn dup retain (sub_topic s) mid payload) = true)
    by (apply wf_pub_sn; [assumption|assumption|lia|assumption]).
  destruct y as [c g b k1 k2 eof]. cbn [y_cl y_gw y_br y_br_eof y_c2g_k y_g2c_k] in *.
  destruct (cl_wake_fire (e_cl cfg) c g0 id CtSleeping n ms0 T sq (T - cl_now c) HC Hokc ltac:(lia))
    as (c1 & Ec1 & HC1 & Hc1n & Hc1h & _).
  destruct (gw_adv_pd_ex (e_gw cfg) g _ _ _ _ _ _ _ T HD HT HTr) as (g1 & Eg1 & HD1 & Hg1n & Hg1c & _).
  destruct (gw_pd_pingreq (e_gw cfg) g1 _ _ _ _ _ _ (k_cid (e_cl cfg)) HD1
              ltac:(constructor; [exact Hwfp|constructor]) Hokc) as (g2 & Eg2 & HD2 & (Hg2n & Hg2c & _)).
  cbn [map snd app] in Eg2.
  destruct (cl_st_bpub1 (e_cl cfg) c1 _ _ _ _ dup retain (sub_topic s) mid payload HC1 Hs Hw ltac:(lia) Hp)
    as (c2 & Ec2 & HC2 & (Hc2n & Hc2h & _) & _).
  destruct (cl_ww_pingresp (e_cl cfg) c2 _ _ _ _ _ _ HC2) as (c3 & Ec3 & HC3 & (Hc3n & Hc3h & _) & _).
  destruct (gw_pd_puback (e_gw cfg) g2 _ _ _ _ _ (encode_short (sub_topic s)) HD2 He Hm) as (g3 & Eg3 & HG3 & (Hg3n & Hg3c & _)).
  eexists. split; [|split; [|split; [|split; [|split]]]].
  - unfold advance_both. sk. rewrite Ec1. sk. rewrite Hfc0. sk. rewrite Eg1. sk.
    rewrite pump_fuel_eq. sk. rewrite Eg2. sk. rewrite Hfg0. sk. rewrite Hfg1. sk.
    unfold pub_sn. rewrite Ec2. sk. rewrite Hfc1. sk. rewrite cl_outs_cb. sk.
    rewrite Ec3. sk. rewrite Eg3. sk. unfold broker_recv. rewrite Hbc. sk. rewrite Hbc. sk.
    rewrite Hc1h, Hh, (handle_set_subs subs s Hok Hin).
    unfold wake_trace_q1, pub_sn. rewrite ?Hg2n, ?Hc2n, ?Hg1n, ?Hc1n. reflexivity.
  - unfold AwakeS. sk. split; [exact HC3|]. split; [exact HG3|]. split; [|split; [exact Hb|split; [|exact Hok]]].
    + unfold Linked. sk. split; [rewrite Hc3n, Hc2n, Hc1n, Hg3n, Hg2n, Hg1n; reflexivity|].
      split; [rewrite Hg3c, Hg2c, Hg1c; exact Hcid|]. split; assumption.
    + sk. rewrite Hc3h, Hc2h, Hc1h. exact Hh.
  - sk. rewrite Hg3n, Hg2n. exact Hg1n.
  - reflexivity.
  - reflexivity.
  - reflexivity.
Qed.

Lemma deadline_sleeping_q1 cfg y subs id T pub mid Tr : SleepingQ1 cfg y subs id T pub mid Tr ->
  min_opt (cl_next_deadline (y_cl y)) (gw_next_deadline (y_gw y)) = Some (N.min T Tr).
Proof.
  intros ((g0 & n & ms0 & sq & HC) & (o & sq' & HD) & _).
  rewrite (cl_deadline_st _ _ _ _ _ HC), (gw_deadline_pd _ _ _ _ _ _ _ _ HD). reflexivity.
Qed.

(* SAdv d reaching the wake-up time T, which comes before the gateway's first retransmission (T < Tr) *)
Theorem e2e_wake_up_q1 cfg y subs id T s dup retain mid payload Tr d :
  SleepingQ1 cfg y subs id T (pub_sn dup retain (sub_topic s) mid payload) mid Tr -> In s subs ->
  1 <= mid < 65536 -> okb payload = true -> okb (k_cid (e_cl cfg)) = true -> T < Tr ->
  nth_fault (e_c2g cfg) (y_c2g_k y) = FDeliver -> nth_fault (e_c2g cfg) (S (y_c2g_k y)) = FDeliver ->
  nth_fault (e_g2c cfg) (y_g2c_k y) = FDeliver -> nth_fault (e_g2c cfg) (S (y_g2c_k y)) = FDeliver ->
  T <= gw_now (y_gw y) + d ->
  exists y', sys_step cfg y (SAdv d) = (y', wake_trace_q1 cfg T id s dup retain mid payload) /\
    AwakeS cfg y' subs [] /\ gw_now (y_gw y') = gw_now (y_gw y) + d /\ y_br y' = y_br y /\
    y_c2g_k y' = S (S (y_c2g_k y)) /\ y_g2c_k y' = S (S (y_g2c_k y)).
Proof.
  intros HS Hin Hm Hp Hokc HTr Hfc0 Hfc1 Hfg0 Hfg1 Hd.
  destruct (adv_both_wake_q1 cfg y subs id T s dup retain mid payload Tr HS Hin Hm Hp Hokc HTr Hfc0 Hfc1 Hfg0 Hfg1)
    as (y1 & E1 & HA1 & Hn1 & Hb1 & Hkc1 & Hkg1).
  pose proof HS as (_ & _ & HL & HT & _). pose proof HL as (Hnow & _).
  change (sys_step cfg y (SAdv d)) with (advance_to adv_fuel cfg y (sys_now y + d)).
  rewrite (sys_now_linked cfg y HL). destruct adv_fuel_eq as (f & ->).
  rewrite advance_to_S, (deadline_sleeping_q1 cfg y subs id T _ _ _ HS).
  assert (Emin : N.min T Tr = T) by lia. rewrite Emin.
  destruct (T <? gw_now (y_gw y) + d) eqn:Elt.
  - assert (Emax : N.max T (N.max (cl_now (y_cl y)) (gw_now (y_gw y))) = T) by lia. rewrite Emax, E1.
    rewrite (adv_to_awake cfg y1 subs [] _ f HA1).
    destruct (adv_both_awake cfg y1 subs [] (gw_now (y_gw y) + d) HA1 ltac:(apply N.ltb_lt in Elt; lia))
      as (y2 & E2 & HA2 & Hn2 & Hb2 & Hkc2 & Hkg2).
    rewrite E2, app_nil_r. exists y2. split; [reflexivity|]. split; [exact HA2|]. split; [exact Hn2|].
    split; [rewrite Hb2; exact Hb1|]. split; [rewrite Hkc2; exact Hkc1|rewrite Hkg2; exact Hkg1].
  - assert (gw_now (y_gw y) + d = T) as -> by (apply N.ltb_ge in Elt; lia). rewrite E1.
    exists y1. split; [reflexivity|]. split; [exact HA1|]. split; [exact Hn1|]. split; [exact Hb1|]. split; [exact Hkc1|exact Hkg1].
Qed.

(* ------------------------------------------------------------------ 3. the cycle *)

(* From a connected quiescent state with the subscriptions subs in place: Sleep(ms) with ms shorter than the gateway's
   RetryDelay (and at least one second, starting no sleep pinger); one broker message (QoS 1) on a subscribed topic; time
   passes to the wake-up or beyond.  The message is only buffered; at now + ms the exact trace wake_trace_q1: one handler
   invocation, one PUBACK of the client, exactly one MQTT PUBACK mid at the broker, Sleep returns nil; afterwards the client
   is awake and idle, the gateway session asleep with an empty buffer, no transaction and no timer (AwakeS). *)
Theorem C26_sleep_cycle_q1_message cfg y subs id ms s dup retain mid payload d :
  QuietS cfg y subs -> 1000 <= ms -> ms / 1000 < 65536 ->
  gw_keepalive (y_gw y) = 0 \/ ms / 1000 <= gw_keepalive (y_gw y) ->
  ms < retry_delay (e_gw cfg) ->
  In s subs -> 1 <= mid < 65536 -> okb payload = true -> okb (k_cid (e_cl cfg)) = true ->
  (forall i, (i <= 2)%nat -> nth_fault (e_c2g cfg) (y_c2g_k y + i) = FDeliver) ->
  (forall i, (i <= 2)%nat -> nth_fault (e_g2c cfg) (y_g2c_k y + i) = FDeliver) ->
  ms <= d ->
  let t := gw_now (y_gw y) in
  let m := MqPublish dup 1 retain (sub_topic s) mid payload in
  exists y', sys_run cfg y [SCall id (ASleep ms); SBpub m; SAdv d] =
    ([[SoC2G t FDeliver (pack (Disconnect (ms / 1000))); SoG2C t FDeliver (pack (Disconnect 0))];
      [SoBS t m];
      wake_trace_q1 cfg (t + ms) id s dup retain mid payload], y') /\
    AwakeS cfg y' subs [] /\ gw_now (y_gw y') = t + d /\ y_br y' = y_br y /\
    y_c2g_k y' = (y_c2g_k y + 3)%nat /\ y_g2c_k y' = (y_g2c_k y + 3)%nat.
Proof.
  intros HQ Hms Hdur Hnp Hrd Hin Hm Hp Hokc Hfc Hfg Hd t m. subst t m.
  assert (Hc : forall i k, (i <= 2)%nat -> k = (y_c2g_k y + i)%nat -> nth_fault (e_c2g cfg) k = FDeliver)
    by (intros i k Hi ->; exact (Hfc i Hi)).
  assert (Hg : forall i k, (i <= 2)%nat -> k = (y_g2c_k y + i)%nat -> nth_fault (e_g2c cfg) k = FDeliver)
    by (intros i k Hi ->; exact (Hfg i Hi)).
  destruct (e2e_sleep_call cfg y subs id ms HQ Hms Hdur Hnp (Hc 0%nat (y_c2g_k y) ltac:(lia) ltac:(lia)) (Hg 0%nat (y_g2c_k y) ltac:(lia) ltac:(lia)))
    as (y1 & E1 & HS1 & Hn1 & Hb1 & Hkc1 & Hkg1).
  destruct (e2e_bpub_while_asleep_q1 cfg y1 subs id _ s dup retain mid payload HS1 Hin)
    as (y2 & E2 & HS2 & Hn2 & Hb2 & Hkc2 & Hkg2).
  destruct (e2e_wake_up_q1 cfg y2 subs id _ s dup retain mid payload _ d HS2 Hin Hm Hp Hokc)
    as (y3 & E3 & HA3 & Hn3 & Hb3 & Hkc3 & Hkg3).
  - rewrite Hn1. lia.
  - rewrite Hkc2, Hkc1. exact (Hc 1%nat (S (y_c2g_k y)) ltac:(lia) ltac:(lia)).
  - rewrite Hkc2, Hkc1. exact (Hc 2%nat (S (S (y_c2g_k y))) ltac:(lia) ltac:(lia)).
  - rewrite Hkg2, Hkg1. exact (Hg 1%nat (S (y_g2c_k y)) ltac:(lia) ltac:(lia)).
  - rewrite Hkg2, Hkg1. exact (Hg 2%nat (S (S (y_g2c_k y))) ltac:(lia) ltac:(lia)).
  - rewrite Hn2, Hn1. lia.
  - exists y3. split; [|split; [exact HA3|split; [rewrite Hn3, Hn2, Hn1; reflexivity|split; [rewrite Hb3, Hb2; exact Hb1|split]]]].
    + cbn [sys_run]. rewrite E1, E2, E3, Hn1. reflexivity.
    + rewrite Hkc3, Hkc2, Hkc1. lia.
    + rewrite Hkg3, Hkg2, Hkg1. lia.
Qed.

(* as properties of the run: exactly one handler invocation (the handler of the subscription, that topic, payload, QoS 1,
   flags as sent by the broker), after the PINGREQ; the broker receives exactly [PUBACK mid]; Sleep returns nil, once *)
Lemma wake_trace_q1_facts cfg T id s dup retain mid payload :
  cbs_full (wake_trace_q1 cfg T id s dup retain mid payload) = [(sub_id s, sub_topic s, payload, 1, retain, dup, mid)] /\
  rets_of (wake_trace_q1 cfg T id s dup retain mid payload) = [(id, ROk)] /\
  brs_of (wake_trace_q1 cfg T id s dup retain mid payload) = [MqPuback mid].
Proof. repeat split. Qed.

(* ------------------------------------------------------------------ 4. a concrete instance; observation *)

(* ecfg0 (RetryDelay 10 s, keep-alive 60 s), after Connect and Subscribe "ab": Sleep(5 s), a QoS 1 message, 7 s pass *)
Example sleep_q1_instance :
  exists y', sys_run ecfg0 loss_y0 [SCall 3 (ASleep 5000); SBpub (MqPublish false 1 true [97; 98] 1000 [7]); SAdv 7000] =
    ([[SoC2G 0 FDeliver [4; 24; 0; 5]; SoG2C 0 FDeliver [2; 24]];
      [SoBS 0 (MqPublish false 1 true [97; 98] 1000 [7])];
      [SoC2G 5000 FDeliver [4; 22; 99; 49];
       SoG2C 5000 FDeliver [8; 12; 50; 97; 98; 3; 232; 7];
       SoG2C 5000 FDeliver [2; 23];
       SoC2G 5000 FDeliver [7; 13; 97; 98; 3; 232; 0];
       SoCb 5000 2 [97; 98] [7] 1 true false 1000;
       SoRet 5000 3 ROk;
       SoBR 5000 (MqPuback 1000)]], y') /\
    AwakeS ecfg0 y' [loss_sub] [] /\ gw_now (y_gw y') = 7000.
Proof.
  destruct (C26_sleep_cycle_q1_message ecfg0 loss_y0 [loss_sub] 3 5000 loss_sub false true 1000 [7] 7000)
    as (y' & E & HA & Hn & _).
  - exact loss_y0_quiet.
  - lia.
  - lia.
  - right. vm_compute. intros H. discriminate H.
  - vm_compute. reflexivity.
  - left. reflexivity.
  - lia.
  - reflexivity.
  - reflexivity.
  - intros i _. apply nth_fault_nil.
  - intros i _. apply nth_fault_nil.
  - lia.
  - exists y'. split; [exact E|split; [exact HA|rewrite Hn; vm_compute; reflexivity]].
Qed.

Example sleep_q1_test :
  fst (sys_run ecfg0 loss_y0 [SCall 3 (ASleep 5000); SBpub (MqPublish false 1 true [97; 98] 1000 [7]); SAdv 7000; SAdv 30000]) =
    [[SoC2G 0 FDeliver [4; 24; 0; 5]; SoG2C 0 FDeliver [2; 24]];
     [SoBS 0 (MqPublish false 1 true [97; 98] 1000 [7])];
     [SoC2G 5000 FDeliver [4; 22; 99; 49]; SoG2C 5000 FDeliver [8; 12; 50; 97; 98; 3; 232; 7]; SoG2C 5000 FDeliver [2; 23];
      SoC2G 5000 FDeliver [7; 13; 97; 98; 3; 232; 0]; SoCb 5000 2 [97; 98] [7] 1 true false 1000; SoRet 5000 3 ROk;
      SoBR 5000 (MqPuback 1000)];
     []].
Proof. vm_compute. reflexivity. Qed.

(* the hypothesis ms < RetryDelay is needed for "exactly one": with the wake-up AT the first retransmission (Sleep(10 s),
   RetryDelay 10 s) the retry fires first and puts a second copy into the buffer: two PUBLISHes (both with DUP: the retry
   sets the flag on the buffered packet object as well), two PUBACKs, two handler invocations; the broker still receives
   one PUBACK (the second finds no transaction) *)
Example sleep_q1_at_retry_duplicates :
  fst (sys_run ecfg0 loss_y0 [SCall 3 (ASleep 10000); SBpub (MqPublish false 1 false [97; 98] 1000 [7]); SAdv 10000]) =
    [[SoC2G 0 FDeliver [4; 24; 0; 10]; SoG2C 0 FDeliver [2; 24]];
     [SoBS 0 (MqPublish false 1 false [97; 98] 1000 [7])];
     [SoC2G 10000 FDeliver [4; 22; 99; 49];
      SoG2C 10000 FDeliver [8; 12; 162; 97; 98; 3; 232; 7]; SoG2C 10000 FDeliver [8; 12; 162; 97; 98; 3; 232; 7];
      SoG2C 10000 FDeliver [2; 23];
      SoC2G 10000 FDeliver [7; 13; 97; 98; 3; 232; 0]; SoCb 10000 2 [97; 98] [7] 1 false true 1000;
      SoC2G 10000 FDeliver [7; 13; 97; 98; 3; 232; 0]; SoCb 10000 2 [97; 98] [7] 1 false true 1000;
      SoRet 10000 3 ROk; SoBR 10000 (MqPuback 1000)]].
Proof. vm_compute. reflexivity. Qed.

(* ------------------------------------------------------------------ 5. assumptions *)

Print Assumptions e2e_bpub_while_asleep_q1.
Print Assumptions e2e_wake_up_q1.
Print Assumptions C26_sleep_cycle_q1_message.
Print Assumptions wake_trace_q1_facts.
Print Assumptions sleep_q1_instance.
Print Assumptions sleep_q1_test.
Print Assumptions sleep_q1_at_retry_duplicates.
