(* System/ComposeProofs_aux.v — component lemmas for System/ComposeProofs.v (C26, partial):
   what the client library model (cl_step) and the gateway model (gw_step) do, each on its own,
   in the exchanges CONNECT, PUBLISH (short topic, QoS 0 / 1), PINGREQ, DISCONNECT, SUBSCRIBE
   (short topic) and a broker PUBLISH (short topic, QoS 0), started in a quiescent connected state
   (ClQuiet / GwQuiet).  Every lemma is stated for ALL states satisfying the predicate, all
   configurations, topic names and payloads in the legal ranges. *)
From stdpp Require Import base option list numbers fin_maps nmap.
From Coq Require Import Lia ZArith ZifyN ZifyNat ZifyBool.
From RecordUpdate Require Import RecordSet.
From Verif.Base Require Import Bytes BytesProofs.
From Verif.Codec Require Import Packets Decode Encode EncodeProofs.
From Verif.Checkers Require Import ChkCodec.
From Verif.Topics Require Import Predefined.
From Verif.Gateway Require Import GwTypes GwStep GwWf.
From Verif.Match Require Import Match MatchProofs.
From Verif.Client Require Import ClTypes ClStep Sound_Client.
From Verif.System Require Import Compose RoutingProofs.
Import RecordSetNotations.
Open Scope N_scope.
Ltac Zify.zify_post_hook ::= Z.div_mod_to_equations.

(* ------------------------------------------------------------------ quiescent component states *)

(* the client: connected, no transaction in progress, no timer armed, not cancelled *)
Record ClQuiet (c : cl_state) : Prop := {
  cq_st : cl_st c = Active; cq_objs : cl_objs c = ∅; cq_by_id : cl_by_id c = ∅; cq_by_type : cl_by_type c = ∅;
  cq_timers : cl_timers c = []; cq_canc : cl_cancelled c = None; cq_exited : cl_exited c = false;
  cq_closed : cl_conn_closed c = false; cq_mid : 1 <= cl_next_mid c <= 65535 }.

(* the gateway session: accepted by the broker, active, no transaction, no timer, not ending *)
Record GwQuiet (g : gw_state) : Prop := {
  gq_st : gw_st g = Active; gq_objs : gw_objs g = ∅; gq_by_id : gw_by_id g = ∅; gq_connect : gw_connect g = None;
  gq_timers : gw_timers g = []; gq_ending : gw_ending g = None; gq_ended : gw_ended g = false;
  gq_accepted : gw_accepted g = true }.

(* what the exchanges leave alone *)
Definition cl_frame (c c' : cl_state) : Prop :=
  cl_now c' = cl_now c /\ cl_handlers c' = cl_handlers c /\ cl_registered c' = cl_registered c.
Definition gw_frame (g g' : gw_state) : Prop :=
  gw_now g' = gw_now g /\ gw_client_id g' = gw_client_id g /\ gw_registered g' = gw_registered g /\
  gw_keepalive g' = gw_keepalive g.

(* ------------------------------------------------------------------ tools *)

Lemma pack_fits p : wf_pkt p = true -> (len (pack p) <=? MaxPacketLen) = true.
Proof. intros Hw. apply N.leb_le, pack_size, Hw. Qed.

Lemma Nl_ins {A} (m : Nmap A) i x : <[i:=x]> m !! i = Some x.
Proof. apply (lookup_insert (M:=Nmap)). Qed.
Lemma Nl_emp {A} i : (∅ : Nmap A) !! i = None.
Proof. apply (lookup_empty (M:=Nmap)). Qed.
Lemma Nd_ins {A} (m : Nmap A) i x : m !! i = None -> delete i (<[i:=x]> m) = m.
Proof. apply (delete_insert (M:=Nmap)). Qed.
Lemma Nd_ins_emp {A} i (x : A) : delete i (<[i:=x]> (∅ : Nmap A)) = ∅.
Proof. apply Nd_ins, Nl_emp. Qed.

Ltac nl := repeat first [rewrite (Nl_ins (A:=ctxn)) | rewrite (Nl_ins (A:=N)) | rewrite (Nl_ins (A:=txn))
  | rewrite (Nl_emp (A:=ctxn)) | rewrite (Nl_emp (A:=N)) | rewrite (Nl_emp (A:=txn))].
Local Opaque pack read_dgram encode_short decode_short.
Ltac ev := cbn -[pack insert delete lookup read_dgram encode_short decode_short].

Lemma short_parts t : is_short_topic t = true -> wf_bytes t -> exists a b, t = [a; b] /\ a < 256 /\ b < 256.
Proof.
  unfold is_short_topic, len. intros Hl Hw. destruct t as [|a [|b [|c r]]]; cbn [length] in Hl; try discriminate.
  - inversion Hw as [|? ? Ha Hw']; subst. inversion Hw' as [|? ? Hb _]; subst.
    exists a, b. split; [reflexivity|]. split; apply is_byte_lt; assumption.
  - exfalso. apply N.eqb_eq in Hl. lia.
Qed.

Lemma encode_short_lt t : is_short_topic t = true -> wf_bytes t -> encode_short t < 65536.
Proof. intros Hs Hw. destruct (short_parts t Hs Hw) as (a & b & -> & Ha & Hb). cbn [encode_short]. lia. Qed.

Lemma short_len_nz t : is_short_topic t = true -> (len t =? 0) = false.
Proof. unfold is_short_topic. intros H. apply N.eqb_eq in H. rewrite H. reflexivity. Qed.

Lemma wf_pub_short dup q retain t mid pl :
  q < 4 -> is_short_topic t = true -> wf_bytes t -> mid < 65536 -> okb pl = true ->
  wf_pkt (Publish dup q retain TIT_SHORT (encode_short t) mid pl) = true.
Proof.
  intros Hq Hs Hw Hm Hp. cbn [wf_pkt]. unfold lt16. rewrite Hp.
  pose proof (encode_short_lt t Hs Hw) as He.
  repeat (apply andb_true_iff; split); try reflexivity; apply N.ltb_lt; assumption.
Qed.

Lemma next_mid_range m : 1 <= m <= 65535 -> 1 <= (if m =? 65535 then 1 else m + 1) <= 65535.
Proof. intros H. destruct (N.eqb_spec m 65535); lia. Qed.

(* ------------------------------------------------------------------ the client library *)

Ltac cl_destruct c HQ :=
  let H1 := fresh "H" in let H2 := fresh "H" in let H3 := fresh "H" in let H4 := fresh "H" in
  let H5 := fresh "H" in let H6 := fresh "H" in let H7 := fresh "H" in let H8 := fresh "H" in
  destruct HQ as [H1 H2 H3 H4 H5 H6 H7 H8 Hmid];
  destruct c as [st reg hdl objs byid byty nobj nmid tms nseq now lr canc exd gerr wg closed];
  cbn in H1, H2, H3, H4, H5, H6, H7, H8, Hmid; subst.

Ltac cl_quiet := constructor; ev; rewrite ?N.eqb_refl; try reflexivity; try assumption; try apply Nd_ins_emp.

(* Ping: PINGREQ out, PINGRESP in, the call returns nil *)
Lemma cl_ping cfg c id : ClQuiet c ->
  exists c1 c', cl_step cfg c (CCall id APing) = (c1, [CoSn (cl_now c) (pack (Pingreq []))]) /\
    cl_step cfg c1 (CGw (pack Pingresp)) = (c', [CoRet (cl_now c) id ROk]) /\
    ClQuiet c' /\ cl_frame c c' /\ cl_next_mid c' = cl_next_mid c.
Proof.
  intros HQ. cl_destruct c HQ.
  exists {| cl_st := Active; cl_registered := reg; cl_handlers := hdl;
            cl_objs := <[nobj:=CxRetry id 5 TY_PINGREQ CtNone (Pingreq []) 0 id]> ∅; cl_by_id := ∅;
            cl_by_type := <[TY_PINGREQ:=nobj]> ∅; cl_next_obj := nobj + 1; cl_next_mid := nmid;
            cl_timers := [{| ctm_at := now + k_rdelay cfg; ctm_seq := nseq; ctm_kind := CtmRetry nobj |}];
            cl_next_seq := nseq + 1; cl_now := now; cl_last_read := lr; cl_cancelled := None; cl_exited := false;
            cl_group_err := gerr; cl_waiting_group := wg; cl_conn_closed := false |}.
  eexists. split; [|split].
  - ev. rewrite (pack_fits (Pingreq [])) by reflexivity. reflexivity.
  - ev. rewrite (read_pack_roundtrip Pingresp) by reflexivity.
    ev. unfold c_get_type. ev. nl. ev. nl. ev.
    unfold complete, c_finish_obj. ev. nl. ev. reflexivity.
  - split; [cl_quiet|]. split; [repeat split|reflexivity].
Qed.

(* Publish on a short topic name, QoS 0: PUBLISH out, the call returns nil at once *)
Lemma cl_pub0 cfg c id topic retain payload :
  ClQuiet c -> is_short_topic topic = true -> wf_bytes topic -> okb payload = true ->
  exists c', cl_step cfg c (CCall id (APublish topic 0 retain payload)) =
             (c', [CoSn (cl_now c) (pack (Publish false 0 retain TIT_SHORT (encode_short topic) (cl_next_mid c) payload));
                   CoRet (cl_now c) id ROk]) /\
    ClQuiet c' /\ cl_frame c c'.
Proof.
  intros HQ Hs Hw Hp. cl_destruct c HQ.
  eexists. split; [|split].
  - ev. rewrite Hs. ev.
    rewrite (pack_fits (Publish false 0 retain TIT_SHORT (encode_short topic) nmid payload))
      by (apply wf_pub_short; [lia|assumption|assumption|lia|assumption]).
    ev. reflexivity.
  - cl_quiet. apply next_mid_range, Hmid.
  - repeat split.
Qed.

(* Publish on a short topic name, QoS 1: PUBLISH out, PUBACK in, the call returns nil *)
Lemma cl_pub1 cfg c id topic retain payload :
  ClQuiet c -> is_short_topic topic = true -> wf_bytes topic -> okb payload = true ->
  exists c1 c', cl_step cfg c (CCall id (APublish topic 1 retain payload)) =
             (c1, [CoSn (cl_now c) (pack (Publish false 1 retain TIT_SHORT (encode_short topic) (cl_next_mid c) payload))]) /\
    cl_step cfg c1 (CGw (pack (Puback (encode_short topic) (cl_next_mid c) RC_ACCEPTED))) = (c', [CoRet (cl_now c) id ROk]) /\
    ClQuiet c' /\ cl_frame c c'.
Proof.
  intros HQ Hs Hw Hp. cl_destruct c HQ.
  pose proof (encode_short_lt topic Hs Hw) as He.
  set (p := Publish false 1 retain TIT_SHORT (encode_short topic) nmid payload).
  exists {| cl_st := Active; cl_registered := reg; cl_handlers := hdl;
            cl_objs := <[nobj:=CxRetry id 3 nmid CtAwaitPuback p 0 id]> ∅; cl_by_id := <[nmid:=nobj]> ∅;
            cl_by_type := ∅; cl_next_obj := nobj + 1; cl_next_mid := if nmid =? 65535 then 1 else nmid + 1;
            cl_timers := [{| ctm_at := now + k_rdelay cfg; ctm_seq := nseq; ctm_kind := CtmRetry nobj |}];
            cl_next_seq := nseq + 1; cl_now := now; cl_last_read := lr; cl_cancelled := None; cl_exited := false;
            cl_group_err := gerr; cl_waiting_group := wg; cl_conn_closed := false |}.
  eexists. split; [|split; [|split]].
  - ev. rewrite Hs. ev. fold p.
    rewrite (pack_fits p) by (apply wf_pub_short; [lia|assumption|assumption|lia|assumption]).
    reflexivity.
  - ev. rewrite (read_pack_roundtrip (Puback (encode_short topic) nmid RC_ACCEPTED))
      by (cbn [wf_pkt]; unfold lt16, lt8, RC_ACCEPTED; repeat (apply andb_true_iff; split); apply N.ltb_lt; lia).
    ev. unfold c_get_id. ev. nl. ev. nl. subst p. ev.
    unfold complete, c_finish_obj. ev. nl. ev. reflexivity.
  - cl_quiet. apply next_mid_range, Hmid.
  - repeat split.
Qed.
