(* System/ComposeProofs_aux.v — component lemmas for System/ComposeProofs.v (C26, partial):
   what the client library model (cl_step) and the gateway model (gw_step) do, each on its own,
   in the exchanges CONNECT, PUBLISH (short topic, QoS 0 / 1), PINGREQ and DISCONNECT, started in
   a quiescent connected state (ClQuiet / GwQuiet; CONNECT: in an idle state, ClIdle / GwIdle).  Every lemma is stated for ALL states satisfying the predicate, all
   configurations, topic names and payloads in the legal ranges. *)
From stdpp Require Import base option list numbers fin_maps nmap.
From Coq Require Import Lia ZArith ZifyN ZifyNat ZifyBool.
From RecordUpdate Require Import RecordSet.
From Verif.Base Require Import Bytes BytesProofs.
From Verif.Codec Require Import Packets Decode Encode EncodeProofs.
From Verif.Checkers Require Import ChkCodec.
From Verif.Topics Require Import Predefined.
From Verif.Gateway Require Import GwTypes GwStep GwWf.
From Verif.Match Require Import Match MatchProofs.
From Verif.Client Require Import ClTypes ClStep Sound_Client.
From Verif.System Require Import Compose RoutingProofs.
Import RecordSetNotations.
Open Scope N_scope.
Ltac Zify.zify_post_hook ::= Z.div_mod_to_equations.

(* ------------------------------------------------------------------ quiescent component states *)

(* the client: connected, no transaction in progress, no timer armed, not cancelled *)
Record ClQuiet (c : cl_state) : Prop := {
  cq_st : cl_st c = Active; cq_objs : cl_objs c = ∅; cq_by_id : cl_by_id c = ∅; cq_by_type : cl_by_type c = ∅;
  cq_timers : cl_timers c = []; cq_canc : cl_cancelled c = None; cq_exited : cl_exited c = false;
  cq_closed : cl_conn_closed c = false; cq_mid : 1 <= cl_next_mid c <= 65535 }.

(* the gateway session: accepted by the broker, active, no transaction, no timer, not ending *)
Record GwQuiet (g : gw_state) : Prop := {
  gq_st : gw_st g = Active; gq_objs : gw_objs g = ∅; gq_by_id : gw_by_id g = ∅; gq_connect : gw_connect g = None;
  gq_timers : gw_timers g = []; gq_ending : gw_ending g = None; gq_ended : gw_ended g = false;
  gq_accepted : gw_accepted g = true }.

(* what the exchanges leave alone *)
Definition cl_frame (c c' : cl_state) : Prop :=
  cl_now c' = cl_now c /\ cl_handlers c' = cl_handlers c /\ cl_registered c' = cl_registered c.
Definition gw_frame (g g' : gw_state) : Prop :=
  gw_now g' = gw_now g /\ gw_client_id g' = gw_client_id g /\ gw_registered g' = gw_registered g /\
  gw_keepalive g' = gw_keepalive g.

(* ------------------------------------------------------------------ tools *)

Lemma pack_fits p : wf_pkt p = true -> (len (pack p) <=? MaxPacketLen) = true.
Proof. intros Hw. apply N.leb_le, pack_size, Hw. Qed.

Lemma Nl_ins {A} (m : Nmap A) i x : <[i:=x]> m !! i = Some x.
Proof. apply (lookup_insert (M:=Nmap)). Qed.
Lemma Nl_emp {A} i : (∅ : Nmap A) !! i = None.
Proof. apply (lookup_empty (M:=Nmap)). Qed.
Lemma Nd_ins {A} (m : Nmap A) i x : m !! i = None -> delete i (<[i:=x]> m) = m.
Proof. apply (delete_insert (M:=Nmap)). Qed.
Lemma Nd_ins_emp {A} i (x : A) : delete i (<[i:=x]> (∅ : Nmap A)) = ∅.
Proof. apply Nd_ins, Nl_emp. Qed.

Ltac nl := rewrite ?(Nl_ins (A:=N)), ?(Nl_ins (A:=ctxn)), ?(Nl_ins (A:=txn)).
Ltac ev := cbn -[pack insert delete lookup read_dgram encode_short decode_short N.add N.sub N.mul N.div N.modulo].

Lemma short_parts t : is_short_topic t = true -> wf_bytes t -> exists a b, t = [a; b] /\ a < 256 /\ b < 256.
Proof.
  unfold is_short_topic, len. intros Hl Hw. destruct t as [|a [|b [|c r]]]; cbn [length] in Hl; try discriminate.
  - inversion Hw as [|? ? Ha Hw']; subst. inversion Hw' as [|? ? Hb _]; subst.
    exists a, b. split; [reflexivity|]. split; apply is_byte_lt; assumption.
  - exfalso. apply N.eqb_eq in Hl. lia.
Qed.

Lemma encode_short_lt t : is_short_topic t = true -> wf_bytes t -> encode_short t < 65536.
Proof. intros Hs Hw. destruct (short_parts t Hs Hw) as (a & b & -> & Ha & Hb). cbn [encode_short]. lia. Qed.

Lemma short_len_nz t : is_short_topic t = true -> (len t =? 0) = false.
Proof. unfold is_short_topic. intros H. apply N.eqb_eq in H. rewrite H. reflexivity. Qed.

Lemma wf_pub_short dup q retain t mid pl :
  q < 4 -> is_short_topic t = true -> wf_bytes t -> mid < 65536 -> okb pl = true ->
  wf_pkt (Publish dup q retain TIT_SHORT (encode_short t) mid pl) = true.
Proof.
  intros Hq Hs Hw Hm Hp. cbn [wf_pkt]. unfold lt16. rewrite Hp.
  pose proof (encode_short_lt t Hs Hw) as He.
  repeat (apply andb_true_iff; split); try reflexivity; apply N.ltb_lt; assumption.
Qed.

Lemma next_mid_range m : 1 <= m <= 65535 -> 1 <= (if m =? 65535 then 1 else m + 1) <= 65535.
Proof. intros H. destruct (N.eqb_spec m 65535); lia. Qed.

(* ------------------------------------------------------------------ the client library *)

(* Symbolic execution.  The state stays a VARIABLE c (its quiescence facts are rewritten in), cbn is
   used only with a WHITELIST (record projections, the record update function, boolean and N
   equality tests on literals, filter/app on the timer lists), and it is CALL BY VALUE: a helper
   application is replaced by its value (tactic val) before the state it returns is duplicated by
   zeta/beta.  (Full cbn, or unfolding everything first, leaves terms whose conversion check at
   Qed takes minutes.) *)
Ltac bi := lazy beta iota zeta.
Ltac pk := cbn [set cl_st cl_registered cl_handlers cl_objs cl_by_id cl_by_type cl_next_obj cl_next_mid cl_timers cl_next_seq
  cl_now cl_last_read cl_cancelled cl_exited cl_group_err cl_waiting_group cl_conn_closed fst snd
  N.eqb Pos.eqb andb orb negb ctm_kind ctm_at ctm_seq ctimer_obj ctx_bound ct_state_eqb cstate_eqb List.filter app
  TIT_SHORT TIT_STRING TIT_REGISTERED TIT_PREDEFINED RC_ACCEPTED TY_CONNECT TY_PINGREQ TY_DISCONNECT].
Ltac rwq HQ := rewrite ?(cq_st _ HQ), ?(cq_objs _ HQ), ?(cq_by_id _ HQ), ?(cq_by_type _ HQ), ?(cq_timers _ HQ),
  ?(cq_canc _ HQ), ?(cq_exited _ HQ), ?(cq_closed _ HQ).
Tactic Notation "rw" := match goal with HQ : ClQuiet _ |- _ => rwq HQ end.
Ltac val t tac := let E := fresh "E" in eassert (E : t = _) by (tac; reflexivity); rewrite E; clear E.

(* start_retry in a state that can send *)
Ltac v_start_retry Hwf :=
  match goal with |- context [start_retry ?cfg ?s ?call ?kind ?key ?st ?p ?bt] =>
    val (start_retry cfg s call kind key st p bt)
      ltac:(unfold start_retry, c_new_obj, c_arm, c_send; pk; rw; pk; rewrite (pack_fits p) by Hwf; pk) end.
(* the finish of the only transaction *)
Ltac v_finish :=
  match goal with |- context [c_finish_obj ?s ?g] =>
    val (c_finish_obj s g) ltac:(unfold c_finish_obj; pk; nl; bi; unfold c_disarm; pk; rewrite ?N.eqb_refl; pk) end.
(* the shell of cl_step around an API call / a datagram pack p from the gateway *)
Ltac ccall := unfold cl_step, do_call; bi; rw; bi.
Ltac cgw p Hwf := unfold cl_step; bi; pk; rw; bi; rewrite (read_pack_roundtrip p) by Hwf; bi;
  unfold handle_packet; bi; unfold c_get_id, c_get_type; pk; nl; bi; pk; nl; bi; pk.
(* complete of a transaction whose call returns r, then the end of cl_step *)
Ltac ccomplete := unfold complete; v_finish; bi; pk; rw; pk; unfold ret; pk; rw; pk.

Ltac cl_quiet HQ := constructor; pk; rwq HQ; try reflexivity; try apply Nd_ins_emp; try apply (cq_mid _ HQ).

(* Ping: PINGREQ out, PINGRESP in, the call returns nil *)
Lemma cl_ping cfg c id : ClQuiet c ->
  exists c1 c', cl_step cfg c (CCall id APing) = (c1, [CoSn (cl_now c) (pack (Pingreq []))]) /\
    cl_step cfg c1 (CGw (pack Pingresp)) = (c', [CoRet (cl_now c) id ROk]) /\
    ClQuiet c' /\ cl_frame c c' /\ cl_next_mid c' = cl_next_mid c.
Proof.
  intros HQ. eexists. eexists. split; [|split].
  - ccall. v_start_retry ltac:(reflexivity). bi. pk. rw. reflexivity.
  - cgw Pingresp ltac:(reflexivity). ccomplete. reflexivity.
  - split; [cl_quiet HQ|]. split; [repeat split|reflexivity].
Qed.

(* Publish on a short topic name, QoS 0: PUBLISH out, the call returns nil at once *)
Lemma cl_pub0 cfg c id topic retain payload :
  ClQuiet c -> is_short_topic topic = true -> wf_bytes topic -> okb payload = true ->
  exists c', cl_step cfg c (CCall id (APublish topic 0 retain payload)) =
             (c', [CoSn (cl_now c) (pack (Publish false 0 retain TIT_SHORT (encode_short topic) (cl_next_mid c) payload));
                   CoRet (cl_now c) id ROk]) /\
    ClQuiet c' /\ cl_frame c c'.
Proof.
  intros HQ Hs Hw Hp. pose proof (cq_mid _ HQ) as Hmid. eexists. split; [|split].
  - ccall. rewrite Hs. bi. unfold do_publish, c_next_mid, c_send, ret. pk. rw. pk.
    rewrite (pack_fits (Publish false 0 retain TIT_SHORT (encode_short topic) (cl_next_mid c) payload))
      by (apply wf_pub_short; [lia|assumption|assumption|lia|assumption]).
    pk. rw. reflexivity.
  - cl_quiet HQ. apply next_mid_range, Hmid.
  - repeat split.
Qed.

(* Publish on a short topic name, QoS 1: PUBLISH out, PUBACK in, the call returns nil *)
Lemma cl_pub1 cfg c id topic retain payload :
  ClQuiet c -> is_short_topic topic = true -> wf_bytes topic -> okb payload = true ->
  exists c1 c', cl_step cfg c (CCall id (APublish topic 1 retain payload)) =
             (c1, [CoSn (cl_now c) (pack (Publish false 1 retain TIT_SHORT (encode_short topic) (cl_next_mid c) payload))]) /\
    cl_step cfg c1 (CGw (pack (Puback (encode_short topic) (cl_next_mid c) RC_ACCEPTED))) = (c', [CoRet (cl_now c) id ROk]) /\
    ClQuiet c' /\ cl_frame c c'.
Proof.
  intros HQ Hs Hw Hp. pose proof (cq_mid _ HQ) as Hmid.
  pose proof (encode_short_lt topic Hs Hw) as He.
  eexists. eexists. split; [|split; [|split]].
  - ccall. rewrite Hs. bi. unfold do_publish, c_next_mid. pk.
    v_start_retry ltac:(apply wf_pub_short; [lia|assumption|assumption|lia|assumption]). bi. pk. rw. reflexivity.
  - cgw (Puback (encode_short topic) (cl_next_mid c) RC_ACCEPTED)
      ltac:(cbn [wf_pkt]; unfold lt16, lt8, RC_ACCEPTED; repeat (apply andb_true_iff; split); apply N.ltb_lt; lia).
    ccomplete. reflexivity.
  - cl_quiet HQ. apply next_mid_range, Hmid.
  - repeat split.
Qed.

(* Disconnect: DISCONNECT out, DISCONNECT in, the call returns nil; the client is disconnected and
   its group context cancelled (the receive loop exits at its next poll tick, one second later) *)
Lemma cl_disconnect cfg c id : ClQuiet c ->
  exists c1 c', cl_step cfg c (CCall id ADisconnect) = (c1, [CoSn (cl_now c) (pack (Disconnect 0))]) /\
    cl_step cfg c1 (CGw (pack (Disconnect 0))) = (c', [CoRet (cl_now c) id ROk]) /\
    cl_st c' = Disconnected /\ cl_cancelled c' = Some (cl_now c + 1000) /\ cl_exited c' = false /\ cl_now c' = cl_now c.
Proof.
  intros HQ.
  assert (Hpoll : (cl_now c + readTimeout * ((cl_now c - cl_now c) / readTimeout + 1) <=? cl_now c) = false).
  { apply N.leb_gt. unfold readTimeout. rewrite N.sub_diag. change (0 / 1000) with 0. lia. }
  assert (Hpoll' : cl_now c + readTimeout * ((cl_now c - cl_now c) / readTimeout + 1) = cl_now c + 1000).
  { unfold readTimeout. rewrite N.sub_diag. change (0 / 1000) with 0. lia. }
  eexists. eexists. split; [|split].
  - ccall. v_start_retry ltac:(reflexivity). bi. unfold c_set_state. pk. rw. reflexivity.
  - cgw (Disconnect 0) ltac:(reflexivity). unfold complete. v_finish. bi. pk. rw. pk.
    match goal with |- context [c_cancel_from_api ?s] =>
      val (c_cancel_from_api s) ltac:(unfold c_cancel_from_api, c_stop_ctx_timers, next_poll; pk; rw; pk) end.
    unfold ret. pk. rewrite Hpoll. reflexivity.
  - pk. rewrite Hpoll'. repeat split. apply (cq_exited _ HQ).
Qed.

(* Connect (no user, no will) in a fresh client: CONNECT out, CONNACK in, the call returns nil.
   Stated for any idle state (all of cl_init's relevant fields), so that the keys stay symbolic. *)
Record ClIdle (c : cl_state) : Prop := {
  ci_objs : cl_objs c = ∅; ci_by_id : cl_by_id c = ∅; ci_by_type : cl_by_type c = ∅;
  ci_timers : cl_timers c = []; ci_canc : cl_cancelled c = None; ci_exited : cl_exited c = false;
  ci_closed : cl_conn_closed c = false; ci_mid : 1 <= cl_next_mid c <= 65535 }.
Ltac rwi HI := rewrite ?(ci_objs _ HI), ?(ci_by_id _ HI), ?(ci_by_type _ HI), ?(ci_timers _ HI),
  ?(ci_canc _ HI), ?(ci_exited _ HI), ?(ci_closed _ HI).

Lemma cl_connect_idle cfg c id : wf_cl_cfg cfg -> k_user cfg = [] -> ClIdle c ->
  exists c1 c', cl_step cfg c (CCall id AConnect) = (c1, [CoSn (cl_now c) (pack (connect_pkt cfg))]) /\
    cl_step cfg c1 (CGw (pack (Connack RC_ACCEPTED))) = (c', [CoRet (cl_now c) id ROk]) /\
    ClQuiet c' /\ cl_frame c c'.
Proof.
  intros Hcfg Hu HI.
  eexists. eexists. split; [|split].
  - unfold cl_step, do_call; bi; rwi HI; bi. unfold connect_attempt, c_new_obj, c_arm, c_send. pk. rwi HI. pk.
    rewrite (pack_fits (connect_pkt cfg)) by (apply wf_connect_pkt, Hcfg). rewrite Hu. change (len (@nil N) =? 0) with true. pk. rwi HI. reflexivity.
  - unfold cl_step; bi; pk; rwi HI; bi; rewrite (read_pack_roundtrip (Connack RC_ACCEPTED)) by reflexivity; bi;
    unfold handle_packet; bi; unfold c_get_id, c_get_type; pk; nl; bi; pk; nl; bi; pk.
    unfold complete, c_set_state. v_finish. bi. pk. rwi HI. pk. unfold ret. pk. rwi HI. reflexivity.
  - split; [|repeat split]. constructor; pk; rwi HI; try reflexivity; try apply Nd_ins_emp. apply (ci_mid _ HI).
Qed.

Lemma cl_connect cfg id : wf_cl_cfg cfg -> k_user cfg = [] ->
  exists c1 c', cl_step cfg cl_init (CCall id AConnect) = (c1, [CoSn 0 (pack (connect_pkt cfg))]) /\
    cl_step cfg c1 (CGw (pack (Connack RC_ACCEPTED))) = (c', [CoRet 0 id ROk]) /\
    ClQuiet c' /\ cl_now c' = 0 /\ cl_handlers c' = [] /\ cl_registered c' = [].
Proof.
  intros Hcfg Hu.
  assert (HI : ClIdle cl_init) by (constructor; try reflexivity; cbn [cl_init cl_next_mid]; lia).
  destruct (cl_connect_idle cfg cl_init id Hcfg Hu HI) as (c1 & c' & E1 & E2 & HQ & Hn & Hh & Hr).
  exists c1, c'. split; [exact E1|]. split; [exact E2|]. split; [exact HQ|]. split; [exact Hn|]. split; [exact Hh|exact Hr].
Qed.

(* ------------------------------------------------------------------ the gateway session *)

Ltac gk := cbn [set gw_st gw_client_id gw_keepalive gw_registered gw_seq_next gw_seq_overflow gw_no_more_tids gw_buffer
  gw_objs gw_by_id gw_connect gw_next_obj gw_timers gw_next_seq gw_now gw_last_sn gw_last_mq gw_ending gw_ended
  gw_accepted gw_handed_out gw_auth_seen fst snd
  N.eqb Pos.eqb andb orb negb tm_kind tm_at tm_seq timer_of_obj cstate_eqb cx_state_eqb bp_state_eqb List.filter app
  TIT_SHORT TIT_STRING TIT_REGISTERED TIT_PREDEFINED RC_ACCEPTED
  c_cid c_clean c_keepalive c_will c_wqos c_wretain c_wtopic c_wmsg c_uflag c_user c_pflag c_pass].
Ltac rwgq HG := rewrite ?(gq_st _ HG), ?(gq_objs _ HG), ?(gq_by_id _ HG), ?(gq_connect _ HG), ?(gq_timers _ HG),
  ?(gq_ending _ HG), ?(gq_ended _ HG).
Tactic Notation "rwg" := match goal with HG : GwQuiet _ |- _ => rwgq HG end.

(* the shell of gw_step around a datagram pack p of the client / an MQTT packet of the broker *)
Ltac gsn p Hwf := unfold gw_step; bi; rwg; bi; gk; rwg; bi; rewrite (read_pack_roundtrip p) by Hwf; bi;
  unfold handle_sn, packet_legal; gk; rwg; bi; gk.
Ltac gmq := unfold gw_step; bi; rwg; bi; gk; rwg; bi; unfold handle_mq; bi.
Ltac v_gfinish :=
  match goal with |- context [finish_obj ?s ?g] =>
    val (finish_obj s g) ltac:(unfold finish_obj, disarm_obj; gk; nl; bi; gk; nl; bi; gk; rewrite ?N.eqb_refl; gk) end.
Ltac v_sn_send Hwf :=
  match goal with |- context [sn_send ?s ?p] =>
    val (sn_send s p) ltac:(unfold sn_send, sn_send_owned; gk; rwg; bi; rewrite (pack_fits p) by Hwf; unfold ok; gk) end.
Ltac gw_quiet HG := constructor; gk; rwgq HG; try reflexivity; try apply Nd_ins_emp; try apply (gq_accepted _ HG).

(* PINGREQ of the active client is forwarded; the broker's PINGRESP is forwarded back *)
Lemma gw_ping cfg g : GwQuiet g ->
  exists g1 g', gw_step cfg g (EvSn (pack (Pingreq []))) = (g1, [OutMq (gw_now g) MqPingreq]) /\
    gw_step cfg g1 (EvMq MqPingresp) = (g', [OutSn (gw_now g) (pack Pingresp)]) /\
    GwQuiet g' /\ gw_frame g g' /\ gw_now g1 = gw_now g.
Proof.
  intros HG. eexists. eexists. split; [|split].
  - gsn (Pingreq []) ltac:(reflexivity). unfold mq_send, ok, finish_r. gk. reflexivity.
  - gmq. gk. rwg. gk. v_sn_send ltac:(reflexivity). unfold finish_r. gk. reflexivity.
  - split; [gw_quiet HG|]. split; [repeat split|reflexivity].
Qed.

(* PUBLISH (short topic name, QoS 0) of the client is forwarded to the broker *)
Lemma gw_pub0 cfg g topic retain mid payload :
  GwQuiet g -> is_short_topic topic = true -> wf_bytes topic -> has_wildcard topic = false ->
  mid < 65536 -> okb payload = true ->
  exists g', gw_step cfg g (EvSn (pack (Publish false 0 retain TIT_SHORT (encode_short topic) mid payload))) =
             (g', [OutMq (gw_now g) (MqPublish false 0 retain topic mid payload)]) /\
    GwQuiet g' /\ gw_frame g g'.
Proof.
  intros HG Hs Hw Hwild Hm Hp. eexists. split; [|split].
  - gsn (Publish false 0 retain TIT_SHORT (encode_short topic) mid payload)
      ltac:(apply wf_pub_short; [lia|assumption|assumption|assumption|assumption]).
    unfold handle_client_publish, resolve_client_topic. gk. rewrite (decode_encode_short topic Hs Hw), Hwild. gk.
    unfold mq_send, ok, finish_r. gk. reflexivity.
  - gw_quiet HG.
  - repeat split.
Qed.

(* PUBLISH (short topic name, QoS 1): forwarded; the broker's PUBACK is forwarded back *)
Lemma gw_pub1 cfg g topic retain mid payload :
  GwQuiet g -> is_short_topic topic = true -> wf_bytes topic -> has_wildcard topic = false ->
  1 <= mid < 65536 -> okb payload = true ->
  exists g1 g', gw_step cfg g (EvSn (pack (Publish false 1 retain TIT_SHORT (encode_short topic) mid payload))) =
             (g1, [OutMq (gw_now g) (MqPublish false 1 retain topic mid payload)]) /\
    gw_step cfg g1 (EvMq (MqPuback mid)) = (g', [OutSn (gw_now g) (pack (Puback (encode_short topic) mid RC_ACCEPTED))]) /\
    GwQuiet g' /\ gw_frame g g' /\ gw_now g1 = gw_now g.
Proof.
  intros HG Hs Hw Hwild Hm Hp.
  pose proof (encode_short_lt topic Hs Hw) as He.
  assert (Hm0 : (mid =? 0) = false) by (apply N.eqb_neq; lia).
  eexists. eexists. split; [|split; [|split]].
  - gsn (Publish false 1 retain TIT_SHORT (encode_short topic) mid payload)
      ltac:(apply wf_pub_short; [lia|assumption|assumption|lia|assumption]).
    unfold handle_client_publish, resolve_client_topic. gk. rewrite (decode_encode_short topic Hs Hw), Hwild, Hm0. gk.
    unfold new_obj, arm, mq_send, ok, finish_r. gk. rwg. reflexivity.
  - gmq. unfold get_by_id. gk. nl. bi. gk. nl. bi. gk. v_gfinish.
    v_sn_send ltac:(cbn [wf_pkt]; unfold lt16, lt8, RC_ACCEPTED; repeat (apply andb_true_iff; split); apply N.ltb_lt; lia).
    unfold finish_r. gk. reflexivity.
  - gw_quiet HG.
  - split; [repeat split|reflexivity].
Qed.

(* DISCONNECT of the client: MQTT DISCONNECT to the broker, DISCONNECT back, the session begins to end *)
Lemma gw_disconnect cfg g : GwQuiet g ->
  exists g', gw_step cfg g (EvSn (pack (Disconnect 0))) =
             (g', [OutMq (gw_now g) MqDisconnect; OutSn (gw_now g) (pack (Disconnect 0)); OutCancel (gw_now g) EcClientDisconnect]) /\
    gw_st g' = Disconnected /\ (exists te, gw_ending g' = Some te) /\ gw_ended g' = false /\ gw_now g' = gw_now g.
Proof.
  intros HG. eexists. split.
  - gsn (Disconnect 0) ltac:(reflexivity). unfold mq_send, ok, andthen. gk.
    v_sn_send ltac:(reflexivity). unfold stop, finish_r, begin_end. gk. reflexivity.
  - gk. repeat split. eexists. reflexivity. apply (gq_ended _ HG).
Qed.

(* a session that is ending ignores the end of the broker connection *)
Lemma gw_eof_ending cfg g te : gw_ended g = false -> gw_ending g = Some te -> gw_step cfg g EvMqEof = (g, []).
Proof. intros H1 H2. unfold gw_step. rewrite H1, H2. reflexivity. Qed.

(* CONNECT (no will, authentication disabled) in a fresh session: MQTT CONNECT out; the broker's
   CONNACK 0 makes the session active and is answered with CONNACK accepted *)
Record GwIdle (g : gw_state) : Prop := {
  gi_st : gw_st g = Disconnected; gi_objs : gw_objs g = ∅; gi_by_id : gw_by_id g = ∅; gi_connect : gw_connect g = None;
  gi_timers : gw_timers g = []; gi_ending : gw_ending g = None; gi_ended : gw_ended g = false }.
Ltac rwgi HI := rewrite ?(gi_st _ HI), ?(gi_objs _ HI), ?(gi_by_id _ HI), ?(gi_connect _ HI), ?(gi_timers _ HI),
  ?(gi_ending _ HI), ?(gi_ended _ HI).

Definition mq_connect_of (cfg : gw_cfg) (clean : bool) (dur : N) (cid : bytes) : mq_connect :=
  {| c_cid := cid; c_clean := clean; c_keepalive := dur;
     c_will := false; c_wqos := 0; c_wretain := false; c_wtopic := []; c_wmsg := [];
     c_uflag := match cfg_user cfg with Some _ => true | None => false end;
     c_user := match cfg_user cfg with Some u => u | None => [] end;
     c_pflag := match cfg_pass cfg with Some _ => true | None => false end;
     c_pass := match cfg_pass cfg with Some p => p | None => [] end |}.

Lemma gw_connect_idle cfg g clean dur cid sp :
  GwIdle g -> auth_enabled cfg = false -> 0 < dur < 65536 -> okb1 cid = true ->
  exists g1 g', gw_step cfg g (EvSn (pack (Connect false clean 1 dur cid))) =
             (g1, [OutMq (gw_now g) (MqConnect (mq_connect_of cfg clean dur cid))]) /\
    gw_step cfg g1 (EvMq (MqConnack sp 0)) = (g', [OutSn (gw_now g) (pack (Connack RC_ACCEPTED))]) /\
    GwQuiet g' /\ gw_now g' = gw_now g /\ gw_client_id g' = cid /\ gw_keepalive g' = dur /\ gw_now g1 = gw_now g.
Proof.
  intros HI Hauth Hdur Hcid.
  assert (Hd0 : (dur =? 0) = false) by (apply N.eqb_neq; lia).
  eexists. eexists. split; [|split].
  - unfold gw_step; bi; rwgi HI; bi; gk; rwgi HI; bi.
    rewrite (read_pack_roundtrip (Connect false clean 1 dur cid))
      by (cbn [wf_pkt]; unfold lt16; rewrite Hcid; repeat (apply andb_true_iff; split); try reflexivity; apply N.ltb_lt; lia).
    bi. unfold handle_sn, packet_legal; gk; rwgi HI; bi; gk.
    unfold handle_connect. gk. rwgi HI. gk. rewrite Hd0. gk. rwgi HI. bi.
    unfold new_obj, arm, connect_start. gk. rewrite Hauth. unfold connect_auth_done, set_obj, mq_send, ok, finish_r. gk. 
    fold (mq_connect_of cfg clean dur cid). reflexivity.
  - unfold gw_step; bi; gk; rwgi HI; bi; gk. rwgi HI. bi. unfold handle_mq; bi. unfold get_connect. gk. nl. bi. gk.
    unfold andthen.
    match goal with |- context [sn_send ?s ?p] =>
      val (sn_send s p) ltac:(unfold sn_send, sn_send_owned; gk; bi; rewrite (pack_fits p) by reflexivity; unfold ok; gk) end.
    gk. v_gfinish. unfold ok, finish_r. gk. reflexivity.
  - split; [|repeat split]. constructor; gk; rwgi HI; try reflexivity; try apply Nd_ins_emp.
    rewrite (insert_insert (M:=Nmap)). apply Nd_ins_emp.
Qed.

Lemma gw_idle_init cfg : GwIdle (init_state cfg).
Proof. constructor; reflexivity. Qed.
