(* System/ComposeLoss3.v — C16 (liveness), QoS 2 under ANY loss pattern within the retry budget, for an ACTIVE client:
   one broker PUBLISH with QoS 2 on the topic of a subscription (QuietS), no other traffic; exact traces for ALL
   configurations, states, subscriptions, message IDs, payloads and loss patterns in the stated ranges.

     C16_qos2_survives_any_loss_pattern   phase 1 fails length rs1 <= RetryCount rounds (each loses the PUBLISH or the PUBREC),
                                   phase 2 - with a fresh budget - length rs2 <= RetryCount rounds (each loses the PUBREL or the
                                   PUBCOMP); the traces of SBpub m and SAdv d together are SoBS m :: trace1 ... rs1 rs2; QuietS again
     trace1_facts                  exactly ONE handler invocation (at the first PUBREL that reaches the client; DUP flag of the copy
                                   received last), the broker receives exactly [PUBREC mid; PUBCOMP mid], no call returns
     q2_pattern_instance / _computed   a concrete pattern (ecfgL3: PUBLISH lost, PUBREC lost, PUBCOMP lost, PUBREL lost)

   The component lemmas are in ComposeLoss3_aux.v. *)
From stdpp Require Import base option list numbers fin_maps nmap.
From Coq Require Import Lia ZArith ZifyN ZifyNat ZifyBool.
From RecordUpdate Require Import RecordSet.
From Verif.Base Require Import Bytes BytesProofs.
From Verif.Codec Require Import Packets Decode Encode EncodeProofs.
From Verif.Checkers Require Import ChkCodec.
From Verif.Topics Require Import Predefined.
From Verif.Gateway Require Import GwTypes GwStep GwWf.
From Verif.Match Require Import Match MatchProofs.
From Verif.Client Require Import ClTypes ClStep Sound_Client.
From Verif.System Require Import Compose RoutingProofs ComposeProofs_aux ComposeProofs ComposeProofs2_aux ComposeProofs2
  ComposeProofs3_aux ComposeLoss_aux ComposeLoss ComposeLoss2_aux ComposeLoss2 ComposeLoss3_aux.
Import RecordSetNotations.
Open Scope N_scope.
Ltac Zify.zify_post_hook ::= Z.div_mod_to_equations.

(* ------------------------------------------------------------------ the theorem *)

Lemma adv_fuel_S : exists f, adv_fuel = S f.
Proof. exists (N.to_nat 99999). unfold adv_fuel. lia. Qed.

(* C16 (liveness) for one broker PUBLISH with QoS 2 on the topic of a subscription, an ACTIVE client and no other traffic.
   Phase 1 (PUBLISH -> PUBREC): the first transmission and the following retransmissions fail as rs1 says (true: the PUBLISH
   is lost; false: it is delivered and the client's PUBREC is lost), length rs1 <= RetryCount rounds; the next round gets
   through, the broker receives PUBREC and answers PUBREL.  Phase 2 (PUBREL -> PUBCOMP, a fresh retry budget): the first
   transmission of PUBREL and the following retransmissions fail as rs2 says (true: PUBREL lost; false: delivered, PUBCOMP
   lost), length rs2 <= RetryCount; the next round gets through.  The traces of the events SBpub m and SAdv d (any
   d >= (length rs1 + length rs2) * RetryDelay) together are exactly SoBS m :: trace1 ...; the system is quiescent again
   with the same subscriptions. *)
Theorem C16_qos2_survives_any_loss_pattern cfg y subs s dup retain mid payload rs1 rs2 d :
  QuietS cfg y subs -> In s subs -> 1 <= mid < 65536 -> okb payload = true ->
  0 < retry_delay (e_gw cfg) ->
  N.of_nat (length rs1) <= retry_count (e_gw cfg) -> N.of_nat (length rs2) <= retry_count (e_gw cfg) ->
  N.of_nat (length rs1 + length rs2) < 99990 ->
  faults1 cfg rs1 rs2 (y_c2g_k y) (y_g2c_k y) ->
  N.of_nat (length rs1 + length rs2) * retry_delay (e_gw cfg) <= d ->
  let t := gw_now (y_gw y) in
  let m := MqPublish dup 2 retain (sub_topic s) mid payload in
  exists y1 y2 tr1 tr2,
    sys_step cfg y (SBpub m) = (y1, tr1) /\ sys_step cfg y1 (SAdv d) = (y2, tr2) /\
    tr1 ++ tr2 = SoBS t m :: trace1 retain (sub_topic s) mid payload [sub_id s] (retry_delay (e_gw cfg)) rs1 rs2 t dup /\
    QuietS cfg y2 subs /\ gw_now (y_gw y2) = t + d.
Proof.
  intros HS Hin Hm Hp Hrd Hrc1 Hrc2 Hk Hfaults Hd t m. subst t m.
  pose proof HS as (HQ & _ & Hhd & Hsok). pose proof Hsok as (Hf & _).
  rewrite Forall_forall in Hf. destruct (topic_ok_spec _ (Hf s Hin)) as (Hs & Hw & _).
  pose proof (handle_set_subs subs s Hsok Hin) as Hhs. rewrite <- Hhd in Hhs.
  set (topic := sub_topic s) in *. set (hs := [sub_id s]) in *. set (rd := retry_delay (e_gw cfg)) in *.
  pose proof (bpub2_entry cfg y dup retain topic mid payload HQ Hs Hw Hm Hp) as H0. cbv zeta in H0.
  destruct H0 as (y0 & HH0 & Hn0 & Hb0 & Hh0 & Hr0 & Hkc0 & Hkg0 & E0).
  change (Hold2 cfg y0 (held_of retain topic mid payload None) (tx_rec mid (pub2 dup retain topic mid payload) 0) mid
            (gw_now (y_gw y) + rd)) in HH0.
  assert (Hhs0 : handle_set (cl_handlers (y_cl y0)) topic = hs) by (rewrite Hh0; exact Hhs).
  destruct rs1 as [|b1 r1].
  - (* phase 1 succeeds at once *)
    destruct Hfaults as (Hfg & Hfc & Hfaults2). cbn [length Nat.add] in *.
    rewrite Hfg in E0. cbn [map copies] in E0. unfold pump_rest11 in E0.
    pose proof (S1 retain topic mid payload hs Hs Hw Hm Hp cfg y0 None _ 0 _ (S (S (S (S pump_rest)))) dup
                  (match rs2 with b2 :: _ => Some b2 | [] => None end) HH0 Hhs0 ltac:(rewrite Hkc0; exact Hfc)) as H1.
    cbv zeta in H1. destruct H1 as (y1 & E1 & Hpost & Hn1 & Hb1 & Hh1 & Hkc1 & Hkg1).
    { rewrite Hkc0, Hkg0. destruct rs2 as [|[|] r2]; cbn [faults_ok] in Hfaults2.
      - exact Hfaults2.
      - exact (proj1 Hfaults2).
      - destruct Hfaults2 as (A & B & _). split; assumption. }
    rewrite E1 in E0.
    assert (Hhs1 : handle_set (cl_handlers (y_cl y1)) topic = hs) by (rewrite Hh1; exact Hhs0).
    destruct rs2 as [|b2 r2].
    + (* ... and phase 2 as well *)
      destruct adv_fuel_S as (f & Ef).
      pose proof Hpost as (_ & _ & Hnow1 & _).
      destruct (adv_both_quiet cfg y1 (gw_now (y_gw y1) + d) Hpost ltac:(lia)) as (y2 & E2 & HQ2 & Hn2 & Hb2 & Hh2 & _).
      exists y1, y2. eexists. exists []. split; [exact E0|]. split; [|split; [|split]].
      * change (sys_step cfg y1 (SAdv d)) with (advance_to adv_fuel cfg y1 (sys_now y1 + d)).
        unfold sys_now. rewrite Hnow1, N.max_id, Ef, (adv_to_quiet cfg y1 _ f Hpost). exact E2.
      * rewrite app_nil_r, Hn0. reflexivity.
      * apply (QuietS_frame cfg y y2 subs HS HQ2); [rewrite Hb2, Hb1; exact Hb0|rewrite Hh2, Hh1; exact Hh0].
      * rewrite Hn2, Hn1, Hn0. reflexivity.
    + pose proof Hpost as HH1. cbv beta iota in HH1. rewrite Hn0 in HH1.
      destruct (adv2 retain topic mid payload hs Hs Hw Hm cfg r2 y1 (hd_after2 b2 (Some dup)) 0 (gw_now (y_gw y) + rd)
                  adv_fuel (gw_now (y_gw y1) + d) HH1 Hhs1 ltac:(cbn [length] in Hrc2; lia) Hrd)
        as (y2 & E2 & HQ2 & Hn2 & Hb2 & Hh2).
      { rewrite Hkc1, Hkg1, Hkc0, Hkg0. destruct b2; cbn [faults_ok] in Hfaults2; [exact (proj2 Hfaults2)|exact (proj2 (proj2 Hfaults2))]. }
      { rewrite Hn1, Hn0. cbn [length] in Hd. fold rd. lia. }
      { unfold adv_fuel. cbn [length] in Hk. lia. }
      exists y1, y2. eexists. eexists. split; [exact E0|]. split; [|split; [|split]].
      * rewrite (sys_step_adv2 cfg y1 _ _ _ _ d HH1). exact E2.
      * rewrite Hn0. cbn [trace1]. rewrite (trace2_rest retain topic mid payload hs rd (b2 :: r2)). cbn [rest2 app].
        destruct b2; reflexivity.
      * apply (QuietS_frame cfg y y2 subs HS HQ2); [rewrite Hb2, Hb1; exact Hb0|rewrite Hh2, Hh1; exact Hh0].
      * rewrite Hn2, Hn1, Hn0. reflexivity.
  - (* the first transmission fails *)
    destruct (R1f retain topic mid payload Hs Hw Hm Hp cfg y0 None _ 0 _
                (S (S (S (S (S (S (S (S (S (S pump_rest)))))))))) dup (nth_fault (e_g2c cfg) (y_g2c_k y)) b1 HH0)
      as (y1 & E1 & HH1 & Hn1 & Hb1 & Hh1 & Hkc1 & Hkg1).
    { rewrite Hkc0. destruct b1; cbn [faults1] in Hfaults; [exact (proj1 Hfaults)|]. destruct Hfaults as (A & B & _). split; assumption. }
    unfold pump_rest11 in E0. rewrite E1 in E0.
    assert (Efl : nth_fault (e_g2c cfg) (y_g2c_k y) = fl_of b1) by (destruct b1; cbn [faults1] in Hfaults; exact (proj1 Hfaults)).
    destruct (adv1 retain topic mid payload hs Hs Hw Hm Hp cfg rs2 r1 y1 (if b1 then None else Some dup) dup 0 (gw_now (y_gw y) + rd)
                adv_fuel (gw_now (y_gw y1) + d) HH1 ltac:(rewrite Hh1; exact Hhs0) ltac:(cbn [length] in Hrc1; lia) Hrc2 Hrd)
      as (y2 & E2 & HQ2 & Hn2 & Hb2 & Hh2).
    { rewrite Hkc1, Hkg1, Hkc0, Hkg0. destruct b1; cbn [faults1] in Hfaults; [exact (proj2 Hfaults)|exact (proj2 (proj2 Hfaults))]. }
    { rewrite Hn1, Hn0. cbn [length] in Hd. fold rd. lia. }
    { unfold adv_fuel. cbn [length] in Hk. lia. }
    exists y1, y2. eexists. eexists. split; [exact E0|]. split; [|split; [|split]].
    + rewrite (sys_step_adv2 cfg y1 _ _ _ _ d HH1). exact E2.
    + rewrite Efl, Hn0. cbn [trace1 app]. destruct b1; reflexivity.
    + apply (QuietS_frame cfg y y2 subs HS HQ2); [rewrite Hb2, Hb1; exact Hb0|rewrite Hh2, Hh1; exact Hh0].
    + rewrite Hn2, Hn1, Hn0. reflexivity.
Qed.

(* ------------------------------------------------------------------ what the trace says *)

Lemma trace2_facts retain topic mid payload h rd rs2 : forall T hd,
  cbs_full (trace2 retain topic mid payload [h] rd rs2 T hd) =
    match hd with Some dp => [(h, topic, payload, 2, retain, dp, mid)] | None => [] end /\
  brs_of (trace2 retain topic mid payload [h] rd rs2 T hd) = [MqPubcomp mid] /\
  rets_of (trace2 retain topic mid payload [h] rd rs2 T hd) = [].
Proof.
  induction rs2 as [|b r IH]; intros T hd.
  - destruct hd; repeat split.
  - destruct (IH (T + rd) (hd_after2 b hd)) as (I1 & I2 & I3).
    unfold cbs_full, brs_of, rets_of in *. cbn [trace2 flat_map]. rewrite !flat_map_app, I1, I2, I3.
    destruct b, hd; repeat split.
Qed.

(* the handler runs exactly once (with the DUP flag of the copy of the PUBLISH the client received last: the broker's flag
   if phase 1 succeeds at once, set otherwise); the broker receives exactly PUBREC and PUBCOMP; no call returns *)
Lemma trace1_facts retain topic mid payload h rd rs2 rs1 : forall T dp,
  cbs_full (trace1 retain topic mid payload [h] rd rs1 rs2 T dp) =
    [(h, topic, payload, 2, retain, match rs1 with [] => dp | _ => true end, mid)] /\
  brs_of (trace1 retain topic mid payload [h] rd rs1 rs2 T dp) = [MqPubrec mid; MqPubcomp mid] /\
  rets_of (trace1 retain topic mid payload [h] rd rs1 rs2 T dp) = [].
Proof.
  induction rs1 as [|b r IH]; intros T dp.
  - destruct (trace2_facts retain topic mid payload h rd rs2 T (Some dp)) as (I1 & I2 & I3).
    unfold cbs_full, brs_of, rets_of in *. cbn [trace1 flat_map app]. rewrite I1, I2, I3. repeat split.
  - destruct (IH (T + rd) true) as (I1 & I2 & I3).
    unfold cbs_full, brs_of, rets_of in *. cbn [trace1 flat_map]. rewrite !flat_map_app, I1, I2, I3.
    destruct b, r; repeat split.
Qed.

(* ------------------------------------------------------------------ a concrete instance *)

(* ecfg0 (RetryCount 3, RetryDelay 10 s) after Connect and Subscribe "ab" QoS 2 (two datagrams each way so far); from now on:
   the PUBLISH is lost; its retransmission is delivered but the PUBREC is lost; the third round gets through; the PUBREL is
   delivered (the handler runs) but the PUBCOMP is lost; the retransmitted PUBREL is lost; the next one and its PUBCOMP get through *)
Definition ecfgL3 : e2e_cfg :=
  {| e_gw := gcfg0; e_cl := ccfg0;
     e_c2g := [FDeliver; FDeliver; FDrop; FDeliver; FDrop];
     e_g2c := [FDeliver; FDeliver; FDrop; FDeliver; FDeliver; FDeliver; FDrop] |}.

Lemma q2_y0_quiet_any c2g g2c : QuietS {| e_gw := gcfg0; e_cl := ccfg0; e_c2g := c2g; e_g2c := g2c |} q2_y0 [q2_sub].
Proof.
  destruct q2_y0_quiet as ((HC & HG & Hnow & Hcid & Hbc & Heof) & Hr). split; [|exact Hr].
  split; [exact HC|]. split; [exact HG|]. split; [exact Hnow|]. split; [exact Hcid|]. split; assumption.
Qed.

Example q2_pattern_instance :
  exists y1 y2 tr1 tr2,
    sys_step ecfgL3 q2_y0 (SBpub (MqPublish false 2 false [97; 98] 1000 [7])) = (y1, tr1) /\
    sys_step ecfgL3 y1 (SAdv 45000) = (y2, tr2) /\
    cbs_full (tr1 ++ tr2) = [(2, [97; 98], [7], 2, false, true, 1000)] /\
    brs_of (tr1 ++ tr2) = [MqPubrec 1000; MqPubcomp 1000] /\ rets_of (tr1 ++ tr2) = [] /\
    QuietS ecfgL3 y2 [q2_sub] /\ gw_now (y_gw y2) = 45000.
Proof.
  destruct (C16_qos2_survives_any_loss_pattern ecfgL3 q2_y0 [q2_sub] q2_sub false false 1000 [7] [true; false] [false; true] 45000)
    as (y1 & y2 & tr1 & tr2 & E1 & E2 & Et & HS & Hn).
  - apply q2_y0_quiet_any.
  - left. reflexivity.
  - lia.
  - reflexivity.
  - vm_compute. reflexivity.
  - vm_compute. intros H. discriminate H.
  - vm_compute. intros H. discriminate H.
  - vm_compute. reflexivity.
  - vm_compute. repeat split; reflexivity.
  - vm_compute. intros H. discriminate H.
  - destruct (trace1_facts false [97; 98] 1000 [7] 2 (retry_delay (e_gw ecfgL3)) [false; true] [true; false] (gw_now (y_gw q2_y0)) false)
      as (F1 & F2 & F3).
    exists y1, y2, tr1, tr2. split; [exact E1|]. split; [exact E2|]. rewrite Et. change (sub_topic q2_sub) with [97; 98].
    change (sub_id q2_sub) with 2.
    split; [exact F1|]. split; [exact F2|]. split; [exact F3|]. split; [exact HS|]. rewrite Hn. vm_compute. reflexivity.
Qed.

(* the same run, computed: the exact traces of the model (the duplicate PUBLISH after the lost PUBREC is answered with PUBREC
   again without a handler invocation; the PUBREL after the lost PUBCOMP is answered with PUBCOMP again without a second one) *)
Example q2_pattern_computed :
  fst (sys_run ecfgL3 q2_y0 [SBpub (MqPublish false 2 false [97; 98] 1000 [7]); SAdv 45000]) =
    [[SoBS 0 (MqPublish false 2 false [97; 98] 1000 [7]); SoG2C 0 FDrop [8; 12; 66; 97; 98; 3; 232; 7]];
     [SoG2C 10000 FDeliver [8; 12; 194; 97; 98; 3; 232; 7]; SoC2G 10000 FDrop [4; 15; 3; 232];
      SoG2C 20000 FDeliver [8; 12; 194; 97; 98; 3; 232; 7]; SoC2G 20000 FDeliver [4; 15; 3; 232];
      SoBR 20000 (MqPubrec 1000); SoBS 20000 (MqPubrel 1000);
      SoG2C 20000 FDeliver [4; 16; 3; 232]; SoCb 20000 2 [97; 98] [7] 2 false true 1000; SoC2G 20000 FDrop [4; 14; 3; 232];
      SoG2C 30000 FDrop [4; 16; 3; 232];
      SoG2C 40000 FDeliver [4; 16; 3; 232]; SoC2G 40000 FDeliver [4; 14; 3; 232]; SoBR 40000 (MqPubcomp 1000)]].
Proof. vm_compute. reflexivity. Qed.

(* ------------------------------------------------------------------ assumptions *)

Print Assumptions C16_qos2_survives_any_loss_pattern.
Print Assumptions trace1_facts.
Print Assumptions q2_pattern_instance.
Print Assumptions q2_pattern_computed.
