(* System/RoutingProofs.v — predefined and short topic routing agrees between the client
   library model and the gateway model when they share one predefined-topic configuration (C32). *)
From stdpp Require Import base option list numbers fin_maps nmap.
From Coq Require Import Lia.
From Verif.Base Require Import Bytes BytesProofs.
From Verif.Codec Require Import Packets EncodeProofs.
From Verif.Topics Require Import Predefined PredefinedProofs.
From Verif.Gateway Require Import GwTypes GwStep.
From Verif.Client Require Import ClTypes ClStep.
Open Scope N_scope.

(* client -> gateway, predefined: whichever ID a tool derives from the name (any map order) *)
Lemma predefined_out cfg (s : gw_state) (name : bytes) (i : N) :
  i ∈ get_ids (predefined cfg) (gw_client_id s) name ->
  resolve_client_topic cfg s TIT_PREDEFINED i = Some name.
Proof.
  intros Hin. unfold resolve_client_topic. cbn.
  exact (get_ids_sound (predefined cfg) (gw_client_id s) name i Hin).
Qed.

Lemma decode_encode_short (n : bytes) : is_short_topic n = true -> wf_bytes n -> decode_short (encode_short n) = n.
Proof.
  unfold is_short_topic, len. intros Hl Hw. destruct n as [|a [|b [|c r]]]; cbn [length] in Hl.
  - discriminate.
  - discriminate.
  - inversion Hw as [|? ? Ha Hw']; subst. inversion Hw' as [|? ? Hb _]; subst.
    apply short_topic_dec_enc; apply is_byte_lt; assumption.
  - exfalso. apply N.eqb_eq in Hl. lia.
Qed.

(* client -> gateway, short names *)
Lemma short_out cfg (s : gw_state) (name : bytes) :
  is_short_topic name = true -> wf_bytes name ->
  resolve_client_topic cfg s TIT_SHORT (encode_short name) = Some name.
Proof.
  intros Hs Hw. unfold resolve_client_topic. cbn. f_equal. apply decode_encode_short; assumption.
Qed.

(* gateway -> client: the (type, ID) pair the gateway chooses for a broker topic name *)
Lemma predefined_in (ccfg : cl_cfg) (cs : cl_state) cfg (s : gw_state) (name : bytes) (i : N) :
  k_predef ccfg = predefined cfg -> k_cid ccfg = gw_client_id s ->
  find_registered s name = None ->
  find_topic_id cfg s name = Some (i, TIT_PREDEFINED) ->
  topic_for_publish ccfg cs TIT_PREDEFINED i = Some name.
Proof.
  intros Hp Hc Hr Hf. unfold find_topic_id in Hf. rewrite Hr in Hf.
  destruct (get_id (predefined cfg) (gw_client_id s) name) as [j|] eqn:Hg; [|discriminate].
  inversion Hf; subst j. unfold topic_for_publish. cbn. rewrite Hp, Hc.
  exact (get_id_sound _ _ _ _ Hg).
Qed.

Lemma short_in (ccfg : cl_cfg) (cs : cl_state) (name : bytes) :
  is_short_topic name = true -> wf_bytes name ->
  topic_for_publish ccfg cs TIT_SHORT (encode_short name) = Some name.
Proof.
  intros Hs Hw. unfold topic_for_publish. cbn. f_equal. apply decode_encode_short; assumption.
Qed.
