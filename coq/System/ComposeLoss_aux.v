(* System/ComposeLoss_aux.v — component lemmas for System/ComposeLoss.v (C16, liveness half, first
   cases): what the gateway model (gw_step) and the client library model (cl_step) do, each on its
   own, while a broker PUBLISH (QoS 1, short topic name) waits for its PUBACK and the retry timer of
   the gateway runs:

     GwPendR g o pub mid n T sq    the session holds exactly one transaction (object o, message ID mid):
                                   a broker PUBLISH awaiting PUBACK, stored packet pub, n retransmissions
                                   so far, retry timer (sequence number sq) due at T; nothing else
     gw_bpub1_pend                 GwQuiet --(MQTT PUBLISH QoS 1)--> PUBLISH to the client, GwPendR 0 (now + RetryDelay)
     gw_pend_fire                  GwPendR n T --(time reaches T, n + 1 <= RetryCount)--> the stored packet with DUP,
                                   GwPendR (n + 1) (T + RetryDelay)
     gw_pend_puback                GwPendR --(PUBACK accepted)--> MQTT PUBACK to the broker, GwQuiet
     gw_adv_quiet, cl_adv_quiet    time passing in a quiescent state moves the clock and nothing else

   Style and tactics: see ComposeProofs_aux.v and ComposeProofs2_aux.v (call by value, whitelisted cbn). *)
From stdpp Require Import base option list numbers fin_maps nmap.
From Coq Require Import Lia ZArith ZifyN ZifyNat ZifyBool.
From RecordUpdate Require Import RecordSet.
From Verif.Base Require Import Bytes BytesProofs.
From Verif.Codec Require Import Packets Decode Encode EncodeProofs.
From Verif.Checkers Require Import ChkCodec.
From Verif.Topics Require Import Predefined.
From Verif.Gateway Require Import GwTypes GwStep GwWf.
From Verif.Match Require Import Match MatchProofs.
From Verif.Client Require Import ClTypes ClStep Sound_Client.
From Verif.System Require Import Compose RoutingProofs ComposeProofs_aux ComposeProofs2_aux.
Import RecordSetNotations.
Open Scope N_scope.
Ltac Zify.zify_post_hook ::= Z.div_mod_to_equations.

(* ------------------------------------------------------------------ the pending gateway session *)

Record GwPendR (g : gw_state) (o : N) (pub : packet) (mid n T sq : N) : Prop := {
  gp_st : gw_st g = Active;
  gp_objs : gw_objs g = <[o := TxBrokerPub mid 1 AwaitPuback (RsSn pub) None n]> ∅;
  gp_by_id : gw_by_id g = <[mid := o]> ∅;
  gp_connect : gw_connect g = None;
  gp_timers : gw_timers g = [{| tm_at := T; tm_seq := sq; tm_kind := TmRetry o |}];
  gp_ending : gw_ending g = None; gp_ended : gw_ended g = false; gp_accepted : gw_accepted g = true }.

Ltac rwgp HP := rewrite ?(gp_st _ _ _ _ _ _ _ HP), ?(gp_objs _ _ _ _ _ _ _ HP), ?(gp_by_id _ _ _ _ _ _ _ HP),
  ?(gp_connect _ _ _ _ _ _ _ HP), ?(gp_timers _ _ _ _ _ _ _ HP), ?(gp_ending _ _ _ _ _ _ _ HP), ?(gp_ended _ _ _ _ _ _ _ HP).
Tactic Notation "rwp" := match goal with HP : GwPendR _ _ _ _ _ _ _ |- _ => rwgp HP end.

(* ------------------------------------------------------------------ the gateway: the PUBLISH of the broker *)

Lemma gw_bpub1_pend cfg g dup retain topic mid payload :
  GwQuiet g -> is_short_topic topic = true -> wf_bytes topic -> 1 <= mid < 65536 -> okb payload = true ->
  let pub := Publish dup 1 retain TIT_SHORT (encode_short topic) mid payload in
  exists g1, gw_step cfg g (EvMq (MqPublish dup 1 retain topic mid payload)) = (g1, [OutSn (gw_now g) (pack pub)]) /\
    GwPendR g1 (gw_next_obj g) pub mid 0 (gw_now g + retry_delay cfg) (gw_next_seq g) /\ gw_frame g g1.
Proof.
  intros HG Hs Hw Hm Hp pub. subst pub. eexists. split; [|split].
  - gmq. unfold handle_broker_publish. rewrite Hs. bi. gk. change (2 <? 1) with false. bi.
    unfold new_obj. bi. unfold bp_proceed, set_obj, disarm_obj, arm. gk. rwg. gk.
    rewrite (insert_insert (M:=Nmap)).
    match goal with |- context [sn_send_owned ?s ?o ?p] =>
      val (sn_send_owned s o p) ltac:(unfold sn_send_owned; gk; rwg; bi;
        rewrite (pack_fits p) by (apply wf_pub_short; [lia|assumption|assumption|lia|assumption]); unfold ok; gk) end.
    unfold finish_r. gk. reflexivity.
  - constructor; gk; rwgq HG; try reflexivity. apply (gq_accepted _ HG).
  - repeat split.
Qed.

(* ------------------------------------------------------------------ the gateway: the PUBACK of the client *)

Lemma wf_puback_any tid mid : tid < 65536 -> mid < 65536 -> wf_pkt (Puback tid mid RC_ACCEPTED) = true.
Proof.
  intros Ht Hm. cbn [wf_pkt]. unfold lt16, lt8, RC_ACCEPTED.
  repeat (apply andb_true_iff; split); try reflexivity; apply N.ltb_lt; assumption.
Qed.

Ltac gsnp p Hwf := unfold gw_step; bi; rwp; bi; gk; rwp; bi; rewrite (read_pack_roundtrip p) by Hwf; bi;
  unfold handle_sn, packet_legal; gk; rwp; bi; gk.

Lemma gw_pend_puback cfg g o pub mid n T sq tid :
  GwPendR g o pub mid n T sq -> tid < 65536 -> 1 <= mid < 65536 ->
  exists g', gw_step cfg g (EvSn (pack (Puback tid mid RC_ACCEPTED))) = (g', [OutMq (gw_now g) (MqPuback mid)]) /\
    GwQuiet g' /\ gw_frame g g'.
Proof.
  intros HP Ht Hm. eexists. split; [|split].
  - gsnp (Puback tid mid RC_ACCEPTED) ltac:(apply wf_puback_any; lia).
    unfold get_by_id. gk. rwp. nl. bi. gk. rwp. nl. bi. gk.
    unfold bp_proceed, set_obj, disarm_obj, arm. gk. rwp. gk. unfold mq_send, mq_ack, andthen, ok. bi. gk.
    rewrite N.eqb_refl. gk. rewrite (insert_insert (M:=Nmap)).
    match goal with |- context [finish_obj ?s ?g] =>
      val (finish_obj s g) ltac:(unfold finish_obj, disarm_obj; gk; nl; bi; gk; rwp; nl; bi; gk; rewrite ?N.eqb_refl; gk) end.
    unfold finish_r. gk. reflexivity.
  - constructor; gk; rwgp HP; try reflexivity; try apply Nd_ins_emp. apply (gp_accepted _ _ _ _ _ _ _ HP).
  - repeat split.
Qed.

(* ------------------------------------------------------------------ the gateway: the retry timer *)

Lemma advance_fuel_pend cfg g o pub mid n T sq d : GwPendR g o pub mid n T sq ->
  exists f, advance_fuel cfg g d = S (S f).
Proof.
  intros HP. unfold advance_fuel. rwgp HP. cbn [length].
  set (q := d / _).
  exists (N.to_nat (N.min 100000 (2 + N.of_nat 1 * (2 + q))) - 2)%nat. lia.
Qed.

Lemma fire_pend cfg g o pub mid n T sq :
  GwPendR g o pub mid n T sq -> wf_pkt (set_dup pub) = true -> n + 1 <= retry_count cfg ->
  exists g', fire cfg (g <| gw_now := T |> <| gw_timers := [] |>) (TmRetry o) = (g', [OutSn T (pack (set_dup pub))], HOk) /\
    GwPendR g' o (set_dup pub) mid (n + 1) (T + retry_delay cfg) (gw_next_seq g) /\ gw_now g' = T /\
    gw_client_id g' = gw_client_id g /\ gw_registered g' = gw_registered g /\ gw_keepalive g' = gw_keepalive g.
Proof.
  intros HP Hwf Hn.
  assert (En : (retry_count cfg <? n + 1) = false) by (apply N.ltb_ge; lia).
  eexists. split; [|split; [|split]].
  - unfold fire. gk. rwp. nl. bi. rewrite En. bi. unfold set_obj, arm. gk. rwp. gk.
    rewrite (insert_insert (M:=Nmap)).
    match goal with |- context [sn_send_owned ?s ?ow ?p] =>
      val (sn_send_owned s ow p) ltac:(unfold sn_send_owned; gk; rwp; bi; rewrite (pack_fits p) by exact Hwf; unfold ok; gk) end.
    bi. reflexivity.
  - constructor; gk; rwgp HP; try reflexivity. apply (gp_accepted _ _ _ _ _ _ _ HP).
  - reflexivity.
  - repeat split.
Qed.

Lemma run_timers_pend cfg g o pub mid n T sq f :
  GwPendR g o pub mid n T sq -> wf_pkt (set_dup pub) = true -> n + 1 <= retry_count cfg -> 0 < retry_delay cfg ->
  exists g', run_timers (S (S f)) cfg g T = (g', [OutSn T (pack (set_dup pub))]) /\
    GwPendR g' o (set_dup pub) mid (n + 1) (T + retry_delay cfg) (gw_next_seq g) /\ gw_now g' = T /\
    gw_client_id g' = gw_client_id g /\ gw_registered g' = gw_registered g /\ gw_keepalive g' = gw_keepalive g.
Proof.
  intros HP Hwf Hn Hrd.
  assert (Et : (T + retry_delay cfg <=? T) = false) by (apply N.leb_gt; lia).
  destruct (fire_pend cfg g o pub mid n T sq HP Hwf Hn) as (g' & Ef & HP' & Hnow & Hfr).
  exists g'. split; [|split; [exact HP'|split; [exact Hnow|exact Hfr]]].
  change (run_timers (S (S f)) cfg g T) with
    (match gw_ending g with
     | Some te => if te <=? T then (g <| gw_now := te |> <| gw_ended := true |> <| gw_ending := None |>, [OutEnd te]) else (g, [])
     | None =>
       match min_timer (gw_timers g) with
       | Some tm =>
         if tm_at tm <=? T then
           let s := g <| gw_now := tm_at tm |> <| gw_timers := remove_timer (gw_timers g) tm |> in
           match finish_r (fire cfg s (tm_kind tm)) false false with
           | (s', o) => match run_timers (S f) cfg s' T with (s'', o') => (s'', o ++ o') end
           end
         else (g, [])
       | None => (g, [])
       end
     end).
  rwgp HP. cbn [min_timer]. gk. rewrite N.leb_refl. bi.
  unfold remove_timer. gk. rewrite N.eqb_refl. gk. rewrite Ef. unfold finish_r. bi.
  cbn [run_timers]. rwgp HP'. cbn [min_timer]. gk. rewrite Et. reflexivity.
Qed.

Lemma gw_pend_fire cfg g o pub mid n T sq d :
  GwPendR g o pub mid n T sq -> wf_pkt (set_dup pub) = true -> n + 1 <= retry_count cfg -> 0 < retry_delay cfg ->
  gw_now g + d = T ->
  exists g', gw_step cfg g (EvAdvance d) = (g', [OutSn T (pack (set_dup pub))]) /\
    GwPendR g' o (set_dup pub) mid (n + 1) (T + retry_delay cfg) (gw_next_seq g) /\ gw_now g' = T /\
    gw_client_id g' = gw_client_id g /\ gw_registered g' = gw_registered g /\ gw_keepalive g' = gw_keepalive g.
Proof.
  intros HP Hwf Hn Hrd Hd.
  destruct (advance_fuel_pend cfg g o pub mid n T sq d HP) as (f & Ef).
  destruct (run_timers_pend cfg g o pub mid n T sq f HP Hwf Hn Hrd) as (g' & Er & HP' & Hnow & Hfr).
  exists (g' <| gw_now := T |>). split; [|split; [|split; [reflexivity|exact Hfr]]].
  - unfold gw_step. rwgp HP. rewrite Ef, Hd, Er. rewrite (gp_ended _ _ _ _ _ _ _ HP'). reflexivity.
  - constructor; gk; rwgp HP'; try reflexivity. apply (gp_accepted _ _ _ _ _ _ _ HP').
Qed.

(* ------------------------------------------------------------------ time passing in a quiescent state *)

Lemma run_timers_quiet cfg g t f : GwQuiet g -> run_timers f cfg g t = (g, []).
Proof. intros HG. destruct f; [reflexivity|]. cbn [run_timers]. rwgq HG. reflexivity. Qed.

Lemma gw_adv_quiet cfg g d : GwQuiet g -> gw_step cfg g (EvAdvance d) = (g <| gw_now := gw_now g + d |>, []).
Proof.
  intros HG. unfold gw_step. rewrite (gq_ended _ HG), (run_timers_quiet cfg g _ _ HG), (gq_ended _ HG). reflexivity.
Qed.

Lemma gw_quiet_now g t : GwQuiet g -> GwQuiet (g <| gw_now := t |>).
Proof. intros HG. gw_quiet HG. Qed.

Lemma c_run_timers_quiet cfg c t f : ClQuiet c -> c_run_timers f cfg c t = (c, []).
Proof.
  intros HQ. destruct f; [reflexivity|]. cbn [c_run_timers]. rwq HQ. reflexivity.
Qed.

Lemma cl_adv_quiet cfg c d : ClQuiet c -> cl_step cfg c (CAdv d) = (c <| cl_now := cl_now c + d |>, []).
Proof. intros HQ. unfold cl_step. rewrite (c_run_timers_quiet cfg c _ _ HQ). reflexivity. Qed.

Lemma cl_quiet_now c t : ClQuiet c -> ClQuiet (c <| cl_now := t |>).
Proof. intros HQ. cl_quiet HQ. Qed.

(* the same with the new state as a variable (the end-to-end proofs never look inside it) *)
Lemma gw_adv_quiet_ex cfg g t : GwQuiet g -> gw_now g <= t ->
  exists g1, gw_step cfg g (EvAdvance (t - gw_now g)) = (g1, []) /\ GwQuiet g1 /\ gw_now g1 = t /\
    gw_client_id g1 = gw_client_id g /\ gw_registered g1 = gw_registered g /\ gw_keepalive g1 = gw_keepalive g.
Proof.
  intros HG Ht. exists (g <| gw_now := gw_now g + (t - gw_now g) |>). split; [apply gw_adv_quiet, HG|].
  split; [apply gw_quiet_now, HG|]. split; [cbn [gw_now set]; lia|]. repeat split.
Qed.

Lemma cl_adv_quiet_ex cfg c t : ClQuiet c -> cl_now c <= t ->
  exists c1, cl_step cfg c (CAdv (t - cl_now c)) = (c1, []) /\ ClQuiet c1 /\ cl_now c1 = t /\
    cl_handlers c1 = cl_handlers c /\ cl_registered c1 = cl_registered c /\ cl_next_mid c1 = cl_next_mid c.
Proof.
  intros HQ Ht. exists (c <| cl_now := cl_now c + (t - cl_now c) |>). split; [apply cl_adv_quiet, HQ|].
  split; [apply cl_quiet_now, HQ|]. split; [cbn [cl_now set]; lia|]. repeat split.
Qed.

Print Assumptions gw_bpub1_pend.
Print Assumptions gw_pend_puback.
Print Assumptions gw_pend_fire.
Print Assumptions gw_adv_quiet_ex.
Print Assumptions cl_adv_quiet_ex.
