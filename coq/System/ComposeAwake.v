(* System/ComposeAwake.v — C26, API calls in the AWAKE state of the composed system of System/Compose.v: after Sleep has
   returned (AwakeS of ComposeSleep.v: the client awake and idle, the gateway session still asleep with the QoS 0 messages
   buffered since the last wake-up).  Exact traces for ALL configurations, states, subscriptions and messages in the
   stated ranges; link hypotheses positional (lossless cfg implies them).

     e2e_ping_while_awake           Ping: C2G PINGREQ WITHOUT client ID; the gateway answers itself (the session is asleep): the
                                    buffered PUBLISHes in order, PINGRESP; one handler invocation per message in order; SoRet ROk;
                                    nothing reaches the broker; AwakeS ... []          (ping_trace, ping_trace_facts)
     e2e_disconnect_while_awake     Disconnect: C2G DISCONNECT 0, BR MQTT DISCONNECT, G2C DISCONNECT 0 (written, not queued), SoRet ROk;
                                    client disconnected and cancelled (exits at t + 1 s), session ending, broker connection closed;
                                    the sleep buffer is NOT flushed
     e2e_publish_q0_while_awake     Publish QoS 0 (short topic nobody subscribed to): C2G PUBLISH, SoRet ROk, BR MQTT PUBLISH; AwakeS unchanged
     C26_sleep_cycle_then_ping      from QuietS: [Sleep(ms); SAdv d; Ping]: exact traces, both calls return nil, nothing at the broker
     awake_calls_instance, sleep_then_ping_instance, disconnect_while_awake_loses_buffered   concrete instances / observation

   The component lemmas are in ComposeAwake_aux.v. *)
From stdpp Require Import base option list numbers fin_maps nmap.
From Coq Require Import Lia ZArith ZifyN ZifyNat ZifyBool.
From RecordUpdate Require Import RecordSet.
From Verif.Base Require Import Bytes BytesProofs.
From Verif.Codec Require Import Packets Decode Encode EncodeProofs.
From Verif.Checkers Require Import ChkCodec.
From Verif.Topics Require Import Predefined.
From Verif.Gateway Require Import GwTypes GwStep GwWf.
From Verif.Match Require Import Match MatchProofs.
From Verif.Client Require Import ClTypes ClStep Sound_Client.
From Verif.System Require Import Compose RoutingProofs ComposeProofs_aux ComposeProofs ComposeProofs2_aux ComposeProofs2
  ComposeLoss_aux ComposeLoss ComposeSleep_aux ComposeSleep ComposeAwake_aux.
Import RecordSetNotations.
Open Scope N_scope.
Ltac Zify.zify_post_hook ::= Z.div_mod_to_equations.

(* ------------------------------------------------------------------ 1. Ping in the awake state *)

(* what Ping produces at time t: PINGREQ WITHOUT client ID; the gateway regards the session as asleep and answers itself:
   the buffered PUBLISHes in order, then PINGRESP (nothing goes to the broker); one handler invocation per message, in
   order; Ping returns nil *)
Definition ping_trace (t id : N) (ms : list bmsg) : list sys_out :=
  SoC2G t FDeliver (pack (Pingreq [])) ::
  map (fun m => SoG2C t FDeliver (pack (bm_sn m))) ms ++
  SoG2C t FDeliver (pack Pingresp) :: map (bm_cb t) ms ++ [SoRet t id ROk].

Theorem e2e_ping_while_awake cfg y subs ms0 id :
  AwakeS cfg y subs (map bm_sn ms0) -> Forall (bm_ok subs) ms0 -> N.of_nat (length ms0) <= 9998 ->
  nth_fault (e_c2g cfg) (y_c2g_k y) = FDeliver ->
  (forall i, (i <= length ms0)%nat -> nth_fault (e_g2c cfg) (y_g2c_k y + i) = FDeliver) ->
  let t := gw_now (y_gw y) in
  exists y', sys_step cfg y (SCall id APing) = (y', ping_trace t id ms0) /\
    AwakeS cfg y' subs [] /\ gw_now (y_gw y') = t /\ y_br y' = y_br y /\
    y_c2g_k y' = S (y_c2g_k y) /\ y_g2c_k y' = (y_g2c_k y + S (length ms0))%nat.
Proof.
  intros (HC & HG & (Hnow & Hcid & Hbc & Heof) & (Hb & Hh & Hok)) Hms Hlen Hfc Hfg t. subst t.
  destruct y as [c g b k1 k2 eof]. cbn [y_cl y_gw y_br y_br_eof y_c2g_k y_g2c_k] in *.
  destruct (cl_awake_ping (e_cl cfg) c id HC) as (c1 & Ec1 & HC1 & (Hc1n & Hc1h & _)).
  destruct (gw_asleep_pingreq (e_gw cfg) g _ [] HG (gbuf_wf subs ms0 Hok Hms) eq_refl) as (g2 & Eg2 & HG2 & (Hg2n & Hg2c & _)).
  assert (Eo : map (fun e : option N * packet => OutSn (gw_now g) (pack (snd e))) (gbuf (map bm_sn ms0)) ++
               [OutSn (gw_now g) (pack Pingresp)] =
               map (OutSn (gw_now g)) (map (fun m => pack (bm_sn m)) ms0 ++ [pack Pingresp])).
  { unfold gbuf. rewrite map_app, !map_map. reflexivity. }
  rewrite Eo in Eg2. clear Eo.
  destruct (pump_fuel_split (length ms0) Hlen) as (f & Ef).
  destruct (pump_cl_pubs cfg subs _ _ _ _ g2 b (S k1) (k2 + length (map (fun m => pack (bm_sn m)) ms0 ++ [pack Pingresp])) eof
              ms0 (S f) c1 [ToCl (pack Pingresp)] HC1 ltac:(rewrite Hc1h; exact Hh) Hok Hms)
    as (c2 & HC2 & (Hc2n & Hc2h & _) & _ & Ep).
  destruct (cl_awake_pingresp (e_cl cfg) c2 _ _ _ _ HC2) as (c3 & Ec3 & HC3 & (Hc3n & Hc3h & _)).
  eexists. split; [|split; [|split; [|split; [|split]]]].
  - unfold sys_step. sk. rewrite Ec1. sk. rewrite Hfc. sk. ynorm.
    rewrite Ef. rewrite pump_S. sk. rewrite Eg2. ynorm.
    rewrite gw_outs_deliver.
    2:{ intros i Hi. rewrite app_length, map_length in Hi. cbn [length] in Hi. apply Hfg. lia. }
    rewrite map_app, map_map. cbn [map app]. rewrite Ep.
    rewrite pump_S. sk. rewrite Ec3. sk. rewrite pump_nil.
    unfold ping_trace. rewrite map_app, map_map. cbn [map]. rewrite Hc2n, Hc1n, Hnow. rewrite <- !app_assoc. reflexivity.
  - unfold AwakeS. sk. split; [exact HC3|]. split; [exact HG2|]. split; [|split; [exact Hb|split; [|exact Hok]]].
    + unfold Linked. sk. split; [rewrite Hc3n, Hc2n, Hc1n, Hg2n; exact Hnow|]. split; [rewrite Hg2c; exact Hcid|]. split; assumption.
    + sk. rewrite Hc3h, Hc2h, Hc1h. exact Hh.
  - exact Hg2n.
  - reflexivity.
  - reflexivity.
  - sk. rewrite app_length, map_length. cbn [length]. lia.
Qed.

Lemma ping_trace_facts t id ms :
  cbs_full (ping_trace t id ms) = map bm_rec ms /\ rets_of (ping_trace t id ms) = [(id, ROk)] /\ brs_of (ping_trace t id ms) = [].
Proof.
  unfold ping_trace, cbs_full, rets_of, brs_of. cbn [flat_map app]. rewrite !flat_map_app. cbn [flat_map app]. rewrite !flat_map_app.
  cbn [flat_map]. split; [|split].
  - rewrite (flat_map_map_nil _ _ ms) by reflexivity. rewrite (flat_map_map_one _ (bm_cb t) bm_rec ms) by reflexivity.
    rewrite app_nil_r. reflexivity.
  - rewrite (flat_map_map_nil _ _ ms) by reflexivity. rewrite (flat_map_map_nil _ (bm_cb t) ms) by reflexivity. reflexivity.
  - rewrite (flat_map_map_nil _ _ ms) by reflexivity. rewrite (flat_map_map_nil _ (bm_cb t) ms) by reflexivity. reflexivity.
Qed.

(* ------------------------------------------------------------------ 2. Disconnect in the awake state *)

(* DISCONNECT 0; the gateway tells the broker (MQTT DISCONNECT) and answers DISCONNECT - written, although the session was
   asleep; Disconnect returns nil.  The client is disconnected, its group context cancelled (it exits at t + 1 s); the gateway
   session is ending; the broker connection is closed.  Whatever is in the sleep buffer is NOT delivered. *)
Theorem e2e_disconnect_while_awake cfg y subs buf id : AwakeS cfg y subs buf ->
  nth_fault (e_c2g cfg) (y_c2g_k y) = FDeliver -> nth_fault (e_g2c cfg) (y_g2c_k y) = FDeliver ->
  let t := gw_now (y_gw y) in
  exists y', sys_step cfg y (SCall id ADisconnect) =
    (y', [SoC2G t FDeliver (pack (Disconnect 0)); SoBR t MqDisconnect;
          SoG2C t FDeliver (pack (Disconnect 0)); SoRet t id ROk]) /\
    cl_st (y_cl y') = Disconnected /\ gw_st (y_gw y') = Disconnected /\ b_closed (y_br y') = true /\
    cl_cancelled (y_cl y') = Some (t + 1000) /\ cl_exited (y_cl y') = false /\
    (exists te, gw_ending (y_gw y') = Some te) /\ gw_ended (y_gw y') = false /\ gw_buffer (y_gw y') = gbuf buf.
Proof.
  intros (HC & HG & (Hnow & Hcid & Hbc & Heof) & _) Hfc Hfg t. subst t.
  destruct y as [c g b k1 k2 eof]. cbn [y_cl y_gw y_br y_br_eof y_c2g_k y_g2c_k] in *.
  destruct (cl_awake_disconnect (e_cl cfg) c id HC) as (c1 & c' & Ec1 & Ec2 & Hst & Hcanc & Hex & Hcn & _).
  destruct (gw_asleep_disconnect (e_gw cfg) g _ HG) as (g' & Eg1 & Hgst & (te & Hend) & Hended & Hgn & Hgb).
  pose proof (gw_eof_ending2 (e_gw cfg) g' te Hended Hend) as Eg2.
  eexists. split.
  - unfold sys_step. sk. rewrite Ec1. sk. rewrite Hfc. sk.
    rewrite pump_fuel_eq. sk. rewrite Eg1. sk. rewrite Hfg. sk.
    unfold broker_recv. rewrite Hbc. sk. rewrite Heof. sk.
    rewrite Ec2. sk. rewrite Eg2. sk.
    rewrite Hnow. reflexivity.
  - sk. split; [exact Hst|]. split; [exact Hgst|]. split; [reflexivity|]. split; [rewrite Hcanc, Hnow; reflexivity|].
    split; [exact Hex|]. split; [exists te; exact Hend|]. split; [exact Hended|exact Hgb].
Qed.

(* ------------------------------------------------------------------ 3. Publish QoS 0 in the awake state *)

(* (no subscription of this client on that topic: otherwise the broker routes the message back and the gateway buffers it) *)
Theorem e2e_publish_q0_while_awake cfg y subs buf id topic retain payload : AwakeS cfg y subs buf ->
  is_short_topic topic = true -> wf_bytes topic -> has_wildcard topic = false -> okb payload = true ->
  ~ In topic (map sub_topic subs) ->
  nth_fault (e_c2g cfg) (y_c2g_k y) = FDeliver ->
  let t := gw_now (y_gw y) in
  let mid := cl_next_mid (y_cl y) in
  exists y', sys_step cfg y (SCall id (APublish topic 0 retain payload)) =
    (y', [SoC2G t FDeliver (pack (Publish false 0 retain TIT_SHORT (encode_short topic) mid payload));
          SoRet t id ROk; SoBR t (MqPublish false 0 retain topic mid payload)]) /\
    AwakeS cfg y' subs buf /\ gw_now (y_gw y') = t /\ y_br y' = y_br y /\
    y_c2g_k y' = S (y_c2g_k y) /\ y_g2c_k y' = y_g2c_k y.
Proof.
  intros (HC & HG & (Hnow & Hcid & Hbc & Heof) & (Hb & Hh & Hok)) Hs Hw Hwild Hp Hns Hfc t mid. subst t mid.
  destruct y as [c g b k1 k2 eof]. cbn [y_cl y_gw y_br y_br_eof y_c2g_k y_g2c_k] in *.
  pose proof (cs_mid _ _ _ _ _ HC) as Hmid.
  assert (Hnm : sub_matching (b_subs b) topic = []) by (rewrite Hb; apply sub_matching_none; [exact (proj1 Hok)|exact Hns]).
  destruct (cl_awake_pub0 (e_cl cfg) c id topic retain payload HC Hs Hw Hp) as (c' & Ec1 & HC' & (Hcn & Hch & _)).
  destruct (gw_asleep_pub0 (e_gw cfg) g _ topic retain (cl_next_mid c) payload HG Hs Hw Hwild ltac:(lia) Hp)
    as (g' & Eg1 & HG' & (Hgn & Hgc & _)).
  eexists. split; [|split; [|split; [|split; [|split]]]].
  - unfold sys_step. sk. rewrite Ec1. sk. rewrite Hfc. sk.
    rewrite pump_fuel_eq. sk. rewrite Eg1. sk.
    unfold broker_recv, route. rewrite Hbc. sk. rewrite Hnm. sk. rewrite Hbc. sk.
    rewrite Hnow. reflexivity.
  - unfold AwakeS. sk. split; [exact HC'|]. split; [exact HG'|]. split; [|split; [exact Hb|split; [|exact Hok]]].
    + unfold Linked. sk. split; [rewrite Hcn, Hgn; exact Hnow|]. split; [rewrite Hgc; exact Hcid|]. split; assumption.
    + sk. rewrite Hch. exact Hh.
  - exact Hgn.
  - reflexivity.
  - reflexivity.
  - reflexivity.
Qed.

(* ------------------------------------------------------------------ 4. a sleep cycle, then Ping *)

Theorem C26_sleep_cycle_then_ping cfg y subs id ms d id2 :
  QuietS cfg y subs -> 1000 <= ms -> ms / 1000 < 65536 ->
  gw_keepalive (y_gw y) = 0 \/ ms / 1000 <= gw_keepalive (y_gw y) ->
  okb (k_cid (e_cl cfg)) = true ->
  (forall i, (i <= 2)%nat -> nth_fault (e_c2g cfg) (y_c2g_k y + i) = FDeliver) ->
  (forall i, (i <= 2)%nat -> nth_fault (e_g2c cfg) (y_g2c_k y + i) = FDeliver) ->
  ms <= d ->
  let t := gw_now (y_gw y) in
  exists oss y', sys_run cfg y [SCall id (ASleep ms); SAdv d; SCall id2 APing] = (oss, y') /\
    oss = [[SoC2G t FDeliver (pack (Disconnect (ms / 1000))); SoG2C t FDeliver (pack (Disconnect 0))];
           [SoC2G (t + ms) FDeliver (pack (Pingreq (k_cid (e_cl cfg)))); SoG2C (t + ms) FDeliver (pack Pingresp);
            SoRet (t + ms) id ROk];
           [SoC2G (t + d) FDeliver (pack (Pingreq [])); SoG2C (t + d) FDeliver (pack Pingresp); SoRet (t + d) id2 ROk]] /\
    rets_of (concat oss) = [(id, ROk); (id2, ROk)] /\ brs_of (concat oss) = [] /\ cbs_full (concat oss) = [] /\
    AwakeS cfg y' subs [] /\ gw_now (y_gw y') = t + d /\ y_br y' = y_br y.
Proof.
  intros HQ Hms Hdur Hnp Hokc Hfc Hfg Hd t. subst t.
  destruct (C26_sleep_cycle cfg y subs id ms [] d HQ Hms Hdur Hnp ltac:(constructor) ltac:(cbn [length]; lia) Hokc)
    as (y1 & E1 & HA1 & Hn1 & Hb1 & Hkc1 & Hkg1).
  - rewrite <- (Hfc O ltac:(lia)). f_equal. lia.
  - rewrite <- (Hfc 1%nat ltac:(lia)). f_equal. lia.
  - intros i Hi. cbn [length] in Hi. apply Hfg. lia.
  - exact Hd.
  - destruct (e2e_ping_while_awake cfg y1 subs [] id2 HA1 ltac:(constructor) ltac:(cbn [length]; lia))
      as (y2 & E2 & HA2 & Hn2 & Hb2 & _).
    + rewrite Hkc1. rewrite <- (Hfc 2%nat ltac:(lia)). f_equal. lia.
    + intros i Hi. cbn [length] in Hi. rewrite Hkg1. cbn [length]. rewrite <- (Hfg 2%nat ltac:(lia)). f_equal. lia.
    + eexists. exists y2. split; [|split; [reflexivity|split; [reflexivity|split; [reflexivity|split; [reflexivity|
        split; [exact HA2|split; [rewrite Hn2; exact Hn1|rewrite Hb2; exact Hb1]]]]]]].
      unfold cycle_evs in E1. cbn [map app] in E1.
      change [SCall id (ASleep ms); SAdv d; SCall id2 APing] with ([SCall id (ASleep ms); SAdv d] ++ [SCall id2 APing]).
      rewrite (sys_run_app cfg _ [SCall id2 APing] y _ y1 [ping_trace (gw_now (y_gw y1)) id2 []] y2 E1).
      * rewrite Hn1. reflexivity.
      * cbn [sys_run]. rewrite E2. reflexivity.
Qed.

(* ------------------------------------------------------------------ 5. concrete instances; observation *)

Example awake_calls_instance :
  fst (sys_run ecfg0 loss_y0 [SCall 3 (ASleep 5000); SAdv 6000; SBpub (bm_mq sl_m1); SBpub (bm_mq sl_m2); SCall 4 APing;
                              SCall 5 (APublish [99; 100] 0 true [1; 2]); SCall 6 ADisconnect; SAdv 5000]) =
    [[SoC2G 0 FDeliver [4; 24; 0; 5]; SoG2C 0 FDeliver [2; 24]];
     [SoC2G 5000 FDeliver [4; 22; 99; 49]; SoG2C 5000 FDeliver [2; 23]; SoRet 5000 3 ROk];
     [SoBS 6000 (bm_mq sl_m1)]; [SoBS 6000 (bm_mq sl_m2)];
     [SoC2G 6000 FDeliver [2; 22];
      SoG2C 6000 FDeliver [8; 12; 2; 97; 98; 0; 0; 7]; SoG2C 6000 FDeliver [8; 12; 18; 97; 98; 0; 0; 8]; SoG2C 6000 FDeliver [2; 23];
      SoCb 6000 2 [97; 98] [7] 0 false false 0; SoCb 6000 2 [97; 98] [8] 0 true false 0; SoRet 6000 4 ROk];
     [SoC2G 6000 FDeliver [9; 12; 18; 99; 100; 0; 2; 1; 2]; SoRet 6000 5 ROk; SoBR 6000 (MqPublish false 0 true [99; 100] 2 [1; 2])];
     [SoC2G 6000 FDeliver [2; 24]; SoBR 6000 MqDisconnect; SoG2C 6000 FDeliver [2; 24]; SoRet 6000 6 ROk];
     [SoGwEnd 6100; SoExit 7000]].
Proof. vm_compute. reflexivity. Qed.

Example sleep_then_ping_instance :
  exists oss y', sys_run ecfg0 loss_y0 [SCall 3 (ASleep 5000); SAdv 6000; SCall 4 APing] = (oss, y') /\
    rets_of (concat oss) = [(3, ROk); (4, ROk)] /\ brs_of (concat oss) = [] /\ AwakeS ecfg0 y' [loss_sub] [].
Proof.
  destruct (C26_sleep_cycle_then_ping ecfg0 loss_y0 [loss_sub] 3 5000 6000 4) as (oss & y' & E & _ & Hr & Hb & _ & HA & _).
  - exact loss_y0_quiet.
  - lia.
  - lia.
  - right. vm_compute. intros H. discriminate H.
  - reflexivity.
  - intros i _. apply nth_fault_nil.
  - intros i _. apply nth_fault_nil.
  - lia.
  - exists oss, y'. split; [exact E|]. split; [exact Hr|]. split; [exact Hb|exact HA].
Qed.

(* Observation: Disconnect in the awake state while the gateway still buffers messages - they are lost (never written to
   the client; no handler invocation), and the call still returns nil *)
Example disconnect_while_awake_loses_buffered :
  skipn 4 (fst (sys_run ecfg0 loss_y0 [SCall 3 (ASleep 5000); SAdv 6000; SBpub (bm_mq sl_m1); SBpub (bm_mq sl_m2);
                                       SCall 4 ADisconnect; SAdv 5000])) =
    [[SoC2G 6000 FDeliver [2; 24]; SoBR 6000 MqDisconnect; SoG2C 6000 FDeliver [2; 24]; SoRet 6000 4 ROk];
     [SoGwEnd 6100; SoExit 7000]].
Proof. vm_compute. reflexivity. Qed.

(* ------------------------------------------------------------------ 6. assumptions *)

Print Assumptions e2e_ping_while_awake.
Print Assumptions ping_trace_facts.
Print Assumptions e2e_disconnect_while_awake.
Print Assumptions e2e_publish_q0_while_awake.
Print Assumptions C26_sleep_cycle_then_ping.
Print Assumptions awake_calls_instance.
Print Assumptions sleep_then_ping_instance.
Print Assumptions disconnect_while_awake_loses_buffered.
