(* System/ComposeSleepQ1_aux.v — component lemmas for System/ComposeSleepQ1.v: one broker PUBLISH with QoS 1
   (short topic name) for a sleeping client, what the gateway session model and the client library model do,
   each on its own.

     GwPd g st buf o pub mid Tr sq   the session (state st, sleep buffer buf) holds exactly one transaction: object o,
                                     message ID mid, a broker PUBLISH (stored packet pub) awaiting PUBACK, not yet
                                     retransmitted, its retry timer due at Tr
     gw_asleep_bpub1                 GwSt Asleep [] --MQTT PUBLISH QoS 1--> nothing written; GwPd Asleep [(Some o, pub)],
                                     retry timer at now + RetryDelay
     gw_adv_pd_ex                    time passing before Tr
     gw_pd_pingreq                   PINGREQ: the buffer, PINGRESP; GwPd Asleep [] (transaction and timer stay)
     gw_pd_puback                    PUBACK (the session is asleep again): MQTT PUBACK to the broker; GwSt Asleep []
     cl_st_bpub1                     the client, any ClSt state: PUBACK out, then the handler

   Style and tactics: see ComposeSleep_aux.v. *)
From stdpp Require Import base option list numbers fin_maps nmap.
From Coq Require Import Lia ZArith ZifyN ZifyNat ZifyBool.
From RecordUpdate Require Import RecordSet.
From Verif.Base Require Import Bytes BytesProofs.
From Verif.Codec Require Import Packets Decode Encode EncodeProofs.
From Verif.Checkers Require Import ChkCodec.
From Verif.Topics Require Import Predefined.
From Verif.Gateway Require Import GwTypes GwStep GwWf.
From Verif.Match Require Import Match MatchProofs.
From Verif.Client Require Import ClTypes ClStep Sound_Client.
From Verif.System Require Import Compose RoutingProofs ComposeProofs_aux ComposeProofs2_aux ComposeLoss_aux ComposeSleep_aux.
Import RecordSetNotations.
Open Scope N_scope.
Ltac Zify.zify_post_hook ::= Z.div_mod_to_equations.

(* ------------------------------------------------------------------ the gateway: one broker PUBLISH (QoS 1) pending *)

(* state st, sleep buffer buf; exactly one transaction: object o, message ID mid, a broker PUBLISH (stored packet pub)
   awaiting PUBACK, not retransmitted yet, retry timer (sequence number sq) due at Tr *)
Record GwPd (g : gw_state) (st : cstate) (buf : list (option N * packet)) (o : N) (pub : packet) (mid Tr sq : N) : Prop := {
  gd_st : gw_st g = st; gd_buffer : gw_buffer g = buf;
  gd_objs : gw_objs g = <[o := TxBrokerPub mid 1 AwaitPuback (RsSn pub) None 0]> ∅;
  gd_by_id : gw_by_id g = <[mid := o]> ∅; gd_connect : gw_connect g = None;
  gd_timers : gw_timers g = [{| tm_at := Tr; tm_seq := sq; tm_kind := TmRetry o |}];
  gd_ending : gw_ending g = None; gd_ended : gw_ended g = false; gd_accepted : gw_accepted g = true }.

Ltac rwgd H := rewrite ?(gd_st _ _ _ _ _ _ _ _ H), ?(gd_buffer _ _ _ _ _ _ _ _ H), ?(gd_objs _ _ _ _ _ _ _ _ H),
  ?(gd_by_id _ _ _ _ _ _ _ _ H), ?(gd_connect _ _ _ _ _ _ _ _ H), ?(gd_timers _ _ _ _ _ _ _ _ H),
  ?(gd_ending _ _ _ _ _ _ _ _ H), ?(gd_ended _ _ _ _ _ _ _ _ H).
Tactic Notation "rwgy" :=
  match goal with
  | HS : GwSt _ _ _ |- _ => rwgs HS
  | HD : GwPd _ _ _ _ _ _ _ _ |- _ => rwgd HD
  end.
Ltac gsn_y p Hwf := unfold gw_step; bi; rwgy; bi; gk; rwgy; bi; rewrite (read_pack_roundtrip p) by Hwf; bi;
  unfold handle_sn, packet_legal; gk; rwgy; bi; gk.
Ltac gmq_y := unfold gw_step; bi; rwgy; bi; gk; rwgy; bi; unfold handle_mq; bi.

(* a PUBLISH of the broker (QoS 1, short topic name) for a sleeping client: the transaction is created and its retry
   timer armed as for an active client, but the packet goes to the buffer (owned by the transaction) *)
Lemma gw_asleep_bpub1 cfg g dup retain topic mid payload :
  GwSt g Asleep [] -> is_short_topic topic = true ->
  let pub := Publish dup 1 retain TIT_SHORT (encode_short topic) mid payload in
  exists g', gw_step cfg g (EvMq (MqPublish dup 1 retain topic mid payload)) = (g', []) /\
    GwPd g' Asleep [(Some (gw_next_obj g), pub)] (gw_next_obj g) pub mid (gw_now g + retry_delay cfg) (gw_next_seq g) /\
    gw_frame g g'.
Proof.
  intros HS Hs pub. subst pub. eexists. split; [|split].
  - gmq_y. unfold handle_broker_publish. rewrite Hs. bi. gk. change (2 <? 1) with false. bi.
    unfold new_obj. bi. unfold bp_proceed, set_obj, disarm_obj, arm. gk. rwgy. gk.
    rewrite (insert_insert (M:=Nmap)).
    unfold sn_send_owned. gk. rwgy. bi. unfold ok, finish_r. gk. rwgy. reflexivity.
  - constructor; gk; rwgs HS; try reflexivity. apply (gs_accepted _ _ _ HS).
  - repeat split.
Qed.

(* time passing before the retry timer is due *)
Lemma run_timers_pd cfg g st buf o pub mid Tr sq t f : GwPd g st buf o pub mid Tr sq -> t < Tr ->
  run_timers f cfg g t = (g, []).
Proof.
  intros HD Ht. destruct f; [reflexivity|]. cbn [run_timers]. rwgd HD. cbn [min_timer]. gk.
  assert (E : (Tr <=? t) = false) by (apply N.leb_gt, Ht). rewrite E. reflexivity.
Qed.

Lemma gw_adv_pd_ex cfg g st buf o pub mid Tr sq t : GwPd g st buf o pub mid Tr sq -> gw_now g <= t -> t < Tr ->
  exists g1, gw_step cfg g (EvAdvance (t - gw_now g)) = (g1, []) /\ GwPd g1 st buf o pub mid Tr sq /\ gw_now g1 = t /\
    gw_client_id g1 = gw_client_id g /\ gw_registered g1 = gw_registered g /\ gw_keepalive g1 = gw_keepalive g.
Proof.
  intros HD Ht HtT. exists (g <| gw_now := gw_now g + (t - gw_now g) |>). split; [|split; [|split; [|repeat split]]].
  - unfold gw_step. rewrite (gd_ended _ _ _ _ _ _ _ _ HD).
    rewrite (run_timers_pd cfg g st buf o pub mid Tr sq _ _ HD) by lia. rewrite (gd_ended _ _ _ _ _ _ _ _ HD). reflexivity.
  - constructor; gk; apply HD.
  - cbn [gw_now set]. lia.
Qed.

Lemma gw_deadline_pd g st buf o pub mid Tr sq : GwPd g st buf o pub mid Tr sq -> gw_next_deadline g = Some Tr.
Proof. intros HD. unfold gw_next_deadline. rwgd HD. reflexivity. Qed.

(* PINGREQ of the sleeping client: the buffered PUBLISH, then PINGRESP; asleep again, buffer empty; the transaction
   and its timer stay *)
Lemma gw_pd_pingreq cfg g buf o pub mid Tr sq cid :
  GwPd g Asleep buf o pub mid Tr sq -> Forall (fun e => wf_pkt (snd e) = true) buf -> okb cid = true ->
  exists g', gw_step cfg g (EvSn (pack (Pingreq cid))) =
             (g', map (fun e => OutSn (gw_now g) (pack (snd e))) buf ++ [OutSn (gw_now g) (pack Pingresp)]) /\
    GwPd g' Asleep [] o pub mid Tr sq /\ gw_frame g g'.
Proof.
  intros HD Hwf Hcid. eexists. split; [|split].
  - gsn_y (Pingreq cid) ltac:(apply wf_pingreq, Hcid).
    match goal with |- context [send_all ?s ?b] => rewrite (send_all_awake s b) by (try reflexivity; exact Hwf) end.
    unfold andthen. bi. unfold sn_send, sn_send_owned. gk. rewrite (pack_fits Pingresp) by reflexivity.
    unfold ok, finish_r. bi. gk. reflexivity.
  - constructor; gk; rwgd HD; try reflexivity. apply (gd_accepted _ _ _ _ _ _ _ _ HD).
  - repeat split.
Qed.

(* the client's PUBACK (the session is asleep again by then): MQTT PUBACK to the broker, the transaction is finished *)
Lemma gw_pd_puback cfg g o pub mid Tr sq tid :
  GwPd g Asleep [] o pub mid Tr sq -> tid < 65536 -> 1 <= mid < 65536 ->
  exists g', gw_step cfg g (EvSn (pack (Puback tid mid RC_ACCEPTED))) = (g', [OutMq (gw_now g) (MqPuback mid)]) /\
    GwSt g' Asleep [] /\ gw_frame g g'.
Proof.
  intros HD Ht Hm. eexists. split; [|split].
  - gsn_y (Puback tid mid RC_ACCEPTED) ltac:(apply wf_puback_any; lia).
    unfold get_by_id. gk. rwgy. nl. bi. gk. rwgy. nl. bi. gk.
    unfold bp_proceed, set_obj, disarm_obj, arm. gk. rwgy. gk. unfold mq_send, mq_ack, andthen, ok. bi. gk.
    rewrite N.eqb_refl. gk. rewrite (insert_insert (M:=Nmap)).
    match goal with |- context [finish_obj ?s ?g0] =>
      val (finish_obj s g0) ltac:(unfold finish_obj, disarm_obj; gk; nl; bi; gk; rwgy; nl; bi; gk; rewrite ?N.eqb_refl; gk) end.
    unfold finish_r. gk. reflexivity.
  - constructor; gk; rwgd HD; try reflexivity; try apply Nd_ins_emp. apply (gd_accepted _ _ _ _ _ _ _ _ HD).
  - repeat split.
Qed.

(* ------------------------------------------------------------------ the client: a PUBLISH (QoS 1) in any state with a sleep transaction *)

(* PUBACK out, then the handler, whatever transaction is in progress *)
Lemma cl_st_bpub1 cfg c st objs byt tms dup retain topic mid payload :
  ClSt c st objs byt tms -> is_short_topic topic = true -> wf_bytes topic -> mid < 65536 -> okb payload = true ->
  exists c', cl_step cfg c (CGw (pack (Publish dup 1 retain TIT_SHORT (encode_short topic) mid payload))) =
             (c', CoSn (cl_now c) (pack (Puback (encode_short topic) mid RC_ACCEPTED)) ::
                  cb_out c topic payload 1 retain dup mid) /\
    ClSt c' st objs byt tms /\ cl_frame c c' /\ cl_next_mid c' = cl_next_mid c.
Proof.
  intros HS Hs Hw Hm Hp. eexists. split; [|split; [|split]].
  - cgw_shell_s (Publish dup 1 retain TIT_SHORT (encode_short topic) mid payload)
      ltac:(apply wf_pub_short; [lia|assumption|assumption|assumption|assumption]).
    v_handle ltac:(pk; v_send_s ltac:(apply wf_puback_short; assumption);
      bi; unfold topic_for_publish; pk; rewrite (decode_encode_short topic Hs Hw); bi; unfold dispatch; pk).
    cgw_end_s. reflexivity.
  - constructor; pk; apply HS.
  - repeat split.
  - reflexivity.
Qed.

Print Assumptions gw_asleep_bpub1.
Print Assumptions gw_adv_pd_ex.
Print Assumptions gw_pd_pingreq.
Print Assumptions gw_pd_puback.
Print Assumptions cl_st_bpub1.
