(* System/ComposeSleepQ2b_aux.v — component lemmas for System/ComposeSleepQ2b.v: the second sleep cycle that completes
   a QoS 2 exchange begun in the first (ComposeSleepQ2.v).

     cl_st_bpub2_n / cl_sx_pingresp_n / cl_adv_sx_n   the lemmas of ComposeSleepQ2_aux.v, keeping track of cl_next_obj
     cl_sx_sleep_again    Sleep in the awake state while a PUBLISH (QoS 2) is remembered: asleep at once, nothing sent
     cl_sx_wake_fire      the wake-up timer in that state: PINGREQ
     cl_sx_pubrel         PUBREL for the remembered PUBLISH while waiting for PINGRESP: the handler, PUBCOMP; forgotten
     gw_px_pubcomp        PUBCOMP of the client (session asleep again): MQTT PUBCOMP to the broker; GwSt Asleep []

   Style and tactics: see ComposeSleep_aux.v, ComposeSleepQ2_aux.v. *)
From stdpp Require Import base option list numbers fin_maps nmap.
From Coq Require Import Lia ZArith ZifyN ZifyNat ZifyBool.
From RecordUpdate Require Import RecordSet.
From Verif.Base Require Import Bytes BytesProofs.
From Verif.Codec Require Import Packets Decode Encode EncodeProofs.
From Verif.Checkers Require Import ChkCodec.
From Verif.Topics Require Import Predefined.
From Verif.Gateway Require Import GwTypes GwStep GwWf.
From Verif.Match Require Import Match MatchProofs.
From Verif.Client Require Import ClTypes ClStep Sound_Client.
From Verif.System Require Import Compose RoutingProofs ComposeProofs_aux ComposeProofs2_aux ComposeLoss_aux ComposeSleep_aux
  ComposeSleepQ2_aux.
Import RecordSetNotations.
Open Scope N_scope.
Ltac Zify.zify_post_hook ::= Z.div_mod_to_equations.

(* ------------------------------------------------------------------ the lemmas of ComposeSleepQ2_aux.v with the object counter *)

Lemma cl_st_bpub2_n cfg c st objs byt tms dup retain tit tid mid payload :
  ClSt c st objs byt tms -> wf_pkt (Publish dup 2 retain tit tid mid payload) = true -> mid < 65536 ->
  exists c', cl_step cfg c (CGw (pack (Publish dup 2 retain tit tid mid payload))) = (c', [CoSn (cl_now c) (pack (Pubrec mid))]) /\
    ClSx c' st (<[cl_next_obj c := CxBrokerPub2 mid (Publish dup 2 retain tit tid mid payload)]> objs)
      (<[mid := cl_next_obj c]> ∅) byt tms /\ cl_frame c c' /\ cl_next_obj c' = cl_next_obj c + 1.
Proof.
  intros HS Hwf Hm. destruct (wf_mid3 mid Hm) as (Hwrec & _). eexists. split; [|split; [|split]].
  - cgw_shell_y (Publish dup 2 retain tit tid mid payload) ltac:(exact Hwf).
    v_handle ltac:(pk; unfold c_get_id; pk; rwy; rewrite (Nl_emp (A:=N)); bi; unfold c_new_obj; pk;
                   v_send_y ltac:(exact Hwrec); bi).
    cgw_end_y. reflexivity.
  - constructor; pk; rwcs HS; try reflexivity. apply (cs_mid _ _ _ _ _ HS).
  - repeat split.
  - reflexivity.
Qed.

Lemma cl_sx_pingresp_n cfg c o2 b2 byid g id n ms T sq :
  ClSx c Awake (<[o2 := b2]> (sl_objs g (CxSleep id CtAwaitPingresp n ms))) byid (sl_byt g) [tm_pingresp T sq g] -> o2 <> g ->
  exists c', cl_step cfg c (CGw (pack Pingresp)) = (c', [CoRet (cl_now c) id ROk]) /\
    ClSx c' Awake (<[o2 := b2]> ∅) byid ∅ [] /\ cl_frame c c' /\ cl_next_obj c' = cl_next_obj c.
Proof.
  intros HX Hne. pose proof (sl_byt_pingreq g) as Hpr. unfold tm_pingresp in HX.
  assert (El : (<[o2 := b2]> (sl_objs g (CxSleep id CtAwaitPingresp n ms)) : Nmap ctxn) !! g = Some (CxSleep id CtAwaitPingresp n ms)).
  { rewrite (lookup_insert_ne (M:=Nmap)) by exact Hne. apply Nl_ins. }
  assert (Ed : delete g (<[o2 := b2]> (sl_objs g (CxSleep id CtAwaitPingresp n ms)) : Nmap ctxn) = <[o2 := b2]> ∅).
  { rewrite (delete_insert_ne (M:=Nmap)) by (intros H; apply Hne; symmetry; exact H). unfold sl_objs. rewrite Nd_ins_emp. reflexivity. }
  eexists. split; [|split; [|split]].
  - cgw_shell_y Pingresp ltac:(reflexivity).
    v_handle ltac:(unfold c_get_type; pk; rwy; rewrite Hpr; bi; unfold sl_byt; nl; bi; pk; rwy; rewrite El; bi; pk;
      unfold complete;
      match goal with |- context [c_finish_obj ?s ?g0] =>
        val (c_finish_obj s g0) ltac:(unfold c_finish_obj; pk; rwy; rewrite El; bi; unfold c_disarm; pk; rwy; pk;
                                      rewrite ?N.eqb_refl; pk; rewrite Ed) end;
      bi; res_canc_y; bi; pk; unfold ret; pk).
    cgw_end_y. reflexivity.
  - unfold sl_byt. constructor; pk; rwcx HX; try reflexivity; try apply Nd_ins_emp. apply (cx_mid _ _ _ _ _ _ HX).
  - repeat split.
  - reflexivity.
Qed.

Lemma cl_adv_sx_n cfg c st objs byid byt t : ClSx c st objs byid byt [] -> cl_now c <= t ->
  exists c1, cl_step cfg c (CAdv (t - cl_now c)) = (c1, []) /\ ClSx c1 st objs byid byt [] /\ cl_now c1 = t /\
    cl_handlers c1 = cl_handlers c /\ cl_next_obj c1 = cl_next_obj c.
Proof.
  intros HX Ht. exists (c <| cl_now := cl_now c + (t - cl_now c) |>). split; [|split; [|split; [|split; reflexivity]]].
  - unfold cl_step. destruct (c_advance_fuel cfg c (t - cl_now c)); [reflexivity|].
    rewrite c_run_timers_S. bi. rwcx HX. reflexivity.
  - constructor; pk; apply HX.
  - cbn [cl_now set]. lia.
Qed.

(* ------------------------------------------------------------------ the second Sleep: the client remembers a PUBLISH *)

Definition sl2_objs (g : N) (t : ctxn) (o2 : N) (b2 : ctxn) : Nmap ctxn := <[g := t]> (<[o2 := b2]> ∅).

(* Sleep in the awake state: asleep at once, nothing is sent; the remembered PUBLISH stays *)
Lemma cl_sx_sleep_again cfg c o2 b2 byid id ms : ClSx c Awake (<[o2 := b2]> ∅) byid ∅ [] ->
  exists c', cl_step cfg c (CCall id (ASleep ms)) = (c', []) /\
    ClSx c' Asleep (sl2_objs (cl_next_obj c) (CxSleep id CtSleeping 0 ms) o2 b2) byid (sl_byt (cl_next_obj c))
      [tm_wake (cl_now c + ms) (cl_next_seq c) (cl_next_obj c)] /\
    cl_frame c c'.
Proof.
  intros HX. eexists. split; [|split].
  - unfold cl_step, do_call; bi; rwy; bi. pk. unfold c_new_obj. bi. pk. rwy. bi.
    unfold c_arm, c_set_state, c_set_obj. pk. rwy. rewrite (insert_insert (M:=Nmap)). reflexivity.
  - constructor; pk; rwcx HX; try reflexivity. apply (cx_mid _ _ _ _ _ _ HX).
  - repeat split.
Qed.

Lemma c_advance_fuel_1x cfg c st objs byid byt tm d : ClSx c st objs byid byt [tm] -> exists f, c_advance_fuel cfg c d = S (S f).
Proof.
  intros HS. unfold c_advance_fuel. rwcx HS. cbn [length]. set (q := d / _).
  exists (N.to_nat (N.min 100000 (4 + (N.of_nat 1 + 1) * (3 + q))) - 2)%nat. lia.
Qed.

(* the wake-up timer *)
Lemma cl_sx_wake_fire cfg c g id st n ms o2 b2 byid T sq d :
  ClSx c Asleep (sl2_objs g (CxSleep id st n ms) o2 b2) byid (sl_byt g) [tm_wake T sq g] -> okb (k_cid cfg) = true ->
  cl_now c + d = T ->
  exists c', cl_step cfg c (CAdv d) = (c', [CoSn T (pack (Pingreq (k_cid cfg)))]) /\
    ClSx c' Awake (sl2_objs g (CxSleep id CtAwaitPingresp n ms) o2 b2) byid (sl_byt g)
      [tm_pingresp (T + maxPingrespWait) (cl_next_seq c) g] /\
    cl_now c' = T /\ cl_handlers c' = cl_handlers c /\ cl_registered c' = cl_registered c.
Proof.
  intros HS Hcid Hd. destruct (c_advance_fuel_1x cfg c _ _ _ _ _ d HS) as (f & Ef).
  unfold sl2_objs, sl_byt, tm_wake in HS.
  assert (Et : (T + maxPingrespWait <=? T) = false) by (apply N.leb_gt; unfold maxPingrespWait; lia).
  eexists. split; [|split].
  - unfold cl_step. rewrite Ef, Hd. rewrite c_run_timers_S. bi. rwy. cbn [c_min_timer]. pk. rewrite N.leb_refl. bi. pk.
    rewrite N.eqb_refl. pk.
    match goal with |- context [c_fire ?cfg0 ?s ?k] =>
      val (c_fire cfg0 s k) ltac:(unfold c_fire; pk; rwy; nl; bi; unfold c_set_state, c_set_obj; pk; rwy;
        rewrite (insert_insert (M:=Nmap)); v_send_y ltac:(apply wf_pingreq, Hcid); bi; unfold c_arm; pk) end.
    bi. rewrite c_run_timers_S. bi. pk. rwy. cbn [c_min_timer]. pk.
    rewrite Et. pk. reflexivity.
  - unfold sl2_objs. constructor; pk; rwcx HS; try reflexivity. apply (cx_mid _ _ _ _ _ _ HS).
  - repeat split.
Qed.

Lemma topic_for_publish_ext2 cfg s c tit tid : cl_registered s = cl_registered c ->
  topic_for_publish cfg s tit tid = topic_for_publish cfg c tit tid.
Proof. unfold topic_for_publish. intros ->. reflexivity. Qed.

(* PUBREL for the remembered PUBLISH while the client waits for PINGRESP: the handler, PUBCOMP; the PUBLISH is forgotten *)
Lemma cl_sx_pubrel cfg c g t o2 dup q retain tit tid mid0 mid payload topic tms :
  ClSx c Awake (sl2_objs g t o2 (CxBrokerPub2 mid (Publish dup q retain tit tid mid0 payload))) (<[mid := o2]> ∅) (sl_byt g) tms ->
  o2 <> g -> Forall (fun u => ctimer_obj (ctm_kind u) = g) tms ->
  topic_for_publish cfg c tit tid = Some topic -> mid < 65536 ->
  exists c', cl_step cfg c (CGw (pack (Pubrel mid))) =
               (c', cb_out c topic payload q retain dup mid0 ++ [CoSn (cl_now c) (pack (Pubcomp mid))]) /\
    ClSt c' Awake (sl_objs g t) (sl_byt g) tms /\ cl_frame c c'.
Proof.
  intros HX Hne Htm Ht Hm. destruct (wf_mid3 mid Hm) as (_ & Hwrel & Hwcomp). unfold sl2_objs in HX.
  set (b2 := CxBrokerPub2 mid (Publish dup q retain tit tid mid0 payload)) in *.
  assert (El : (<[g := t]> (<[o2 := b2]> ∅) : Nmap ctxn) !! o2 = Some b2).
  { rewrite (lookup_insert_ne (M:=Nmap)) by (intros H; apply Hne; symmetry; exact H). apply Nl_ins. }
  assert (Ed : delete o2 (<[g := t]> (<[o2 := b2]> ∅) : Nmap ctxn) = sl_objs g t).
  { rewrite (delete_insert_ne (M:=Nmap)) by exact Hne. rewrite Nd_ins_emp. reflexivity. }
  assert (Ef : List.filter (fun u => negb (ctimer_obj (ctm_kind u) =? o2)) tms = tms).
  { clear - Htm Hne. induction Htm as [|u l Hu _ IH]; [reflexivity|]. cbn [List.filter]. rewrite Hu.
    assert (E : (g =? o2) = false) by (apply N.eqb_neq; intros H; apply Hne; symmetry; exact H). rewrite E. cbn [negb]. rewrite IH. reflexivity. }
  eexists. split; [|split].
  - cgw_shell_y (Pubrel mid) ltac:(exact Hwrel).
    v_handle ltac:(pk; rwy; nl; bi; pk; rwy; rewrite El; unfold b2; bi;
                   match goal with |- context [topic_for_publish ?cfg0 ?s ?a ?b] =>
                     rewrite (topic_for_publish_ext2 cfg0 s c a b) by reflexivity end;
                   rewrite Ht; bi; unfold dispatch; pk; fold (cb_out c topic payload q retain dup mid0);
                   v_send_y ltac:(exact Hwcomp); bi;
                   match goal with |- context [c_finish_obj ?s ?g0] =>
                     val (c_finish_obj s g0) ltac:(unfold c_finish_obj; pk; rwy; rewrite El; unfold b2; bi; unfold c_disarm; pk; rwy;
                       fold b2; rewrite Ed, Ef, Nd_ins_emp) end).
    cgw_end_y. reflexivity.
  - constructor; pk; rwcx HX; try reflexivity. apply (cx_mid _ _ _ _ _ _ HX).
  - repeat split.
Qed.

(* ------------------------------------------------------------------ the gateway: PUBCOMP of the client *)

Lemma gw_px_pubcomp cfg g o mid data snpub n Tr sq :
  GwPx g Asleep [] o mid (TxBrokerPub mid 2 AwaitPubcomp data snpub n) Tr sq -> 1 <= mid < 65536 ->
  exists g', gw_step cfg g (EvSn (pack (Pubcomp mid))) = (g', [OutMq (gw_now g) (MqPubcomp mid)]) /\
    GwSt g' Asleep [] /\ gw_frame g g'.
Proof.
  intros HP Hm. destruct (wf_mid3 mid ltac:(lia)) as (_ & _ & Hwf). eexists. split; [|split].
  - gsn_z (Pubcomp mid) ltac:(exact Hwf). get_z.
    unfold bp_proceed, set_obj, disarm_obj, arm. gk. rwz. gk. unfold mq_send, mq_ack, andthen, ok. bi. gk.
    rewrite N.eqb_refl. gk. rewrite (insert_insert (M:=Nmap)).
    match goal with |- context [finish_obj ?s ?g0] =>
      val (finish_obj s g0) ltac:(unfold finish_obj, disarm_obj; gk; nl; bi; gk; rwz; nl; bi; gk; rewrite ?N.eqb_refl; gk) end.
    unfold finish_r. gk. reflexivity.
  - constructor; gk; rwgx2 HP; try reflexivity; try apply Nd_ins_emp. apply (gx_accepted _ _ _ _ _ _ _ _ HP).
  - repeat split.
Qed.

Print Assumptions cl_st_bpub2_n.
Print Assumptions cl_sx_pingresp_n.
Print Assumptions cl_adv_sx_n.
Print Assumptions cl_sx_sleep_again.
Print Assumptions cl_sx_wake_fire.
Print Assumptions cl_sx_pubrel.
Print Assumptions gw_px_pubcomp.
