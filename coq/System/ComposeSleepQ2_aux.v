(* System/ComposeSleepQ2_aux.v — component lemmas for System/ComposeSleepQ2.v: one broker PUBLISH with QoS 2 (short
   topic name) for a sleeping client.

     GwPx g st buf o mid tx Tr sq   the session (state st, sleep buffer buf) holds exactly one transaction (object o, value
                                    tx, message ID mid), its retry timer due at Tr
     gw_asleep_bpub2                GwSt Asleep [] --MQTT PUBLISH QoS 2--> nothing written; the packet is buffered; AwaitPubrec
     gw_px_pingreq                  PINGREQ: the buffer, PINGRESP; buffer empty, transaction and timer stay
     gw_px_pubrec                   PUBREC of the client (session asleep again): MQTT PUBREC to the broker; AwaitPubrel, timer restarted
     gw_px_mqpubrel                 MQTT PUBREL of the broker: PUBREL is NOT written but appended to the buffer; AwaitPubcomp
     gw_adv_px_ex                   time passing before the retry timer
     ClSx c st objs byid byt tms    ClSt of ComposeSleep_aux.v with a table by message ID
     cl_sleep_call_n / cl_sleep_disc_n / cl_wake_fire_n   the lemmas of ComposeSleep_aux.v, keeping track of cl_next_obj
     cl_st_bpub2                    PUBLISH QoS 2: remembered in a new object, PUBREC, no handler
     cl_sx_pingresp                 PINGRESP: Sleep returns nil; the remembered PUBLISH stays
     cl_adv_sx_ex                   time passing, no timer armed

   Style and tactics: see ComposeSleep_aux.v. *)
From stdpp Require Import base option list numbers fin_maps nmap.
From Coq Require Import Lia ZArith ZifyN ZifyNat ZifyBool.
From RecordUpdate Require Import RecordSet.
From Verif.Base Require Import Bytes BytesProofs.
From Verif.Codec Require Import Packets Decode Encode EncodeProofs.
From Verif.Checkers Require Import ChkCodec.
From Verif.Topics Require Import Predefined.
From Verif.Gateway Require Import GwTypes GwStep GwWf.
From Verif.Match Require Import Match MatchProofs.
From Verif.Client Require Import ClTypes ClStep Sound_Client.
From Verif.System Require Import Compose RoutingProofs ComposeProofs_aux ComposeProofs2_aux ComposeLoss_aux ComposeSleep_aux.
Import RecordSetNotations.
Open Scope N_scope.
Ltac Zify.zify_post_hook ::= Z.div_mod_to_equations.

(* ------------------------------------------------------------------ the gateway: one transaction pending *)

(* state st, sleep buffer buf; exactly one transaction: object o (value tx) under message ID mid, its retry timer
   (sequence number sq) due at Tr *)
Record GwPx (g : gw_state) (st : cstate) (buf : list (option N * packet)) (o mid : N) (tx : txn) (Tr sq : N) : Prop := {
  gx_st : gw_st g = st; gx_buffer : gw_buffer g = buf;
  gx_objs : gw_objs g = <[o := tx]> ∅; gx_by_id : gw_by_id g = <[mid := o]> ∅; gx_connect : gw_connect g = None;
  gx_timers : gw_timers g = [{| tm_at := Tr; tm_seq := sq; tm_kind := TmRetry o |}];
  gx_ending : gw_ending g = None; gx_ended : gw_ended g = false; gx_accepted : gw_accepted g = true }.

Ltac rwgx2 H := rewrite ?(gx_st _ _ _ _ _ _ _ _ H), ?(gx_buffer _ _ _ _ _ _ _ _ H), ?(gx_objs _ _ _ _ _ _ _ _ H),
  ?(gx_by_id _ _ _ _ _ _ _ _ H), ?(gx_connect _ _ _ _ _ _ _ _ H), ?(gx_timers _ _ _ _ _ _ _ _ H),
  ?(gx_ending _ _ _ _ _ _ _ _ H), ?(gx_ended _ _ _ _ _ _ _ _ H).
Tactic Notation "rwz" :=
  match goal with
  | HS : GwSt _ _ _ |- _ => rwgs HS
  | HD : GwPx _ _ _ _ _ _ _ _ |- _ => rwgx2 HD
  end.
Ltac gsn_z p Hwf := unfold gw_step; bi; rwz; bi; gk; rwz; bi; rewrite (read_pack_roundtrip p) by Hwf; bi;
  unfold handle_sn, packet_legal; gk; rwz; bi; gk.
Ltac gmq_z := unfold gw_step; bi; rwz; bi; gk; rwz; bi; unfold handle_mq; bi.
Ltac get_z := unfold get_by_id; gk; rwz; nl; bi; gk; rwz; nl; bi; gk.
Ltac gw_px H := constructor; gk; rwgx2 H; try reflexivity; try apply (gx_accepted _ _ _ _ _ _ _ _ H).

Lemma wf_mid3 mid : mid < 65536 -> wf_pkt (Pubrec mid) = true /\ wf_pkt (Pubrel mid) = true /\ wf_pkt (Pubcomp mid) = true.
Proof. intros H. cbn [wf_pkt]. unfold lt16. repeat split; apply N.ltb_lt, H. Qed.

(* a PUBLISH of the broker (QoS 2, short topic name) for a sleeping client: transaction and retry timer as for an active
   client; the packet goes to the buffer *)
Lemma gw_asleep_bpub2 cfg g dup retain topic mid payload :
  GwSt g Asleep [] -> is_short_topic topic = true ->
  let pub := Publish dup 2 retain TIT_SHORT (encode_short topic) mid payload in
  exists g', gw_step cfg g (EvMq (MqPublish dup 2 retain topic mid payload)) = (g', []) /\
    GwPx g' Asleep [(Some (gw_next_obj g), pub)] (gw_next_obj g) mid (TxBrokerPub mid 2 AwaitPubrec (RsSn pub) None 0)
      (gw_now g + retry_delay cfg) (gw_next_seq g) /\
    gw_frame g g'.
Proof.
  intros HS Hs pub. subst pub. eexists. split; [|split].
  - gmq_z. unfold handle_broker_publish. rewrite Hs. bi. gk. change (2 <? 2) with false. bi.
    unfold new_obj. bi. unfold bp_proceed, set_obj, disarm_obj, arm. gk. rwz. gk.
    rewrite (insert_insert (M:=Nmap)).
    unfold sn_send_owned. gk. rwz. bi. unfold ok, finish_r. gk. rwz. reflexivity.
  - constructor; gk; rwgs HS; try reflexivity. apply (gs_accepted _ _ _ HS).
  - repeat split.
Qed.

Lemma run_timers_px cfg g st buf o mid tx Tr sq t f : GwPx g st buf o mid tx Tr sq -> t < Tr ->
  run_timers f cfg g t = (g, []).
Proof.
  intros HD Ht. destruct f; [reflexivity|]. cbn [run_timers]. rwgx2 HD. cbn [min_timer]. gk.
  assert (E : (Tr <=? t) = false) by (apply N.leb_gt, Ht). rewrite E. reflexivity.
Qed.

Lemma gw_adv_px_ex cfg g st buf o mid tx Tr sq t : GwPx g st buf o mid tx Tr sq -> gw_now g <= t -> t < Tr ->
  exists g1, gw_step cfg g (EvAdvance (t - gw_now g)) = (g1, []) /\ GwPx g1 st buf o mid tx Tr sq /\ gw_now g1 = t /\
    gw_client_id g1 = gw_client_id g /\ gw_registered g1 = gw_registered g /\ gw_keepalive g1 = gw_keepalive g.
Proof.
  intros HD Ht HtT. exists (g <| gw_now := gw_now g + (t - gw_now g) |>). split; [|split; [|split; [|repeat split]]].
  - unfold gw_step. rewrite (gx_ended _ _ _ _ _ _ _ _ HD).
    rewrite (run_timers_px cfg g st buf o mid tx Tr sq _ _ HD) by lia. rewrite (gx_ended _ _ _ _ _ _ _ _ HD). reflexivity.
  - constructor; gk; apply HD.
  - cbn [gw_now set]. lia.
Qed.

Lemma gw_deadline_px g st buf o mid tx Tr sq : GwPx g st buf o mid tx Tr sq -> gw_next_deadline g = Some Tr.
Proof. intros HD. unfold gw_next_deadline. rwgx2 HD. reflexivity. Qed.

(* PINGREQ of the sleeping client: the buffer, PINGRESP; asleep again, buffer empty; transaction and timer stay *)
Lemma gw_px_pingreq cfg g buf o mid tx Tr sq cid :
  GwPx g Asleep buf o mid tx Tr sq -> Forall (fun e => wf_pkt (snd e) = true) buf -> okb cid = true ->
  exists g', gw_step cfg g (EvSn (pack (Pingreq cid))) =
             (g', map (fun e => OutSn (gw_now g) (pack (snd e))) buf ++ [OutSn (gw_now g) (pack Pingresp)]) /\
    GwPx g' Asleep [] o mid tx Tr sq /\ gw_frame g g'.
Proof.
  intros HD Hwf Hcid. eexists. split; [|split].
  - gsn_z (Pingreq cid) ltac:(apply wf_pingreq, Hcid).
    match goal with |- context [send_all ?s ?b] => rewrite (send_all_awake s b) by (try reflexivity; exact Hwf) end.
    unfold andthen. bi. unfold sn_send, sn_send_owned. gk. rewrite (pack_fits Pingresp) by reflexivity.
    unfold ok, finish_r. bi. gk. reflexivity.
  - gw_px HD.
  - repeat split.
Qed.

(* the client's PUBREC (the session is asleep again): MQTT PUBREC to the broker; awaiting the broker's PUBREL *)
Lemma gw_px_pubrec cfg g buf o mid data snpub n Tr sq :
  GwPx g Asleep buf o mid (TxBrokerPub mid 2 AwaitPubrec data snpub n) Tr sq -> 1 <= mid < 65536 ->
  exists g', gw_step cfg g (EvSn (pack (Pubrec mid))) = (g', [OutMq (gw_now g) (MqPubrec mid)]) /\
    GwPx g' Asleep buf o mid (TxBrokerPub mid 2 AwaitPubrel (RsAck AkPubrec mid) snpub 0)
      (gw_now g + retry_delay cfg) (gw_next_seq g) /\
    gw_frame g g'.
Proof.
  intros HP Hm. destruct (wf_mid3 mid ltac:(lia)) as (Hwf & _). eexists. split; [|split].
  - gsn_z (Pubrec mid) ltac:(exact Hwf). get_z.
    unfold bp_proceed, set_obj, disarm_obj, arm. gk. rwz. gk. unfold mq_send, mq_ack, ok. bi. gk.
    rewrite N.eqb_refl. gk. rewrite (insert_insert (M:=Nmap)).
    unfold finish_r. gk. reflexivity.
  - gw_px HP.
  - repeat split.
Qed.

(* the broker's PUBREL for the sleeping client: PUBREL is NOT written; it is appended to the buffer; awaiting PUBCOMP *)
Lemma gw_px_mqpubrel cfg g buf o mid data snpub n Tr sq :
  GwPx g Asleep buf o mid (TxBrokerPub mid 2 AwaitPubrel data snpub n) Tr sq ->
  exists g', gw_step cfg g (EvMq (MqPubrel mid)) = (g', []) /\
    GwPx g' Asleep (buf ++ [(Some o, Pubrel mid)]) o mid (TxBrokerPub mid 2 AwaitPubcomp (RsSn (Pubrel mid)) snpub 0)
      (gw_now g + retry_delay cfg) (gw_next_seq g) /\
    gw_frame g g'.
Proof.
  intros HP. eexists. split; [|split].
  - gmq_z. get_z.
    unfold bp_proceed, set_obj, disarm_obj, arm. gk. rwz. gk.
    rewrite N.eqb_refl. gk. rewrite (insert_insert (M:=Nmap)).
    unfold sn_send_owned. gk. rwz. bi. unfold ok, finish_r. gk. rwz. reflexivity.
  - gw_px HP.
  - repeat split.
Qed.

(* ------------------------------------------------------------------ the client: states with a transaction by message ID *)

Record ClSx (c : cl_state) (st : cstate) (objs : Nmap ctxn) (byid byt : Nmap N) (tms : list ctimer) : Prop := {
  cx_st : cl_st c = st; cx_objs : cl_objs c = objs; cx_by_id : cl_by_id c = byid; cx_by_type : cl_by_type c = byt;
  cx_timers : cl_timers c = tms; cx_canc : cl_cancelled c = None; cx_exited : cl_exited c = false;
  cx_closed : cl_conn_closed c = false; cx_mid : 1 <= cl_next_mid c <= 65535 }.

Ltac rwcx H := rewrite ?(cx_st _ _ _ _ _ _ H), ?(cx_objs _ _ _ _ _ _ H), ?(cx_by_id _ _ _ _ _ _ H), ?(cx_by_type _ _ _ _ _ _ H),
  ?(cx_timers _ _ _ _ _ _ H), ?(cx_canc _ _ _ _ _ _ H), ?(cx_exited _ _ _ _ _ _ H), ?(cx_closed _ _ _ _ _ _ H).
Tactic Notation "rwy" :=
  match goal with
  | HQ : ClQuiet _ |- _ => rwq HQ
  | HS : ClSt _ _ _ _ _ |- _ => rwcs HS
  | HX : ClSx _ _ _ _ _ _ |- _ => rwcx HX
  end.
Ltac res_canc_y := match goal with |- context [cl_cancelled ?s0] =>
  let E := fresh "E" in assert (E : cl_cancelled s0 = None) by (pk; rwy; reflexivity); rewrite E; clear E end.
Ltac cgw_shell_y p Hwf := unfold cl_step; bi; pk; rwy; bi; rewrite (read_pack_roundtrip p) by Hwf; bi.
Ltac cgw_end_y := bi; res_canc_y; bi.
Ltac v_send_y Hwf :=
  match goal with |- context [c_send ?s ?p] =>
    val (c_send s p) ltac:(unfold c_send; pk; rwy; bi; rewrite (pack_fits p) by Hwf; bi; pk) end.

(* the sleep exchange of ComposeSleep_aux.v once more, keeping track of the object counter: the sleep transaction's
   object is older than any object created later *)
Lemma cl_sleep_call_n cfg c id ms : ClQuiet c -> ms / 1000 < 65536 ->
  exists c1, cl_step cfg c (CCall id (ASleep ms)) = (c1, [CoSn (cl_now c) (pack (Disconnect (ms / 1000)))]) /\
    ClSt c1 Active (sl_objs (cl_next_obj c) (CxSleep id CtAwaitDisconnect 0 ms)) (sl_byt (cl_next_obj c))
      [tm_resend (cl_now c + k_rdelay cfg) (cl_next_seq c) (cl_next_obj c)] /\
    cl_frame c c1 /\ cl_next_obj c1 = cl_next_obj c + 1.
Proof.
  intros HQ Hd. eexists. split; [|split; [|split]].
  - ccall. pk. unfold c_new_obj. bi. pk. rwy. bi. rewrite (u16_small (ms / 1000)) by exact Hd.
    v_send_y ltac:(apply wf_disconnect, Hd). bi. unfold c_arm, c_set_obj. pk. rwy.
    rewrite (insert_insert (M:=Nmap)). reflexivity.
  - constructor; pk; rwq HQ; try reflexivity. apply (cq_mid _ HQ).
  - repeat split.
  - reflexivity.
Qed.

Lemma cl_sleep_disc_n cfg c g id n ms T0 sq0 :
  ClSt c Active (sl_objs g (CxSleep id CtAwaitDisconnect n ms)) (sl_byt g) [tm_resend T0 sq0 g] ->
  exists c', cl_step cfg c (CGw (pack (Disconnect 0))) = (c', []) /\
    ClSt c' Asleep (sl_objs g (CxSleep id CtSleeping n ms)) (sl_byt g) [tm_wake (cl_now c + ms) (cl_next_seq c) g] /\
    cl_frame c c' /\ cl_next_obj c' = cl_next_obj c.
Proof.
  intros HS. unfold sl_objs, sl_byt, tm_resend in HS. eexists. split; [|split; [|split]].
  - cgw_shell_y (Disconnect 0) ltac:(reflexivity).
    v_handle ltac:(pk; rwy; nl; bi; pk; rwy; nl; bi; pk; unfold c_disarm, c_arm, c_set_state, c_set_obj; pk; rwy; pk;
                   rewrite N.eqb_refl; pk; rewrite (insert_insert (M:=Nmap))).
    cgw_end_y. reflexivity.
  - constructor; pk; rwcs HS; try reflexivity. apply (cs_mid _ _ _ _ _ HS).
  - repeat split.
  - reflexivity.
Qed.

Lemma cl_wake_fire_n cfg c g id st n ms T sq d :
  ClSt c Asleep (sl_objs g (CxSleep id st n ms)) (sl_byt g) [tm_wake T sq g] -> okb (k_cid cfg) = true ->
  cl_now c + d = T ->
  exists c', cl_step cfg c (CAdv d) = (c', [CoSn T (pack (Pingreq (k_cid cfg)))]) /\
    ClSt c' Awake (sl_objs g (CxSleep id CtAwaitPingresp n ms)) (sl_byt g) [tm_pingresp (T + maxPingrespWait) (cl_next_seq c) g] /\
    cl_now c' = T /\ cl_handlers c' = cl_handlers c /\ cl_next_obj c' = cl_next_obj c.
Proof.
  intros HS Hcid Hd. destruct (c_advance_fuel_1 cfg c _ _ _ _ d HS) as (f & Ef).
  unfold sl_objs, sl_byt, tm_wake in HS.
  assert (Et : (T + maxPingrespWait <=? T) = false) by (apply N.leb_gt; unfold maxPingrespWait; lia).
  eexists. split; [|split].
  - unfold cl_step. rewrite Ef, Hd. rewrite c_run_timers_S. bi. rwy. cbn [c_min_timer]. pk. rewrite N.leb_refl. bi. pk.
    rewrite N.eqb_refl. pk.
    match goal with |- context [c_fire ?cfg0 ?s ?k] =>
      val (c_fire cfg0 s k) ltac:(unfold c_fire; pk; rwy; nl; bi; unfold c_set_state, c_set_obj; pk; rwy;
        rewrite (insert_insert (M:=Nmap)); v_send_y ltac:(apply wf_pingreq, Hcid); bi; unfold c_arm; pk) end.
    bi. rewrite c_run_timers_S. bi. pk. rwy. cbn [c_min_timer]. pk.
    rewrite Et. pk. reflexivity.
  - constructor; pk; rwcs HS; try reflexivity. apply (cs_mid _ _ _ _ _ HS).
  - repeat split.
Qed.

(* a PUBLISH (QoS 2) while no transaction is stored by message ID: remembered in a new object, PUBREC; NO handler *)
Lemma cl_st_bpub2 cfg c st objs byt tms dup retain tit tid mid payload :
  ClSt c st objs byt tms -> wf_pkt (Publish dup 2 retain tit tid mid payload) = true -> mid < 65536 ->
  exists c', cl_step cfg c (CGw (pack (Publish dup 2 retain tit tid mid payload))) = (c', [CoSn (cl_now c) (pack (Pubrec mid))]) /\
    ClSx c' st (<[cl_next_obj c := CxBrokerPub2 mid (Publish dup 2 retain tit tid mid payload)]> objs)
      (<[mid := cl_next_obj c]> ∅) byt tms /\ cl_frame c c'.
Proof.
  intros HS Hwf Hm. destruct (wf_mid3 mid Hm) as (Hwrec & _). eexists. split; [|split].
  - cgw_shell_y (Publish dup 2 retain tit tid mid payload) ltac:(exact Hwf).
    v_handle ltac:(pk; unfold c_get_id; pk; rwy; rewrite (Nl_emp (A:=N)); bi; unfold c_new_obj; pk;
                   v_send_y ltac:(exact Hwrec); bi).
    cgw_end_y. reflexivity.
  - constructor; pk; rwcs HS; try reflexivity. apply (cs_mid _ _ _ _ _ HS).
  - repeat split.
Qed.

(* PINGRESP ends the wake-up cycle; the remembered PUBLISH stays *)
Lemma cl_sx_pingresp cfg c o2 b2 byid g id n ms T sq :
  ClSx c Awake (<[o2 := b2]> (sl_objs g (CxSleep id CtAwaitPingresp n ms))) byid (sl_byt g) [tm_pingresp T sq g] -> o2 <> g ->
  exists c', cl_step cfg c (CGw (pack Pingresp)) = (c', [CoRet (cl_now c) id ROk]) /\
    ClSx c' Awake (<[o2 := b2]> ∅) byid ∅ [] /\ cl_frame c c'.
Proof.
  intros HX Hne. pose proof (sl_byt_pingreq g) as Hpr. unfold tm_pingresp in HX.
  assert (El : (<[o2 := b2]> (sl_objs g (CxSleep id CtAwaitPingresp n ms)) : Nmap ctxn) !! g = Some (CxSleep id CtAwaitPingresp n ms)).
  { rewrite (lookup_insert_ne (M:=Nmap)) by exact Hne. apply Nl_ins. }
  assert (Ed : delete g (<[o2 := b2]> (sl_objs g (CxSleep id CtAwaitPingresp n ms)) : Nmap ctxn) = <[o2 := b2]> ∅).
  { rewrite (delete_insert_ne (M:=Nmap)) by (intros H; apply Hne; symmetry; exact H). unfold sl_objs. rewrite Nd_ins_emp. reflexivity. }
  eexists. split; [|split].
  - cgw_shell_y Pingresp ltac:(reflexivity).
    v_handle ltac:(unfold c_get_type; pk; rwy; rewrite Hpr; bi; unfold sl_byt; nl; bi; pk; rwy; rewrite El; bi; pk;
      unfold complete;
      match goal with |- context [c_finish_obj ?s ?g0] =>
        val (c_finish_obj s g0) ltac:(unfold c_finish_obj; pk; rwy; rewrite El; bi; unfold c_disarm; pk; rwy; pk;
                                      rewrite ?N.eqb_refl; pk; rewrite Ed) end;
      bi; res_canc_y; bi; pk; unfold ret; pk).
    cgw_end_y. reflexivity.
  - unfold sl_byt. constructor; pk; rwcx HX; try reflexivity; try apply Nd_ins_emp. apply (cx_mid _ _ _ _ _ _ HX).
  - repeat split.
Qed.

(* time passing with no timer armed *)
Lemma cl_adv_sx_ex cfg c st objs byid byt t : ClSx c st objs byid byt [] -> cl_now c <= t ->
  exists c1, cl_step cfg c (CAdv (t - cl_now c)) = (c1, []) /\ ClSx c1 st objs byid byt [] /\ cl_now c1 = t /\
    cl_handlers c1 = cl_handlers c.
Proof.
  intros HX Ht. exists (c <| cl_now := cl_now c + (t - cl_now c) |>). split; [|split; [|split; [|reflexivity]]].
  - unfold cl_step. destruct (c_advance_fuel cfg c (t - cl_now c)); [reflexivity|].
    rewrite c_run_timers_S. bi. rwcx HX. reflexivity.
  - constructor; pk; apply HX.
  - cbn [cl_now set]. lia.
Qed.

Lemma cl_deadline_sx c st objs byid byt : ClSx c st objs byid byt [] -> cl_next_deadline c = None.
Proof. intros HX. unfold cl_next_deadline. rwcx HX. reflexivity. Qed.

Print Assumptions gw_asleep_bpub2.
Print Assumptions gw_adv_px_ex.
Print Assumptions gw_px_pingreq.
Print Assumptions gw_px_pubrec.
Print Assumptions gw_px_mqpubrel.
Print Assumptions cl_sleep_call_n.
Print Assumptions cl_sleep_disc_n.
Print Assumptions cl_wake_fire_n.
Print Assumptions cl_st_bpub2.
Print Assumptions cl_sx_pingresp.
Print Assumptions cl_adv_sx_ex.
