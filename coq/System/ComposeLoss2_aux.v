(* System/ComposeLoss2_aux.v — component lemmas for System/ComposeLoss2.v (C16, liveness half, QoS 2):
   what the gateway model (gw_step) and the client library model (cl_step) do, each on its own,
   while a broker PUBLISH with QoS 2 travels to the client and the retry timer of the gateway runs.

     GwHold g o mid tx T sq        the session holds exactly one transaction (object o, stored under message ID
                                   mid, contents tx), its retry timer (sequence number sq) is due at T; nothing else
     gw_bpub2_hold                 GwQuiet --(MQTT PUBLISH QoS 2, short topic name)--> PUBLISH to the client,
                                   GwHold (awaiting PUBREC, stored PUBLISH, 0 retransmissions) (now + RetryDelay)
     gw_hold_fire                  GwHold (stored MQTT-SN packet p, n retransmissions) T --(time reaches T,
                                   n + 1 <= RetryCount)--> set_dup p to the client, GwHold (set_dup p, n + 1) (T + RetryDelay)
     gw_hold_pubrec                GwHold (awaiting PUBREC) --(PUBREC)--> MQTT PUBREC, GwHold (awaiting PUBREL of the broker)
     gw_hold_mqpubrel              GwHold (awaiting PUBREL) --(MQTT PUBREL)--> PUBREL to the client, GwHold (awaiting PUBCOMP,
                                   stored PUBREL, 0 retransmissions) (now + RetryDelay)
     gw_hold_pubcomp               GwHold (awaiting PUBCOMP) --(PUBCOMP)--> MQTT PUBCOMP, GwQuiet

     ClHold c o mid pub            the client holds exactly one transaction: the QoS 2 PUBLISH pub (message ID mid)
                                   received and acknowledged with PUBREC, its handler not yet run; no timer
     ClShape c mid held            ClQuiet c (held = None) or ClHold c _ mid pub (held = Some pub)
     cl_shape_pub                  a QoS 2 PUBLISH (the first or a repeated one): PUBREC, NO handler invocation, the
                                   client holds (only) the PUBLISH just received
     cl_shape_rel                  PUBREL: the handler of the held PUBLISH runs (if one is held), PUBCOMP, ClQuiet;
                                   with nothing held: PUBCOMP again and no handler invocation
     cl_shape_adv_ex               time passing moves the clock and nothing else

   and for the REGISTER step of a broker PUBLISH with QoS 1 on a name that has no topic ID yet:
     gw_bpub1_reg                  GwQuiet --(MQTT PUBLISH QoS 1)--> REGISTER (next topic ID i, message ID of the PUBLISH, name),
                                   GwHold (awaiting REGACK, stored REGISTER, the PUBLISH kept under topic ID i)
     gw_hold_regack                GwHold (awaiting REGACK) --(REGACK accepted)--> the name is registered, the PUBLISH kept is sent,
                                   GwHold (awaiting PUBACK)
     gw_hold_puback                GwHold (awaiting PUBACK) --(PUBACK accepted)--> MQTT PUBACK, GwQuiet
     cl_register_in                REGISTER in a quiescent client (name unknown, or known with this very ID): registered, REGACK accepted
     cl_bpubg1                     PUBLISH QoS 1 under a topic ID the client resolves: PUBACK, then the callback
     RegPre, RegPre_set, reg_lookup_set, reg_set_same, reg_find_id_set   the client's registration table

   Style and tactics: see ComposeProofs_aux.v and ComposeProofs2_aux.v (call by value, whitelisted cbn). *)
From stdpp Require Import base option list numbers fin_maps nmap.
From Coq Require Import Lia ZArith ZifyN ZifyNat ZifyBool.
From RecordUpdate Require Import RecordSet.
From Verif.Base Require Import Bytes BytesProofs.
From Verif.Codec Require Import Packets Decode Encode EncodeProofs.
From Verif.Checkers Require Import ChkCodec.
From Verif.Topics Require Import Predefined.
From Verif.Gateway Require Import GwTypes GwStep GwWf.
From Verif.Match Require Import Match MatchProofs.
From Verif.Client Require Import ClTypes ClStep Sound_Client.
From Verif.System Require Import Compose RoutingProofs ComposeProofs_aux ComposeProofs2_aux ComposeProofs3_aux ComposeLoss_aux.
Import RecordSetNotations.
Open Scope N_scope.
Ltac Zify.zify_post_hook ::= Z.div_mod_to_equations.

(* ------------------------------------------------------------------ packets *)

Lemma wf_mid3 mid : mid < 65536 -> wf_pkt (Pubrec mid) = true /\ wf_pkt (Pubrel mid) = true /\ wf_pkt (Pubcomp mid) = true.
Proof. intros Hm. cbn [wf_pkt]. unfold lt16. repeat split; apply N.ltb_lt; assumption. Qed.

(* ------------------------------------------------------------------ the gateway session holding one transaction *)

Record GwHold (g : gw_state) (o mid : N) (tx : txn) (T sq : N) : Prop := {
  gh_st : gw_st g = Active;
  gh_objs : gw_objs g = <[o := tx]> ∅;
  gh_by_id : gw_by_id g = <[mid := o]> ∅;
  gh_connect : gw_connect g = None;
  gh_timers : gw_timers g = [{| tm_at := T; tm_seq := sq; tm_kind := TmRetry o |}];
  gh_ending : gw_ending g = None; gh_ended : gw_ended g = false; gh_accepted : gw_accepted g = true }.

Ltac rwgh HP := rewrite ?(gh_st _ _ _ _ _ _ HP), ?(gh_objs _ _ _ _ _ _ HP), ?(gh_by_id _ _ _ _ _ _ HP),
  ?(gh_connect _ _ _ _ _ _ HP), ?(gh_timers _ _ _ _ _ _ HP), ?(gh_ending _ _ _ _ _ _ HP), ?(gh_ended _ _ _ _ _ _ HP).
Tactic Notation "rwh" := match goal with HP : GwHold _ _ _ _ _ _ |- _ => rwgh HP end.

(* the shells of gw_step around a datagram pack p of the client / an MQTT packet of the broker, in a holding session *)
Ltac gsnh p Hwf := unfold gw_step; bi; rwh; bi; gk; rwh; bi; rewrite (read_pack_roundtrip p) by Hwf; bi;
  unfold handle_sn, packet_legal; gk; rwh; bi; gk.
Ltac gmqh := unfold gw_step; bi; rwh; bi; gk; rwh; bi; unfold handle_mq; bi.
Ltac get_h := unfold get_by_id; gk; rwh; nl; bi; gk; rwh; nl; bi; gk.
Ltac gw_hold HP := constructor; gk; rwgh HP; try reflexivity; try apply (gh_accepted _ _ _ _ _ _ HP).

(* the PUBLISH of the broker, QoS 2, short topic name *)
Lemma gw_bpub2_hold cfg g dup retain topic mid payload :
  GwQuiet g -> is_short_topic topic = true -> wf_bytes topic -> 1 <= mid < 65536 -> okb payload = true ->
  let pub := Publish dup 2 retain TIT_SHORT (encode_short topic) mid payload in
  exists g1, gw_step cfg g (EvMq (MqPublish dup 2 retain topic mid payload)) = (g1, [OutSn (gw_now g) (pack pub)]) /\
    GwHold g1 (gw_next_obj g) mid (TxBrokerPub mid 2 AwaitPubrec (RsSn pub) None 0) (gw_now g + retry_delay cfg) (gw_next_seq g) /\
    gw_frame g g1.
Proof.
  intros HG Hs Hw Hm Hp pub. subst pub. eexists. split; [|split].
  - gmq. unfold handle_broker_publish. rewrite Hs. bi. gk. change (2 <? 2) with false. bi.
    unfold new_obj. bi. unfold bp_proceed, set_obj, disarm_obj, arm. gk. rwg. gk.
    rewrite (insert_insert (M:=Nmap)).
    match goal with |- context [sn_send_owned ?s ?o ?p] =>
      val (sn_send_owned s o p) ltac:(unfold sn_send_owned; gk; rwg; bi;
        rewrite (pack_fits p) by (apply wf_pub_short; [lia|assumption|assumption|lia|assumption]); unfold ok; gk) end.
    unfold finish_r. gk. reflexivity.
  - constructor; gk; rwgq HG; try reflexivity. apply (gq_accepted _ HG).
  - repeat split.
Qed.

(* the PUBREC of the client *)
Lemma gw_hold_pubrec cfg g o mid data snpub n T sq :
  GwHold g o mid (TxBrokerPub mid 2 AwaitPubrec data snpub n) T sq -> 1 <= mid < 65536 ->
  exists g', gw_step cfg g (EvSn (pack (Pubrec mid))) = (g', [OutMq (gw_now g) (MqPubrec mid)]) /\
    GwHold g' o mid (TxBrokerPub mid 2 AwaitPubrel (RsAck AkPubrec mid) snpub 0) (gw_now g + retry_delay cfg) (gw_next_seq g) /\
    gw_frame g g'.
Proof.
  intros HP Hm. destruct (wf_mid3 mid ltac:(lia)) as (Hwf & _). eexists. split; [|split].
  - gsnh (Pubrec mid) ltac:(exact Hwf). get_h.
    unfold bp_proceed, set_obj, disarm_obj, arm. gk. rwh. gk. unfold mq_send, mq_ack, ok. bi. gk.
    rewrite N.eqb_refl. gk. rewrite (insert_insert (M:=Nmap)).
    unfold finish_r. gk. reflexivity.
  - gw_hold HP.
  - repeat split.
Qed.

(* the PUBREL of the broker *)
Lemma gw_hold_mqpubrel cfg g o mid data snpub n T sq :
  GwHold g o mid (TxBrokerPub mid 2 AwaitPubrel data snpub n) T sq -> 1 <= mid < 65536 ->
  exists g', gw_step cfg g (EvMq (MqPubrel mid)) = (g', [OutSn (gw_now g) (pack (Pubrel mid))]) /\
    GwHold g' o mid (TxBrokerPub mid 2 AwaitPubcomp (RsSn (Pubrel mid)) snpub 0) (gw_now g + retry_delay cfg) (gw_next_seq g) /\
    gw_frame g g'.
Proof.
  intros HP Hm. destruct (wf_mid3 mid ltac:(lia)) as (_ & Hwf & _). eexists. split; [|split].
  - gmqh. get_h.
    unfold bp_proceed, set_obj, disarm_obj, arm. gk. rwh. gk.
    rewrite N.eqb_refl. gk. rewrite (insert_insert (M:=Nmap)).
    match goal with |- context [sn_send_owned ?s ?ow ?p] =>
      val (sn_send_owned s ow p) ltac:(unfold sn_send_owned; gk; rwh; bi; rewrite (pack_fits p) by exact Hwf; unfold ok; gk) end.
    unfold finish_r. gk. reflexivity.
  - gw_hold HP.
  - repeat split.
Qed.

(* the PUBCOMP of the client *)
Lemma gw_hold_pubcomp cfg g o mid data snpub n T sq :
  GwHold g o mid (TxBrokerPub mid 2 AwaitPubcomp data snpub n) T sq -> 1 <= mid < 65536 ->
  exists g', gw_step cfg g (EvSn (pack (Pubcomp mid))) = (g', [OutMq (gw_now g) (MqPubcomp mid)]) /\
    GwQuiet g' /\ gw_frame g g'.
Proof.
  intros HP Hm. destruct (wf_mid3 mid ltac:(lia)) as (_ & _ & Hwf). eexists. split; [|split].
  - gsnh (Pubcomp mid) ltac:(exact Hwf). get_h.
    unfold bp_proceed, set_obj, disarm_obj, arm. gk. rwh. gk. unfold mq_send, mq_ack, andthen, ok. bi. gk.
    rewrite N.eqb_refl. gk. rewrite (insert_insert (M:=Nmap)).
    match goal with |- context [finish_obj ?s ?g0] =>
      val (finish_obj s g0) ltac:(unfold finish_obj, disarm_obj; gk; nl; bi; gk; rwh; nl; bi; gk; rewrite ?N.eqb_refl; gk) end.
    unfold finish_r. gk. reflexivity.
  - constructor; gk; rwgh HP; try reflexivity; try apply Nd_ins_emp. apply (gh_accepted _ _ _ _ _ _ HP).
  - repeat split.
Qed.

(* ------------------------------------------------------------------ the gateway: the retry timer *)

Lemma advance_fuel_hold cfg g o mid tx T sq d : GwHold g o mid tx T sq ->
  exists f, advance_fuel cfg g d = S (S f).
Proof.
  intros HP. unfold advance_fuel. rwgh HP. cbn [length].
  set (q := d / _).
  exists (N.to_nat (N.min 100000 (2 + N.of_nat 1 * (2 + q))) - 2)%nat. lia.
Qed.

Lemma fire_hold cfg g o mid q st p snpub n T sq :
  GwHold g o mid (TxBrokerPub mid q st (RsSn p) snpub n) T sq -> wf_pkt (set_dup p) = true -> n + 1 <= retry_count cfg ->
  exists g', fire cfg (g <| gw_now := T |> <| gw_timers := [] |>) (TmRetry o) = (g', [OutSn T (pack (set_dup p))], HOk) /\
    GwHold g' o mid (TxBrokerPub mid q st (RsSn (set_dup p)) snpub (n + 1)) (T + retry_delay cfg) (gw_next_seq g) /\ gw_now g' = T /\
    gw_client_id g' = gw_client_id g /\ gw_registered g' = gw_registered g /\ gw_keepalive g' = gw_keepalive g.
Proof.
  intros HP Hwf Hn.
  assert (En : (retry_count cfg <? n + 1) = false) by (apply N.ltb_ge; lia).
  eexists. split; [|split; [|split]].
  - unfold fire. gk. rwh. nl. bi. rewrite En. bi. unfold set_obj, arm. gk. rwh. gk.
    rewrite (insert_insert (M:=Nmap)).
    match goal with |- context [sn_send_owned ?s ?ow ?p0] =>
      val (sn_send_owned s ow p0) ltac:(unfold sn_send_owned; gk; rwh; bi; rewrite (pack_fits p0) by exact Hwf; unfold ok; gk) end.
    bi. reflexivity.
  - gw_hold HP.
  - reflexivity.
  - repeat split.
Qed.

Lemma run_timers_hold cfg g o mid q st p snpub n T sq f :
  GwHold g o mid (TxBrokerPub mid q st (RsSn p) snpub n) T sq -> wf_pkt (set_dup p) = true -> n + 1 <= retry_count cfg ->
  0 < retry_delay cfg ->
  exists g', run_timers (S (S f)) cfg g T = (g', [OutSn T (pack (set_dup p))]) /\
    GwHold g' o mid (TxBrokerPub mid q st (RsSn (set_dup p)) snpub (n + 1)) (T + retry_delay cfg) (gw_next_seq g) /\ gw_now g' = T /\
    gw_client_id g' = gw_client_id g /\ gw_registered g' = gw_registered g /\ gw_keepalive g' = gw_keepalive g.
Proof.
  intros HP Hwf Hn Hrd.
  assert (Et : (T + retry_delay cfg <=? T) = false) by (apply N.leb_gt; lia).
  destruct (fire_hold cfg g o mid q st p snpub n T sq HP Hwf Hn) as (g' & Ef & HP' & Hnow & Hfr).
  exists g'. split; [|split; [exact HP'|split; [exact Hnow|exact Hfr]]].
  change (run_timers (S (S f)) cfg g T) with
    (match gw_ending g with
     | Some te => if te <=? T then (g <| gw_now := te |> <| gw_ended := true |> <| gw_ending := None |>, [OutEnd te]) else (g, [])
     | None =>
       match min_timer (gw_timers g) with
       | Some tm =>
         if tm_at tm <=? T then
           let s := g <| gw_now := tm_at tm |> <| gw_timers := remove_timer (gw_timers g) tm |> in
           match finish_r (fire cfg s (tm_kind tm)) false false with
           | (s', o) => match run_timers (S f) cfg s' T with (s'', o') => (s'', o ++ o') end
           end
         else (g, [])
       | None => (g, [])
       end
     end).
  rwgh HP. cbn [min_timer]. gk. rewrite N.leb_refl. bi.
  unfold remove_timer. gk. rewrite N.eqb_refl. gk. rewrite Ef. unfold finish_r. bi.
  cbn [run_timers]. rwgh HP'. cbn [min_timer]. gk. rewrite Et. reflexivity.
Qed.

Lemma gw_hold_fire cfg g o mid q st p snpub n T sq d :
  GwHold g o mid (TxBrokerPub mid q st (RsSn p) snpub n) T sq -> wf_pkt (set_dup p) = true -> n + 1 <= retry_count cfg ->
  0 < retry_delay cfg -> gw_now g + d = T ->
  exists g', gw_step cfg g (EvAdvance d) = (g', [OutSn T (pack (set_dup p))]) /\
    GwHold g' o mid (TxBrokerPub mid q st (RsSn (set_dup p)) snpub (n + 1)) (T + retry_delay cfg) (gw_next_seq g) /\ gw_now g' = T /\
    gw_client_id g' = gw_client_id g /\ gw_registered g' = gw_registered g /\ gw_keepalive g' = gw_keepalive g.
Proof.
  intros HP Hwf Hn Hrd Hd.
  destruct (advance_fuel_hold cfg g o mid _ T sq d HP) as (f & Ef).
  destruct (run_timers_hold cfg g o mid q st p snpub n T sq f HP Hwf Hn Hrd) as (g' & Er & HP' & Hnow & Hfr).
  exists (g' <| gw_now := T |>). split; [|split; [|split; [reflexivity|exact Hfr]]].
  - unfold gw_step. rwgh HP. rewrite Ef, Hd, Er. rewrite (gh_ended _ _ _ _ _ _ HP'). reflexivity.
  - gw_hold HP'.
Qed.

(* ------------------------------------------------------------------ the client holding a QoS 2 PUBLISH *)

Record ClHold (c : cl_state) (o mid : N) (pub : packet) : Prop := {
  ch_st : cl_st c = Active; ch_objs : cl_objs c = <[o := CxBrokerPub2 mid pub]> ∅; ch_by_id : cl_by_id c = <[mid := o]> ∅;
  ch_by_type : cl_by_type c = ∅; ch_timers : cl_timers c = []; ch_canc : cl_cancelled c = None;
  ch_exited : cl_exited c = false; ch_closed : cl_conn_closed c = false; ch_mid : 1 <= cl_next_mid c <= 65535 }.

Ltac rwch HH := rewrite ?(ch_st _ _ _ _ HH), ?(ch_objs _ _ _ _ HH), ?(ch_by_id _ _ _ _ HH), ?(ch_by_type _ _ _ _ HH),
  ?(ch_timers _ _ _ _ HH), ?(ch_canc _ _ _ _ HH), ?(ch_exited _ _ _ _ HH), ?(ch_closed _ _ _ _ HH).
(* the facts of the client's state, whichever of the two predicates describes it *)
Tactic Notation "rwx" :=
  match goal with
  | HQ : ClQuiet _ |- _ => rwq HQ
  | HH : ClHold _ _ _ _ |- _ => rwch HH
  end.

Ltac res_canc_x := match goal with |- context [cl_cancelled ?s0] =>
  let E := fresh "E" in assert (E : cl_cancelled s0 = None) by (pk; rwx; reflexivity); rewrite E; clear E end.
Ltac cgw_shell_x p Hwf := unfold cl_step; bi; pk; rwx; bi; rewrite (read_pack_roundtrip p) by Hwf; bi.
Ltac cgw_end_x := bi; res_canc_x; bi.
Ltac v_send_x Hwf :=
  match goal with |- context [c_send ?s ?p] =>
    val (c_send s p) ltac:(unfold c_send; pk; rwx; bi; rewrite (pack_fits p) by Hwf; bi; pk) end.

(* a QoS 2 PUBLISH in a quiescent client: remembered, PUBREC; the handler is NOT invoked *)
Lemma cl_bpub2_quiet cfg c dup retain tit tid mid payload :
  ClQuiet c -> wf_pkt (Publish dup 2 retain tit tid mid payload) = true -> mid < 65536 ->
  exists c', cl_step cfg c (CGw (pack (Publish dup 2 retain tit tid mid payload))) = (c', [CoSn (cl_now c) (pack (Pubrec mid))]) /\
    ClHold c' (cl_next_obj c) mid (Publish dup 2 retain tit tid mid payload) /\ cl_frame c c' /\ cl_next_mid c' = cl_next_mid c.
Proof.
  intros HQ Hwf Hm. destruct (wf_mid3 mid Hm) as (Hwrec & _). eexists. split; [|split; [|split]].
  - cgw_shell_x (Publish dup 2 retain tit tid mid payload) ltac:(exact Hwf).
    v_handle ltac:(pk; unfold c_get_id; pk; rwx; rewrite (Nl_emp (A:=N)); bi; unfold c_new_obj; pk;
                   v_send_x ltac:(exact Hwrec); bi).
    cgw_end_x. reflexivity.
  - constructor; pk; rwq HQ; try reflexivity. apply (cq_mid _ HQ).
  - repeat split.
  - reflexivity.
Qed.

(* the same PUBLISH again (retransmitted by the gateway): remembered in place of the first, PUBREC again;
   the handler is NOT invoked *)
Lemma cl_bpub2_hold cfg c o pub0 dup retain tit tid mid payload :
  ClHold c o mid pub0 -> wf_pkt (Publish dup 2 retain tit tid mid payload) = true -> mid < 65536 ->
  exists c', cl_step cfg c (CGw (pack (Publish dup 2 retain tit tid mid payload))) = (c', [CoSn (cl_now c) (pack (Pubrec mid))]) /\
    ClHold c' o mid (Publish dup 2 retain tit tid mid payload) /\ cl_frame c c' /\ cl_next_mid c' = cl_next_mid c.
Proof.
  intros HH Hwf Hm. destruct (wf_mid3 mid Hm) as (Hwrec & _). eexists. split; [|split; [|split]].
  - cgw_shell_x (Publish dup 2 retain tit tid mid payload) ltac:(exact Hwf).
    v_handle ltac:(pk; unfold c_get_id; pk; rwx; nl; bi; pk; rwx; nl; bi;
                   v_send_x ltac:(exact Hwrec); bi; unfold c_set_obj; pk; rwx; rewrite (insert_insert (M:=Nmap))).
    cgw_end_x. reflexivity.
  - constructor; pk; rwch HH; try reflexivity. apply (ch_mid _ _ _ _ HH).
  - repeat split.
  - reflexivity.
Qed.

Lemma topic_for_publish_ext cfg s c tit tid : cl_registered s = cl_registered c ->
  topic_for_publish cfg s tit tid = topic_for_publish cfg c tit tid.
Proof. unfold topic_for_publish. intros ->. reflexivity. Qed.

(* PUBREL for the PUBLISH held: its handler is invoked (with the flags of the PUBLISH received LAST), PUBCOMP *)
Lemma cl_pubrel_hold cfg c o dup q retain tit tid mid0 mid payload topic :
  ClHold c o mid (Publish dup q retain tit tid mid0 payload) -> topic_for_publish cfg c tit tid = Some topic -> mid < 65536 ->
  exists c', cl_step cfg c (CGw (pack (Pubrel mid))) =
               (c', cb_out c topic payload q retain dup mid0 ++ [CoSn (cl_now c) (pack (Pubcomp mid))]) /\
    ClQuiet c' /\ cl_frame c c' /\ cl_next_mid c' = cl_next_mid c.
Proof.
  intros HH Ht Hm. destruct (wf_mid3 mid Hm) as (_ & Hwrel & Hwcomp). eexists. split; [|split; [|split]].
  - cgw_shell_x (Pubrel mid) ltac:(exact Hwrel).
    v_handle ltac:(pk; rwx; nl; bi; pk; rwx; nl; bi;
                   match goal with |- context [topic_for_publish ?cfg0 ?s ?a ?b] =>
                     rewrite (topic_for_publish_ext cfg0 s c a b) by reflexivity end;
                   rewrite Ht; bi; unfold dispatch; pk; fold (cb_out c topic payload q retain dup mid0);
                   v_send_x ltac:(exact Hwcomp); bi;
                   match goal with |- context [c_finish_obj ?s ?g0] =>
                     val (c_finish_obj s g0) ltac:(unfold c_finish_obj; pk; rwx; nl; bi; unfold c_disarm; pk; rwx; pk) end).
    cgw_end_x. reflexivity.
  - constructor; pk; rwch HH; try reflexivity; try apply Nd_ins_emp. apply (ch_mid _ _ _ _ HH).
  - repeat split.
  - reflexivity.
Qed.

(* PUBREL with nothing held (the exchange is already finished): PUBCOMP again, NO handler invocation *)
Lemma cl_pubrel_quiet cfg c mid : ClQuiet c -> mid < 65536 ->
  exists c', cl_step cfg c (CGw (pack (Pubrel mid))) = (c', [CoSn (cl_now c) (pack (Pubcomp mid))]) /\
    ClQuiet c' /\ cl_frame c c' /\ cl_next_mid c' = cl_next_mid c.
Proof.
  intros HQ Hm. destruct (wf_mid3 mid Hm) as (_ & Hwrel & Hwcomp). eexists. split; [|split; [|split]].
  - cgw_shell_x (Pubrel mid) ltac:(exact Hwrel).
    v_handle ltac:(pk; rwx; rewrite (Nl_emp (A:=N)); bi; v_send_x ltac:(exact Hwcomp); bi).
    cgw_end_x. reflexivity.
  - cl_quiet HQ.
  - repeat split.
  - reflexivity.
Qed.

(* time passing *)
Lemma c_run_timers_hold cfg c o mid pub t f : ClHold c o mid pub -> c_run_timers f cfg c t = (c, []).
Proof. intros HH. destruct f; [reflexivity|]. cbn [c_run_timers]. rwch HH. reflexivity. Qed.

Lemma cl_adv_hold_ex cfg c o mid pub t : ClHold c o mid pub -> cl_now c <= t ->
  exists c1, cl_step cfg c (CAdv (t - cl_now c)) = (c1, []) /\ ClHold c1 o mid pub /\ cl_now c1 = t /\
    cl_handlers c1 = cl_handlers c /\ cl_registered c1 = cl_registered c /\ cl_next_mid c1 = cl_next_mid c.
Proof.
  intros HH Ht. exists (c <| cl_now := cl_now c + (t - cl_now c) |>). split; [|split; [|split; [|repeat split]]].
  - unfold cl_step. rewrite (c_run_timers_hold cfg c o mid pub _ _ HH). reflexivity.
  - constructor; pk; rwch HH; try reflexivity. apply (ch_mid _ _ _ _ HH).
  - cbn [cl_now set]. lia.
Qed.

(* ------------------------------------------------------------------ either shape of the client *)

Definition ClShape (c : cl_state) (mid : N) (held : option packet) : Prop :=
  match held with None => ClQuiet c | Some pub => exists o, ClHold c o mid pub end.

Lemma cl_shape_adv_ex cfg c mid held t : ClShape c mid held -> cl_now c <= t ->
  exists c1, cl_step cfg c (CAdv (t - cl_now c)) = (c1, []) /\ ClShape c1 mid held /\ cl_now c1 = t /\
    cl_handlers c1 = cl_handlers c /\ cl_registered c1 = cl_registered c /\ cl_next_mid c1 = cl_next_mid c.
Proof.
  intros HS Ht. destruct held as [pub|].
  - destruct HS as (o & HH). destruct (cl_adv_hold_ex cfg c o mid pub t HH Ht) as (c1 & E & HH1 & Hr).
    exists c1. split; [exact E|]. split; [exists o; exact HH1|exact Hr].
  - destruct (cl_adv_quiet_ex cfg c t HS Ht) as (c1 & E & HQ1 & Hr). exists c1. split; [exact E|]. split; [exact HQ1|exact Hr].
Qed.

Lemma cl_shape_deadline c mid held : ClShape c mid held -> cl_next_deadline c = None.
Proof.
  intros HS. unfold cl_next_deadline. destruct held as [pub|].
  - destruct HS as (o & HH). rwch HH. reflexivity.
  - rwq HS. reflexivity.
Qed.

Lemma cl_shape_pub cfg c held dup retain tit tid mid payload :
  ClShape c mid held -> wf_pkt (Publish dup 2 retain tit tid mid payload) = true -> mid < 65536 ->
  exists c', cl_step cfg c (CGw (pack (Publish dup 2 retain tit tid mid payload))) = (c', [CoSn (cl_now c) (pack (Pubrec mid))]) /\
    ClShape c' mid (Some (Publish dup 2 retain tit tid mid payload)) /\ cl_frame c c' /\ cl_next_mid c' = cl_next_mid c.
Proof.
  intros HS Hwf Hm. destruct held as [pub0|].
  - destruct HS as (o & HH). destruct (cl_bpub2_hold cfg c o pub0 dup retain tit tid mid payload HH Hwf Hm) as (c' & E & HH' & Hr).
    exists c'. split; [exact E|]. split; [exists o; exact HH'|exact Hr].
  - destruct (cl_bpub2_quiet cfg c dup retain tit tid mid payload HS Hwf Hm) as (c' & E & HH' & Hr).
    exists c'. split; [exact E|]. split; [eexists; exact HH'|exact Hr].
Qed.

(* the handler invocation caused by PUBREL: that of the PUBLISH held, if one is held *)
Definition rel_cb (c : cl_state) (topic : bytes) (held : option packet) : list cl_out :=
  match held with
  | Some (Publish dup q retain _ _ mid0 payload) => cb_out c topic payload q retain dup mid0
  | _ => []
  end.

Lemma cl_shape_rel cfg c held mid topic :
  ClShape c mid held ->
  match held with
  | Some (Publish _ _ _ tit tid _ _) => topic_for_publish cfg c tit tid = Some topic
  | Some _ => False
  | None => True
  end -> mid < 65536 ->
  exists c', cl_step cfg c (CGw (pack (Pubrel mid))) = (c', rel_cb c topic held ++ [CoSn (cl_now c) (pack (Pubcomp mid))]) /\
    ClQuiet c' /\ cl_frame c c' /\ cl_next_mid c' = cl_next_mid c.
Proof.
  intros HS Ht Hm. destruct held as [pub|].
  - destruct HS as (o & HH). destruct pub; try (exfalso; exact Ht).
    exact (cl_pubrel_hold cfg c o _ _ _ _ _ _ mid _ topic HH Ht Hm).
  - exact (cl_pubrel_quiet cfg c mid HS Hm).
Qed.

(* ------------------------------------------------------------------ the REGISTER step of a broker PUBLISH (QoS 1) *)

(* the gateway: a PUBLISH of the broker on a name that is not a 2-byte name and has no topic ID yet, the
   allocator being able to hand out its next ID i: REGISTER (i, the message ID of the PUBLISH, the name) to
   the client; the PUBLISH (under topic ID i) is kept for later *)
Lemma find_topic_id_ext cfg s g n : gw_registered s = gw_registered g -> gw_client_id s = gw_client_id g ->
  find_topic_id cfg s n = find_topic_id cfg g n.
Proof. unfold find_topic_id, find_registered. intros -> ->. reflexivity. Qed.

Lemma gw_bpub1_reg cfg g dup retain topic mid payload :
  GwQuiet g -> is_short_topic topic = false -> okb1 topic = true -> find_topic_id cfg g topic = None ->
  gw_no_more_tids g = false -> gw_seq_overflow g = false -> gw_seq_next g <> max_tid cfg ->
  gw_seq_next g < 65536 -> get_name (predefined cfg) (gw_client_id g) (gw_seq_next g) = None ->
  1 <= mid < 65536 -> okb payload = true ->
  let i := gw_seq_next g in
  let reg := Register i mid topic in
  let pub := Publish dup 1 retain TIT_REGISTERED i mid payload in
  exists g1, gw_step cfg g (EvMq (MqPublish dup 1 retain topic mid payload)) = (g1, [OutSn (gw_now g) (pack reg)]) /\
    GwHold g1 (gw_next_obj g) mid (TxBrokerPub mid 1 AwaitRegack (RsSn reg) (Some pub) 0) (gw_now g + retry_delay cfg) (gw_next_seq g) /\
    gw_now g1 = gw_now g /\ gw_client_id g1 = gw_client_id g /\ gw_registered g1 = gw_registered g /\
    gw_seq_next g1 = i + 1.
Proof.
  intros HG Hns Ht Hfind Hnm Hov Hmax Hid Hpd Hm Hp i reg pub. subst i reg pub.
  assert (Emax : (gw_seq_next g =? max_tid cfg) = false) by (apply N.eqb_neq; exact Hmax).
  assert (Hwreg : wf_pkt (Register (gw_seq_next g) mid topic) = true).
  { cbn [wf_pkt]. unfold lt16. rewrite Ht. repeat (apply andb_true_iff; split); try reflexivity; apply N.ltb_lt; lia. }
  eexists. split; [|split; [|split; [|split; [|split]]]].
  - gmq. unfold handle_broker_publish. rewrite Hns. bi.
    match goal with |- context [find_topic_id ?cfg0 ?s ?n] =>
      rewrite (find_topic_id_ext cfg0 s g n) by reflexivity end.
    rewrite Hfind. bi. gk. change (2 <? 1) with false. bi.
    match goal with |- context [new_topic_id ?cfg0 ?s] =>
      val (new_topic_id cfg0 s)
        ltac:(unfold new_topic_id; gk; rewrite Hnm; bi; unfold seq_next; gk; rewrite Emax, Hov; bi;
              cbn [skip_predefined]; gk; rewrite Hpd; bi; gk) end.
    bi. unfold new_obj. bi. unfold bp_proceed, note_handed, set_obj, disarm_obj, arm. gk. rwg. gk.
    rewrite (insert_insert (M:=Nmap)).
    match goal with |- context [sn_send_owned ?s ?o ?p] =>
      val (sn_send_owned s o p) ltac:(unfold sn_send_owned; gk; rwg; bi; rewrite (pack_fits p) by exact Hwreg; unfold ok; gk) end.
    unfold finish_r. gk. reflexivity.
  - constructor; gk; rwgq HG; try reflexivity. apply (gq_accepted _ HG).
  - reflexivity.
  - reflexivity.
  - reflexivity.
  - reflexivity.
Qed.

(* the REGACK of the client: the name is registered, the PUBLISH kept is sent *)
Lemma gw_hold_regack cfg g o mid i m0 topic pub n T sq tid :
  GwHold g o mid (TxBrokerPub mid 1 AwaitRegack (RsSn (Register i m0 topic)) (Some pub) n) T sq ->
  wf_pkt pub = true -> tid < 65536 -> 1 <= mid < 65536 ->
  exists g', gw_step cfg g (EvSn (pack (Regack tid mid RC_ACCEPTED))) = (g', [OutSn (gw_now g) (pack pub)]) /\
    GwHold g' o mid (TxBrokerPub mid 1 AwaitPuback (RsSn pub) (Some pub) 0) (gw_now g + retry_delay cfg) (gw_next_seq g) /\
    gw_now g' = gw_now g /\ gw_client_id g' = gw_client_id g /\ gw_registered g' = <[i := topic]> (gw_registered g).
Proof.
  intros HP Hwf Ht Hm. eexists. split; [|split; [|split; [|split]]].
  - gsnh (Regack tid mid RC_ACCEPTED) ltac:(apply wf_regack; [assumption|lia]). get_h.
    unfold bp_regack. gk. bi.
    unfold bp_proceed, set_obj, disarm_obj, arm. gk. rwh. gk.
    rewrite N.eqb_refl. gk. rewrite (insert_insert (M:=Nmap)).
    match goal with |- context [sn_send_owned ?s ?ow ?p] =>
      val (sn_send_owned s ow p) ltac:(unfold sn_send_owned; gk; rwh; bi; rewrite (pack_fits p) by exact Hwf; unfold ok; gk) end.
    unfold finish_r. gk. reflexivity.
  - gw_hold HP.
  - reflexivity.
  - reflexivity.
  - reflexivity.
Qed.

(* the PUBACK of the client (whatever the transaction keeps for resending) *)
Lemma gw_hold_puback cfg g o mid data snpub n T sq tid :
  GwHold g o mid (TxBrokerPub mid 1 AwaitPuback data snpub n) T sq -> tid < 65536 -> 1 <= mid < 65536 ->
  exists g', gw_step cfg g (EvSn (pack (Puback tid mid RC_ACCEPTED))) = (g', [OutMq (gw_now g) (MqPuback mid)]) /\
    GwQuiet g' /\ gw_frame g g'.
Proof.
  intros HP Ht Hm. eexists. split; [|split].
  - gsnh (Puback tid mid RC_ACCEPTED) ltac:(apply wf_puback_any; lia). get_h.
    unfold bp_proceed, set_obj, disarm_obj, arm. gk. rwh. gk. unfold mq_send, mq_ack, andthen, ok. bi. gk.
    rewrite N.eqb_refl. gk. rewrite (insert_insert (M:=Nmap)).
    match goal with |- context [finish_obj ?s ?g0] =>
      val (finish_obj s g0) ltac:(unfold finish_obj, disarm_obj; gk; nl; bi; gk; rwh; nl; bi; gk; rewrite ?N.eqb_refl; gk) end.
    unfold finish_r. gk. reflexivity.
  - constructor; gk; rwgh HP; try reflexivity; try apply Nd_ins_emp. apply (gh_accepted _ _ _ _ _ _ HP).
  - repeat split.
Qed.

(* the client's registration table *)
Lemma reg_lookup_set regs n i : reg_lookup (reg_set regs n i) n = Some i.
Proof.
  induction regs as [|[m j] r IH]; cbn [reg_set reg_lookup]; [rewrite beq_refl; reflexivity|].
  destruct (beq m n) eqn:E; cbn [reg_lookup]; rewrite E; [reflexivity|exact IH].
Qed.

Lemma reg_set_same regs n i : reg_lookup regs n = Some i -> reg_set regs n i = regs.
Proof.
  induction regs as [|[m j] r IH]; cbn [reg_set reg_lookup]; [discriminate|].
  destruct (beq m n) eqn:E.
  - intros H. injection H as ->. reflexivity.
  - intros H. rewrite (IH H). reflexivity.
Qed.

Lemma reg_find_id_set regs n i : reg_lookup regs n = None -> reg_find_id regs i = None ->
  reg_find_id (reg_set regs n i) i = Some n.
Proof.
  induction regs as [|[m j] r IH]; cbn [reg_set reg_lookup reg_find_id]; [intros _ _; rewrite N.eqb_refl; reflexivity|].
  destruct (beq m n) eqn:E; [discriminate|]. destruct (j =? i) eqn:Ej; [discriminate|].
  intros Hl Hf. cbn [reg_find_id]. rewrite Ej. exact (IH Hl Hf).
Qed.

(* the name has no topic ID yet and the ID i is not in use, or the name is registered with i already *)
Definition RegPre (regs : list (bytes * N)) (n : bytes) (i : N) : Prop :=
  (reg_lookup regs n = None /\ reg_find_id regs i = None) \/ (reg_lookup regs n = Some i /\ reg_find_id regs i = Some n).

Lemma RegPre_set regs n i : RegPre regs n i ->
  reg_lookup (reg_set regs n i) n = Some i /\ reg_find_id (reg_set regs n i) i = Some n.
Proof.
  intros [[Hl Hf]|[Hl Hf]].
  - split; [apply reg_lookup_set|apply reg_find_id_set; assumption].
  - rewrite (reg_set_same regs n i Hl). split; assumption.
Qed.

(* REGISTER of the gateway in a quiescent client: the name is registered with that ID (a name already
   registered with that very ID is accepted again), REGACK accepted *)
Lemma cl_register_in cfg c tid mid topic :
  ClQuiet c -> reg_lookup (cl_registered c) topic = None \/ reg_lookup (cl_registered c) topic = Some tid ->
  wf_pkt (Register tid mid topic) = true -> tid < 65536 -> mid < 65536 ->
  exists c', cl_step cfg c (CGw (pack (Register tid mid topic))) = (c', [CoSn (cl_now c) (pack (Regack tid mid RC_ACCEPTED))]) /\
    ClQuiet c' /\ cl_now c' = cl_now c /\ cl_handlers c' = cl_handlers c /\
    cl_registered c' = reg_set (cl_registered c) topic tid /\ cl_next_mid c' = cl_next_mid c.
Proof.
  intros HQ Hl Hwf Ht Hm. pose proof (wf_regack tid mid Ht Hm) as Hwack. destruct Hl as [Hl|Hl].
  - eexists. split; [|split; [|split; [|split; [|split]]]].
    + cgw_shell_x (Register tid mid topic) ltac:(exact Hwf).
      v_handle ltac:(pk; rewrite Hl; bi; v_send_x ltac:(exact Hwack); bi).
      cgw_end_x. reflexivity.
    + cl_quiet HQ.
    + reflexivity.
    + reflexivity.
    + reflexivity.
    + reflexivity.
  - eexists. split; [|split; [|split; [|split; [|split]]]].
    + cgw_shell_x (Register tid mid topic) ltac:(exact Hwf).
      v_handle ltac:(pk; rewrite Hl; bi; rewrite N.eqb_refl; bi; v_send_x ltac:(exact Hwack); bi).
      cgw_end_x. reflexivity.
    + cl_quiet HQ.
    + reflexivity.
    + reflexivity.
    + pk. symmetry. apply reg_set_same, Hl.
    + reflexivity.
Qed.

(* a PUBLISH of the gateway (QoS 1) under a topic ID the client can resolve: PUBACK, then the callback *)
Lemma cl_bpubg1 cfg c dup retain tit tid mid payload topic :
  ClQuiet c -> wf_pkt (Publish dup 1 retain tit tid mid payload) = true -> tid < 65536 -> mid < 65536 ->
  topic_for_publish cfg c tit tid = Some topic ->
  exists c', cl_step cfg c (CGw (pack (Publish dup 1 retain tit tid mid payload))) =
             (c', CoSn (cl_now c) (pack (Puback tid mid RC_ACCEPTED)) :: cb_out c topic payload 1 retain dup mid) /\
    ClQuiet c' /\ cl_frame c c' /\ cl_next_mid c' = cl_next_mid c.
Proof.
  intros HQ Hwf Ht Hm Htp. eexists. split; [|split; [|split]].
  - cgw_shell_x (Publish dup 1 retain tit tid mid payload) ltac:(exact Hwf).
    v_handle ltac:(pk; v_send_x ltac:(apply wf_puback; assumption); bi;
                   match goal with |- context [topic_for_publish ?cfg0 ?s ?a ?b] =>
                     rewrite (topic_for_publish_ext cfg0 s c a b) by reflexivity end;
                   rewrite Htp; bi; unfold dispatch; pk).
    cgw_end_x. reflexivity.
  - cl_quiet HQ.
  - repeat split.
  - reflexivity.
Qed.

Print Assumptions gw_bpub2_hold.
Print Assumptions gw_hold_pubrec.
Print Assumptions gw_hold_mqpubrel.
Print Assumptions gw_hold_pubcomp.
Print Assumptions gw_hold_fire.
Print Assumptions cl_shape_adv_ex.
Print Assumptions cl_shape_pub.
Print Assumptions cl_shape_rel.
Print Assumptions gw_bpub1_reg.
Print Assumptions gw_hold_regack.
Print Assumptions gw_hold_puback.
Print Assumptions cl_register_in.
Print Assumptions cl_bpubg1.
