(* System/ComposeSleepLoss.v — C16 for the sleep exchange: Sleep over a link that loses ONE datagram of the DISCONNECT
   exchange, as exact traces, for ALL configurations, states, subscriptions and durations in the stated ranges.  Pins the
   repaired behaviour of the gateway: the reply to a sleep DISCONNECT is written at once (sn_send_now) also when the
   session is asleep already - it is NOT queued in the sleep buffer.

     SleepWait cfg y subs id ms n Tr a   the Sleep call is blocked, the client waits for the gateway's DISCONNECT (n
                                      retransmissions so far, resend timer at Tr); the gateway is asleep already (a = true) or
                                      has not seen the DISCONNECT (a = false)
     C16_sleep_survives_a_lost_disconnect_reply   (case A) G2C DISCONNECT dropped; at now + RetryDelay(client) the same
                                      DISCONNECT again, answered at once; Sleeping ... (now + RetryDelay + ms) [] - the buffer is empty
     C16_sleep_survives_a_lost_disconnect         (case B) C2G DISCONNECT dropped; the lossless exchange shifted by RetryDelay
     sleep_reply_lost_instance, sleep_disconnect_lost_instance, sleep_reply_lost_cycle   concrete instances (ecfgA, ecfgB)
     sleep_reply_lost_two_pingers     observation: with a sleep longer than the keep-alive the repeated DISCONNECT starts a
                                      second sleep pinger

   The component lemmas are in ComposeSleepLoss_aux.v. *)
From stdpp Require Import base option list numbers fin_maps nmap.
From Coq Require Import Lia ZArith ZifyN ZifyNat ZifyBool.
From RecordUpdate Require Import RecordSet.
From Verif.Base Require Import Bytes BytesProofs.
From Verif.Codec Require Import Packets Decode Encode EncodeProofs.
From Verif.Checkers Require Import ChkCodec.
From Verif.Topics Require Import Predefined.
From Verif.Gateway Require Import GwTypes GwStep GwWf.
From Verif.Match Require Import Match MatchProofs.
From Verif.Client Require Import ClTypes ClStep Sound_Client.
From Verif.System Require Import Compose RoutingProofs ComposeProofs_aux ComposeProofs ComposeProofs2_aux ComposeProofs2
  ComposeLoss_aux ComposeLoss ComposeSleep_aux ComposeSleep ComposeSleepLoss_aux.
Import RecordSetNotations.
Open Scope N_scope.
Ltac Zify.zify_post_hook ::= Z.div_mod_to_equations.

(* ------------------------------------------------------------------ definitions *)

(* the Sleep call id (duration ms) is blocked: the client has sent DISCONNECT (n retransmissions so far) and waits for the
   gateway's DISCONNECT, resend timer at Tr; the gateway is asleep already with an empty buffer (a = true) or has not seen
   the DISCONNECT (a = false); the sleep duration starts no sleep pinger *)
Definition SleepWait (cfg : e2e_cfg) (y : sys) (subs : list subn) (id ms n Tr : N) (a : bool) : Prop :=
  (exists g sq, ClSt (y_cl y) Active (sl_objs g (CxSleep id CtAwaitDisconnect n ms)) (sl_byt g) [tm_resend Tr sq g]) /\
  GwWait a (y_gw y) /\ Linked cfg y /\ gw_now (y_gw y) <= Tr /\ SubsIn y subs /\
  (gw_keepalive (y_gw y) = 0 \/ ms / 1000 <= gw_keepalive (y_gw y)).

Lemma deadline_sleepwait cfg y subs id ms n Tr a : SleepWait cfg y subs id ms n Tr a ->
  min_opt (cl_next_deadline (y_cl y)) (gw_next_deadline (y_gw y)) = Some Tr.
Proof.
  intros ((g & sq & HC) & HW & _). rewrite (cl_deadline_st _ _ _ _ _ HC), (gw_wait_deadline _ _ HW). reflexivity.
Qed.

(* ------------------------------------------------------------------ 1. the Sleep call with a lost datagram *)

(* Case A: the gateway's reply is lost *)
Lemma sleep_call_reply_lost cfg y subs id ms : QuietS cfg y subs ->
  1000 <= ms -> ms / 1000 < 65536 ->
  gw_keepalive (y_gw y) = 0 \/ ms / 1000 <= gw_keepalive (y_gw y) ->
  nth_fault (e_c2g cfg) (y_c2g_k y) = FDeliver -> nth_fault (e_g2c cfg) (y_g2c_k y) = FDrop ->
  let t := gw_now (y_gw y) in
  exists y', sys_step cfg y (SCall id (ASleep ms)) =
    (y', [SoC2G t FDeliver (pack (Disconnect (ms / 1000))); SoG2C t FDrop (pack (Disconnect 0))]) /\
    SleepWait cfg y' subs id ms 0 (t + k_rdelay (e_cl cfg)) true /\ gw_now (y_gw y') = t /\ y_br y' = y_br y /\
    y_c2g_k y' = S (y_c2g_k y) /\ y_g2c_k y' = S (y_g2c_k y).
Proof.
  intros ((HC & HG & Hnow & Hcid & Hbc & Heof) & Hb & Hh & Hok) Hms Hd Hnp Hfc Hfg t. subst t.
  destruct y as [c g b k1 k2 eof]. cbn [y_cl y_gw y_br y_br_eof y_c2g_k y_g2c_k] in *.
  destruct (cl_sleep_call (e_cl cfg) c id ms HC Hd) as (c1 & Ec1 & HS1 & (Hc1n & Hc1h & _) & _).
  assert (Hd0 : 0 < ms / 1000 < 65536) by lia.
  destruct (gw_sleep_disc (e_gw cfg) g (ms / 1000) HG Hd0 Hnp) as (g1 & Eg1 & HG1 & (Hgn & Hgc & _ & Hgk)).
  eexists. split; [|split; [|split; [|split; [|split]]]].
  - unfold sys_step. sk. rewrite Ec1. sk. rewrite Hfc. sk.
    rewrite pump_fuel_eq. sk. rewrite Eg1. sk. rewrite Hfg. sk. rewrite Hnow. reflexivity.
  - unfold SleepWait. sk. split; [|split; [exact HG1|split; [|split; [|split; [|rewrite Hgk; exact Hnp]]]]].
    + eexists. eexists. rewrite <- Hnow. exact HS1.
    + unfold Linked. sk. split; [rewrite Hc1n, Hgn; exact Hnow|]. split; [rewrite Hgc; exact Hcid|]. split; assumption.
    + rewrite Hgn. lia.
    + split; [exact Hb|]. split; [sk; rewrite Hc1h; exact Hh|exact Hok].
  - exact Hgn.
  - reflexivity.
  - reflexivity.
  - reflexivity.
Qed.

(* Case B: the client's DISCONNECT is lost *)
Lemma sleep_call_disconnect_lost cfg y subs id ms : QuietS cfg y subs ->
  ms / 1000 < 65536 ->
  gw_keepalive (y_gw y) = 0 \/ ms / 1000 <= gw_keepalive (y_gw y) ->
  nth_fault (e_c2g cfg) (y_c2g_k y) = FDrop ->
  let t := gw_now (y_gw y) in
  exists y', sys_step cfg y (SCall id (ASleep ms)) = (y', [SoC2G t FDrop (pack (Disconnect (ms / 1000)))]) /\
    SleepWait cfg y' subs id ms 0 (t + k_rdelay (e_cl cfg)) false /\ gw_now (y_gw y') = t /\ y_br y' = y_br y /\
    y_c2g_k y' = S (y_c2g_k y) /\ y_g2c_k y' = y_g2c_k y.
Proof.
  intros ((HC & HG & Hnow & Hcid & Hbc & Heof) & Hb & Hh & Hok) Hd Hnp Hfc t. subst t.
  destruct y as [c g b k1 k2 eof]. cbn [y_cl y_gw y_br y_br_eof y_c2g_k y_g2c_k] in *.
  destruct (cl_sleep_call (e_cl cfg) c id ms HC Hd) as (c1 & Ec1 & HS1 & (Hc1n & Hc1h & _) & _).
  eexists. split; [|split; [|split; [|split; [|split]]]].
  - unfold sys_step. sk. rewrite Ec1. sk. rewrite Hfc. sk. rewrite pump_nil. rewrite Hnow. reflexivity.
  - unfold SleepWait. sk. split; [|split; [exact HG|split; [|split; [|split; [|exact Hnp]]]]].
    + eexists. eexists. rewrite <- Hnow. exact HS1.
    + unfold Linked. sk. split; [rewrite Hc1n; exact Hnow|]. split; [exact Hcid|]. split; assumption.
    + lia.
    + split; [exact Hb|]. split; [sk; rewrite Hc1h; exact Hh|exact Hok].
  - reflexivity.
  - reflexivity.
  - reflexivity.
  - reflexivity.
Qed.

(* ------------------------------------------------------------------ 2. the retransmission *)

(* at the resend time Tr the client sends the same DISCONNECT again; the gateway - asleep already or not - answers
   DISCONNECT at once; the client is asleep from Tr on *)
Lemma adv_both_resend cfg y subs id ms n Tr a : SleepWait cfg y subs id ms n Tr a ->
  1000 <= ms -> ms / 1000 < 65536 -> n + 1 <= k_rcount (e_cl cfg) -> 0 < k_rdelay (e_cl cfg) ->
  nth_fault (e_c2g cfg) (y_c2g_k y) = FDeliver -> nth_fault (e_g2c cfg) (y_g2c_k y) = FDeliver ->
  exists y', advance_both cfg y Tr =
    (y', [SoC2G Tr FDeliver (pack (Disconnect (ms / 1000))); SoG2C Tr FDeliver (pack (Disconnect 0))]) /\
    Sleeping cfg y' subs id (Tr + ms) [] /\ gw_now (y_gw y') = Tr /\ y_br y' = y_br y /\
    y_c2g_k y' = S (y_c2g_k y) /\ y_g2c_k y' = S (y_g2c_k y).
Proof.
  intros ((g0 & sq & HC) & HW & (Hnow & Hcid & Hbc & Heof) & HT & (Hb & Hh & Hok) & Hnp) Hms Hd Hn Hrd Hfc Hfg.
  destruct y as [c g b k1 k2 eof]. cbn [y_cl y_gw y_br y_br_eof y_c2g_k y_g2c_k] in *.
  destruct (cl_resend_fire (e_cl cfg) c g0 id n ms Tr sq (Tr - cl_now c) HC Hn Hd Hrd ltac:(lia))
    as (c1 & Ec1 & HC1 & Hc1n & Hc1h & _).
  destruct (gw_wait_adv_ex (e_gw cfg) a g Tr HW HT) as (g1 & Eg1 & HW1 & Hg1n & Hg1c & Hg1k).
  assert (Hd0 : 0 < ms / 1000 < 65536) by lia.
  destruct (gw_wait_disc (e_gw cfg) a g1 (ms / 1000) HW1 Hd0 ltac:(rewrite Hg1k; exact Hnp)) as (g2 & Eg2 & HG2 & (Hg2n & Hg2c & _)).
  destruct (cl_sleep_disc (e_cl cfg) c1 _ _ _ _ _ _ HC1) as (c2 & Ec2 & HC2 & (Hc2n & Hc2h & _) & _).
  eexists. split; [|split; [|split; [|split; [|split]]]].
  - unfold advance_both. sk. rewrite Ec1. sk. rewrite Hfc. sk. rewrite Eg1. sk.
    rewrite pump_fuel_eq. sk. rewrite Eg2. sk. rewrite Hfg. sk. rewrite Ec2. sk. rewrite Hg1n. reflexivity.
  - unfold Sleeping. sk. split; [|split; [exact HG2|split; [|split; [|split; [|split]]]]].
    + eexists. eexists. eexists. eexists. rewrite <- Hc1n. exact HC2.
    + unfold Linked. sk. split; [rewrite Hc2n, Hc1n, Hg2n, Hg1n; reflexivity|]. split; [rewrite Hg2c, Hg1c; exact Hcid|].
      split; assumption.
    + rewrite Hg2n, Hg1n. lia.
    + exact Hb.
    + sk. rewrite Hc2h, Hc1h. exact Hh.
    + exact Hok.
  - sk. rewrite Hg2n. exact Hg1n.
  - reflexivity.
  - reflexivity.
  - reflexivity.
Qed.

(* SAdv d reaching the resend time but not the wake-up *)
Lemma sleepwait_adv cfg y subs id ms n Tr a d : SleepWait cfg y subs id ms n Tr a ->
  1000 <= ms -> ms / 1000 < 65536 -> n + 1 <= k_rcount (e_cl cfg) -> 0 < k_rdelay (e_cl cfg) ->
  nth_fault (e_c2g cfg) (y_c2g_k y) = FDeliver -> nth_fault (e_g2c cfg) (y_g2c_k y) = FDeliver ->
  Tr <= gw_now (y_gw y) + d -> gw_now (y_gw y) + d < Tr + ms ->
  exists y', sys_step cfg y (SAdv d) =
    (y', [SoC2G Tr FDeliver (pack (Disconnect (ms / 1000))); SoG2C Tr FDeliver (pack (Disconnect 0))]) /\
    Sleeping cfg y' subs id (Tr + ms) [] /\ gw_now (y_gw y') = gw_now (y_gw y) + d /\ y_br y' = y_br y /\
    y_c2g_k y' = S (y_c2g_k y) /\ y_g2c_k y' = S (y_g2c_k y).
Proof.
  intros HS Hms Hdur Hn Hrd Hfc Hfg Hd Hd2.
  destruct (adv_both_resend cfg y subs id ms n Tr a HS Hms Hdur Hn Hrd Hfc Hfg) as (y1 & E1 & HS1 & Hn1 & Hb1 & Hkc1 & Hkg1).
  pose proof HS as (_ & _ & HL & HT & _). pose proof HL as (Hnow & _).
  change (sys_step cfg y (SAdv d)) with (advance_to adv_fuel cfg y (sys_now y + d)).
  rewrite (sys_now_linked cfg y HL). destruct adv_fuel_eq as (f & ->).
  rewrite advance_to_S, (deadline_sleepwait cfg y subs id ms n Tr a HS).
  destruct (Tr <? gw_now (y_gw y) + d) eqn:Elt.
  - assert (Emax : N.max Tr (N.max (cl_now (y_cl y)) (gw_now (y_gw y))) = Tr) by lia. rewrite Emax, E1.
    rewrite advance_to_S, (deadline_sleeping cfg y1 subs id _ _ HS1).
    assert (Elt2 : (Tr + ms <? gw_now (y_gw y) + d) = false) by (apply N.ltb_ge; lia). rewrite Elt2.
    destruct (adv_both_sleeping cfg y1 subs id _ _ (gw_now (y_gw y) + d) HS1 ltac:(apply N.ltb_lt in Elt; lia) Hd2)
      as (y2 & E2 & HS2 & Hn2 & Hb2 & Hkc2 & Hkg2).
    rewrite E2, app_nil_r. exists y2. split; [reflexivity|]. split; [exact HS2|]. split; [exact Hn2|].
    split; [rewrite Hb2; exact Hb1|]. split; [rewrite Hkc2; exact Hkc1|rewrite Hkg2; exact Hkg1].
  - assert (gw_now (y_gw y) + d = Tr) as -> by (apply N.ltb_ge in Elt; lia). rewrite E1.
    exists y1. split; [reflexivity|]. split; [exact HS1|]. split; [exact Hn1|]. split; [exact Hb1|]. split; [exact Hkc1|exact Hkg1].
Qed.

(* ------------------------------------------------------------------ 3. the theorems *)

(* Case A.  The gateway's reply to the sleep DISCONNECT is lost.  The session is asleep already; one RetryDelay of the
   client later the client sends the same DISCONNECT again, and the gateway answers AT ONCE (the reply is not queued in the
   sleep buffer, which stays empty): the client falls asleep then, its wake-up is at now + RetryDelay + ms.  Nothing
   reaches the broker, the call has not returned. *)
Theorem C16_sleep_survives_a_lost_disconnect_reply cfg y subs id ms d : QuietS cfg y subs ->
  1000 <= ms -> ms / 1000 < 65536 ->
  gw_keepalive (y_gw y) = 0 \/ ms / 1000 <= gw_keepalive (y_gw y) ->
  1 <= k_rcount (e_cl cfg) -> 0 < k_rdelay (e_cl cfg) ->
  nth_fault (e_c2g cfg) (y_c2g_k y) = FDeliver -> nth_fault (e_c2g cfg) (S (y_c2g_k y)) = FDeliver ->
  nth_fault (e_g2c cfg) (y_g2c_k y) = FDrop -> nth_fault (e_g2c cfg) (S (y_g2c_k y)) = FDeliver ->
  k_rdelay (e_cl cfg) <= d -> d < k_rdelay (e_cl cfg) + ms ->
  let t := gw_now (y_gw y) in
  let T1 := t + k_rdelay (e_cl cfg) in
  exists y', sys_run cfg y [SCall id (ASleep ms); SAdv d] =
    ([[SoC2G t FDeliver (pack (Disconnect (ms / 1000))); SoG2C t FDrop (pack (Disconnect 0))];
      [SoC2G T1 FDeliver (pack (Disconnect (ms / 1000))); SoG2C T1 FDeliver (pack (Disconnect 0))]], y') /\
    Sleeping cfg y' subs id (T1 + ms) [] /\ gw_now (y_gw y') = t + d /\ y_br y' = y_br y /\
    y_c2g_k y' = S (S (y_c2g_k y)) /\ y_g2c_k y' = S (S (y_g2c_k y)).
Proof.
  intros HQ Hms Hdur Hnp Hrc Hrd Hfc0 Hfc1 Hfg0 Hfg1 Hd Hd2 t T1. subst t T1.
  destruct (sleep_call_reply_lost cfg y subs id ms HQ Hms Hdur Hnp Hfc0 Hfg0) as (y1 & E1 & HS1 & Hn1 & Hb1 & Hkc1 & Hkg1).
  destruct (sleepwait_adv cfg y1 subs id ms 0 _ true d HS1 Hms Hdur ltac:(lia) Hrd)
    as (y2 & E2 & HS2 & Hn2 & Hb2 & Hkc2 & Hkg2).
  - rewrite Hkc1. exact Hfc1.
  - rewrite Hkg1. exact Hfg1.
  - rewrite Hn1. lia.
  - rewrite Hn1. lia.
  - exists y2. split; [|split; [exact HS2|split; [rewrite Hn2, Hn1; reflexivity|split; [rewrite Hb2; exact Hb1|split]]]].
    + cbn [sys_run]. rewrite E1, E2. reflexivity.
    + rewrite Hkc2, Hkc1. reflexivity.
    + rewrite Hkg2, Hkg1. reflexivity.
Qed.

(* Case B.  The client's DISCONNECT is lost: nothing happens at the gateway; one RetryDelay later the retransmission goes
   through and the exchange is the lossless one, shifted by RetryDelay. *)
Theorem C16_sleep_survives_a_lost_disconnect cfg y subs id ms d : QuietS cfg y subs ->
  1000 <= ms -> ms / 1000 < 65536 ->
  gw_keepalive (y_gw y) = 0 \/ ms / 1000 <= gw_keepalive (y_gw y) ->
  1 <= k_rcount (e_cl cfg) -> 0 < k_rdelay (e_cl cfg) ->
  nth_fault (e_c2g cfg) (y_c2g_k y) = FDrop -> nth_fault (e_c2g cfg) (S (y_c2g_k y)) = FDeliver ->
  nth_fault (e_g2c cfg) (y_g2c_k y) = FDeliver ->
  k_rdelay (e_cl cfg) <= d -> d < k_rdelay (e_cl cfg) + ms ->
  let t := gw_now (y_gw y) in
  let T1 := t + k_rdelay (e_cl cfg) in
  exists y', sys_run cfg y [SCall id (ASleep ms); SAdv d] =
    ([[SoC2G t FDrop (pack (Disconnect (ms / 1000)))];
      [SoC2G T1 FDeliver (pack (Disconnect (ms / 1000))); SoG2C T1 FDeliver (pack (Disconnect 0))]], y') /\
    Sleeping cfg y' subs id (T1 + ms) [] /\ gw_now (y_gw y') = t + d /\ y_br y' = y_br y /\
    y_c2g_k y' = S (S (y_c2g_k y)) /\ y_g2c_k y' = S (y_g2c_k y).
Proof.
  intros HQ Hms Hdur Hnp Hrc Hrd Hfc0 Hfc1 Hfg0 Hd Hd2 t T1. subst t T1.
  destruct (sleep_call_disconnect_lost cfg y subs id ms HQ Hdur Hnp Hfc0) as (y1 & E1 & HS1 & Hn1 & Hb1 & Hkc1 & Hkg1).
  destruct (sleepwait_adv cfg y1 subs id ms 0 _ false d HS1 Hms Hdur ltac:(lia) Hrd)
    as (y2 & E2 & HS2 & Hn2 & Hb2 & Hkc2 & Hkg2).
  - rewrite Hkc1. exact Hfc1.
  - rewrite Hkg1. exact Hfg0.
  - rewrite Hn1. lia.
  - rewrite Hn1. lia.
  - exists y2. split; [|split; [exact HS2|split; [rewrite Hn2, Hn1; reflexivity|split; [rewrite Hb2; exact Hb1|split]]]].
    + cbn [sys_run]. rewrite E1, E2. reflexivity.
    + rewrite Hkc2, Hkc1. reflexivity.
    + rewrite Hkg2, Hkg1. reflexivity.
Qed.

(* ------------------------------------------------------------------ 4. concrete instances; observations *)

(* ecfg0 (client RetryDelay 10 s, RetryCount 3) after Connect and Subscribe "ab" (2 datagrams each way so far);
   A: the third datagram of the gateway is lost; B: the third datagram of the client is lost *)
Definition ecfgA : e2e_cfg := {| e_gw := gcfg0; e_cl := ccfg0; e_c2g := []; e_g2c := [FDeliver; FDeliver; FDrop] |}.
Definition ecfgB : e2e_cfg := {| e_gw := gcfg0; e_cl := ccfg0; e_c2g := [FDeliver; FDeliver; FDrop]; e_g2c := [] |}.

Lemma loss_y0_quiet_any c2g g2c : QuietS {| e_gw := gcfg0; e_cl := ccfg0; e_c2g := c2g; e_g2c := g2c |} loss_y0 [loss_sub].
Proof.
  destruct loss_y0_quiet as ((HC & HG & Hnow & Hcid & Hbc & Heof) & Hr). split; [|exact Hr].
  split; [exact HC|]. split; [exact HG|]. split; [exact Hnow|]. split; [exact Hcid|]. split; assumption.
Qed.

Example sleep_reply_lost_instance :
  exists y', sys_run ecfgA loss_y0 [SCall 3 (ASleep 5000); SAdv 12000] =
    ([[SoC2G 0 FDeliver [4; 24; 0; 5]; SoG2C 0 FDrop [2; 24]];
      [SoC2G 10000 FDeliver [4; 24; 0; 5]; SoG2C 10000 FDeliver [2; 24]]], y') /\
    Sleeping ecfgA y' [loss_sub] 3 15000 [] /\ gw_now (y_gw y') = 12000.
Proof.
  destruct (C16_sleep_survives_a_lost_disconnect_reply ecfgA loss_y0 [loss_sub] 3 5000 12000) as (y' & E & HS & Hn & _).
  - apply loss_y0_quiet_any.
  - lia.
  - lia.
  - right. vm_compute. intros H. discriminate H.
  - vm_compute. intros H. discriminate H.
  - reflexivity.
  - reflexivity.
  - reflexivity.
  - reflexivity.
  - reflexivity.
  - vm_compute. intros H. discriminate H.
  - vm_compute. reflexivity.
  - exists y'. split; [exact E|split; [exact HS|rewrite Hn; vm_compute; reflexivity]].
Qed.

Example sleep_disconnect_lost_instance :
  exists y', sys_run ecfgB loss_y0 [SCall 3 (ASleep 5000); SAdv 12000] =
    ([[SoC2G 0 FDrop [4; 24; 0; 5]];
      [SoC2G 10000 FDeliver [4; 24; 0; 5]; SoG2C 10000 FDeliver [2; 24]]], y') /\
    Sleeping ecfgB y' [loss_sub] 3 15000 [] /\ gw_now (y_gw y') = 12000.
Proof.
  destruct (C16_sleep_survives_a_lost_disconnect ecfgB loss_y0 [loss_sub] 3 5000 12000) as (y' & E & HS & Hn & _).
  - apply loss_y0_quiet_any.
  - lia.
  - lia.
  - right. vm_compute. intros H. discriminate H.
  - vm_compute. intros H. discriminate H.
  - reflexivity.
  - reflexivity.
  - reflexivity.
  - reflexivity.
  - vm_compute. intros H. discriminate H.
  - vm_compute. reflexivity.
  - exists y'. split; [exact E|split; [exact HS|rewrite Hn; vm_compute; reflexivity]].
Qed.

(* the whole cycle after the lost reply, computed: the wake-up comes at 15 s (RetryDelay + ms), Sleep returns nil *)
Example sleep_reply_lost_cycle :
  fst (sys_run ecfgA loss_y0 [SCall 3 (ASleep 5000); SAdv 12000; SAdv 10000]) =
    [[SoC2G 0 FDeliver [4; 24; 0; 5]; SoG2C 0 FDrop [2; 24]];
     [SoC2G 10000 FDeliver [4; 24; 0; 5]; SoG2C 10000 FDeliver [2; 24]];
     [SoC2G 15000 FDeliver [4; 22; 99; 49]; SoG2C 15000 FDeliver [2; 23]; SoRet 15000 3 ROk]].
Proof. vm_compute. reflexivity. Qed.

(* Observation (outside the no-pinger hypothesis): with a sleep longer than the keep-alive (90 s > 60 s) the repeated
   DISCONNECT starts a SECOND sleep pinger - two pingers (objects 2 and 3) run side by side, each with its own cancel timer,
   the second measured from the retransmission *)
Example sleep_reply_lost_two_pingers :
  gw_timers (y_gw (snd (sys_run ecfgA loss_y0 [SCall 3 (ASleep 90000); SAdv 12000]))) =
    [{| tm_at := 60000; tm_seq := 2; tm_kind := TmPing 2 |}; {| tm_at := 90000; tm_seq := 3; tm_kind := TmPingCancel 2 |};
     {| tm_at := 70000; tm_seq := 4; tm_kind := TmPing 3 |}; {| tm_at := 100000; tm_seq := 5; tm_kind := TmPingCancel 3 |}] /\
  gw_buffer (y_gw (snd (sys_run ecfgA loss_y0 [SCall 3 (ASleep 90000); SAdv 12000]))) = [].
Proof. vm_compute. split; reflexivity. Qed.

(* ------------------------------------------------------------------ 5. assumptions *)

Print Assumptions C16_sleep_survives_a_lost_disconnect_reply.
Print Assumptions C16_sleep_survives_a_lost_disconnect.
Print Assumptions sleep_reply_lost_instance.
Print Assumptions sleep_disconnect_lost_instance.
Print Assumptions sleep_reply_lost_cycle.
Print Assumptions sleep_reply_lost_two_pingers.
