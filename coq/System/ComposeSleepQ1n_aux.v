(* System/ComposeSleepQ1n_aux.v — component lemmas for System/ComposeSleepQ1n.v: a LIST of broker PUBLISHes with QoS 1
   for a sleeping client.

     pend, objs_of, byid_of, tm_of, buf_of   a list of pending exchanges (object, message ID, packet, timer sequence number)
                                   and the gateway's tables / timers / sleep buffer it stands for
     GwPl g st buf l Tr            the session holds exactly the exchanges l (in order of arrival), all awaiting PUBACK, never
                                   retransmitted, every retry timer due at Tr
     gw_asleep_bpub1_l             one more MQTT PUBLISH QoS 1 (new message ID, new object): appended
     gw_pl_pingreq                 PINGREQ: the buffer in order, PINGRESP; the exchanges stay
     gw_pl_puback                  PUBACK for the oldest exchange: MQTT PUBACK to the broker; the others stay
     gw_adv_pl_ex                  time passing before Tr

   Style and tactics: see ComposeSleep_aux.v. *)
From stdpp Require Import base option list numbers fin_maps nmap.
From Coq Require Import Lia ZArith ZifyN ZifyNat ZifyBool.
From RecordUpdate Require Import RecordSet.
From Verif.Base Require Import Bytes BytesProofs.
From Verif.Codec Require Import Packets Decode Encode EncodeProofs.
From Verif.Checkers Require Import ChkCodec.
From Verif.Topics Require Import Predefined.
From Verif.Gateway Require Import GwTypes GwStep GwWf.
From Verif.Match Require Import Match MatchProofs.
From Verif.Client Require Import ClTypes ClStep Sound_Client.
From Verif.System Require Import Compose RoutingProofs ComposeProofs_aux ComposeProofs2_aux ComposeLoss_aux ComposeSleep_aux.
Import RecordSetNotations.
Open Scope N_scope.
Ltac Zify.zify_post_hook ::= Z.div_mod_to_equations.

(* ------------------------------------------------------------------ a list of pending broker PUBLISHes (QoS 1) *)

(* one pending exchange: object, message ID, stored packet, sequence number of its retry timer *)
Record pend := { p_o : N; p_mid : N; p_pub : packet; p_sq : N }.
Definition ptx (e : pend) : txn := TxBrokerPub (p_mid e) 1 AwaitPuback (RsSn (p_pub e)) None 0.
Definition objs_of (l : list pend) : Nmap txn := fold_right (fun e m => <[p_o e := ptx e]> m) ∅ l.
Definition byid_of (l : list pend) : Nmap N := fold_right (fun e m => <[p_mid e := p_o e]> m) ∅ l.
Definition tm_of (Tr : N) (e : pend) : timer := {| tm_at := Tr; tm_seq := p_sq e; tm_kind := TmRetry (p_o e) |}.
Definition buf_of (l : list pend) : list (option N * packet) := map (fun e => (Some (p_o e), p_pub e)) l.

Lemma objs_none l o : ~ In o (map p_o l) -> objs_of l !! o = None.
Proof.
  induction l as [|e l IH]; intros Hn; [apply Nl_emp|]. cbn [objs_of fold_right]. cbn [map] in Hn.
  rewrite (lookup_insert_ne (M:=Nmap)) by (intros H; apply Hn; left; exact H). apply IH. intros H. apply Hn. right. exact H.
Qed.
Lemma byid_none l i : ~ In i (map p_mid l) -> byid_of l !! i = None.
Proof.
  induction l as [|e l IH]; intros Hn; [apply Nl_emp|]. cbn [byid_of fold_right]. cbn [map] in Hn.
  rewrite (lookup_insert_ne (M:=Nmap)) by (intros H; apply Hn; left; exact H). apply IH. intros H. apply Hn. right. exact H.
Qed.
Lemma objs_snoc l e : ~ In (p_o e) (map p_o l) -> <[p_o e := ptx e]> (objs_of l) = objs_of (l ++ [e]).
Proof.
  induction l as [|a l IH]; intros Hn; [reflexivity|]. cbn [objs_of fold_right app]. cbn [map] in Hn.
  rewrite (insert_commute (M:=Nmap)) by (intros H; apply Hn; left; symmetry; exact H).
  f_equal. apply IH. intros H. apply Hn. right. exact H.
Qed.
Lemma byid_snoc l e : ~ In (p_mid e) (map p_mid l) -> <[p_mid e := p_o e]> (byid_of l) = byid_of (l ++ [e]).
Proof.
  induction l as [|a l IH]; intros Hn; [reflexivity|]. cbn [byid_of fold_right app]. cbn [map] in Hn.
  rewrite (insert_commute (M:=Nmap)) by (intros H; apply Hn; left; symmetry; exact H).
  f_equal. apply IH. intros H. apply Hn. right. exact H.
Qed.
(* stopping the timers of an object that has none *)
Lemma tms_keep Tr l o : ~ In o (map p_o l) ->
  List.filter (fun t => negb (timer_of_obj o (tm_kind t))) (map (tm_of Tr) l) = map (tm_of Tr) l.
Proof.
  induction l as [|e l IH]; intros Hn; [reflexivity|]. cbn [map List.filter tm_of tm_kind timer_of_obj]. cbn [map] in Hn.
  assert (E : (o =? p_o e) = false) by (apply N.eqb_neq; intros H; apply Hn; left; symmetry; exact H). rewrite E. cbn [negb].
  f_equal. apply IH. intros H. apply Hn. right. exact H.
Qed.

(* the session (state st, sleep buffer buf) holds exactly the exchanges l (in order of arrival), all awaiting PUBACK, never
   retransmitted, every retry timer due at Tr *)
Record GwPl (g : gw_state) (st : cstate) (buf : list (option N * packet)) (l : list pend) (Tr : N) : Prop := {
  gl_st : gw_st g = st; gl_buffer : gw_buffer g = buf;
  gl_objs : gw_objs g = objs_of l; gl_by_id : gw_by_id g = byid_of l; gl_connect : gw_connect g = None;
  gl_timers : gw_timers g = map (tm_of Tr) l;
  gl_ending : gw_ending g = None; gl_ended : gw_ended g = false; gl_accepted : gw_accepted g = true }.

Ltac rwgl H := rewrite ?(gl_st _ _ _ _ _ H), ?(gl_buffer _ _ _ _ _ H), ?(gl_objs _ _ _ _ _ H),
  ?(gl_by_id _ _ _ _ _ H), ?(gl_connect _ _ _ _ _ H), ?(gl_timers _ _ _ _ _ H),
  ?(gl_ending _ _ _ _ _ H), ?(gl_ended _ _ _ _ _ H).
Tactic Notation "rwl" := match goal with HL : GwPl _ _ _ _ _ |- _ => rwgl HL end.
Ltac gsn_l p Hwf := unfold gw_step; bi; rwl; bi; gk; rwl; bi; rewrite (read_pack_roundtrip p) by Hwf; bi;
  unfold handle_sn, packet_legal; gk; rwl; bi; gk.
Ltac gmq_l := unfold gw_step; bi; rwl; bi; gk; rwl; bi; unfold handle_mq; bi.

Lemma GwSt_Pl g st buf Tr : GwSt g st buf -> GwPl g st buf [] Tr.
Proof. intros H. constructor; apply H. Qed.
Lemma GwPl_St g st buf Tr : GwPl g st buf [] Tr -> GwSt g st buf.
Proof. intros H. constructor; apply H. Qed.

(* one more PUBLISH of the broker (QoS 1, short topic name) for the sleeping client: appended *)
Lemma gw_asleep_bpub1_l cfg g l dup retain topic mid payload :
  GwPl g Asleep (buf_of l) l (gw_now g + retry_delay cfg) -> is_short_topic topic = true ->
  ~ In (gw_next_obj g) (map p_o l) -> ~ In mid (map p_mid l) ->
  let e := {| p_o := gw_next_obj g; p_mid := mid; p_pub := Publish dup 1 retain TIT_SHORT (encode_short topic) mid payload;
              p_sq := gw_next_seq g |} in
  exists g', gw_step cfg g (EvMq (MqPublish dup 1 retain topic mid payload)) = (g', []) /\
    GwPl g' Asleep (buf_of (l ++ [e])) (l ++ [e]) (gw_now g + retry_delay cfg) /\
    gw_frame g g' /\ gw_next_obj g' = gw_next_obj g + 1.
Proof.
  intros HL Hs Hno Hnm e.
  pose proof (objs_snoc l e Hno) as Eo. pose proof (byid_snoc l e Hnm) as Eb.
  pose proof (tms_keep (gw_now g + retry_delay cfg) l (gw_next_obj g) Hno) as Et.
  subst e. cbn [p_o p_mid ptx p_pub] in Eo, Eb.
  eexists. split; [|split; [|split]].
  - gmq_l. unfold handle_broker_publish. rewrite Hs. bi. gk. change (2 <? 1) with false. bi.
    unfold new_obj. bi. unfold bp_proceed, set_obj, disarm_obj, arm. gk. rwl. gk.
    rewrite (insert_insert (M:=Nmap)). rewrite Et.
    unfold sn_send_owned. gk. rwl. bi. unfold ok, finish_r. gk. rwl. reflexivity.
  - constructor; gk; rwgl HL; try reflexivity.
    + unfold buf_of. rewrite map_app. reflexivity.
    + exact Eo.
    + exact Eb.
    + rewrite map_app. reflexivity.
    + apply (gl_accepted _ _ _ _ _ HL).
  - repeat split.
  - reflexivity.
Qed.

Lemma run_timers_pl cfg g st buf l Tr t f : GwPl g st buf l Tr -> t < Tr -> run_timers f cfg g t = (g, []).
Proof.
  intros HD Ht. destruct f; [reflexivity|]. cbn [run_timers]. rwgl HD.
  assert (E : forall tm, min_timer (map (tm_of Tr) l) = Some tm -> tm_at tm = Tr).
  { clear. induction l as [|e l IH]; intros tm; cbn [map min_timer]; [discriminate|].
    destruct (min_timer (map (tm_of Tr) l)) as [u|]; [|intros H; injection H as <-; reflexivity].
    destruct (earlier (tm_of Tr e) u); intros H; injection H as <-; [reflexivity|apply IH; reflexivity]. }
  destruct (min_timer (map (tm_of Tr) l)) as [tm|] eqn:Em; [|reflexivity].
  rewrite (E tm eq_refl). assert (E2 : (Tr <=? t) = false) by (apply N.leb_gt, Ht). rewrite E2. reflexivity.
Qed.

Lemma gw_adv_pl_ex cfg g st buf l Tr t : GwPl g st buf l Tr -> gw_now g <= t -> t < Tr ->
  exists g1, gw_step cfg g (EvAdvance (t - gw_now g)) = (g1, []) /\ GwPl g1 st buf l Tr /\ gw_now g1 = t /\
    gw_client_id g1 = gw_client_id g /\ gw_next_obj g1 = gw_next_obj g.
Proof.
  intros HD Ht HtT. exists (g <| gw_now := gw_now g + (t - gw_now g) |>). split; [|split; [|split; [|split; reflexivity]]].
  - unfold gw_step. rewrite (gl_ended _ _ _ _ _ HD).
    rewrite (run_timers_pl cfg g st buf l Tr _ _ HD) by lia. rewrite (gl_ended _ _ _ _ _ HD). reflexivity.
  - constructor; gk; apply HD.
  - cbn [gw_now set]. lia.
Qed.

Lemma gw_deadline_pl g st buf e l Tr : GwPl g st buf (e :: l) Tr -> gw_next_deadline g = Some Tr.
Proof.
  intros HD. unfold gw_next_deadline. rwgl HD. cbn [map min_timer].
  assert (E : forall tm, min_timer (map (tm_of Tr) l) = Some tm -> tm_at tm = Tr).
  { clear. induction l as [|a l IH]; intros tm; cbn [map min_timer]; [discriminate|].
    destruct (min_timer (map (tm_of Tr) l)) as [u|]; [|intros H; injection H as <-; reflexivity].
    destruct (earlier (tm_of Tr a) u); intros H; injection H as <-; [reflexivity|apply IH; reflexivity]. }
  destruct (min_timer (map (tm_of Tr) l)) as [u|] eqn:Em; [|reflexivity].
  destruct (earlier (tm_of Tr e) u); [reflexivity|]. rewrite (E u eq_refl). reflexivity.
Qed.

(* PINGREQ of the sleeping client: the buffer in order, PINGRESP; the exchanges and their timers stay *)
Lemma gw_pl_pingreq cfg g buf l Tr cid :
  GwPl g Asleep buf l Tr -> Forall (fun e => wf_pkt (snd e) = true) buf -> okb cid = true ->
  exists g', gw_step cfg g (EvSn (pack (Pingreq cid))) =
             (g', map (fun e => OutSn (gw_now g) (pack (snd e))) buf ++ [OutSn (gw_now g) (pack Pingresp)]) /\
    GwPl g' Asleep [] l Tr /\ gw_frame g g'.
Proof.
  intros HD Hwf Hcid. eexists. split; [|split].
  - gsn_l (Pingreq cid) ltac:(apply wf_pingreq, Hcid).
    match goal with |- context [send_all ?s ?b] => rewrite (send_all_awake s b) by (try reflexivity; exact Hwf) end.
    unfold andthen. bi. unfold sn_send, sn_send_owned. gk. rewrite (pack_fits Pingresp) by reflexivity.
    unfold ok, finish_r. bi. gk. reflexivity.
  - constructor; gk; rwgl HD; try reflexivity. apply (gl_accepted _ _ _ _ _ HD).
  - repeat split.
Qed.

(* the client's PUBACK for the OLDEST exchange: MQTT PUBACK to the broker; that exchange is finished, the others stay *)
Lemma gw_pl_puback cfg g e l Tr tid :
  GwPl g Asleep [] (e :: l) Tr -> ~ In (p_o e) (map p_o l) -> ~ In (p_mid e) (map p_mid l) ->
  tid < 65536 -> 1 <= p_mid e < 65536 ->
  exists g', gw_step cfg g (EvSn (pack (Puback tid (p_mid e) RC_ACCEPTED))) = (g', [OutMq (gw_now g) (MqPuback (p_mid e))]) /\
    GwPl g' Asleep [] l Tr /\ gw_frame g g'.
Proof.
  intros HD Hno Hnm Ht Hm.
  pose proof (objs_none l _ Hno) as Eon. pose proof (byid_none l _ Hnm) as Ebn.
  pose proof (tms_keep Tr l _ Hno) as Et.
  eexists. split; [|split].
  - gsn_l (Puback tid (p_mid e) RC_ACCEPTED) ltac:(apply wf_puback_any; lia).
    unfold get_by_id. gk. rwl. cbn [objs_of byid_of fold_right]. nl. bi. gk. rwl. cbn [objs_of byid_of fold_right]. nl. unfold ptx. bi. gk.
    unfold bp_proceed, set_obj, disarm_obj, arm. gk. rwl. cbn [objs_of byid_of fold_right map]. gk.
    unfold mq_send, mq_ack, andthen, ok. bi. gk.
    cbn [tm_of tm_kind timer_of_obj]. rewrite N.eqb_refl. gk. fold (tm_of Tr). rewrite Et. rewrite (insert_insert (M:=Nmap)).
    match goal with |- context [finish_obj ?s ?g0] =>
      val (finish_obj s g0) ltac:(unfold finish_obj, disarm_obj; gk; nl; bi; gk; rwl; cbn [objs_of byid_of fold_right]; nl; bi; gk;
        rewrite ?N.eqb_refl; gk;
        rewrite (filter_app _ (map (tm_of Tr) l)); rewrite Et; cbn [List.filter tm_kind timer_of_obj]; rewrite N.eqb_refl; cbn [negb];
        rewrite app_nil_r, (Nd_ins _ _ _ Eon), (Nd_ins _ _ _ Ebn)) end.
    unfold finish_r. gk. reflexivity.
  - constructor; gk; rwgl HD; try reflexivity. apply (gl_accepted _ _ _ _ _ HD).
  - repeat split.
Qed.

Print Assumptions gw_asleep_bpub1_l.
Print Assumptions gw_adv_pl_ex.
Print Assumptions gw_pl_pingreq.
Print Assumptions gw_pl_puback.
