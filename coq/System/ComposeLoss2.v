(* System/ComposeLoss2.v — C16, liveness half, continued: delivery over a LOSSY link in the composed system
   of System/Compose.v of (1) a broker PUBLISH with QoS 2 on a short topic name and (2) a broker PUBLISH with
   QoS 1 on a name that needs the REGISTER step first; exact traces, proved for ALL configurations, states,
   subscriptions, message IDs and payloads in the stated ranges.  Continues System/ComposeLoss.v (QoS 1, short
   topic names).  The link's fault lists are arbitrary except at the positions the exchange uses (stated with
   nth_fault at the link counters y_c2g_k / y_g2c_k of the start state); no other traffic during the exchange.

   Hold2 cfg y held tx mid T       the gateway holds exactly one transaction tx (message ID mid, retry timer due at T);
                                   the client is quiescent (held = None) or holds exactly the QoS 2 PUBLISH pub,
                                   acknowledged with PUBREC, handler not yet run (held = Some pub)

   1. QoS 2, topic of a subscription of QuietS (ComposeProofs2.v), events SBpub m; SAdv d (any d >= the stated bound):
   e2e_bpub_q2_deliver             no loss: PUBLISH, PUBREC, BR PUBREC, BS PUBREL, PUBREL, ONE SoCb (at PUBREL time), PUBCOMP,
                                   BR PUBCOMP
   e2e_bpub_q2_publish_lost(_n)    the PUBLISH is lost 1 + k <= RetryCount times in a row: retransmitted with DUP every
                                   RetryDelay; delivery at now + (1 + k) RetryDelay, ONE SoCb (dup = true)
   e2e_bpub_q2_pubrec_lost         the client's PUBREC is lost: the client holds the PUBLISH (no handler invocation); the
                                   retransmitted PUBLISH replaces it, PUBREC again, still NO handler invocation; after the
                                   broker's PUBREL ONE SoCb (dup = true: the flags of the copy received last)
   e2e_bpub_q2_pubrel_lost(_n)     the gateway's PUBREL is lost 1 + k <= RetryCount times in a row (fresh retry budget):
                                   retransmitted; ONE SoCb (dup as the broker sent it) when it gets through
   e2e_bpub_q2_pubcomp_lost        the client's PUBCOMP is lost (the handler has run ONCE): the gateway retransmits PUBREL, the
                                   client - which holds nothing under that message ID any more - answers PUBCOMP again
                                   WITHOUT invoking the handler
   e2e_bpub_q2_one_loss_once       whichever of the four datagrams is lost: cbs_of = [the handler of the subscription, topic,
                                   payload] (exactly once), brs_of = [PUBREC mid; PUBCOMP mid], no call returns, QuietS again
   q2_one_loss_instance / _computed / q2_retry_budget_tight   concrete instances (hypotheses satisfiable; the formulas agree
                                   with vm_compute of the model; RetryCount + 1 consecutive losses: never delivered)

   2. QoS 1 with the REGISTER step, from any Quiet state with RegReady (the name is not a 2-byte name, has no topic ID
   on either side, the gateway's allocator can hand out its next ID i); QuietS covers short-topic subscriptions only
   (such a name can only match a wildcard subscription), so the handler invoked is the first candidate of the client's
   handler table for the name, if any (scb_at, scb_at_hd); afterwards the name is registered with i on both sides (RegDone):
   e2e_bpub_reg_q1_deliver            no loss: REGISTER, REGACK, PUBLISH (registered topic ID), PUBACK, ONE SoCb, BR PUBACK
   e2e_bpub_reg_q1_register_lost_n    REGISTER lost 1 + k <= RetryCount times in a row: retransmitted unchanged; ONE SoCb
   e2e_bpub_reg_q1_regack_lost        the client's REGACK is lost: REGISTER retransmitted, the client accepts the same
                                      registration again; ONE SoCb
   e2e_bpub_reg_q1_publish_lost_n     the PUBLISH after the REGACK is lost 1 + k times (fresh retry budget): DUP; ONE SoCb
   e2e_bpub_reg_q1_puback_lost        the client's PUBACK is lost: TWO SoCb (QoS 1 is at-least-once), one PUBACK at the broker
   quietb_spec, reg_regack_lost_instance, reg_step_computed   Quiet is decided by quietb; concrete instance; model check

   No upper bound on d is needed (after the exchange no timer is armed); the client's keep-alive is not part of this
   model.  The component lemmas are in ComposeLoss2_aux.v. *)
From stdpp Require Import base option list numbers fin_maps nmap.
From Coq Require Import Lia ZArith ZifyN ZifyNat ZifyBool.
From RecordUpdate Require Import RecordSet.
From Verif.Base Require Import Bytes BytesProofs.
From Verif.Codec Require Import Packets Decode Encode EncodeProofs.
From Verif.Checkers Require Import ChkCodec.
From Verif.Topics Require Import Predefined.
From Verif.Gateway Require Import GwTypes GwStep GwWf.
From Verif.Match Require Import Match MatchProofs.
From Verif.Client Require Import ClTypes ClStep Sound_Client.
From Verif.System Require Import Compose RoutingProofs ComposeProofs_aux ComposeProofs ComposeProofs2_aux ComposeProofs2
  ComposeProofs3_aux ComposeLoss_aux ComposeLoss ComposeLoss2_aux.
Import RecordSetNotations.
Open Scope N_scope.
Ltac Zify.zify_post_hook ::= Z.div_mod_to_equations.

(* ------------------------------------------------------------------ definitions *)

(* the MQTT-SN form of a broker PUBLISH (QoS 2) on a short topic name *)
Definition pub2 (dup retain : bool) (topic : bytes) (mid : N) (payload : bytes) : packet :=
  Publish dup 2 retain TIT_SHORT (encode_short topic) mid payload.

Lemma set_dup_pub2 dup retain topic mid payload : set_dup (pub2 dup retain topic mid payload) = pub2 true retain topic mid payload.
Proof. reflexivity. Qed.

Lemma wf_pub2 dup retain topic mid payload :
  is_short_topic topic = true -> wf_bytes topic -> mid < 65536 -> okb payload = true ->
  wf_pkt (pub2 dup retain topic mid payload) = true.
Proof. intros Hs Hw Hm Hp. apply wf_pub_short; [lia|assumption|assumption|assumption|assumption]. Qed.

(* the transaction of the gateway: awaiting PUBREC (stored PUBLISH p), awaiting PUBCOMP (stored PUBREL) *)
Definition tx_rec (mid : N) (p : packet) (n : N) : txn := TxBrokerPub mid 2 AwaitPubrec (RsSn p) None n.
Definition tx_comp (mid n : N) : txn := TxBrokerPub mid 2 AwaitPubcomp (RsSn (Pubrel mid)) None n.

(* a connected system in which the gateway session holds exactly one transaction tx (message ID mid, retry
   timer due at T) and the client is quiescent (held = None) or holds exactly the QoS 2 PUBLISH pub
   (held = Some pub: PUBREC sent, handler not yet run); equal clocks, not after T *)
Definition Hold2 (cfg : e2e_cfg) (y : sys) (held : option packet) (tx : txn) (mid T : N) : Prop :=
  ClShape (y_cl y) mid held /\ (exists o sq, GwHold (y_gw y) o mid tx T sq) /\ cl_now (y_cl y) = gw_now (y_gw y) /\
  gw_now (y_gw y) <= T /\
  gw_client_id (y_gw y) = k_cid (e_cl cfg) /\ b_closed (y_br y) = false /\ y_br_eof y = false.

(* what the retransmission rounds leave alone: the registration tables of both sides *)
Definition reg_frame (y y' : sys) : Prop :=
  cl_registered (y_cl y') = cl_registered (y_cl y) /\ gw_registered (y_gw y') = gw_registered (y_gw y).

Lemma reg_frame_refl y : reg_frame y y.
Proof. split; reflexivity. Qed.
Lemma reg_frame_trans y1 y2 y3 : reg_frame y1 y2 -> reg_frame y2 y3 -> reg_frame y1 y3.
Proof. intros [A1 B1] [A2 B2]. split; [rewrite A2; exact A1|rewrite B2; exact B1]. Qed.

(* the topic of the PUBLISH held *)
Definition held_topic (cfg : cl_cfg) (c : cl_state) (held : option packet) (topic : bytes) : Prop :=
  match held with
  | Some (Publish _ _ _ tit tid _ _) => topic_for_publish cfg c tit tid = Some topic
  | Some _ => False
  | None => True
  end.

(* the handler invocation caused by PUBREL at time t *)
Definition rel_scb (y : sys) (t : N) (topic : bytes) (held : option packet) : list sys_out :=
  match held with
  | Some (Publish dup q retain _ _ mid0 payload) => scb_at y t topic payload q retain dup mid0
  | _ => []
  end.

(* ------------------------------------------------------------------ tools *)

Lemma tfp_short cfg c topic : is_short_topic topic = true -> wf_bytes topic ->
  topic_for_publish cfg c TIT_SHORT (encode_short topic) = Some topic.
Proof. intros Hs Hw. unfold topic_for_publish. pk. rewrite (decode_encode_short topic Hs Hw). reflexivity. Qed.

Lemma cl_outs_rel cfg y c topic held t dg :
  cl_outs cfg y (rel_cb c topic held ++ [CoSn t dg]) =
  (y <| y_c2g_k := S (y_c2g_k y) |>,
   match held with
   | Some (Publish dup q retain _ _ mid0 payload) =>
     match handle_set (cl_handlers c) topic with
     | sub :: _ => [SoCb (cl_now c) sub topic payload q retain dup mid0]
     | [] => []
     end
   | _ => []
   end ++ [SoC2G t (nth_fault (e_c2g cfg) (y_c2g_k y)) dg],
   map ToGw (copies (nth_fault (e_c2g cfg) (y_c2g_k y)) dg)).
Proof.
  assert (E : cl_outs cfg y [CoSn t dg] =
              (y <| y_c2g_k := S (y_c2g_k y) |>, [SoC2G t (nth_fault (e_c2g cfg) (y_c2g_k y)) dg],
               map ToGw (copies (nth_fault (e_c2g cfg) (y_c2g_k y)) dg))).
  { cbn [cl_outs app]. rewrite app_nil_r. reflexivity. }
  destruct held as [[]|]; cbn [rel_cb app]; try exact E.
  unfold cb_out. destruct (handle_set (cl_handlers c) topic); cbn [app]; [exact E|].
  cbn [cl_outs app]. rewrite app_nil_r. reflexivity.
Qed.

Lemma deadline_hold cfg y held tx mid T : Hold2 cfg y held tx mid T ->
  min_opt (cl_next_deadline (y_cl y)) (gw_next_deadline (y_gw y)) = Some T.
Proof.
  intros (HC & (o & sq & HP) & _). rewrite (cl_shape_deadline _ _ _ HC). unfold gw_next_deadline. rwgh HP. reflexivity.
Qed.

Lemma sys_step_adv2 cfg y held tx mid T d : Hold2 cfg y held tx mid T ->
  sys_step cfg y (SAdv d) = advance_to adv_fuel cfg y (gw_now (y_gw y) + d).
Proof.
  intros (_ & _ & Hnow & _). change (sys_step cfg y (SAdv d)) with (advance_to adv_fuel cfg y (sys_now y + d)).
  unfold sys_now. rewrite Hnow, N.max_id. reflexivity.
Qed.

Lemma set_dup_idem p : set_dup (set_dup p) = set_dup p.
Proof. destruct p; reflexivity. Qed.

(* the state argument of the pump calls with fuel F, as the record Y (it is a chain of updates convertible to Y) *)
Ltac norm_pump F Y :=
  repeat match goal with |- context [pump F _ ?yy _] =>
    lazymatch yy with Y => fail | _ => change yy with Y end end.

(* ------------------------------------------------------------------ the exchange, datagram by datagram *)

(* PUBREL reaches the client (which holds the PUBLISH, or nothing any more); its PUBCOMP gets through *)
Lemma pump_rel_deliver cfg y held topic mid n T f :
  Hold2 cfg y held (tx_comp mid n) mid T -> held_topic (e_cl cfg) (y_cl y) held topic -> 1 <= mid < 65536 ->
  nth_fault (e_c2g cfg) (y_c2g_k y) = FDeliver ->
  let t := gw_now (y_gw y) in
  exists y', pump (S (S (S f))) cfg y [ToCl (pack (Pubrel mid))] =
      (y', rel_scb y t topic held ++ [SoC2G t FDeliver (pack (Pubcomp mid)); SoBR t (MqPubcomp mid)]) /\
    Quiet cfg y' /\ gw_now (y_gw y') = t /\ y_br y' = y_br y /\ cl_handlers (y_cl y') = cl_handlers (y_cl y) /\
    y_c2g_k y' = S (y_c2g_k y) /\ y_g2c_k y' = y_g2c_k y.
Proof.
  intros (HC & (o & sq & HP) & Hnow & HT & Hcid & Hbc & Heof) Hht Hm Hfc t. subst t.
  destruct y as [c g b k1 k2 eof]. unfold rel_scb, scb_at. cbn [y_cl y_gw y_br y_br_eof y_c2g_k y_g2c_k] in *.
  destruct (cl_shape_rel (e_cl cfg) c held mid topic HC Hht ltac:(lia)) as (c' & Ec & HC' & (Hcn & Hch & _) & _).
  destruct (gw_hold_pubcomp (e_gw cfg) g o mid _ _ _ T sq HP Hm) as (g' & Eg & HG' & (Hgn & Hgc & _)).
  eexists. split; [|split; [|split; [|split; [|split; [|split]]]]].
  - sk. rewrite Ec. sk. rewrite cl_outs_rel. sk. rewrite Hfc. sk. rewrite Eg. sk.
    unfold broker_recv. rewrite Hbc. sk. rewrite Hbc. sk. rewrite pump_nil.
    rewrite ?app_nil_r, <- app_assoc, Hnow. reflexivity.
  - unfold Quiet. sk. split; [exact HC'|]. split; [exact HG'|]. split; [rewrite Hcn, Hgn; exact Hnow|].
    split; [rewrite Hgc; exact Hcid|]. split; assumption.
  - sk. exact Hgn.
  - reflexivity.
  - sk. exact Hch.
  - reflexivity.
  - reflexivity.
Qed.

(* ... its PUBCOMP is lost: the handler has run, the client is quiescent, the gateway keeps waiting for PUBCOMP *)
Lemma pump_rel_drop cfg y held topic mid n T f :
  Hold2 cfg y held (tx_comp mid n) mid T -> held_topic (e_cl cfg) (y_cl y) held topic -> 1 <= mid < 65536 ->
  nth_fault (e_c2g cfg) (y_c2g_k y) = FDrop ->
  let t := gw_now (y_gw y) in
  exists y', pump (S f) cfg y [ToCl (pack (Pubrel mid))] =
      (y', rel_scb y t topic held ++ [SoC2G t FDrop (pack (Pubcomp mid))]) /\
    Hold2 cfg y' None (tx_comp mid n) mid T /\ gw_now (y_gw y') = t /\ y_br y' = y_br y /\
    cl_handlers (y_cl y') = cl_handlers (y_cl y) /\ y_c2g_k y' = S (y_c2g_k y) /\ y_g2c_k y' = y_g2c_k y.
Proof.
  intros (HC & (o & sq & HP) & Hnow & HT & Hcid & Hbc & Heof) Hht Hm Hfc t. subst t.
  destruct y as [c g b k1 k2 eof]. unfold rel_scb, scb_at. cbn [y_cl y_gw y_br y_br_eof y_c2g_k y_g2c_k] in *.
  destruct (cl_shape_rel (e_cl cfg) c held mid topic HC Hht ltac:(lia)) as (c' & Ec & HC' & (Hcn & Hch & _) & _).
  eexists. split; [|split; [|split; [|split; [|split; [|split]]]]].
  - sk. rewrite Ec. sk. rewrite cl_outs_rel. sk. rewrite Hfc. sk. rewrite pump_nil.
    rewrite ?app_nil_r, Hnow. reflexivity.
  - unfold Hold2. sk. split; [exact HC'|]. split; [exists o, sq; exact HP|]. split; [rewrite Hcn; exact Hnow|].
    split; [exact HT|]. split; [exact Hcid|]. split; assumption.
  - reflexivity.
  - reflexivity.
  - sk. exact Hch.
  - reflexivity.
  - reflexivity.
Qed.

(* the PUBLISH (first transmission or a retransmission) reaches the client, which holds nothing or an earlier
   copy: PUBREC (no handler invocation), forwarded to the broker, whose PUBREL the gateway sends on - the
   link treats that datagram as its fault list says *)
Lemma pump_pub_head cfg y held p n dup retain tit tid mid payload T :
  Hold2 cfg y held (tx_rec mid p n) mid T -> wf_pkt (Publish dup 2 retain tit tid mid payload) = true -> 1 <= mid < 65536 ->
  nth_fault (e_c2g cfg) (y_c2g_k y) = FDeliver ->
  let t := gw_now (y_gw y) in
  let fl := nth_fault (e_g2c cfg) (y_g2c_k y) in
  let pub := Publish dup 2 retain tit tid mid payload in
  exists y1, Hold2 cfg y1 (Some pub) (tx_comp mid 0) mid (t + retry_delay (e_gw cfg)) /\ gw_now (y_gw y1) = t /\
    y_br y1 = y_br y /\ cl_handlers (y_cl y1) = cl_handlers (y_cl y) /\ cl_registered (y_cl y1) = cl_registered (y_cl y) /\
    y_c2g_k y1 = S (y_c2g_k y) /\ y_g2c_k y1 = S (y_g2c_k y) /\
    forall f, pump (S (S (S (S f)))) cfg y [ToCl (pack pub)] =
      (let '(y2, tr2) := pump f cfg y1 (map ToCl (copies fl (pack (Pubrel mid)))) in
       (y2, [SoC2G t FDeliver (pack (Pubrec mid)); SoBR t (MqPubrec mid); SoBS t (MqPubrel mid);
             SoG2C t fl (pack (Pubrel mid))] ++ tr2)).
Proof.
  intros (HC & (o & sq & HP) & Hnow & HT & Hcid & Hbc & Heof) Hwf Hm Hfc t fl pub. subst t fl pub.
  destruct y as [c g b k1 k2 eof]. cbn [y_cl y_gw y_br y_br_eof y_c2g_k y_g2c_k] in *.
  destruct (cl_shape_pub (e_cl cfg) c held dup retain tit tid mid payload HC Hwf ltac:(lia))
    as (c' & Ec & HC' & (Hcn & Hch & Hcr) & _).
  destruct (gw_hold_pubrec (e_gw cfg) g o mid _ _ _ T sq HP Hm) as (g1 & Eg1 & HP1 & (Hg1n & Hg1c & _)).
  destruct (gw_hold_mqpubrel (e_gw cfg) g1 o mid _ _ _ _ _ HP1 Hm) as (g2 & Eg2 & HP2 & (Hg2n & Hg2c & _)).
  exists {| y_cl := c'; y_gw := g2; y_br := b; y_c2g_k := S k1; y_g2c_k := S k2; y_br_eof := eof |}.
  split; [|split; [|split; [|split; [|split; [|split; [|split]]]]]].
  8: { intros f. sk. rewrite Ec. sk. rewrite Hfc. sk. rewrite Eg1. sk.
       unfold broker_recv. rewrite Hbc. sk. rewrite Hbc. sk. rewrite Eg2. sk.
       rewrite ?app_nil_r, Hnow, Hg1n.
       norm_pump f {| y_cl := c'; y_gw := g2; y_br := b; y_c2g_k := S k1; y_g2c_k := S k2; y_br_eof := eof |}.
       destruct (pump f cfg _ _) as [y2 tr2]. reflexivity. }
  - unfold Hold2. sk. split; [exact HC'|]. split; [eexists _, _; rewrite <- Hg1n; exact HP2|].
    split; [rewrite Hcn, Hg2n, Hg1n; exact Hnow|]. split; [rewrite Hg2n, Hg1n; lia|].
    split; [rewrite Hg2c, Hg1c; exact Hcid|]. split; assumption.
  - sk. rewrite Hg2n. exact Hg1n.
  - reflexivity.
  - sk. exact Hch.
  - sk. exact Hcr.
  - reflexivity.
  - reflexivity.
Qed.

(* ... the client's PUBREC is lost: the client holds the PUBLISH, the gateway keeps waiting for PUBREC *)
Lemma pump_pub_recdrop cfg y held tx dup retain tit tid mid payload T f :
  Hold2 cfg y held tx mid T -> wf_pkt (Publish dup 2 retain tit tid mid payload) = true -> 1 <= mid < 65536 ->
  nth_fault (e_c2g cfg) (y_c2g_k y) = FDrop ->
  let t := gw_now (y_gw y) in
  let pub := Publish dup 2 retain tit tid mid payload in
  exists y', pump (S f) cfg y [ToCl (pack pub)] = (y', [SoC2G t FDrop (pack (Pubrec mid))]) /\
    Hold2 cfg y' (Some pub) tx mid T /\ gw_now (y_gw y') = t /\ y_br y' = y_br y /\
    cl_handlers (y_cl y') = cl_handlers (y_cl y) /\ y_c2g_k y' = S (y_c2g_k y) /\ y_g2c_k y' = y_g2c_k y.
Proof.
  intros (HC & (o & sq & HP) & Hnow & HT & Hcid & Hbc & Heof) Hwf Hm Hfc t pub. subst t pub.
  destruct y as [c g b k1 k2 eof]. cbn [y_cl y_gw y_br y_br_eof y_c2g_k y_g2c_k] in *.
  destruct (cl_shape_pub (e_cl cfg) c held dup retain tit tid mid payload HC Hwf ltac:(lia))
    as (c' & Ec & HC' & (Hcn & Hch & Hcr) & _).
  eexists. split; [|split; [|split; [|split; [|split; [|split]]]]].
  - sk. rewrite Ec. sk. rewrite Hfc. sk. rewrite pump_nil. rewrite Hnow. reflexivity.
  - unfold Hold2. sk. split; [exact HC'|]. split; [exists o, sq; exact HP|]. split; [rewrite Hcn; exact Hnow|].
    split; [exact HT|]. split; [exact Hcid|]. split; assumption.
  - reflexivity.
  - reflexivity.
  - sk. exact Hch.
  - reflexivity.
  - reflexivity.
Qed.

(* the event SBpub: the gateway sends the PUBLISH on - the link treats it as its fault list says - and waits *)
Definition pump_rest11 : nat := S (S (S (S (S (S (S (S (S (S (S pump_rest)))))))))).
Lemma pump_fuel_eq11 : pump_fuel = S pump_rest11.
Proof. exact pump_fuel_eq. Qed.

Lemma bpub2_entry cfg y dup retain topic mid payload : Quiet cfg y ->
  is_short_topic topic = true -> wf_bytes topic -> 1 <= mid < 65536 -> okb payload = true ->
  let t := gw_now (y_gw y) in
  let fl := nth_fault (e_g2c cfg) (y_g2c_k y) in
  let pub := pub2 dup retain topic mid payload in
  exists y1, Hold2 cfg y1 None (tx_rec mid pub 0) mid (t + retry_delay (e_gw cfg)) /\ gw_now (y_gw y1) = t /\
    y_br y1 = y_br y /\ cl_handlers (y_cl y1) = cl_handlers (y_cl y) /\ cl_registered (y_cl y1) = cl_registered (y_cl y) /\
    y_c2g_k y1 = y_c2g_k y /\ y_g2c_k y1 = S (y_g2c_k y) /\
    sys_step cfg y (SBpub (MqPublish dup 2 retain topic mid payload)) =
      (let '(y2, tr2) := pump pump_rest11 cfg y1 (map ToCl (copies fl (pack pub))) in
       (y2, SoBS t (MqPublish dup 2 retain topic mid payload) :: SoG2C t fl (pack pub) :: tr2)).
Proof.
  intros (HC & HG & Hnow & Hcid & Hbc & Heof) Hs Hw Hm Hp t fl pub. subst t fl pub.
  destruct y as [c g b k1 k2 eof]. cbn [y_cl y_gw y_br y_br_eof y_c2g_k y_g2c_k] in *.
  destruct (gw_bpub2_hold (e_gw cfg) g dup retain topic mid payload HG Hs Hw Hm Hp) as (g1 & Eg1 & HP1 & (Hgn & Hgc & _)).
  exists {| y_cl := c; y_gw := g1; y_br := b; y_c2g_k := k1; y_g2c_k := S k2; y_br_eof := eof |}.
  split; [|split; [|split; [|split; [|split; [|split; [|split]]]]]].
  8: { unfold sys_step. sk. rewrite Hbc. rewrite pump_fuel_eq11. sk. rewrite Eg1. sk.
       rewrite ?app_nil_r. unfold pub2.
       norm_pump pump_rest11 {| y_cl := c; y_gw := g1; y_br := b; y_c2g_k := k1; y_g2c_k := S k2; y_br_eof := eof |}.
       destruct (pump pump_rest11 cfg _ _) as [y2 tr2]. reflexivity. }
  - unfold Hold2. sk. split; [exact HC|]. split; [eexists _, _; exact HP1|].
    split; [rewrite Hgn; exact Hnow|]. split; [rewrite Hgn; lia|]. split; [rewrite Hgc; exact Hcid|]. split; assumption.
  - exact Hgn.
  - reflexivity.
  - reflexivity.
  - reflexivity.
  - reflexivity.
  - reflexivity.
Qed.

(* the retry timer fires: the stored packet is retransmitted (DUP set on a PUBLISH) - the link treats it as its
   fault list says - and the gateway waits again, one retransmission further *)
Lemma fire_entry cfg y held mid q st p snpub n T :
  Hold2 cfg y held (TxBrokerPub mid q st (RsSn p) snpub n) mid T -> wf_pkt (set_dup p) = true ->
  n + 1 <= retry_count (e_gw cfg) -> 0 < retry_delay (e_gw cfg) ->
  let fl := nth_fault (e_g2c cfg) (y_g2c_k y) in
  exists y1, Hold2 cfg y1 held (TxBrokerPub mid q st (RsSn (set_dup p)) snpub (n + 1)) mid (T + retry_delay (e_gw cfg)) /\
    gw_now (y_gw y1) = T /\ y_br y1 = y_br y /\ cl_handlers (y_cl y1) = cl_handlers (y_cl y) /\
    reg_frame y y1 /\
    y_c2g_k y1 = y_c2g_k y /\ y_g2c_k y1 = S (y_g2c_k y) /\
    advance_both cfg y T =
      (let '(y2, tr2) := pump pump_fuel cfg y1 (map ToCl (copies fl (pack (set_dup p)))) in
       (y2, SoG2C T fl (pack (set_dup p)) :: tr2)).
Proof.
  intros (HC & (o & sq & HP) & Hnow & HT & Hcid & Hbc & Heof) Hwf Hn Hrd fl. subst fl.
  destruct y as [c g b k1 k2 eof]. cbn [y_cl y_gw y_br y_br_eof y_c2g_k y_g2c_k] in *.
  destruct (cl_shape_adv_ex (e_cl cfg) c mid held T HC ltac:(lia)) as (c1 & Ec & HC1 & Hcn & Hch & Hcr & _).
  destruct (gw_hold_fire (e_gw cfg) g o mid q st p snpub n T sq (T - gw_now g) HP Hwf Hn Hrd ltac:(lia))
    as (g1 & Eg1 & HP1 & Hg1n & Hg1c & Hg1r & _).
  exists {| y_cl := c1; y_gw := g1; y_br := b; y_c2g_k := k1; y_g2c_k := S k2; y_br_eof := eof |}.
  split; [|split; [|split; [|split; [|split; [|split; [|split]]]]]].
  8: { unfold advance_both. sk. rewrite Ec. sk. rewrite Eg1. sk. rewrite ?app_nil_r.
       norm_pump pump_fuel {| y_cl := c1; y_gw := g1; y_br := b; y_c2g_k := k1; y_g2c_k := S k2; y_br_eof := eof |}.
       destruct (pump pump_fuel cfg _ _) as [y2 tr2]. reflexivity. }
  - unfold Hold2. sk. split; [exact HC1|]. split; [eexists _, _; exact HP1|].
    split; [rewrite Hcn, Hg1n; reflexivity|]. split; [rewrite Hg1n; lia|].
    split; [rewrite Hg1c; exact Hcid|]. split; assumption.
  - exact Hg1n.
  - reflexivity.
  - exact Hch.
  - split; [exact Hcr|exact Hg1r].
  - reflexivity.
  - reflexivity.
Qed.

(* the PUBLISH reaches the client and everything after it gets through: PUBREC, PUBREL, the handler (ONE
   invocation, at PUBREL time, with the DUP flag of this PUBLISH), PUBCOMP *)
Lemma pump_pub_round cfg y held p n dup retain topic mid payload T f :
  Hold2 cfg y held (tx_rec mid p n) mid T ->
  is_short_topic topic = true -> wf_bytes topic -> 1 <= mid < 65536 -> okb payload = true ->
  nth_fault (e_c2g cfg) (y_c2g_k y) = FDeliver -> nth_fault (e_g2c cfg) (y_g2c_k y) = FDeliver ->
  nth_fault (e_c2g cfg) (S (y_c2g_k y)) = FDeliver ->
  let t := gw_now (y_gw y) in
  exists y', pump (S (S (S (S (S (S (S f))))))) cfg y [ToCl (pack (pub2 dup retain topic mid payload))] =
      (y', [SoC2G t FDeliver (pack (Pubrec mid)); SoBR t (MqPubrec mid); SoBS t (MqPubrel mid);
            SoG2C t FDeliver (pack (Pubrel mid))] ++
           scb_at y t topic payload 2 retain dup mid ++
           [SoC2G t FDeliver (pack (Pubcomp mid)); SoBR t (MqPubcomp mid)]) /\
    Quiet cfg y' /\ gw_now (y_gw y') = t /\ y_br y' = y_br y /\ cl_handlers (y_cl y') = cl_handlers (y_cl y) /\
    y_c2g_k y' = S (S (y_c2g_k y)) /\ y_g2c_k y' = S (y_g2c_k y).
Proof.
  intros HH Hs Hw Hm Hp Hfc0 Hfg Hfc1 t. subst t.
  destruct (pump_pub_head cfg y held p n dup retain TIT_SHORT (encode_short topic) mid payload T HH
              (wf_pub2 dup retain topic mid payload Hs Hw ltac:(lia) Hp) Hm Hfc0)
    as (y1 & HH1 & Hn1 & Hb1 & Hh1 & Hr1 & Hkc1 & Hkg1 & E1).
  destruct (pump_rel_deliver cfg y1 (Some (pub2 dup retain topic mid payload)) topic mid 0 _ f HH1
              (tfp_short (e_cl cfg) (y_cl y1) topic Hs Hw) Hm ltac:(rewrite Hkc1; exact Hfc1))
    as (y2 & E2 & HQ2 & Hn2 & Hb2 & Hh2 & Hkc2 & Hkg2).
  exists y2. split; [|split; [exact HQ2|split; [rewrite Hn2; exact Hn1|split; [rewrite Hb2; exact Hb1|
    split; [rewrite Hh2; exact Hh1|split; [rewrite Hkc2, Hkc1; reflexivity|rewrite Hkg2; exact Hkg1]]]]]].
  unfold pub2 at 1. rewrite (E1 (S (S (S f)))), Hfg. cbn [map copies]. rewrite E2.
  cbn [rel_scb pub2]. rewrite (scb_at_ext y y1 _ _ _ _ _ _ _ Hh1), Hn1. reflexivity.
Qed.

Lemma held_topic_ext cfg c c' held topic : cl_registered c' = cl_registered c ->
  held_topic cfg c held topic -> held_topic cfg c' held topic.
Proof.
  intros Hr. destruct held as [[]|]; cbn [held_topic]; try (intros H; exact H).
  rewrite (topic_for_publish_ext cfg c' c _ _ Hr). intros H; exact H.
Qed.

Lemma rel_scb_ext y y' t topic held : cl_handlers (y_cl y') = cl_handlers (y_cl y) ->
  rel_scb y' t topic held = rel_scb y t topic held.
Proof. intros H. destruct held as [[]|]; cbn [rel_scb]; try reflexivity. apply scb_at_ext, H. Qed.

(* ------------------------------------------------------------------ the retry timer fires *)

(* ... and the retransmission is lost: the exchange keeps waiting, one retransmission further *)
Lemma adv_both_drop cfg y held mid q st p snpub n T :
  Hold2 cfg y held (TxBrokerPub mid q st (RsSn p) snpub n) mid T -> wf_pkt (set_dup p) = true ->
  n + 1 <= retry_count (e_gw cfg) -> 0 < retry_delay (e_gw cfg) ->
  nth_fault (e_g2c cfg) (y_g2c_k y) = FDrop ->
  exists y1, advance_both cfg y T = (y1, [SoG2C T FDrop (pack (set_dup p))]) /\
    Hold2 cfg y1 held (TxBrokerPub mid q st (RsSn (set_dup p)) snpub (n + 1)) mid (T + retry_delay (e_gw cfg)) /\
    gw_now (y_gw y1) = T /\ y_br y1 = y_br y /\ cl_handlers (y_cl y1) = cl_handlers (y_cl y) /\
    reg_frame y y1 /\ y_c2g_k y1 = y_c2g_k y /\ y_g2c_k y1 = S (y_g2c_k y).
Proof.
  intros HH Hwf Hn Hrd Hfg.
  destruct (fire_entry cfg y held mid q st p snpub n T HH Hwf Hn Hrd) as (y1 & HH1 & Hn1 & Hb1 & Hh1 & Hr1 & Hkc1 & Hkg1 & E).
  exists y1. split; [|split; [exact HH1|split; [exact Hn1|split; [exact Hb1|split; [exact Hh1|split; [exact Hr1|split; [exact Hkc1|exact Hkg1]]]]]]].
  rewrite E, Hfg. cbn [map copies]. rewrite pump_nil. reflexivity.
Qed.

(* ... the retransmitted PUBLISH and everything after it get through *)
Lemma adv_both_rec_deliver cfg y held dp retain topic mid payload n T :
  Hold2 cfg y held (tx_rec mid (pub2 dp retain topic mid payload) n) mid T ->
  is_short_topic topic = true -> wf_bytes topic -> 1 <= mid < 65536 -> okb payload = true ->
  n + 1 <= retry_count (e_gw cfg) -> 0 < retry_delay (e_gw cfg) ->
  nth_fault (e_g2c cfg) (y_g2c_k y) = FDeliver -> nth_fault (e_c2g cfg) (y_c2g_k y) = FDeliver ->
  nth_fault (e_g2c cfg) (S (y_g2c_k y)) = FDeliver -> nth_fault (e_c2g cfg) (S (y_c2g_k y)) = FDeliver ->
  exists y', advance_both cfg y T =
      (y', [SoG2C T FDeliver (pack (pub2 true retain topic mid payload));
            SoC2G T FDeliver (pack (Pubrec mid)); SoBR T (MqPubrec mid); SoBS T (MqPubrel mid);
            SoG2C T FDeliver (pack (Pubrel mid))] ++
           scb_at y T topic payload 2 retain true mid ++
           [SoC2G T FDeliver (pack (Pubcomp mid)); SoBR T (MqPubcomp mid)]) /\
    Quiet cfg y' /\ gw_now (y_gw y') = T /\ y_br y' = y_br y /\ cl_handlers (y_cl y') = cl_handlers (y_cl y) /\
    y_c2g_k y' = S (S (y_c2g_k y)) /\ y_g2c_k y' = S (S (y_g2c_k y)).
Proof.
  intros HH Hs Hw Hm Hp Hn Hrd Hfg0 Hfc0 Hfg1 Hfc1.
  destruct (fire_entry cfg y held mid 2 AwaitPubrec _ None n T HH
              ltac:(rewrite set_dup_pub2; apply wf_pub2; [assumption|assumption|lia|assumption]) Hn Hrd)
    as (y1 & HH1 & Hn1 & Hb1 & Hh1 & Hr1 & Hkc1 & Hkg1 & E).
  rewrite set_dup_pub2 in E, HH1.
  destruct (pump_pub_round cfg y1 held _ _ true retain topic mid payload _ (S (S (S (S (S pump_rest))))) HH1 Hs Hw Hm Hp
              ltac:(rewrite Hkc1; exact Hfc0) ltac:(rewrite Hkg1; exact Hfg1) ltac:(rewrite Hkc1; exact Hfc1))
    as (y2 & E2 & HQ2 & Hn2 & Hb2 & Hh2 & Hkc2 & Hkg2).
  exists y2. split; [|split; [exact HQ2|split; [rewrite Hn2; exact Hn1|split; [rewrite Hb2; exact Hb1|
    split; [rewrite Hh2; exact Hh1|split; [rewrite Hkc2, Hkc1; reflexivity|rewrite Hkg2, Hkg1; reflexivity]]]]]].
  rewrite E, Hfg0. cbn [map copies]. rewrite pump_fuel_eq, E2.
  rewrite (scb_at_ext y y1 _ _ _ _ _ _ _ Hh1), Hn1. reflexivity.
Qed.

(* ... the retransmitted PUBREL and the client's PUBCOMP get through *)
Lemma adv_both_comp_deliver cfg y held topic mid n T :
  Hold2 cfg y held (tx_comp mid n) mid T -> held_topic (e_cl cfg) (y_cl y) held topic -> 1 <= mid < 65536 ->
  n + 1 <= retry_count (e_gw cfg) -> 0 < retry_delay (e_gw cfg) ->
  nth_fault (e_g2c cfg) (y_g2c_k y) = FDeliver -> nth_fault (e_c2g cfg) (y_c2g_k y) = FDeliver ->
  exists y', advance_both cfg y T =
      (y', SoG2C T FDeliver (pack (Pubrel mid)) ::
           rel_scb y T topic held ++ [SoC2G T FDeliver (pack (Pubcomp mid)); SoBR T (MqPubcomp mid)]) /\
    Quiet cfg y' /\ gw_now (y_gw y') = T /\ y_br y' = y_br y /\ cl_handlers (y_cl y') = cl_handlers (y_cl y) /\
    y_c2g_k y' = S (y_c2g_k y) /\ y_g2c_k y' = S (y_g2c_k y).
Proof.
  intros HH Hht Hm Hn Hrd Hfg Hfc.
  destruct (wf_mid3 mid ltac:(lia)) as (_ & Hwrel & _).
  destruct (fire_entry cfg y held mid 2 AwaitPubcomp (Pubrel mid) None n T HH Hwrel Hn Hrd)
    as (y1 & HH1 & Hn1 & Hb1 & Hh1 & Hr1 & Hkc1 & Hkg1 & E).
  change (set_dup (Pubrel mid)) with (Pubrel mid) in E, HH1.
  destruct (pump_rel_deliver cfg y1 held topic mid (n + 1) _ (S (S (S (S (S (S (S (S (S pump_rest))))))))) HH1
              (held_topic_ext _ _ _ _ _ (proj1 Hr1) Hht) Hm ltac:(rewrite Hkc1; exact Hfc))
    as (y2 & E2 & HQ2 & Hn2 & Hb2 & Hh2 & Hkc2 & Hkg2).
  exists y2. split; [|split; [exact HQ2|split; [rewrite Hn2; exact Hn1|split; [rewrite Hb2; exact Hb1|
    split; [rewrite Hh2; exact Hh1|split; [rewrite Hkc2, Hkc1; reflexivity|rewrite Hkg2; exact Hkg1]]]]]].
  rewrite E, Hfg. cbn [map copies]. rewrite pump_fuel_eq, E2.
  rewrite (rel_scb_ext y y1 _ _ _ Hh1), Hn1. reflexivity.
Qed.

(* ------------------------------------------------------------------ SAdv from a holding state *)

(* time passing in a quiescent system (adv_both_quiet of ComposeLoss.v, with the registration tables in the frame) *)
Lemma adv_both_quiet2 cfg y t : Quiet cfg y -> gw_now (y_gw y) <= t ->
  exists y', advance_both cfg y t = (y', []) /\ Quiet cfg y' /\ gw_now (y_gw y') = t /\ y_br y' = y_br y /\
    cl_handlers (y_cl y') = cl_handlers (y_cl y) /\ y_c2g_k y' = y_c2g_k y /\ y_g2c_k y' = y_g2c_k y /\
    reg_frame y y' /\ gw_seq_next (y_gw y') = gw_seq_next (y_gw y).
Proof.
  intros (HC & HG & Hnow & Hcid & Hbc & Heof) Ht.
  destruct y as [c g b k1 k2 eof]. cbn [y_cl y_gw y_br y_br_eof y_c2g_k y_g2c_k] in *.
  exists {| y_cl := c <| cl_now := cl_now c + (t - cl_now c) |>; y_gw := g <| gw_now := gw_now g + (t - gw_now g) |>;
            y_br := b; y_c2g_k := k1; y_g2c_k := k2; y_br_eof := eof |}.
  split; [|split; [|split; [|split; [|split; [|split; [|split; [|split]]]]]]].
  - unfold advance_both. sk. rewrite (cl_adv_quiet (e_cl cfg) c _ HC). sk. rewrite (gw_adv_quiet (e_gw cfg) g _ HG). sk.
    rewrite pump_nil. reflexivity.
  - unfold Quiet. sk. split; [apply cl_quiet_now, HC|]. split; [apply gw_quiet_now, HG|].
    split; [cbn [cl_now gw_now set]; lia|]. split; [exact Hcid|]. split; assumption.
  - cbn [y_gw gw_now set]. lia.
  - reflexivity.
  - reflexivity.
  - reflexivity.
  - reflexivity.
  - split; reflexivity.
  - reflexivity.
Qed.

(* the round in which the exchange completes, then time passes in the quiescent system *)
Lemma adv_to_final cfg y held tx mid T y1 tr1 t f :
  Hold2 cfg y held tx mid T -> T <= t -> advance_both cfg y T = (y1, tr1) -> Quiet cfg y1 -> gw_now (y_gw y1) = T ->
  (2 <= f)%nat ->
  exists y2, advance_to f cfg y t = (y2, tr1) /\ Quiet cfg y2 /\ gw_now (y_gw y2) = t /\ y_br y2 = y_br y1 /\
    cl_handlers (y_cl y2) = cl_handlers (y_cl y1) /\ y_c2g_k y2 = y_c2g_k y1 /\ y_g2c_k y2 = y_g2c_k y1 /\
    reg_frame y1 y2 /\ gw_seq_next (y_gw y2) = gw_seq_next (y_gw y1).
Proof.
  intros HH Ht E1 HQ1 Hn1 Hf. destruct f as [|[|f]]; [lia|lia|].
  pose proof HH as (_ & _ & Hnow & HT & _).
  rewrite advance_to_S, (deadline_hold cfg y _ _ _ _ HH).
  destruct (T <? t) eqn:Elt.
  - assert (Emax : N.max T (N.max (cl_now (y_cl y)) (gw_now (y_gw y))) = T) by lia. rewrite Emax, E1.
    rewrite (adv_to_quiet cfg y1 t f HQ1).
    destruct (adv_both_quiet2 cfg y1 t HQ1 ltac:(lia)) as (y2 & E2 & HQ2 & Hn2 & Hb2 & Hh2 & Hkc2 & Hkg2 & Hrf2).
    rewrite E2, app_nil_r. exists y2. split; [reflexivity|]. split; [exact HQ2|]. split; [exact Hn2|].
    split; [exact Hb2|]. split; [exact Hh2|]. split; [exact Hkc2|]. split; [exact Hkg2|exact Hrf2].
  - assert (t = T) by (apply N.ltb_ge in Elt; lia). subst t. rewrite E1.
    exists y1. split; [reflexivity|]. split; [exact HQ1|]. split; [exact Hn1|]. repeat split.
Qed.

(* the stored packet after k retransmissions *)
Definition dupk (k : nat) (p : packet) : packet := match k with O => p | S _ => set_dup p end.

Lemma dupk_dup k p : dupk k (set_dup p) = set_dup p.
Proof. destruct k; [reflexivity|apply set_dup_idem]. Qed.

(* the next k retransmissions of the stored packet are lost: their trace, and the state in which the (k+1)-th
   is due *)
Lemma adv_to_drops cfg held mid q st snpub k : forall y p n T f t,
  Hold2 cfg y held (TxBrokerPub mid q st (RsSn p) snpub n) mid T -> wf_pkt (set_dup p) = true ->
  n + N.of_nat k <= retry_count (e_gw cfg) -> 0 < retry_delay (e_gw cfg) ->
  (forall i, (i < k)%nat -> nth_fault (e_g2c cfg) (y_g2c_k y + i) = FDrop) ->
  T + N.of_nat k * retry_delay (e_gw cfg) <= t ->
  exists yk,
    Hold2 cfg yk held (TxBrokerPub mid q st (RsSn (dupk k p)) snpub (n + N.of_nat k)) mid (T + N.of_nat k * retry_delay (e_gw cfg)) /\
    y_br yk = y_br y /\ cl_handlers (y_cl yk) = cl_handlers (y_cl y) /\ reg_frame y yk /\
    y_c2g_k yk = y_c2g_k y /\ y_g2c_k yk = (y_g2c_k y + k)%nat /\
    advance_to (k + f) cfg y t =
      (let '(y2, tr2) := advance_to f cfg yk t in
       (y2, drops (retry_delay (e_gw cfg)) (pack (set_dup p)) k T ++ tr2)).
Proof.
  induction k as [|k IH]; intros y p n T f t HH Hwf Hn Hrd Hdrops Ht.
  - exists y. assert (E1 : n + N.of_nat 0 = n) by lia. assert (E2 : T + N.of_nat 0 * retry_delay (e_gw cfg) = T) by lia.
    rewrite E1, E2. split; [exact HH|]. split; [reflexivity|]. split; [reflexivity|]. split; [apply reg_frame_refl|].
    split; [reflexivity|]. split; [lia|]. cbn [Nat.add drops app]. destruct (advance_to f cfg y t). reflexivity.
  - assert (HTk : T + N.of_nat (S k) * retry_delay (e_gw cfg) = T + retry_delay (e_gw cfg) + N.of_nat k * retry_delay (e_gw cfg)) by lia.
    assert (Hnk : n + N.of_nat (S k) = n + 1 + N.of_nat k) by lia.
    rewrite HTk, Hnk in *. clear HTk Hnk.
    destruct (adv_both_drop cfg y held mid q st p snpub n T HH Hwf ltac:(lia) Hrd
                ltac:(rewrite <- (Hdrops O ltac:(lia)); f_equal; lia))
      as (y1 & E1 & HH1 & Hn1 & Hb1 & Hh1 & Hr1 & Hkc1 & Hkg1).
    destruct (IH y1 (set_dup p) (n + 1) (T + retry_delay (e_gw cfg)) f t HH1 ltac:(rewrite set_dup_idem; exact Hwf) ltac:(lia) Hrd)
      as (yk & HHk & Hbk & Hhk & Hrk & Hkck & Hkgk & Ek).
    + intros i Hi. rewrite Hkg1, <- (Hdrops (S i) ltac:(lia)). f_equal. lia.
    + exact Ht.
    + rewrite dupk_dup in HHk. rewrite set_dup_idem in Ek.
      exists yk. split; [exact HHk|]. split; [rewrite Hbk; exact Hb1|]. split; [rewrite Hhk; exact Hh1|].
      split; [exact (reg_frame_trans _ _ _ Hr1 Hrk)|]. split; [rewrite Hkck; exact Hkc1|]. split; [rewrite Hkgk, Hkg1; lia|].
      pose proof HH as (_ & _ & Hnow & HT & _).
      change (S k + f)%nat with (S (k + f)). rewrite advance_to_S, (deadline_hold cfg y _ _ _ _ HH).
      assert (Elt : (T <? t) = true) by (apply N.ltb_lt; lia). rewrite Elt.
      assert (Emax : N.max T (N.max (cl_now (y_cl y)) (gw_now (y_gw y))) = T) by lia. rewrite Emax, E1, Ek.
      destruct (advance_to f cfg yk t) as [y2 tr2]. reflexivity.
Qed.

(* k lost retransmissions of the PUBLISH, then one that gets through together with everything after it *)
Lemma adv_rec_finish cfg y held dp retain topic mid payload n T k f t :
  Hold2 cfg y held (tx_rec mid (pub2 dp retain topic mid payload) n) mid T ->
  is_short_topic topic = true -> wf_bytes topic -> 1 <= mid < 65536 -> okb payload = true ->
  n + N.of_nat k + 1 <= retry_count (e_gw cfg) -> 0 < retry_delay (e_gw cfg) ->
  (forall i, (i < k)%nat -> nth_fault (e_g2c cfg) (y_g2c_k y + i) = FDrop) ->
  nth_fault (e_g2c cfg) (y_g2c_k y + k) = FDeliver -> nth_fault (e_g2c cfg) (S (y_g2c_k y + k)) = FDeliver ->
  nth_fault (e_c2g cfg) (y_c2g_k y) = FDeliver -> nth_fault (e_c2g cfg) (S (y_c2g_k y)) = FDeliver ->
  T + N.of_nat k * retry_delay (e_gw cfg) <= t -> (k + 2 <= f)%nat ->
  let T' := T + N.of_nat k * retry_delay (e_gw cfg) in
  exists y', advance_to f cfg y t =
      (y', drops (retry_delay (e_gw cfg)) (pack (pub2 true retain topic mid payload)) k T ++
           [SoG2C T' FDeliver (pack (pub2 true retain topic mid payload));
            SoC2G T' FDeliver (pack (Pubrec mid)); SoBR T' (MqPubrec mid); SoBS T' (MqPubrel mid);
            SoG2C T' FDeliver (pack (Pubrel mid))] ++
           scb_at y T' topic payload 2 retain true mid ++
           [SoC2G T' FDeliver (pack (Pubcomp mid)); SoBR T' (MqPubcomp mid)]) /\
    Quiet cfg y' /\ gw_now (y_gw y') = t /\ y_br y' = y_br y /\ cl_handlers (y_cl y') = cl_handlers (y_cl y) /\
    y_c2g_k y' = S (S (y_c2g_k y)) /\ y_g2c_k y' = S (S (y_g2c_k y + k)).
Proof.
  intros HH Hs Hw Hm Hp Hn Hrd Hdrops Hfg0 Hfg1 Hfc0 Hfc1 Ht Hf T'. subst T'.
  assert (Hwf : wf_pkt (set_dup (pub2 dp retain topic mid payload)) = true)
    by (rewrite set_dup_pub2; apply wf_pub2; [assumption|assumption|lia|assumption]).
  destruct (adv_to_drops cfg held mid 2 AwaitPubrec None k y _ n T (f - k) t HH Hwf ltac:(lia) Hrd Hdrops Ht)
    as (yk & HHk & Hbk & Hhk & Hrk & Hkck & Hkgk & Ek).
  assert (Edk : exists dk, dupk k (pub2 dp retain topic mid payload) = pub2 dk retain topic mid payload)
    by (destruct k; eexists; reflexivity).
  destruct Edk as (dk & Edk). rewrite Edk in HHk.
  destruct (adv_both_rec_deliver cfg yk held dk retain topic mid payload _ _ HHk Hs Hw Hm Hp ltac:(lia) Hrd
              ltac:(rewrite Hkgk; exact Hfg0) ltac:(rewrite Hkck; exact Hfc0)
              ltac:(rewrite Hkgk; exact Hfg1) ltac:(rewrite Hkck; exact Hfc1))
    as (y1 & E1 & HQ1 & Hn1 & Hb1 & Hh1 & Hkc1 & Hkg1).
  destruct (adv_to_final cfg yk held _ mid _ y1 _ t (f - k) HHk Ht E1 HQ1 Hn1 ltac:(lia))
    as (y2 & E2 & HQ2 & Hn2 & Hb2 & Hh2 & Hkc2 & Hkg2 & _).
  exists y2. split; [|split; [exact HQ2|split; [exact Hn2|split; [rewrite Hb2, Hb1; exact Hbk|
    split; [rewrite Hh2, Hh1; exact Hhk|split; [rewrite Hkc2, Hkc1, Hkck; reflexivity|rewrite Hkg2, Hkg1, Hkgk; reflexivity]]]]]].
  replace f with (k + (f - k))%nat at 1 by lia. rewrite Ek, E2, set_dup_pub2.
  rewrite (scb_at_ext y yk _ _ _ _ _ _ _ Hhk). reflexivity.
Qed.

(* k lost retransmissions of the PUBREL, then one that gets through together with the client's PUBCOMP *)
Lemma adv_comp_finish cfg y held topic mid n T k f t :
  Hold2 cfg y held (tx_comp mid n) mid T -> held_topic (e_cl cfg) (y_cl y) held topic -> 1 <= mid < 65536 ->
  n + N.of_nat k + 1 <= retry_count (e_gw cfg) -> 0 < retry_delay (e_gw cfg) ->
  (forall i, (i < k)%nat -> nth_fault (e_g2c cfg) (y_g2c_k y + i) = FDrop) ->
  nth_fault (e_g2c cfg) (y_g2c_k y + k) = FDeliver -> nth_fault (e_c2g cfg) (y_c2g_k y) = FDeliver ->
  T + N.of_nat k * retry_delay (e_gw cfg) <= t -> (k + 2 <= f)%nat ->
  let T' := T + N.of_nat k * retry_delay (e_gw cfg) in
  exists y', advance_to f cfg y t =
      (y', drops (retry_delay (e_gw cfg)) (pack (Pubrel mid)) k T ++
           SoG2C T' FDeliver (pack (Pubrel mid)) ::
           rel_scb y T' topic held ++ [SoC2G T' FDeliver (pack (Pubcomp mid)); SoBR T' (MqPubcomp mid)]) /\
    Quiet cfg y' /\ gw_now (y_gw y') = t /\ y_br y' = y_br y /\ cl_handlers (y_cl y') = cl_handlers (y_cl y) /\
    y_c2g_k y' = S (y_c2g_k y) /\ y_g2c_k y' = S (y_g2c_k y + k).
Proof.
  intros HH Hht Hm Hn Hrd Hdrops Hfg Hfc Ht Hf T'. subst T'.
  destruct (wf_mid3 mid ltac:(lia)) as (_ & Hwrel & _).
  destruct (adv_to_drops cfg held mid 2 AwaitPubcomp None k y (Pubrel mid) n T (f - k) t HH Hwrel ltac:(lia) Hrd Hdrops Ht)
    as (yk & HHk & Hbk & Hhk & Hrk & Hkck & Hkgk & Ek).
  assert (Edk : dupk k (Pubrel mid) = Pubrel mid) by (destruct k; reflexivity).
  rewrite Edk in HHk. change (set_dup (Pubrel mid)) with (Pubrel mid) in Ek.
  destruct (adv_both_comp_deliver cfg yk held topic mid _ _ HHk (held_topic_ext _ _ _ _ _ (proj1 Hrk) Hht) Hm ltac:(lia) Hrd
              ltac:(rewrite Hkgk; exact Hfg) ltac:(rewrite Hkck; exact Hfc))
    as (y1 & E1 & HQ1 & Hn1 & Hb1 & Hh1 & Hkc1 & Hkg1).
  destruct (adv_to_final cfg yk held _ mid _ y1 _ t (f - k) HHk Ht E1 HQ1 Hn1 ltac:(lia))
    as (y2 & E2 & HQ2 & Hn2 & Hb2 & Hh2 & Hkc2 & Hkg2 & _).
  exists y2. split; [|split; [exact HQ2|split; [exact Hn2|split; [rewrite Hb2, Hb1; exact Hbk|
    split; [rewrite Hh2, Hh1; exact Hhk|split; [rewrite Hkc2, Hkc1, Hkck; reflexivity|rewrite Hkg2, Hkg1, Hkgk; reflexivity]]]]]].
  replace f with (k + (f - k))%nat at 1 by lia. rewrite Ek, E2.
  rewrite (rel_scb_ext y yk _ _ _ Hhk). reflexivity.
Qed.

(* ------------------------------------------------------------------ 0. no loss *)

(* A broker PUBLISH (QoS 2) on the topic of a subscription over a link that delivers the four datagrams of
   the exchange: PUBLISH, PUBREC (forwarded to the broker), the broker's PUBREL, ONE handler invocation (at
   PUBREL time), PUBCOMP (forwarded to the broker); quiescent again. *)
Theorem e2e_bpub_q2_deliver cfg y subs s dup retain mid payload :
  QuietS cfg y subs -> In s subs -> 1 <= mid < 65536 -> okb payload = true ->
  nth_fault (e_g2c cfg) (y_g2c_k y) = FDeliver -> nth_fault (e_c2g cfg) (y_c2g_k y) = FDeliver ->
  nth_fault (e_g2c cfg) (S (y_g2c_k y)) = FDeliver -> nth_fault (e_c2g cfg) (S (y_c2g_k y)) = FDeliver ->
  let t := gw_now (y_gw y) in
  let topic := sub_topic s in
  exists y',
    sys_step cfg y (SBpub (MqPublish dup 2 retain topic mid payload)) =
      (y', [SoBS t (MqPublish dup 2 retain topic mid payload);
            SoG2C t FDeliver (pack (pub2 dup retain topic mid payload));
            SoC2G t FDeliver (pack (Pubrec mid)); SoBR t (MqPubrec mid); SoBS t (MqPubrel mid);
            SoG2C t FDeliver (pack (Pubrel mid));
            SoCb t (sub_id s) topic payload 2 retain dup mid;
            SoC2G t FDeliver (pack (Pubcomp mid)); SoBR t (MqPubcomp mid)]) /\
    QuietS cfg y' subs /\ gw_now (y_gw y') = t /\
    y_c2g_k y' = S (S (y_c2g_k y)) /\ y_g2c_k y' = S (S (y_g2c_k y)).
Proof.
  intros HS Hin Hm Hp Hfg0 Hfc0 Hfg1 Hfc1 t topic. subst t topic.
  pose proof HS as (HQ & _ & _ & Hf & _).
  rewrite Forall_forall in Hf. destruct (topic_ok_spec _ (Hf s Hin)) as (Hs & Hw & _).
  destruct (bpub2_entry cfg y dup retain (sub_topic s) mid payload HQ Hs Hw Hm Hp)
    as (y1 & HH1 & Hn1 & Hb1 & Hh1 & Hr1 & Hkc1 & Hkg1 & E1).
  destruct (pump_pub_round cfg y1 None _ _ dup retain (sub_topic s) mid payload _ (S (S (S (S pump_rest)))) HH1 Hs Hw Hm Hp
              ltac:(rewrite Hkc1; exact Hfc0) ltac:(rewrite Hkg1; exact Hfg1) ltac:(rewrite Hkc1; exact Hfc1))
    as (y2 & E2 & HQ2 & Hn2 & Hb2 & Hh2 & Hkc2 & Hkg2).
  exists y2. split; [|split; [|split; [|split]]].
  - rewrite E1, Hfg0. cbn [map copies]. unfold pump_rest11. rewrite E2.
    rewrite (scb_at_ext y y1 _ _ _ _ _ _ _ Hh1), (scb_at_subs cfg y subs s _ payload 2 retain dup mid HS Hin), Hn1. reflexivity.
  - apply (QuietS_frame cfg y y2 subs HS HQ2); [rewrite Hb2; exact Hb1|rewrite Hh2; exact Hh1].
  - rewrite Hn2. exact Hn1.
  - rewrite Hkc2, Hkc1. reflexivity.
  - rewrite Hkg2, Hkg1. reflexivity.
Qed.

(* ------------------------------------------------------------------ 1(a) / 3. the PUBLISH is lost 1 + k times in a row *)

(* The datagram carrying the PUBLISH to the client and its first k retransmissions are lost (1 + k <=
   RetryCount consecutive losses); the next retransmission and the rest of the exchange get through.  SBpub
   produces BS PUBLISH and the dropped G2C PUBLISH and nothing else (the gateway waits: Hold2, retry timer at
   now + RetryDelay).  Then SAdv d, for ANY d >= (1 + k) * RetryDelay, produces the k dropped
   retransmissions (DUP set) at now + RetryDelay, now + 2 RetryDelay, ...; at t' = now + (1 + k) RetryDelay
   the retransmission that is delivered, PUBREC (forwarded to the broker), the broker's PUBREL, exactly ONE
   handler invocation (dup = true as the client sees it), PUBCOMP (forwarded to the broker); the system is
   quiescent again with the same subscriptions, its clock at now + d. *)
Theorem e2e_bpub_q2_publish_lost_n cfg y subs s dup retain mid payload k d :
  QuietS cfg y subs -> In s subs -> 1 <= mid < 65536 -> okb payload = true ->
  0 < retry_delay (e_gw cfg) -> N.of_nat k + 1 <= retry_count (e_gw cfg) -> N.of_nat k < 99998 ->
  (forall i, (i <= k)%nat -> nth_fault (e_g2c cfg) (y_g2c_k y + i) = FDrop) ->
  nth_fault (e_g2c cfg) (y_g2c_k y + S k) = FDeliver -> nth_fault (e_g2c cfg) (y_g2c_k y + S (S k)) = FDeliver ->
  nth_fault (e_c2g cfg) (y_c2g_k y) = FDeliver -> nth_fault (e_c2g cfg) (S (y_c2g_k y)) = FDeliver ->
  N.of_nat (S k) * retry_delay (e_gw cfg) <= d ->
  let t := gw_now (y_gw y) in
  let rd := retry_delay (e_gw cfg) in
  let topic := sub_topic s in
  let t' := t + N.of_nat (S k) * rd in
  exists y1 y2,
    sys_step cfg y (SBpub (MqPublish dup 2 retain topic mid payload)) =
      (y1, [SoBS t (MqPublish dup 2 retain topic mid payload);
            SoG2C t FDrop (pack (pub2 dup retain topic mid payload))]) /\
    Hold2 cfg y1 None (tx_rec mid (pub2 dup retain topic mid payload) 0) mid (t + rd) /\
    sys_step cfg y1 (SAdv d) =
      (y2, drops rd (pack (pub2 true retain topic mid payload)) k (t + rd) ++
           [SoG2C t' FDeliver (pack (pub2 true retain topic mid payload));
            SoC2G t' FDeliver (pack (Pubrec mid)); SoBR t' (MqPubrec mid); SoBS t' (MqPubrel mid);
            SoG2C t' FDeliver (pack (Pubrel mid));
            SoCb t' (sub_id s) topic payload 2 retain true mid;
            SoC2G t' FDeliver (pack (Pubcomp mid)); SoBR t' (MqPubcomp mid)]) /\
    QuietS cfg y2 subs /\ gw_now (y_gw y2) = t + d /\
    y_c2g_k y2 = S (S (y_c2g_k y)) /\ y_g2c_k y2 = S (S (S (y_g2c_k y + k))).
Proof.
  intros HS Hin Hm Hp Hrd Hrc Hk Hdrops Hfg0 Hfg1 Hfc0 Hfc1 Hd t rd topic t'. subst t rd topic t'.
  pose proof HS as (HQ & _ & _ & Hf & _).
  rewrite Forall_forall in Hf. destruct (topic_ok_spec _ (Hf s Hin)) as (Hs & Hw & _).
  destruct (bpub2_entry cfg y dup retain (sub_topic s) mid payload HQ Hs Hw Hm Hp)
    as (y1 & HH1 & Hn1 & Hb1 & Hh1 & Hr1 & Hkc1 & Hkg1 & E1).
  destruct (adv_rec_finish cfg y1 None dup retain (sub_topic s) mid payload 0 _ k adv_fuel (gw_now (y_gw y) + d)
              HH1 Hs Hw Hm Hp ltac:(lia) Hrd)
    as (y2 & E2 & HQ2 & Hn2 & Hb2 & Hh2 & Hkc2 & Hkg2).
  - intros i Hi. rewrite Hkg1, <- (Hdrops (S i) ltac:(lia)). f_equal. lia.
  - rewrite Hkg1, <- Hfg0. f_equal. lia.
  - rewrite Hkg1, <- Hfg1. f_equal. lia.
  - rewrite Hkc1. exact Hfc0.
  - rewrite Hkc1. exact Hfc1.
  - lia.
  - unfold adv_fuel. lia.
  - exists y1, y2. split; [|split; [exact HH1|split; [|split; [|split; [|split]]]]].
    + rewrite E1, <- (Nat.add_0_r (y_g2c_k y)), (Hdrops O ltac:(lia)). cbn [map copies]. rewrite pump_nil. reflexivity.
    + rewrite (sys_step_adv2 cfg y1 _ _ _ _ d HH1), Hn1, E2.
      rewrite (scb_at_ext y y1 _ _ _ _ _ _ _ Hh1), (scb_at_subs cfg y subs s _ payload 2 retain true mid HS Hin).
      assert (HT : gw_now (y_gw y) + retry_delay (e_gw cfg) + N.of_nat k * retry_delay (e_gw cfg) =
                   gw_now (y_gw y) + N.of_nat (S k) * retry_delay (e_gw cfg)) by lia.
      rewrite HT. reflexivity.
    + apply (QuietS_frame cfg y y2 subs HS HQ2); [rewrite Hb2; exact Hb1|rewrite Hh2; exact Hh1].
    + exact Hn2.
    + rewrite Hkc2, Hkc1. reflexivity.
    + rewrite Hkg2, Hkg1. reflexivity.
Qed.

(* 1(a). the case k = 0: ONE lost datagram, the gateway's PUBLISH *)
Theorem e2e_bpub_q2_publish_lost cfg y subs s dup retain mid payload d :
  QuietS cfg y subs -> In s subs -> 1 <= mid < 65536 -> okb payload = true ->
  0 < retry_delay (e_gw cfg) -> 1 <= retry_count (e_gw cfg) ->
  nth_fault (e_g2c cfg) (y_g2c_k y) = FDrop ->
  nth_fault (e_g2c cfg) (S (y_g2c_k y)) = FDeliver -> nth_fault (e_g2c cfg) (S (S (y_g2c_k y))) = FDeliver ->
  nth_fault (e_c2g cfg) (y_c2g_k y) = FDeliver -> nth_fault (e_c2g cfg) (S (y_c2g_k y)) = FDeliver ->
  retry_delay (e_gw cfg) <= d ->
  let t := gw_now (y_gw y) in
  let rd := retry_delay (e_gw cfg) in
  let topic := sub_topic s in
  exists y1 y2,
    sys_step cfg y (SBpub (MqPublish dup 2 retain topic mid payload)) =
      (y1, [SoBS t (MqPublish dup 2 retain topic mid payload);
            SoG2C t FDrop (pack (Publish dup 2 retain TIT_SHORT (encode_short topic) mid payload))]) /\
    sys_step cfg y1 (SAdv d) =
      (y2, [SoG2C (t + rd) FDeliver (pack (Publish true 2 retain TIT_SHORT (encode_short topic) mid payload));
            SoC2G (t + rd) FDeliver (pack (Pubrec mid)); SoBR (t + rd) (MqPubrec mid); SoBS (t + rd) (MqPubrel mid);
            SoG2C (t + rd) FDeliver (pack (Pubrel mid));
            SoCb (t + rd) (sub_id s) topic payload 2 retain true mid;
            SoC2G (t + rd) FDeliver (pack (Pubcomp mid)); SoBR (t + rd) (MqPubcomp mid)]) /\
    QuietS cfg y2 subs /\ gw_now (y_gw y2) = t + d /\
    y_c2g_k y2 = S (S (y_c2g_k y)) /\ y_g2c_k y2 = S (S (S (y_g2c_k y))).
Proof.
  intros HS Hin Hm Hp Hrd Hrc Hfg0 Hfg1 Hfg2 Hfc0 Hfc1 Hd t rd topic. subst t rd topic.
  destruct (e2e_bpub_q2_publish_lost_n cfg y subs s dup retain mid payload O d HS Hin Hm Hp Hrd ltac:(lia) ltac:(lia))
    as (y1 & y2 & E1 & _ & E2 & HS2 & Hn2 & Hkc2 & Hkg2).
  - intros i Hi. assert (i = O) by lia. subst i. rewrite Nat.add_0_r. exact Hfg0.
  - rewrite Nat.add_1_r. exact Hfg1.
  - replace (y_g2c_k y + 2)%nat with (S (S (y_g2c_k y))) by lia. exact Hfg2.
  - exact Hfc0.
  - exact Hfc1.
  - lia.
  - exists y1, y2. split; [exact E1|]. split; [|split; [exact HS2|split; [exact Hn2|split; [exact Hkc2|]]]].
    + rewrite E2. cbn [drops app].
      assert (HT : gw_now (y_gw y) + N.of_nat 1 * retry_delay (e_gw cfg) = gw_now (y_gw y) + retry_delay (e_gw cfg)) by lia.
      rewrite HT. reflexivity.
    + rewrite Hkg2, Nat.add_0_r. reflexivity.
Qed.

(* ------------------------------------------------------------------ 1(b) the client's PUBREC is lost *)

(* The PUBLISH reaches the client, which remembers it and answers PUBREC - the handler is NOT invoked yet;
   the PUBREC datagram is lost, so the gateway keeps waiting and the broker has received nothing.  At
   now + RetryDelay the gateway retransmits the PUBLISH with DUP set; the client, which still holds the
   first copy, replaces it by the retransmission and answers PUBREC again, still WITHOUT invoking the
   handler; this PUBREC gets through, the broker's PUBREL follows, and the handler runs ONCE (with dup =
   true: the flags of the copy received last), then PUBCOMP. *)
Theorem e2e_bpub_q2_pubrec_lost cfg y subs s dup retain mid payload d :
  QuietS cfg y subs -> In s subs -> 1 <= mid < 65536 -> okb payload = true ->
  0 < retry_delay (e_gw cfg) -> 1 <= retry_count (e_gw cfg) ->
  nth_fault (e_g2c cfg) (y_g2c_k y) = FDeliver -> nth_fault (e_c2g cfg) (y_c2g_k y) = FDrop ->
  nth_fault (e_g2c cfg) (S (y_g2c_k y)) = FDeliver -> nth_fault (e_c2g cfg) (S (y_c2g_k y)) = FDeliver ->
  nth_fault (e_g2c cfg) (S (S (y_g2c_k y))) = FDeliver -> nth_fault (e_c2g cfg) (S (S (y_c2g_k y))) = FDeliver ->
  retry_delay (e_gw cfg) <= d ->
  let t := gw_now (y_gw y) in
  let rd := retry_delay (e_gw cfg) in
  let topic := sub_topic s in
  exists y1 y2,
    sys_step cfg y (SBpub (MqPublish dup 2 retain topic mid payload)) =
      (y1, [SoBS t (MqPublish dup 2 retain topic mid payload);
            SoG2C t FDeliver (pack (Publish dup 2 retain TIT_SHORT (encode_short topic) mid payload));
            SoC2G t FDrop (pack (Pubrec mid))]) /\
    Hold2 cfg y1 (Some (pub2 dup retain topic mid payload)) (tx_rec mid (pub2 dup retain topic mid payload) 0) mid (t + rd) /\
    sys_step cfg y1 (SAdv d) =
      (y2, [SoG2C (t + rd) FDeliver (pack (Publish true 2 retain TIT_SHORT (encode_short topic) mid payload));
            SoC2G (t + rd) FDeliver (pack (Pubrec mid)); SoBR (t + rd) (MqPubrec mid); SoBS (t + rd) (MqPubrel mid);
            SoG2C (t + rd) FDeliver (pack (Pubrel mid));
            SoCb (t + rd) (sub_id s) topic payload 2 retain true mid;
            SoC2G (t + rd) FDeliver (pack (Pubcomp mid)); SoBR (t + rd) (MqPubcomp mid)]) /\
    QuietS cfg y2 subs /\ gw_now (y_gw y2) = t + d /\
    y_c2g_k y2 = S (S (S (y_c2g_k y))) /\ y_g2c_k y2 = S (S (S (y_g2c_k y))).
Proof.
  intros HS Hin Hm Hp Hrd Hrc Hfg0 Hfc0 Hfg1 Hfc1 Hfg2 Hfc2 Hd t rd topic. subst t rd topic.
  pose proof HS as (HQ & _ & _ & Hf & _).
  rewrite Forall_forall in Hf. destruct (topic_ok_spec _ (Hf s Hin)) as (Hs & Hw & _).
  destruct (bpub2_entry cfg y dup retain (sub_topic s) mid payload HQ Hs Hw Hm Hp)
    as (y0 & HH0 & Hn0 & Hb0 & Hh0 & Hr0 & Hkc0 & Hkg0 & E0).
  destruct (pump_pub_recdrop cfg y0 None _ dup retain TIT_SHORT (encode_short (sub_topic s)) mid payload _
              (S (S (S (S (S (S (S (S (S (S pump_rest)))))))))) HH0
              (wf_pub2 dup retain (sub_topic s) mid payload Hs Hw ltac:(lia) Hp) Hm ltac:(rewrite Hkc0; exact Hfc0))
    as (y1 & E1 & HH1 & Hn1 & Hb1 & Hh1 & Hkc1 & Hkg1).
  fold (pub2 dup retain (sub_topic s) mid payload) in E1, HH1.
  destruct (adv_rec_finish cfg y1 (Some (pub2 dup retain (sub_topic s) mid payload)) dup retain (sub_topic s) mid payload
              0 _ O adv_fuel (gw_now (y_gw y) + d) HH1 Hs Hw Hm Hp ltac:(lia) Hrd)
    as (y2 & E2 & HQ2 & Hn2 & Hb2 & Hh2 & Hkc2 & Hkg2).
  - intros i Hi. lia.
  - rewrite Hkg1, Hkg0, Nat.add_0_r. exact Hfg1.
  - rewrite Hkg1, Hkg0, Nat.add_0_r. exact Hfg2.
  - rewrite Hkc1, Hkc0. exact Hfc1.
  - rewrite Hkc1, Hkc0. exact Hfc2.
  - lia.
  - unfold adv_fuel. lia.
  - exists y1, y2. split; [|split; [exact HH1|split; [|split; [|split; [|split]]]]].
    + rewrite E0, Hfg0. cbn [map copies]. unfold pump_rest11. rewrite E1, Hn0. reflexivity.
    + rewrite (sys_step_adv2 cfg y1 _ _ _ _ d HH1), Hn1, Hn0, E2. cbn [drops app].
      rewrite (scb_at_ext y0 y1 _ _ _ _ _ _ _ Hh1), (scb_at_ext y y0 _ _ _ _ _ _ _ Hh0),
        (scb_at_subs cfg y subs s _ payload 2 retain true mid HS Hin).
      assert (HT : gw_now (y_gw y) + retry_delay (e_gw cfg) + N.of_nat 0 * retry_delay (e_gw cfg) =
                   gw_now (y_gw y) + retry_delay (e_gw cfg)) by lia.
      rewrite HT. reflexivity.
    + apply (QuietS_frame cfg y y2 subs HS HQ2); [rewrite Hb2, Hb1; exact Hb0|rewrite Hh2, Hh1; exact Hh0].
    + exact Hn2.
    + rewrite Hkc2, Hkc1, Hkc0. reflexivity.
    + rewrite Hkg2, Hkg1, Hkg0, Nat.add_0_r. reflexivity.
Qed.

(* ------------------------------------------------------------------ 1(c) the gateway's PUBREL is lost, 1 + k times in a row *)

(* PUBLISH and PUBREC get through (no handler invocation yet), the broker receives PUBREC and answers PUBREL;
   the datagram carrying the PUBREL to the client and its first k retransmissions are lost (1 + k <=
   RetryCount consecutive losses; the retry budget of the transaction starts afresh with the PUBREL).  At
   t' = now + (1 + k) RetryDelay a PUBREL gets through: the handler runs ONCE (dup as the broker sent it:
   the client holds the first copy of the PUBLISH), PUBCOMP, forwarded to the broker. *)
Theorem e2e_bpub_q2_pubrel_lost_n cfg y subs s dup retain mid payload k d :
  QuietS cfg y subs -> In s subs -> 1 <= mid < 65536 -> okb payload = true ->
  0 < retry_delay (e_gw cfg) -> N.of_nat k + 1 <= retry_count (e_gw cfg) -> N.of_nat k < 99998 ->
  nth_fault (e_g2c cfg) (y_g2c_k y) = FDeliver -> nth_fault (e_c2g cfg) (y_c2g_k y) = FDeliver ->
  (forall i, (i <= k)%nat -> nth_fault (e_g2c cfg) (S (y_g2c_k y) + i) = FDrop) ->
  nth_fault (e_g2c cfg) (S (y_g2c_k y) + S k) = FDeliver -> nth_fault (e_c2g cfg) (S (y_c2g_k y)) = FDeliver ->
  N.of_nat (S k) * retry_delay (e_gw cfg) <= d ->
  let t := gw_now (y_gw y) in
  let rd := retry_delay (e_gw cfg) in
  let topic := sub_topic s in
  let t' := t + N.of_nat (S k) * rd in
  exists y1 y2,
    sys_step cfg y (SBpub (MqPublish dup 2 retain topic mid payload)) =
      (y1, [SoBS t (MqPublish dup 2 retain topic mid payload);
            SoG2C t FDeliver (pack (pub2 dup retain topic mid payload));
            SoC2G t FDeliver (pack (Pubrec mid)); SoBR t (MqPubrec mid); SoBS t (MqPubrel mid);
            SoG2C t FDrop (pack (Pubrel mid))]) /\
    Hold2 cfg y1 (Some (pub2 dup retain topic mid payload)) (tx_comp mid 0) mid (t + rd) /\
    sys_step cfg y1 (SAdv d) =
      (y2, drops rd (pack (Pubrel mid)) k (t + rd) ++
           [SoG2C t' FDeliver (pack (Pubrel mid));
            SoCb t' (sub_id s) topic payload 2 retain dup mid;
            SoC2G t' FDeliver (pack (Pubcomp mid)); SoBR t' (MqPubcomp mid)]) /\
    QuietS cfg y2 subs /\ gw_now (y_gw y2) = t + d /\
    y_c2g_k y2 = S (S (y_c2g_k y)) /\ y_g2c_k y2 = S (S (S (y_g2c_k y + k))).
Proof.
  intros HS Hin Hm Hp Hrd Hrc Hk Hfg0 Hfc0 Hdrops Hfg1 Hfc1 Hd t rd topic t'. subst t rd topic t'.
  pose proof HS as (HQ & _ & _ & Hf & _).
  rewrite Forall_forall in Hf. destruct (topic_ok_spec _ (Hf s Hin)) as (Hs & Hw & _).
  destruct (bpub2_entry cfg y dup retain (sub_topic s) mid payload HQ Hs Hw Hm Hp)
    as (y0 & HH0 & Hn0 & Hb0 & Hh0 & Hr0 & Hkc0 & Hkg0 & E0).
  destruct (pump_pub_head cfg y0 None _ _ dup retain TIT_SHORT (encode_short (sub_topic s)) mid payload _ HH0
              (wf_pub2 dup retain (sub_topic s) mid payload Hs Hw ltac:(lia) Hp) Hm ltac:(rewrite Hkc0; exact Hfc0))
    as (y1 & HH1 & Hn1 & Hb1 & Hh1 & Hr1 & Hkc1 & Hkg1 & E1).
  fold (pub2 dup retain (sub_topic s) mid payload) in E1, HH1. rewrite Hn0 in HH1.
  destruct (adv_comp_finish cfg y1 (Some (pub2 dup retain (sub_topic s) mid payload)) (sub_topic s) mid 0 _ k adv_fuel
              (gw_now (y_gw y) + d) HH1 (tfp_short (e_cl cfg) (y_cl y1) (sub_topic s) Hs Hw) Hm ltac:(lia) Hrd)
    as (y2 & E2 & HQ2 & Hn2 & Hb2 & Hh2 & Hkc2 & Hkg2).
  - intros i Hi. rewrite Hkg1, Hkg0, <- (Hdrops (S i) ltac:(lia)). f_equal. lia.
  - rewrite Hkg1, Hkg0, <- Hfg1. f_equal. lia.
  - rewrite Hkc1, Hkc0. exact Hfc1.
  - lia.
  - unfold adv_fuel. lia.
  - exists y1, y2. split; [|split; [exact HH1|split; [|split; [|split; [|split]]]]].
    + rewrite E0, Hfg0. cbn [map copies]. unfold pump_rest11. rewrite (E1 (S (S (S (S (S (S (S pump_rest)))))))).
      rewrite Hkg0, <- (Nat.add_0_r (S (y_g2c_k y))), (Hdrops O ltac:(lia)). cbn [map copies]. rewrite pump_nil, Hn0. reflexivity.
    + rewrite (sys_step_adv2 cfg y1 _ _ _ _ d HH1), Hn1, Hn0, E2. cbn [rel_scb pub2].
      rewrite (scb_at_ext y0 y1 _ _ _ _ _ _ _ Hh1), (scb_at_ext y y0 _ _ _ _ _ _ _ Hh0),
        (scb_at_subs cfg y subs s _ payload 2 retain dup mid HS Hin).
      assert (HT : gw_now (y_gw y) + retry_delay (e_gw cfg) + N.of_nat k * retry_delay (e_gw cfg) =
                   gw_now (y_gw y) + N.of_nat (S k) * retry_delay (e_gw cfg)) by lia.
      rewrite HT. reflexivity.
    + apply (QuietS_frame cfg y y2 subs HS HQ2); [rewrite Hb2, Hb1; exact Hb0|rewrite Hh2, Hh1; exact Hh0].
    + exact Hn2.
    + rewrite Hkc2, Hkc1, Hkc0. reflexivity.
    + rewrite Hkg2, Hkg1, Hkg0. reflexivity.
Qed.

(* 1(c). the case k = 0: ONE lost datagram, the gateway's PUBREL *)
Theorem e2e_bpub_q2_pubrel_lost cfg y subs s dup retain mid payload d :
  QuietS cfg y subs -> In s subs -> 1 <= mid < 65536 -> okb payload = true ->
  0 < retry_delay (e_gw cfg) -> 1 <= retry_count (e_gw cfg) ->
  nth_fault (e_g2c cfg) (y_g2c_k y) = FDeliver -> nth_fault (e_c2g cfg) (y_c2g_k y) = FDeliver ->
  nth_fault (e_g2c cfg) (S (y_g2c_k y)) = FDrop ->
  nth_fault (e_g2c cfg) (S (S (y_g2c_k y))) = FDeliver -> nth_fault (e_c2g cfg) (S (y_c2g_k y)) = FDeliver ->
  retry_delay (e_gw cfg) <= d ->
  let t := gw_now (y_gw y) in
  let rd := retry_delay (e_gw cfg) in
  let topic := sub_topic s in
  exists y1 y2,
    sys_step cfg y (SBpub (MqPublish dup 2 retain topic mid payload)) =
      (y1, [SoBS t (MqPublish dup 2 retain topic mid payload);
            SoG2C t FDeliver (pack (Publish dup 2 retain TIT_SHORT (encode_short topic) mid payload));
            SoC2G t FDeliver (pack (Pubrec mid)); SoBR t (MqPubrec mid); SoBS t (MqPubrel mid);
            SoG2C t FDrop (pack (Pubrel mid))]) /\
    sys_step cfg y1 (SAdv d) =
      (y2, [SoG2C (t + rd) FDeliver (pack (Pubrel mid));
            SoCb (t + rd) (sub_id s) topic payload 2 retain dup mid;
            SoC2G (t + rd) FDeliver (pack (Pubcomp mid)); SoBR (t + rd) (MqPubcomp mid)]) /\
    QuietS cfg y2 subs /\ gw_now (y_gw y2) = t + d /\
    y_c2g_k y2 = S (S (y_c2g_k y)) /\ y_g2c_k y2 = S (S (S (y_g2c_k y))).
Proof.
  intros HS Hin Hm Hp Hrd Hrc Hfg0 Hfc0 Hfg1 Hfg2 Hfc1 Hd t rd topic. subst t rd topic.
  destruct (e2e_bpub_q2_pubrel_lost_n cfg y subs s dup retain mid payload O d HS Hin Hm Hp Hrd ltac:(lia) ltac:(lia) Hfg0 Hfc0)
    as (y1 & y2 & E1 & _ & E2 & HS2 & Hn2 & Hkc2 & Hkg2).
  - intros i Hi. assert (i = O) by lia. subst i. rewrite Nat.add_0_r. exact Hfg1.
  - rewrite Nat.add_1_r. exact Hfg2.
  - exact Hfc1.
  - lia.
  - exists y1, y2. split; [exact E1|]. split; [|split; [exact HS2|split; [exact Hn2|split; [exact Hkc2|]]]].
    + rewrite E2. cbn [drops app].
      assert (HT : gw_now (y_gw y) + N.of_nat 1 * retry_delay (e_gw cfg) = gw_now (y_gw y) + retry_delay (e_gw cfg)) by lia.
      rewrite HT. reflexivity.
    + rewrite Hkg2, Nat.add_0_r. reflexivity.
Qed.

(* ------------------------------------------------------------------ 1(d) the client's PUBCOMP is lost *)

(* The whole exchange reaches the client: PUBLISH, PUBREC, the broker's PUBREL, the handler runs (ONCE, dup as
   the broker sent it) and the client answers PUBCOMP and forgets the exchange; the PUBCOMP datagram is
   lost, so the gateway keeps waiting and the broker has received PUBREC only.  At now + RetryDelay the
   gateway retransmits the PUBREL; the client, which holds nothing under this message ID any more, answers
   PUBCOMP again WITHOUT invoking the handler; this PUBCOMP gets through and is forwarded to the broker. *)
Theorem e2e_bpub_q2_pubcomp_lost cfg y subs s dup retain mid payload d :
  QuietS cfg y subs -> In s subs -> 1 <= mid < 65536 -> okb payload = true ->
  0 < retry_delay (e_gw cfg) -> 1 <= retry_count (e_gw cfg) ->
  nth_fault (e_g2c cfg) (y_g2c_k y) = FDeliver -> nth_fault (e_c2g cfg) (y_c2g_k y) = FDeliver ->
  nth_fault (e_g2c cfg) (S (y_g2c_k y)) = FDeliver -> nth_fault (e_c2g cfg) (S (y_c2g_k y)) = FDrop ->
  nth_fault (e_g2c cfg) (S (S (y_g2c_k y))) = FDeliver -> nth_fault (e_c2g cfg) (S (S (y_c2g_k y))) = FDeliver ->
  retry_delay (e_gw cfg) <= d ->
  let t := gw_now (y_gw y) in
  let rd := retry_delay (e_gw cfg) in
  let topic := sub_topic s in
  exists y1 y2,
    sys_step cfg y (SBpub (MqPublish dup 2 retain topic mid payload)) =
      (y1, [SoBS t (MqPublish dup 2 retain topic mid payload);
            SoG2C t FDeliver (pack (Publish dup 2 retain TIT_SHORT (encode_short topic) mid payload));
            SoC2G t FDeliver (pack (Pubrec mid)); SoBR t (MqPubrec mid); SoBS t (MqPubrel mid);
            SoG2C t FDeliver (pack (Pubrel mid));
            SoCb t (sub_id s) topic payload 2 retain dup mid;
            SoC2G t FDrop (pack (Pubcomp mid))]) /\
    Hold2 cfg y1 None (tx_comp mid 0) mid (t + rd) /\
    sys_step cfg y1 (SAdv d) =
      (y2, [SoG2C (t + rd) FDeliver (pack (Pubrel mid));
            SoC2G (t + rd) FDeliver (pack (Pubcomp mid)); SoBR (t + rd) (MqPubcomp mid)]) /\
    QuietS cfg y2 subs /\ gw_now (y_gw y2) = t + d /\
    y_c2g_k y2 = S (S (S (y_c2g_k y))) /\ y_g2c_k y2 = S (S (S (y_g2c_k y))).
Proof.
  intros HS Hin Hm Hp Hrd Hrc Hfg0 Hfc0 Hfg1 Hfc1 Hfg2 Hfc2 Hd t rd topic. subst t rd topic.
  pose proof HS as (HQ & _ & _ & Hf & _).
  rewrite Forall_forall in Hf. destruct (topic_ok_spec _ (Hf s Hin)) as (Hs & Hw & _).
  destruct (bpub2_entry cfg y dup retain (sub_topic s) mid payload HQ Hs Hw Hm Hp)
    as (y0 & HH0 & Hn0 & Hb0 & Hh0 & Hr0 & Hkc0 & Hkg0 & E0).
  destruct (pump_pub_head cfg y0 None _ _ dup retain TIT_SHORT (encode_short (sub_topic s)) mid payload _ HH0
              (wf_pub2 dup retain (sub_topic s) mid payload Hs Hw ltac:(lia) Hp) Hm ltac:(rewrite Hkc0; exact Hfc0))
    as (ya & HHa & Hna & Hba & Hha & Hra & Hkca & Hkga & Ea).
  fold (pub2 dup retain (sub_topic s) mid payload) in Ea, HHa. rewrite Hn0 in HHa.
  destruct (pump_rel_drop cfg ya (Some (pub2 dup retain (sub_topic s) mid payload)) (sub_topic s) mid 0 _
              (S (S (S (S (S (S pump_rest)))))) HHa (tfp_short (e_cl cfg) (y_cl ya) (sub_topic s) Hs Hw) Hm
              ltac:(rewrite Hkca, Hkc0; exact Hfc1))
    as (y1 & E1 & HH1 & Hn1 & Hb1 & Hh1 & Hkc1 & Hkg1).
  destruct (adv_comp_finish cfg y1 None (sub_topic s) mid 0 _ O adv_fuel (gw_now (y_gw y) + d) HH1 I Hm ltac:(lia) Hrd)
    as (y2 & E2 & HQ2 & Hn2 & Hb2 & Hh2 & Hkc2 & Hkg2).
  - intros i Hi. lia.
  - rewrite Hkg1, Hkga, Hkg0, Nat.add_0_r. exact Hfg2.
  - rewrite Hkc1, Hkca, Hkc0. exact Hfc2.
  - lia.
  - unfold adv_fuel. lia.
  - exists y1, y2. split; [|split; [exact HH1|split; [|split; [|split; [|split]]]]].
    + rewrite E0, Hfg0. cbn [map copies]. unfold pump_rest11. rewrite (Ea (S (S (S (S (S (S (S pump_rest)))))))).
      rewrite Hkg0, Hfg1. cbn [map copies]. rewrite E1. cbn [rel_scb pub2].
      rewrite (scb_at_ext y0 ya _ _ _ _ _ _ _ Hha), (scb_at_ext y y0 _ _ _ _ _ _ _ Hh0),
        (scb_at_subs cfg y subs s _ payload 2 retain dup mid HS Hin), Hna, Hn0. reflexivity.
    + rewrite (sys_step_adv2 cfg y1 _ _ _ _ d HH1), Hn1, Hna, Hn0, E2. cbn [drops rel_scb app].
      assert (HT : gw_now (y_gw y) + retry_delay (e_gw cfg) + N.of_nat 0 * retry_delay (e_gw cfg) =
                   gw_now (y_gw y) + retry_delay (e_gw cfg)) by lia.
      rewrite HT. reflexivity.
    + apply (QuietS_frame cfg y y2 subs HS HQ2); [rewrite Hb2, Hb1, Hba; exact Hb0|rewrite Hh2, Hh1, Hha; exact Hh0].
    + exact Hn2.
    + rewrite Hkc2, Hkc1, Hkca, Hkc0. reflexivity.
    + rewrite Hkg2, Hkg1, Hkga, Hkg0, Nat.add_0_r. reflexivity.
Qed.

(* ------------------------------------------------------------------ exactly once, whichever datagram is lost *)

Inductive loss_pos := LostPublish | LostPubrec | LostPubrel | LostPubcomp.

(* the link loses exactly the datagram pos of the exchange that begins at the link counters kc (client to
   gateway), kg (gateway to client), and delivers the other datagrams of the exchange *)
Definition one_loss (cfg : e2e_cfg) (kc kg : nat) (pos : loss_pos) : Prop :=
  let g i := nth_fault (e_g2c cfg) i in
  let c i := nth_fault (e_c2g cfg) i in
  match pos with
  | LostPublish => g kg = FDrop /\ g (S kg) = FDeliver /\ g (S (S kg)) = FDeliver /\ c kc = FDeliver /\ c (S kc) = FDeliver
  | LostPubrec => g kg = FDeliver /\ c kc = FDrop /\ g (S kg) = FDeliver /\ c (S kc) = FDeliver /\
                  g (S (S kg)) = FDeliver /\ c (S (S kc)) = FDeliver
  | LostPubrel => g kg = FDeliver /\ c kc = FDeliver /\ g (S kg) = FDrop /\ g (S (S kg)) = FDeliver /\ c (S kc) = FDeliver
  | LostPubcomp => g kg = FDeliver /\ c kc = FDeliver /\ g (S kg) = FDeliver /\ c (S kc) = FDrop /\
                   g (S (S kg)) = FDeliver /\ c (S (S kc)) = FDeliver
  end.

(* C16 for one broker PUBLISH with QoS 2 (short topic name, subscribed), one lost datagram and no other
   traffic: whichever of the four datagrams is lost, the two events SBpub; SAdv d (any d >= RetryDelay)
   invoke the handler of the subscription EXACTLY ONCE (with that topic and payload), the broker receives
   exactly PUBREC mid and then PUBCOMP mid, no API call returns, and the system is quiescent again with
   the same subscriptions. *)
Theorem e2e_bpub_q2_one_loss_once cfg y subs s dup retain mid payload pos d :
  QuietS cfg y subs -> In s subs -> 1 <= mid < 65536 -> okb payload = true ->
  0 < retry_delay (e_gw cfg) -> 1 <= retry_count (e_gw cfg) ->
  one_loss cfg (y_c2g_k y) (y_g2c_k y) pos -> retry_delay (e_gw cfg) <= d ->
  exists y1 tr1 y2 tr2,
    sys_step cfg y (SBpub (MqPublish dup 2 retain (sub_topic s) mid payload)) = (y1, tr1) /\
    sys_step cfg y1 (SAdv d) = (y2, tr2) /\
    cbs_of (tr1 ++ tr2) = [(sub_id s, sub_topic s, payload)] /\
    brs_of (tr1 ++ tr2) = [MqPubrec mid; MqPubcomp mid] /\ rets_of (tr1 ++ tr2) = [] /\
    QuietS cfg y2 subs /\ gw_now (y_gw y2) = gw_now (y_gw y) + d.
Proof.
  intros HS Hin Hm Hp Hrd Hrc Hloss Hd. destruct pos; cbn [one_loss] in Hloss.
  - destruct Hloss as (G0 & G1 & G2 & C0 & C1).
    destruct (e2e_bpub_q2_publish_lost cfg y subs s dup retain mid payload d HS Hin Hm Hp Hrd Hrc G0 G1 G2 C0 C1 Hd)
      as (y1 & y2 & E1 & E2 & HS2 & Hn2 & _).
    eexists y1, _, y2, _. split; [exact E1|]. split; [exact E2|].
    split; [reflexivity|]. split; [reflexivity|]. split; [reflexivity|]. split; [exact HS2|exact Hn2].
  - destruct Hloss as (G0 & C0 & G1 & C1 & G2 & C2).
    destruct (e2e_bpub_q2_pubrec_lost cfg y subs s dup retain mid payload d HS Hin Hm Hp Hrd Hrc G0 C0 G1 C1 G2 C2 Hd)
      as (y1 & y2 & E1 & _ & E2 & HS2 & Hn2 & _).
    eexists y1, _, y2, _. split; [exact E1|]. split; [exact E2|].
    split; [reflexivity|]. split; [reflexivity|]. split; [reflexivity|]. split; [exact HS2|exact Hn2].
  - destruct Hloss as (G0 & C0 & G1 & G2 & C1).
    destruct (e2e_bpub_q2_pubrel_lost cfg y subs s dup retain mid payload d HS Hin Hm Hp Hrd Hrc G0 C0 G1 G2 C1 Hd)
      as (y1 & y2 & E1 & E2 & HS2 & Hn2 & _).
    eexists y1, _, y2, _. split; [exact E1|]. split; [exact E2|].
    split; [reflexivity|]. split; [reflexivity|]. split; [reflexivity|]. split; [exact HS2|exact Hn2].
  - destruct Hloss as (G0 & C0 & G1 & C1 & G2 & C2).
    destruct (e2e_bpub_q2_pubcomp_lost cfg y subs s dup retain mid payload d HS Hin Hm Hp Hrd Hrc G0 C0 G1 C1 G2 C2 Hd)
      as (y1 & y2 & E1 & _ & E2 & HS2 & Hn2 & _).
    eexists y1, _, y2, _. split; [exact E1|]. split; [exact E2|].
    split; [reflexivity|]. split; [reflexivity|]. split; [reflexivity|]. split; [exact HS2|exact Hn2].
Qed.

(* ------------------------------------------------------------------ concrete instances (the hypotheses are satisfiable; the formulas agree with the model) *)

(* the state after Connect and Subscribe "ab" (QoS 2, handler 2) over a link that has delivered so far *)
Definition q2_y0 : sys :=
  snd (sys_run ecfg0 (sys_init ecfg0) [SCall 1 AConnect; SCall 2 (ASubscribe [97; 98] 2)]).
Definition q2_sub : subn := ([97; 98], 2, 2).

Lemma q2_y0_quiet : QuietS ecfg0 q2_y0 [q2_sub].
Proof.
  destruct (C26_partial_subscriptions ecfg0 1 [SCall 2 (ASubscribe [97; 98] 2)] cfg_ok_ecfg0 eq_refl)
    as (os0 & oss & y' & Er & _ & _ & HS).
  assert (Ey : y' = q2_y0) by (unfold q2_y0; rewrite Er; reflexivity). rewrite <- Ey. exact HS.
Qed.

Lemma q2_y0_facts : gw_now (y_gw q2_y0) = 0 /\ y_c2g_k q2_y0 = 2%nat /\ y_g2c_k q2_y0 = 2%nat.
Proof. vm_compute. repeat split; reflexivity. Qed.

(* the link from now on loses exactly the datagram pos of the next exchange *)
Definition ecfgQ (pos : loss_pos) : e2e_cfg :=
  {| e_gw := gcfg0; e_cl := ccfg0;
     e_c2g := match pos with
              | LostPubrec => [FDeliver; FDeliver; FDrop]
              | LostPubcomp => [FDeliver; FDeliver; FDeliver; FDrop]
              | _ => [] end;
     e_g2c := match pos with
              | LostPublish => [FDeliver; FDeliver; FDrop]
              | LostPubrel => [FDeliver; FDeliver; FDeliver; FDrop]
              | _ => [] end |}.

Example q2_one_loss_instance pos :
  exists y1 tr1 y2 tr2,
    sys_step (ecfgQ pos) q2_y0 (SBpub (MqPublish false 2 false [97; 98] 1000 [7])) = (y1, tr1) /\
    sys_step (ecfgQ pos) y1 (SAdv 25000) = (y2, tr2) /\
    cbs_of (tr1 ++ tr2) = [(2, [97; 98], [7])] /\ brs_of (tr1 ++ tr2) = [MqPubrec 1000; MqPubcomp 1000] /\
    rets_of (tr1 ++ tr2) = [] /\ QuietS (ecfgQ pos) y2 [q2_sub] /\ gw_now (y_gw y2) = 25000.
Proof.
  destruct q2_y0_facts as (Enow & Ekc & Ekg).
  destruct (e2e_bpub_q2_one_loss_once (ecfgQ pos) q2_y0 [q2_sub] q2_sub false false 1000 [7] pos 25000)
    as (y1 & tr1 & y2 & tr2 & E1 & E2 & Hcb & Hbr & Hret & HS2 & Hn2).
  - exact q2_y0_quiet.
  - left. reflexivity.
  - lia.
  - reflexivity.
  - reflexivity.
  - vm_compute. discriminate.
  - rewrite Ekc, Ekg. destruct pos; cbn; repeat split.
  - vm_compute. discriminate.
  - rewrite Enow in Hn2. exists y1, tr1, y2, tr2.
    split; [exact E1|]. split; [exact E2|]. split; [exact Hcb|]. split; [exact Hbr|]. split; [exact Hret|]. split; [exact HS2|exact Hn2].
Qed.

(* the traces of the four cases, computed by the model (an independent check of the formulas of the theorems):
   datagrams  PUBLISH [8;12;66;97;98;3;232;7] (with DUP: flags 194), PUBREC [4;15;3;232], PUBREL [4;16;3;232],
   PUBCOMP [4;14;3;232] *)
Example q2_one_loss_computed :
  let m := MqPublish false 2 false [97; 98] 1000 [7] in
  let run pos := let r1 := sys_step (ecfgQ pos) q2_y0 (SBpub m) in
                 let r2 := sys_step (ecfgQ pos) (fst r1) (SAdv 25000) in (snd r1, snd r2, quietb (ecfgQ pos) (fst r2)) in
  let pub := [8; 12; 66; 97; 98; 3; 232; 7] in let pubd := [8; 12; 194; 97; 98; 3; 232; 7] in
  let rec := [4; 15; 3; 232] in let rel := [4; 16; 3; 232] in let comp := [4; 14; 3; 232] in
  run LostPublish =
    ([SoBS 0 m; SoG2C 0 FDrop pub],
     [SoG2C 10000 FDeliver pubd; SoC2G 10000 FDeliver rec; SoBR 10000 (MqPubrec 1000); SoBS 10000 (MqPubrel 1000);
      SoG2C 10000 FDeliver rel; SoCb 10000 2 [97; 98] [7] 2 false true 1000; SoC2G 10000 FDeliver comp;
      SoBR 10000 (MqPubcomp 1000)], true) /\
  run LostPubrec =
    ([SoBS 0 m; SoG2C 0 FDeliver pub; SoC2G 0 FDrop rec],
     [SoG2C 10000 FDeliver pubd; SoC2G 10000 FDeliver rec; SoBR 10000 (MqPubrec 1000); SoBS 10000 (MqPubrel 1000);
      SoG2C 10000 FDeliver rel; SoCb 10000 2 [97; 98] [7] 2 false true 1000; SoC2G 10000 FDeliver comp;
      SoBR 10000 (MqPubcomp 1000)], true) /\
  run LostPubrel =
    ([SoBS 0 m; SoG2C 0 FDeliver pub; SoC2G 0 FDeliver rec; SoBR 0 (MqPubrec 1000); SoBS 0 (MqPubrel 1000);
      SoG2C 0 FDrop rel],
     [SoG2C 10000 FDeliver rel; SoCb 10000 2 [97; 98] [7] 2 false false 1000; SoC2G 10000 FDeliver comp;
      SoBR 10000 (MqPubcomp 1000)], true) /\
  run LostPubcomp =
    ([SoBS 0 m; SoG2C 0 FDeliver pub; SoC2G 0 FDeliver rec; SoBR 0 (MqPubrec 1000); SoBS 0 (MqPubrel 1000);
      SoG2C 0 FDeliver rel; SoCb 0 2 [97; 98] [7] 2 false false 1000; SoC2G 0 FDrop comp],
     [SoG2C 10000 FDeliver rel; SoC2G 10000 FDeliver comp; SoBR 10000 (MqPubcomp 1000)], true).
Proof. vm_compute. repeat split; reflexivity. Qed.

(* The bound RetryCount is tight for QoS 2 as well: with RetryCount = 3, FOUR consecutive losses of the PUBLISH
   (the first transmission and all three retransmissions) and the message is never delivered - the fourth
   expiry of the retry timer removes the exchange silently (no handler invocation, nothing at the broker);
   three consecutive losses are survived (delivery at 30000, handler invoked once). *)
Example q2_retry_budget_tight :
  let m := MqPublish false 2 false [97; 98] 1000 [7] in
  let cfgT n := {| e_gw := gcfg0; e_cl := ccfg0; e_c2g := []; e_g2c := [FDeliver; FDeliver] ++ repeat FDrop n |} in
  let run n := let r1 := sys_step (cfgT n) q2_y0 (SBpub m) in
               let r2 := sys_step (cfgT n) (fst r1) (SAdv 100000) in
               (cbs_of (snd r1 ++ snd r2), brs_of (snd r1 ++ snd r2), quietb (cfgT n) (fst r2)) in
  run 4%nat = ([], [], true) /\ run 3%nat = ([(2, [97; 98], [7])], [MqPubrec 1000; MqPubcomp 1000], true).
Proof. vm_compute. repeat split; reflexivity. Qed.

(* ================================================================== 2. the REGISTER step of a broker PUBLISH (QoS 1) *)

(* A broker PUBLISH (QoS 1) on a topic name that is not a 2-byte name and has no topic ID in this session
   yet: the gateway allocates the next topic ID i, sends REGISTER (i, the message ID of the PUBLISH, the
   name) and keeps the PUBLISH (under topic ID i) until the client's REGACK; then PUBLISH, PUBACK as for a
   short topic name.  The start state is any Quiet state (QuietS covers subscriptions to short topic names
   only, and such a name can only match a wildcard subscription): the handler invoked is the first
   candidate of the client's handler table for the name, if there is one (scb_at; scb_at_hd). *)

Definition pubr (dup retain : bool) (i mid : N) (payload : bytes) : packet := Publish dup 1 retain TIT_REGISTERED i mid payload.
Definition tx_reg (mid i : N) (topic : bytes) (pub : packet) (n : N) : txn :=
  TxBrokerPub mid 1 AwaitRegack (RsSn (Register i mid topic)) (Some pub) n.
Definition tx_ack (mid : N) (p pub : packet) (n : N) : txn := TxBrokerPub mid 1 AwaitPuback (RsSn p) (Some pub) n.

Lemma set_dup_pubr dup retain i mid payload : set_dup (pubr dup retain i mid payload) = pubr true retain i mid payload.
Proof. reflexivity. Qed.

Lemma wf_pubr dup retain i mid payload : i < 65536 -> mid < 65536 -> okb payload = true -> wf_pkt (pubr dup retain i mid payload) = true.
Proof. intros Hi Hm Hp. apply wf_pub; [lia|unfold TIT_REGISTERED; lia|assumption|assumption|assumption]. Qed.

Lemma wf_reg_any i mid topic : i < 65536 -> mid < 65536 -> okb1 topic = true -> wf_pkt (Register i mid topic) = true.
Proof.
  intros Hi Hm Ht. cbn [wf_pkt]. unfold lt16. rewrite Ht. repeat (apply andb_true_iff; split); try reflexivity; apply N.ltb_lt; assumption.
Qed.

Lemma tfp_registered cfg c i : topic_for_publish cfg c TIT_REGISTERED i = reg_find_id (cl_registered c) i.
Proof. reflexivity. Qed.

(* the name topic has no topic ID on either side, and the gateway's allocator can hand out its next ID (which the
   client does not use for another name) *)
Definition RegReady (cfg : e2e_cfg) (y : sys) (topic : bytes) : Prop :=
  let g := y_gw y in
  is_short_topic topic = false /\ okb1 topic = true /\ find_topic_id (e_gw cfg) g topic = None /\
  gw_no_more_tids g = false /\ gw_seq_overflow g = false /\ gw_seq_next g <> max_tid (e_gw cfg) /\
  gw_seq_next g < 65536 /\ get_name (predefined (e_gw cfg)) (gw_client_id g) (gw_seq_next g) = None /\
  reg_lookup (cl_registered (y_cl y)) topic = None /\ reg_find_id (cl_registered (y_cl y)) (gw_seq_next g) = None.

Lemma scb_at_hd y t topic payload q retain dup mid h hs : handle_set (cl_handlers (y_cl y)) topic = h :: hs ->
  scb_at y t topic payload q retain dup mid = [SoCb t h topic payload q retain dup mid].
Proof. intros H. unfold scb_at. rewrite H. reflexivity. Qed.

(* the event SBpub: the gateway sends REGISTER - the link treats it as its fault list says - and waits *)
Lemma breg_entry cfg y dup retain topic mid payload : Quiet cfg y -> RegReady cfg y topic ->
  1 <= mid < 65536 -> okb payload = true ->
  let t := gw_now (y_gw y) in
  let fl := nth_fault (e_g2c cfg) (y_g2c_k y) in
  let i := gw_seq_next (y_gw y) in
  exists y1, Hold2 cfg y1 None (tx_reg mid i topic (pubr dup retain i mid payload) 0) mid (t + retry_delay (e_gw cfg)) /\
    gw_now (y_gw y1) = t /\ y_br y1 = y_br y /\ y_cl y1 = y_cl y /\ gw_registered (y_gw y1) = gw_registered (y_gw y) /\
    y_c2g_k y1 = y_c2g_k y /\ y_g2c_k y1 = S (y_g2c_k y) /\
    sys_step cfg y (SBpub (MqPublish dup 1 retain topic mid payload)) =
      (let '(y2, tr2) := pump pump_rest11 cfg y1 (map ToCl (copies fl (pack (Register i mid topic)))) in
       (y2, SoBS t (MqPublish dup 1 retain topic mid payload) :: SoG2C t fl (pack (Register i mid topic)) :: tr2)).
Proof.
  intros (HC & HG & Hnow & Hcid & Hbc & Heof) (Hns & Ht & Hfind & Hnm & Hov & Hmax & Hid & Hpd & _) Hm Hp t fl i. subst t fl i.
  destruct y as [c g b k1 k2 eof]. cbn [y_cl y_gw y_br y_br_eof y_c2g_k y_g2c_k] in *.
  destruct (gw_bpub1_reg (e_gw cfg) g dup retain topic mid payload HG Hns Ht Hfind Hnm Hov Hmax Hid Hpd Hm Hp)
    as (g1 & Eg1 & HP1 & Hgn & Hgc & Hgr & _).
  exists {| y_cl := c; y_gw := g1; y_br := b; y_c2g_k := k1; y_g2c_k := S k2; y_br_eof := eof |}.
  split; [|split; [|split; [|split; [|split; [|split; [|split]]]]]].
  8: { unfold sys_step. sk. rewrite Hbc. rewrite pump_fuel_eq11. sk. rewrite Eg1. sk.
       rewrite ?app_nil_r.
       norm_pump pump_rest11 {| y_cl := c; y_gw := g1; y_br := b; y_c2g_k := k1; y_g2c_k := S k2; y_br_eof := eof |}.
       destruct (pump pump_rest11 cfg _ _) as [y2 tr2]. reflexivity. }
  - unfold Hold2. sk. split; [exact HC|]. split; [eexists _, _; exact HP1|].
    split; [rewrite Hgn; exact Hnow|]. split; [rewrite Hgn; lia|]. split; [rewrite Hgc; exact Hcid|]. split; assumption.
  - exact Hgn.
  - reflexivity.
  - reflexivity.
  - exact Hgr.
  - reflexivity.
  - reflexivity.
Qed.

(* REGISTER reaches the client: the name is registered (or was, with this ID: a retransmitted REGISTER), REGACK;
   the gateway registers the name and sends the PUBLISH it kept - the link treats it as its fault list says *)
Lemma pump_reg_head cfg y i topic pub mid n T :
  Hold2 cfg y None (tx_reg mid i topic pub n) mid T -> okb1 topic = true -> wf_pkt pub = true ->
  i < 65536 -> 1 <= mid < 65536 -> RegPre (cl_registered (y_cl y)) topic i ->
  nth_fault (e_c2g cfg) (y_c2g_k y) = FDeliver ->
  let t := gw_now (y_gw y) in
  let fl := nth_fault (e_g2c cfg) (y_g2c_k y) in
  exists y1, Hold2 cfg y1 None (tx_ack mid pub pub 0) mid (t + retry_delay (e_gw cfg)) /\ gw_now (y_gw y1) = t /\
    y_br y1 = y_br y /\ cl_handlers (y_cl y1) = cl_handlers (y_cl y) /\
    cl_registered (y_cl y1) = reg_set (cl_registered (y_cl y)) topic i /\
    gw_registered (y_gw y1) = <[i := topic]> (gw_registered (y_gw y)) /\
    y_c2g_k y1 = S (y_c2g_k y) /\ y_g2c_k y1 = S (y_g2c_k y) /\
    forall f, pump (S (S f)) cfg y [ToCl (pack (Register i mid topic))] =
      (let '(y2, tr2) := pump f cfg y1 (map ToCl (copies fl (pack pub))) in
       (y2, [SoC2G t FDeliver (pack (Regack i mid RC_ACCEPTED)); SoG2C t fl (pack pub)] ++ tr2)).
Proof.
  intros (HC & (o & sq & HP) & Hnow & HT & Hcid & Hbc & Heof) Ht Hwf Hi Hm Hpre Hfc t fl. subst t fl.
  destruct y as [c g b k1 k2 eof]. cbn [y_cl y_gw y_br y_br_eof y_c2g_k y_g2c_k ClShape] in *.
  assert (Hl : reg_lookup (cl_registered c) topic = None \/ reg_lookup (cl_registered c) topic = Some i)
    by (destruct Hpre as [[H _]|[H _]]; [left|right]; exact H).
  destruct (cl_register_in (e_cl cfg) c i mid topic HC Hl (wf_reg_any i mid topic Hi ltac:(lia) Ht) Hi ltac:(lia))
    as (c' & Ec & HC' & Hcn & Hch & Hcr & _).
  destruct (gw_hold_regack (e_gw cfg) g o mid i mid topic pub n T sq i HP Hwf Hi Hm) as (g1 & Eg1 & HP1 & Hg1n & Hg1c & Hg1r).
  exists {| y_cl := c'; y_gw := g1; y_br := b; y_c2g_k := S k1; y_g2c_k := S k2; y_br_eof := eof |}.
  split; [|split; [|split; [|split; [|split; [|split; [|split; [|split]]]]]]].
  9: { intros f. sk. rewrite Ec. sk. rewrite Hfc. sk. rewrite Eg1. sk.
       rewrite ?app_nil_r, Hnow.
       norm_pump f {| y_cl := c'; y_gw := g1; y_br := b; y_c2g_k := S k1; y_g2c_k := S k2; y_br_eof := eof |}.
       destruct (pump f cfg _ _) as [y2 tr2]. reflexivity. }
  - unfold Hold2. sk. split; [exact HC'|]. split; [eexists _, _; exact HP1|].
    split; [rewrite Hcn, Hg1n; exact Hnow|]. split; [rewrite Hg1n; lia|].
    split; [rewrite Hg1c; exact Hcid|]. split; assumption.
  - exact Hg1n.
  - reflexivity.
  - exact Hch.
  - exact Hcr.
  - exact Hg1r.
  - reflexivity.
  - reflexivity.
Qed.

(* ... the client's REGACK is lost: the client has registered the name, the gateway keeps waiting for REGACK *)
Lemma pump_reg_ackdrop cfg y i topic tx mid T f :
  Hold2 cfg y None tx mid T -> okb1 topic = true -> i < 65536 -> 1 <= mid < 65536 ->
  RegPre (cl_registered (y_cl y)) topic i -> nth_fault (e_c2g cfg) (y_c2g_k y) = FDrop ->
  let t := gw_now (y_gw y) in
  exists y', pump (S f) cfg y [ToCl (pack (Register i mid topic))] = (y', [SoC2G t FDrop (pack (Regack i mid RC_ACCEPTED))]) /\
    Hold2 cfg y' None tx mid T /\ gw_now (y_gw y') = t /\ y_br y' = y_br y /\ cl_handlers (y_cl y') = cl_handlers (y_cl y) /\
    cl_registered (y_cl y') = reg_set (cl_registered (y_cl y)) topic i /\ y_gw y' = y_gw y /\
    y_c2g_k y' = S (y_c2g_k y) /\ y_g2c_k y' = y_g2c_k y.
Proof.
  intros (HC & (o & sq & HP) & Hnow & HT & Hcid & Hbc & Heof) Ht Hi Hm Hpre Hfc t. subst t.
  destruct y as [c g b k1 k2 eof]. cbn [y_cl y_gw y_br y_br_eof y_c2g_k y_g2c_k ClShape] in *.
  assert (Hl : reg_lookup (cl_registered c) topic = None \/ reg_lookup (cl_registered c) topic = Some i)
    by (destruct Hpre as [[H _]|[H _]]; [left|right]; exact H).
  destruct (cl_register_in (e_cl cfg) c i mid topic HC Hl (wf_reg_any i mid topic Hi ltac:(lia) Ht) Hi ltac:(lia))
    as (c' & Ec & HC' & Hcn & Hch & Hcr & _).
  eexists. split; [|split; [|split; [|split; [|split; [|split; [|split; [|split]]]]]]].
  - sk. rewrite Ec. sk. rewrite Hfc. sk. rewrite pump_nil, Hnow. reflexivity.
  - unfold Hold2. sk. split; [exact HC'|]. split; [exists o, sq; exact HP|]. split; [rewrite Hcn; exact Hnow|].
    split; [exact HT|]. split; [exact Hcid|]. split; assumption.
  - reflexivity.
  - reflexivity.
  - sk. exact Hch.
  - sk. exact Hcr.
  - reflexivity.
  - reflexivity.
  - reflexivity.
Qed.

(* the PUBLISH (under a topic ID the client resolves to topic) reaches the client and its PUBACK gets through *)
Lemma pump_pubg1_round cfg y data snpub n dup retain tit tid mid payload topic T f :
  Hold2 cfg y None (TxBrokerPub mid 1 AwaitPuback data snpub n) mid T ->
  wf_pkt (Publish dup 1 retain tit tid mid payload) = true -> tid < 65536 -> 1 <= mid < 65536 ->
  topic_for_publish (e_cl cfg) (y_cl y) tit tid = Some topic ->
  nth_fault (e_c2g cfg) (y_c2g_k y) = FDeliver ->
  let t := gw_now (y_gw y) in
  exists y', pump (S (S (S f))) cfg y [ToCl (pack (Publish dup 1 retain tit tid mid payload))] =
      (y', SoC2G t FDeliver (pack (Puback tid mid RC_ACCEPTED)) ::
           scb_at y t topic payload 1 retain dup mid ++ [SoBR t (MqPuback mid)]) /\
    Quiet cfg y' /\ gw_now (y_gw y') = t /\ y_br y' = y_br y /\ cl_handlers (y_cl y') = cl_handlers (y_cl y) /\
    reg_frame y y' /\ y_c2g_k y' = S (y_c2g_k y) /\ y_g2c_k y' = y_g2c_k y.
Proof.
  intros (HC & (o & sq & HP) & Hnow & HT & Hcid & Hbc & Heof) Hwf Ht Hm Htp Hfc t. subst t.
  destruct y as [c g b k1 k2 eof]. unfold scb_at. cbn [y_cl y_gw y_br y_br_eof y_c2g_k y_g2c_k ClShape] in *.
  destruct (cl_bpubg1 (e_cl cfg) c dup retain tit tid mid payload topic HC Hwf Ht ltac:(lia) Htp)
    as (c' & Ec & HC' & (Hcn & Hch & Hcr) & _).
  destruct (gw_hold_puback (e_gw cfg) g o mid _ _ _ T sq tid HP Ht Hm) as (g' & Eg & HG' & (Hgn & Hgc & Hgr & _)).
  eexists. split; [|split; [|split; [|split; [|split; [|split; [|split]]]]]].
  - sk. rewrite Ec. sk. rewrite Hfc. sk. rewrite cl_outs_cb. sk. rewrite Eg. sk.
    unfold broker_recv. rewrite Hbc. sk. rewrite Hbc. sk. rewrite pump_nil.
    rewrite ?app_nil_r, Hnow. reflexivity.
  - unfold Quiet. sk. split; [exact HC'|]. split; [exact HG'|]. split; [rewrite Hcn, Hgn; exact Hnow|].
    split; [rewrite Hgc; exact Hcid|]. split; assumption.
  - sk. exact Hgn.
  - reflexivity.
  - sk. exact Hch.
  - split; sk; [exact Hcr|exact Hgr].
  - reflexivity.
  - reflexivity.
Qed.

(* ... its PUBACK is lost: the handler has run, the gateway keeps waiting for PUBACK *)
Lemma pump_pubg1_ackdrop cfg y tx dup retain tit tid mid payload topic T f :
  Hold2 cfg y None tx mid T ->
  wf_pkt (Publish dup 1 retain tit tid mid payload) = true -> tid < 65536 -> 1 <= mid < 65536 ->
  topic_for_publish (e_cl cfg) (y_cl y) tit tid = Some topic ->
  nth_fault (e_c2g cfg) (y_c2g_k y) = FDrop ->
  let t := gw_now (y_gw y) in
  exists y', pump (S f) cfg y [ToCl (pack (Publish dup 1 retain tit tid mid payload))] =
      (y', SoC2G t FDrop (pack (Puback tid mid RC_ACCEPTED)) :: scb_at y t topic payload 1 retain dup mid) /\
    Hold2 cfg y' None tx mid T /\ gw_now (y_gw y') = t /\ y_br y' = y_br y /\ cl_handlers (y_cl y') = cl_handlers (y_cl y) /\
    reg_frame y y' /\ y_c2g_k y' = S (y_c2g_k y) /\ y_g2c_k y' = y_g2c_k y.
Proof.
  intros (HC & (o & sq & HP) & Hnow & HT & Hcid & Hbc & Heof) Hwf Ht Hm Htp Hfc t. subst t.
  destruct y as [c g b k1 k2 eof]. unfold scb_at. cbn [y_cl y_gw y_br y_br_eof y_c2g_k y_g2c_k ClShape] in *.
  destruct (cl_bpubg1 (e_cl cfg) c dup retain tit tid mid payload topic HC Hwf Ht ltac:(lia) Htp)
    as (c' & Ec & HC' & (Hcn & Hch & Hcr) & _).
  eexists. split; [|split; [|split; [|split; [|split; [|split; [|split]]]]]].
  - sk. rewrite Ec. sk. rewrite Hfc. sk. rewrite cl_outs_cb. sk. rewrite pump_nil.
    rewrite ?app_nil_r, Hnow. reflexivity.
  - unfold Hold2. sk. split; [exact HC'|]. split; [exists o, sq; exact HP|]. split; [rewrite Hcn; exact Hnow|].
    split; [exact HT|]. split; [exact Hcid|]. split; assumption.
  - reflexivity.
  - reflexivity.
  - sk. exact Hch.
  - split; sk; [exact Hcr|reflexivity].
  - reflexivity.
  - reflexivity.
Qed.

(* what the exchange leaves behind: broker and handler table as before, the name registered with i on both sides *)
Definition RegDone (y y2 : sys) (topic : bytes) (i : N) : Prop :=
  y_br y2 = y_br y /\ cl_handlers (y_cl y2) = cl_handlers (y_cl y) /\
  cl_registered (y_cl y2) = reg_set (cl_registered (y_cl y)) topic i /\
  gw_registered (y_gw y2) = <[i := topic]> (gw_registered (y_gw y)).

Lemma RegDone_post y y1 y2 topic i : RegDone y y1 topic i -> y_br y2 = y_br y1 ->
  cl_handlers (y_cl y2) = cl_handlers (y_cl y1) -> reg_frame y1 y2 -> RegDone y y2 topic i.
Proof.
  intros (A & B & C & D) Hb Hh [Hc Hg]. split; [rewrite Hb; exact A|]. split; [rewrite Hh; exact B|].
  split; [rewrite Hc; exact C|rewrite Hg; exact D].
Qed.

Lemma RegDone_pre y y1 y2 topic i : y_br y1 = y_br y -> cl_handlers (y_cl y1) = cl_handlers (y_cl y) -> reg_frame y y1 ->
  RegDone y1 y2 topic i -> RegDone y y2 topic i.
Proof.
  intros Hb Hh [Hc Hg] (A & B & C & D). split; [rewrite A; exact Hb|]. split; [rewrite B; exact Hh|].
  split; [rewrite C, Hc; reflexivity|rewrite D, Hg; reflexivity].
Qed.

(* REGISTER reaches the client and everything after it gets through: REGACK, PUBLISH, PUBACK (forwarded to the
   broker), ONE handler invocation *)
Lemma pump_reg_round cfg y i topic dp retain mid payload n T f :
  Hold2 cfg y None (tx_reg mid i topic (pubr dp retain i mid payload) n) mid T ->
  okb1 topic = true -> i < 65536 -> 1 <= mid < 65536 -> okb payload = true ->
  RegPre (cl_registered (y_cl y)) topic i ->
  nth_fault (e_c2g cfg) (y_c2g_k y) = FDeliver -> nth_fault (e_g2c cfg) (y_g2c_k y) = FDeliver ->
  nth_fault (e_c2g cfg) (S (y_c2g_k y)) = FDeliver ->
  let t := gw_now (y_gw y) in
  exists y', pump (S (S (S (S (S f))))) cfg y [ToCl (pack (Register i mid topic))] =
      (y', [SoC2G t FDeliver (pack (Regack i mid RC_ACCEPTED)); SoG2C t FDeliver (pack (pubr dp retain i mid payload));
            SoC2G t FDeliver (pack (Puback i mid RC_ACCEPTED))] ++
           scb_at y t topic payload 1 retain dp mid ++ [SoBR t (MqPuback mid)]) /\
    Quiet cfg y' /\ gw_now (y_gw y') = t /\ RegDone y y' topic i /\
    y_c2g_k y' = S (S (y_c2g_k y)) /\ y_g2c_k y' = S (y_g2c_k y).
Proof.
  intros HH Ht Hi Hm Hp Hpre Hfc0 Hfg Hfc1 t. subst t.
  pose proof (wf_pubr dp retain i mid payload Hi ltac:(lia) Hp) as Hwf.
  destruct (pump_reg_head cfg y i topic _ mid n T HH Ht Hwf Hi Hm Hpre Hfc0)
    as (y1 & HH1 & Hn1 & Hb1 & Hh1 & Hc1 & Hg1 & Hkc1 & Hkg1 & E1).
  destruct (pump_pubg1_round cfg y1 _ _ 0 dp retain TIT_REGISTERED i mid payload topic _ f HH1 Hwf Hi Hm
              ltac:(rewrite tfp_registered, Hc1; exact (proj2 (RegPre_set _ _ _ Hpre))) ltac:(rewrite Hkc1; exact Hfc1))
    as (y2 & E2 & HQ2 & Hn2 & Hb2 & Hh2 & Hr2 & Hkc2 & Hkg2).
  exists y2. split; [|split; [exact HQ2|split; [rewrite Hn2; exact Hn1|split; [|split; [rewrite Hkc2, Hkc1; reflexivity|rewrite Hkg2; exact Hkg1]]]]].
  - rewrite (E1 (S (S (S f)))), Hfg. cbn [map copies]. fold (pubr dp retain i mid payload) in E2. rewrite E2.
    rewrite (scb_at_ext y y1 _ _ _ _ _ _ _ Hh1), Hn1. reflexivity.
  - apply (RegDone_post y y1 y2 topic i); [|exact Hb2|exact Hh2|exact Hr2].
    split; [exact Hb1|]. split; [exact Hh1|]. split; [exact Hc1|exact Hg1].
Qed.

(* the retry timer fires: the retransmitted REGISTER and everything after it get through *)
Lemma adv_both_reg_deliver cfg y i topic dp retain mid payload n T :
  Hold2 cfg y None (tx_reg mid i topic (pubr dp retain i mid payload) n) mid T ->
  okb1 topic = true -> i < 65536 -> 1 <= mid < 65536 -> okb payload = true ->
  RegPre (cl_registered (y_cl y)) topic i ->
  n + 1 <= retry_count (e_gw cfg) -> 0 < retry_delay (e_gw cfg) ->
  nth_fault (e_g2c cfg) (y_g2c_k y) = FDeliver -> nth_fault (e_c2g cfg) (y_c2g_k y) = FDeliver ->
  nth_fault (e_g2c cfg) (S (y_g2c_k y)) = FDeliver -> nth_fault (e_c2g cfg) (S (y_c2g_k y)) = FDeliver ->
  exists y', advance_both cfg y T =
      (y', [SoG2C T FDeliver (pack (Register i mid topic));
            SoC2G T FDeliver (pack (Regack i mid RC_ACCEPTED)); SoG2C T FDeliver (pack (pubr dp retain i mid payload));
            SoC2G T FDeliver (pack (Puback i mid RC_ACCEPTED))] ++
           scb_at y T topic payload 1 retain dp mid ++ [SoBR T (MqPuback mid)]) /\
    Quiet cfg y' /\ gw_now (y_gw y') = T /\ RegDone y y' topic i /\
    y_c2g_k y' = S (S (y_c2g_k y)) /\ y_g2c_k y' = S (S (y_g2c_k y)).
Proof.
  intros HH Ht Hi Hm Hp Hpre Hn Hrd Hfg0 Hfc0 Hfg1 Hfc1.
  destruct (fire_entry cfg y None mid 1 AwaitRegack (Register i mid topic) _ n T HH
              (wf_reg_any i mid topic Hi ltac:(lia) Ht) Hn Hrd)
    as (y1 & HH1 & Hn1 & Hb1 & Hh1 & Hr1 & Hkc1 & Hkg1 & E).
  change (set_dup (Register i mid topic)) with (Register i mid topic) in E, HH1.
  destruct (pump_reg_round cfg y1 i topic dp retain mid payload (n + 1) _ (S (S (S (S (S (S (S pump_rest))))))) HH1 Ht Hi Hm Hp
              ltac:(rewrite (proj1 Hr1); exact Hpre)
              ltac:(rewrite Hkc1; exact Hfc0) ltac:(rewrite Hkg1; exact Hfg1) ltac:(rewrite Hkc1; exact Hfc1))
    as (y2 & E2 & HQ2 & Hn2 & Hd2 & Hkc2 & Hkg2).
  exists y2. split; [|split; [exact HQ2|split; [rewrite Hn2; exact Hn1|split; [|split; [rewrite Hkc2, Hkc1; reflexivity|rewrite Hkg2, Hkg1; reflexivity]]]]].
  - rewrite E, Hfg0. cbn [map copies]. rewrite pump_fuel_eq, E2.
    rewrite (scb_at_ext y y1 _ _ _ _ _ _ _ Hh1), Hn1. reflexivity.
  - exact (RegDone_pre y y1 y2 topic i Hb1 Hh1 Hr1 Hd2).
Qed.

(* k lost retransmissions of the REGISTER, then one that gets through together with everything after it *)
Lemma adv_reg_finish cfg y i topic dp retain mid payload n T k f t :
  Hold2 cfg y None (tx_reg mid i topic (pubr dp retain i mid payload) n) mid T ->
  okb1 topic = true -> i < 65536 -> 1 <= mid < 65536 -> okb payload = true ->
  RegPre (cl_registered (y_cl y)) topic i ->
  n + N.of_nat k + 1 <= retry_count (e_gw cfg) -> 0 < retry_delay (e_gw cfg) ->
  (forall j, (j < k)%nat -> nth_fault (e_g2c cfg) (y_g2c_k y + j) = FDrop) ->
  nth_fault (e_g2c cfg) (y_g2c_k y + k) = FDeliver -> nth_fault (e_g2c cfg) (S (y_g2c_k y + k)) = FDeliver ->
  nth_fault (e_c2g cfg) (y_c2g_k y) = FDeliver -> nth_fault (e_c2g cfg) (S (y_c2g_k y)) = FDeliver ->
  T + N.of_nat k * retry_delay (e_gw cfg) <= t -> (k + 2 <= f)%nat ->
  let T' := T + N.of_nat k * retry_delay (e_gw cfg) in
  exists y', advance_to f cfg y t =
      (y', drops (retry_delay (e_gw cfg)) (pack (Register i mid topic)) k T ++
           [SoG2C T' FDeliver (pack (Register i mid topic));
            SoC2G T' FDeliver (pack (Regack i mid RC_ACCEPTED)); SoG2C T' FDeliver (pack (pubr dp retain i mid payload));
            SoC2G T' FDeliver (pack (Puback i mid RC_ACCEPTED))] ++
           scb_at y T' topic payload 1 retain dp mid ++ [SoBR T' (MqPuback mid)]) /\
    Quiet cfg y' /\ gw_now (y_gw y') = t /\ RegDone y y' topic i /\
    y_c2g_k y' = S (S (y_c2g_k y)) /\ y_g2c_k y' = S (S (y_g2c_k y + k)).
Proof.
  intros HH Ht Hi Hm Hp Hpre Hn Hrd Hdrops Hfg0 Hfg1 Hfc0 Hfc1 Htt Hf T'. subst T'.
  pose proof (wf_reg_any i mid topic Hi ltac:(lia) Ht) as Hwreg.
  destruct (adv_to_drops cfg None mid 1 AwaitRegack _ k y (Register i mid topic) n T (f - k) t HH Hwreg ltac:(lia) Hrd Hdrops Htt)
    as (yk & HHk & Hbk & Hhk & Hrk & Hkck & Hkgk & Ek).
  assert (Edk : dupk k (Register i mid topic) = Register i mid topic) by (destruct k; reflexivity).
  rewrite Edk in HHk. change (set_dup (Register i mid topic)) with (Register i mid topic) in Ek.
  destruct (adv_both_reg_deliver cfg yk i topic dp retain mid payload _ _ HHk Ht Hi Hm Hp
              ltac:(rewrite (proj1 Hrk); exact Hpre) ltac:(lia) Hrd
              ltac:(rewrite Hkgk; exact Hfg0) ltac:(rewrite Hkck; exact Hfc0)
              ltac:(rewrite Hkgk; exact Hfg1) ltac:(rewrite Hkck; exact Hfc1))
    as (y1 & E1 & HQ1 & Hn1 & Hd1 & Hkc1 & Hkg1).
  destruct (adv_to_final cfg yk None _ mid _ y1 _ t (f - k) HHk Htt E1 HQ1 Hn1 ltac:(lia))
    as (y2 & E2 & HQ2 & Hn2 & Hb2 & Hh2 & Hkc2 & Hkg2 & Hrf2 & _).
  exists y2. split; [|split; [exact HQ2|split; [exact Hn2|split; [|split; [rewrite Hkc2, Hkc1, Hkck; reflexivity|rewrite Hkg2, Hkg1, Hkgk; reflexivity]]]]].
  - replace f with (k + (f - k))%nat at 1 by lia. rewrite Ek, E2.
    rewrite (scb_at_ext y yk _ _ _ _ _ _ _ Hhk). reflexivity.
  - apply (RegDone_post y y1 y2 topic i); [|exact Hb2|exact Hh2|exact Hrf2].
    exact (RegDone_pre y yk y1 topic i Hbk Hhk Hrk Hd1).
Qed.

(* the retry timer fires: the retransmitted PUBLISH (registered topic ID) and the client's PUBACK get through *)
Lemma adv_both_ack_deliver cfg y dp retain i mid payload pub0 topic n T :
  Hold2 cfg y None (tx_ack mid (pubr dp retain i mid payload) pub0 n) mid T ->
  i < 65536 -> 1 <= mid < 65536 -> okb payload = true ->
  reg_find_id (cl_registered (y_cl y)) i = Some topic ->
  n + 1 <= retry_count (e_gw cfg) -> 0 < retry_delay (e_gw cfg) ->
  nth_fault (e_g2c cfg) (y_g2c_k y) = FDeliver -> nth_fault (e_c2g cfg) (y_c2g_k y) = FDeliver ->
  exists y', advance_both cfg y T =
      (y', [SoG2C T FDeliver (pack (pubr true retain i mid payload)); SoC2G T FDeliver (pack (Puback i mid RC_ACCEPTED))] ++
           scb_at y T topic payload 1 retain true mid ++ [SoBR T (MqPuback mid)]) /\
    Quiet cfg y' /\ gw_now (y_gw y') = T /\ y_br y' = y_br y /\ cl_handlers (y_cl y') = cl_handlers (y_cl y) /\
    reg_frame y y' /\ y_c2g_k y' = S (y_c2g_k y) /\ y_g2c_k y' = S (y_g2c_k y).
Proof.
  intros HH Hi Hm Hp Hfind Hn Hrd Hfg Hfc.
  pose proof (wf_pubr true retain i mid payload Hi ltac:(lia) Hp) as Hwf.
  destruct (fire_entry cfg y None mid 1 AwaitPuback (pubr dp retain i mid payload) _ n T HH Hwf Hn Hrd)
    as (y1 & HH1 & Hn1 & Hb1 & Hh1 & Hr1 & Hkc1 & Hkg1 & E).
  rewrite set_dup_pubr in E, HH1.
  destruct (pump_pubg1_round cfg y1 _ _ (n + 1) true retain TIT_REGISTERED i mid payload topic _
              (S (S (S (S (S (S (S (S (S pump_rest))))))))) HH1 Hwf Hi Hm
              ltac:(rewrite tfp_registered, (proj1 Hr1); exact Hfind) ltac:(rewrite Hkc1; exact Hfc))
    as (y2 & E2 & HQ2 & Hn2 & Hb2 & Hh2 & Hr2 & Hkc2 & Hkg2).
  exists y2. split; [|split; [exact HQ2|split; [rewrite Hn2; exact Hn1|split; [rewrite Hb2; exact Hb1|
    split; [rewrite Hh2; exact Hh1|split; [exact (reg_frame_trans _ _ _ Hr1 Hr2)|split; [rewrite Hkc2, Hkc1; reflexivity|rewrite Hkg2; exact Hkg1]]]]]]].
  rewrite E, Hfg. cbn [map copies]. rewrite pump_fuel_eq. fold (pubr true retain i mid payload) in E2. rewrite E2.
  rewrite (scb_at_ext y y1 _ _ _ _ _ _ _ Hh1), Hn1. reflexivity.
Qed.

(* k lost retransmissions of that PUBLISH, then one that gets through together with the client's PUBACK *)
Lemma adv_ack_finish cfg y dp retain i mid payload pub0 topic n T k f t :
  Hold2 cfg y None (tx_ack mid (pubr dp retain i mid payload) pub0 n) mid T ->
  i < 65536 -> 1 <= mid < 65536 -> okb payload = true ->
  reg_find_id (cl_registered (y_cl y)) i = Some topic ->
  n + N.of_nat k + 1 <= retry_count (e_gw cfg) -> 0 < retry_delay (e_gw cfg) ->
  (forall j, (j < k)%nat -> nth_fault (e_g2c cfg) (y_g2c_k y + j) = FDrop) ->
  nth_fault (e_g2c cfg) (y_g2c_k y + k) = FDeliver -> nth_fault (e_c2g cfg) (y_c2g_k y) = FDeliver ->
  T + N.of_nat k * retry_delay (e_gw cfg) <= t -> (k + 2 <= f)%nat ->
  let T' := T + N.of_nat k * retry_delay (e_gw cfg) in
  exists y', advance_to f cfg y t =
      (y', drops (retry_delay (e_gw cfg)) (pack (pubr true retain i mid payload)) k T ++
           [SoG2C T' FDeliver (pack (pubr true retain i mid payload)); SoC2G T' FDeliver (pack (Puback i mid RC_ACCEPTED))] ++
           scb_at y T' topic payload 1 retain true mid ++ [SoBR T' (MqPuback mid)]) /\
    Quiet cfg y' /\ gw_now (y_gw y') = t /\ y_br y' = y_br y /\ cl_handlers (y_cl y') = cl_handlers (y_cl y) /\
    reg_frame y y' /\ y_c2g_k y' = S (y_c2g_k y) /\ y_g2c_k y' = S (y_g2c_k y + k).
Proof.
  intros HH Hi Hm Hp Hfind Hn Hrd Hdrops Hfg Hfc Htt Hf T'. subst T'.
  pose proof (wf_pubr true retain i mid payload Hi ltac:(lia) Hp) as Hwf.
  destruct (adv_to_drops cfg None mid 1 AwaitPuback _ k y (pubr dp retain i mid payload) n T (f - k) t HH Hwf ltac:(lia) Hrd Hdrops Htt)
    as (yk & HHk & Hbk & Hhk & Hrk & Hkck & Hkgk & Ek).
  assert (Edk : exists dk, dupk k (pubr dp retain i mid payload) = pubr dk retain i mid payload)
    by (destruct k; eexists; reflexivity).
  destruct Edk as (dk & Edk). rewrite Edk in HHk. rewrite set_dup_pubr in Ek.
  destruct (adv_both_ack_deliver cfg yk dk retain i mid payload pub0 topic _ _ HHk Hi Hm Hp
              ltac:(rewrite (proj1 Hrk); exact Hfind) ltac:(lia) Hrd
              ltac:(rewrite Hkgk; exact Hfg) ltac:(rewrite Hkck; exact Hfc))
    as (y1 & E1 & HQ1 & Hn1 & Hb1 & Hh1 & Hr1 & Hkc1 & Hkg1).
  destruct (adv_to_final cfg yk None _ mid _ y1 _ t (f - k) HHk Htt E1 HQ1 Hn1 ltac:(lia))
    as (y2 & E2 & HQ2 & Hn2 & Hb2 & Hh2 & Hkc2 & Hkg2 & Hrf2 & _).
  exists y2. split; [|split; [exact HQ2|split; [exact Hn2|split; [rewrite Hb2, Hb1; exact Hbk|
    split; [rewrite Hh2, Hh1; exact Hhk|split; [exact (reg_frame_trans _ _ _ Hrk (reg_frame_trans _ _ _ Hr1 Hrf2))|
    split; [rewrite Hkc2, Hkc1, Hkck; reflexivity|rewrite Hkg2, Hkg1, Hkgk; reflexivity]]]]]]].
  replace f with (k + (f - k))%nat at 1 by lia. rewrite Ek, E2.
  rewrite (scb_at_ext y yk _ _ _ _ _ _ _ Hhk). reflexivity.
Qed.

Lemma RegReady_pre cfg y topic : RegReady cfg y topic -> RegPre (cl_registered (y_cl y)) topic (gw_seq_next (y_gw y)).
Proof. intros (_ & _ & _ & _ & _ & _ & _ & _ & Hl & Hf). left. split; assumption. Qed.

(* 2.0 no loss: REGISTER, REGACK, PUBLISH (registered topic ID), PUBACK, ONE handler invocation, PUBACK at the broker;
   the name is registered with the ID i on both sides afterwards *)
Theorem e2e_bpub_reg_q1_deliver cfg y dup retain topic mid payload :
  Quiet cfg y -> RegReady cfg y topic -> 1 <= mid < 65536 -> okb payload = true ->
  nth_fault (e_g2c cfg) (y_g2c_k y) = FDeliver -> nth_fault (e_c2g cfg) (y_c2g_k y) = FDeliver ->
  nth_fault (e_g2c cfg) (S (y_g2c_k y)) = FDeliver -> nth_fault (e_c2g cfg) (S (y_c2g_k y)) = FDeliver ->
  let t := gw_now (y_gw y) in
  let i := gw_seq_next (y_gw y) in
  exists y',
    sys_step cfg y (SBpub (MqPublish dup 1 retain topic mid payload)) =
      (y', [SoBS t (MqPublish dup 1 retain topic mid payload);
            SoG2C t FDeliver (pack (Register i mid topic)); SoC2G t FDeliver (pack (Regack i mid RC_ACCEPTED));
            SoG2C t FDeliver (pack (Publish dup 1 retain TIT_REGISTERED i mid payload));
            SoC2G t FDeliver (pack (Puback i mid RC_ACCEPTED))] ++
           scb_at y t topic payload 1 retain dup mid ++ [SoBR t (MqPuback mid)]) /\
    Quiet cfg y' /\ gw_now (y_gw y') = t /\ RegDone y y' topic i /\
    y_c2g_k y' = S (S (y_c2g_k y)) /\ y_g2c_k y' = S (S (y_g2c_k y)).
Proof.
  intros HQ HR Hm Hp Hfg0 Hfc0 Hfg1 Hfc1 t i. subst t i.
  pose proof HR as (_ & Ht & _ & _ & _ & _ & Hi & _). pose proof (RegReady_pre cfg y topic HR) as Hpre.
  destruct (breg_entry cfg y dup retain topic mid payload HQ HR Hm Hp)
    as (y0 & HH0 & Hn0 & Hb0 & Hcl0 & Hg0 & Hkc0 & Hkg0 & E0).
  destruct (pump_reg_round cfg y0 _ topic dup retain mid payload 0 _ (S (S (S (S (S (S pump_rest)))))) HH0 Ht Hi Hm Hp
              ltac:(rewrite Hcl0; exact Hpre)
              ltac:(rewrite Hkc0; exact Hfc0) ltac:(rewrite Hkg0; exact Hfg1) ltac:(rewrite Hkc0; exact Hfc1))
    as (y2 & E2 & HQ2 & Hn2 & Hd2 & Hkc2 & Hkg2).
  exists y2. split; [|split; [exact HQ2|split; [rewrite Hn2; exact Hn0|split; [|split; [rewrite Hkc2, Hkc0; reflexivity|rewrite Hkg2, Hkg0; reflexivity]]]]].
  - rewrite E0, Hfg0. cbn [map copies]. unfold pump_rest11. rewrite E2.
    rewrite (scb_at_ext y y0 _ _ _ _ _ _ _ ltac:(rewrite Hcl0; reflexivity)), Hn0. reflexivity.
  - apply (RegDone_pre y y0 y2 topic _ Hb0 ltac:(rewrite Hcl0; reflexivity) ltac:(split; [rewrite Hcl0; reflexivity|exact Hg0]) Hd2).
Qed.

(* 2.1 the REGISTER is lost 1 + k times in a row (1 + k <= RetryCount): retransmitted unchanged (REGISTER has no
   DUP flag) every RetryDelay; then REGACK, PUBLISH (DUP as the broker sent it), PUBACK, ONE handler invocation *)
Theorem e2e_bpub_reg_q1_register_lost_n cfg y dup retain topic mid payload k d :
  Quiet cfg y -> RegReady cfg y topic -> 1 <= mid < 65536 -> okb payload = true ->
  0 < retry_delay (e_gw cfg) -> N.of_nat k + 1 <= retry_count (e_gw cfg) -> N.of_nat k < 99998 ->
  (forall j, (j <= k)%nat -> nth_fault (e_g2c cfg) (y_g2c_k y + j) = FDrop) ->
  nth_fault (e_g2c cfg) (y_g2c_k y + S k) = FDeliver -> nth_fault (e_g2c cfg) (y_g2c_k y + S (S k)) = FDeliver ->
  nth_fault (e_c2g cfg) (y_c2g_k y) = FDeliver -> nth_fault (e_c2g cfg) (S (y_c2g_k y)) = FDeliver ->
  N.of_nat (S k) * retry_delay (e_gw cfg) <= d ->
  let t := gw_now (y_gw y) in
  let rd := retry_delay (e_gw cfg) in
  let i := gw_seq_next (y_gw y) in
  let t' := t + N.of_nat (S k) * rd in
  exists y1 y2,
    sys_step cfg y (SBpub (MqPublish dup 1 retain topic mid payload)) =
      (y1, [SoBS t (MqPublish dup 1 retain topic mid payload); SoG2C t FDrop (pack (Register i mid topic))]) /\
    sys_step cfg y1 (SAdv d) =
      (y2, drops rd (pack (Register i mid topic)) k (t + rd) ++
           [SoG2C t' FDeliver (pack (Register i mid topic)); SoC2G t' FDeliver (pack (Regack i mid RC_ACCEPTED));
            SoG2C t' FDeliver (pack (Publish dup 1 retain TIT_REGISTERED i mid payload));
            SoC2G t' FDeliver (pack (Puback i mid RC_ACCEPTED))] ++
           scb_at y t' topic payload 1 retain dup mid ++ [SoBR t' (MqPuback mid)]) /\
    Quiet cfg y2 /\ gw_now (y_gw y2) = t + d /\ RegDone y y2 topic i /\
    y_c2g_k y2 = S (S (y_c2g_k y)) /\ y_g2c_k y2 = S (S (S (y_g2c_k y + k))).
Proof.
  intros HQ HR Hm Hp Hrd Hrc Hk Hdrops Hfg0 Hfg1 Hfc0 Hfc1 Hd t rd i t'. subst t rd i t'.
  pose proof HR as (_ & Ht & _ & _ & _ & _ & Hi & _). pose proof (RegReady_pre cfg y topic HR) as Hpre.
  destruct (breg_entry cfg y dup retain topic mid payload HQ HR Hm Hp)
    as (y0 & HH0 & Hn0 & Hb0 & Hcl0 & Hg0 & Hkc0 & Hkg0 & E0).
  destruct (adv_reg_finish cfg y0 _ topic dup retain mid payload 0 _ k adv_fuel (gw_now (y_gw y) + d) HH0 Ht Hi Hm Hp
              ltac:(rewrite Hcl0; exact Hpre) ltac:(lia) Hrd)
    as (y2 & E2 & HQ2 & Hn2 & Hd2 & Hkc2 & Hkg2).
  - intros j Hj. rewrite Hkg0, <- (Hdrops (S j) ltac:(lia)). f_equal. lia.
  - rewrite Hkg0, <- Hfg0. f_equal. lia.
  - rewrite Hkg0, <- Hfg1. f_equal. lia.
  - rewrite Hkc0. exact Hfc0.
  - rewrite Hkc0. exact Hfc1.
  - lia.
  - unfold adv_fuel. lia.
  - exists y0, y2. split; [|split; [|split; [exact HQ2|split; [exact Hn2|split; [|split]]]]].
    + rewrite E0, <- (Nat.add_0_r (y_g2c_k y)), (Hdrops O ltac:(lia)). cbn [map copies]. rewrite pump_nil. reflexivity.
    + rewrite (sys_step_adv2 cfg y0 _ _ _ _ d HH0), Hn0, E2.
      rewrite (scb_at_ext y y0 _ _ _ _ _ _ _ ltac:(rewrite Hcl0; reflexivity)).
      assert (HT : gw_now (y_gw y) + retry_delay (e_gw cfg) + N.of_nat k * retry_delay (e_gw cfg) =
                   gw_now (y_gw y) + N.of_nat (S k) * retry_delay (e_gw cfg)) by lia.
      rewrite HT. reflexivity.
    + apply (RegDone_pre y y0 y2 topic _ Hb0 ltac:(rewrite Hcl0; reflexivity) ltac:(split; [rewrite Hcl0; reflexivity|exact Hg0]) Hd2).
    + rewrite Hkc2, Hkc0. reflexivity.
    + rewrite Hkg2, Hkg0. reflexivity.
Qed.

(* 2.2 the client's REGACK is lost: the client has registered the name; at now + RetryDelay the gateway retransmits
   the REGISTER, the client accepts the same registration again (REGACK accepted), then PUBLISH, PUBACK, ONE handler
   invocation *)
Theorem e2e_bpub_reg_q1_regack_lost cfg y dup retain topic mid payload d :
  Quiet cfg y -> RegReady cfg y topic -> 1 <= mid < 65536 -> okb payload = true ->
  0 < retry_delay (e_gw cfg) -> 1 <= retry_count (e_gw cfg) ->
  nth_fault (e_g2c cfg) (y_g2c_k y) = FDeliver -> nth_fault (e_c2g cfg) (y_c2g_k y) = FDrop ->
  nth_fault (e_g2c cfg) (S (y_g2c_k y)) = FDeliver -> nth_fault (e_c2g cfg) (S (y_c2g_k y)) = FDeliver ->
  nth_fault (e_g2c cfg) (S (S (y_g2c_k y))) = FDeliver -> nth_fault (e_c2g cfg) (S (S (y_c2g_k y))) = FDeliver ->
  retry_delay (e_gw cfg) <= d ->
  let t := gw_now (y_gw y) in
  let rd := retry_delay (e_gw cfg) in
  let i := gw_seq_next (y_gw y) in
  exists y1 y2,
    sys_step cfg y (SBpub (MqPublish dup 1 retain topic mid payload)) =
      (y1, [SoBS t (MqPublish dup 1 retain topic mid payload); SoG2C t FDeliver (pack (Register i mid topic));
            SoC2G t FDrop (pack (Regack i mid RC_ACCEPTED))]) /\
    cl_registered (y_cl y1) = reg_set (cl_registered (y_cl y)) topic i /\
    sys_step cfg y1 (SAdv d) =
      (y2, [SoG2C (t + rd) FDeliver (pack (Register i mid topic)); SoC2G (t + rd) FDeliver (pack (Regack i mid RC_ACCEPTED));
            SoG2C (t + rd) FDeliver (pack (Publish dup 1 retain TIT_REGISTERED i mid payload));
            SoC2G (t + rd) FDeliver (pack (Puback i mid RC_ACCEPTED))] ++
           scb_at y (t + rd) topic payload 1 retain dup mid ++ [SoBR (t + rd) (MqPuback mid)]) /\
    Quiet cfg y2 /\ gw_now (y_gw y2) = t + d /\ RegDone y y2 topic i /\
    y_c2g_k y2 = S (S (S (y_c2g_k y))) /\ y_g2c_k y2 = S (S (S (y_g2c_k y))).
Proof.
  intros HQ HR Hm Hp Hrd Hrc Hfg0 Hfc0 Hfg1 Hfc1 Hfg2 Hfc2 Hd t rd i. subst t rd i.
  pose proof HR as (_ & Ht & _ & _ & _ & _ & Hi & _). pose proof (RegReady_pre cfg y topic HR) as Hpre.
  destruct (breg_entry cfg y dup retain topic mid payload HQ HR Hm Hp)
    as (y0 & HH0 & Hn0 & Hb0 & Hcl0 & Hg0 & Hkc0 & Hkg0 & E0).
  destruct (pump_reg_ackdrop cfg y0 (gw_seq_next (y_gw y)) topic _ mid _ (S (S (S (S (S (S (S (S (S (S pump_rest)))))))))) HH0
              Ht Hi Hm ltac:(rewrite Hcl0; exact Hpre) ltac:(rewrite Hkc0; exact Hfc0))
    as (y1 & E1 & HH1 & Hn1 & Hb1 & Hh1 & Hc1 & Hgw1 & Hkc1 & Hkg1).
  rewrite Hcl0 in Hc1.
  assert (Hpre1 : RegPre (cl_registered (y_cl y1)) topic (gw_seq_next (y_gw y))).
  { right. rewrite Hc1. exact (RegPre_set _ _ _ Hpre). }
  destruct (adv_reg_finish cfg y1 _ topic dup retain mid payload 0 _ O adv_fuel (gw_now (y_gw y) + d) HH1 Ht Hi Hm Hp Hpre1
              ltac:(lia) Hrd)
    as (y2 & E2 & HQ2 & Hn2 & Hd2 & Hkc2 & Hkg2).
  - intros j Hj. lia.
  - rewrite Hkg1, Hkg0, Nat.add_0_r. exact Hfg1.
  - rewrite Hkg1, Hkg0, Nat.add_0_r. exact Hfg2.
  - rewrite Hkc1, Hkc0. exact Hfc1.
  - rewrite Hkc1, Hkc0. exact Hfc2.
  - lia.
  - unfold adv_fuel. lia.
  - exists y1, y2. split; [|split; [exact Hc1|split; [|split; [exact HQ2|split; [exact Hn2|split; [|split]]]]]].
    + rewrite E0, Hfg0. cbn [map copies]. unfold pump_rest11. rewrite E1, Hn0. reflexivity.
    + rewrite (sys_step_adv2 cfg y1 _ _ _ _ d HH1), Hn1, Hn0, E2. cbn [drops app].
      rewrite (scb_at_ext y0 y1 _ _ _ _ _ _ _ Hh1), (scb_at_ext y y0 _ _ _ _ _ _ _ ltac:(rewrite Hcl0; reflexivity)).
      assert (HT : gw_now (y_gw y) + retry_delay (e_gw cfg) + N.of_nat 0 * retry_delay (e_gw cfg) =
                   gw_now (y_gw y) + retry_delay (e_gw cfg)) by lia.
      rewrite HT. reflexivity.
    + destruct Hd2 as (A & B & C & D). split; [rewrite A, Hb1; exact Hb0|]. split; [rewrite B, Hh1, Hcl0; reflexivity|].
      split; [rewrite C, Hc1; apply reg_set_same, reg_lookup_set|rewrite D, Hgw1, Hg0; reflexivity].
    + rewrite Hkc2, Hkc1, Hkc0. reflexivity.
    + rewrite Hkg2, Hkg1, Hkg0, Nat.add_0_r. reflexivity.
Qed.

(* 2.3 REGISTER and REGACK get through, the PUBLISH that follows is lost 1 + k times in a row (the retry budget
   starts afresh with the PUBLISH): retransmitted with DUP set; then PUBACK, ONE handler invocation (dup = true) *)
Theorem e2e_bpub_reg_q1_publish_lost_n cfg y dup retain topic mid payload k d :
  Quiet cfg y -> RegReady cfg y topic -> 1 <= mid < 65536 -> okb payload = true ->
  0 < retry_delay (e_gw cfg) -> N.of_nat k + 1 <= retry_count (e_gw cfg) -> N.of_nat k < 99998 ->
  nth_fault (e_g2c cfg) (y_g2c_k y) = FDeliver -> nth_fault (e_c2g cfg) (y_c2g_k y) = FDeliver ->
  (forall j, (j <= k)%nat -> nth_fault (e_g2c cfg) (S (y_g2c_k y) + j) = FDrop) ->
  nth_fault (e_g2c cfg) (S (y_g2c_k y) + S k) = FDeliver -> nth_fault (e_c2g cfg) (S (y_c2g_k y)) = FDeliver ->
  N.of_nat (S k) * retry_delay (e_gw cfg) <= d ->
  let t := gw_now (y_gw y) in
  let rd := retry_delay (e_gw cfg) in
  let i := gw_seq_next (y_gw y) in
  let t' := t + N.of_nat (S k) * rd in
  exists y1 y2,
    sys_step cfg y (SBpub (MqPublish dup 1 retain topic mid payload)) =
      (y1, [SoBS t (MqPublish dup 1 retain topic mid payload); SoG2C t FDeliver (pack (Register i mid topic));
            SoC2G t FDeliver (pack (Regack i mid RC_ACCEPTED));
            SoG2C t FDrop (pack (Publish dup 1 retain TIT_REGISTERED i mid payload))]) /\
    RegDone y y1 topic i /\
    sys_step cfg y1 (SAdv d) =
      (y2, drops rd (pack (Publish true 1 retain TIT_REGISTERED i mid payload)) k (t + rd) ++
           [SoG2C t' FDeliver (pack (Publish true 1 retain TIT_REGISTERED i mid payload));
            SoC2G t' FDeliver (pack (Puback i mid RC_ACCEPTED))] ++
           scb_at y t' topic payload 1 retain true mid ++ [SoBR t' (MqPuback mid)]) /\
    Quiet cfg y2 /\ gw_now (y_gw y2) = t + d /\ RegDone y y2 topic i /\
    y_c2g_k y2 = S (S (y_c2g_k y)) /\ y_g2c_k y2 = S (S (S (y_g2c_k y + k))).
Proof.
  intros HQ HR Hm Hp Hrd Hrc Hk Hfg0 Hfc0 Hdrops Hfg1 Hfc1 Hd t rd i t'. subst t rd i t'.
  pose proof HR as (_ & Ht & _ & _ & _ & _ & Hi & _). pose proof (RegReady_pre cfg y topic HR) as Hpre.
  destruct (breg_entry cfg y dup retain topic mid payload HQ HR Hm Hp)
    as (y0 & HH0 & Hn0 & Hb0 & Hcl0 & Hg0 & Hkc0 & Hkg0 & E0).
  pose proof (wf_pubr dup retain (gw_seq_next (y_gw y)) mid payload Hi ltac:(lia) Hp) as Hwf.
  destruct (pump_reg_head cfg y0 _ topic _ mid 0 _ HH0 Ht Hwf Hi Hm ltac:(rewrite Hcl0; exact Hpre) ltac:(rewrite Hkc0; exact Hfc0))
    as (y1 & HH1 & Hn1 & Hb1 & Hh1 & Hc1 & Hg1 & Hkc1 & Hkg1 & E1).
  rewrite Hn0 in HH1. rewrite Hcl0 in Hc1, Hh1. rewrite Hg0 in Hg1.
  assert (Hd1 : RegDone y y1 topic (gw_seq_next (y_gw y))).
  { split; [rewrite Hb1; exact Hb0|]. split; [exact Hh1|]. split; [exact Hc1|exact Hg1]. }
  destruct (adv_ack_finish cfg y1 dup retain _ mid payload _ topic 0 _ k adv_fuel (gw_now (y_gw y) + d) HH1 Hi Hm Hp
              ltac:(rewrite Hc1; exact (proj2 (RegPre_set _ _ _ Hpre))) ltac:(lia) Hrd)
    as (y2 & E2 & HQ2 & Hn2 & Hb2 & Hh2 & Hr2 & Hkc2 & Hkg2).
  - intros j Hj. rewrite Hkg1, Hkg0, <- (Hdrops (S j) ltac:(lia)). f_equal. lia.
  - rewrite Hkg1, Hkg0, <- Hfg1. f_equal. lia.
  - rewrite Hkc1, Hkc0. exact Hfc1.
  - lia.
  - unfold adv_fuel. lia.
  - exists y1, y2. split; [|split; [exact Hd1|split; [|split; [exact HQ2|split; [exact Hn2|split; [|split]]]]]].
    + rewrite E0, Hfg0. cbn [map copies]. unfold pump_rest11. rewrite (E1 (S (S (S (S (S (S (S (S (S pump_rest)))))))))).
      rewrite Hkg0, <- (Nat.add_0_r (S (y_g2c_k y))), (Hdrops O ltac:(lia)). cbn [map copies]. rewrite pump_nil, Hn0. reflexivity.
    + rewrite (sys_step_adv2 cfg y1 _ _ _ _ d HH1), Hn1, Hn0, E2.
      rewrite (scb_at_ext y y1 _ _ _ _ _ _ _ Hh1).
      assert (HT : gw_now (y_gw y) + retry_delay (e_gw cfg) + N.of_nat k * retry_delay (e_gw cfg) =
                   gw_now (y_gw y) + N.of_nat (S k) * retry_delay (e_gw cfg)) by lia.
      rewrite HT. reflexivity.
    + exact (RegDone_post y y1 y2 topic _ Hd1 Hb2 Hh2 Hr2).
    + rewrite Hkc2, Hkc1, Hkc0. reflexivity.
    + rewrite Hkg2, Hkg1, Hkg0. reflexivity.
Qed.

(* 2.4 REGISTER, REGACK and PUBLISH get through, the handler runs, the client's PUBACK is lost: at now + RetryDelay
   the PUBLISH is retransmitted with DUP set and - QoS 1 is at-least-once - the handler runs a SECOND time (dup =
   true); ONE PUBACK at the broker *)
Theorem e2e_bpub_reg_q1_puback_lost cfg y dup retain topic mid payload d :
  Quiet cfg y -> RegReady cfg y topic -> 1 <= mid < 65536 -> okb payload = true ->
  0 < retry_delay (e_gw cfg) -> 1 <= retry_count (e_gw cfg) ->
  nth_fault (e_g2c cfg) (y_g2c_k y) = FDeliver -> nth_fault (e_c2g cfg) (y_c2g_k y) = FDeliver ->
  nth_fault (e_g2c cfg) (S (y_g2c_k y)) = FDeliver -> nth_fault (e_c2g cfg) (S (y_c2g_k y)) = FDrop ->
  nth_fault (e_g2c cfg) (S (S (y_g2c_k y))) = FDeliver -> nth_fault (e_c2g cfg) (S (S (y_c2g_k y))) = FDeliver ->
  retry_delay (e_gw cfg) <= d ->
  let t := gw_now (y_gw y) in
  let rd := retry_delay (e_gw cfg) in
  let i := gw_seq_next (y_gw y) in
  exists y1 y2,
    sys_step cfg y (SBpub (MqPublish dup 1 retain topic mid payload)) =
      (y1, [SoBS t (MqPublish dup 1 retain topic mid payload); SoG2C t FDeliver (pack (Register i mid topic));
            SoC2G t FDeliver (pack (Regack i mid RC_ACCEPTED));
            SoG2C t FDeliver (pack (Publish dup 1 retain TIT_REGISTERED i mid payload));
            SoC2G t FDrop (pack (Puback i mid RC_ACCEPTED))] ++
           scb_at y t topic payload 1 retain dup mid) /\
    sys_step cfg y1 (SAdv d) =
      (y2, [SoG2C (t + rd) FDeliver (pack (Publish true 1 retain TIT_REGISTERED i mid payload));
            SoC2G (t + rd) FDeliver (pack (Puback i mid RC_ACCEPTED))] ++
           scb_at y (t + rd) topic payload 1 retain true mid ++ [SoBR (t + rd) (MqPuback mid)]) /\
    Quiet cfg y2 /\ gw_now (y_gw y2) = t + d /\ RegDone y y2 topic i /\
    y_c2g_k y2 = S (S (S (y_c2g_k y))) /\ y_g2c_k y2 = S (S (S (y_g2c_k y))).
Proof.
  intros HQ HR Hm Hp Hrd Hrc Hfg0 Hfc0 Hfg1 Hfc1 Hfg2 Hfc2 Hd t rd i. subst t rd i.
  pose proof HR as (_ & Ht & _ & _ & _ & _ & Hi & _). pose proof (RegReady_pre cfg y topic HR) as Hpre.
  destruct (breg_entry cfg y dup retain topic mid payload HQ HR Hm Hp)
    as (y0 & HH0 & Hn0 & Hb0 & Hcl0 & Hg0 & Hkc0 & Hkg0 & E0).
  pose proof (wf_pubr dup retain (gw_seq_next (y_gw y)) mid payload Hi ltac:(lia) Hp) as Hwf.
  destruct (pump_reg_head cfg y0 _ topic _ mid 0 _ HH0 Ht Hwf Hi Hm ltac:(rewrite Hcl0; exact Hpre) ltac:(rewrite Hkc0; exact Hfc0))
    as (ya & HHa & Hna & Hba & Hha & Hca & Hga & Hkca & Hkga & Ea).
  rewrite Hn0 in HHa. rewrite Hcl0 in Hca, Hha. rewrite Hg0 in Hga.
  assert (Hfa : reg_find_id (cl_registered (y_cl ya)) (gw_seq_next (y_gw y)) = Some topic)
    by (rewrite Hca; exact (proj2 (RegPre_set _ _ _ Hpre))).
  destruct (pump_pubg1_ackdrop cfg ya _ dup retain TIT_REGISTERED (gw_seq_next (y_gw y)) mid payload topic _
              (S (S (S (S (S (S (S (S pump_rest)))))))) HHa Hwf Hi Hm ltac:(rewrite tfp_registered; exact Hfa)
              ltac:(rewrite Hkca, Hkc0; exact Hfc1))
    as (y1 & E1 & HH1 & Hn1 & Hb1 & Hh1 & Hr1 & Hkc1 & Hkg1).
  destruct (adv_ack_finish cfg y1 dup retain _ mid payload _ topic 0 _ O adv_fuel (gw_now (y_gw y) + d) HH1 Hi Hm Hp
              ltac:(rewrite (proj1 Hr1); exact Hfa) ltac:(lia) Hrd)
    as (y2 & E2 & HQ2 & Hn2 & Hb2 & Hh2 & Hr2 & Hkc2 & Hkg2).
  - intros j Hj. lia.
  - rewrite Hkg1, Hkga, Hkg0, Nat.add_0_r. exact Hfg2.
  - rewrite Hkc1, Hkca, Hkc0. exact Hfc2.
  - lia.
  - unfold adv_fuel. lia.
  - exists y1, y2. split; [|split; [|split; [exact HQ2|split; [exact Hn2|split; [|split]]]]].
    + rewrite E0, Hfg0. cbn [map copies]. unfold pump_rest11. rewrite (Ea (S (S (S (S (S (S (S (S (S pump_rest)))))))))).
      rewrite Hkg0, Hfg1. cbn [map copies]. fold (pubr dup retain (gw_seq_next (y_gw y)) mid payload) in E1. rewrite E1.
      rewrite (scb_at_ext y ya _ _ _ _ _ _ _ Hha), Hna, Hn0. reflexivity.
    + rewrite (sys_step_adv2 cfg y1 _ _ _ _ d HH1), Hn1, Hna, Hn0, E2. cbn [drops app].
      rewrite (scb_at_ext ya y1 _ _ _ _ _ _ _ Hh1), (scb_at_ext y ya _ _ _ _ _ _ _ Hha).
      assert (HT : gw_now (y_gw y) + retry_delay (e_gw cfg) + N.of_nat 0 * retry_delay (e_gw cfg) =
                   gw_now (y_gw y) + retry_delay (e_gw cfg)) by lia.
      rewrite HT. reflexivity.
    + apply (RegDone_post y ya y2 topic _); [|rewrite Hb2; exact Hb1|rewrite Hh2; exact Hh1|exact (reg_frame_trans _ _ _ Hr1 Hr2)].
      split; [rewrite Hba; exact Hb0|]. split; [exact Hha|]. split; [exact Hca|exact Hga].
    + rewrite Hkc2, Hkc1, Hkca, Hkc0. reflexivity.
    + rewrite Hkg2, Hkg1, Hkga, Hkg0, Nat.add_0_r. reflexivity.
Qed.

(* ------------------------------------------------------------------ 2.5 concrete instances of the REGISTER step *)

Lemma Nmap_is_empty_spec {A} (m : Nmap A) : Nmap_is_empty m = true -> m = ∅.
Proof.
  unfold Nmap_is_empty. destruct (map_to_list m) eqn:E; [|discriminate]. intros _. apply map_to_list_empty_iff, E.
Qed.

Lemma len_zero_nil {A} (l : list A) : (len l =? 0) = true -> l = [].
Proof. destruct l; [reflexivity|]. intros H. apply N.eqb_eq in H. unfold len in H. cbn [length] in H. lia. Qed.

(* the boolean test of ComposeProofs.v decides Quiet *)
Lemma quietb_spec cfg y : quietb cfg y = true -> Quiet cfg y.
Proof.
  unfold quietb. intros H.
  repeat match goal with H : _ && _ = true |- _ => apply andb_true_iff in H; destruct H end.
  repeat match goal with H : negb _ = true |- _ => apply negb_true_iff in H end.
  repeat match goal with H : Nmap_is_empty _ = true |- _ => apply Nmap_is_empty_spec in H end.
  repeat match goal with H : (len _ =? 0) = true |- _ => apply len_zero_nil in H end.
  split; [|split; [|split; [|split; [|split]]]].
  - constructor; try assumption.
    + destruct (cl_st (y_cl y)); try discriminate; reflexivity.
    + destruct (cl_cancelled (y_cl y)); [discriminate|reflexivity].
    + split; apply N.leb_le; assumption.
  - constructor; try assumption.
    + destruct (gw_st (y_gw y)); try discriminate; reflexivity.
    + destruct (gw_connect (y_gw y)); [discriminate|reflexivity].
    + destruct (gw_ending (y_gw y)); [discriminate|reflexivity].
  - apply N.eqb_eq. assumption.
  - apply beq_true. assumption.
  - assumption.
  - assumption.
Qed.

(* the state after Connect and Subscribe "a/#" (QoS 1, handler 2) over a link that has delivered so far; the
   broker then publishes on "a/bc", which matches the filter, is not a 2-byte name and has no topic ID yet *)
Definition reg_y0 : sys :=
  snd (sys_run ecfg0 (sys_init ecfg0) [SCall 1 AConnect; SCall 2 (ASubscribe [97; 47; 35] 1)]).
Definition reg_topic : bytes := [97; 47; 98; 99].

Lemma reg_y0_quiet cfg : e_cl cfg = ccfg0 -> Quiet cfg reg_y0.
Proof.
  intros Hc. assert (HQ : Quiet ecfg0 reg_y0) by (apply quietb_spec; vm_compute; reflexivity).
  unfold Quiet in *. rewrite Hc. exact HQ.
Qed.

Lemma reg_y0_ready cfg : e_gw cfg = gcfg0 -> RegReady cfg reg_y0 reg_topic.
Proof.
  intros Hg. unfold RegReady. rewrite Hg.
  repeat split; try (vm_compute; reflexivity). vm_compute. discriminate.
Qed.

Lemma reg_y0_facts : gw_now (y_gw reg_y0) = 0 /\ y_c2g_k reg_y0 = 2%nat /\ y_g2c_k reg_y0 = 2%nat /\
  gw_seq_next (y_gw reg_y0) = 1 /\ handle_set (cl_handlers (y_cl reg_y0)) reg_topic = [2] /\ cl_registered (y_cl reg_y0) = [].
Proof. vm_compute. repeat split; reflexivity. Qed.

(* the link from now on loses the client's REGACK (third datagram from the client) *)
Definition ecfgR : e2e_cfg := {| e_gw := gcfg0; e_cl := ccfg0; e_c2g := [FDeliver; FDeliver; FDrop]; e_g2c := [] |}.

Example reg_regack_lost_instance :
  exists y1 y2,
    sys_step ecfgR reg_y0 (SBpub (MqPublish false 1 false reg_topic 1000 [7])) =
      (y1, [SoBS 0 (MqPublish false 1 false reg_topic 1000 [7]);
            SoG2C 0 FDeliver [10; 10; 0; 1; 3; 232; 97; 47; 98; 99]; SoC2G 0 FDrop [7; 11; 0; 1; 3; 232; 0]]) /\
    sys_step ecfgR y1 (SAdv 25000) =
      (y2, [SoG2C 10000 FDeliver [10; 10; 0; 1; 3; 232; 97; 47; 98; 99]; SoC2G 10000 FDeliver [7; 11; 0; 1; 3; 232; 0];
            SoG2C 10000 FDeliver [8; 12; 32; 0; 1; 3; 232; 7]; SoC2G 10000 FDeliver [7; 13; 0; 1; 3; 232; 0];
            SoCb 10000 2 reg_topic [7] 1 false false 1000; SoBR 10000 (MqPuback 1000)]) /\
    Quiet ecfgR y2 /\ gw_now (y_gw y2) = 25000 /\ cl_registered (y_cl y2) = [(reg_topic, 1)] /\
    gw_registered (y_gw y2) !! 1 = Some reg_topic.
Proof.
  destruct reg_y0_facts as (Enow & Ekc & Ekg & Eseq & Ehs & Ereg).
  destruct (e2e_bpub_reg_q1_regack_lost ecfgR reg_y0 false false reg_topic 1000 [7] 25000)
    as (y1 & y2 & E1 & _ & E2 & HQ2 & Hn2 & (_ & _ & Hc2 & Hg2) & _).
  - apply reg_y0_quiet. reflexivity.
  - apply reg_y0_ready. reflexivity.
  - lia.
  - reflexivity.
  - reflexivity.
  - vm_compute. discriminate.
  - rewrite Ekg. reflexivity.
  - rewrite Ekc. reflexivity.
  - rewrite Ekg. reflexivity.
  - rewrite Ekc. reflexivity.
  - rewrite Ekg. reflexivity.
  - rewrite Ekc. reflexivity.
  - vm_compute. discriminate.
  - rewrite Enow in E1, E2, Hn2. rewrite Eseq in E1, E2, Hc2, Hg2. rewrite Ereg in Hc2.
    rewrite (scb_at_hd reg_y0 _ _ _ _ _ _ _ 2 [] Ehs) in E2.
    exists y1, y2. split; [|split; [|split; [exact HQ2|split; [exact Hn2|split; [exact Hc2|]]]]].
    + rewrite E1. vm_compute. reflexivity.
    + rewrite E2. vm_compute. reflexivity.
    + rewrite Hg2. apply (lookup_insert (M:=Nmap)).
Qed.

(* the traces of the five cases, computed by the model (an independent check of the formulas of the theorems):
   datagrams  REGISTER [10;10;0;1;3;232;97;47;98;99], REGACK [7;11;0;1;3;232;0], PUBLISH [8;12;32;0;1;3;232;7] (with DUP:
   flags 160), PUBACK [7;13;0;1;3;232;0] *)
Example reg_step_computed :
  let m := MqPublish false 1 false reg_topic 1000 [7] in
  let run c2g g2c :=
    let cfg := {| e_gw := gcfg0; e_cl := ccfg0; e_c2g := c2g; e_g2c := g2c |} in
    let r1 := sys_step cfg reg_y0 (SBpub m) in
    let r2 := sys_step cfg (fst r1) (SAdv 25000) in
    (snd r1, snd r2, quietb cfg (fst r2), cl_registered (y_cl (fst r2))) in
  let reg := [10; 10; 0; 1; 3; 232; 97; 47; 98; 99] in let rack := [7; 11; 0; 1; 3; 232; 0] in
  let pub := [8; 12; 32; 0; 1; 3; 232; 7] in let pubd := [8; 12; 160; 0; 1; 3; 232; 7] in let pack_ := [7; 13; 0; 1; 3; 232; 0] in
  let cb t d := SoCb t 2 reg_topic [7] 1 false d 1000 in
  let D := FDeliver in
  run [] [] =
    ([SoBS 0 m; SoG2C 0 D reg; SoC2G 0 D rack; SoG2C 0 D pub; SoC2G 0 D pack_; cb 0 false; SoBR 0 (MqPuback 1000)], [],
     true, [(reg_topic, 1)]) /\
  run [] [D; D; FDrop] =
    ([SoBS 0 m; SoG2C 0 FDrop reg],
     [SoG2C 10000 D reg; SoC2G 10000 D rack; SoG2C 10000 D pub; SoC2G 10000 D pack_; cb 10000 false; SoBR 10000 (MqPuback 1000)],
     true, [(reg_topic, 1)]) /\
  run [D; D; FDrop] [] =
    ([SoBS 0 m; SoG2C 0 D reg; SoC2G 0 FDrop rack],
     [SoG2C 10000 D reg; SoC2G 10000 D rack; SoG2C 10000 D pub; SoC2G 10000 D pack_; cb 10000 false; SoBR 10000 (MqPuback 1000)],
     true, [(reg_topic, 1)]) /\
  run [] [D; D; D; FDrop] =
    ([SoBS 0 m; SoG2C 0 D reg; SoC2G 0 D rack; SoG2C 0 FDrop pub],
     [SoG2C 10000 D pubd; SoC2G 10000 D pack_; cb 10000 true; SoBR 10000 (MqPuback 1000)], true, [(reg_topic, 1)]) /\
  run [D; D; D; FDrop] [] =
    ([SoBS 0 m; SoG2C 0 D reg; SoC2G 0 D rack; SoG2C 0 D pub; SoC2G 0 FDrop pack_; cb 0 false],
     [SoG2C 10000 D pubd; SoC2G 10000 D pack_; cb 10000 true; SoBR 10000 (MqPuback 1000)], true, [(reg_topic, 1)]).
Proof. vm_compute. repeat split; reflexivity. Qed.

(* ------------------------------------------------------------------ assumptions *)

Print Assumptions e2e_bpub_q2_deliver.
Print Assumptions e2e_bpub_q2_publish_lost_n.
Print Assumptions e2e_bpub_q2_publish_lost.
Print Assumptions e2e_bpub_q2_pubrec_lost.
Print Assumptions e2e_bpub_q2_pubrel_lost_n.
Print Assumptions e2e_bpub_q2_pubrel_lost.
Print Assumptions e2e_bpub_q2_pubcomp_lost.
Print Assumptions e2e_bpub_q2_one_loss_once.
Print Assumptions q2_one_loss_instance.
Print Assumptions q2_one_loss_computed.
Print Assumptions q2_retry_budget_tight.
Print Assumptions e2e_bpub_reg_q1_deliver.
Print Assumptions e2e_bpub_reg_q1_register_lost_n.
Print Assumptions e2e_bpub_reg_q1_regack_lost.
Print Assumptions e2e_bpub_reg_q1_publish_lost_n.
Print Assumptions e2e_bpub_reg_q1_puback_lost.
Print Assumptions reg_regack_lost_instance.
Print Assumptions reg_step_computed.
