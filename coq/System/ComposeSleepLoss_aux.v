(* System/ComposeSleepLoss_aux.v — component lemmas for System/ComposeSleepLoss.v: the sleep DISCONNECT exchange
   when one datagram of it is lost.

     cl_resend_fire    the sleep transaction's resend timer: DISCONNECT (ms / 1000) again, timer re-armed (budget k_rcount)
     gw_asleep_disc    DISCONNECT (sleep) for a session that is asleep already: the reply is written at once (sn_send_now),
                       not queued; buffer empty
     GwWait a g        the gateway while the client waits: asleep with an empty buffer (a = true: the reply was lost) or
                       still active and quiescent (a = false: the client's DISCONNECT was lost)
     gw_wait_adv_ex / gw_wait_disc   time passing / the (re)transmitted DISCONNECT in either case

   Style and tactics: see ComposeSleep_aux.v. *)
From stdpp Require Import base option list numbers fin_maps nmap.
From Coq Require Import Lia ZArith ZifyN ZifyNat ZifyBool.
From RecordUpdate Require Import RecordSet.
From Verif.Base Require Import Bytes BytesProofs.
From Verif.Codec Require Import Packets Decode Encode EncodeProofs.
From Verif.Checkers Require Import ChkCodec.
From Verif.Topics Require Import Predefined.
From Verif.Gateway Require Import GwTypes GwStep GwWf.
From Verif.Match Require Import Match MatchProofs.
From Verif.Client Require Import ClTypes ClStep Sound_Client.
From Verif.System Require Import Compose RoutingProofs ComposeProofs_aux ComposeProofs2_aux ComposeLoss_aux ComposeSleep_aux.
Import RecordSetNotations.
Open Scope N_scope.
Ltac Zify.zify_post_hook ::= Z.div_mod_to_equations.

(* ------------------------------------------------------------------ the client: the DISCONNECT resend timer *)

(* the resend timer of the sleep transaction fires (retry budget not exhausted): the same DISCONNECT again, the timer
   re-armed; the transaction still awaits the gateway's DISCONNECT *)
Lemma cl_resend_fire cfg c g id n ms T sq d :
  ClSt c Active (sl_objs g (CxSleep id CtAwaitDisconnect n ms)) (sl_byt g) [tm_resend T sq g] ->
  n + 1 <= k_rcount cfg -> ms / 1000 < 65536 -> 0 < k_rdelay cfg -> cl_now c + d = T ->
  exists c', cl_step cfg c (CAdv d) = (c', [CoSn T (pack (Disconnect (ms / 1000)))]) /\
    ClSt c' Active (sl_objs g (CxSleep id CtAwaitDisconnect (n + 1) ms)) (sl_byt g)
      [tm_resend (T + k_rdelay cfg) (cl_next_seq c) g] /\
    cl_now c' = T /\ cl_handlers c' = cl_handlers c /\ cl_registered c' = cl_registered c /\ cl_next_mid c' = cl_next_mid c.
Proof.
  intros HS Hn Hdur Hrd Hd. destruct (c_advance_fuel_1 cfg c _ _ _ _ d HS) as (f & Ef).
  unfold sl_objs, sl_byt, tm_resend in HS.
  assert (En : (k_rcount cfg <? n + 1) = false) by (apply N.ltb_ge; lia).
  assert (Et : (T + k_rdelay cfg <=? T) = false) by (apply N.leb_gt; lia).
  eexists. split; [|split].
  - unfold cl_step. rewrite Ef, Hd. rewrite c_run_timers_S. bi. rws. cbn [c_min_timer]. pk. rewrite N.leb_refl. bi. pk.
    rewrite N.eqb_refl. pk.
    match goal with |- context [c_fire ?cfg0 ?s ?k] =>
      val (c_fire cfg0 s k) ltac:(unfold c_fire; pk; rws; nl; bi; rewrite En; bi; unfold c_set_obj; pk; rws;
        rewrite (insert_insert (M:=Nmap)); rewrite (u16_small (ms / 1000)) by exact Hdur;
        v_send_s ltac:(apply wf_disconnect, Hdur); bi; unfold c_arm; pk) end.
    bi. rewrite c_run_timers_S. bi. pk. rws. cbn [c_min_timer]. pk.
    rewrite Et. pk. reflexivity.
  - constructor; pk; rwcs HS; try reflexivity. apply (cs_mid _ _ _ _ _ HS).
  - repeat split.
Qed.

(* ------------------------------------------------------------------ the gateway: DISCONNECT (sleep) of a client that is asleep already *)

(* the reply is written AT ONCE (sn_send_now), not queued in the sleep buffer; the buffer is emptied *)
Lemma gw_asleep_disc cfg g buf dur : GwSt g Asleep buf -> 0 < dur < 65536 -> gw_keepalive g = 0 \/ dur <= gw_keepalive g ->
  exists g', gw_step cfg g (EvSn (pack (Disconnect dur))) = (g', [OutSn (gw_now g) (pack (Disconnect 0))]) /\
    GwSt g' Asleep [] /\ gw_frame g g'.
Proof.
  intros HG Hd Hnp.
  assert (Hd0 : (dur =? 0) = false) by (apply N.eqb_neq; lia).
  assert (Enp : negb (gw_keepalive g =? 0) && (gw_keepalive g <? dur) = false).
  { destruct Hnp as [Hk|Hk]; [rewrite Hk; reflexivity|]. apply andb_false_iff. right. apply N.ltb_ge, Hk. }
  eexists. split; [|split].
  - gsn_s (Disconnect dur) ltac:(apply wf_disconnect; lia). rewrite Hd0. bi. rewrite Enp. bi.
    unfold sn_send_now. gk. rewrite (pack_fits (Disconnect 0)) by reflexivity. unfold andthen, ok, finish_r. bi. gk.
    reflexivity.
  - constructor; gk; rwgs HG; try reflexivity. apply (gs_accepted _ _ _ HG).
  - repeat split.
Qed.

(* the gateway while the client waits for the reply: asleep already (the reply was lost), or still active and quiescent
   (the client's DISCONNECT was lost) *)
Definition GwWait (asleep : bool) (g : gw_state) : Prop := if asleep then GwSt g Asleep [] else GwQuiet g.

Lemma gw_wait_adv_ex cfg a g t : GwWait a g -> gw_now g <= t ->
  exists g1, gw_step cfg g (EvAdvance (t - gw_now g)) = (g1, []) /\ GwWait a g1 /\ gw_now g1 = t /\
    gw_client_id g1 = gw_client_id g /\ gw_keepalive g1 = gw_keepalive g.
Proof.
  intros HW Ht. destruct a; cbn [GwWait] in *.
  - destruct (gw_adv_st_ex cfg g _ _ t HW Ht) as (g1 & E & H1 & Hn & Hc & _ & Hk). exists g1. split; [exact E|]. split; [exact H1|]. split; [exact Hn|]. split; [exact Hc|exact Hk].
  - destruct (gw_adv_quiet_ex cfg g t HW Ht) as (g1 & E & H1 & Hn & Hc & _ & Hk). exists g1. split; [exact E|]. split; [exact H1|]. split; [exact Hn|]. split; [exact Hc|exact Hk].
Qed.

Lemma gw_wait_disc cfg a g dur : GwWait a g -> 0 < dur < 65536 -> gw_keepalive g = 0 \/ dur <= gw_keepalive g ->
  exists g', gw_step cfg g (EvSn (pack (Disconnect dur))) = (g', [OutSn (gw_now g) (pack (Disconnect 0))]) /\
    GwSt g' Asleep [] /\ gw_frame g g'.
Proof.
  intros HW Hd Hnp. destruct a; cbn [GwWait] in HW.
  - exact (gw_asleep_disc cfg g [] dur HW Hd Hnp).
  - exact (gw_sleep_disc cfg g dur HW Hd Hnp).
Qed.

Lemma gw_wait_deadline a g : GwWait a g -> gw_next_deadline g = None.
Proof.
  intros HW. destruct a; cbn [GwWait] in HW; [exact (gw_deadline_st _ _ _ HW)|].
  unfold gw_next_deadline. rwgq HW. reflexivity.
Qed.

Print Assumptions cl_resend_fire.
Print Assumptions gw_asleep_disc.
Print Assumptions gw_wait_adv_ex.
Print Assumptions gw_wait_disc.
