(* System/ComposeSleepQ2b.v — C26 / C11 end to end, QoS 2, continued: the SECOND sleep cycle completes the exchange
   that the first (ComposeSleepQ2.v) leaves open; over the two cycles the message is delivered to its handler exactly once.

     HeldQ2N cfg y subs pub mid Tr   HeldQ2 of ComposeSleepQ2.v and moreover: the object in which the client remembers the
                                     PUBLISH is older than the client's object counter (HeldQ2 alone does not exclude that
                                     the next Sleep transaction gets the same object number); HeldQ2N_HeldQ2
     C26_sleep_cycle_q2_message_n    C26_sleep_cycle_q2_message with the end state HeldQ2N (same hypotheses, same traces)
     e2e_second_wake_up_q2           HeldQ2N; Sleep(ms2) (nothing is sent); SAdv d2, now + ms2 < Tr, ms2 <= d2 (no upper bound):
                                     at now + ms2 the exact trace wake_trace_q2b = C2G PINGREQ (client ID); G2C PUBREL; G2C PINGRESP;
                                     the handler (QoS 2, flags and message ID of the message); C2G PUBCOMP; SoRet id2 ROk;
                                     BR MQTT PUBCOMP mid.  End state AwakeS ... []: nothing is left anywhere
     C26_qos2_message_is_delivered_once_over_two_sleep_cycles   from QuietS, [Sleep; message; SAdv d; Sleep; SAdv d2]: exact traces;
                                     ONE handler invocation overall, the broker receives [PUBREC mid; PUBCOMP mid], both Sleep
                                     calls return nil, AwakeS ... []
     two_cycles_q2_instance          concrete instance (ecfg0 / loss_y0: 5 s, 7000, 2 s, 2000)

   The component lemmas are in ComposeSleepQ2b_aux.v. *)
From stdpp Require Import base option list numbers fin_maps nmap.
From Coq Require Import Lia ZArith ZifyN ZifyNat ZifyBool.
From RecordUpdate Require Import RecordSet.
From Verif.Base Require Import Bytes BytesProofs.
From Verif.Codec Require Import Packets Decode Encode EncodeProofs.
From Verif.Checkers Require Import ChkCodec.
From Verif.Topics Require Import Predefined.
From Verif.Gateway Require Import GwTypes GwStep GwWf.
From Verif.Match Require Import Match MatchProofs.
From Verif.Client Require Import ClTypes ClStep Sound_Client.
From Verif.System Require Import Compose RoutingProofs ComposeProofs_aux ComposeProofs ComposeProofs2_aux ComposeProofs2
  ComposeLoss_aux ComposeLoss ComposeSleep_aux ComposeSleep ComposeSleepQ2_aux ComposeSleepQ2 ComposeSleepQ2b_aux.
Import RecordSetNotations.
Open Scope N_scope.
Ltac Zify.zify_post_hook ::= Z.div_mod_to_equations.

(* ------------------------------------------------------------------ 1. the first cycle once more, with the object counter *)

(* HeldQ2 of ComposeSleepQ2.v, and moreover the object in which the client remembers the PUBLISH is older than the
   client's object counter (HeldQ2 alone does not exclude that the next Sleep transaction takes the same object number;
   the states the model reaches satisfy this) *)
Definition HeldQ2N (cfg : e2e_cfg) (y : sys) (subs : list subn) (pub : packet) (mid Tr : N) : Prop :=
  (exists o2, ClSx (y_cl y) Awake (<[o2 := CxBrokerPub2 mid pub]> ∅) (<[mid := o2]> ∅) ∅ [] /\ o2 < cl_next_obj (y_cl y)) /\
  (exists o sq, GwPx (y_gw y) Asleep [(Some o, Pubrel mid)] o mid (TxBrokerPub mid 2 AwaitPubcomp (RsSn (Pubrel mid)) None 0) Tr sq) /\
  Linked cfg y /\ gw_now (y_gw y) < Tr /\ SubsIn y subs.

Lemma HeldQ2N_HeldQ2 cfg y subs pub mid Tr : HeldQ2N cfg y subs pub mid Tr -> HeldQ2 cfg y subs pub mid Tr.
Proof. intros ((o2 & HC & _) & Hr). split; [exists o2; exact HC|exact Hr]. Qed.

Lemma adv_both_wake_q2_n cfg y subs id T s dup retain mid payload Tr :
  SleepingQ2 cfg y subs id T (pub2_sn dup retain (sub_topic s) mid payload) mid Tr -> In s subs ->
  1 <= mid < 65536 -> okb payload = true -> okb (k_cid (e_cl cfg)) = true -> T < Tr -> 0 < retry_delay (e_gw cfg) ->
  nth_fault (e_c2g cfg) (y_c2g_k y) = FDeliver -> nth_fault (e_c2g cfg) (S (y_c2g_k y)) = FDeliver ->
  nth_fault (e_g2c cfg) (y_g2c_k y) = FDeliver -> nth_fault (e_g2c cfg) (S (y_g2c_k y)) = FDeliver ->
  exists y', advance_both cfg y T = (y', wake_trace_q2 cfg T id s dup retain mid payload) /\
    HeldQ2N cfg y' subs (pub2_sn dup retain (sub_topic s) mid payload) mid (T + retry_delay (e_gw cfg)) /\
    gw_now (y_gw y') = T /\ y_br y' = y_br y /\
    y_c2g_k y' = S (S (y_c2g_k y)) /\ y_g2c_k y' = S (S (y_g2c_k y)).
Proof.
  intros ((g0 & n & ms0 & sq & HC & Hg0) & (o & sq' & HD) & (Hnow & Hcid & Hbc & Heof) & HT & (Hb & Hh & Hok)) Hin Hm Hp Hokc HTr Hrd
    Hfc0 Hfc1 Hfg0 Hfg1.
  pose proof Hok as (Hf & _). rewrite Forall_forall in Hf. destruct (topic_ok_spec _ (Hf s Hin)) as (Hs & Hw & _).
  assert (Hwfp : wf_pkt (pub2_sn dup retain (sub_topic s) mid payload) = true)
    by (apply wf_pub2_sn; [assumption|assumption|lia|assumption]).
  destruct y as [c g b k1 k2 eof]. cbn [y_cl y_gw y_br y_br_eof y_c2g_k y_g2c_k] in *.
  destruct (cl_wake_fire_n (e_cl cfg) c g0 id CtSleeping n ms0 T sq (T - cl_now c) HC Hokc ltac:(lia))
    as (c1 & Ec1 & HC1 & Hc1n & Hc1h & Hc1o).
  destruct (gw_adv_px_ex (e_gw cfg) g _ _ _ _ _ _ _ T HD HT HTr) as (g1 & Eg1 & HD1 & Hg1n & Hg1c & _).
  destruct (gw_px_pingreq (e_gw cfg) g1 _ _ _ _ _ _ (k_cid (e_cl cfg)) HD1
              ltac:(constructor; [exact Hwfp|constructor]) Hokc) as (g2 & Eg2 & HD2 & (Hg2n & Hg2c & _)).
  cbn [map snd app] in Eg2.
  destruct (cl_st_bpub2_n (e_cl cfg) c1 _ _ _ _ dup retain TIT_SHORT (encode_short (sub_topic s)) mid payload HC1 Hwfp ltac:(lia))
    as (c2 & Ec2 & HC2 & (Hc2n & Hc2h & _) & Hc2o).
  destruct (cl_sx_pingresp_n (e_cl cfg) c2 _ _ _ _ _ _ _ _ _ HC2 ltac:(rewrite Hc1o; lia)) as (c3 & Ec3 & HC3 & (Hc3n & Hc3h & _) & Hc3o).
  destruct (gw_px_pubrec (e_gw cfg) g2 _ _ _ _ _ _ _ _ HD2 Hm) as (g3 & Eg3 & HD3 & (Hg3n & Hg3c & _)).
  destruct (gw_px_mqpubrel (e_gw cfg) g3 _ _ _ _ _ _ _ _ HD3) as (g4 & Eg4 & HD4 & (Hg4n & Hg4c & _)).
  cbn [app] in HD4.
  eexists. split; [|split; [|split; [|split; [|split]]]].
  - unfold advance_both. sk. rewrite Ec1. sk. rewrite Hfc0. sk. rewrite Eg1. sk.
    rewrite pump_fuel_eq. sk. rewrite Eg2. sk. rewrite Hfg0. sk. rewrite Hfg1. sk.
    unfold pub2_sn. rewrite Ec2. sk. rewrite Hfc1. sk.
    rewrite Ec3. sk. rewrite Eg3. sk. unfold broker_recv. rewrite Hbc. sk. rewrite Hbc. sk. rewrite Eg4. sk.
    unfold wake_trace_q2, pub2_sn. rewrite ?Hg3n, ?Hg2n, ?Hc2n, ?Hg1n, ?Hc1n. reflexivity.
  - unfold HeldQ2N. sk. split; [eexists; split; [exact HC3|rewrite Hc3o, Hc2o; lia]|]. split; [|split; [|split; [|split; [exact Hb|split; [|exact Hok]]]]].
    + eexists. eexists. rewrite Hg3n, Hg2n, Hg1n in HD4. exact HD4.
    + unfold Linked. sk. split; [rewrite Hc3n, Hc2n, Hc1n, Hg4n, Hg3n, Hg2n, Hg1n; reflexivity|].
      split; [rewrite Hg4c, Hg3c, Hg2c, Hg1c; exact Hcid|]. split; assumption.
    + rewrite Hg4n, Hg3n, Hg2n, Hg1n. lia.
    + sk. rewrite Hc3h, Hc2h, Hc1h. exact Hh.
  - sk. rewrite Hg4n, Hg3n, Hg2n. exact Hg1n.
  - reflexivity.
  - reflexivity.
  - reflexivity.
Qed.

(* time passing before the PUBREL retry timer *)
Lemma adv_both_held_n cfg y subs pub mid Tr t : HeldQ2N cfg y subs pub mid Tr -> gw_now (y_gw y) <= t -> t < Tr ->
  exists y', advance_both cfg y t = (y', []) /\ HeldQ2N cfg y' subs pub mid Tr /\ gw_now (y_gw y') = t /\ y_br y' = y_br y /\
    y_c2g_k y' = y_c2g_k y /\ y_g2c_k y' = y_g2c_k y.
Proof.
  intros ((o2 & HC & Ho2) & (o & sq & HD) & (Hnow & Hcid & Hbc & Heof) & HTr & (Hb & Hh & Hok)) Ht HtT.
  destruct y as [c g b k1 k2 eof]. cbn [y_cl y_gw y_br y_br_eof y_c2g_k y_g2c_k] in *.
  destruct (cl_adv_sx_n (e_cl cfg) c _ _ _ _ t HC ltac:(lia)) as (c1 & Ec & HC1 & Hcn & Hch & Hco).
  destruct (gw_adv_px_ex (e_gw cfg) g _ _ _ _ _ _ _ t HD Ht HtT) as (g1 & Eg & HD1 & Hgn & Hgc & _).
  eexists. split; [|split; [|split; [|split; [|split]]]].
  - unfold advance_both. sk. rewrite Ec. sk. rewrite Eg. sk. rewrite pump_nil. reflexivity.
  - unfold HeldQ2N. sk. split; [exists o2; split; [exact HC1|rewrite Hco; exact Ho2]|]. split; [exists o, sq; exact HD1|].
    split; [|split; [rewrite Hgn; exact HtT|split; [exact Hb|split; [|exact Hok]]]].
    + unfold Linked. sk. split; [rewrite Hcn, Hgn; reflexivity|]. split; [rewrite Hgc; exact Hcid|]. split; assumption.
    + sk. rewrite Hch. exact Hh.
  - exact Hgn.
  - reflexivity.
  - reflexivity.
  - reflexivity.
Qed.

Lemma deadline_held_n cfg y subs pub mid Tr : HeldQ2N cfg y subs pub mid Tr ->
  min_opt (cl_next_deadline (y_cl y)) (gw_next_deadline (y_gw y)) = Some Tr.
Proof.
  intros ((o2 & HC & _) & (o & sq & HD) & _).
  rewrite (cl_deadline_sx _ _ _ _ _ HC), (gw_deadline_px _ _ _ _ _ _ _ _ HD). reflexivity.
Qed.

(* SAdv d reaching the wake-up time T (before the first retransmission of the PUBLISH, T < Tr) and ending before the first
   retransmission of the PUBREL (now + d < T + RetryDelay) *)
Theorem e2e_wake_up_q2_n cfg y subs id T s dup retain mid payload Tr d :
  SleepingQ2 cfg y subs id T (pub2_sn dup retain (sub_topic s) mid payload) mid Tr -> In s subs ->
  1 <= mid < 65536 -> okb payload = true -> okb (k_cid (e_cl cfg)) = true -> T < Tr ->
  nth_fault (e_c2g cfg) (y_c2g_k y) = FDeliver -> nth_fault (e_c2g cfg) (S (y_c2g_k y)) = FDeliver ->
  nth_fault (e_g2c cfg) (y_g2c_k y) = FDeliver -> nth_fault (e_g2c cfg) (S (y_g2c_k y)) = FDeliver ->
  T <= gw_now (y_gw y) + d -> gw_now (y_gw y) + d < T + retry_delay (e_gw cfg) ->
  exists y', sys_step cfg y (SAdv d) = (y', wake_trace_q2 cfg T id s dup retain mid payload) /\
    HeldQ2N cfg y' subs (pub2_sn dup retain (sub_topic s) mid payload) mid (T + retry_delay (e_gw cfg)) /\
    gw_now (y_gw y') = gw_now (y_gw y) + d /\ y_br y' = y_br y /\
    y_c2g_k y' = S (S (y_c2g_k y)) /\ y_g2c_k y' = S (S (y_g2c_k y)).
Proof.
  intros HS Hin Hm Hp Hokc HTr Hfc0 Hfc1 Hfg0 Hfg1 Hd Hd2.
  destruct (adv_both_wake_q2_n cfg y subs id T s dup retain mid payload Tr HS Hin Hm Hp Hokc HTr ltac:(lia) Hfc0 Hfc1 Hfg0 Hfg1)
    as (y1 & E1 & HA1 & Hn1 & Hb1 & Hkc1 & Hkg1).
  pose proof HS as (_ & _ & HL & HT & _). pose proof HL as (Hnow & _).
  change (sys_step cfg y (SAdv d)) with (advance_to adv_fuel cfg y (sys_now y + d)).
  rewrite (sys_now_linked cfg y HL). destruct adv_fuel_eq as (f & ->).
  rewrite advance_to_S, (deadline_sleeping_q2 cfg y subs id T _ _ _ HS).
  assert (Emin : N.min T Tr = T) by lia. rewrite Emin.
  destruct (T <? gw_now (y_gw y) + d) eqn:Elt.
  - assert (Emax : N.max T (N.max (cl_now (y_cl y)) (gw_now (y_gw y))) = T) by lia. rewrite Emax, E1.
    rewrite advance_to_S, (deadline_held_n cfg y1 subs _ _ _ HA1).
    assert (Elt2 : (T + retry_delay (e_gw cfg) <? gw_now (y_gw y) + d) = false) by (apply N.ltb_ge; lia). rewrite Elt2.
    destruct (adv_both_held_n cfg y1 subs _ _ _ (gw_now (y_gw y) + d) HA1 ltac:(apply N.ltb_lt in Elt; lia) Hd2)
      as (y2 & E2 & HA2 & Hn2 & Hb2 & Hkc2 & Hkg2).
    rewrite E2, app_nil_r. exists y2. split; [reflexivity|]. split; [exact HA2|]. split; [exact Hn2|].
    split; [rewrite Hb2; exact Hb1|]. split; [rewrite Hkc2; exact Hkc1|rewrite Hkg2; exact Hkg1].
  - assert (gw_now (y_gw y) + d = T) as -> by (apply N.ltb_ge in Elt; lia). rewrite E1.
    exists y1. split; [reflexivity|]. split; [exact HA1|]. split; [exact Hn1|]. split; [exact Hb1|]. split; [exact Hkc1|exact Hkg1].
Qed.

Theorem C26_sleep_cycle_q2_message_n cfg y subs id ms s dup retain mid payload d :
  QuietS cfg y subs -> 1000 <= ms -> ms / 1000 < 65536 ->
  gw_keepalive (y_gw y) = 0 \/ ms / 1000 <= gw_keepalive (y_gw y) ->
  ms < retry_delay (e_gw cfg) ->
  In s subs -> 1 <= mid < 65536 -> okb payload = true -> okb (k_cid (e_cl cfg)) = true ->
  (forall i, (i <= 2)%nat -> nth_fault (e_c2g cfg) (y_c2g_k y + i) = FDeliver) ->
  (forall i, (i <= 2)%nat -> nth_fault (e_g2c cfg) (y_g2c_k y + i) = FDeliver) ->
  ms <= d -> d < ms + retry_delay (e_gw cfg) ->
  let t := gw_now (y_gw y) in
  let m := MqPublish dup 2 retain (sub_topic s) mid payload in
  exists y', sys_run cfg y [SCall id (ASleep ms); SBpub m; SAdv d] =
    ([[SoC2G t FDeliver (pack (Disconnect (ms / 1000))); SoG2C t FDeliver (pack (Disconnect 0))];
      [SoBS t m];
      wake_trace_q2 cfg (t + ms) id s dup retain mid payload], y') /\
    HeldQ2N cfg y' subs (pub2_sn dup retain (sub_topic s) mid payload) mid (t + ms + retry_delay (e_gw cfg)) /\
    gw_now (y_gw y') = t + d /\ y_br y' = y_br y /\
    y_c2g_k y' = (y_c2g_k y + 3)%nat /\ y_g2c_k y' = (y_g2c_k y + 3)%nat.
Proof.
  intros HQ Hms Hdur Hnp Hrd Hin Hm Hp Hokc Hfc Hfg Hd Hd2 t m. subst t m.
  assert (Hc : forall i k, (i <= 2)%nat -> k = (y_c2g_k y + i)%nat -> nth_fault (e_c2g cfg) k = FDeliver)
    by (intros i k Hi ->; exact (Hfc i Hi)).
  assert (Hg : forall i k, (i <= 2)%nat -> k = (y_g2c_k y + i)%nat -> nth_fault (e_g2c cfg) k = FDeliver)
    by (intros i k Hi ->; exact (Hfg i Hi)).
  destruct (e2e_sleep_call_n cfg y subs id ms HQ Hms Hdur Hnp (Hc 0%nat (y_c2g_k y) ltac:(lia) ltac:(lia))
              (Hg 0%nat (y_g2c_k y) ltac:(lia) ltac:(lia)))
    as (y1 & E1 & HS1 & Hn1 & Hb1 & Hkc1 & Hkg1).
  destruct (e2e_bpub_while_asleep_q2 cfg y1 subs id _ s dup retain mid payload HS1 Hin)
    as (y2 & E2 & HS2 & Hn2 & Hb2 & Hkc2 & Hkg2).
  destruct (e2e_wake_up_q2_n cfg y2 subs id _ s dup retain mid payload _ d HS2 Hin Hm Hp Hokc)
    as (y3 & E3 & HA3 & Hn3 & Hb3 & Hkc3 & Hkg3).
  - rewrite Hn1. lia.
  - rewrite Hkc2, Hkc1. exact (Hc 1%nat (S (y_c2g_k y)) ltac:(lia) ltac:(lia)).
  - rewrite Hkc2, Hkc1. exact (Hc 2%nat (S (S (y_c2g_k y))) ltac:(lia) ltac:(lia)).
  - rewrite Hkg2, Hkg1. exact (Hg 1%nat (S (y_g2c_k y)) ltac:(lia) ltac:(lia)).
  - rewrite Hkg2, Hkg1. exact (Hg 2%nat (S (S (y_g2c_k y))) ltac:(lia) ltac:(lia)).
  - rewrite Hn2, Hn1. lia.
  - rewrite Hn2, Hn1. lia.
  - exists y3. split; [|split; [exact HA3|split; [rewrite Hn3, Hn2, Hn1; reflexivity|split; [rewrite Hb3, Hb2; exact Hb1|split]]]].
    + cbn [sys_run]. rewrite E1, E2, E3, Hn1. reflexivity.
    + rewrite Hkc3, Hkc2, Hkc1. lia.
    + rewrite Hkg3, Hkg2, Hkg1. lia.
Qed.

(* the client's outputs of a PUBREL: the handler invocation (if a handler matches), then the PUBCOMP datagram *)
Lemma cl_outs_app_cb cfg y c topic payload q retain dup mid dg :
  cl_outs cfg y (cb_out c topic payload q retain dup mid ++ [CoSn (cl_now c) dg]) =
  (let '(y1, tr1, w1) := cl_outs cfg y [CoSn (cl_now c) dg] in
   (y1, match handle_set (cl_handlers c) topic with
        | sub :: _ => [SoCb (cl_now c) sub topic payload q retain dup mid]
        | [] => []
        end ++ tr1, w1)).
Proof. unfold cb_out. destruct (handle_set (cl_handlers c) topic); reflexivity. Qed.

(* ------------------------------------------------------------------ 2. the second Sleep and its wake-up *)

(* Sleep in the held state: nothing is sent *)
Definition SleepingH (cfg : e2e_cfg) (y : sys) (subs : list subn) (id T : N) (pub : packet) (mid Tr : N) : Prop :=
  (exists g n ms sq o2, ClSx (y_cl y) Asleep (sl2_objs g (CxSleep id CtSleeping n ms) o2 (CxBrokerPub2 mid pub)) (<[mid := o2]> ∅)
                      (sl_byt g) [tm_wake T sq g] /\ o2 <> g) /\
  (exists o sq, GwPx (y_gw y) Asleep [(Some o, Pubrel mid)] o mid (TxBrokerPub mid 2 AwaitPubcomp (RsSn (Pubrel mid)) None 0) Tr sq) /\
  Linked cfg y /\ gw_now (y_gw y) <= T /\ SubsIn y subs.

Lemma e2e_sleep_again_held cfg y subs pub mid Tr id ms : HeldQ2N cfg y subs pub mid Tr ->
  exists y', sys_step cfg y (SCall id (ASleep ms)) = (y', []) /\
    SleepingH cfg y' subs id (gw_now (y_gw y) + ms) pub mid Tr /\
    gw_now (y_gw y') = gw_now (y_gw y) /\ y_br y' = y_br y /\ y_c2g_k y' = y_c2g_k y /\ y_g2c_k y' = y_g2c_k y.
Proof.
  intros ((o2 & HC & Ho2) & HD & (Hnow & Hcid & Hbc & Heof) & HTr & (Hb & Hh & Hok)).
  destruct y as [c g b k1 k2 eof]. cbn [y_cl y_gw y_br y_br_eof y_c2g_k y_g2c_k] in *.
  destruct (cl_sx_sleep_again (e_cl cfg) c _ _ _ id ms HC) as (c1 & Ec1 & HC1 & (Hcn & Hch & _)).
  eexists. split; [|split; [|split; [|split; [|split]]]].
  - unfold sys_step. sk. rewrite Ec1. sk. rewrite pump_nil. reflexivity.
  - unfold SleepingH. sk. split; [|split; [exact HD|split; [|split; [lia|split; [exact Hb|split; [|exact Hok]]]]]].
    + eexists. eexists. eexists. eexists. exists o2. split; [rewrite <- Hnow; exact HC1|lia].
    + unfold Linked. sk. split; [rewrite Hcn; exact Hnow|]. split; [exact Hcid|]. split; assumption.
    + sk. rewrite Hch. exact Hh.
  - reflexivity.
  - reflexivity.
  - reflexivity.
  - reflexivity.
Qed.

(* what the model produces at the second wake-up: PINGREQ (client ID); the gateway flushes PUBREL and sends PINGRESP; the
   client runs the handler - now - and answers PUBCOMP, then takes the PINGRESP: Sleep returns nil; the gateway (asleep
   again) relays PUBCOMP to the broker *)
Definition wake_trace_q2b (cfg : e2e_cfg) (T id : N) (s : subn) (dup retain : bool) (mid : N) (payload : bytes) : list sys_out :=
  [SoC2G T FDeliver (pack (Pingreq (k_cid (e_cl cfg))));
   SoG2C T FDeliver (pack (Pubrel mid));
   SoG2C T FDeliver (pack Pingresp);
   SoCb T (sub_id s) (sub_topic s) payload 2 retain dup mid;
   SoC2G T FDeliver (pack (Pubcomp mid));
   SoRet T id ROk;
   SoBR T (MqPubcomp mid)].

Lemma adv_both_wake_q2b cfg y subs id T s dup retain mid payload Tr :
  SleepingH cfg y subs id T (pub2_sn dup retain (sub_topic s) mid payload) mid Tr -> In s subs ->
  1 <= mid < 65536 -> okb (k_cid (e_cl cfg)) = true -> T < Tr ->
  nth_fault (e_c2g cfg) (y_c2g_k y) = FDeliver -> nth_fault (e_c2g cfg) (S (y_c2g_k y)) = FDeliver ->
  nth_fault (e_g2c cfg) (y_g2c_k y) = FDeliver -> nth_fault (e_g2c cfg) (S (y_g2c_k y)) = FDeliver ->
  exists y', advance_both cfg y T = (y', wake_trace_q2b cfg T id s dup retain mid payload) /\
    AwakeS cfg y' subs [] /\ gw_now (y_gw y') = T /\ y_br y' = y_br y /\
    y_c2g_k y' = S (S (y_c2g_k y)) /\ y_g2c_k y' = S (S (y_g2c_k y)).
Proof.
  intros ((g0 & n & ms0 & sq & o2 & HC & Hne) & (o & sq' & HD) & (Hnow & Hcid & Hbc & Heof) & HT & (Hb & Hh & Hok)) Hin Hm Hokc HTr
    Hfc0 Hfc1 Hfg0 Hfg1.
  pose proof Hok as (Hf & _). rewrite Forall_forall in Hf. destruct (topic_ok_spec _ (Hf s Hin)) as (Hs & Hw & _).
  destruct (wf_mid3 mid ltac:(lia)) as (_ & Hwrel & _).
  destruct y as [c g b k1 k2 eof]. cbn [y_cl y_gw y_br y_br_eof y_c2g_k y_g2c_k] in *.
  destruct (cl_sx_wake_fire (e_cl cfg) c g0 id CtSleeping n ms0 _ _ _ T sq (T - cl_now c) HC Hokc ltac:(lia))
    as (c1 & Ec1 & HC1 & Hc1n & Hc1h & Hc1r).
  destruct (gw_adv_px_ex (e_gw cfg) g _ _ _ _ _ _ _ T HD HT HTr) as (g1 & Eg1 & HD1 & Hg1n & Hg1c & _).
  destruct (gw_px_pingreq (e_gw cfg) g1 _ _ _ _ _ _ (k_cid (e_cl cfg)) HD1
              ltac:(constructor; [exact Hwrel|constructor]) Hokc) as (g2 & Eg2 & HD2 & (Hg2n & Hg2c & _)).
  cbn [map snd app] in Eg2.
  destruct (cl_sx_pubrel (e_cl cfg) c1 g0 _ o2 dup 2 retain TIT_SHORT (encode_short (sub_topic s)) mid mid payload (sub_topic s) _
              HC1 Hne ltac:(constructor; [reflexivity|constructor])
              ltac:(unfold topic_for_publish; cbn [N.eqb Pos.eqb TIT_SHORT TIT_REGISTERED TIT_PREDEFINED];
                    rewrite (decode_encode_short _ Hs Hw); reflexivity) ltac:(lia))
    as (c2 & Ec2 & HC2 & (Hc2n & Hc2h & _)).
  destruct (cl_ww_pingresp (e_cl cfg) c2 _ _ _ _ _ _ HC2) as (c3 & Ec3 & HC3 & (Hc3n & Hc3h & _) & _).
  destruct (gw_px_pubcomp (e_gw cfg) g2 _ _ _ _ _ _ _ HD2 Hm) as (g3 & Eg3 & HG3 & (Hg3n & Hg3c & _)).
  eexists. split; [|split; [|split; [|split; [|split]]]].
  - unfold advance_both. sk. rewrite Ec1. sk. rewrite Hfc0. sk. rewrite Eg1. sk.
    rewrite pump_fuel_eq. sk. rewrite Eg2. sk. rewrite Hfg0. sk. rewrite Hfg1. sk.
    rewrite Ec2. rewrite cl_outs_app_cb. sk. rewrite Hfc1. sk.
    rewrite Ec3. sk. rewrite Eg3. sk. unfold broker_recv. rewrite Hbc. sk. rewrite Hbc. sk.
    rewrite Hc1h, Hh, (handle_set_subs subs s Hok Hin).
    unfold wake_trace_q2b. rewrite ?Hg2n, ?Hc2n, ?Hg1n, ?Hc1n. reflexivity.
  - unfold AwakeS. sk. split; [exact HC3|]. split; [exact HG3|]. split; [|split; [exact Hb|split; [|exact Hok]]].
    + unfold Linked. sk. split; [rewrite Hc3n, Hc2n, Hc1n, Hg3n, Hg2n, Hg1n; reflexivity|].
      split; [rewrite Hg3c, Hg2c, Hg1c; exact Hcid|]. split; assumption.
    + sk. rewrite Hc3h, Hc2h, Hc1h. exact Hh.
  - sk. rewrite Hg3n, Hg2n. exact Hg1n.
  - reflexivity.
  - reflexivity.
  - reflexivity.
Qed.

Lemma deadline_sleeping_h cfg y subs id T pub mid Tr : SleepingH cfg y subs id T pub mid Tr ->
  min_opt (cl_next_deadline (y_cl y)) (gw_next_deadline (y_gw y)) = Some (N.min T Tr).
Proof.
  intros ((g0 & n & ms0 & sq & o2 & HC & _) & (o & sq' & HD) & _).
  rewrite (gw_deadline_px _ _ _ _ _ _ _ _ HD). unfold cl_next_deadline. rwcx HC. reflexivity.
Qed.

(* The second Sleep (the client is awake: nothing is sent) and SAdv d2 reaching its wake-up, which comes before the PUBREL
   retry timer Tr: the exchange completes - the handler runs exactly once, the broker receives PUBCOMP; no upper bound on d2 *)
Theorem e2e_second_wake_up_q2 cfg y subs s dup retain mid payload Tr id2 ms2 d2 :
  HeldQ2N cfg y subs (pub2_sn dup retain (sub_topic s) mid payload) mid Tr -> In s subs ->
  1 <= mid < 65536 -> okb (k_cid (e_cl cfg)) = true ->
  gw_now (y_gw y) + ms2 < Tr -> ms2 <= d2 ->
  nth_fault (e_c2g cfg) (y_c2g_k y) = FDeliver -> nth_fault (e_c2g cfg) (S (y_c2g_k y)) = FDeliver ->
  nth_fault (e_g2c cfg) (y_g2c_k y) = FDeliver -> nth_fault (e_g2c cfg) (S (y_g2c_k y)) = FDeliver ->
  let t := gw_now (y_gw y) in
  exists y', sys_run cfg y [SCall id2 (ASleep ms2); SAdv d2] =
    ([[]; wake_trace_q2b cfg (t + ms2) id2 s dup retain mid payload], y') /\
    AwakeS cfg y' subs [] /\ gw_now (y_gw y') = t + d2 /\ y_br y' = y_br y /\
    y_c2g_k y' = S (S (y_c2g_k y)) /\ y_g2c_k y' = S (S (y_g2c_k y)).
Proof.
  intros HH Hin Hm Hokc HTr Hd Hfc0 Hfc1 Hfg0 Hfg1 t. subst t.
  destruct (e2e_sleep_again_held cfg y subs _ mid Tr id2 ms2 HH) as (y1 & E1 & HS1 & Hn1 & Hb1 & Hkc1 & Hkg1).
  set (T := gw_now (y_gw y) + ms2) in *.
  destruct (adv_both_wake_q2b cfg y1 subs id2 T s dup retain mid payload Tr HS1 Hin Hm Hokc HTr)
    as (y2 & E2 & HA2 & Hn2 & Hb2 & Hkc2 & Hkg2);
    [rewrite Hkc1; exact Hfc0|rewrite Hkc1; exact Hfc1|rewrite Hkg1; exact Hfg0|rewrite Hkg1; exact Hfg1|].
  pose proof HS1 as (_ & _ & HL & HT & _). pose proof HL as (Hnow & _).
  assert (Estep : exists y3, sys_step cfg y1 (SAdv d2) = (y3, wake_trace_q2b cfg T id2 s dup retain mid payload) /\
            AwakeS cfg y3 subs [] /\ gw_now (y_gw y3) = gw_now (y_gw y1) + d2 /\ y_br y3 = y_br y1 /\
            y_c2g_k y3 = S (S (y_c2g_k y1)) /\ y_g2c_k y3 = S (S (y_g2c_k y1))).
  { change (sys_step cfg y1 (SAdv d2)) with (advance_to adv_fuel cfg y1 (sys_now y1 + d2)).
    rewrite (sys_now_linked cfg y1 HL). destruct adv_fuel_eq as (f & ->).
    rewrite advance_to_S, (deadline_sleeping_h cfg y1 subs id2 T _ _ _ HS1).
    assert (Emin : N.min T Tr = T) by lia. rewrite Emin.
    destruct (T <? gw_now (y_gw y1) + d2) eqn:Elt.
    - assert (Emax : N.max T (N.max (cl_now (y_cl y1)) (gw_now (y_gw y1))) = T) by lia. rewrite Emax, E2.
      rewrite (adv_to_awake cfg y2 subs [] _ f HA2).
      destruct (adv_both_awake cfg y2 subs [] (gw_now (y_gw y1) + d2) HA2 ltac:(apply N.ltb_lt in Elt; lia))
        as (y3 & E3 & HA3 & Hn3 & Hb3 & Hkc3 & Hkg3).
      rewrite E3, app_nil_r. exists y3. split; [reflexivity|]. split; [exact HA3|]. split; [exact Hn3|].
      split; [rewrite Hb3; exact Hb2|]. split; [rewrite Hkc3; exact Hkc2|rewrite Hkg3; exact Hkg2].
    - assert (gw_now (y_gw y1) + d2 = T) as -> by (apply N.ltb_ge in Elt; unfold T in *; lia). rewrite E2.
      exists y2. split; [reflexivity|]. split; [exact HA2|]. split; [exact Hn2|]. split; [exact Hb2|]. split; [exact Hkc2|exact Hkg2]. }
  destruct Estep as (y3 & E3 & HA3 & Hn3 & Hb3 & Hkc3 & Hkg3).
  exists y3. split; [|split; [exact HA3|split; [rewrite Hn3, Hn1; reflexivity|split; [rewrite Hb3; exact Hb1|split]]]].
  - cbn [sys_run]. rewrite E1, E3. reflexivity.
  - rewrite Hkc3, Hkc1. reflexivity.
  - rewrite Hkg3, Hkg1. reflexivity.
Qed.

(* ------------------------------------------------------------------ 3. two sleep cycles deliver the QoS 2 message once *)

Lemma wake_trace_q2b_facts cfg T id s dup retain mid payload :
  cbs_full (wake_trace_q2b cfg T id s dup retain mid payload) = [(sub_id s, sub_topic s, payload, 2, retain, dup, mid)] /\
  rets_of (wake_trace_q2b cfg T id s dup retain mid payload) = [(id, ROk)] /\
  brs_of (wake_trace_q2b cfg T id s dup retain mid payload) = [MqPubcomp mid].
Proof. repeat split. Qed.

Theorem C26_qos2_message_is_delivered_once_over_two_sleep_cycles cfg y subs id ms s dup retain mid payload d id2 ms2 d2 :
  QuietS cfg y subs -> 1000 <= ms -> ms / 1000 < 65536 ->
  gw_keepalive (y_gw y) = 0 \/ ms / 1000 <= gw_keepalive (y_gw y) ->
  ms < retry_delay (e_gw cfg) ->
  In s subs -> 1 <= mid < 65536 -> okb payload = true -> okb (k_cid (e_cl cfg)) = true ->
  (forall i, (i <= 4)%nat -> nth_fault (e_c2g cfg) (y_c2g_k y + i) = FDeliver) ->
  (forall i, (i <= 4)%nat -> nth_fault (e_g2c cfg) (y_g2c_k y + i) = FDeliver) ->
  ms <= d -> d + ms2 < ms + retry_delay (e_gw cfg) -> ms2 <= d2 ->
  let t := gw_now (y_gw y) in
  let m := MqPublish dup 2 retain (sub_topic s) mid payload in
  exists oss y', sys_run cfg y [SCall id (ASleep ms); SBpub m; SAdv d; SCall id2 (ASleep ms2); SAdv d2] = (oss, y') /\
    oss = [[SoC2G t FDeliver (pack (Disconnect (ms / 1000))); SoG2C t FDeliver (pack (Disconnect 0))];
           [SoBS t m];
           wake_trace_q2 cfg (t + ms) id s dup retain mid payload;
           [];
           wake_trace_q2b cfg (t + d + ms2) id2 s dup retain mid payload] /\
    cbs_full (concat oss) = [(sub_id s, sub_topic s, payload, 2, retain, dup, mid)] /\
    brs_of (concat oss) = [MqPubrec mid; MqPubcomp mid] /\
    rets_of (concat oss) = [(id, ROk); (id2, ROk)] /\
    AwakeS cfg y' subs [] /\ gw_now (y_gw y') = t + d + d2 /\ y_br y' = y_br y.
Proof.
  intros HQ Hms Hdur Hnp Hrd Hin Hm Hp Hokc Hfc Hfg Hd Hd2 Hd3 t m. subst t m.
  destruct (C26_sleep_cycle_q2_message_n cfg y subs id ms s dup retain mid payload d HQ Hms Hdur Hnp Hrd Hin Hm Hp Hokc
              ltac:(intros i Hi; apply Hfc; lia) ltac:(intros i Hi; apply Hfg; lia) Hd ltac:(lia))
    as (y1 & E1 & HH1 & Hn1 & Hb1 & Hkc1 & Hkg1).
  destruct (e2e_second_wake_up_q2 cfg y1 subs s dup retain mid payload _ id2 ms2 d2 HH1 Hin Hm Hokc ltac:(rewrite Hn1; lia) Hd3)
    as (y2 & E2 & HA2 & Hn2 & Hb2 & _).
  - rewrite Hkc1. exact (Hfc 3%nat ltac:(lia)).
  - rewrite Hkc1. rewrite <- (Hfc 4%nat ltac:(lia)). f_equal. lia.
  - rewrite Hkg1. exact (Hfg 3%nat ltac:(lia)).
  - rewrite Hkg1. rewrite <- (Hfg 4%nat ltac:(lia)). f_equal. lia.
  - eexists. exists y2. split; [|split; [reflexivity|split; [reflexivity|split; [reflexivity|split; [reflexivity|
      split; [exact HA2|split; [rewrite Hn2, Hn1; reflexivity|rewrite Hb2; exact Hb1]]]]]]].
    change [SCall id (ASleep ms); SBpub (MqPublish dup 2 retain (sub_topic s) mid payload); SAdv d; SCall id2 (ASleep ms2); SAdv d2]
      with ([SCall id (ASleep ms); SBpub (MqPublish dup 2 retain (sub_topic s) mid payload); SAdv d] ++ [SCall id2 (ASleep ms2); SAdv d2]).
    rewrite (sys_run_app cfg _ _ _ _ _ _ _ E1 E2). rewrite Hn1. reflexivity.
Qed.

(* ------------------------------------------------------------------ 4. a concrete instance *)

(* ecfg0 after Connect and Subscribe "ab": Sleep(5 s), the QoS 2 message, 7 s pass, Sleep(2 s), 2 s pass *)
Example two_cycles_q2_instance :
  exists y', sys_run ecfg0 loss_y0 [SCall 3 (ASleep 5000); SBpub q2_m; SAdv 7000; SCall 4 (ASleep 2000); SAdv 2000] =
    ([[SoC2G 0 FDeliver [4; 24; 0; 5]; SoG2C 0 FDeliver [2; 24]];
      [SoBS 0 q2_m];
      [SoC2G 5000 FDeliver [4; 22; 99; 49]; SoG2C 5000 FDeliver [8; 12; 66; 97; 98; 3; 232; 7]; SoG2C 5000 FDeliver [2; 23];
       SoC2G 5000 FDeliver [4; 15; 3; 232]; SoRet 5000 3 ROk; SoBR 5000 (MqPubrec 1000); SoBS 5000 (MqPubrel 1000)];
      [];
      [SoC2G 9000 FDeliver [4; 22; 99; 49]; SoG2C 9000 FDeliver [4; 16; 3; 232]; SoG2C 9000 FDeliver [2; 23];
       SoCb 9000 2 [97; 98] [7] 2 false false 1000; SoC2G 9000 FDeliver [4; 14; 3; 232]; SoRet 9000 4 ROk;
       SoBR 9000 (MqPubcomp 1000)]], y') /\
    AwakeS ecfg0 y' [loss_sub] [] /\ gw_now (y_gw y') = 9000.
Proof.
  destruct (C26_qos2_message_is_delivered_once_over_two_sleep_cycles ecfg0 loss_y0 [loss_sub] 3 5000 loss_sub false false 1000 [7]
              7000 4 2000 2000) as (oss & y' & E & Eo & _ & _ & _ & HA & Hn & _).
  - exact loss_y0_quiet.
  - lia.
  - lia.
  - right. vm_compute. intros H. discriminate H.
  - vm_compute. reflexivity.
  - left. reflexivity.
  - lia.
  - reflexivity.
  - reflexivity.
  - intros i _. apply nth_fault_nil.
  - intros i _. apply nth_fault_nil.
  - lia.
  - vm_compute. reflexivity.
  - lia.
  - subst oss. exists y'. split; [exact E|split; [exact HA|rewrite Hn; vm_compute; reflexivity]].
Qed.

(* ------------------------------------------------------------------ 5. assumptions *)

Print Assumptions HeldQ2N_HeldQ2.
Print Assumptions C26_sleep_cycle_q2_message_n.
Print Assumptions e2e_second_wake_up_q2.
Print Assumptions C26_qos2_message_is_delivered_once_over_two_sleep_cycles.
Print Assumptions two_cycles_q2_instance.
