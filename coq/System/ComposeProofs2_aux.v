(* System/ComposeProofs2_aux.v — component lemmas for System/ComposeProofs2.v: what the client
   library model (cl_step) and the gateway model (gw_step) do, each on its own, in the exchanges
   SUBSCRIBE (short topic name) and broker PUBLISH (short topic name, QoS 0 / 1), started in a
   quiescent connected state (ClQuiet / GwQuiet of ComposeProofs_aux.v); and the facts about the
   handler table and the broker's subscription table for filters without wildcard characters.
   Style and tactics: see ComposeProofs_aux.v. *)
From stdpp Require Import base option list numbers fin_maps nmap.
From Coq Require Import Lia ZArith ZifyN ZifyNat ZifyBool.
From RecordUpdate Require Import RecordSet.
From Verif.Base Require Import Bytes BytesProofs.
From Verif.Codec Require Import Packets Decode Encode EncodeProofs.
From Verif.Checkers Require Import ChkCodec.
From Verif.Topics Require Import Predefined.
From Verif.Gateway Require Import GwTypes GwStep GwWf.
From Verif.Match Require Import Match MatchProofs.
From Verif.Client Require Import ClTypes ClStep Sound_Client.
From Verif.System Require Import Compose RoutingProofs ComposeProofs_aux.
Import RecordSetNotations.
Open Scope N_scope.
Ltac Zify.zify_post_hook ::= Z.div_mod_to_equations.

(* ------------------------------------------------------------------ packets *)

Lemma wf_sub_short q t mid :
  q < 4 -> is_short_topic t = true -> wf_bytes t -> mid < 65536 ->
  wf_pkt (Subscribe false q TIT_SHORT mid (encode_short t) []) = true.
Proof.
  intros Hq Hs Hw Hm. cbn [wf_pkt]. unfold lt16, TIT_SHORT.
  pose proof (encode_short_lt t Hs Hw) as He.
  change (2 =? 0) with false. change (len (@nil N) =? 0) with true. change ((2 =? 1) || (2 =? 2)) with true.
  cbv iota. repeat (apply andb_true_iff; split); try reflexivity; apply N.ltb_lt; assumption.
Qed.

Lemma wf_suback q mid : q < 4 -> mid < 65536 -> wf_pkt (Suback q 0 mid RC_ACCEPTED) = true.
Proof.
  intros Hq Hm. cbn [wf_pkt]. unfold lt16, lt8, RC_ACCEPTED.
  repeat (apply andb_true_iff; split); try reflexivity; apply N.ltb_lt; assumption.
Qed.

Lemma wf_puback_short t mid : is_short_topic t = true -> wf_bytes t -> mid < 65536 ->
  wf_pkt (Puback (encode_short t) mid RC_ACCEPTED) = true.
Proof.
  intros Hs Hw Hm. pose proof (encode_short_lt t Hs Hw) as He.
  cbn [wf_pkt]. unfold lt16, lt8, RC_ACCEPTED.
  repeat (apply andb_true_iff; split); try reflexivity; apply N.ltb_lt; assumption.
Qed.

(* ------------------------------------------------------------------ the client library *)

(* Kernel-friendly variants of v_finish / ccomplete of ComposeProofs_aux.v: the scrutinee of a match
   is replaced by its value (a separately proven equation) BEFORE cbn sees the match, so that the
   branches not taken are never normalised (their conversion check at Qed is what takes the time). *)
Ltac res_objs := match goal with |- context [cl_objs ?s0 !! ?g0] =>
  let E := fresh "E" in eassert (E : cl_objs s0 !! g0 = _) by (pk; apply Nl_ins); rewrite E; clear E end.
Ltac res_canc := match goal with |- context [cl_cancelled ?s0] =>
  let E := fresh "E" in assert (E : cl_cancelled s0 = None) by (pk; rw; reflexivity); rewrite E; clear E end.
Ltac v_finish2 :=
  match goal with |- context [c_finish_obj ?s ?g] =>
    val (c_finish_obj s g) ltac:(unfold c_finish_obj; res_objs; bi; unfold c_disarm; pk; rewrite ?N.eqb_refl; pk) end.
(* complete, by value (the surrounding cl_step duplicates the state it returns) *)
Ltac v_complete :=
  match goal with |- context [complete ?cfg ?s ?g ?t ?r ?b] =>
    val (complete cfg s g t r b) ltac:(unfold complete; v_finish2; bi; res_canc; bi; pk; unfold ret; pk) end.
(* the shell of cl_step around a datagram pack p from the gateway; handle_packet by value (tac
   evaluates its body), then the end of cl_step *)
Ltac cgw_shell p Hwf := unfold cl_step; bi; pk; rw; bi; rewrite (read_pack_roundtrip p) by Hwf; bi.
Ltac v_handle tac :=
  match goal with |- context [handle_packet ?cfg ?s ?p] =>
    val (handle_packet cfg s p) ltac:(unfold handle_packet; bi; tac) end.
Ltac cgw_end := bi; res_canc; bi.
Ltac by_id := unfold c_get_id, c_get_type; pk; nl; bi; pk; nl; bi; pk.

(* Subscribe on a short topic name: SUBSCRIBE out, SUBACK in, the call returns nil and the
   handler is stored under the topic's route (replacing a handler stored under the same key) *)
Lemma cl_sub cfg c id topic q qg :
  ClQuiet c -> is_short_topic topic = true -> wf_bytes topic -> q < 4 -> qg < 4 ->
  exists c1 c', cl_step cfg c (CCall id (ASubscribe topic q)) =
             (c1, [CoSn (cl_now c) (pack (Subscribe false q TIT_SHORT (cl_next_mid c) (encode_short topic) []))]) /\
    cl_step cfg c1 (CGw (pack (Suback qg 0 (cl_next_mid c) RC_ACCEPTED))) = (c', [CoRet (cl_now c) id ROk]) /\
    ClQuiet c' /\ cl_now c' = cl_now c /\ cl_registered c' = cl_registered c /\
    cl_handlers c' = tbl_store (cl_handlers c) (split topic) id.
Proof.
  intros HQ Hs Hw Hq Hqg. pose proof (cq_mid _ HQ) as Hmid.
  eexists. eexists. split; [|split; [|split]].
  - ccall. rewrite (short_len_nz topic Hs), Hs. bi. unfold call_simple, c_next_mid. pk.
    v_start_retry ltac:(apply wf_sub_short; [assumption|assumption|assumption|lia]). bi. pk. rw. reflexivity.
  - cgw_shell (Suback qg 0 (cl_next_mid c) RC_ACCEPTED) ltac:(apply wf_suback; [assumption|lia]).
    v_handle ltac:(by_id; unfold topic_name_of; pk; rewrite (decode_encode_short topic Hs Hw); bi; v_complete).
    cgw_end. reflexivity.
  - cl_quiet HQ. apply next_mid_range, Hmid.
  - pk. repeat split.
Qed.

(* a PUBLISH of the gateway on a short topic name, QoS 0: the callback of the first matching handler
   (if any) is invoked; nothing is sent *)
Definition cb_out (c : cl_state) (topic payload : bytes) (q : N) (retain dup : bool) (mid : N) : list cl_out :=
  match handle_set (cl_handlers c) topic with
  | sub :: _ => [CoCb (cl_now c) sub topic payload q retain dup mid]
  | [] => []
  end.

Lemma cl_bpub0 cfg c dup retain topic mid payload :
  ClQuiet c -> is_short_topic topic = true -> wf_bytes topic -> mid < 65536 -> okb payload = true ->
  exists c', cl_step cfg c (CGw (pack (Publish dup 0 retain TIT_SHORT (encode_short topic) mid payload))) =
             (c', cb_out c topic payload 0 retain dup mid) /\
    ClQuiet c' /\ cl_frame c c' /\ cl_next_mid c' = cl_next_mid c.
Proof.
  intros HQ Hs Hw Hm Hp. eexists. split; [|split; [|split]].
  - cgw_shell (Publish dup 0 retain TIT_SHORT (encode_short topic) mid payload)
      ltac:(apply wf_pub_short; [lia|assumption|assumption|assumption|assumption]).
    v_handle ltac:(pk; unfold topic_for_publish; pk; rewrite (decode_encode_short topic Hs Hw); bi;
                   unfold dispatch; pk).
    cgw_end. reflexivity.
  - cl_quiet HQ.
  - repeat split.
  - reflexivity.
Qed.

(* ... QoS 1: PUBACK out, then the callback *)
Lemma cl_bpub1 cfg c dup retain topic mid payload :
  ClQuiet c -> is_short_topic topic = true -> wf_bytes topic -> mid < 65536 -> okb payload = true ->
  exists c', cl_step cfg c (CGw (pack (Publish dup 1 retain TIT_SHORT (encode_short topic) mid payload))) =
             (c', CoSn (cl_now c) (pack (Puback (encode_short topic) mid RC_ACCEPTED)) ::
                  cb_out c topic payload 1 retain dup mid) /\
    ClQuiet c' /\ cl_frame c c' /\ cl_next_mid c' = cl_next_mid c.
Proof.
  intros HQ Hs Hw Hm Hp. eexists. split; [|split; [|split]].
  - cgw_shell (Publish dup 1 retain TIT_SHORT (encode_short topic) mid payload)
      ltac:(apply wf_pub_short; [lia|assumption|assumption|assumption|assumption]).
    v_handle ltac:(pk;
      match goal with |- context [c_send ?s ?p] =>
        val (c_send s p) ltac:(unfold c_send; pk; rw; bi;
                               rewrite (pack_fits p) by (apply wf_puback_short; assumption); bi; pk) end;
      bi; unfold topic_for_publish; pk; rewrite (decode_encode_short topic Hs Hw); bi; unfold dispatch; pk).
    cgw_end. reflexivity.
  - cl_quiet HQ.
  - repeat split.
  - reflexivity.
Qed.

(* ------------------------------------------------------------------ the gateway session *)

Lemma sn_send_active s p : gw_st s = Active -> wf_pkt p = true ->
  sn_send s p = (s, [OutSn (gw_now s) (pack p)], HOk).
Proof. unfold sn_send, sn_send_owned, ok. intros -> Hw. rewrite (pack_fits p Hw). reflexivity. Qed.

(* SUBSCRIBE (short topic name): MQTT SUBSCRIBE to the broker; the broker's SUBACK (one granted QoS)
   is answered with SUBACK (that QoS, topic ID 0, accepted) *)
Lemma gw_sub cfg g topic q mid :
  GwQuiet g -> is_short_topic topic = true -> wf_bytes topic -> q <= 2 -> 1 <= mid < 65536 ->
  exists g1 g', gw_step cfg g (EvSn (pack (Subscribe false q TIT_SHORT mid (encode_short topic) []))) =
             (g1, [OutMq (gw_now g) (MqSubscribe mid false [(topic, q)])]) /\
    gw_step cfg g1 (EvMq (MqSuback mid [q])) = (g', [OutSn (gw_now g) (pack (Suback q 0 mid RC_ACCEPTED))]) /\
    GwQuiet g' /\ gw_frame g g' /\ gw_now g1 = gw_now g.
Proof.
  intros HG Hs Hw Hq Hm.
  assert (Hq2 : (2 <? q) = false) by (apply N.ltb_ge; lia).
  assert (Hm0 : (mid =? 0) = false) by (apply N.eqb_neq; lia).
  assert (Hqle : (q <=? 2) = true) by (apply N.leb_le; lia).
  eexists. eexists. split; [|split; [|split]].
  - gsn (Subscribe false q TIT_SHORT mid (encode_short topic) [])
      ltac:(apply wf_sub_short; [lia|assumption|assumption|lia]).
    unfold handle_subscribe. bi. rewrite Hq2, Hm0. gk. rewrite (decode_encode_short topic Hs Hw).
    unfold new_obj, arm, mq_send, ok, finish_r. gk. rwg. reflexivity.
  - gmq. unfold get_by_id. gk. nl. bi. gk. nl. bi. gk. v_gfinish. rewrite Hqle. bi.
    match goal with |- context [gw_registered ?s0 !! 0] =>
      let E := fresh "E" in assert (E : gw_registered s0 = gw_registered g) by reflexivity; rewrite E; clear E end.
    match goal with |- context [sn_send ?s ?p] =>
      rewrite (sn_send_active s p) by
        first [ apply wf_suback; lia
              | destruct (gw_registered g !! 0); unfold note_handed; gk; apply (gq_st _ HG) ] end.
    unfold finish_r. bi.
    match goal with |- context [gw_now ?s0] =>
      let E := fresh "E" in assert (E : gw_now s0 = gw_now g) by (destruct (gw_registered g !! 0); reflexivity);
      rewrite E; clear E end.
    reflexivity.
  - destruct (gw_registered g !! 0); unfold note_handed; gw_quiet HG.
  - split; [|reflexivity]. destruct (gw_registered g !! 0); repeat split.
Qed.

(* a PUBLISH of the broker on a short topic name, QoS 0: forwarded to the client as it is *)
Lemma gw_bpub0 cfg g dup retain topic mid payload :
  GwQuiet g -> is_short_topic topic = true -> wf_bytes topic -> mid < 65536 -> okb payload = true ->
  exists g', gw_step cfg g (EvMq (MqPublish dup 0 retain topic mid payload)) =
             (g', [OutSn (gw_now g) (pack (Publish dup 0 retain TIT_SHORT (encode_short topic) mid payload))]) /\
    GwQuiet g' /\ gw_frame g g'.
Proof.
  intros HG Hs Hw Hm Hp. eexists. split; [|split].
  - gmq. unfold handle_broker_publish. rewrite Hs. bi. gk.
    v_sn_send ltac:(apply wf_pub_short; [lia|assumption|assumption|assumption|assumption]).
    unfold finish_r. gk. reflexivity.
  - gw_quiet HG.
  - repeat split.
Qed.

(* ... QoS 1: forwarded; the client's PUBACK is forwarded to the broker *)
Lemma gw_bpub1 cfg g dup retain topic mid payload :
  GwQuiet g -> is_short_topic topic = true -> wf_bytes topic -> 1 <= mid < 65536 -> okb payload = true ->
  exists g1 g', gw_step cfg g (EvMq (MqPublish dup 1 retain topic mid payload)) =
             (g1, [OutSn (gw_now g) (pack (Publish dup 1 retain TIT_SHORT (encode_short topic) mid payload))]) /\
    gw_step cfg g1 (EvSn (pack (Puback (encode_short topic) mid RC_ACCEPTED))) = (g', [OutMq (gw_now g) (MqPuback mid)]) /\
    GwQuiet g' /\ gw_frame g g' /\ gw_now g1 = gw_now g.
Proof.
  intros HG Hs Hw Hm Hp. eexists. eexists. split; [|split; [|split]].
  - gmq. unfold handle_broker_publish. rewrite Hs. bi. gk. change (2 <? 1) with false. bi.
    unfold new_obj. bi. unfold bp_proceed, set_obj, disarm_obj, arm. gk. rwg. gk.
    rewrite (insert_insert (M:=Nmap)).
    match goal with |- context [sn_send_owned ?s ?o ?p] =>
      val (sn_send_owned s o p) ltac:(unfold sn_send_owned; gk; rwg; bi;
        rewrite (pack_fits p) by (apply wf_pub_short; [lia|assumption|assumption|lia|assumption]); unfold ok; gk) end.
    unfold finish_r. gk. reflexivity.
  - gsn (Puback (encode_short topic) mid RC_ACCEPTED) ltac:(apply wf_puback_short; [assumption|assumption|lia]).
    unfold get_by_id. gk. nl. bi. gk. nl. bi. gk.
    unfold bp_proceed, set_obj, disarm_obj, arm. gk. unfold mq_send, mq_ack, andthen, ok. bi. gk.
    rewrite N.eqb_refl. gk. rewrite (insert_insert (M:=Nmap)).
    v_gfinish. unfold finish_r. gk. reflexivity.
  - gw_quiet HG.
  - split; [repeat split|reflexivity].
Qed.

(* ------------------------------------------------------------------ filters without wildcard characters *)

(* A filter without '+' and '#' bytes matches exactly one topic name: itself. *)
Lemma plain_not_hash l : has_wildcard l = false -> beq l HASH = false.
Proof.
  intros H. destruct (beq l HASH) eqn:E; [|reflexivity]. apply beq_true in E. subst l. discriminate H.
Qed.
Lemma plain_not_plus l : has_wildcard l = false -> beq l PLUS = false.
Proof.
  intros H. destruct (beq l PLUS) eqn:E; [|reflexivity]. apply beq_true in E. subst l. discriminate H.
Qed.

Lemma has_wildcard_app a b : has_wildcard (a ++ b) = has_wildcard a || has_wildcard b.
Proof. unfold has_wildcard. apply existsb_app. Qed.

Lemma split_slash_plain t : forall cur, has_wildcard cur = false -> has_wildcard t = false ->
  Forall (fun l => has_wildcard l = false) (split_slash t cur).
Proof.
  induction t as [|b rest IH]; intros cur Hc Ht; cbn [split_slash].
  - constructor; [exact Hc|constructor].
  - change (has_wildcard (b :: rest)) with (((b =? 43) || (b =? 35)) || has_wildcard rest) in Ht.
    apply orb_false_iff in Ht. destruct Ht as [Hb Hr].
    destruct (b =? SLASH).
    + constructor; [exact Hc|]. apply IH; [reflexivity|exact Hr].
    + apply IH; [|exact Hr]. rewrite has_wildcard_app, Hc.
      change (has_wildcard [b]) with (((b =? 43) || (b =? 35)) || false). rewrite Hb. reflexivity.
Qed.

Lemma split_plain t : has_wildcard t = false -> Forall (fun l => has_wildcard l = false) (split t).
Proof. intros H. unfold split. apply split_slash_plain; [reflexivity|exact H]. Qed.

Lemma match_route_refl r : match_route r r = true.
Proof.
  induction r as [|a r IH]; cbn [match_route]; [reflexivity|].
  destruct (beq a HASH); [reflexivity|]. rewrite (beq_refl a), orb_true_r. exact IH.
Qed.

Lemma match_route_plain r : forall t, Forall (fun l => has_wildcard l = false) r -> match_route r t = true -> r = t.
Proof.
  induction r as [|a r IH]; intros t Hr Hm.
  - destruct t; [reflexivity|discriminate Hm].
  - inversion Hr as [|? ? Ha Hr']; subst.
    pose proof (plain_not_hash a Ha) as Hh. pose proof (plain_not_plus a Ha) as Hp.
    destruct t as [|b t]; cbn [match_route] in Hm.
    + rewrite Hh in Hm. discriminate Hm.
    + rewrite Hh, Hp in Hm. cbn [orb] in Hm. destruct (beq a b) eqn:Eab; [|discriminate Hm].
      apply beq_true in Eab. subst b. f_equal. apply IH; assumption.
Qed.

(* the routing relation between a wildcard-free filter and a topic name is equality *)
Lemma match_plain f t : has_wildcard f = false -> match_route (split f) (split t) = beq f t.
Proof.
  intros Hf. destruct (beq f t) eqn:E.
  - apply beq_true in E. subst t. apply match_route_refl.
  - destruct (match_route (split f) (split t)) eqn:Em; [|reflexivity].
    apply match_route_plain in Em; [|apply split_plain, Hf].
    apply beq_false in E. exfalso. apply E. rewrite <- (join_split f), <- (join_split t), Em. reflexivity.
Qed.

(* ------------------------------------------------------------------ subscriptions in place *)

(* a subscription: topic filter, granted QoS, id of the handler (the Subscribe call that installed it) *)
Definition subn : Type := bytes * N * N.
Definition sub_topic (s : subn) : bytes := fst (fst s).
Definition sub_qos (s : subn) : N := snd (fst s).
Definition sub_id (s : subn) : N := snd s.

(* the broker's subscription table and the client's handler table they correspond to *)
Definition bsubs_of (subs : list subn) : list (bytes * N) := map (fun s => (sub_topic s, sub_qos s)) subs.
Definition handlers_of (subs : list subn) : table :=
  map (fun s => (sub_topic s, (split (sub_topic s), sub_id s))) subs.

(* 2-byte topic, well-formed bytes, no wildcard character *)
Definition topic_ok (t : bytes) : bool := is_short_topic t && wf_bytesb t && negb (has_wildcard t).
Lemma topic_ok_spec t : topic_ok t = true -> is_short_topic t = true /\ wf_bytes t /\ has_wildcard t = false.
Proof.
  unfold topic_ok. intros H. apply andb_true_iff in H. destruct H as [H H3]. apply andb_true_iff in H. destruct H as [H1 H2].
  split; [exact H1|]. split; [apply wf_bytesb_spec, H2|apply negb_true_iff, H3].
Qed.

Fixpoint sub_lookup (subs : list subn) (t : bytes) : option subn :=
  match subs with
  | [] => None
  | s :: r => if beq (sub_topic s) t then Some s else sub_lookup r t
  end.

Lemma sub_lookup_some subs t s : sub_lookup subs t = Some s -> In s subs /\ sub_topic s = t.
Proof.
  induction subs as [|s0 r IH]; cbn [sub_lookup]; [discriminate|].
  destruct (beq (sub_topic s0) t) eqn:E.
  - intros H. injection H as <-. split; [left; reflexivity|apply beq_true, E].
  - intros H. destruct (IH H) as [Hin Ht]. split; [right; exact Hin|exact Ht].
Qed.

Lemma sub_lookup_none subs t : sub_lookup subs t = None -> ~ In t (map sub_topic subs).
Proof.
  induction subs as [|s0 r IH]; cbn [sub_lookup map]; [intros _ []|].
  destruct (beq (sub_topic s0) t) eqn:E; [discriminate|].
  intros H [Heq|Hin]; [|exact (IH H Hin)]. apply beq_false in E. exact (E Heq).
Qed.

(* all filters are short wildcard-free topic names, pairwise distinct *)
Fixpoint distinct (l : list bytes) : Prop :=
  match l with [] => True | x :: r => ~ In x r /\ distinct r end.

Lemma distinct_snoc l x : distinct l -> ~ In x l -> distinct (l ++ [x]).
Proof.
  induction l as [|a l IH]; cbn [distinct app]; intros Hd Hx.
  - split; [intros []|exact I].
  - destruct Hd as [Ha Hd]. split.
    + intros Hin. apply in_app_or in Hin. destruct Hin as [Hin|[Heq|[]]]; [exact (Ha Hin)|].
      apply Hx. left. symmetry. exact Heq.
    + apply IH; [exact Hd|]. intros Hin. apply Hx. right. exact Hin.
Qed.

Definition subs_ok (subs : list subn) : Prop :=
  Forall (fun s => topic_ok (sub_topic s) = true) subs /\ distinct (map sub_topic subs).

Lemma subs_ok_nil : subs_ok [].
Proof. split; [constructor|exact I]. Qed.

Lemma subs_ok_snoc subs s : subs_ok subs -> topic_ok (sub_topic s) = true -> ~ In (sub_topic s) (map sub_topic subs) ->
  subs_ok (subs ++ [s]).
Proof.
  intros [Hf Hn] Hs Hnin. split.
  - apply Forall_app. split; [exact Hf|constructor; [exact Hs|constructor]].
  - rewrite map_app. cbn [map]. apply distinct_snoc; assumption.
Qed.

(* the broker's table: a new filter is appended *)
Lemma sub_set_fresh subs t q id : ~ In t (map sub_topic subs) ->
  sub_set (t, q) (bsubs_of subs) = bsubs_of (subs ++ [(t, q, id)]).
Proof.
  intros Hnin. unfold sub_set.
  assert (E : existsb (fun e => beq (fst e) (fst (t, q))) (bsubs_of subs) = false).
  { cbn [fst]. induction subs as [|s r IH]; [reflexivity|]. cbn [bsubs_of map existsb fst].
    cbn [map] in Hnin. apply orb_false_iff. split.
    - apply beq_false. intros Heq. apply Hnin. left. exact Heq.
    - apply IH. intros Hin. apply Hnin. right. exact Hin. }
  rewrite E. unfold bsubs_of. rewrite map_app. reflexivity.
Qed.

(* the client's table: a handler under a new key is appended *)
Lemma tbl_delete_fresh subs t : ~ In t (map sub_topic subs) -> tbl_delete (handlers_of subs) t = handlers_of subs.
Proof.
  induction subs as [|s r IH]; intros Hnin; [reflexivity|]. cbn [handlers_of map tbl_delete]. cbn [map] in Hnin.
  assert (E : beq (sub_topic s) t = false) by (apply beq_false; intros Heq; apply Hnin; left; exact Heq).
  rewrite E. f_equal. apply IH. intros Hin. apply Hnin. right. exact Hin.
Qed.

Lemma tbl_store_fresh subs t q id : ~ In t (map sub_topic subs) ->
  tbl_store (handlers_of subs) (split t) id = handlers_of (subs ++ [(t, q, id)]).
Proof.
  intros Hnin. unfold tbl_store. rewrite (join_split t), (tbl_delete_fresh subs t Hnin).
  unfold handlers_of. rewrite map_app. reflexivity.
Qed.

(* dispatch: exactly the handler of the subscription on that topic name *)
Lemma handle_set_none subs t : Forall (fun s => topic_ok (sub_topic s) = true) subs -> ~ In t (map sub_topic subs) ->
  handle_set (handlers_of subs) t = [].
Proof.
  induction subs as [|s r IH]; intros Hf Hnin; [reflexivity|].
  inversion Hf as [|? ? Hs Hf']; subst. cbn [map] in Hnin.
  unfold handle_set. cbn [handlers_of map flat_map fst snd].
  destruct (topic_ok_spec _ Hs) as (_ & _ & Hpl). rewrite (match_plain _ t Hpl).
  assert (E : beq (sub_topic s) t = false) by (apply beq_false; intros Heq; apply Hnin; left; exact Heq).
  rewrite E. cbn [app]. apply IH; [exact Hf'|]. intros Hin. apply Hnin. right. exact Hin.
Qed.

Lemma handle_set_subs subs s : subs_ok subs -> In s subs -> handle_set (handlers_of subs) (sub_topic s) = [sub_id s].
Proof.
  intros [Hf Hn]. induction subs as [|s0 r IH]; intros Hin; [destruct Hin|].
  inversion Hf as [|? ? Hs0 Hf']; subst. cbn [map distinct] in Hn. destruct Hn as [Hnin Hn'].
  unfold handle_set. cbn [handlers_of map flat_map fst snd].
  destruct (topic_ok_spec _ Hs0) as (_ & _ & Hpl). rewrite (match_plain _ (sub_topic s) Hpl).
  destruct Hin as [Heq|Hin].
  - subst s0. rewrite (beq_refl (sub_topic s)). cbn [app]. f_equal.
    exact (handle_set_none r (sub_topic s) Hf' Hnin).
  - assert (E : beq (sub_topic s0) (sub_topic s) = false).
    { apply beq_false. intros Heq. apply Hnin. rewrite Heq. apply in_map. exact Hin. }
    rewrite E. cbn [app]. apply IH; assumption.
Qed.

(* routing at the broker: a topic name nobody subscribed to matches nothing *)
Lemma sub_matching_none subs t : Forall (fun s => topic_ok (sub_topic s) = true) subs -> ~ In t (map sub_topic subs) ->
  sub_matching (bsubs_of subs) t = [].
Proof.
  induction subs as [|s r IH]; intros Hf Hnin; [reflexivity|].
  inversion Hf as [|? ? Hs Hf']; subst. cbn [map] in Hnin.
  unfold sub_matching. cbn [bsubs_of map List.filter fst].
  destruct (topic_ok_spec _ Hs) as (_ & _ & Hpl). rewrite (match_plain _ t Hpl).
  assert (E : beq (sub_topic s) t = false) by (apply beq_false; intros Heq; apply Hnin; left; exact Heq).
  rewrite E. apply IH; [exact Hf'|]. intros Hin. apply Hnin. right. exact Hin.
Qed.
