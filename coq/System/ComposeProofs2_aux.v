(* System/ComposeProofs2_aux.v — component lemmas for System/ComposeProofs2.v: what the client
   library model (cl_step) and the gateway model (gw_step) do, each on its own, in the exchanges
   SUBSCRIBE (short topic name) and broker PUBLISH (short topic name, QoS 0 / 1), started in a
   quiescent connected state (ClQuiet / GwQuiet of ComposeProofs_aux.v); and the facts about the
   handler table and the broker's subscription table for filters without wildcard characters.
   Style and tactics: see ComposeProofs_aux.v. *)
From stdpp Require Import base option list numbers fin_maps nmap.
From Coq Require Import Lia ZArith ZifyN ZifyNat ZifyBool.
From RecordUpdate Require Import RecordSet.
From Verif.Base Require Import Bytes BytesProofs.
From Verif.Codec Require Import Packets Decode Encode EncodeProofs.
From Verif.Checkers Require Import ChkCodec.
From Verif.Topics Require Import Predefined.
From Verif.Gateway Require Import GwTypes GwStep GwWf.
From Verif.Match Require Import Match MatchProofs.
From Verif.Client Require Import ClTypes ClStep Sound_Client.
From Verif.System Require Import Compose RoutingProofs ComposeProofs_aux.
Import RecordSetNotations.
Open Scope N_scope.
Ltac Zify.zify_post_hook ::= Z.div_mod_to_equations.

(* ------------------------------------------------------------------ packets *)

Lemma wf_sub_short q t mid :
  q < 4 -> is_short_topic t = true -> wf_bytes t -> mid < 65536 ->
  wf_pkt (Subscribe false q TIT_SHORT mid (encode_short t) []) = true.
Proof.
  intros Hq Hs Hw Hm. cbn [wf_pkt]. unfold lt16, TIT_SHORT.
  pose proof (encode_short_lt t Hs Hw) as He.
  change (2 =? 0) with false. change (len (@nil N) =? 0) with true. change ((2 =? 1) || (2 =? 2)) with true.
  cbv iota. repeat (apply andb_true_iff; split); try reflexivity; apply N.ltb_lt; assumption.
Qed.

Lemma wf_suback q mid : q < 4 -> mid < 65536 -> wf_pkt (Suback q 0 mid RC_ACCEPTED) = true.
Proof.
  intros Hq Hm. cbn [wf_pkt]. unfold lt16, lt8, RC_ACCEPTED.
  repeat (apply andb_true_iff; split); try reflexivity; apply N.ltb_lt; assumption.
Qed.

Lemma wf_puback_short t mid : is_short_topic t = true -> wf_bytes t -> mid < 65536 ->
  wf_pkt (Puback (encode_short t) mid RC_ACCEPTED) = true.
Proof.
  intros Hs Hw Hm. pose proof (encode_short_lt t Hs Hw) as He.
  cbn [wf_pkt]. unfold lt16, lt8, RC_ACCEPTED.
  repeat (apply andb_true_iff; split); try reflexivity; apply N.ltb_lt; assumption.
Qed.

(* ------------------------------------------------------------------ the client library *)

(* Kernel-friendly variants of v_finish / ccomplete of ComposeProofs_aux.v: the scrutinee of a match
   is replaced by its value (a separately proven equation) BEFORE cbn sees the match, so that the
   branches not taken are never normalised (their conversion check at Qed is what takes the time). *)
Ltac res_objs := match goal with |- context [cl_objs ?s0 !! ?g0] =>
  let E := fresh "E" in eassert (E : cl_objs s0 !! g0 = _) by (pk; apply Nl_ins); rewrite E; clear E end.
Ltac res_canc := match goal with |- context [cl_cancelled ?s0] =>
  let E := fresh "E" in assert (E : cl_cancelled s0 = None) by (pk; rw; reflexivity); rewrite E; clear E end.
Ltac v_finish2 :=
  match goal with |- context [c_finish_obj ?s ?g] =>
    val (c_finish_obj s g) ltac:(unfold c_finish_obj; res_objs; bi; unfold c_disarm; pk; rewrite ?N.eqb_refl; pk) end.
Ltac ccomplete2 := unfold complete; v_finish2; bi; res_canc; bi; pk; unfold ret; pk; res_canc; bi.

(* Subscribe on a short topic name: SUBSCRIBE out, SUBACK in, the call returns nil and the
   handler is stored under the topic's route (replacing a handler stored under the same key) *)
Lemma cl_sub cfg c id topic q qg :
  ClQuiet c -> is_short_topic topic = true -> wf_bytes topic -> q < 4 -> qg < 4 ->
  exists c1 c', cl_step cfg c (CCall id (ASubscribe topic q)) =
             (c1, [CoSn (cl_now c) (pack (Subscribe false q TIT_SHORT (cl_next_mid c) (encode_short topic) []))]) /\
    cl_step cfg c1 (CGw (pack (Suback qg 0 (cl_next_mid c) RC_ACCEPTED))) = (c', [CoRet (cl_now c) id ROk]) /\
    ClQuiet c' /\ cl_now c' = cl_now c /\ cl_registered c' = cl_registered c /\
    cl_handlers c' = tbl_store (cl_handlers c) (split topic) id.
Proof.
  intros HQ Hs Hw Hq Hqg. pose proof (cq_mid _ HQ) as Hmid.
  eexists. eexists. split; [|split; [|split]].
  - ccall. rewrite (short_len_nz topic Hs), Hs. bi. unfold call_simple, c_next_mid. pk.
    v_start_retry ltac:(apply wf_sub_short; [assumption|assumption|assumption|lia]). bi. pk. rw. reflexivity.
  - cgw (Suback qg 0 (cl_next_mid c) RC_ACCEPTED) ltac:(apply wf_suback; [assumption|lia]).
    unfold topic_name_of. pk. rewrite (decode_encode_short topic Hs Hw). bi.
    ccomplete2. reflexivity.
  - cl_quiet HQ. apply next_mid_range, Hmid.
  - pk. repeat split.
Qed.

(* a PUBLISH of the gateway on a short topic name, QoS 0: the callback of the first matching handler
   (if any) is invoked; nothing is sent *)
Definition cb_out (c : cl_state) (topic payload : bytes) (q : N) (retain dup : bool) (mid : N) : list cl_out :=
  match handle_set (cl_handlers c) topic with
  | sub :: _ => [CoCb (cl_now c) sub topic payload q retain dup mid]
  | [] => []
  end.

Lemma cl_bpub0 cfg c dup retain topic mid payload :
  ClQuiet c -> is_short_topic topic = true -> wf_bytes topic -> mid < 65536 -> okb payload = true ->
  exists c', cl_step cfg c (CGw (pack (Publish dup 0 retain TIT_SHORT (encode_short topic) mid payload))) =
             (c', cb_out c topic payload 0 retain dup mid) /\
    ClQuiet c' /\ cl_frame c c' /\ cl_next_mid c' = cl_next_mid c.
Proof.
  intros HQ Hs Hw Hm Hp. eexists. split; [|split; [|split]].
  - cgw (Publish dup 0 retain TIT_SHORT (encode_short topic) mid payload)
      ltac:(apply wf_pub_short; [lia|assumption|assumption|assumption|assumption]).
    unfold topic_for_publish. pk. rewrite (decode_encode_short topic Hs Hw). bi.
    res_canc. bi. unfold dispatch. pk. reflexivity.
  - cl_quiet HQ.
  - repeat split.
  - reflexivity.
Qed.

(* ... QoS 1: PUBACK out, then the callback *)
Lemma cl_bpub1 cfg c dup retain topic mid payload :
  ClQuiet c -> is_short_topic topic = true -> wf_bytes topic -> mid < 65536 -> okb payload = true ->
  exists c', cl_step cfg c (CGw (pack (Publish dup 1 retain TIT_SHORT (encode_short topic) mid payload))) =
             (c', CoSn (cl_now c) (pack (Puback (encode_short topic) mid RC_ACCEPTED)) ::
                  cb_out c topic payload 1 retain dup mid) /\
    ClQuiet c' /\ cl_frame c c' /\ cl_next_mid c' = cl_next_mid c.
Proof.
  intros HQ Hs Hw Hm Hp. eexists. split; [|split; [|split]].
  - cgw (Publish dup 1 retain TIT_SHORT (encode_short topic) mid payload)
      ltac:(apply wf_pub_short; [lia|assumption|assumption|assumption|assumption]).
    match goal with |- context [c_send ?s ?p] =>
      val (c_send s p) ltac:(unfold c_send; pk; rw; bi;
                             rewrite (pack_fits p) by (apply wf_puback_short; assumption); bi; pk) end.
    bi. unfold topic_for_publish. pk. rewrite (decode_encode_short topic Hs Hw). bi.
    res_canc. bi. unfold dispatch. pk. reflexivity.
  - cl_quiet HQ.
  - repeat split.
  - reflexivity.
Qed.
