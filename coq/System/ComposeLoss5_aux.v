(* System/ComposeLoss5_aux.v — component lemmas for System/ComposeLoss5.v (C16: the REGISTER step of a broker PUBLISH with
   QoS 2 under any loss pattern of REGISTER / REGACK, followed by a lossless QoS 2 flow).

     pubr2, txreg2, txrec2          the PUBLISH (QoS 2) under a registered topic ID; the gateway's transaction awaiting REGACK /
                                    PUBREC - it KEEPS the PUBLISH (snpub = Some pub), unlike the transactions tx_rec / tx_comp of
                                    ComposeLoss2.v, so the QoS 2 lemmas there do not apply as they are
     gw_bpub2_reg, gw_hold_regack2  the gateway: MQTT PUBLISH QoS 2 on a name without topic ID -> REGISTER; REGACK -> the PUBLISH kept
     breg2_entry, pump_reg_head2    the event SBpub; REGISTER reaches the client (Hold2 of ComposeLoss2.v)
     pump_pub_head_s, pump_rel_deliver_s   pump_pub_head / pump_rel_deliver of ComposeLoss2.v for an arbitrary snpub
     finalq, traceRq, faultsq       the trace as a function of the pattern rs0; the fault-list hypotheses
     S0q, advRq                     the round that succeeds with the whole QoS 2 flow; the induction over the rounds *)
From stdpp Require Import base option list numbers fin_maps nmap.
From Coq Require Import Lia ZArith ZifyN ZifyNat ZifyBool.
From RecordUpdate Require Import RecordSet.
From Verif.Base Require Import Bytes BytesProofs.
From Verif.Codec Require Import Packets Decode Encode EncodeProofs.
From Verif.Checkers Require Import ChkCodec.
From Verif.Topics Require Import Predefined.
From Verif.Gateway Require Import GwTypes GwStep GwWf.
From Verif.Match Require Import Match MatchProofs.
From Verif.Client Require Import ClTypes ClStep Sound_Client.
From Verif.System Require Import Compose RoutingProofs ComposeProofs_aux ComposeProofs ComposeProofs2_aux ComposeProofs2
  ComposeProofs3_aux ComposeLoss_aux ComposeLoss ComposeLoss2_aux ComposeLoss2 ComposeLoss3_aux ComposeLoss4_aux.
Import RecordSetNotations.
Open Scope N_scope.
Ltac Zify.zify_post_hook ::= Z.div_mod_to_equations.

(* ------------------------------------------------------------------ the gateway: QoS 2 with the REGISTER step *)

Definition pubr2 (dup retain : bool) (i mid : N) (payload : bytes) : packet := Publish dup 2 retain TIT_REGISTERED i mid payload.
Definition txreg2 (mid i : N) (topic : bytes) (pub : packet) (n : N) : txn :=
  TxBrokerPub mid 2 AwaitRegack (RsSn (Register i mid topic)) (Some pub) n.
Definition txrec2 (mid : N) (pub : packet) (n : N) : txn := TxBrokerPub mid 2 AwaitPubrec (RsSn pub) (Some pub) n.

Lemma wf_pubr2 dup retain i mid payload : i < 65536 -> mid < 65536 -> okb payload = true -> wf_pkt (pubr2 dup retain i mid payload) = true.
Proof. intros Hi Hm Hp. apply wf_pub; [lia|unfold TIT_REGISTERED; lia|assumption|assumption|assumption]. Qed.

Lemma gw_bpub2_reg cfg g dup retain topic mid payload :
  GwQuiet g -> is_short_topic topic = false -> okb1 topic = true -> find_topic_id cfg g topic = None ->
  gw_no_more_tids g = false -> gw_seq_overflow g = false -> gw_seq_next g <> max_tid cfg ->
  gw_seq_next g < 65536 -> get_name (predefined cfg) (gw_client_id g) (gw_seq_next g) = None ->
  1 <= mid < 65536 -> okb payload = true ->
  let i := gw_seq_next g in
  let reg := Register i mid topic in
  let pub := Publish dup 2 retain TIT_REGISTERED i mid payload in
  exists g1, gw_step cfg g (EvMq (MqPublish dup 2 retain topic mid payload)) = (g1, [OutSn (gw_now g) (pack reg)]) /\
    GwHold g1 (gw_next_obj g) mid (TxBrokerPub mid 2 AwaitRegack (RsSn reg) (Some pub) 0) (gw_now g + retry_delay cfg) (gw_next_seq g) /\
    gw_now g1 = gw_now g /\ gw_client_id g1 = gw_client_id g /\ gw_registered g1 = gw_registered g.
Proof.
  intros HG Hns Ht Hfind Hnm Hov Hmax Hid Hpd Hm Hp i reg pub. subst i reg pub.
  assert (Emax : (gw_seq_next g =? max_tid cfg) = false) by (apply N.eqb_neq; exact Hmax).
  assert (Hwreg : wf_pkt (Register (gw_seq_next g) mid topic) = true).
  { cbn [wf_pkt]. unfold lt16. rewrite Ht. repeat (apply andb_true_iff; split); try reflexivity; apply N.ltb_lt; lia. }
  eexists. split; [|split; [|split; [|split]]].
  - gmq. unfold handle_broker_publish. rewrite Hns. bi.
    match goal with |- context [find_topic_id ?cfg0 ?s ?n] =>
      rewrite (find_topic_id_ext cfg0 s g n) by reflexivity end.
    rewrite Hfind. bi. gk. change (2 <? 2) with false. bi.
    match goal with |- context [new_topic_id ?cfg0 ?s] =>
      val (new_topic_id cfg0 s)
        ltac:(unfold new_topic_id; gk; rewrite Hnm; bi; unfold seq_next; gk; rewrite Emax, Hov; bi;
              cbn [skip_predefined]; gk; rewrite Hpd; bi; gk) end.
    bi. unfold new_obj. bi. unfold bp_proceed, note_handed, set_obj, disarm_obj, arm. gk. rwg. gk.
    rewrite (insert_insert (M:=Nmap)).
    match goal with |- context [sn_send_owned ?s ?o ?p] =>
      val (sn_send_owned s o p) ltac:(unfold sn_send_owned; gk; rwg; bi; rewrite (pack_fits p) by exact Hwreg; unfold ok; gk) end.
    unfold finish_r. gk. reflexivity.
  - constructor; gk; rwgq HG; try reflexivity. apply (gq_accepted _ HG).
  - reflexivity.
  - reflexivity.
  - reflexivity.
Qed.

Lemma gw_hold_regack2 cfg g o mid i m0 topic pub n T sq tid :
  GwHold g o mid (TxBrokerPub mid 2 AwaitRegack (RsSn (Register i m0 topic)) (Some pub) n) T sq ->
  wf_pkt pub = true -> tid < 65536 -> 1 <= mid < 65536 ->
  exists g', gw_step cfg g (EvSn (pack (Regack tid mid RC_ACCEPTED))) = (g', [OutSn (gw_now g) (pack pub)]) /\
    GwHold g' o mid (TxBrokerPub mid 2 AwaitPubrec (RsSn pub) (Some pub) 0) (gw_now g + retry_delay cfg) (gw_next_seq g) /\
    gw_now g' = gw_now g /\ gw_client_id g' = gw_client_id g /\ gw_registered g' = <[i := topic]> (gw_registered g).
Proof.
  intros HP Hwf Ht Hm. eexists. split; [|split; [|split; [|split]]].
  - gsnh (Regack tid mid RC_ACCEPTED) ltac:(apply wf_regack; [assumption|lia]). get_h.
    unfold bp_regack. gk. bi.
    unfold bp_proceed, set_obj, disarm_obj, arm. gk. rwh. gk.
    rewrite N.eqb_refl. gk. rewrite (insert_insert (M:=Nmap)).
    match goal with |- context [sn_send_owned ?s ?ow ?p] =>
      val (sn_send_owned s ow p) ltac:(unfold sn_send_owned; gk; rwh; bi; rewrite (pack_fits p) by exact Hwf; unfold ok; gk) end.
    unfold finish_r. gk. reflexivity.
  - gw_hold HP.
  - reflexivity.
  - reflexivity.
  - reflexivity.
Qed.

(* ------------------------------------------------------------------ the system, datagram by datagram *)

Lemma breg2_entry cfg y dup retain topic mid payload : Quiet cfg y -> RegReady cfg y topic ->
  1 <= mid < 65536 -> okb payload = true ->
  let t := gw_now (y_gw y) in
  let fl := nth_fault (e_g2c cfg) (y_g2c_k y) in
  let i := gw_seq_next (y_gw y) in
  exists y1, Hold2 cfg y1 None (txreg2 mid i topic (pubr2 dup retain i mid payload) 0) mid (t + retry_delay (e_gw cfg)) /\
    gw_now (y_gw y1) = t /\ y_br y1 = y_br y /\ y_cl y1 = y_cl y /\ gw_registered (y_gw y1) = gw_registered (y_gw y) /\
    y_c2g_k y1 = y_c2g_k y /\ y_g2c_k y1 = S (y_g2c_k y) /\
    sys_step cfg y (SBpub (MqPublish dup 2 retain topic mid payload)) =
      (let '(y2, tr2) := pump pump_rest11 cfg y1 (map ToCl (copies fl (pack (Register i mid topic)))) in
       (y2, SoBS t (MqPublish dup 2 retain topic mid payload) :: SoG2C t fl (pack (Register i mid topic)) :: tr2)).
Proof.
  intros (HC & HG & Hnow & Hcid & Hbc & Heof) (Hns & Ht & Hfind & Hnm & Hov & Hmax & Hid & Hpd & _) Hm Hp t fl i. subst t fl i.
  destruct y as [c g b k1 k2 eof]. cbn [y_cl y_gw y_br y_br_eof y_c2g_k y_g2c_k] in *.
  destruct (gw_bpub2_reg (e_gw cfg) g dup retain topic mid payload HG Hns Ht Hfind Hnm Hov Hmax Hid Hpd Hm Hp)
    as (g1 & Eg1 & HP1 & Hgn & Hgc & Hgr).
  exists {| y_cl := c; y_gw := g1; y_br := b; y_c2g_k := k1; y_g2c_k := S k2; y_br_eof := eof |}.
  split; [|split; [|split; [|split; [|split; [|split; [|split]]]]]].
  8: { unfold sys_step. sk. rewrite Hbc. rewrite pump_fuel_eq11. sk. rewrite Eg1. sk.
       rewrite ?app_nil_r.
       norm_pump pump_rest11 {| y_cl := c; y_gw := g1; y_br := b; y_c2g_k := k1; y_g2c_k := S k2; y_br_eof := eof |}.
       destruct (pump pump_rest11 cfg _ _) as [y2 tr2]. reflexivity. }
  - unfold Hold2. sk. split; [exact HC|]. split; [eexists _, _; exact HP1|].
    split; [rewrite Hgn; exact Hnow|]. split; [rewrite Hgn; lia|]. split; [rewrite Hgc; exact Hcid|]. split; assumption.
  - exact Hgn.
  - reflexivity.
  - reflexivity.
  - exact Hgr.
  - reflexivity.
  - reflexivity.
Qed.

Lemma pump_reg_head2 cfg y i topic pub mid n T :
  Hold2 cfg y None (txreg2 mid i topic pub n) mid T -> okb1 topic = true -> wf_pkt pub = true ->
  i < 65536 -> 1 <= mid < 65536 -> RegPre (cl_registered (y_cl y)) topic i ->
  nth_fault (e_c2g cfg) (y_c2g_k y) = FDeliver ->
  let t := gw_now (y_gw y) in
  let fl := nth_fault (e_g2c cfg) (y_g2c_k y) in
  exists y1, Hold2 cfg y1 None (txrec2 mid pub 0) mid (t + retry_delay (e_gw cfg)) /\ gw_now (y_gw y1) = t /\
    y_br y1 = y_br y /\ cl_handlers (y_cl y1) = cl_handlers (y_cl y) /\
    cl_registered (y_cl y1) = reg_set (cl_registered (y_cl y)) topic i /\
    gw_registered (y_gw y1) = <[i := topic]> (gw_registered (y_gw y)) /\
    y_c2g_k y1 = S (y_c2g_k y) /\ y_g2c_k y1 = S (y_g2c_k y) /\
    forall f, pump (S (S f)) cfg y [ToCl (pack (Register i mid topic))] =
      (let '(y2, tr2) := pump f cfg y1 (map ToCl (copies fl (pack pub))) in
       (y2, [SoC2G t FDeliver (pack (Regack i mid RC_ACCEPTED)); SoG2C t fl (pack pub)] ++ tr2)).
Proof.
  intros (HC & (o & sq & HP) & Hnow & HT & Hcid & Hbc & Heof) Ht Hwf Hi Hm Hpre Hfc t fl. subst t fl.
  destruct y as [c g b k1 k2 eof]. cbn [y_cl y_gw y_br y_br_eof y_c2g_k y_g2c_k ClShape] in *.
  assert (Hl : reg_lookup (cl_registered c) topic = None \/ reg_lookup (cl_registered c) topic = Some i)
    by (destruct Hpre as [[H _]|[H _]]; [left|right]; exact H).
  destruct (cl_register_in (e_cl cfg) c i mid topic HC Hl (wf_reg_any i mid topic Hi ltac:(lia) Ht) Hi ltac:(lia))
    as (c' & Ec & HC' & Hcn & Hch & Hcr & _).
  destruct (gw_hold_regack2 (e_gw cfg) g o mid i mid topic pub n T sq i HP Hwf Hi Hm) as (g1 & Eg1 & HP1 & Hg1n & Hg1c & Hg1r).
  exists {| y_cl := c'; y_gw := g1; y_br := b; y_c2g_k := S k1; y_g2c_k := S k2; y_br_eof := eof |}.
  split; [|split; [|split; [|split; [|split; [|split; [|split; [|split]]]]]]].
  9: { intros f. sk. rewrite Ec. sk. rewrite Hfc. sk. rewrite Eg1. sk.
       rewrite ?app_nil_r, Hnow.
       norm_pump f {| y_cl := c'; y_gw := g1; y_br := b; y_c2g_k := S k1; y_g2c_k := S k2; y_br_eof := eof |}.
       destruct (pump f cfg _ _) as [y2 tr2]. reflexivity. }
  - unfold Hold2. sk. split; [exact HC'|]. split; [eexists _, _; exact HP1|].
    split; [rewrite Hcn, Hg1n; exact Hnow|]. split; [rewrite Hg1n; lia|].
    split; [rewrite Hg1c; exact Hcid|]. split; assumption.
  - exact Hg1n.
  - reflexivity.
  - exact Hch.
  - exact Hcr.
  - exact Hg1r.
  - reflexivity.
  - reflexivity.
Qed.

(* pump_pub_head / pump_rel_deliver of ComposeLoss2.v for a transaction that keeps the PUBLISH (snpub arbitrary) *)
Lemma pump_pub_head_s cfg y held p snpub n dup retain tit tid mid payload T :
  Hold2 cfg y held (TxBrokerPub mid 2 AwaitPubrec (RsSn p) snpub n) mid T ->
  wf_pkt (Publish dup 2 retain tit tid mid payload) = true -> 1 <= mid < 65536 ->
  nth_fault (e_c2g cfg) (y_c2g_k y) = FDeliver ->
  let t := gw_now (y_gw y) in
  let fl := nth_fault (e_g2c cfg) (y_g2c_k y) in
  let pub := Publish dup 2 retain tit tid mid payload in
  exists y1, Hold2 cfg y1 (Some pub) (TxBrokerPub mid 2 AwaitPubcomp (RsSn (Pubrel mid)) snpub 0) mid (t + retry_delay (e_gw cfg)) /\
    gw_now (y_gw y1) = t /\
    y_br y1 = y_br y /\ cl_handlers (y_cl y1) = cl_handlers (y_cl y) /\ cl_registered (y_cl y1) = cl_registered (y_cl y) /\
    gw_registered (y_gw y1) = gw_registered (y_gw y) /\
    y_c2g_k y1 = S (y_c2g_k y) /\ y_g2c_k y1 = S (y_g2c_k y) /\
    forall f, pump (S (S (S (S f)))) cfg y [ToCl (pack pub)] =
      (let '(y2, tr2) := pump f cfg y1 (map ToCl (copies fl (pack (Pubrel mid)))) in
       (y2, [SoC2G t FDeliver (pack (Pubrec mid)); SoBR t (MqPubrec mid); SoBS t (MqPubrel mid);
             SoG2C t fl (pack (Pubrel mid))] ++ tr2)).
Proof.
  intros (HC & (o & sq & HP) & Hnow & HT & Hcid & Hbc & Heof) Hwf Hm Hfc t fl pub. subst t fl pub.
  destruct y as [c g b k1 k2 eof]. cbn [y_cl y_gw y_br y_br_eof y_c2g_k y_g2c_k] in *.
  destruct (cl_shape_pub (e_cl cfg) c held dup retain tit tid mid payload HC Hwf ltac:(lia))
    as (c' & Ec & HC' & (Hcn & Hch & Hcr) & _).
  destruct (gw_hold_pubrec (e_gw cfg) g o mid _ _ _ T sq HP Hm) as (g1 & Eg1 & HP1 & (Hg1n & Hg1c & Hg1r & _)).
  destruct (gw_hold_mqpubrel (e_gw cfg) g1 o mid _ _ _ _ _ HP1 Hm) as (g2 & Eg2 & HP2 & (Hg2n & Hg2c & Hg2r & _)).
  exists {| y_cl := c'; y_gw := g2; y_br := b; y_c2g_k := S k1; y_g2c_k := S k2; y_br_eof := eof |}.
  split; [|split; [|split; [|split; [|split; [|split; [|split; [|split]]]]]]].
  9: { intros f. sk. rewrite Ec. sk. rewrite Hfc. sk. rewrite Eg1. sk.
       unfold broker_recv. rewrite Hbc. sk. rewrite Hbc. sk. rewrite Eg2. sk.
       rewrite ?app_nil_r, Hnow, Hg1n.
       norm_pump f {| y_cl := c'; y_gw := g2; y_br := b; y_c2g_k := S k1; y_g2c_k := S k2; y_br_eof := eof |}.
       destruct (pump f cfg _ _) as [y2 tr2]. reflexivity. }
  - unfold Hold2. sk. split; [exact HC'|]. split; [eexists _, _; rewrite <- Hg1n; exact HP2|].
    split; [rewrite Hcn, Hg2n, Hg1n; exact Hnow|]. split; [rewrite Hg2n, Hg1n; lia|].
    split; [rewrite Hg2c, Hg1c; exact Hcid|]. split; assumption.
  - sk. rewrite Hg2n. exact Hg1n.
  - reflexivity.
  - sk. exact Hch.
  - sk. exact Hcr.
  - sk. rewrite Hg2r. exact Hg1r.
  - reflexivity.
  - reflexivity.
Qed.

Lemma pump_rel_deliver_s cfg y held topic mid snpub n T f :
  Hold2 cfg y held (TxBrokerPub mid 2 AwaitPubcomp (RsSn (Pubrel mid)) snpub n) mid T ->
  held_topic (e_cl cfg) (y_cl y) held topic -> 1 <= mid < 65536 ->
  nth_fault (e_c2g cfg) (y_c2g_k y) = FDeliver ->
  let t := gw_now (y_gw y) in
  exists y', pump (S (S (S f))) cfg y [ToCl (pack (Pubrel mid))] =
      (y', rel_scb y t topic held ++ [SoC2G t FDeliver (pack (Pubcomp mid)); SoBR t (MqPubcomp mid)]) /\
    Quiet cfg y' /\ gw_now (y_gw y') = t /\ y_br y' = y_br y /\ cl_handlers (y_cl y') = cl_handlers (y_cl y) /\
    cl_registered (y_cl y') = cl_registered (y_cl y) /\ gw_registered (y_gw y') = gw_registered (y_gw y) /\
    y_c2g_k y' = S (y_c2g_k y) /\ y_g2c_k y' = y_g2c_k y.
Proof.
  intros (HC & (o & sq & HP) & Hnow & HT & Hcid & Hbc & Heof) Hht Hm Hfc t. subst t.
  destruct y as [c g b k1 k2 eof]. unfold rel_scb, scb_at. cbn [y_cl y_gw y_br y_br_eof y_c2g_k y_g2c_k] in *.
  destruct (cl_shape_rel (e_cl cfg) c held mid topic HC Hht ltac:(lia)) as (c' & Ec & HC' & (Hcn & Hch & Hcr) & _).
  destruct (gw_hold_pubcomp (e_gw cfg) g o mid _ _ _ T sq HP Hm) as (g' & Eg & HG' & (Hgn & Hgc & Hgr & _)).
  eexists. split; [|split; [|split; [|split; [|split; [|split; [|split; [|split]]]]]]].
  - sk. rewrite Ec. sk. rewrite cl_outs_rel. sk. rewrite Hfc. sk. rewrite Eg. sk.
    unfold broker_recv. rewrite Hbc. sk. rewrite Hbc. sk. rewrite pump_nil.
    rewrite ?app_nil_r, <- app_assoc, Hnow. reflexivity.
  - unfold Quiet. sk. split; [exact HC'|]. split; [exact HG'|]. split; [rewrite Hcn, Hgn; exact Hnow|].
    split; [rewrite Hgc; exact Hcid|]. split; assumption.
  - sk. exact Hgn.
  - reflexivity.
  - sk. exact Hch.
  - sk. exact Hcr.
  - sk. exact Hgr.
  - reflexivity.
  - reflexivity.
Qed.

Section REGQ2.
Variables (retain : bool) (topic : bytes) (mid i : N) (payload : bytes) (hs : list N).

(* the round of the REGISTER step that succeeds, followed - all at that instant - by the lossless QoS 2 flow *)
Definition finalq (T : N) (dp : bool) : list sys_out :=
  [SoC2G T FDeliver (pack (Regack i mid RC_ACCEPTED)); SoG2C T FDeliver (pack (pubr2 dp retain i mid payload));
   SoC2G T FDeliver (pack (Pubrec mid)); SoBR T (MqPubrec mid); SoBS T (MqPubrel mid); SoG2C T FDeliver (pack (Pubrel mid))] ++
  cb_of hs T topic payload 2 retain dp mid ++ [SoC2G T FDeliver (pack (Pubcomp mid)); SoBR T (MqPubcomp mid)].
Fixpoint traceRq (rd : N) (rs0 : list bool) (T : N) (dp : bool) : list sys_out :=
  match rs0 with
  | [] => SoG2C T FDeliver (pack (Register i mid topic)) :: finalq T dp
  | b :: r => SoG2C T (fl_of b) (pack (Register i mid topic)) ::
              (if b then [] else [SoC2G T FDrop (pack (Regack i mid RC_ACCEPTED))]) ++ traceRq rd r (T + rd) dp
  end.
Fixpoint faultsq (cfg : e2e_cfg) (rs0 : list bool) (kc kg : nat) : Prop :=
  match rs0 with
  | [] => nth_fault (e_g2c cfg) kg = FDeliver /\ nth_fault (e_g2c cfg) (S kg) = FDeliver /\ nth_fault (e_g2c cfg) (S (S kg)) = FDeliver /\
          nth_fault (e_c2g cfg) kc = FDeliver /\ nth_fault (e_c2g cfg) (S kc) = FDeliver /\ nth_fault (e_c2g cfg) (S (S kc)) = FDeliver
  | true :: r => nth_fault (e_g2c cfg) kg = FDrop /\ faultsq cfg r kc (S kg)
  | false :: r => nth_fault (e_g2c cfg) kg = FDeliver /\ nth_fault (e_c2g cfg) kc = FDrop /\ faultsq cfg r (S kc) (S kg)
  end.

Hypothesis Ho1 : okb1 topic = true.
Hypothesis Hi : i < 65536.
Hypothesis Hm : 1 <= mid < 65536.
Hypothesis Hp : okb payload = true.

Lemma S0q cfg y n T f dp :
  Hold2 cfg y None (txreg2 mid i topic (pubr2 dp retain i mid payload) n) mid T -> handle_set (cl_handlers (y_cl y)) topic = hs ->
  RegPre (cl_registered (y_cl y)) topic i ->
  nth_fault (e_c2g cfg) (y_c2g_k y) = FDeliver -> nth_fault (e_c2g cfg) (S (y_c2g_k y)) = FDeliver ->
  nth_fault (e_c2g cfg) (S (S (y_c2g_k y))) = FDeliver ->
  nth_fault (e_g2c cfg) (y_g2c_k y) = FDeliver -> nth_fault (e_g2c cfg) (S (y_g2c_k y)) = FDeliver ->
  let t := gw_now (y_gw y) in
  exists y', pump (S (S (S (S (S (S (S (S (S f))))))))) cfg y [ToCl (pack (Register i mid topic))] = (y', finalq t dp) /\
    Quiet cfg y' /\ gw_now (y_gw y') = t /\ y_br y' = y_br y /\ cl_handlers (y_cl y') = cl_handlers (y_cl y) /\
    cl_registered (y_cl y') = reg_set (cl_registered (y_cl y)) topic i /\
    gw_registered (y_gw y') = <[i := topic]> (gw_registered (y_gw y)).
Proof.
  intros HH Hhs Hpre Hfc0 Hfc1 Hfc2 Hfg0 Hfg1 t. subst t.
  destruct (regpre_step topic i _ Hpre) as (_ & _ & Hfind).
  pose proof (wf_pubr2 dp retain i mid payload Hi ltac:(lia) Hp) as Hwf.
  destruct (pump_reg_head2 cfg y i topic _ mid n T HH Ho1 Hwf Hi Hm Hpre Hfc0)
    as (y1 & HH1 & Hn1 & Hb1 & Hh1 & Hr1 & Hg1 & Hkc1 & Hkg1 & E1).
  destruct (pump_pub_head_s cfg y1 None _ _ 0 dp retain TIT_REGISTERED i mid payload _ HH1 Hwf Hm ltac:(rewrite Hkc1; exact Hfc1))
    as (y2 & HH2 & Hn2 & Hb2 & Hh2 & Hr2 & Hg2 & Hkc2 & Hkg2 & E2).
  destruct (pump_rel_deliver_s cfg y2 _ topic mid _ 0 _ f HH2
              ltac:(cbn [held_topic]; rewrite tfp_registered, Hr2, Hr1; exact Hfind) Hm ltac:(rewrite Hkc2, Hkc1; exact Hfc2))
    as (y3 & E3 & HQ3 & Hn3 & Hb3 & Hh3 & Hr3 & Hg3 & _).
  exists y3. split; [|split; [exact HQ3|split; [rewrite Hn3, Hn2; exact Hn1|split; [rewrite Hb3, Hb2; exact Hb1|
    split; [rewrite Hh3, Hh2; exact Hh1|split; [rewrite Hr3, Hr2; exact Hr1|rewrite Hg3, Hg2; exact Hg1]]]]]].
  rewrite (E1 (S (S (S (S (S (S (S f)))))))). rewrite Hfg0. cbn [map copies]. unfold pubr2.
  rewrite (E2 (S (S (S f)))). rewrite Hkg1, Hfg1. cbn [map copies]. rewrite E3.
  unfold finalq, pubr2, rel_scb, scb_at. rewrite Hh2, Hh1, Hhs, Hn2, Hn1. reflexivity.
Qed.

Lemma advRq cfg rs0 dp R1 : forall y n T f t,
  Hold2 cfg y None (txreg2 mid i topic (pubr2 dp retain i mid payload) n) mid T ->
  handle_set (cl_handlers (y_cl y)) topic = hs ->
  RegPre (cl_registered (y_cl y)) topic i -> reg_set (cl_registered (y_cl y)) topic i = R1 ->
  n + N.of_nat (length rs0) + 1 <= retry_count (e_gw cfg) -> 0 < retry_delay (e_gw cfg) ->
  faultsq cfg rs0 (y_c2g_k y) (y_g2c_k y) ->
  T + N.of_nat (length rs0) * retry_delay (e_gw cfg) <= t -> (length rs0 + 2 <= f)%nat ->
  exists y', advance_to f cfg y t = (y', traceRq (retry_delay (e_gw cfg)) rs0 T dp) /\
    Quiet cfg y' /\ gw_now (y_gw y') = t /\ y_br y' = y_br y /\ cl_handlers (y_cl y') = cl_handlers (y_cl y) /\
    cl_registered (y_cl y') = R1 /\ gw_registered (y_gw y') = <[i := topic]> (gw_registered (y_gw y)).
Proof.
  induction rs0 as [|b r IH]; intros y n T f t HH Hhs Hpre HR1 Hn Hrd Hfaults Ht Hf.
  - destruct Hfaults as (Hfg0 & Hfg1 & Hfg2 & Hfc0 & Hfc1 & Hfc2). cbn [length] in *.
    destruct (fire_entry cfg y _ mid 2 AwaitRegack (Register i mid topic) (Some (pubr2 dp retain i mid payload)) n T HH
                ltac:(apply wf_reg_any; [exact Hi|lia|exact Ho1]) ltac:(lia) Hrd)
      as (y1 & HH1 & Hn1 & Hb1 & Hh1 & (Hrc1 & Hrg1) & Hkc1 & Hkg1 & E).
    cbv zeta in E. rewrite pump_fuel_eq, Hfg0 in E. change (set_dup (Register i mid topic)) with (Register i mid topic) in E, HH1.
    cbn [map copies] in E.
    pose proof (S0q cfg y1 (n + 1) (T + retry_delay (e_gw cfg)) (S (S (S pump_rest))) dp HH1
                  ltac:(rewrite Hh1; exact Hhs) ltac:(rewrite Hrc1; exact Hpre) ltac:(rewrite Hkc1; exact Hfc0)
                  ltac:(rewrite Hkc1; exact Hfc1) ltac:(rewrite Hkc1; exact Hfc2) ltac:(rewrite Hkg1; exact Hfg1)
                  ltac:(rewrite Hkg1; exact Hfg2)) as H.
    cbv zeta in H. destruct H as (y2 & E2 & HQ2 & Hn2 & Hb2 & Hh2 & Hr2 & Hg2).
    rewrite E2 in E.
    destruct (adv_to_final cfg y _ _ mid T y2 _ t f HH ltac:(lia) E HQ2 ltac:(rewrite Hn2; exact Hn1) Hf)
      as (y' & E' & HQ' & Hn' & Hb' & Hh' & _ & _ & (Hrc' & Hrg') & _).
    exists y'. split; [|split; [exact HQ'|split; [exact Hn'|split; [rewrite Hb', Hb2; exact Hb1|split; [rewrite Hh', Hh2; exact Hh1|
      split; [rewrite Hrc', Hr2, Hrc1; exact HR1|rewrite Hrg', Hg2, Hrg1; reflexivity]]]]]].
    rewrite E'. cbn [traceRq]. rewrite Hn1. reflexivity.
  - destruct f as [|f]; [cbn [length] in Hf; lia|].
    assert (HTk : T + N.of_nat (length (b :: r)) * retry_delay (e_gw cfg) =
                  T + retry_delay (e_gw cfg) + N.of_nat (length r) * retry_delay (e_gw cfg)) by (cbn [length]; lia).
    rewrite HTk in Ht. clear HTk.
    pose proof HH as (_ & _ & Hnow & HT & _).
    assert (Elt : (T <? t) = true) by (apply N.ltb_lt; lia).
    assert (Emax : N.max T (N.max (cl_now (y_cl y)) (gw_now (y_gw y))) = T) by lia.
    rewrite advance_to_S, (deadline_hold cfg y _ _ _ _ HH), Elt, Emax.
    destruct (fire_entry cfg y _ mid 2 AwaitRegack (Register i mid topic) (Some (pubr2 dp retain i mid payload)) n T HH
                ltac:(apply wf_reg_any; [exact Hi|lia|exact Ho1]) ltac:(cbn [length] in Hn; lia) Hrd)
      as (y1 & HH1 & Hn1 & Hb1 & Hh1 & (Hrc1 & Hrg1) & Hkc1 & Hkg1 & E).
    cbv zeta in E. rewrite pump_fuel_eq in E. change (set_dup (Register i mid topic)) with (Register i mid topic) in E, HH1.
    assert (Efl : nth_fault (e_g2c cfg) (y_g2c_k y) = fl_of b) by (destruct b; cbn [faultsq] in Hfaults; exact (proj1 Hfaults)).
    assert (Hstep : exists y2, pump (S (S (S (S (S (S (S (S (S (S (S (S pump_rest)))))))))))) cfg y1
                       (map ToCl (copies (fl_of b) (pack (Register i mid topic)))) =
                       (y2, if b then [] else [SoC2G T FDrop (pack (Regack i mid RC_ACCEPTED))]) /\
              Hold2 cfg y2 None (txreg2 mid i topic (pubr2 dp retain i mid payload) (n + 1)) mid (T + retry_delay (e_gw cfg)) /\
              gw_now (y_gw y2) = T /\ y_br y2 = y_br y1 /\ cl_handlers (y_cl y2) = cl_handlers (y_cl y1) /\
              cl_registered (y_cl y2) = (if b then cl_registered (y_cl y1) else reg_set (cl_registered (y_cl y1)) topic i) /\
              gw_registered (y_gw y2) = gw_registered (y_gw y1) /\
              y_c2g_k y2 = (if b then y_c2g_k y1 else S (y_c2g_k y1)) /\ y_g2c_k y2 = y_g2c_k y1).
    { destruct b; cbn [fl_of map copies].
      - exists y1. rewrite pump_nil. split; [reflexivity|]. split; [exact HH1|]. split; [exact Hn1|]. repeat split.
      - destruct Hfaults as (_ & Hfc & _).
        destruct (pump_reg_ackdrop cfg y1 i topic _ mid _ (S (S (S (S (S (S (S (S (S (S (S pump_rest))))))))))) HH1 Ho1 Hi Hm
                    ltac:(rewrite Hrc1; exact Hpre) ltac:(rewrite Hkc1; exact Hfc))
          as (y2 & E2 & HH2 & Hn2 & Hb2 & Hh2 & Hr2 & Hg2 & Hkc2 & Hkg2).
        exists y2. rewrite E2, Hn1. split; [reflexivity|]. split; [exact HH2|]. split; [rewrite Hn2; exact Hn1|].
        split; [exact Hb2|]. split; [exact Hh2|]. split; [exact Hr2|]. split; [rewrite Hg2; reflexivity|]. split; assumption. }
    destruct Hstep as (y2 & E2 & HH2 & Hn2 & Hb2 & Hh2 & Hr2 & Hg2 & Hkc2 & Hkg2).
    rewrite Efl, E2 in E. rewrite E.
    destruct (regpre_step topic i _ Hpre) as (Hpre' & Hidem & _).
    assert (Hpre2 : RegPre (cl_registered (y_cl y2)) topic i /\ reg_set (cl_registered (y_cl y2)) topic i = R1).
    { rewrite Hr2, Hrc1. destruct b; [split; assumption|]. split; [exact Hpre'|rewrite Hidem; exact HR1]. }
    destruct (IH y2 (n + 1) (T + retry_delay (e_gw cfg)) f t HH2 ltac:(rewrite Hh2, Hh1; exact Hhs) (proj1 Hpre2) (proj2 Hpre2)
                ltac:(cbn [length] in Hn; lia) Hrd) as (y3 & E3 & HQ3 & Hn3 & Hb3 & Hh3 & Hr3 & Hg3); [|exact Ht|cbn [length] in Hf; lia|].
    { rewrite Hkc2, Hkg2, Hkc1, Hkg1. destruct b; cbn [faultsq] in Hfaults; [exact (proj2 Hfaults)|exact (proj2 (proj2 Hfaults))]. }
    rewrite E3. exists y3. split; [|split; [exact HQ3|split; [exact Hn3|split; [rewrite Hb3, Hb2; exact Hb1|split; [rewrite Hh3, Hh2; exact Hh1|
      split; [exact Hr3|rewrite Hg3, Hg2, Hrg1; reflexivity]]]]]].
    cbn [traceRq]. destruct b; reflexivity.
Qed.

End REGQ2.

Print Assumptions S0q.
Print Assumptions advRq.
