(* System/ComposeLoss.v — C16, liveness half, first cases: delivery of a broker PUBLISH (QoS 1, short
   topic name) over a LOSSY link in the composed system of System/Compose.v, as exact traces, proved
   for ALL configurations, states, subscriptions, message IDs and payloads in the stated ranges.
   The link's fault lists are arbitrary except at the positions the exchange uses (stated with
   nth_fault at the link counters y_c2g_k / y_g2c_k of the state); the start state is a connected
   quiescent system with the subscription in place (QuietS of ComposeProofs2.v - that predicate does
   not mention the fault lists), and there is no other traffic during the exchange.

   Pend cfg y pub mid n T          the client is quiescent, the gateway holds exactly one transaction: a broker
                                   PUBLISH (stored packet pub) awaiting PUBACK, n retransmissions so far, retry
                                   timer due at T
   e2e_bpub_q1_publish_lost        the PUBLISH datagram is lost: SBpub gives BS PUBLISH, G2C PUBLISH (dropped) and
                                   Pend 0 (now + RetryDelay); SAdv d (any d >= RetryDelay) gives at now + RetryDelay
                                   G2C PUBLISH with DUP (set_dup: same message ID, topic, payload), C2G PUBACK, ONE
                                   SoCb (handler of the subscription, dup = true), BR PUBACK mid; QuietS again
   e2e_bpub_q1_puback_lost         the client's PUBACK is lost: the handler runs at once (dup as sent by the broker) and
                                   AGAIN at now + RetryDelay with dup = true (two invocations), one PUBACK at the broker
   e2e_bpub_q1_publish_lost_n      1 + k <= RetryCount consecutive losses of the PUBLISH: delivery at now + (1 + k) RetryDelay
   e2e_bpub_q1_lossy               any pattern b0 :: rs of failed rounds (each loses the PUBLISH or the PUBACK),
                                   1 + length rs <= RetryCount: exact traces; delivery completes at now + (1 + length rs) RetryDelay
   e2e_bpub_q1_lossy_counts        ... handler invocations = 1 + number of lost PUBACKs, all with that topic and payload;
                                   the broker receives exactly [PUBACK mid]; no call returns
   lossy_instance, retry_budget_tight   concrete instances (the hypotheses are satisfiable; with RetryCount + 1
                                   consecutive losses the message is never delivered and the exchange is dropped silently)

   No upper bound on d is needed (after the exchange no timer is armed); the client's keep-alive is not
   part of this model.  The component lemmas are in ComposeLoss_aux.v. *)
From stdpp Require Import base option list numbers fin_maps nmap.
From Coq Require Import Lia ZArith ZifyN ZifyNat ZifyBool.
From RecordUpdate Require Import RecordSet.
From Verif.Base Require Import Bytes BytesProofs.
From Verif.Codec Require Import Packets Decode Encode EncodeProofs.
From Verif.Checkers Require Import ChkCodec.
From Verif.Topics Require Import Predefined.
From Verif.Gateway Require Import GwTypes GwStep GwWf.
From Verif.Match Require Import Match MatchProofs.
From Verif.Client Require Import ClTypes ClStep Sound_Client.
From Verif.System Require Import Compose RoutingProofs ComposeProofs_aux ComposeProofs ComposeProofs2_aux ComposeProofs2
  ComposeLoss_aux.
Import RecordSetNotations.
Open Scope N_scope.
Ltac Zify.zify_post_hook ::= Z.div_mod_to_equations.

(* ------------------------------------------------------------------ definitions *)

(* the MQTT-SN form of a broker PUBLISH (QoS 1) on a short topic name *)
Definition pub_sn (dup retain : bool) (topic : bytes) (mid : N) (payload : bytes) : packet :=
  Publish dup 1 retain TIT_SHORT (encode_short topic) mid payload.

Lemma set_dup_pub_sn dup retain topic mid payload : set_dup (pub_sn dup retain topic mid payload) = pub_sn true retain topic mid payload.
Proof. reflexivity. Qed.

Lemma wf_pub_sn dup retain topic mid payload :
  is_short_topic topic = true -> wf_bytes topic -> mid < 65536 -> okb payload = true ->
  wf_pkt (pub_sn dup retain topic mid payload) = true.
Proof. intros Hs Hw Hm Hp. apply wf_pub_short; [lia|assumption|assumption|assumption|assumption]. Qed.

(* a connected system in which the client is quiescent and the gateway session holds exactly one
   transaction: a broker PUBLISH (stored packet pub, message ID mid) awaiting the client's PUBACK,
   retransmitted n times so far, its retry timer due at T; equal clocks, not after T *)
Definition Pend (cfg : e2e_cfg) (y : sys) (pub : packet) (mid n T : N) : Prop :=
  ClQuiet (y_cl y) /\ (exists o sq, GwPendR (y_gw y) o pub mid n T sq) /\ cl_now (y_cl y) = gw_now (y_gw y) /\
  gw_now (y_gw y) <= T /\
  gw_client_id (y_gw y) = k_cid (e_cl cfg) /\ b_closed (y_br y) = false /\ y_br_eof y = false.

(* the handler invocation at time t: the first candidate of the client's handler table, if there is one *)
Definition scb_at (y : sys) (t : N) (topic payload : bytes) (q : N) (retain dup : bool) (mid : N) : list sys_out :=
  match handle_set (cl_handlers (y_cl y)) topic with
  | sub :: _ => [SoCb t sub topic payload q retain dup mid]
  | [] => []
  end.

(* ------------------------------------------------------------------ tools *)

Lemma advance_to_S f cfg y t : advance_to (S f) cfg y t =
  match min_opt (cl_next_deadline (y_cl y)) (gw_next_deadline (y_gw y)) with
  | Some d =>
    if d <? t then
      let '(y1, tr1) := advance_both cfg y (N.max d (N.max (cl_now (y_cl y)) (gw_now (y_gw y)))) in
      let '(y2, tr2) := advance_to f cfg y1 t in
      (y2, tr1 ++ tr2)
    else advance_both cfg y t
  | None => advance_both cfg y t
  end.
Proof. reflexivity. Qed.

Lemma cl_deadline_quiet c : ClQuiet c -> cl_next_deadline c = None.
Proof. intros HQ. unfold cl_next_deadline. rwq HQ. reflexivity. Qed.

Lemma deadline_quiet cfg y : Quiet cfg y -> min_opt (cl_next_deadline (y_cl y)) (gw_next_deadline (y_gw y)) = None.
Proof.
  intros (HC & HG & _). rewrite (cl_deadline_quiet _ HC). unfold gw_next_deadline. rwgq HG. reflexivity.
Qed.

Lemma deadline_pend cfg y pub mid n T : Pend cfg y pub mid n T ->
  min_opt (cl_next_deadline (y_cl y)) (gw_next_deadline (y_gw y)) = Some T.
Proof.
  intros (HC & (o & sq & HP) & _). rewrite (cl_deadline_quiet _ HC). unfold gw_next_deadline. rwgp HP. reflexivity.
Qed.

(* ------------------------------------------------------------------ time passing in a quiescent system *)

Lemma adv_both_quiet cfg y t : Quiet cfg y -> gw_now (y_gw y) <= t ->
  exists y', advance_both cfg y t = (y', []) /\ Quiet cfg y' /\ gw_now (y_gw y') = t /\ y_br y' = y_br y /\
    cl_handlers (y_cl y') = cl_handlers (y_cl y) /\ y_c2g_k y' = y_c2g_k y /\ y_g2c_k y' = y_g2c_k y.
Proof.
  intros (HC & HG & Hnow & Hcid & Hbc & Heof) Ht.
  destruct y as [c g b k1 k2 eof]. cbn [y_cl y_gw y_br y_br_eof y_c2g_k y_g2c_k] in *.
  destruct (cl_adv_quiet_ex (e_cl cfg) c t HC ltac:(lia)) as (c1 & Ec & HC1 & Hcn & Hch & _).
  destruct (gw_adv_quiet_ex (e_gw cfg) g t HG Ht) as (g1 & Eg & HG1 & Hgn & Hgc & _).
  eexists. split; [|split; [|split; [|split; [|split; [|split]]]]].
  - unfold advance_both. sk. rewrite Ec. sk. rewrite Eg. sk. rewrite pump_nil. reflexivity.
  - unfold Quiet. sk. split; [exact HC1|]. split; [exact HG1|]. split; [rewrite Hcn, Hgn; reflexivity|].
    split; [rewrite Hgc; exact Hcid|]. split; assumption.
  - exact Hgn.
  - reflexivity.
  - exact Hch.
  - reflexivity.
  - reflexivity.
Qed.

Lemma adv_to_quiet cfg y t f : Quiet cfg y -> advance_to (S f) cfg y t = advance_both cfg y t.
Proof. intros HQ. rewrite advance_to_S, (deadline_quiet cfg y HQ). reflexivity. Qed.

(* ------------------------------------------------------------------ the retry timer fires *)

(* ... and the retransmission and the PUBACK get through: the exchange completes *)
Lemma adv_both_pend_deliver cfg y dp retain topic mid payload n T :
  Pend cfg y (pub_sn dp retain topic mid payload) mid n T ->
  is_short_topic topic = true -> wf_bytes topic -> 1 <= mid < 65536 -> okb payload = true ->
  n + 1 <= retry_count (e_gw cfg) -> 0 < retry_delay (e_gw cfg) ->
  nth_fault (e_g2c cfg) (y_g2c_k y) = FDeliver -> nth_fault (e_c2g cfg) (y_c2g_k y) = FDeliver ->
  exists y', advance_both cfg y T =
    (y', SoG2C T FDeliver (pack (pub_sn true retain topic mid payload)) ::
         SoC2G T FDeliver (pack (Puback (encode_short topic) mid RC_ACCEPTED)) ::
         scb_at y T topic payload 1 retain true mid ++ [SoBR T (MqPuback mid)]) /\
    Quiet cfg y' /\ gw_now (y_gw y') = T /\ y_br y' = y_br y /\ cl_handlers (y_cl y') = cl_handlers (y_cl y) /\
    y_c2g_k y' = S (y_c2g_k y) /\ y_g2c_k y' = S (y_g2c_k y).
Proof.
  intros (HC & (o & sq & HP) & Hnow & HT & Hcid & Hbc & Heof) Hs Hw Hm Hp Hn Hrd Hfg Hfc.
  destruct y as [c g b k1 k2 eof]. unfold scb_at. cbn [y_cl y_gw y_br y_br_eof y_c2g_k y_g2c_k] in *.
  pose proof (encode_short_lt topic Hs Hw) as He.
  destruct (cl_adv_quiet_ex (e_cl cfg) c T HC ltac:(lia)) as (c1 & Ec & HC1 & Hcn & Hch & _).
  destruct (gw_pend_fire (e_gw cfg) g o _ mid n T sq (T - gw_now g) HP
              ltac:(rewrite set_dup_pub_sn; apply wf_pub_sn; [assumption|assumption|lia|assumption]) Hn Hrd ltac:(lia))
    as (g1 & Eg1 & HP1 & Hg1n & Hg1c & _).
  rewrite set_dup_pub_sn in Eg1, HP1.
  destruct (cl_bpub1 (e_cl cfg) c1 true retain topic mid payload HC1 Hs Hw ltac:(lia) Hp)
    as (c2 & Ec2 & HC2 & (Hc2n & Hc2h & _) & _).
  destruct (gw_pend_puback (e_gw cfg) g1 o _ mid _ _ _ (encode_short topic) HP1 He Hm) as (g2 & Eg2 & HG2 & (Hg2n & Hg2c & _)).
  eexists. split; [|split; [|split; [|split; [|split; [|split]]]]].
  - unfold advance_both. sk. rewrite Ec. sk. rewrite Eg1. sk. rewrite Hfg. sk.
    rewrite pump_fuel_eq. sk. unfold pub_sn. rewrite Ec2. sk. rewrite Hfc. sk. rewrite cl_outs_cb. sk.
    rewrite Eg2. sk. unfold broker_recv. rewrite Hbc. sk. rewrite Hbc. sk.
    rewrite ?app_nil_r, Hcn, Hg1n, Hch. reflexivity.
  - unfold Quiet. sk. split; [exact HC2|]. split; [exact HG2|]. split; [rewrite Hc2n, Hg2n, Hcn, Hg1n; reflexivity|].
    split; [rewrite Hg2c, Hg1c; exact Hcid|]. split; assumption.
  - sk. rewrite Hg2n. exact Hg1n.
  - reflexivity.
  - sk. rewrite Hc2h. exact Hch.
  - reflexivity.
  - reflexivity.
Qed.

(* ... and the retransmission is lost: the exchange keeps waiting, one retransmission further *)
Lemma adv_both_pend_drop cfg y pub mid n T :
  Pend cfg y pub mid n T -> wf_pkt (set_dup pub) = true ->
  n + 1 <= retry_count (e_gw cfg) -> 0 < retry_delay (e_gw cfg) ->
  nth_fault (e_g2c cfg) (y_g2c_k y) = FDrop ->
  exists y', advance_both cfg y T = (y', [SoG2C T FDrop (pack (set_dup pub))]) /\
    Pend cfg y' (set_dup pub) mid (n + 1) (T + retry_delay (e_gw cfg)) /\ gw_now (y_gw y') = T /\ y_br y' = y_br y /\
    cl_handlers (y_cl y') = cl_handlers (y_cl y) /\ y_c2g_k y' = y_c2g_k y /\ y_g2c_k y' = S (y_g2c_k y).
Proof.
  intros (HC & (o & sq & HP) & Hnow & HT & Hcid & Hbc & Heof) Hwf Hn Hrd Hfg.
  destruct y as [c g b k1 k2 eof]. cbn [y_cl y_gw y_br y_br_eof y_c2g_k y_g2c_k] in *.
  destruct (cl_adv_quiet_ex (e_cl cfg) c T HC ltac:(lia)) as (c1 & Ec & HC1 & Hcn & Hch & _).
  destruct (gw_pend_fire (e_gw cfg) g o pub mid n T sq (T - gw_now g) HP Hwf Hn Hrd ltac:(lia))
    as (g1 & Eg1 & HP1 & Hg1n & Hg1c & _).
  eexists. split; [|split; [|split; [|split; [|split; [|split]]]]].
  - unfold advance_both. sk. rewrite Ec. sk. rewrite Eg1. sk. rewrite Hfg. sk. rewrite pump_nil. reflexivity.
  - unfold Pend. sk. split; [exact HC1|]. split; [exists o, (gw_next_seq g); exact HP1|].
    split; [rewrite Hcn, Hg1n; reflexivity|]. split; [rewrite Hg1n; lia|].
    split; [rewrite Hg1c; exact Hcid|]. split; assumption.
  - exact Hg1n.
  - reflexivity.
  - exact Hch.
  - reflexivity.
  - reflexivity.
Qed.

(* ------------------------------------------------------------------ SAdv from a pending state *)

(* k dropped transmissions of the datagram dg, RetryDelay apart, the first at T *)
Fixpoint drops (rd : N) (dg : bytes) (k : nat) (T : N) : list sys_out :=
  match k with
  | O => []
  | S k' => SoG2C T FDrop dg :: drops rd dg k' (T + rd)
  end.

Lemma scb_at_ext y y' t topic payload q retain dup mid : cl_handlers (y_cl y') = cl_handlers (y_cl y) ->
  scb_at y' t topic payload q retain dup mid = scb_at y t topic payload q retain dup mid.
Proof. intros H. unfold scb_at. rewrite H. reflexivity. Qed.

(* the next k retransmissions are lost, the one after them and the client's PUBACK get through *)
Lemma adv_to_pend cfg retain topic mid payload k : forall y dp n T f t,
  Pend cfg y (pub_sn dp retain topic mid payload) mid n T ->
  is_short_topic topic = true -> wf_bytes topic -> 1 <= mid < 65536 -> okb payload = true ->
  n + N.of_nat k + 1 <= retry_count (e_gw cfg) -> 0 < retry_delay (e_gw cfg) ->
  (forall i, (i < k)%nat -> nth_fault (e_g2c cfg) (y_g2c_k y + i) = FDrop) ->
  nth_fault (e_g2c cfg) (y_g2c_k y + k) = FDeliver -> nth_fault (e_c2g cfg) (y_c2g_k y) = FDeliver ->
  T + N.of_nat k * retry_delay (e_gw cfg) <= t -> (k + 2 <= f)%nat ->
  exists y', advance_to f cfg y t =
    (y', drops (retry_delay (e_gw cfg)) (pack (pub_sn true retain topic mid payload)) k T ++
         SoG2C (T + N.of_nat k * retry_delay (e_gw cfg)) FDeliver (pack (pub_sn true retain topic mid payload)) ::
         SoC2G (T + N.of_nat k * retry_delay (e_gw cfg)) FDeliver (pack (Puback (encode_short topic) mid RC_ACCEPTED)) ::
         scb_at y (T + N.of_nat k * retry_delay (e_gw cfg)) topic payload 1 retain true mid ++
         [SoBR (T + N.of_nat k * retry_delay (e_gw cfg)) (MqPuback mid)]) /\
    Quiet cfg y' /\ gw_now (y_gw y') = t /\ y_br y' = y_br y /\ cl_handlers (y_cl y') = cl_handlers (y_cl y) /\
    y_c2g_k y' = S (y_c2g_k y) /\ y_g2c_k y' = S (y_g2c_k y + k).
Proof.
  induction k as [|k IH]; intros y dp n T f t HP Hs Hw Hm Hp Hn Hrd Hdrops Hfg Hfc Ht Hf.
  - (* the retransmission gets through *)
    destruct f as [|[|f]]; [lia|lia|].
    assert (HT0 : T + N.of_nat 0 * retry_delay (e_gw cfg) = T) by lia. rewrite HT0 in *. clear HT0.
    rewrite Nat.add_0_r in Hfg.
    destruct (adv_both_pend_deliver cfg y dp retain topic mid payload n T HP Hs Hw Hm Hp ltac:(lia) Hrd Hfg Hfc)
      as (y1 & E1 & HQ1 & Hn1 & Hb1 & Hh1 & Hkc1 & Hkg1).
    pose proof HP as (_ & _ & Hnow & HT & _).
    rewrite advance_to_S, (deadline_pend cfg y _ _ _ _ HP). cbn [drops app].
    destruct (T <? t) eqn:Elt.
    + assert (Emax : N.max T (N.max (cl_now (y_cl y)) (gw_now (y_gw y))) = T) by lia. rewrite Emax, E1.
      rewrite (adv_to_quiet cfg y1 t f HQ1).
      destruct (adv_both_quiet cfg y1 t HQ1 ltac:(lia)) as (y2 & E2 & HQ2 & Hn2 & Hb2 & Hh2 & Hkc2 & Hkg2).
      rewrite E2, app_nil_r. exists y2. split; [reflexivity|]. split; [exact HQ2|]. split; [exact Hn2|].
      split; [rewrite Hb2; exact Hb1|]. split; [rewrite Hh2; exact Hh1|]. split; [rewrite Hkc2; exact Hkc1|].
      rewrite Hkg2, Hkg1, Nat.add_0_r. reflexivity.
    + assert (t = T) by (apply N.ltb_ge in Elt; lia). subst t. rewrite E1.
      exists y1. split; [reflexivity|]. split; [exact HQ1|]. split; [exact Hn1|]. split; [exact Hb1|]. split; [exact Hh1|].
      split; [exact Hkc1|]. rewrite Hkg1, Nat.add_0_r. reflexivity.
  - (* the retransmission is lost *)
    destruct f as [|f]; [lia|].
    assert (HTk : T + N.of_nat (S k) * retry_delay (e_gw cfg) = T + retry_delay (e_gw cfg) + N.of_nat k * retry_delay (e_gw cfg)) by lia.
    rewrite HTk in *. clear HTk.
    destruct (adv_both_pend_drop cfg y _ mid n T HP
                ltac:(rewrite set_dup_pub_sn; apply wf_pub_sn; [assumption|assumption|lia|assumption]) ltac:(lia) Hrd
                ltac:(rewrite <- (Hdrops O ltac:(lia)); f_equal; lia))
      as (y1 & E1 & HP1 & Hn1 & Hb1 & Hh1 & Hkc1 & Hkg1).
    rewrite set_dup_pub_sn in E1, HP1.
    pose proof HP as (_ & _ & Hnow & HT & _).
    rewrite advance_to_S, (deadline_pend cfg y _ _ _ _ HP).
    assert (Elt : (T <? t) = true) by (apply N.ltb_lt; lia). rewrite Elt.
    assert (Emax : N.max T (N.max (cl_now (y_cl y)) (gw_now (y_gw y))) = T) by lia. rewrite Emax, E1.
    destruct (IH y1 true (n + 1) (T + retry_delay (e_gw cfg)) f t HP1 Hs Hw Hm Hp ltac:(lia) Hrd) as (y2 & E2 & HQ2 & Hn2 & Hb2 & Hh2 & Hkc2 & Hkg2).
    + intros i Hi. rewrite Hkg1. rewrite <- (Hdrops (S i) ltac:(lia)). f_equal. lia.
    + rewrite Hkg1, <- Hfg. f_equal. lia.
    + rewrite Hkc1. exact Hfc.
    + exact Ht.
    + lia.
    + rewrite E2. rewrite (scb_at_ext y y1 _ _ _ _ _ _ _ Hh1). cbn [drops app].
      exists y2. split; [reflexivity|]. split; [exact HQ2|]. split; [exact Hn2|]. split; [rewrite Hb2; exact Hb1|].
      split; [rewrite Hh2; exact Hh1|]. split; [rewrite Hkc2, Hkc1; reflexivity|]. rewrite Hkg2, Hkg1. f_equal. lia.
Qed.

(* ------------------------------------------------------------------ the broker PUBLISH whose first transmission or PUBACK is lost *)

(* the PUBLISH datagram is lost: nothing reaches the client, the gateway waits *)
Lemma bpub_q1_drop cfg y dup retain topic mid payload : Quiet cfg y ->
  is_short_topic topic = true -> wf_bytes topic -> 1 <= mid < 65536 -> okb payload = true ->
  nth_fault (e_g2c cfg) (y_g2c_k y) = FDrop ->
  let t := gw_now (y_gw y) in
  exists y1, sys_step cfg y (SBpub (MqPublish dup 1 retain topic mid payload)) =
    (y1, [SoBS t (MqPublish dup 1 retain topic mid payload); SoG2C t FDrop (pack (pub_sn dup retain topic mid payload))]) /\
    Pend cfg y1 (pub_sn dup retain topic mid payload) mid 0 (t + retry_delay (e_gw cfg)) /\ gw_now (y_gw y1) = t /\
    y_br y1 = y_br y /\ cl_handlers (y_cl y1) = cl_handlers (y_cl y) /\ y_c2g_k y1 = y_c2g_k y /\ y_g2c_k y1 = S (y_g2c_k y).
Proof.
  intros (HC & HG & Hnow & Hcid & Hbc & Heof) Hs Hw Hm Hp Hfg t. subst t.
  destruct y as [c g b k1 k2 eof]. cbn [y_cl y_gw y_br y_br_eof y_c2g_k y_g2c_k] in *.
  destruct (gw_bpub1_pend (e_gw cfg) g dup retain topic mid payload HG Hs Hw Hm Hp) as (g1 & Eg1 & HP1 & (Hgn & Hgc & _)).
  eexists. split; [|split; [|split; [|split; [|split; [|split]]]]].
  - unfold sys_step. sk. rewrite Hbc. rewrite pump_fuel_eq. sk. rewrite Eg1. sk. rewrite Hfg. sk. reflexivity.
  - unfold Pend. sk. split; [exact HC|]. split; [exists (gw_next_obj g), (gw_next_seq g); exact HP1|].
    split; [rewrite Hgn; exact Hnow|]. split; [rewrite Hgn; lia|]. split; [rewrite Hgc; exact Hcid|]. split; assumption.
  - exact Hgn.
  - reflexivity.
  - reflexivity.
  - reflexivity.
  - reflexivity.
Qed.

(* the PUBLISH reaches the client, which invokes the handler; its PUBACK is lost: the gateway waits *)
Lemma bpub_q1_puback_drop cfg y dup retain topic mid payload : Quiet cfg y ->
  is_short_topic topic = true -> wf_bytes topic -> 1 <= mid < 65536 -> okb payload = true ->
  nth_fault (e_g2c cfg) (y_g2c_k y) = FDeliver -> nth_fault (e_c2g cfg) (y_c2g_k y) = FDrop ->
  let t := gw_now (y_gw y) in
  exists y1, sys_step cfg y (SBpub (MqPublish dup 1 retain topic mid payload)) =
    (y1, SoBS t (MqPublish dup 1 retain topic mid payload) ::
         SoG2C t FDeliver (pack (pub_sn dup retain topic mid payload)) ::
         SoC2G t FDrop (pack (Puback (encode_short topic) mid RC_ACCEPTED)) ::
         scb_at y t topic payload 1 retain dup mid) /\
    Pend cfg y1 (pub_sn dup retain topic mid payload) mid 0 (t + retry_delay (e_gw cfg)) /\ gw_now (y_gw y1) = t /\
    y_br y1 = y_br y /\ cl_handlers (y_cl y1) = cl_handlers (y_cl y) /\ y_c2g_k y1 = S (y_c2g_k y) /\ y_g2c_k y1 = S (y_g2c_k y).
Proof.
  intros (HC & HG & Hnow & Hcid & Hbc & Heof) Hs Hw Hm Hp Hfg Hfc t. subst t.
  destruct y as [c g b k1 k2 eof]. unfold scb_at. cbn [y_cl y_gw y_br y_br_eof y_c2g_k y_g2c_k] in *.
  destruct (gw_bpub1_pend (e_gw cfg) g dup retain topic mid payload HG Hs Hw Hm Hp) as (g1 & Eg1 & HP1 & (Hgn & Hgc & _)).
  destruct (cl_bpub1 (e_cl cfg) c dup retain topic mid payload HC Hs Hw ltac:(lia) Hp)
    as (c1 & Ec1 & HC1 & (Hcn & Hch & _) & _).
  eexists. split; [|split; [|split; [|split; [|split; [|split]]]]].
  - unfold sys_step. sk. rewrite Hbc. rewrite pump_fuel_eq. sk. rewrite Eg1. sk. rewrite Hfg. sk.
    unfold pub_sn. rewrite Ec1. sk. rewrite Hfc. sk. rewrite cl_outs_cb. sk.
    rewrite ?app_nil_r, Hnow. reflexivity.
  - unfold Pend. sk. split; [exact HC1|]. split; [exists (gw_next_obj g), (gw_next_seq g); exact HP1|].
    split; [rewrite Hgn, Hcn; exact Hnow|]. split; [rewrite Hgn; lia|]. split; [rewrite Hgc; exact Hcid|]. split; assumption.
  - exact Hgn.
  - reflexivity.
  - exact Hch.
  - reflexivity.
  - reflexivity.
Qed.

(* SAdv d from a pending state: the clock of the system is that of the gateway *)
Lemma sys_step_adv cfg y pub mid n T d : Pend cfg y pub mid n T ->
  sys_step cfg y (SAdv d) = advance_to adv_fuel cfg y (gw_now (y_gw y) + d).
Proof.
  intros (_ & _ & Hnow & _). change (sys_step cfg y (SAdv d)) with (advance_to adv_fuel cfg y (sys_now y + d)).
  unfold sys_now. rewrite Hnow, N.max_id. reflexivity.
Qed.

Lemma scb_at_subs cfg y subs s t payload q retain dup mid : QuietS cfg y subs -> In s subs ->
  scb_at y t (sub_topic s) payload q retain dup mid = [SoCb t (sub_id s) (sub_topic s) payload q retain dup mid].
Proof.
  intros (_ & _ & Hh & Hok) Hin. unfold scb_at. rewrite Hh, (handle_set_subs subs s Hok Hin). reflexivity.
Qed.

(* ------------------------------------------------------------------ 1./3. the PUBLISH is lost 1 + k times in a row *)

(* A broker PUBLISH (QoS 1) on the topic of a subscription; the datagram carrying it to the client and
   its first k retransmissions are lost (1 + k <= RetryCount consecutive losses), the next one and the
   client's PUBACK get through.  The event SBpub produces BS PUBLISH and the dropped G2C PUBLISH and
   nothing else, and leaves the gateway waiting (Pend: retry timer at now + RetryDelay).  Then SAdv d,
   for ANY d >= (1 + k) * RetryDelay, produces: the k dropped retransmissions (DUP set, same message ID,
   topic, payload) at now + RetryDelay, now + 2 RetryDelay, ...; at now + (1 + k) RetryDelay the
   retransmission that is delivered, the client's PUBACK, exactly ONE handler invocation (the handler of
   that subscription, that payload, dup = true as the client sees it), and MQTT PUBACK mid at the
   broker; the system is quiescent again with the same subscriptions, its clock at now + d.
   (No upper bound on d is needed: after the exchange no timer is armed.  The bound on k is that of
   the model's fuel for SAdv.) *)
Theorem e2e_bpub_q1_publish_lost_n cfg y subs s dup retain mid payload k d :
  QuietS cfg y subs -> In s subs -> 1 <= mid < 65536 -> okb payload = true ->
  0 < retry_delay (e_gw cfg) -> N.of_nat k + 1 <= retry_count (e_gw cfg) -> N.of_nat k < 99998 ->
  (forall i, (i <= k)%nat -> nth_fault (e_g2c cfg) (y_g2c_k y + i) = FDrop) ->
  nth_fault (e_g2c cfg) (y_g2c_k y + S k) = FDeliver ->
  nth_fault (e_c2g cfg) (y_c2g_k y) = FDeliver ->
  N.of_nat (S k) * retry_delay (e_gw cfg) <= d ->
  let t := gw_now (y_gw y) in
  let rd := retry_delay (e_gw cfg) in
  let topic := sub_topic s in
  let t' := t + N.of_nat (S k) * rd in
  exists y1 y2,
    sys_step cfg y (SBpub (MqPublish dup 1 retain topic mid payload)) =
      (y1, [SoBS t (MqPublish dup 1 retain topic mid payload);
            SoG2C t FDrop (pack (pub_sn dup retain topic mid payload))]) /\
    Pend cfg y1 (pub_sn dup retain topic mid payload) mid 0 (t + rd) /\
    sys_step cfg y1 (SAdv d) =
      (y2, drops rd (pack (pub_sn true retain topic mid payload)) k (t + rd) ++
           [SoG2C t' FDeliver (pack (pub_sn true retain topic mid payload));
            SoC2G t' FDeliver (pack (Puback (encode_short topic) mid RC_ACCEPTED));
            SoCb t' (sub_id s) topic payload 1 retain true mid;
            SoBR t' (MqPuback mid)]) /\
    QuietS cfg y2 subs /\ gw_now (y_gw y2) = t + d /\
    y_c2g_k y2 = S (y_c2g_k y) /\ y_g2c_k y2 = S (S (y_g2c_k y + k)).
Proof.
  intros HS Hin Hm Hp Hrd Hrc Hk Hdrops Hfg Hfc Hd t rd topic t'. subst t rd topic t'.
  pose proof HS as (HQ & _ & _ & Hf & _).
  rewrite Forall_forall in Hf. destruct (topic_ok_spec _ (Hf s Hin)) as (Hs & Hw & _).
  destruct (bpub_q1_drop cfg y dup retain (sub_topic s) mid payload HQ Hs Hw Hm Hp
              ltac:(rewrite <- (Hdrops O ltac:(lia)); f_equal; lia))
    as (y1 & E1 & HP1 & Hn1 & Hb1 & Hh1 & Hkc1 & Hkg1).
  destruct (adv_to_pend cfg retain (sub_topic s) mid payload k y1 dup 0 (gw_now (y_gw y) + retry_delay (e_gw cfg))
              adv_fuel (gw_now (y_gw y) + d) HP1 Hs Hw Hm Hp ltac:(lia) Hrd)
    as (y2 & E2 & HQ2 & Hn2 & Hb2 & Hh2 & Hkc2 & Hkg2).
  - intros i Hi. rewrite Hkg1, <- (Hdrops (S i) ltac:(lia)). f_equal. lia.
  - rewrite Hkg1, <- Hfg. f_equal. lia.
  - rewrite Hkc1. exact Hfc.
  - lia.
  - unfold adv_fuel. lia.
  - exists y1, y2. split; [exact E1|]. split; [exact HP1|]. split; [|split; [|split; [|split]]].
    + rewrite (sys_step_adv cfg y1 _ _ _ _ d HP1), Hn1, E2.
      rewrite (scb_at_ext y y1 _ _ _ _ _ _ _ Hh1), (scb_at_subs cfg y subs s _ payload 1 retain true mid HS Hin).
      assert (HT : gw_now (y_gw y) + retry_delay (e_gw cfg) + N.of_nat k * retry_delay (e_gw cfg) =
                   gw_now (y_gw y) + N.of_nat (S k) * retry_delay (e_gw cfg)) by lia.
      rewrite HT. reflexivity.
    + apply (QuietS_frame cfg y y2 subs HS HQ2); [rewrite Hb2; exact Hb1|rewrite Hh2; exact Hh1].
    + exact Hn2.
    + rewrite Hkc2, Hkc1. reflexivity.
    + rewrite Hkg2, Hkg1. reflexivity.
Qed.

(* 1. the case k = 0: ONE lost datagram (the PUBLISH) *)
Theorem e2e_bpub_q1_publish_lost cfg y subs s dup retain mid payload d :
  QuietS cfg y subs -> In s subs -> 1 <= mid < 65536 -> okb payload = true ->
  0 < retry_delay (e_gw cfg) -> 1 <= retry_count (e_gw cfg) ->
  nth_fault (e_g2c cfg) (y_g2c_k y) = FDrop ->
  nth_fault (e_g2c cfg) (S (y_g2c_k y)) = FDeliver ->
  nth_fault (e_c2g cfg) (y_c2g_k y) = FDeliver ->
  retry_delay (e_gw cfg) <= d ->
  let t := gw_now (y_gw y) in
  let rd := retry_delay (e_gw cfg) in
  let topic := sub_topic s in
  exists y1 y2,
    sys_step cfg y (SBpub (MqPublish dup 1 retain topic mid payload)) =
      (y1, [SoBS t (MqPublish dup 1 retain topic mid payload);
            SoG2C t FDrop (pack (Publish dup 1 retain TIT_SHORT (encode_short topic) mid payload))]) /\
    Pend cfg y1 (Publish dup 1 retain TIT_SHORT (encode_short topic) mid payload) mid 0 (t + rd) /\
    sys_step cfg y1 (SAdv d) =
      (y2, [SoG2C (t + rd) FDeliver (pack (set_dup (Publish dup 1 retain TIT_SHORT (encode_short topic) mid payload)));
            SoC2G (t + rd) FDeliver (pack (Puback (encode_short topic) mid RC_ACCEPTED));
            SoCb (t + rd) (sub_id s) topic payload 1 retain true mid;
            SoBR (t + rd) (MqPuback mid)]) /\
    QuietS cfg y2 subs /\ gw_now (y_gw y2) = t + d /\
    y_c2g_k y2 = S (y_c2g_k y) /\ y_g2c_k y2 = S (S (y_g2c_k y)).
Proof.
  intros HS Hin Hm Hp Hrd Hrc Hfg0 Hfg1 Hfc Hd t rd topic. subst t rd topic.
  destruct (e2e_bpub_q1_publish_lost_n cfg y subs s dup retain mid payload O d HS Hin Hm Hp Hrd ltac:(lia) ltac:(lia))
    as (y1 & y2 & E1 & HP1 & E2 & HS2 & Hn2 & Hkc2 & Hkg2).
  - intros i Hi. assert (i = O) by lia. subst i. rewrite Nat.add_0_r. exact Hfg0.
  - rewrite Nat.add_1_r. exact Hfg1.
  - exact Hfc.
  - lia.
  - exists y1, y2. split; [exact E1|]. split; [exact HP1|]. split; [|split; [exact HS2|split; [exact Hn2|split; [exact Hkc2|]]]].
    + rewrite E2. cbn [drops app].
      assert (HT : gw_now (y_gw y) + N.of_nat 1 * retry_delay (e_gw cfg) = gw_now (y_gw y) + retry_delay (e_gw cfg)) by lia.
      rewrite HT. reflexivity.
    + rewrite Hkg2, Nat.add_0_r. reflexivity.
Qed.

(* ------------------------------------------------------------------ 2. the client's PUBACK is lost *)

(* The PUBLISH reaches the client: it answers PUBACK and invokes the handler (dup as the broker sent
   it); the PUBACK datagram is lost, so the gateway keeps waiting and the broker has received nothing.
   At now + RetryDelay the gateway retransmits the PUBLISH with DUP set; the client acknowledges again
   and - QoS 1 is at-least-once, the client library keeps no record of message IDs it has seen -
   invokes the handler a SECOND time, with dup = true; this PUBACK gets through and the broker receives
   MQTT PUBACK mid.  In all: TWO handler invocations, one PUBACK at the broker. *)
Theorem e2e_bpub_q1_puback_lost cfg y subs s dup retain mid payload d :
  QuietS cfg y subs -> In s subs -> 1 <= mid < 65536 -> okb payload = true ->
  0 < retry_delay (e_gw cfg) -> 1 <= retry_count (e_gw cfg) ->
  nth_fault (e_g2c cfg) (y_g2c_k y) = FDeliver -> nth_fault (e_c2g cfg) (y_c2g_k y) = FDrop ->
  nth_fault (e_g2c cfg) (S (y_g2c_k y)) = FDeliver -> nth_fault (e_c2g cfg) (S (y_c2g_k y)) = FDeliver ->
  retry_delay (e_gw cfg) <= d ->
  let t := gw_now (y_gw y) in
  let rd := retry_delay (e_gw cfg) in
  let topic := sub_topic s in
  exists y1 y2,
    sys_step cfg y (SBpub (MqPublish dup 1 retain topic mid payload)) =
      (y1, [SoBS t (MqPublish dup 1 retain topic mid payload);
            SoG2C t FDeliver (pack (Publish dup 1 retain TIT_SHORT (encode_short topic) mid payload));
            SoC2G t FDrop (pack (Puback (encode_short topic) mid RC_ACCEPTED));
            SoCb t (sub_id s) topic payload 1 retain dup mid]) /\
    Pend cfg y1 (Publish dup 1 retain TIT_SHORT (encode_short topic) mid payload) mid 0 (t + rd) /\
    sys_step cfg y1 (SAdv d) =
      (y2, [SoG2C (t + rd) FDeliver (pack (set_dup (Publish dup 1 retain TIT_SHORT (encode_short topic) mid payload)));
            SoC2G (t + rd) FDeliver (pack (Puback (encode_short topic) mid RC_ACCEPTED));
            SoCb (t + rd) (sub_id s) topic payload 1 retain true mid;
            SoBR (t + rd) (MqPuback mid)]) /\
    QuietS cfg y2 subs /\ gw_now (y_gw y2) = t + d /\
    y_c2g_k y2 = S (S (y_c2g_k y)) /\ y_g2c_k y2 = S (S (y_g2c_k y)).
Proof.
  intros HS Hin Hm Hp Hrd Hrc Hfg0 Hfc0 Hfg1 Hfc1 Hd t rd topic. subst t rd topic.
  pose proof HS as (HQ & _ & _ & Hf & _).
  rewrite Forall_forall in Hf. destruct (topic_ok_spec _ (Hf s Hin)) as (Hs & Hw & _).
  destruct (bpub_q1_puback_drop cfg y dup retain (sub_topic s) mid payload HQ Hs Hw Hm Hp Hfg0 Hfc0)
    as (y1 & E1 & HP1 & Hn1 & Hb1 & Hh1 & Hkc1 & Hkg1).
  destruct (adv_to_pend cfg retain (sub_topic s) mid payload O y1 dup 0 (gw_now (y_gw y) + retry_delay (e_gw cfg))
              adv_fuel (gw_now (y_gw y) + d) HP1 Hs Hw Hm Hp ltac:(lia) Hrd)
    as (y2 & E2 & HQ2 & Hn2 & Hb2 & Hh2 & Hkc2 & Hkg2).
  - intros i Hi. lia.
  - rewrite Hkg1, Nat.add_0_r. exact Hfg1.
  - rewrite Hkc1. exact Hfc1.
  - lia.
  - unfold adv_fuel. lia.
  - exists y1, y2. split; [|split; [exact HP1|split; [|split; [|split; [|split]]]]].
    + rewrite E1, (scb_at_subs cfg y subs s _ payload 1 retain dup mid HS Hin). reflexivity.
    + rewrite (sys_step_adv cfg y1 _ _ _ _ d HP1), Hn1, E2.
      rewrite (scb_at_ext y y1 _ _ _ _ _ _ _ Hh1), (scb_at_subs cfg y subs s _ payload 1 retain true mid HS Hin).
      assert (HT : gw_now (y_gw y) + retry_delay (e_gw cfg) + N.of_nat 0 * retry_delay (e_gw cfg) =
                   gw_now (y_gw y) + retry_delay (e_gw cfg)) by lia.
      rewrite HT. reflexivity.
    + apply (QuietS_frame cfg y y2 subs HS HQ2); [rewrite Hb2; exact Hb1|rewrite Hh2; exact Hh1].
    + exact Hn2.
    + rewrite Hkc2, Hkc1. reflexivity.
    + rewrite Hkg2, Hkg1, Nat.add_0_r. reflexivity.
Qed.

(* ------------------------------------------------------------------ 4. any pattern of losses within the retry budget *)

(* the retry timer fires, the retransmission reaches the client (PUBACK, handler), the PUBACK is lost *)
Lemma adv_both_pend_ackdrop cfg y dp retain topic mid payload n T :
  Pend cfg y (pub_sn dp retain topic mid payload) mid n T ->
  is_short_topic topic = true -> wf_bytes topic -> 1 <= mid < 65536 -> okb payload = true ->
  n + 1 <= retry_count (e_gw cfg) -> 0 < retry_delay (e_gw cfg) ->
  nth_fault (e_g2c cfg) (y_g2c_k y) = FDeliver -> nth_fault (e_c2g cfg) (y_c2g_k y) = FDrop ->
  exists y', advance_both cfg y T =
    (y', SoG2C T FDeliver (pack (pub_sn true retain topic mid payload)) ::
         SoC2G T FDrop (pack (Puback (encode_short topic) mid RC_ACCEPTED)) ::
         scb_at y T topic payload 1 retain true mid) /\
    Pend cfg y' (pub_sn true retain topic mid payload) mid (n + 1) (T + retry_delay (e_gw cfg)) /\
    gw_now (y_gw y') = T /\ y_br y' = y_br y /\ cl_handlers (y_cl y') = cl_handlers (y_cl y) /\
    y_c2g_k y' = S (y_c2g_k y) /\ y_g2c_k y' = S (y_g2c_k y).
Proof.
  intros (HC & (o & sq & HP) & Hnow & HT & Hcid & Hbc & Heof) Hs Hw Hm Hp Hn Hrd Hfg Hfc.
  destruct y as [c g b k1 k2 eof]. unfold scb_at. cbn [y_cl y_gw y_br y_br_eof y_c2g_k y_g2c_k] in *.
  destruct (cl_adv_quiet_ex (e_cl cfg) c T HC ltac:(lia)) as (c1 & Ec & HC1 & Hcn & Hch & _).
  destruct (gw_pend_fire (e_gw cfg) g o _ mid n T sq (T - gw_now g) HP
              ltac:(rewrite set_dup_pub_sn; apply wf_pub_sn; [assumption|assumption|lia|assumption]) Hn Hrd ltac:(lia))
    as (g1 & Eg1 & HP1 & Hg1n & Hg1c & _).
  rewrite set_dup_pub_sn in Eg1, HP1.
  destruct (cl_bpub1 (e_cl cfg) c1 true retain topic mid payload HC1 Hs Hw ltac:(lia) Hp)
    as (c2 & Ec2 & HC2 & (Hc2n & Hc2h & _) & _).
  eexists. split; [|split; [|split; [|split; [|split; [|split]]]]].
  - unfold advance_both. sk. rewrite Ec. sk. rewrite Eg1. sk. rewrite Hfg. sk.
    rewrite pump_fuel_eq. sk. unfold pub_sn. rewrite Ec2. sk. rewrite Hfc. sk. rewrite cl_outs_cb. sk.
    rewrite ?app_nil_r, Hcn, Hch. reflexivity.
  - unfold Pend. sk. split; [exact HC2|]. split; [exists o, (gw_next_seq g); exact HP1|].
    split; [rewrite Hc2n, Hcn, Hg1n; reflexivity|]. split; [rewrite Hg1n; lia|].
    split; [rewrite Hg1c; exact Hcid|]. split; assumption.
  - exact Hg1n.
  - reflexivity.
  - sk. rewrite Hc2h. exact Hch.
  - reflexivity.
  - reflexivity.
Qed.

(* A failed round is described by a boolean: true = the PUBLISH datagram is lost, false = the PUBLISH is
   delivered and the client's PUBACK is lost.  The fault lists must say so at the positions the rounds
   use (kc, kg: the link counters when the round begins), and let the round after the last failed one
   through. *)
Fixpoint faults_ok (cfg : e2e_cfg) (rs : list bool) (kc kg : nat) : Prop :=
  match rs with
  | [] => nth_fault (e_g2c cfg) kg = FDeliver /\ nth_fault (e_c2g cfg) kc = FDeliver
  | true :: r => nth_fault (e_g2c cfg) kg = FDrop /\ faults_ok cfg r kc (S kg)
  | false :: r => nth_fault (e_g2c cfg) kg = FDeliver /\ nth_fault (e_c2g cfg) kc = FDrop /\ faults_ok cfg r (S kc) (S kg)
  end.

Definition count_false (rs : list bool) : nat := length (List.filter negb rs).

(* the handler invocation, given the candidates hs of the client's handler table for the topic *)
Definition cb_of (hs : list N) (t : N) (topic payload : bytes) (q : N) (retain dup : bool) (mid : N) : list sys_out :=
  match hs with
  | sub :: _ => [SoCb t sub topic payload q retain dup mid]
  | [] => []
  end.

(* the trace of the failed retransmission rounds rs, RetryDelay apart, the first at T *)
Fixpoint lost_rounds (rd : N) (retain : bool) (topic : bytes) (mid : N) (payload : bytes) (hs : list N)
         (rs : list bool) (T : N) : list sys_out :=
  match rs with
  | [] => []
  | true :: r =>
    SoG2C T FDrop (pack (pub_sn true retain topic mid payload)) :: lost_rounds rd retain topic mid payload hs r (T + rd)
  | false :: r =>
    SoG2C T FDeliver (pack (pub_sn true retain topic mid payload)) ::
    SoC2G T FDrop (pack (Puback (encode_short topic) mid RC_ACCEPTED)) ::
    cb_of hs T topic payload 1 retain true mid ++ lost_rounds rd retain topic mid payload hs r (T + rd)
  end.

(* the round that succeeds *)
Definition last_round (retain : bool) (topic : bytes) (mid : N) (payload : bytes) (hs : list N) (T : N) : list sys_out :=
  SoG2C T FDeliver (pack (pub_sn true retain topic mid payload)) ::
  SoC2G T FDeliver (pack (Puback (encode_short topic) mid RC_ACCEPTED)) ::
  cb_of hs T topic payload 1 retain true mid ++ [SoBR T (MqPuback mid)].

Lemma adv_to_rounds cfg retain topic mid payload hs rs : forall y dp n T f t,
  Pend cfg y (pub_sn dp retain topic mid payload) mid n T ->
  is_short_topic topic = true -> wf_bytes topic -> 1 <= mid < 65536 -> okb payload = true ->
  handle_set (cl_handlers (y_cl y)) topic = hs ->
  n + N.of_nat (length rs) + 1 <= retry_count (e_gw cfg) -> 0 < retry_delay (e_gw cfg) ->
  faults_ok cfg rs (y_c2g_k y) (y_g2c_k y) ->
  T + N.of_nat (length rs) * retry_delay (e_gw cfg) <= t -> (length rs + 2 <= f)%nat ->
  exists y', advance_to f cfg y t =
    (y', lost_rounds (retry_delay (e_gw cfg)) retain topic mid payload hs rs T ++
         last_round retain topic mid payload hs (T + N.of_nat (length rs) * retry_delay (e_gw cfg))) /\
    Quiet cfg y' /\ gw_now (y_gw y') = t /\ y_br y' = y_br y /\ cl_handlers (y_cl y') = cl_handlers (y_cl y) /\
    y_c2g_k y' = S (y_c2g_k y + count_false rs) /\ y_g2c_k y' = S (y_g2c_k y + length rs).
Proof.
  induction rs as [|r rs IH]; intros y dp n T f t HP Hs Hw Hm Hp Hhs Hn Hrd Hfaults Ht Hf.
  - (* the retransmission and the PUBACK get through *)
    destruct Hfaults as [Hfg Hfc]. cbn [length] in *.
    destruct (adv_to_pend cfg retain topic mid payload O y dp n T f t HP Hs Hw Hm Hp ltac:(lia) Hrd
                ltac:(intros i Hi; lia) ltac:(rewrite Nat.add_0_r; exact Hfg) Hfc Ht Hf)
      as (y' & E & HQ' & Hn' & Hb' & Hh' & Hkc' & Hkg').
    exists y'. split; [|split; [exact HQ'|split; [exact Hn'|split; [exact Hb'|split; [exact Hh'|split]]]]].
    + rewrite E. unfold last_round, scb_at. rewrite Hhs. reflexivity.
    + rewrite Hkc'. unfold count_false. cbn [List.filter length]. rewrite Nat.add_0_r. reflexivity.
    + exact Hkg'.
  - destruct f as [|f]; [cbn [length] in Hf; lia|].
    assert (HTk : T + N.of_nat (length (r :: rs)) * retry_delay (e_gw cfg) =
                  T + retry_delay (e_gw cfg) + N.of_nat (length rs) * retry_delay (e_gw cfg)) by (cbn [length]; lia).
    rewrite HTk in *. clear HTk.
    pose proof HP as (_ & _ & Hnow & HT & _).
    assert (Elt : (T <? t) = true) by (apply N.ltb_lt; lia).
    assert (Emax : N.max T (N.max (cl_now (y_cl y)) (gw_now (y_gw y))) = T) by lia.
    rewrite advance_to_S, (deadline_pend cfg y _ _ _ _ HP), Elt, Emax.
    destruct r.
    + (* the PUBLISH is lost *)
      destruct Hfaults as [Hfg Hrest].
      destruct (adv_both_pend_drop cfg y _ mid n T HP
                  ltac:(rewrite set_dup_pub_sn; apply wf_pub_sn; [assumption|assumption|lia|assumption])
                  ltac:(cbn [length] in Hn; lia) Hrd Hfg)
        as (y1 & E1 & HP1 & Hn1 & Hb1 & Hh1 & Hkc1 & Hkg1).
      rewrite set_dup_pub_sn in E1, HP1. rewrite E1.
      destruct (IH y1 true (n + 1) (T + retry_delay (e_gw cfg)) f t HP1 Hs Hw Hm Hp ltac:(rewrite Hh1; exact Hhs)
                  ltac:(cbn [length] in Hn; lia) Hrd ltac:(rewrite Hkc1, Hkg1; exact Hrest) Ht ltac:(cbn [length] in Hf; lia))
        as (y2 & E2 & HQ2 & Hn2 & Hb2 & Hh2 & Hkc2 & Hkg2).
      rewrite E2. cbn [lost_rounds app].
      exists y2. split; [reflexivity|]. split; [exact HQ2|]. split; [exact Hn2|]. split; [rewrite Hb2; exact Hb1|].
      split; [rewrite Hh2; exact Hh1|]. split.
      * rewrite Hkc2, Hkc1. reflexivity.
      * rewrite Hkg2, Hkg1. cbn [length]. f_equal. lia.
    + (* the PUBACK is lost *)
      destruct Hfaults as (Hfg & Hfc & Hrest).
      destruct (adv_both_pend_ackdrop cfg y dp retain topic mid payload n T HP Hs Hw Hm Hp
                  ltac:(cbn [length] in Hn; lia) Hrd Hfg Hfc)
        as (y1 & E1 & HP1 & Hn1 & Hb1 & Hh1 & Hkc1 & Hkg1).
      rewrite E1.
      destruct (IH y1 true (n + 1) (T + retry_delay (e_gw cfg)) f t HP1 Hs Hw Hm Hp ltac:(rewrite Hh1; exact Hhs)
                  ltac:(cbn [length] in Hn; lia) Hrd ltac:(rewrite Hkc1, Hkg1; exact Hrest) Ht ltac:(cbn [length] in Hf; lia))
        as (y2 & E2 & HQ2 & Hn2 & Hb2 & Hh2 & Hkc2 & Hkg2).
      rewrite E2. unfold scb_at. rewrite Hhs. cbn [lost_rounds app]. rewrite <- app_assoc.
      exists y2. split; [reflexivity|]. split; [exact HQ2|]. split; [exact Hn2|]. split; [rewrite Hb2; exact Hb1|].
      split; [rewrite Hh2; exact Hh1|]. split.
      * rewrite Hkc2, Hkc1. unfold count_false. cbn [List.filter negb length]. f_equal. lia.
      * rewrite Hkg2, Hkg1. cbn [length]. f_equal. lia.
Qed.

(* the trace of the event SBpub when the first transmission fails (b0 as above; dup: the broker's flag) *)
Definition first_round (b0 : bool) (t : N) (dup retain : bool) (topic : bytes) (mid : N) (payload : bytes) (hs : list N)
  : list sys_out :=
  SoBS t (MqPublish dup 1 retain topic mid payload) ::
  (if b0 then [SoG2C t FDrop (pack (pub_sn dup retain topic mid payload))]
   else SoG2C t FDeliver (pack (pub_sn dup retain topic mid payload)) ::
        SoC2G t FDrop (pack (Puback (encode_short topic) mid RC_ACCEPTED)) ::
        cb_of hs t topic payload 1 retain dup mid).

(* C16 (liveness) for one broker PUBLISH (QoS 1, short topic name, subscribed) and no other traffic:
   the first transmission and the following length rs retransmission rounds each lose one datagram
   (the PUBLISH or the PUBACK, as b0 :: rs says), 1 + length rs <= RetryCount rounds in all; the next
   round gets through.  Exact traces of SBpub and of SAdv d, for any d >= (1 + length rs) * RetryDelay;
   the system is quiescent again with the same subscriptions. *)
Theorem e2e_bpub_q1_lossy cfg y subs s dup retain mid payload b0 rs d :
  QuietS cfg y subs -> In s subs -> 1 <= mid < 65536 -> okb payload = true ->
  0 < retry_delay (e_gw cfg) -> N.of_nat (length (b0 :: rs)) <= retry_count (e_gw cfg) -> N.of_nat (length rs) < 99998 ->
  faults_ok cfg (b0 :: rs) (y_c2g_k y) (y_g2c_k y) ->
  N.of_nat (length (b0 :: rs)) * retry_delay (e_gw cfg) <= d ->
  let t := gw_now (y_gw y) in
  let rd := retry_delay (e_gw cfg) in
  let topic := sub_topic s in
  exists y1 y2,
    sys_step cfg y (SBpub (MqPublish dup 1 retain topic mid payload)) =
      (y1, first_round b0 t dup retain topic mid payload [sub_id s]) /\
    sys_step cfg y1 (SAdv d) =
      (y2, lost_rounds rd retain topic mid payload [sub_id s] rs (t + rd) ++
           last_round retain topic mid payload [sub_id s] (t + N.of_nat (length (b0 :: rs)) * rd)) /\
    QuietS cfg y2 subs /\ gw_now (y_gw y2) = t + d /\
    y_c2g_k y2 = S (y_c2g_k y + count_false (b0 :: rs)) /\ y_g2c_k y2 = S (y_g2c_k y + length (b0 :: rs)).
Proof.
  intros HS Hin Hm Hp Hrd Hrc Hk Hfaults Hd t rd topic. subst t rd topic.
  pose proof HS as (HQ & _ & Hhd & Hsok). pose proof Hsok as (Hf & _).
  rewrite Forall_forall in Hf. destruct (topic_ok_spec _ (Hf s Hin)) as (Hs & Hw & _).
  pose proof (handle_set_subs subs s Hsok Hin) as Hhs. rewrite <- Hhd in Hhs.
  assert (HTk : gw_now (y_gw y) + N.of_nat (length (b0 :: rs)) * retry_delay (e_gw cfg) =
                gw_now (y_gw y) + retry_delay (e_gw cfg) + N.of_nat (length rs) * retry_delay (e_gw cfg)) by (cbn [length]; lia).
  rewrite HTk. cbn [length] in Hrc, Hd.
  assert (Hstep1 : exists y1, sys_step cfg y (SBpub (MqPublish dup 1 retain (sub_topic s) mid payload)) =
                     (y1, first_round b0 (gw_now (y_gw y)) dup retain (sub_topic s) mid payload [sub_id s]) /\
                   Pend cfg y1 (pub_sn dup retain (sub_topic s) mid payload) mid 0 (gw_now (y_gw y) + retry_delay (e_gw cfg)) /\
                   gw_now (y_gw y1) = gw_now (y_gw y) /\ y_br y1 = y_br y /\ cl_handlers (y_cl y1) = cl_handlers (y_cl y) /\
                   faults_ok cfg rs (y_c2g_k y1) (y_g2c_k y1) /\
                   (y_c2g_k y1 + count_false rs = y_c2g_k y + count_false (b0 :: rs))%nat /\ y_g2c_k y1 = S (y_g2c_k y)).
  { destruct b0.
    - destruct Hfaults as [Hfg Hrest].
      destruct (bpub_q1_drop cfg y dup retain (sub_topic s) mid payload HQ Hs Hw Hm Hp Hfg)
        as (y1 & E1 & HP1 & Hn1 & Hb1 & Hh1 & Hkc1 & Hkg1).
      exists y1. split; [exact E1|]. split; [exact HP1|]. split; [exact Hn1|]. split; [exact Hb1|]. split; [exact Hh1|].
      split; [rewrite Hkc1, Hkg1; exact Hrest|]. split; [rewrite Hkc1; reflexivity|exact Hkg1].
    - destruct Hfaults as (Hfg & Hfc & Hrest).
      destruct (bpub_q1_puback_drop cfg y dup retain (sub_topic s) mid payload HQ Hs Hw Hm Hp Hfg Hfc)
        as (y1 & E1 & HP1 & Hn1 & Hb1 & Hh1 & Hkc1 & Hkg1).
      exists y1. split; [rewrite E1; unfold first_round, scb_at; rewrite Hhs; reflexivity|].
      split; [exact HP1|]. split; [exact Hn1|]. split; [exact Hb1|]. split; [exact Hh1|].
      split; [rewrite Hkc1, Hkg1; exact Hrest|]. split; [|exact Hkg1].
      rewrite Hkc1. unfold count_false. cbn [List.filter negb length]. lia. }
  destruct Hstep1 as (y1 & E1 & HP1 & Hn1 & Hb1 & Hh1 & Hrest & Hkc1 & Hkg1).
  destruct (adv_to_rounds cfg retain (sub_topic s) mid payload [sub_id s] rs y1 dup 0
              (gw_now (y_gw y) + retry_delay (e_gw cfg)) adv_fuel (gw_now (y_gw y) + d) HP1 Hs Hw Hm Hp
              ltac:(rewrite Hh1; exact Hhs) ltac:(lia) Hrd Hrest ltac:(lia) ltac:(unfold adv_fuel; lia))
    as (y2 & E2 & HQ2 & Hn2 & Hb2 & Hh2 & Hkc2 & Hkg2).
  exists y1, y2. split; [exact E1|]. split; [|split; [|split; [|split]]].
  - rewrite (sys_step_adv cfg y1 _ _ _ _ d HP1), Hn1. exact E2.
  - apply (QuietS_frame cfg y y2 subs HS HQ2); [rewrite Hb2; exact Hb1|rewrite Hh2; exact Hh1].
  - exact Hn2.
  - rewrite Hkc2, Hkc1. reflexivity.
  - rewrite Hkg2, Hkg1. cbn [length]. f_equal. lia.
Qed.

(* what the two traces say together: the handler of the subscription is invoked once per round in
   which the PUBLISH reached the client - 1 + (number of lost PUBACKs) times, at least once -, always
   with that topic and payload; no API call returns; the broker receives exactly one packet: PUBACK mid *)
Lemma cbs_lost_rounds rd retain topic mid payload h rs : forall T,
  cbs_of (lost_rounds rd retain topic mid payload [h] rs T) = repeat (h, topic, payload) (count_false rs) /\
  brs_of (lost_rounds rd retain topic mid payload [h] rs T) = [] /\
  rets_of (lost_rounds rd retain topic mid payload [h] rs T) = [].
Proof.
  induction rs as [|r rs IH]; intros T; [repeat split|].
  destruct (IH (T + rd)) as (IH1 & IH2 & IH3). destruct r; cbn [lost_rounds].
  - split; [exact IH1|split; [exact IH2|exact IH3]].
  - unfold cbs_of, brs_of, rets_of in *. cbn [flat_map cb_of app]. rewrite IH1, IH2, IH3. repeat split.
Qed.

Theorem e2e_bpub_q1_lossy_counts cfg y subs s dup retain mid payload b0 rs d :
  QuietS cfg y subs -> In s subs -> 1 <= mid < 65536 -> okb payload = true ->
  0 < retry_delay (e_gw cfg) -> N.of_nat (length (b0 :: rs)) <= retry_count (e_gw cfg) -> N.of_nat (length rs) < 99998 ->
  faults_ok cfg (b0 :: rs) (y_c2g_k y) (y_g2c_k y) ->
  N.of_nat (length (b0 :: rs)) * retry_delay (e_gw cfg) <= d ->
  exists y1 tr1 y2 tr2,
    sys_step cfg y (SBpub (MqPublish dup 1 retain (sub_topic s) mid payload)) = (y1, tr1) /\
    sys_step cfg y1 (SAdv d) = (y2, tr2) /\
    cbs_of (tr1 ++ tr2) = repeat (sub_id s, sub_topic s, payload) (S (count_false (b0 :: rs))) /\
    brs_of (tr1 ++ tr2) = [MqPuback mid] /\ rets_of (tr1 ++ tr2) = [] /\
    QuietS cfg y2 subs.
Proof.
  intros HS Hin Hm Hp Hrd Hrc Hk Hfaults Hd.
  destruct (e2e_bpub_q1_lossy cfg y subs s dup retain mid payload b0 rs d HS Hin Hm Hp Hrd Hrc Hk Hfaults Hd)
    as (y1 & y2 & E1 & E2 & HS2 & _).
  eexists y1, _, y2, _. split; [exact E1|]. split; [exact E2|]. split; [|split; [|split; [|exact HS2]]].
  - unfold cbs_of. rewrite !flat_map_app. fold (cbs_of (lost_rounds (retry_delay (e_gw cfg)) retain (sub_topic s) mid payload [sub_id s] rs
        (gw_now (y_gw y) + retry_delay (e_gw cfg)))).
    rewrite (proj1 (cbs_lost_rounds _ retain (sub_topic s) mid payload (sub_id s) rs _)).
    destruct b0; unfold count_false; cbn [first_round last_round flat_map cb_of app List.filter negb length repeat].
    + rewrite repeat_cons. reflexivity.
    + rewrite repeat_cons. reflexivity.
  - unfold brs_of. rewrite !flat_map_app. fold (brs_of (lost_rounds (retry_delay (e_gw cfg)) retain (sub_topic s) mid payload [sub_id s] rs
        (gw_now (y_gw y) + retry_delay (e_gw cfg)))).
    rewrite (proj1 (proj2 (cbs_lost_rounds _ retain (sub_topic s) mid payload (sub_id s) rs _))).
    destruct b0; reflexivity.
  - unfold rets_of. rewrite !flat_map_app. fold (rets_of (lost_rounds (retry_delay (e_gw cfg)) retain (sub_topic s) mid payload [sub_id s] rs
        (gw_now (y_gw y) + retry_delay (e_gw cfg)))).
    rewrite (proj2 (proj2 (cbs_lost_rounds _ retain (sub_topic s) mid payload (sub_id s) rs _))).
    destruct b0; reflexivity.
Qed.

(* ------------------------------------------------------------------ 5. concrete instances (the hypotheses are satisfiable; the bound is tight) *)

Lemma cfg_ok_ecfg0 : cfg_ok ecfg0.
Proof.
  split; [split; reflexivity|]. split.
  { split; [constructor|]. split; [reflexivity|]. split; [reflexivity|]. split; [reflexivity|]. split; exact I. }
  split.
  { unfold wf_cl_cfg, ecfg0, ccfg0. cbn [e_cl k_cid k_user k_pass k_will k_wmsg k_wqos k_rdelay k_ctimeout].
    repeat split; try (apply wf_bytesb_spec; reflexivity); try reflexivity; try (intros H; discriminate H). }
  split; [reflexivity|]. split; [reflexivity|]. split; [reflexivity|]. split; reflexivity.
Qed.

(* the state after Connect and Subscribe "ab" (QoS 1, handler 2) over a link that has delivered so far *)
Definition loss_y0 : sys :=
  snd (sys_run ecfg0 (sys_init ecfg0) [SCall 1 AConnect; SCall 2 (ASubscribe [97; 98] 1)]).
Definition loss_sub : subn := ([97; 98], 1, 2).

Lemma loss_y0_quiet : QuietS ecfg0 loss_y0 [loss_sub].
Proof.
  destruct (C26_partial_subscriptions ecfg0 1 [SCall 2 (ASubscribe [97; 98] 1)] cfg_ok_ecfg0 eq_refl)
    as (os0 & oss & y' & Er & _ & _ & HS).
  assert (Ey : y' = loss_y0) by (unfold loss_y0; rewrite Er; reflexivity). rewrite <- Ey. exact HS.
Qed.

Lemma loss_y0_facts : gw_now (y_gw loss_y0) = 0 /\ y_c2g_k loss_y0 = 2%nat /\ y_g2c_k loss_y0 = 2%nat.
Proof. vm_compute. repeat split; reflexivity. Qed.

(* the link from now on: the PUBLISH is lost, then the PUBACK of its first retransmission, then the second
   retransmission; the third retransmission and its PUBACK get through (3 = RetryCount failed rounds) *)
Definition ecfgP : e2e_cfg :=
  {| e_gw := gcfg0; e_cl := ccfg0; e_c2g := [FDeliver; FDeliver; FDrop];
     e_g2c := [FDeliver; FDeliver; FDrop; FDeliver; FDrop] |}.

Example lossy_instance :
  exists y1 y2,
    sys_step ecfgP loss_y0 (SBpub (MqPublish false 1 false [97; 98] 1000 [7])) =
      (y1, [SoBS 0 (MqPublish false 1 false [97; 98] 1000 [7]);
            SoG2C 0 FDrop [8; 12; 34; 97; 98; 3; 232; 7]]) /\
    sys_step ecfgP y1 (SAdv 30000) =
      (y2, [SoG2C 10000 FDeliver [8; 12; 162; 97; 98; 3; 232; 7];
            SoC2G 10000 FDrop [7; 13; 97; 98; 3; 232; 0];
            SoCb 10000 2 [97; 98] [7] 1 false true 1000;
            SoG2C 20000 FDrop [8; 12; 162; 97; 98; 3; 232; 7];
            SoG2C 30000 FDeliver [8; 12; 162; 97; 98; 3; 232; 7];
            SoC2G 30000 FDeliver [7; 13; 97; 98; 3; 232; 0];
            SoCb 30000 2 [97; 98] [7] 1 false true 1000;
            SoBR 30000 (MqPuback 1000)]) /\
    QuietS ecfgP y2 [loss_sub] /\ gw_now (y_gw y2) = 30000.
Proof.
  destruct loss_y0_facts as (Enow & Ekc & Ekg).
  destruct (e2e_bpub_q1_lossy ecfgP loss_y0 [loss_sub] loss_sub false false 1000 [7] true [false; true] 30000)
    as (y1 & y2 & E1 & E2 & HS2 & Hn2 & _).
  - exact loss_y0_quiet.
  - left. reflexivity.
  - lia.
  - reflexivity.
  - reflexivity.
  - vm_compute. discriminate.
  - reflexivity.
  - rewrite Ekc, Ekg. cbn. repeat split.
  - vm_compute. discriminate.
  - rewrite Enow in E1, E2, Hn2. cbn [sub_topic sub_id loss_sub fst snd] in E1, E2. exists y1, y2. split; [|split; [|split; [exact HS2|exact Hn2]]].
    + rewrite E1. vm_compute. reflexivity.
    + rewrite E2. vm_compute. reflexivity.
Qed.

(* the same traces, computed by the model (an independent check of the formulas) *)
Example lossy_instance_computed :
  let r1 := sys_step ecfgP loss_y0 (SBpub (MqPublish false 1 false [97; 98] 1000 [7])) in
  let r2 := sys_step ecfgP (fst r1) (SAdv 30000) in
  snd r1 = first_round true 0 false false [97; 98] 1000 [7] [2] /\
  snd r2 = lost_rounds 10000 false [97; 98] 1000 [7] [2] [false; true] 10000 ++ last_round false [97; 98] 1000 [7] [2] 30000 /\
  cbs_of (snd r1 ++ snd r2) = [(2, [97; 98], [7]); (2, [97; 98], [7])] /\ brs_of (snd r1 ++ snd r2) = [MqPuback 1000] /\
  quietb ecfgP (fst r2) = true.
Proof. vm_compute. repeat split; reflexivity. Qed.

(* The bound RetryCount is tight: with RetryCount = 3, FOUR consecutive losses of the PUBLISH (the first
   transmission and all three retransmissions) and the message is never delivered - the fourth expiry of
   the retry timer (at 40000) removes the exchange silently: no handler invocation, no PUBACK at the
   broker, the session is quiescent again; three consecutive losses are survived (delivery at 30000). *)
Definition ecfgT (drops_in_a_row : nat) : e2e_cfg :=
  {| e_gw := gcfg0; e_cl := ccfg0; e_c2g := []; e_g2c := [FDeliver; FDeliver] ++ repeat FDrop drops_in_a_row |}.

Example retry_budget_tight :
  let m := MqPublish false 1 false [97; 98] 1000 [7] in
  let lost := SoG2C 0 FDrop [8; 12; 34; 97; 98; 3; 232; 7] in
  let relost t := SoG2C t FDrop [8; 12; 162; 97; 98; 3; 232; 7] in
  let r1 := sys_step (ecfgT 4) loss_y0 (SBpub m) in
  let r2 := sys_step (ecfgT 4) (fst r1) (SAdv 100000) in
  let q1 := sys_step (ecfgT 3) loss_y0 (SBpub m) in
  let q2 := sys_step (ecfgT 3) (fst q1) (SAdv 100000) in
  snd r1 = [SoBS 0 m; lost] /\ snd r2 = [relost 10000; relost 20000; relost 30000] /\ quietb (ecfgT 4) (fst r2) = true /\
  snd q1 = [SoBS 0 m; lost] /\
  snd q2 = [relost 10000; relost 20000; SoG2C 30000 FDeliver [8; 12; 162; 97; 98; 3; 232; 7];
            SoC2G 30000 FDeliver [7; 13; 97; 98; 3; 232; 0]; SoCb 30000 2 [97; 98] [7] 1 false true 1000;
            SoBR 30000 (MqPuback 1000)] /\ quietb (ecfgT 3) (fst q2) = true.
Proof. vm_compute. repeat split; reflexivity. Qed.

(* ------------------------------------------------------------------ 6. assumptions *)

Print Assumptions e2e_bpub_q1_publish_lost.
Print Assumptions e2e_bpub_q1_puback_lost.
Print Assumptions e2e_bpub_q1_publish_lost_n.
Print Assumptions e2e_bpub_q1_lossy.
Print Assumptions e2e_bpub_q1_lossy_counts.
Print Assumptions lossy_instance.
Print Assumptions lossy_instance_computed.
Print Assumptions retry_budget_tight.
