(* System/ComposeSleepQ2.v — C26 / C11 end to end, QoS 2: ONE broker PUBLISH with QoS 2 on a subscribed short topic
   name during a sleep that ends before the gateway's first retransmission, as exact traces, for ALL configurations,
   states, subscriptions, durations, message IDs and payloads in the stated ranges.  Continues ComposeSleep.v /
   ComposeSleepQ1.v; link hypotheses positional (lossless cfg implies them).

   RESULT: the exchange does NOT complete within the sleep cycle.  At the wake-up the client gets PUBLISH and PINGRESP,
   answers PUBREC, Sleep returns nil; the gateway (asleep again) relays PUBREC; the broker's PUBREL is put into the sleep
   buffer instead of being sent.  No handler invocation, no PUBCOMP in this cycle.

     SleepingN / SleepingQ2          Sleeping of ComposeSleep.v with the fact that the sleep transaction's object is older than
                                     the client's object counter / ... and the gateway holding the PUBLISH (AwaitPubrec, buffered)
     HeldQ2 cfg y subs pub mid Tr    end state of the cycle: client awake, idle, REMEMBERS pub (CxBrokerPub2); gateway asleep,
                                     transaction AwaitPubcomp, buffer [PUBREL mid], retry timer at Tr
     e2e_bpub_while_asleep_q2        SleepingN --broker PUBLISH QoS 2--> only SoBS; SleepingQ2, Tr = now + RetryDelay
     e2e_wake_up_q2                  SleepingQ2, T < Tr, SAdv d, T <= now + d < T + RetryDelay: wake_trace_q2; HeldQ2 (T + RetryDelay)
     C26_sleep_cycle_q2_message      QuietS; Sleep(ms), 1000 <= ms < RetryDelay; the message; SAdv d, ms <= d < ms + RetryDelay
     sleep_q2_instance               concrete instance (ecfg0)
     sleep_q2_second_cycle_completes a second Sleep whose wake-up comes before the PUBREL retry completes the exchange: handler once
     sleep_q2_no_second_wakeup       otherwise PUBREL copies pile up in the buffer, the transaction is dropped after RetryCount
                                     retries (the session goes on), the broker never receives PUBCOMP
     sleep_q2_late_wakeup            a later wake-up still delivers the message once, but PUBCOMP never reaches the broker

   The component lemmas are in ComposeSleepQ2_aux.v. *)
From stdpp Require Import base option list numbers fin_maps nmap.
From Coq Require Import Lia ZArith ZifyN ZifyNat ZifyBool.
From RecordUpdate Require Import RecordSet.
From Verif.Base Require Import Bytes BytesProofs.
From Verif.Codec Require Import Packets Decode Encode EncodeProofs.
From Verif.Checkers Require Import ChkCodec.
From Verif.Topics Require Import Predefined.
From Verif.Gateway Require Import GwTypes GwStep GwWf.
From Verif.Match Require Import Match MatchProofs.
From Verif.Client Require Import ClTypes ClStep Sound_Client.
From Verif.System Require Import Compose RoutingProofs ComposeProofs_aux ComposeProofs ComposeProofs2_aux ComposeProofs2
  ComposeLoss_aux ComposeLoss ComposeSleep_aux ComposeSleep ComposeSleepQ1_aux ComposeSleepQ1 ComposeSleepQ2_aux.
Import RecordSetNotations.
Open Scope N_scope.
Ltac Zify.zify_post_hook ::= Z.div_mod_to_equations.

(* ------------------------------------------------------------------ definitions *)

Definition pub2_sn (dup retain : bool) (topic : bytes) (mid : N) (payload : bytes) : packet :=
  Publish dup 2 retain TIT_SHORT (encode_short topic) mid payload.

Lemma wf_pub2_sn dup retain topic mid payload :
  is_short_topic topic = true -> wf_bytes topic -> mid < 65536 -> okb payload = true ->
  wf_pkt (pub2_sn dup retain topic mid payload) = true.
Proof. intros Hs Hw Hm Hp. apply wf_pub_short; [lia|assumption|assumption|assumption|assumption]. Qed.

(* the client asleep as in Sleeping of ComposeSleep.v (buffer empty); moreover the sleep transaction's object is older than
   the client's object counter *)
Definition ClAsleepN (c : cl_state) (id T : N) : Prop :=
  exists g n ms sq, ClSt c Asleep (sl_objs g (CxSleep id CtSleeping n ms)) (sl_byt g) [tm_wake T sq g] /\ g < cl_next_obj c.

Definition SleepingN (cfg : e2e_cfg) (y : sys) (subs : list subn) (id T : N) : Prop :=
  ClAsleepN (y_cl y) id T /\ GwSt (y_gw y) Asleep [] /\ Linked cfg y /\ gw_now (y_gw y) <= T /\ SubsIn y subs.

(* ... and the gateway holds the broker PUBLISH (QoS 2): buffered, awaiting PUBREC, retry timer at Tr *)
Definition SleepingQ2 (cfg : e2e_cfg) (y : sys) (subs : list subn) (id T : N) (pub : packet) (mid Tr : N) : Prop :=
  ClAsleepN (y_cl y) id T /\
  (exists o sq, GwPx (y_gw y) Asleep [(Some o, pub)] o mid (TxBrokerPub mid 2 AwaitPubrec (RsSn pub) None 0) Tr sq) /\
  Linked cfg y /\ gw_now (y_gw y) <= T /\ SubsIn y subs.

(* after the wake-up cycle: the client is awake, no Sleep in progress, no timer; it REMEMBERS the PUBLISH (no handler
   invocation yet) and waits for PUBREL.  The gateway session is asleep; its transaction awaits PUBCOMP; the PUBREL is in
   the sleep buffer; retry timer at Tr *)
Definition HeldQ2 (cfg : e2e_cfg) (y : sys) (subs : list subn) (pub : packet) (mid Tr : N) : Prop :=
  (exists o2, ClSx (y_cl y) Awake (<[o2 := CxBrokerPub2 mid pub]> ∅) (<[mid := o2]> ∅) ∅ []) /\
  (exists o sq, GwPx (y_gw y) Asleep [(Some o, Pubrel mid)] o mid (TxBrokerPub mid 2 AwaitPubcomp (RsSn (Pubrel mid)) None 0) Tr sq) /\
  Linked cfg y /\ gw_now (y_gw y) < Tr /\ SubsIn y subs.

(* ------------------------------------------------------------------ 1. the Sleep call, once more *)

Lemma e2e_sleep_call_n cfg y subs id ms : QuietS cfg y subs ->
  1000 <= ms -> ms / 1000 < 65536 ->
  gw_keepalive (y_gw y) = 0 \/ ms / 1000 <= gw_keepalive (y_gw y) ->
  nth_fault (e_c2g cfg) (y_c2g_k y) = FDeliver -> nth_fault (e_g2c cfg) (y_g2c_k y) = FDeliver ->
  let t := gw_now (y_gw y) in
  exists y', sys_step cfg y (SCall id (ASleep ms)) =
    (y', [SoC2G t FDeliver (pack (Disconnect (ms / 1000))); SoG2C t FDeliver (pack (Disconnect 0))]) /\
    SleepingN cfg y' subs id (t + ms) /\ gw_now (y_gw y') = t /\ y_br y' = y_br y /\
    y_c2g_k y' = S (y_c2g_k y) /\ y_g2c_k y' = S (y_g2c_k y).
Proof.
  intros ((HC & HG & Hnow & Hcid & Hbc & Heof) & Hb & Hh & Hok) Hms Hd Hnp Hfc Hfg t. subst t.
  destruct y as [c g b k1 k2 eof]. cbn [y_cl y_gw y_br y_br_eof y_c2g_k y_g2c_k] in *.
  destruct (cl_sleep_call_n (e_cl cfg) c id ms HC Hd) as (c1 & Ec1 & HS1 & (Hc1n & Hc1h & _) & Hc1o).
  destruct (cl_sleep_disc_n (e_cl cfg) c1 _ _ _ _ _ _ HS1) as (c2 & Ec2 & HS2 & (Hc2n & Hc2h & _) & Hc2o).
  assert (Hd0 : 0 < ms / 1000 < 65536) by lia.
  destruct (gw_sleep_disc (e_gw cfg) g (ms / 1000) HG Hd0 Hnp) as (g1 & Eg1 & HG1 & (Hgn & Hgc & _)).
  eexists. split; [|split; [|split; [|split; [|split]]]].
  - unfold sys_step. sk. rewrite Ec1. sk. rewrite Hfc. sk.
    rewrite pump_fuel_eq. sk. rewrite Eg1. sk. rewrite Hfg. sk. rewrite Ec2. sk.
    rewrite Hnow. reflexivity.
  - unfold SleepingN. sk. split; [|split; [exact HG1|split; [|split; [|split; [|split]]]]].
    + eexists. eexists. eexists. eexists. split; [rewrite <- Hnow, <- Hc1n; exact HS2|]. rewrite Hc2o, Hc1o. lia.
    + unfold Linked. sk. split; [rewrite Hc2n, Hc1n, Hgn; exact Hnow|]. split; [rewrite Hgc; exact Hcid|]. split; assumption.
    + rewrite Hgn. lia.
    + exact Hb.
    + sk. rewrite Hc2h, Hc1h. exact Hh.
    + exact Hok.
  - exact Hgn.
  - reflexivity.
  - reflexivity.
  - reflexivity.
Qed.

(* ------------------------------------------------------------------ 2. the broker PUBLISH (QoS 2) while the client sleeps *)

Theorem e2e_bpub_while_asleep_q2 cfg y subs id T s dup retain mid payload :
  SleepingN cfg y subs id T -> In s subs ->
  let t := gw_now (y_gw y) in
  let topic := sub_topic s in
  exists y', sys_step cfg y (SBpub (MqPublish dup 2 retain topic mid payload)) =
    (y', [SoBS t (MqPublish dup 2 retain topic mid payload)]) /\
    SleepingQ2 cfg y' subs id T (pub2_sn dup retain topic mid payload) mid (t + retry_delay (e_gw cfg)) /\
    gw_now (y_gw y') = t /\ y_br y' = y_br y /\ y_c2g_k y' = y_c2g_k y /\ y_g2c_k y' = y_g2c_k y.
Proof.
  intros (HC & HG & (Hnow & Hcid & Hbc & Heof) & HT & HSub) Hin t topic. subst t topic.
  pose proof HSub as (_ & _ & (Hf & _)). rewrite Forall_forall in Hf. destruct (topic_ok_spec _ (Hf s Hin)) as (Hs & _ & _).
  destruct y as [c g b k1 k2 eof]. cbn [y_cl y_gw y_br y_br_eof y_c2g_k y_g2c_k] in *.
  destruct (gw_asleep_bpub2 (e_gw cfg) g dup retain (sub_topic s) mid payload HG Hs) as (g1 & Eg1 & HD1 & (Hgn & Hgc & _)).
  eexists. split; [|split; [|split; [|split; [|split]]]].
  - unfold sys_step. sk. rewrite Hbc. rewrite pump_fuel_eq. sk. rewrite Eg1. sk. reflexivity.
  - unfold SleepingQ2. sk. split; [exact HC|]. split; [eexists; eexists; exact HD1|].
    split; [|split; [rewrite Hgn; exact HT|exact HSub]].
    unfold Linked. sk. split; [rewrite Hgn; exact Hnow|]. split; [rewrite Hgc; exact Hcid|]. split; assumption.
  - exact Hgn.
  - reflexivity.
  - reflexivity.
  - reflexivity.
Qed.

(* ------------------------------------------------------------------ 3. the wake-up before the first retransmission *)

(* what the model produces at the wake-up time T: PINGREQ (client ID); PUBLISH (QoS 2) and PINGRESP; the client's PUBREC;
   Sleep returns nil; the gateway - asleep again - relays PUBREC to the broker; the broker answers PUBREL, which the
   gateway does NOT forward (it goes to the sleep buffer).  NO handler invocation, no PUBCOMP in this cycle *)
Definition wake_trace_q2 (cfg : e2e_cfg) (T id : N) (s : subn) (dup retain : bool) (mid : N) (payload : bytes) : list sys_out :=
  [SoC2G T FDeliver (pack (Pingreq (k_cid (e_cl cfg))));
   SoG2C T FDeliver (pack (pub2_sn dup retain (sub_topic s) mid payload));
   SoG2C T FDeliver (pack Pingresp);
   SoC2G T FDeliver (pack (Pubrec mid));
   SoRet T id ROk;
   SoBR T (MqPubrec mid);
   SoBS T (MqPubrel mid)].

Lemma adv_both_wake_q2 cfg y subs id T s dup retain mid payload Tr :
  SleepingQ2 cfg y subs id T (pub2_sn dup retain (sub_topic s) mid payload) mid Tr -> In s subs ->
  1 <= mid < 65536 -> okb payload = true -> okb (k_cid (e_cl cfg)) = true -> T < Tr -> 0 < retry_delay (e_gw cfg) ->
  nth_fault (e_c2g cfg) (y_c2g_k y) = FDeliver -> nth_fault (e_c2g cfg) (S (y_c2g_k y)) = FDeliver ->
  nth_fault (e_g2c cfg) (y_g2c_k y) = FDeliver -> nth_fault (e_g2c cfg) (S (y_g2c_k y)) = FDeliver ->
  exists y', advance_both cfg y T = (y', wake_trace_q2 cfg T id s dup retain mid payload) /\
    HeldQ2 cfg y' subs (pub2_sn dup retain (sub_topic s) mid payload) mid (T + retry_delay (e_gw cfg)) /\
    gw_now (y_gw y') = T /\ y_br y' = y_br y /\
    y_c2g_k y' = S (S (y_c2g_k y)) /\ y_g2c_k y' = S (S (y_g2c_k y)).
Proof.
  intros ((g0 & n & ms0 & sq & HC & Hg0) & (o & sq' & HD) & (Hnow & Hcid & Hbc & Heof) & HT & (Hb & Hh & Hok)) Hin Hm Hp Hokc HTr Hrd
    Hfc0 Hfc1 Hfg0 Hfg1.
  pose proof Hok as (Hf & _). rewrite Forall_forall in Hf. destruct (topic_ok_spec _ (Hf s Hin)) as (Hs & Hw & _).
  assert (Hwfp : wf_pkt (pub2_sn dup retain (sub_topic s) mid payload) = true)
    by (apply wf_pub2_sn; [assumption|assumption|lia|assumption]).
  destruct y as [c g b k1 k2 eof]. cbn [y_cl y_gw y_br y_br_eof y_c2g_k y_g2c_k] in *.
  destruct (cl_wake_fire_n (e_cl cfg) c g0 id CtSleeping n ms0 T sq (T - cl_now c) HC Hokc ltac:(lia))
    as (c1 & Ec1 & HC1 & Hc1n & Hc1h & Hc1o).
  destruct (gw_adv_px_ex (e_gw cfg) g _ _ _ _ _ _ _ T HD HT HTr) as (g1 & Eg1 & HD1 & Hg1n & Hg1c & _).
  destruct (gw_px_pingreq (e_gw cfg) g1 _ _ _ _ _ _ (k_cid (e_cl cfg)) HD1
              ltac:(constructor; [exact Hwfp|constructor]) Hokc) as (g2 & Eg2 & HD2 & (Hg2n & Hg2c & _)).
  cbn [map snd app] in Eg2.
  destruct (cl_st_bpub2 (e_cl cfg) c1 _ _ _ _ dup retain TIT_SHORT (encode_short (sub_topic s)) mid payload HC1 Hwfp ltac:(lia))
    as (c2 & Ec2 & HC2 & (Hc2n & Hc2h & _)).
  destruct (cl_sx_pingresp (e_cl cfg) c2 _ _ _ _ _ _ _ _ _ HC2 ltac:(rewrite Hc1o; lia)) as (c3 & Ec3 & HC3 & (Hc3n & Hc3h & _)).
  destruct (gw_px_pubrec (e_gw cfg) g2 _ _ _ _ _ _ _ _ HD2 Hm) as (g3 & Eg3 & HD3 & (Hg3n & Hg3c & _)).
  destruct (gw_px_mqpubrel (e_gw cfg) g3 _ _ _ _ _ _ _ _ HD3) as (g4 & Eg4 & HD4 & (Hg4n & Hg4c & _)).
  cbn [app] in HD4.
  eexists. split; [|split; [|split; [|split; [|split]]]].
  - unfold advance_both. sk. rewrite Ec1. sk. rewrite Hfc0. sk. rewrite Eg1. sk.
    rewrite pump_fuel_eq. sk. rewrite Eg2. sk. rewrite Hfg0. sk. rewrite Hfg1. sk.
    unfold pub2_sn. rewrite Ec2. sk. rewrite Hfc1. sk.
    rewrite Ec3. sk. rewrite Eg3. sk. unfold broker_recv. rewrite Hbc. sk. rewrite Hbc. sk. rewrite Eg4. sk.
    unfold wake_trace_q2, pub2_sn. rewrite ?Hg3n, ?Hg2n, ?Hc2n, ?Hg1n, ?Hc1n. reflexivity.
  - unfold HeldQ2. sk. split; [eexists; exact HC3|]. split; [|split; [|split; [|split; [exact Hb|split; [|exact Hok]]]]].
    + eexists. eexists. rewrite Hg3n, Hg2n, Hg1n in HD4. exact HD4.
    + unfold Linked. sk. split; [rewrite Hc3n, Hc2n, Hc1n, Hg4n, Hg3n, Hg2n, Hg1n; reflexivity|].
      split; [rewrite Hg4c, Hg3c, Hg2c, Hg1c; exact Hcid|]. split; assumption.
    + rewrite Hg4n, Hg3n, Hg2n, Hg1n. lia.
    + sk. rewrite Hc3h, Hc2h, Hc1h. exact Hh.
  - sk. rewrite Hg4n, Hg3n, Hg2n. exact Hg1n.
  - reflexivity.
  - reflexivity.
  - reflexivity.
Qed.

(* time passing before the PUBREL retry timer *)
Lemma adv_both_held cfg y subs pub mid Tr t : HeldQ2 cfg y subs pub mid Tr -> gw_now (y_gw y) <= t -> t < Tr ->
  exists y', advance_both cfg y t = (y', []) /\ HeldQ2 cfg y' subs pub mid Tr /\ gw_now (y_gw y') = t /\ y_br y' = y_br y /\
    y_c2g_k y' = y_c2g_k y /\ y_g2c_k y' = y_g2c_k y.
Proof.
  intros ((o2 & HC) & (o & sq & HD) & (Hnow & Hcid & Hbc & Heof) & HTr & (Hb & Hh & Hok)) Ht HtT.
  destruct y as [c g b k1 k2 eof]. cbn [y_cl y_gw y_br y_br_eof y_c2g_k y_g2c_k] in *.
  destruct (cl_adv_sx_ex (e_cl cfg) c _ _ _ _ t HC ltac:(lia)) as (c1 & Ec & HC1 & Hcn & Hch).
  destruct (gw_adv_px_ex (e_gw cfg) g _ _ _ _ _ _ _ t HD Ht HtT) as (g1 & Eg & HD1 & Hgn & Hgc & _).
  eexists. split; [|split; [|split; [|split; [|split]]]].
  - unfold advance_both. sk. rewrite Ec. sk. rewrite Eg. sk. rewrite pump_nil. reflexivity.
  - unfold HeldQ2. sk. split; [exists o2; exact HC1|]. split; [exists o, sq; exact HD1|].
    split; [|split; [rewrite Hgn; exact HtT|split; [exact Hb|split; [|exact Hok]]]].
    + unfold Linked. sk. split; [rewrite Hcn, Hgn; reflexivity|]. split; [rewrite Hgc; exact Hcid|]. split; assumption.
    + sk. rewrite Hch. exact Hh.
  - exact Hgn.
  - reflexivity.
  - reflexivity.
  - reflexivity.
Qed.

Lemma deadline_sleeping_q2 cfg y subs id T pub mid Tr : SleepingQ2 cfg y subs id T pub mid Tr ->
  min_opt (cl_next_deadline (y_cl y)) (gw_next_deadline (y_gw y)) = Some (N.min T Tr).
Proof.
  intros ((g0 & n & ms0 & sq & HC & _) & (o & sq' & HD) & _).
  rewrite (cl_deadline_st _ _ _ _ _ HC), (gw_deadline_px _ _ _ _ _ _ _ _ HD). reflexivity.
Qed.

Lemma deadline_held cfg y subs pub mid Tr : HeldQ2 cfg y subs pub mid Tr ->
  min_opt (cl_next_deadline (y_cl y)) (gw_next_deadline (y_gw y)) = Some Tr.
Proof.
  intros ((o2 & HC) & (o & sq & HD) & _).
  rewrite (cl_deadline_sx _ _ _ _ _ HC), (gw_deadline_px _ _ _ _ _ _ _ _ HD). reflexivity.
Qed.

(* SAdv d reaching the wake-up time T (before the first retransmission of the PUBLISH, T < Tr) and ending before the first
   retransmission of the PUBREL (now + d < T + RetryDelay) *)
Theorem e2e_wake_up_q2 cfg y subs id T s dup retain mid payload Tr d :
  SleepingQ2 cfg y subs id T (pub2_sn dup retain (sub_topic s) mid payload) mid Tr -> In s subs ->
  1 <= mid < 65536 -> okb payload = true -> okb (k_cid (e_cl cfg)) = true -> T < Tr ->
  nth_fault (e_c2g cfg) (y_c2g_k y) = FDeliver -> nth_fault (e_c2g cfg) (S (y_c2g_k y)) = FDeliver ->
  nth_fault (e_g2c cfg) (y_g2c_k y) = FDeliver -> nth_fault (e_g2c cfg) (S (y_g2c_k y)) = FDeliver ->
  T <= gw_now (y_gw y) + d -> gw_now (y_gw y) + d < T + retry_delay (e_gw cfg) ->
  exists y', sys_step cfg y (SAdv d) = (y', wake_trace_q2 cfg T id s dup retain mid payload) /\
    HeldQ2 cfg y' subs (pub2_sn dup retain (sub_topic s) mid payload) mid (T + retry_delay (e_gw cfg)) /\
    gw_now (y_gw y') = gw_now (y_gw y) + d /\ y_br y' = y_br y /\
    y_c2g_k y' = S (S (y_c2g_k y)) /\ y_g2c_k y' = S (S (y_g2c_k y)).
Proof.
  intros HS Hin Hm Hp Hokc HTr Hfc0 Hfc1 Hfg0 Hfg1 Hd Hd2.
  destruct (adv_both_wake_q2 cfg y subs id T s dup retain mid payload Tr HS Hin Hm Hp Hokc HTr ltac:(lia) Hfc0 Hfc1 Hfg0 Hfg1)
    as (y1 & E1 & HA1 & Hn1 & Hb1 & Hkc1 & Hkg1).
  pose proof HS as (_ & _ & HL & HT & _). pose proof HL as (Hnow & _).
  change (sys_step cfg y (SAdv d)) with (advance_to adv_fuel cfg y (sys_now y + d)).
  rewrite (sys_now_linked cfg y HL). destruct adv_fuel_eq as (f & ->).
  rewrite advance_to_S, (deadline_sleeping_q2 cfg y subs id T _ _ _ HS).
  assert (Emin : N.min T Tr = T) by lia. rewrite Emin.
  destruct (T <? gw_now (y_gw y) + d) eqn:Elt.
  - assert (Emax : N.max T (N.max (cl_now (y_cl y)) (gw_now (y_gw y))) = T) by lia. rewrite Emax, E1.
    rewrite advance_to_S, (deadline_held cfg y1 subs _ _ _ HA1).
    assert (Elt2 : (T + retry_delay (e_gw cfg) <? gw_now (y_gw y) + d) = false) by (apply N.ltb_ge; lia). rewrite Elt2.
    destruct (adv_both_held cfg y1 subs _ _ _ (gw_now (y_gw y) + d) HA1 ltac:(apply N.ltb_lt in Elt; lia) Hd2)
      as (y2 & E2 & HA2 & Hn2 & Hb2 & Hkc2 & Hkg2).
    rewrite E2, app_nil_r. exists y2. split; [reflexivity|]. split; [exact HA2|]. split; [exact Hn2|].
    split; [rewrite Hb2; exact Hb1|]. split; [rewrite Hkc2; exact Hkc1|rewrite Hkg2; exact Hkg1].
  - assert (gw_now (y_gw y) + d = T) as -> by (apply N.ltb_ge in Elt; lia). rewrite E1.
    exists y1. split; [reflexivity|]. split; [exact HA1|]. split; [exact Hn1|]. split; [exact Hb1|]. split; [exact Hkc1|exact Hkg1].
Qed.

(* ------------------------------------------------------------------ 4. the cycle *)

(* From a connected quiescent state with the subscriptions subs in place: Sleep(ms), 1000 <= ms < RetryDelay of the gateway;
   one broker message with QoS 2 on a subscribed topic; time passes to the wake-up or beyond, but not to the PUBREL retry.
   The QoS 2 exchange does NOT complete in this cycle: the client receives the PUBLISH and answers PUBREC, Sleep returns
   nil, the broker receives PUBREC and answers PUBREL - which the gateway puts into the sleep buffer.  ZERO handler
   invocations, no PUBCOMP; the end state is HeldQ2 (the client remembers the PUBLISH; the gateway's transaction awaits
   PUBCOMP, PUBREL buffered, retry timer at now + ms + RetryDelay), not AwakeS. *)
Theorem C26_sleep_cycle_q2_message cfg y subs id ms s dup retain mid payload d :
  QuietS cfg y subs -> 1000 <= ms -> ms / 1000 < 65536 ->
  gw_keepalive (y_gw y) = 0 \/ ms / 1000 <= gw_keepalive (y_gw y) ->
  ms < retry_delay (e_gw cfg) ->
  In s subs -> 1 <= mid < 65536 -> okb payload = true -> okb (k_cid (e_cl cfg)) = true ->
  (forall i, (i <= 2)%nat -> nth_fault (e_c2g cfg) (y_c2g_k y + i) = FDeliver) ->
  (forall i, (i <= 2)%nat -> nth_fault (e_g2c cfg) (y_g2c_k y + i) = FDeliver) ->
  ms <= d -> d < ms + retry_delay (e_gw cfg) ->
  let t := gw_now (y_gw y) in
  let m := MqPublish dup 2 retain (sub_topic s) mid payload in
  exists y', sys_run cfg y [SCall id (ASleep ms); SBpub m; SAdv d] =
    ([[SoC2G t FDeliver (pack (Disconnect (ms / 1000))); SoG2C t FDeliver (pack (Disconnect 0))];
      [SoBS t m];
      wake_trace_q2 cfg (t + ms) id s dup retain mid payload], y') /\
    HeldQ2 cfg y' subs (pub2_sn dup retain (sub_topic s) mid payload) mid (t + ms + retry_delay (e_gw cfg)) /\
    gw_now (y_gw y') = t + d /\ y_br y' = y_br y /\
    y_c2g_k y' = (y_c2g_k y + 3)%nat /\ y_g2c_k y' = (y_g2c_k y + 3)%nat.
Proof.
  intros HQ Hms Hdur Hnp Hrd Hin Hm Hp Hokc Hfc Hfg Hd Hd2 t m. subst t m.
  assert (Hc : forall i k, (i <= 2)%nat -> k = (y_c2g_k y + i)%nat -> nth_fault (e_c2g cfg) k = FDeliver)
    by (intros i k Hi ->; exact (Hfc i Hi)).
  assert (Hg : forall i k, (i <= 2)%nat -> k = (y_g2c_k y + i)%nat -> nth_fault (e_g2c cfg) k = FDeliver)
    by (intros i k Hi ->; exact (Hfg i Hi)).
  destruct (e2e_sleep_call_n cfg y subs id ms HQ Hms Hdur Hnp (Hc 0%nat (y_c2g_k y) ltac:(lia) ltac:(lia))
              (Hg 0%nat (y_g2c_k y) ltac:(lia) ltac:(lia)))
    as (y1 & E1 & HS1 & Hn1 & Hb1 & Hkc1 & Hkg1).
  destruct (e2e_bpub_while_asleep_q2 cfg y1 subs id _ s dup retain mid payload HS1 Hin)
    as (y2 & E2 & HS2 & Hn2 & Hb2 & Hkc2 & Hkg2).
  destruct (e2e_wake_up_q2 cfg y2 subs id _ s dup retain mid payload _ d HS2 Hin Hm Hp Hokc)
    as (y3 & E3 & HA3 & Hn3 & Hb3 & Hkc3 & Hkg3).
  - rewrite Hn1. lia.
  - rewrite Hkc2, Hkc1. exact (Hc 1%nat (S (y_c2g_k y)) ltac:(lia) ltac:(lia)).
  - rewrite Hkc2, Hkc1. exact (Hc 2%nat (S (S (y_c2g_k y))) ltac:(lia) ltac:(lia)).
  - rewrite Hkg2, Hkg1. exact (Hg 1%nat (S (y_g2c_k y)) ltac:(lia) ltac:(lia)).
  - rewrite Hkg2, Hkg1. exact (Hg 2%nat (S (S (y_g2c_k y))) ltac:(lia) ltac:(lia)).
  - rewrite Hn2, Hn1. lia.
  - rewrite Hn2, Hn1. lia.
  - exists y3. split; [|split; [exact HA3|split; [rewrite Hn3, Hn2, Hn1; reflexivity|split; [rewrite Hb3, Hb2; exact Hb1|split]]]].
    + cbn [sys_run]. rewrite E1, E2, E3, Hn1. reflexivity.
    + rewrite Hkc3, Hkc2, Hkc1. lia.
    + rewrite Hkg3, Hkg2, Hkg1. lia.
Qed.

(* as properties of the run: no handler invocation; the broker receives exactly [PUBREC mid]; Sleep returns nil, once *)
Lemma wake_trace_q2_facts cfg T id s dup retain mid payload :
  cbs_full (wake_trace_q2 cfg T id s dup retain mid payload) = [] /\
  rets_of (wake_trace_q2 cfg T id s dup retain mid payload) = [(id, ROk)] /\
  brs_of (wake_trace_q2 cfg T id s dup retain mid payload) = [MqPubrec mid].
Proof. repeat split. Qed.

(* ------------------------------------------------------------------ 5. a concrete instance; the continuation; observations *)

Definition q2_m : mq_pkt := MqPublish false 2 false [97; 98] 1000 [7].

(* ecfg0 (RetryDelay 10 s, RetryCount 3, keep-alive 60 s), after Connect and Subscribe "ab": Sleep(5 s), the message, 7 s pass *)
Example sleep_q2_instance :
  exists y', sys_run ecfg0 loss_y0 [SCall 3 (ASleep 5000); SBpub q2_m; SAdv 7000] =
    ([[SoC2G 0 FDeliver [4; 24; 0; 5]; SoG2C 0 FDeliver [2; 24]];
      [SoBS 0 q2_m];
      [SoC2G 5000 FDeliver [4; 22; 99; 49];
       SoG2C 5000 FDeliver [8; 12; 66; 97; 98; 3; 232; 7];
       SoG2C 5000 FDeliver [2; 23];
       SoC2G 5000 FDeliver [4; 15; 3; 232];
       SoRet 5000 3 ROk;
       SoBR 5000 (MqPubrec 1000);
       SoBS 5000 (MqPubrel 1000)]], y') /\
    HeldQ2 ecfg0 y' [loss_sub] (pub2_sn false false [97; 98] 1000 [7]) 1000 15000 /\ gw_now (y_gw y') = 7000.
Proof.
  destruct (C26_sleep_cycle_q2_message ecfg0 loss_y0 [loss_sub] 3 5000 loss_sub false false 1000 [7] 7000)
    as (y' & E & HA & Hn & _).
  - exact loss_y0_quiet.
  - lia.
  - lia.
  - right. vm_compute. intros H. discriminate H.
  - vm_compute. reflexivity.
  - left. reflexivity.
  - lia.
  - reflexivity.
  - reflexivity.
  - intros i _. apply nth_fault_nil.
  - intros i _. apply nth_fault_nil.
  - lia.
  - vm_compute. reflexivity.
  - exists y'. split; [exact E|split; [exact HA|rewrite Hn; vm_compute; reflexivity]].
Qed.

(* the continuation: a second Sleep (2 s) whose wake-up (at 9 s) comes before the PUBREL retry (15 s) completes the
   exchange: PINGREQ; PUBREL, PINGRESP; the handler - exactly once; PUBCOMP; Sleep returns nil; MQTT PUBCOMP at the broker.
   Nothing is left afterwards (60 s more: no output) *)
Example sleep_q2_second_cycle_completes :
  fst (sys_run ecfg0 loss_y0 [SCall 3 (ASleep 5000); SBpub q2_m; SAdv 7000; SCall 4 (ASleep 2000); SAdv 2000; SAdv 60000]) =
    [[SoC2G 0 FDeliver [4; 24; 0; 5]; SoG2C 0 FDeliver [2; 24]];
     [SoBS 0 q2_m];
     [SoC2G 5000 FDeliver [4; 22; 99; 49]; SoG2C 5000 FDeliver [8; 12; 66; 97; 98; 3; 232; 7]; SoG2C 5000 FDeliver [2; 23];
      SoC2G 5000 FDeliver [4; 15; 3; 232]; SoRet 5000 3 ROk; SoBR 5000 (MqPubrec 1000); SoBS 5000 (MqPubrel 1000)];
     [];
     [SoC2G 9000 FDeliver [4; 22; 99; 49]; SoG2C 9000 FDeliver [4; 16; 3; 232]; SoG2C 9000 FDeliver [2; 23];
      SoCb 9000 2 [97; 98] [7] 2 false false 1000; SoC2G 9000 FDeliver [4; 14; 3; 232]; SoRet 9000 4 ROk;
      SoBR 9000 (MqPubcomp 1000)];
     []].
Proof. vm_compute. reflexivity. Qed.

(* without a second wake-up the exchange NEVER completes: the PUBREL retries (15, 25, 35 s) only add copies of PUBREL to
   the sleep buffer; at 45 s the retry budget is exhausted and the gateway drops the transaction silently (the session
   does not end); nothing is written, the handler is not invoked, the broker never receives PUBCOMP; the client keeps the
   remembered PUBLISH *)
Example sleep_q2_no_second_wakeup :
  let r := sys_run ecfg0 loss_y0 [SCall 3 (ASleep 5000); SBpub q2_m; SAdv 7000; SAdv 60000] in
  nth 3 (fst r) [SoExit 0] = [] /\
  cbs_of (concat (fst r)) = [] /\ brs_of (concat (fst r)) = [MqPubrec 1000] /\
  gw_buffer (y_gw (snd r)) = [(Some 2, Pubrel 1000); (Some 2, Pubrel 1000); (Some 2, Pubrel 1000); (Some 2, Pubrel 1000)] /\
  map_to_list (gw_objs (y_gw (snd r))) = [] /\ gw_timers (y_gw (snd r)) = [] /\
  gw_ending (y_gw (snd r)) = None /\ gw_ended (y_gw (snd r)) = false /\ gw_st (y_gw (snd r)) = Asleep /\
  map_to_list (cl_objs (y_cl (snd r))) = [(3, CxBrokerPub2 1000 (Publish false 2 false 2 24930 1000 [7]))].
Proof. vm_compute. repeat split; reflexivity. Qed.

(* ... and a wake-up after that (Sleep(1 s) at 67 s): four PUBRELs are flushed; the handler runs exactly ONCE (late, at
   68 s); the client answers four PUBCOMPs, which the gateway ignores (no transaction): the broker never receives PUBCOMP *)
Example sleep_q2_late_wakeup :
  let r := sys_run ecfg0 loss_y0 [SCall 3 (ASleep 5000); SBpub q2_m; SAdv 7000; SAdv 60000;
                                  SCall 4 (ASleep 1000); SAdv 1000; SAdv 60000] in
  nth 5 (fst r) [] =
    [SoC2G 68000 FDeliver [4; 22; 99; 49];
     SoG2C 68000 FDeliver [4; 16; 3; 232]; SoG2C 68000 FDeliver [4; 16; 3; 232];
     SoG2C 68000 FDeliver [4; 16; 3; 232]; SoG2C 68000 FDeliver [4; 16; 3; 232]; SoG2C 68000 FDeliver [2; 23];
     SoCb 68000 2 [97; 98] [7] 2 false false 1000;
     SoC2G 68000 FDeliver [4; 14; 3; 232]; SoC2G 68000 FDeliver [4; 14; 3; 232];
     SoC2G 68000 FDeliver [4; 14; 3; 232]; SoC2G 68000 FDeliver [4; 14; 3; 232]; SoRet 68000 4 ROk] /\
  cbs_of (concat (fst r)) = [(2, [97; 98], [7])] /\ brs_of (concat (fst r)) = [MqPubrec 1000] /\
  b_inflight2 (y_br (snd r)) = [] /\ map_to_list (cl_objs (y_cl (snd r))) = [] /\ gw_buffer (y_gw (snd r)) = [].
Proof. vm_compute. repeat split; reflexivity. Qed.

(* ------------------------------------------------------------------ 6. assumptions *)

Print Assumptions e2e_sleep_call_n.
Print Assumptions e2e_bpub_while_asleep_q2.
Print Assumptions e2e_wake_up_q2.
Print Assumptions C26_sleep_cycle_q2_message.
Print Assumptions wake_trace_q2_facts.
Print Assumptions sleep_q2_instance.
Print Assumptions sleep_q2_second_cycle_completes.
Print Assumptions sleep_q2_no_second_wakeup.
Print Assumptions sleep_q2_late_wakeup.
