(* System/ComposeProofs3_aux.v — component lemmas for System/ComposeProofs3.v: what the client
   library model (cl_step) and the gateway model (gw_step) do, each on its own, in the exchanges
   REGISTER, PUBLISH with QoS 0 / 1 / 2 on a short or a registered topic name, and UNSUBSCRIBE (short
   topic name), started in a quiescent connected state (ClQuiet / GwQuiet of ComposeProofs_aux.v);
   the gateway lemmas of ComposeProofs_aux.v / ComposeProofs2_aux.v again with a frame that covers
   the topic-ID allocator; and the facts about the registration tables, the handler table and the
   broker's subscription table that the end-to-end theorems need.
   Style and tactics: see ComposeProofs_aux.v and ComposeProofs2_aux.v. *)
From stdpp Require Import base option list numbers fin_maps nmap.
From Coq Require Import Lia ZArith ZifyN ZifyNat ZifyBool.
From RecordUpdate Require Import RecordSet.
From Verif.Base Require Import Bytes BytesProofs.
From Verif.Codec Require Import Packets Decode Encode EncodeProofs.
From Verif.Checkers Require Import ChkCodec.
From Verif.Topics Require Import Predefined.
From Verif.Gateway Require Import GwTypes GwStep GwWf.
From Verif.Match Require Import Match MatchProofs.
From Verif.Client Require Import ClTypes ClStep Sound_Client.
From Verif.System Require Import Compose RoutingProofs ComposeProofs_aux ComposeProofs2_aux.
Import RecordSetNotations.
Open Scope N_scope.
Ltac Zify.zify_post_hook ::= Z.div_mod_to_equations.

(* ------------------------------------------------------------------ packets *)

Lemma wf_register t mid : okb1 t = true -> mid < 65536 -> wf_pkt (Register 0 mid t) = true.
Proof.
  intros Ht Hm. cbn [wf_pkt]. unfold lt16. rewrite Ht.
  repeat (apply andb_true_iff; split); try reflexivity; apply N.ltb_lt; assumption.
Qed.

Lemma wf_regack tid mid : tid < 65536 -> mid < 65536 -> wf_pkt (Regack tid mid RC_ACCEPTED) = true.
Proof.
  intros Ht Hm. cbn [wf_pkt]. unfold lt16, lt8, RC_ACCEPTED.
  repeat (apply andb_true_iff; split); try reflexivity; apply N.ltb_lt; assumption.
Qed.

Lemma wf_pub dup q retain tit tid mid pl :
  q < 4 -> tit < 4 -> tid < 65536 -> mid < 65536 -> okb pl = true ->
  wf_pkt (Publish dup q retain tit tid mid pl) = true.
Proof.
  intros Hq Ht Hi Hm Hp. cbn [wf_pkt]. unfold lt16. rewrite Hp.
  repeat (apply andb_true_iff; split); try reflexivity; apply N.ltb_lt; assumption.
Qed.

Lemma wf_puback tid mid : tid < 65536 -> mid < 65536 -> wf_pkt (Puback tid mid RC_ACCEPTED) = true.
Proof.
  intros Ht Hm. cbn [wf_pkt]. unfold lt16, lt8, RC_ACCEPTED.
  repeat (apply andb_true_iff; split); try reflexivity; apply N.ltb_lt; assumption.
Qed.

Lemma wf_mid16 mid : mid < 65536 ->
  wf_pkt (Pubrec mid) = true /\ wf_pkt (Pubrel mid) = true /\ wf_pkt (Pubcomp mid) = true /\ wf_pkt (Unsuback mid) = true.
Proof. intros Hm. cbn [wf_pkt]. unfold lt16. repeat split; apply N.ltb_lt; assumption. Qed.

Lemma wf_unsub_short t mid : is_short_topic t = true -> wf_bytes t -> mid < 65536 ->
  wf_pkt (Unsubscribe TIT_SHORT mid (encode_short t) []) = true.
Proof.
  intros Hs Hw Hm. cbn [wf_pkt]. unfold lt16, TIT_SHORT.
  pose proof (encode_short_lt t Hs Hw) as He.
  change (2 =? 0) with false. change (len (@nil N) =? 0) with true. change ((2 =? 1) || (2 =? 2)) with true.
  cbv iota. repeat (apply andb_true_iff; split); try reflexivity; apply N.ltb_lt; assumption.
Qed.

(* ------------------------------------------------------------------ the client library *)

(* the topic ID type and topic ID under which Publish sends a topic name: the short form of a 2-byte
   name, otherwise the ID the name is registered with *)
Definition pub_tid (c : cl_state) (topic : bytes) : option (N * N) :=
  if is_short_topic topic then Some (TIT_SHORT, encode_short topic)
  else match reg_lookup (cl_registered c) topic with
       | Some tid => Some (TIT_REGISTERED, tid)
       | None => None
       end.

Lemma pub_sel cfg c id topic q r p tit tid : pub_tid c topic = Some (tit, tid) ->
  (if is_short_topic topic then do_publish cfg c id TIT_SHORT (encode_short topic) q r p
   else match reg_lookup (cl_registered c) topic with
        | Some tid => do_publish cfg c id TIT_REGISTERED tid q r p
        | None => (c, ret c id RNotRegistered)
        end) = do_publish cfg c id tit tid q r p.
Proof.
  unfold pub_tid. destruct (is_short_topic topic).
  - intros H. injection H as <- <-. reflexivity.
  - destruct (reg_lookup (cl_registered c) topic); [|discriminate]. intros H. injection H as <- <-. reflexivity.
Qed.

Lemma pub_tid_tit c topic tit tid : pub_tid c topic = Some (tit, tid) -> tit < 4.
Proof.
  unfold pub_tid. destruct (is_short_topic topic).
  - intros H. injection H as <- _. unfold TIT_SHORT. lia.
  - destruct (reg_lookup (cl_registered c) topic); [|discriminate]. intros H. injection H as <- _. unfold TIT_REGISTERED. lia.
Qed.

(* Register: REGISTER (topic ID 0) out, REGACK (the gateway's topic ID, accepted) in, the call returns
   nil and the name is registered with that ID *)
Lemma cl_register cfg c id topic tid :
  ClQuiet c -> okb1 topic = true -> tid < 65536 ->
  exists c1 c', cl_step cfg c (CCall id (ARegister topic)) =
             (c1, [CoSn (cl_now c) (pack (Register 0 (cl_next_mid c) topic))]) /\
    cl_step cfg c1 (CGw (pack (Regack tid (cl_next_mid c) RC_ACCEPTED))) = (c', [CoRet (cl_now c) id ROk]) /\
    ClQuiet c' /\ cl_now c' = cl_now c /\ cl_handlers c' = cl_handlers c /\
    cl_registered c' = reg_set (cl_registered c) topic tid.
Proof.
  intros HQ Ht Htid. pose proof (cq_mid _ HQ) as Hmid.
  assert (Hnz : (len topic =? 0) = false).
  { apply okb1_spec in Ht. destruct Ht as (_ & _ & Hp). apply N.eqb_neq. lia. }
  eexists. eexists. split; [|split; [|split]].
  - ccall. rewrite Hnz. bi. unfold call_simple, c_next_mid. pk.
    v_start_retry ltac:(apply wf_register; [assumption|lia]). bi. pk. rw. reflexivity.
  - cgw_shell (Regack tid (cl_next_mid c) RC_ACCEPTED) ltac:(apply wf_regack; [assumption|lia]).
    v_handle ltac:(by_id; v_complete).
    cgw_end. reflexivity.
  - cl_quiet HQ. apply next_mid_range, Hmid.
  - pk. repeat split.
Qed.

(* Publish, QoS 0, on a short or a registered topic name: PUBLISH out, the call returns nil at once *)
Lemma cl_pubg0 cfg c id topic tit tid retain payload :
  ClQuiet c -> pub_tid c topic = Some (tit, tid) -> tid < 65536 -> okb payload = true ->
  exists c', cl_step cfg c (CCall id (APublish topic 0 retain payload)) =
             (c', [CoSn (cl_now c) (pack (Publish false 0 retain tit tid (cl_next_mid c) payload));
                   CoRet (cl_now c) id ROk]) /\
    ClQuiet c' /\ cl_frame c c'.
Proof.
  intros HQ Hpt Htid Hp. pose proof (cq_mid _ HQ) as Hmid. pose proof (pub_tid_tit _ _ _ _ Hpt) as Htit.
  eexists. split; [|split].
  - ccall. rewrite (pub_sel _ _ _ _ _ _ _ _ _ Hpt). unfold do_publish, c_next_mid, c_send, ret. pk. rw. pk.
    rewrite (pack_fits (Publish false 0 retain tit tid (cl_next_mid c) payload))
      by (apply wf_pub; [lia|assumption|assumption|lia|assumption]).
    pk. rw. reflexivity.
  - cl_quiet HQ. apply next_mid_range, Hmid.
  - repeat split.
Qed.

(* ... QoS 1: PUBLISH out, PUBACK in, the call returns nil *)
Lemma cl_pubg1 cfg c id topic tit tid retain payload :
  ClQuiet c -> pub_tid c topic = Some (tit, tid) -> tid < 65536 -> okb payload = true ->
  exists c1 c', cl_step cfg c (CCall id (APublish topic 1 retain payload)) =
             (c1, [CoSn (cl_now c) (pack (Publish false 1 retain tit tid (cl_next_mid c) payload))]) /\
    cl_step cfg c1 (CGw (pack (Puback tid (cl_next_mid c) RC_ACCEPTED))) = (c', [CoRet (cl_now c) id ROk]) /\
    ClQuiet c' /\ cl_frame c c'.
Proof.
  intros HQ Hpt Htid Hp. pose proof (cq_mid _ HQ) as Hmid. pose proof (pub_tid_tit _ _ _ _ Hpt) as Htit.
  eexists. eexists. split; [|split; [|split]].
  - ccall. rewrite (pub_sel _ _ _ _ _ _ _ _ _ Hpt). unfold do_publish, c_next_mid. pk.
    v_start_retry ltac:(apply wf_pub; [lia|assumption|assumption|lia|assumption]). bi. pk. rw. reflexivity.
  - cgw_shell (Puback tid (cl_next_mid c) RC_ACCEPTED) ltac:(apply wf_puback; [assumption|lia]).
    v_handle ltac:(by_id; v_complete).
    cgw_end. reflexivity.
  - cl_quiet HQ. apply next_mid_range, Hmid.
  - repeat split.
Qed.

(* ... QoS 2: PUBLISH out, PUBREC in, PUBREL out, PUBCOMP in, the call returns nil *)
Lemma cl_pubg2 cfg c id topic tit tid retain payload :
  ClQuiet c -> pub_tid c topic = Some (tit, tid) -> tid < 65536 -> okb payload = true ->
  exists c1 c2 c', cl_step cfg c (CCall id (APublish topic 2 retain payload)) =
             (c1, [CoSn (cl_now c) (pack (Publish false 2 retain tit tid (cl_next_mid c) payload))]) /\
    cl_step cfg c1 (CGw (pack (Pubrec (cl_next_mid c)))) = (c2, [CoSn (cl_now c) (pack (Pubrel (cl_next_mid c)))]) /\
    cl_step cfg c2 (CGw (pack (Pubcomp (cl_next_mid c)))) = (c', [CoRet (cl_now c) id ROk]) /\
    ClQuiet c' /\ cl_frame c c'.
Proof.
  intros HQ Hpt Htid Hp. pose proof (cq_mid _ HQ) as Hmid. pose proof (pub_tid_tit _ _ _ _ Hpt) as Htit.
  destruct (wf_mid16 (cl_next_mid c) ltac:(lia)) as (Hwrec & Hwrel & Hwcomp & _).
  eexists. eexists. eexists. split; [|split; [|split; [|split]]].
  - ccall. rewrite (pub_sel _ _ _ _ _ _ _ _ _ Hpt). unfold do_publish, c_next_mid. pk.
    v_start_retry ltac:(apply wf_pub; [lia|assumption|assumption|lia|assumption]). bi. pk. rw. reflexivity.
  - cgw_shell (Pubrec (cl_next_mid c)) ltac:(exact Hwrec).
    v_handle ltac:(by_id; unfold c_set_obj, c_disarm, c_arm; pk; rewrite ?N.eqb_refl; pk;
      match goal with |- context [c_send ?s ?p] =>
        val (c_send s p) ltac:(unfold c_send; pk; rw; bi; rewrite (pack_fits p) by (exact Hwrel); bi; pk) end;
      bi).
    cgw_end. reflexivity.
  - cgw_shell (Pubcomp (cl_next_mid c)) ltac:(exact Hwcomp).
    v_handle ltac:(by_id; v_complete).
    cgw_end. reflexivity.
  - cl_quiet HQ; [|apply next_mid_range, Hmid]. rewrite (insert_insert (M:=Nmap)). apply Nd_ins_emp.
  - repeat split.
Qed.

(* Unsubscribe on a short topic name: UNSUBSCRIBE out, UNSUBACK in, the call returns nil and the
   handler stored under the topic's route is removed *)
Lemma cl_unsub cfg c id topic :
  ClQuiet c -> is_short_topic topic = true -> wf_bytes topic ->
  exists c1 c', cl_step cfg c (CCall id (AUnsub topic)) =
             (c1, [CoSn (cl_now c) (pack (Unsubscribe TIT_SHORT (cl_next_mid c) (encode_short topic) []))]) /\
    cl_step cfg c1 (CGw (pack (Unsuback (cl_next_mid c)))) = (c', [CoRet (cl_now c) id ROk]) /\
    ClQuiet c' /\ cl_now c' = cl_now c /\ cl_registered c' = cl_registered c /\
    cl_handlers c' = tbl_remove (cl_handlers c) (split topic).
Proof.
  intros HQ Hs Hw. pose proof (cq_mid _ HQ) as Hmid.
  destruct (wf_mid16 (cl_next_mid c) ltac:(lia)) as (_ & _ & _ & Hwua).
  eexists. eexists. split; [|split; [|split]].
  - ccall. rewrite (short_len_nz topic Hs), Hs. bi. unfold call_simple, c_next_mid. pk.
    v_start_retry ltac:(apply wf_unsub_short; [assumption|assumption|lia]). bi. pk. rw. reflexivity.
  - cgw_shell (Unsuback (cl_next_mid c)) ltac:(exact Hwua).
    v_handle ltac:(by_id; unfold topic_name_of; pk; rewrite (decode_encode_short topic Hs Hw); bi; v_complete).
    cgw_end. reflexivity.
  - cl_quiet HQ. apply next_mid_range, Hmid.
  - pk. repeat split.
Qed.

(* ------------------------------------------------------------------ the gateway session *)

(* what the exchanges leave alone, the topic-ID allocator included *)
Definition gw_frame3 (g g' : gw_state) : Prop :=
  gw_frame g g' /\ gw_seq_next g' = gw_seq_next g /\ gw_seq_overflow g' = gw_seq_overflow g /\
  gw_no_more_tids g' = gw_no_more_tids g.

Lemma resolve_ext cfg s g tit tid : gw_registered s = gw_registered g -> gw_client_id s = gw_client_id g ->
  resolve_client_topic cfg s tit tid = resolve_client_topic cfg g tit tid.
Proof. unfold resolve_client_topic. intros -> ->. reflexivity. Qed.

Lemma find_registered_ext s g n : gw_registered s = gw_registered g -> find_registered s n = find_registered g n.
Proof. unfold find_registered. intros ->. reflexivity. Qed.

Ltac v_resolve g :=
  match goal with |- context [resolve_client_topic ?cfg ?s ?tit ?tid] =>
    rewrite (resolve_ext cfg s g tit tid) by reflexivity end.

(* REGISTER of a name that has no topic ID yet, the allocator being able to hand out its next ID (it
   is not exhausted, the ID is not the last of the range and not a predefined topic ID of this client):
   the name gets that ID, REGACK (that ID, accepted) *)
Lemma gw_register cfg g topic mid :
  GwQuiet g -> okb1 topic = true -> mid < 65536 -> find_registered g topic = None ->
  gw_no_more_tids g = false -> gw_seq_overflow g = false -> gw_seq_next g <> max_tid cfg ->
  gw_seq_next g < 65536 -> get_name (predefined cfg) (gw_client_id g) (gw_seq_next g) = None ->
  exists g', gw_step cfg g (EvSn (pack (Register 0 mid topic))) =
             (g', [OutSn (gw_now g) (pack (Regack (gw_seq_next g) mid RC_ACCEPTED))]) /\
    GwQuiet g' /\ (gw_now g' = gw_now g /\ gw_client_id g' = gw_client_id g /\ gw_keepalive g' = gw_keepalive g) /\
    gw_registered g' = <[gw_seq_next g := topic]> (gw_registered g) /\
    gw_seq_next g' = gw_seq_next g + 1 /\ gw_seq_overflow g' = false /\ gw_no_more_tids g' = false.
Proof.
  intros HG Ht Hm Hfr Hnm Hov Hmax Hid Hpd.
  assert (Emax : (gw_seq_next g =? max_tid cfg) = false) by (apply N.eqb_neq; exact Hmax).
  eexists. split; [|split; [|split]].
  - gsn (Register 0 mid topic) ltac:(apply wf_register; assumption).
    match goal with |- context [register_topic ?cfg0 ?s ?n] =>
      val (register_topic cfg0 s n)
        ltac:(unfold register_topic; rewrite (find_registered_ext s g n) by reflexivity; rewrite Hfr; bi;
              unfold new_topic_id; gk; rewrite Hnm; bi; unfold seq_next; gk; rewrite Emax, Hov; bi;
              cbn [skip_predefined]; gk; rewrite Hpd; bi; gk) end.
    bi. unfold note_handed.
    v_sn_send ltac:(apply wf_regack; assumption).
    unfold finish_r. gk. reflexivity.
  - gw_quiet HG.
  - gk. repeat split.
  - gk. repeat split. exact Hnm.
Qed.

(* PUBLISH (QoS 0) of the client under a topic ID that denotes a wildcard-free name: forwarded to the broker *)
Lemma gw_pubg0 cfg g topic tit tid retain mid payload :
  GwQuiet g -> resolve_client_topic cfg g tit tid = Some topic -> has_wildcard topic = false ->
  tit < 4 -> tid < 65536 -> mid < 65536 -> okb payload = true ->
  exists g', gw_step cfg g (EvSn (pack (Publish false 0 retain tit tid mid payload))) =
             (g', [OutMq (gw_now g) (MqPublish false 0 retain topic mid payload)]) /\
    GwQuiet g' /\ gw_frame3 g g'.
Proof.
  intros HG Hres Hwild Htit Htid Hm Hp. eexists. split; [|split].
  - gsn (Publish false 0 retain tit tid mid payload) ltac:(apply wf_pub; [lia|assumption|assumption|assumption|assumption]).
    unfold handle_client_publish. v_resolve g. rewrite Hres, Hwild. gk.
    unfold mq_send, ok, finish_r. gk. reflexivity.
  - gw_quiet HG.
  - repeat split.
Qed.

(* ... QoS 1: forwarded; the broker's PUBACK is forwarded back (with the topic ID of the PUBLISH) *)
Lemma gw_pubg1 cfg g topic tit tid retain mid payload :
  GwQuiet g -> resolve_client_topic cfg g tit tid = Some topic -> has_wildcard topic = false ->
  tit < 4 -> tid < 65536 -> 1 <= mid < 65536 -> okb payload = true ->
  exists g1 g', gw_step cfg g (EvSn (pack (Publish false 1 retain tit tid mid payload))) =
             (g1, [OutMq (gw_now g) (MqPublish false 1 retain topic mid payload)]) /\
    gw_step cfg g1 (EvMq (MqPuback mid)) = (g', [OutSn (gw_now g) (pack (Puback tid mid RC_ACCEPTED))]) /\
    GwQuiet g' /\ gw_frame3 g g' /\ gw_now g1 = gw_now g.
Proof.
  intros HG Hres Hwild Htit Htid Hm Hp.
  assert (Hm0 : (mid =? 0) = false) by (apply N.eqb_neq; lia).
  eexists. eexists. split; [|split; [|split]].
  - gsn (Publish false 1 retain tit tid mid payload) ltac:(apply wf_pub; [lia|assumption|assumption|lia|assumption]).
    unfold handle_client_publish. v_resolve g. rewrite Hres, Hwild, Hm0. gk.
    unfold new_obj, arm, mq_send, ok, finish_r. gk. rwg. reflexivity.
  - gmq. unfold get_by_id. gk. nl. bi. gk. nl. bi. gk. v_gfinish.
    v_sn_send ltac:(apply wf_puback; [assumption|lia]).
    unfold finish_r. gk. reflexivity.
  - gw_quiet HG.
  - split; [repeat split|reflexivity].
Qed.

(* ... QoS 2: the gateway keeps no transaction; PUBLISH and PUBREL are forwarded to the broker, PUBREC and
   PUBCOMP to the client, one by one *)
Lemma gw_pubg2 cfg g topic tit tid retain mid payload :
  GwQuiet g -> resolve_client_topic cfg g tit tid = Some topic -> has_wildcard topic = false ->
  tit < 4 -> tid < 65536 -> 1 <= mid < 65536 -> okb payload = true ->
  exists g', gw_step cfg g (EvSn (pack (Publish false 2 retain tit tid mid payload))) =
             (g', [OutMq (gw_now g) (MqPublish false 2 retain topic mid payload)]) /\
    GwQuiet g' /\ gw_frame3 g g'.
Proof.
  intros HG Hres Hwild Htit Htid Hm Hp.
  assert (Hm0 : (mid =? 0) = false) by (apply N.eqb_neq; lia).
  eexists. split; [|split].
  - gsn (Publish false 2 retain tit tid mid payload) ltac:(apply wf_pub; [lia|assumption|assumption|lia|assumption]).
    unfold handle_client_publish. v_resolve g. rewrite Hres, Hwild, Hm0. gk.
    unfold mq_send, ok, finish_r. gk. reflexivity.
  - gw_quiet HG.
  - repeat split.
Qed.

Lemma gw_mq_pubrec cfg g mid : GwQuiet g -> mid < 65536 ->
  exists g', gw_step cfg g (EvMq (MqPubrec mid)) = (g', [OutSn (gw_now g) (pack (Pubrec mid))]) /\
    GwQuiet g' /\ gw_frame3 g g'.
Proof.
  intros HG Hm. destruct (wf_mid16 mid Hm) as (Hw & _). eexists. split; [|split].
  - gmq. v_sn_send ltac:(exact Hw). unfold finish_r. gk. reflexivity.
  - gw_quiet HG.
  - repeat split.
Qed.

Lemma gw_sn_pubrel cfg g mid : GwQuiet g -> 1 <= mid < 65536 ->
  exists g', gw_step cfg g (EvSn (pack (Pubrel mid))) = (g', [OutMq (gw_now g) (MqPubrel mid)]) /\
    GwQuiet g' /\ gw_frame3 g g'.
Proof.
  intros HG Hm. destruct (wf_mid16 mid ltac:(lia)) as (_ & Hw & _).
  assert (Hm0 : (mid =? 0) = false) by (apply N.eqb_neq; lia).
  eexists. split; [|split].
  - gsn (Pubrel mid) ltac:(exact Hw). rewrite Hm0. unfold mq_send, ok, finish_r. gk. reflexivity.
  - gw_quiet HG.
  - repeat split.
Qed.

Lemma gw_mq_pubcomp cfg g mid : GwQuiet g -> mid < 65536 ->
  exists g', gw_step cfg g (EvMq (MqPubcomp mid)) = (g', [OutSn (gw_now g) (pack (Pubcomp mid))]) /\
    GwQuiet g' /\ gw_frame3 g g'.
Proof.
  intros HG Hm. destruct (wf_mid16 mid Hm) as (_ & _ & Hw & _). eexists. split; [|split].
  - gmq. v_sn_send ltac:(exact Hw). unfold finish_r. gk. reflexivity.
  - gw_quiet HG.
  - repeat split.
Qed.

(* UNSUBSCRIBE (short topic name): MQTT UNSUBSCRIBE to the broker; the broker's UNSUBACK is forwarded back *)
Lemma gw_unsub cfg g topic mid :
  GwQuiet g -> is_short_topic topic = true -> wf_bytes topic -> 1 <= mid < 65536 ->
  exists g', gw_step cfg g (EvSn (pack (Unsubscribe TIT_SHORT mid (encode_short topic) []))) =
             (g', [OutMq (gw_now g) (MqUnsubscribe mid [topic])]) /\
    GwQuiet g' /\ gw_frame3 g g'.
Proof.
  intros HG Hs Hw Hm.
  assert (Hm0 : (mid =? 0) = false) by (apply N.eqb_neq; lia).
  eexists. split; [|split].
  - gsn (Unsubscribe TIT_SHORT mid (encode_short topic) []) ltac:(apply wf_unsub_short; [assumption|assumption|lia]).
    unfold handle_unsubscribe. rewrite Hm0. gk. rewrite (decode_encode_short topic Hs Hw).
    unfold mq_send, ok, finish_r. gk. reflexivity.
  - gw_quiet HG.
  - repeat split.
Qed.

Lemma gw_mq_unsuback cfg g mid : GwQuiet g -> mid < 65536 ->
  exists g', gw_step cfg g (EvMq (MqUnsuback mid)) = (g', [OutSn (gw_now g) (pack (Unsuback mid))]) /\
    GwQuiet g' /\ gw_frame3 g g'.
Proof.
  intros HG Hm. destruct (wf_mid16 mid Hm) as (_ & _ & _ & Hw). eexists. split; [|split].
  - gmq. v_sn_send ltac:(exact Hw). unfold finish_r. gk. reflexivity.
  - gw_quiet HG.
  - repeat split.
Qed.

(* the gateway lemmas of ComposeProofs_aux.v / ComposeProofs2_aux.v once more, with the frame that
   covers the topic-ID allocator (same proofs) *)
Lemma gw_ping3 cfg g : GwQuiet g ->
  exists g1 g', gw_step cfg g (EvSn (pack (Pingreq []))) = (g1, [OutMq (gw_now g) MqPingreq]) /\
    gw_step cfg g1 (EvMq MqPingresp) = (g', [OutSn (gw_now g) (pack Pingresp)]) /\
    GwQuiet g' /\ gw_frame3 g g' /\ gw_now g1 = gw_now g.
Proof.
  intros HG. eexists. eexists. split; [|split].
  - gsn (Pingreq []) ltac:(reflexivity). unfold mq_send, ok, finish_r. gk. reflexivity.
  - gmq. gk. rwg. gk. v_sn_send ltac:(reflexivity). unfold finish_r. gk. reflexivity.
  - split; [gw_quiet HG|]. split; [repeat split|reflexivity].
Qed.

Lemma gw_sub3 cfg g topic q mid :
  GwQuiet g -> is_short_topic topic = true -> wf_bytes topic -> q <= 2 -> 1 <= mid < 65536 ->
  exists g1 g', gw_step cfg g (EvSn (pack (Subscribe false q TIT_SHORT mid (encode_short topic) []))) =
             (g1, [OutMq (gw_now g) (MqSubscribe mid false [(topic, q)])]) /\
    gw_step cfg g1 (EvMq (MqSuback mid [q])) = (g', [OutSn (gw_now g) (pack (Suback q 0 mid RC_ACCEPTED))]) /\
    GwQuiet g' /\ gw_frame3 g g' /\ gw_now g1 = gw_now g.
Proof.
  intros HG Hs Hw Hq Hm.
  assert (Hq2 : (2 <? q) = false) by (apply N.ltb_ge; lia).
  assert (Hm0 : (mid =? 0) = false) by (apply N.eqb_neq; lia).
  assert (Hqle : (q <=? 2) = true) by (apply N.leb_le; lia).
  eexists. eexists. split; [|split; [|split]].
  - gsn (Subscribe false q TIT_SHORT mid (encode_short topic) [])
      ltac:(apply wf_sub_short; [lia|assumption|assumption|lia]).
    unfold handle_subscribe. bi. rewrite Hq2, Hm0. gk. rewrite (decode_encode_short topic Hs Hw).
    unfold new_obj, arm, mq_send, ok, finish_r. gk. rwg. reflexivity.
  - gmq. unfold get_by_id. gk. nl. bi. gk. nl. bi. gk. v_gfinish. rewrite Hqle. bi.
    match goal with |- context [gw_registered ?s0 !! 0] =>
      let E := fresh "E" in assert (E : gw_registered s0 = gw_registered g) by reflexivity; rewrite E; clear E end.
    match goal with |- context [sn_send ?s ?p] =>
      rewrite (sn_send_active s p) by
        first [ apply wf_suback; lia
              | destruct (gw_registered g !! 0); unfold note_handed; gk; apply (gq_st _ HG) ] end.
    unfold finish_r. bi.
    match goal with |- context [gw_now ?s0] =>
      let E := fresh "E" in assert (E : gw_now s0 = gw_now g) by (destruct (gw_registered g !! 0); reflexivity);
      rewrite E; clear E end.
    reflexivity.
  - destruct (gw_registered g !! 0); unfold note_handed; gw_quiet HG.
  - split; [|reflexivity]. destruct (gw_registered g !! 0); repeat split.
Qed.

Lemma gw_bpub0_3 cfg g dup retain topic mid payload :
  GwQuiet g -> is_short_topic topic = true -> wf_bytes topic -> mid < 65536 -> okb payload = true ->
  exists g', gw_step cfg g (EvMq (MqPublish dup 0 retain topic mid payload)) =
             (g', [OutSn (gw_now g) (pack (Publish dup 0 retain TIT_SHORT (encode_short topic) mid payload))]) /\
    GwQuiet g' /\ gw_frame3 g g'.
Proof.
  intros HG Hs Hw Hm Hp. eexists. split; [|split].
  - gmq. unfold handle_broker_publish. rewrite Hs. bi. gk.
    v_sn_send ltac:(apply wf_pub_short; [lia|assumption|assumption|assumption|assumption]).
    unfold finish_r. gk. reflexivity.
  - gw_quiet HG.
  - repeat split.
Qed.

Lemma gw_bpub1_3 cfg g dup retain topic mid payload :
  GwQuiet g -> is_short_topic topic = true -> wf_bytes topic -> 1 <= mid < 65536 -> okb payload = true ->
  exists g1 g', gw_step cfg g (EvMq (MqPublish dup 1 retain topic mid payload)) =
             (g1, [OutSn (gw_now g) (pack (Publish dup 1 retain TIT_SHORT (encode_short topic) mid payload))]) /\
    gw_step cfg g1 (EvSn (pack (Puback (encode_short topic) mid RC_ACCEPTED))) = (g', [OutMq (gw_now g) (MqPuback mid)]) /\
    GwQuiet g' /\ gw_frame3 g g' /\ gw_now g1 = gw_now g.
Proof.
  intros HG Hs Hw Hm Hp. eexists. eexists. split; [|split; [|split]].
  - gmq. unfold handle_broker_publish. rewrite Hs. bi. gk. change (2 <? 1) with false. bi.
    unfold new_obj. bi. unfold bp_proceed, set_obj, disarm_obj, arm. gk. rwg. gk.
    rewrite (insert_insert (M:=Nmap)).
    match goal with |- context [sn_send_owned ?s ?o ?p] =>
      val (sn_send_owned s o p) ltac:(unfold sn_send_owned; gk; rwg; bi;
        rewrite (pack_fits p) by (apply wf_pub_short; [lia|assumption|assumption|lia|assumption]); unfold ok; gk) end.
    unfold finish_r. gk. reflexivity.
  - gsn (Puback (encode_short topic) mid RC_ACCEPTED) ltac:(apply wf_puback_short; [assumption|assumption|lia]).
    unfold get_by_id. gk. nl. bi. gk. nl. bi. gk.
    unfold bp_proceed, set_obj, disarm_obj, arm. gk. unfold mq_send, mq_ack, andthen, ok. bi. gk.
    rewrite N.eqb_refl. gk. rewrite (insert_insert (M:=Nmap)).
    v_gfinish. unfold finish_r. gk. reflexivity.
  - gw_quiet HG.
  - split; [repeat split|reflexivity].
Qed.

(* ------------------------------------------------------------------ the registration tables *)

Lemma reg_lookup_none_notin regs n : reg_lookup regs n = None -> forall i, ~ In (n, i) regs.
Proof.
  induction regs as [|[m j] r IH]; cbn [reg_lookup]; intros H i Hin; [destruct Hin|].
  destruct (beq m n) eqn:E; [discriminate H|]. destruct Hin as [Heq|Hin]; [|exact (IH H i Hin)].
  injection Heq as -> _. rewrite beq_refl in E. discriminate E.
Qed.

Lemma reg_lookup_none_names regs n : reg_lookup regs n = None -> ~ In n (map fst regs).
Proof.
  induction regs as [|[m j] r IH]; cbn [reg_lookup map fst]; intros H Hin; [destruct Hin|].
  destruct (beq m n) eqn:E; [discriminate H|]. destruct Hin as [Heq|Hin]; [|exact (IH H Hin)].
  subst m. rewrite beq_refl in E. discriminate E.
Qed.

Lemma reg_set_fresh regs n i : reg_lookup regs n = None -> reg_set regs n i = regs ++ [(n, i)].
Proof.
  induction regs as [|[m j] r IH]; cbn [reg_lookup reg_set app]; intros H; [reflexivity|].
  destruct (beq m n); [discriminate H|]. rewrite (IH H). reflexivity.
Qed.

Lemma reg_lookup_in regs n i : distinct (map fst regs) -> In (n, i) regs -> reg_lookup regs n = Some i.
Proof.
  induction regs as [|[m j] r IH]; [intros _ []|]. cbn [map fst distinct reg_lookup]. intros [Hnin Hd] Hin.
  destruct Hin as [Heq|Hin].
  - injection Heq as -> ->. rewrite beq_refl. reflexivity.
  - destruct (beq m n) eqn:E; [|exact (IH Hd Hin)].
    apply beq_true in E. subst m. exfalso. apply Hnin. change n with (fst (n, i)). apply in_map. exact Hin.
Qed.

Lemma bind_nil {A B} (f : A -> list B) (l : list A) : (forall x, In x l -> f x = []) -> l ≫= f = [].
Proof.
  induction l as [|x l IH]; intros H; [reflexivity|].
  change ((x :: l) ≫= f) with (f x ++ l ≫= f). rewrite (H x (or_introl eq_refl)). cbn [app].
  apply IH. intros y Hy. apply H. right. exact Hy.
Qed.

Lemma ids_with_name_nil (m : topic_map) n : (forall i, m !! i <> Some n) -> ids_with_name m n = [].
Proof.
  intros H. unfold ids_with_name. apply bind_nil. intros [i x] Hin. cbn [fst snd].
  destruct (beq x n) eqn:E; [|reflexivity]. apply beq_true in E. subst x. exfalso. apply (H i).
  apply elem_of_map_to_list. apply elem_of_list_In. exact Hin.
Qed.

(* the client's and the gateway's registration tables agree: regs (name, topic ID; pairwise distinct
   names, in order of registration) is the client's table, the gateway's table maps exactly these IDs
   to these names, all of them are below the allocator's next ID (a 16-bit number), and the allocator is
   not exhausted *)
Record RegsAgree (c : cl_state) (g : gw_state) (regs : list (bytes * N)) : Prop := {
  ra_cl : cl_registered c = regs;
  ra_gw : forall id name, gw_registered g !! id = Some name <-> In (name, id) regs;
  ra_names : distinct (map fst regs);
  ra_below : forall name id, In (name, id) regs -> id < gw_seq_next g;
  ra_u16 : gw_seq_next g < 65536;
  ra_nm : gw_no_more_tids g = false;
  ra_ov : gw_seq_overflow g = false }.

Lemma RegsAgree_frame c g c' g' regs : RegsAgree c g regs ->
  cl_registered c' = cl_registered c -> gw_frame3 g g' -> RegsAgree c' g' regs.
Proof.
  intros [H1 H2 H3 H4 H7 H5 H6] Hc ((_ & _ & Hr & _) & Hs & Ho & Hn).
  constructor; [rewrite Hc; exact H1|rewrite Hr; exact H2|exact H3|rewrite Hs; exact H4|rewrite Hs; exact H7|
                rewrite Hn; exact H5|rewrite Ho; exact H6].
Qed.

Lemma RegsAgree_find_none c g regs n : RegsAgree c g regs -> reg_lookup regs n = None -> find_registered g n = None.
Proof.
  intros HA Hl. unfold find_registered. rewrite ids_with_name_nil; [reflexivity|].
  intros i Hi. apply (ra_gw _ _ _ HA) in Hi. exact (reg_lookup_none_notin regs n Hl i Hi).
Qed.

Lemma RegsAgree_add c g c' g' regs n : RegsAgree c g regs -> reg_lookup regs n = None ->
  cl_registered c' = reg_set (cl_registered c) n (gw_seq_next g) ->
  gw_registered g' = <[gw_seq_next g := n]> (gw_registered g) ->
  gw_seq_next g' = gw_seq_next g + 1 -> gw_seq_next g + 1 < 65536 ->
  gw_seq_overflow g' = false -> gw_no_more_tids g' = false ->
  RegsAgree c' g' (regs ++ [(n, gw_seq_next g)]).
Proof.
  intros [H1 H2 H3 H4 _ H5 H6] Hl Hc Hr Hs Hu Ho Hn. constructor.
  - rewrite Hc, H1. apply reg_set_fresh, Hl.
  - intros id name. rewrite Hr, in_app_iff. split.
    + intros H. apply (lookup_insert_Some (M:=Nmap)) in H. destruct H as [[<- <-]|[Hne H]].
      * right. left. reflexivity.
      * left. apply H2. exact H.
    + intros [H|[H|[]]].
      * rewrite (lookup_insert_ne (M:=Nmap)); [apply H2; exact H|]. pose proof (H4 _ _ H). lia.
      * injection H as <- <-. apply (lookup_insert (M:=Nmap)).
  - rewrite map_app. cbn [map fst]. apply distinct_snoc; [exact H3|apply reg_lookup_none_names, Hl].
  - intros name id Hin. rewrite Hs. apply in_app_iff in Hin. destruct Hin as [H|[H|[]]].
    + pose proof (H4 _ _ H). lia.
    + injection H as _ <-. lia.
  - rewrite Hs. exact Hu.
  - exact Hn.
  - exact Ho.
Qed.

(* Publish on a registered name that is not a 2-byte name uses its topic ID, which the gateway resolves to
   that name *)
Lemma RegsAgree_pub cfg c g regs n i : RegsAgree c g regs -> In (n, i) regs -> is_short_topic n = false ->
  pub_tid c n = Some (TIT_REGISTERED, i) /\ resolve_client_topic cfg g TIT_REGISTERED i = Some n /\ i < 65536.
Proof.
  intros HA Hin Hns. split; [|split].
  - unfold pub_tid. rewrite Hns, (ra_cl _ _ _ HA), (reg_lookup_in regs n i (ra_names _ _ _ HA) Hin). reflexivity.
  - unfold resolve_client_topic. cbn. apply (ra_gw _ _ _ HA). exact Hin.
  - pose proof (ra_below _ _ _ HA _ _ Hin). pose proof (ra_u16 _ _ _ HA). lia.
Qed.

Lemma pub_tid_short c n : is_short_topic n = true -> pub_tid c n = Some (TIT_SHORT, encode_short n).
Proof. unfold pub_tid. intros ->. reflexivity. Qed.

(* ------------------------------------------------------------------ the subscription tables after Unsubscribe *)

Definition subs_del (t : bytes) (subs : list subn) : list subn :=
  List.filter (fun s => negb (beq (sub_topic s) t)) subs.

Lemma sub_del_subs subs t : sub_del t (bsubs_of subs) = bsubs_of (subs_del t subs).
Proof.
  induction subs as [|s r IH]; [reflexivity|]. unfold sub_del, subs_del in *. cbn [bsubs_of map List.filter fst].
  destruct (beq (sub_topic s) t); cbn [negb]; [exact IH|]. cbn [map]. f_equal. exact IH.
Qed.

Lemma tbl_remove_subs subs t : tbl_remove (handlers_of subs) (split t) = handlers_of (subs_del t subs).
Proof.
  unfold tbl_remove. rewrite (join_split t).
  induction subs as [|s r IH]; [reflexivity|]. unfold subs_del in *. cbn [handlers_of map tbl_delete List.filter].
  destruct (beq (sub_topic s) t); cbn [negb]; [exact IH|]. cbn [map]. f_equal. exact IH.
Qed.

Lemma subs_del_in t subs s : In s (subs_del t subs) -> In s subs /\ sub_topic s <> t.
Proof.
  unfold subs_del. intros H. apply filter_In in H. destruct H as [Hin Hb]. split; [exact Hin|].
  apply negb_true_iff in Hb. apply beq_false. exact Hb.
Qed.

Lemma subs_del_gone t subs : ~ In t (map sub_topic (subs_del t subs)).
Proof.
  intros H. apply in_map_iff in H. destruct H as (s & Hs & Hin). apply subs_del_in in Hin. exact (proj2 Hin Hs).
Qed.

Lemma subs_del_distinct t subs : distinct (map sub_topic subs) -> distinct (map sub_topic (subs_del t subs)).
Proof.
  induction subs as [|s r IH]; [intros _; exact I|]. unfold subs_del in *. cbn [map distinct List.filter]. intros [Hnin Hd].
  destruct (beq (sub_topic s) t); cbn [negb]; [exact (IH Hd)|]. cbn [map distinct]. split; [|exact (IH Hd)].
  intros Hin. apply Hnin. apply in_map_iff in Hin. destruct Hin as (s' & Hs' & Hin').
  apply in_map_iff. exists s'. split; [exact Hs'|]. apply filter_In in Hin'. exact (proj1 Hin').
Qed.

Lemma subs_ok_del t subs : subs_ok subs -> subs_ok (subs_del t subs).
Proof.
  intros [Hf Hd]. split; [|apply subs_del_distinct, Hd].
  apply Forall_forall. intros s Hin. apply subs_del_in in Hin. rewrite Forall_forall in Hf. exact (Hf s (proj1 Hin)).
Qed.

(* the other subscriptions stay *)
Lemma subs_del_other t subs s : In s subs -> sub_topic s <> t -> In s (subs_del t subs).
Proof.
  intros Hin Hne. unfold subs_del. apply filter_In. split; [exact Hin|]. apply negb_true_iff, beq_false, Hne.
Qed.

(* a name that is not a 2-byte name is not among the (short) subscribed topics *)
Lemma not_short_not_sub subs t : Forall (fun s => topic_ok (sub_topic s) = true) subs -> is_short_topic t = false ->
  ~ In t (map sub_topic subs).
Proof.
  intros Hf Hns Hin. apply in_map_iff in Hin. destruct Hin as (s & Hs & Hin). rewrite Forall_forall in Hf.
  destruct (topic_ok_spec _ (Hf s Hin)) as (Hsh & _). rewrite Hs, Hns in Hsh. discriminate Hsh.
Qed.

(* ------------------------------------------------------------------ the broker's QoS 2 table *)

Lemma inflight_release l mid : existsb (N.eqb mid) l = false ->
  List.filter (fun i => negb (i =? mid)) (l ++ [mid]) = l.
Proof.
  induction l as [|x l IH]; cbn [existsb app List.filter]; intros H.
  - rewrite N.eqb_refl. reflexivity.
  - apply orb_false_iff in H. destruct H as [Hx Hl]. rewrite N.eqb_sym, Hx. cbn [negb]. f_equal. exact (IH Hl).
Qed.

(* ------------------------------------------------------------------ CONNECT, with the allocator's frame *)

(* gw_connect_idle of ComposeProofs_aux.v once more (same proof): the exchange leaves the registration table
   and the topic-ID allocator alone *)
Lemma gw_connect_idle3 cfg g clean dur cid sp :
  GwIdle g -> auth_enabled cfg = false -> 0 < dur < 65536 -> okb1 cid = true ->
  exists g1 g', gw_step cfg g (EvSn (pack (Connect false clean 1 dur cid))) =
             (g1, [OutMq (gw_now g) (MqConnect (mq_connect_of cfg clean dur cid))]) /\
    gw_step cfg g1 (EvMq (MqConnack sp 0)) = (g', [OutSn (gw_now g) (pack (Connack RC_ACCEPTED))]) /\
    GwQuiet g' /\ gw_now g' = gw_now g /\ gw_client_id g' = cid /\ gw_keepalive g' = dur /\ gw_now g1 = gw_now g /\
    gw_registered g' = gw_registered g /\ gw_seq_next g' = gw_seq_next g /\
    gw_seq_overflow g' = gw_seq_overflow g /\ gw_no_more_tids g' = gw_no_more_tids g.
Proof.
  intros HI Hauth Hdur Hcid.
  assert (Hd0 : (dur =? 0) = false) by (apply N.eqb_neq; lia).
  eexists. eexists. split; [|split].
  - unfold gw_step; bi; rwgi HI; bi; gk; rwgi HI; bi.
    rewrite (read_pack_roundtrip (Connect false clean 1 dur cid))
      by (cbn [wf_pkt]; unfold lt16; rewrite Hcid; repeat (apply andb_true_iff; split); try reflexivity; apply N.ltb_lt; lia).
    bi. unfold handle_sn, packet_legal; gk; rwgi HI; bi; gk.
    unfold handle_connect. gk. rwgi HI. gk. rewrite Hd0. gk. rwgi HI. bi.
    unfold new_obj, arm, connect_start. gk. rewrite Hauth. unfold connect_auth_done, set_obj, mq_send, ok, finish_r. gk.
    fold (mq_connect_of cfg clean dur cid). reflexivity.
  - unfold gw_step; bi; gk; rwgi HI; bi; gk. rwgi HI. bi. unfold handle_mq; bi. unfold get_connect. gk. nl. bi. gk.
    unfold andthen.
    match goal with |- context [sn_send ?s ?p] =>
      val (sn_send s p) ltac:(unfold sn_send, sn_send_owned; gk; bi; rewrite (pack_fits p) by reflexivity; unfold ok; gk) end.
    gk. v_gfinish. unfold ok, finish_r. gk. reflexivity.
  - split; [|repeat split]. constructor; gk; rwgi HI; try reflexivity; try apply Nd_ins_emp.
    rewrite (insert_insert (M:=Nmap)). apply Nd_ins_emp.
Qed.
