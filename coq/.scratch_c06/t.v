Eval vm_compute in run ([bpub 1 7; EvSn (pack (Puback 0 7 0))]).
Eval vm_compute in run ([bpub 2 7; EvSn (pack (Pubrec 7))]).
Eval vm_compute in run ([EvSn (pack (Connect false true 1 60 [99; 49])); bpub 2 7; EvSn (pack (Pubrec 7))]).
Eval vm_compute in run ([EvSn (pack (Connect false true 1 60 [99; 49])); bpubL 2 7; EvMq (MqConnack false 0); EvSn (pack (Regack 1 7 0)); EvSn (pack (Pubrec 7))]).
Eval vm_compute in run (conn ++ [cpub 5; EvAdvance 2; EvMq (MqPuback 5)]).
Eval vm_compute in run (conn ++ [csub 5; EvAdvance 2; EvMq (MqSuback 5 [1])]).
Eval vm_compute in run (conn ++ [bpub 1 7; EvAdvance 2; EvSn (pack (Puback 0 7 0))]).
Eval vm_compute in run (conn ++ [bpub 2 7; EvAdvance 2; EvSn (pack (Pubrec 7))]).
Eval vm_compute in run (conn ++ [cpub 5; EvAdvance 999; EvMq (MqPuback 5)]).
Eval vm_compute in run (conn ++ [bpub 1 7; EvAdvance 2999; EvSn (pack (Puback 0 7 0))]).
Eval vm_compute in run (conn ++ [bpub 1 7; EvAdvance 1000;EvAdvance 1000;EvAdvance 999; EvSn (pack (Puback 0 7 0))]).
Eval vm_compute in run (conn ++ [bpubL 1 7; EvAdvance 2; EvSn (pack (Regack 1 7 0)); EvAdvance 5; EvSn (pack (Puback 1 7 0))]).
Eval vm_compute in run (conn ++ [bpubL 2 7; EvAdvance 2900; EvSn (pack (Regack 1 7 0)); EvAdvance 2999; EvSn (pack (Pubrec 7))]).
Eval vm_compute in run (conn ++ [EvSn (pack (Disconnect 30)); bpub 1 7; EvAdvance 2; EvSn (pack (Pingreq [99;49])); EvSn (pack (Puback 0 7 0))]).
Eval vm_compute in run (conn ++ [cpub 5; EvAdvance 500; cpub 5; EvAdvance 600; EvMq (MqPuback 5)]).
Eval vm_compute in run (conn ++ [cpub 5; EvAdvance 500; csub 5; EvAdvance 600; EvMq (MqPuback 5); EvMq (MqSuback 5 [0])]).
Eval vm_compute in run (conn ++ [cpub 5; EvAdvance 2; bpub 1 5; EvAdvance 2; EvMq (MqPuback 5)]).
Eval vm_compute in run (conn ++ [bpub 1 5; EvAdvance 2; cpub 5; EvAdvance 2; EvSn (pack (Puback 0 5 0))]).
Eval vm_compute in run (conn ++ [bpub 2 5; EvAdvance 2; csub 5; EvAdvance 2; EvSn (pack (Pubrec 5))]).
Eval vm_compute in run (conn ++ [bpubL0; EvAdvance 2; cpub 65535; EvAdvance 2; EvSn (pack (Regack 1 65535 0)); EvMq (MqPuback 65535)]).
Eval vm_compute in run (conn ++ [bpub 1 7; EvAdvance 2500; bpub 2 7; EvAdvance 600; EvSn (pack (Puback 0 7 0)); EvSn (pack (Pubrec 7))]).
Eval vm_compute in run (conn ++ [bpub 1 7; EvSn (pack (Disconnect 30)); EvSn (pack (Connect false true 1 60 [99; 49])); EvSn (pack (Puback 0 7 0))]).
