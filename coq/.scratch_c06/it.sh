#!/bin/sh
cd /verif/coq
( head -n "$2" "$1"; cat "$3" ) | coqtop -Q . Verif -w -notation-overridden,-ambiguous-paths,-deprecated-instance-without-locality,-deprecated-hint-rewrite-without-locality 2>&1 | sed 's/^\([A-Za-z_0-9]* < \)*//' | tail -n ${4:-60}
