Proof. intros H. unfold handle_connect.
  destruct (negb (pr =? 1)); [nd_auto|].
  destruct (cstate_eqb (gw_st s) Awake || cstate_eqb (gw_st s) Asleep); [nd_auto|].
  destruct (d =? 0); [nd_auto|]. cbv zeta.
  match goal with |- context [new_obj ?S ?T] => set (S1 := S); set (T1 := T) end.
  change (new_obj S1 T1) with (fst (new_obj S1 T1), gw_next_obj S1). cbv iota beta.
  apply connect_start_nd'.
  assert (H1 : ND S1).
  { subst S1. Timeout 10 nd_auto. }
  Timeout 10 repeat nd_st. Show.
