#!/bin/sh
cd /verif/coq
( time timeout 900 coqc -Q . Verif -w -notation-overridden,-ambiguous-paths,-deprecated-instance-without-locality,-deprecated-hint-rewrite-without-locality "$1" ) 2>&1 | grep -v "conda" | head -${2:-60}
