#!/bin/sh
cd /verif/coq
cat .scratch_c06/pre.v "$1" | coqtop -Q . Verif -w -notation-overridden,-ambiguous-paths,-deprecated-instance-without-locality,-deprecated-hint-rewrite-without-locality 2>&1 | sed 's/^\(Coq < \)*//' | grep -v '^$' | grep -v 'list N$' | grep -v 'is defined'
