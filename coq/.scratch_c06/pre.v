From stdpp Require Import base option list numbers fin_maps nmap.
From Verif.Base Require Import Bytes.
From Verif.Codec Require Import Packets Decode Encode.
From Verif.Gateway Require Import GwTypes GwStep GwWf GwWfDec.
From Verif.Checkers Require Import ChkCodec ChkGw ChkGw2 ChkGw4.
Open Scope N_scope.
Definition cfg : gw_cfg :=
  {| auth_enabled := false; cfg_user := None; cfg_pass := None; retry_delay := 1000; retry_count := 2;
     predefined := []; min_tid := 1; max_tid := 65534 |}.
Definition conn := [EvSn (pack (Connect false true 1 60 [99; 49])); EvMq (MqConnack false 0); EvAdvance 3].
Definition cpub (i:N) := EvSn (pack (Publish false 1 false 2 (encode_short [97; 98]) i [10])).
Definition csub (i:N) := EvSn (pack (Subscribe false 1 0 i 0 [97;47;98])).
Definition bpub (q i:N) := EvMq (MqPublish false q false [120; 121] i [1]).
Definition bpubL (q i:N) := EvMq (MqPublish false q false [120; 121;122] i [1]).
Definition bpubL0 := EvMq (MqPublish false 0 false [120; 121;122] 0 [1]).
Definition run evs := mon6_run cfg (init_state cfg) mon6_init evs.
Definition outs evs := fst (gw_run cfg (init_state cfg) evs).
