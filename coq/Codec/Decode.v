(* Codec/Decode.v — packets1.ReadPacket and the per-type Unpack methods, statement by
   statement, with every index and slice expression as an explicit bounds-checked
   access that yields Panic when Go would panic. *)
From Verif.Base Require Import Bytes.
From Verif.Codec Require Import Packets.
Open Scope N_scope.

(* buf[i] *)
Definition idx (b : bytes) (i : nat) (s : panic_site) : outcome N :=
  match nth_error b i with Some x => Ok x | None => Panic s end.
(* buf[i:] *)
Definition slice_from (b : bytes) (i : nat) (s : panic_site) : outcome bytes :=
  if Nat.leb i (length b) then Ok (skipn i b) else Panic s.
(* buf[i:j] *)
Definition slice (b : bytes) (i j : nat) (s : panic_site) : outcome bytes :=
  if Nat.leb i j && Nat.leb j (length b) then Ok (firstn (j - i) (skipn i b)) else Panic s.
(* binary.BigEndian.Uint16(buf[i:i+2]) *)
Definition get16 (b : bytes) (i : nat) (s : panic_site) : outcome N :=
  obind (idx b i s) (fun hi => obind (idx b (S i) s) (fun lo => Ok (be16 hi lo))).

Notation "'do' x <- o ; k" := (obind o (fun x => k)) (at level 200, x name, o at level 100, k at level 200).

Definition bit (b : N) (k : N) : bool := (b / k) mod 2 =? 1.   (* k a power of two *)

(* packets/header.go: Header.Unpack *)
Record header := { h_len : N; h_type : N }.

Definition header_unpack (buf : bytes) : outcome header :=
  if Nat.ltb (length buf) 2 then Err ErrShort else
  do b0 <- idx buf 0 PsOther;
  if b0 =? 1 then
    if Nat.ltb (length buf) 4 then Err ErrShort else
    do l <- get16 buf 1 PsHeaderSlice;
    do t <- idx buf 3 PsHeaderIdx3;
    Ok {| h_len := l; h_type := t |}
  else
    do t <- idx buf 1 PsOther;
    Ok {| h_len := b0; h_type := t |}.

(* packets.EncodedHeaderLength *)
Definition encoded_header_length (buf : bytes) : nat :=
  match buf with
  | b0 :: _ => if b0 =? 1 then 4%nat else 2%nat
  | [] => 2%nat
  end.

Definition lenb (b : bytes) : nat := length b.

(* per-type Unpack; buf is the packet body *)
Definition unpack_advertise (buf : bytes) : outcome packet :=
  let S := PsBodySlice in
    if negb (Nat.eqb (lenb buf) 3) then Err ErrBadLength else
    do g <- idx buf 0 S; do d <- get16 buf 1 S; Ok (Advertise g d).

Definition unpack_searchgw (buf : bytes) : outcome packet :=
  let S := PsBodySlice in
    if negb (Nat.eqb (lenb buf) 1) then Err ErrBadLength else
    do r <- idx buf 0 S; Ok (SearchGw r).

Definition unpack_gwinfo (buf : bytes) : outcome packet :=
  let S := PsBodySlice in
    if Nat.ltb (lenb buf) 1 then Err ErrBadLength else
    do g <- idx buf 0 S; do a <- slice_from buf 1 S; Ok (GwInfo g a).

Definition unpack_auth (buf : bytes) : outcome packet :=
  let S := PsBodySlice in
    if Nat.ltb (lenb buf) 2 then Err ErrBadLength else
    do r <- idx buf 0 S;
    do ml <- idx buf 1 S;
    let ml := N.to_nat ml in
    if Nat.ltb (lenb buf) (2 + ml) then Err ErrBadLength else
    do m <- slice buf 2 (2 + ml) PsAuthSlice;
    do d <- slice_from buf (2 + ml) PsAuthSlice;
    Ok (Auth r m d).

Definition unpack_connect (buf : bytes) : outcome packet :=
  let S := PsBodySlice in
    if Nat.ltb (lenb buf) 5 then Err ErrBadLength else
    do f <- idx buf 0 S;
    do pr <- idx buf 1 S;
    if negb (pr =? 1) then Err ErrBadProto else
    do d <- get16 buf 2 S;
    do c <- slice_from buf 4 S;
    Ok (Connect (bit f 8) (bit f 4) pr d c).

Definition unpack_connack (buf : bytes) : outcome packet :=
  let S := PsBodySlice in
    if negb (Nat.eqb (lenb buf) 1) then Err ErrBadLength else
    do r <- idx buf 0 S; Ok (Connack r).

Definition unpack_willtopicreq (buf : bytes) : outcome packet :=
  let S := PsBodySlice in
    if negb (Nat.eqb (lenb buf) 0) then Err ErrBadLength else Ok WillTopicReq.

Definition unpack_willtopic (buf : bytes) : outcome packet :=
  let S := PsBodySlice in
    match lenb buf with
    | O => Ok (WillTopic 0 false [])
    | 1%nat => Err ErrBadLength
    | _ => do f <- idx buf 0 S; do w <- slice_from buf 1 S;
           Ok (WillTopic ((f / 32) mod 4) (bit f 16) w)
    end.

Definition unpack_willmsgreq (buf : bytes) : outcome packet :=
  let S := PsBodySlice in
    if negb (Nat.eqb (lenb buf) 0) then Err ErrBadLength else Ok WillMsgReq.

Definition unpack_willmsg (buf : bytes) : outcome packet :=
  let S := PsBodySlice in
    Ok (WillMsg buf).

Definition unpack_register (buf : bytes) : outcome packet :=
  let S := PsBodySlice in
    if Nat.leb (lenb buf) 4 then Err ErrBadLength else
    do ti <- get16 buf 0 S; do mi <- get16 buf 2 S; do nm <- slice_from buf 4 S;
    Ok (Register ti mi nm).

Definition unpack_regack (buf : bytes) : outcome packet :=
  let S := PsBodySlice in
    if negb (Nat.eqb (lenb buf) 5) then Err ErrBadLength else
    do ti <- get16 buf 0 S; do mi <- get16 buf 2 S; do r <- idx buf 4 S;
    Ok (Regack ti mi r).

Definition unpack_publish (buf : bytes) : outcome packet :=
  let S := PsBodySlice in
    if Nat.ltb (lenb buf) 5 then Err ErrBadLength else
    do f <- idx buf 0 S; do ti <- get16 buf 1 S; do mi <- get16 buf 3 S;
    do d <- slice_from buf 5 S;
    Ok (Publish (bit f 128) ((f / 32) mod 4) (bit f 16) (f mod 4) ti mi d).

Definition unpack_puback (buf : bytes) : outcome packet :=
  let S := PsBodySlice in
    if negb (Nat.eqb (lenb buf) 5) then Err ErrBadLength else
    do ti <- get16 buf 0 S; do mi <- get16 buf 2 S; do r <- idx buf 4 S;
    Ok (Puback ti mi r).

Definition unpack_pubcomp (buf : bytes) : outcome packet :=
  let S := PsBodySlice in
    if negb (Nat.eqb (lenb buf) 2) then Err ErrBadLength else
    do mi <- get16 buf 0 S; Ok (Pubcomp mi).

Definition unpack_pubrec (buf : bytes) : outcome packet :=
  let S := PsBodySlice in
    if negb (Nat.eqb (lenb buf) 2) then Err ErrBadLength else
    do mi <- get16 buf 0 S; Ok (Pubrec mi).

Definition unpack_pubrel (buf : bytes) : outcome packet :=
  let S := PsBodySlice in
    if negb (Nat.eqb (lenb buf) 2) then Err ErrBadLength else
    do mi <- get16 buf 0 S; Ok (Pubrel mi).

Definition unpack_subscribe (buf : bytes) : outcome packet :=
  let S := PsBodySlice in
    if Nat.leb (lenb buf) 3 then Err ErrBadLength else
    do f <- idx buf 0 S; do mi <- get16 buf 1 S;
    let tit := f mod 4 in
    if tit =? TIT_STRING then
      do nm <- slice_from buf 3 S;
      Ok (Subscribe (bit f 128) ((f / 32) mod 4) tit mi 0 nm)
    else if (tit =? TIT_PREDEFINED) || (tit =? TIT_SHORT) then
      if negb (Nat.eqb (lenb buf) 5) then Err ErrBadLength else
      do ti <- get16 buf 3 S;
      Ok (Subscribe (bit f 128) ((f / 32) mod 4) tit mi ti [])
    else Err ErrBadTit.

Definition unpack_suback (buf : bytes) : outcome packet :=
  let S := PsBodySlice in
    if negb (Nat.eqb (lenb buf) 6) then Err ErrBadLength else
    do f <- idx buf 0 S; do ti <- get16 buf 1 S; do mi <- get16 buf 3 S; do r <- idx buf 5 S;
    Ok (Suback ((f / 32) mod 4) ti mi r).

Definition unpack_unsubscribe (buf : bytes) : outcome packet :=
  let S := PsBodySlice in
    if Nat.leb (lenb buf) 3 then Err ErrBadLength else
    do f <- idx buf 0 S; do mi <- get16 buf 1 S;
    let tit := f mod 4 in
    if tit =? TIT_STRING then
      do nm <- slice_from buf 3 S;
      Ok (Unsubscribe tit mi 0 nm)
    else if (tit =? TIT_PREDEFINED) || (tit =? TIT_SHORT) then
      if negb (Nat.eqb (lenb buf) 5) then Err ErrBadLength else
      do ti <- get16 buf 3 S;
      Ok (Unsubscribe tit mi ti [])
    else Err ErrBadTit.

Definition unpack_unsuback (buf : bytes) : outcome packet :=
  let S := PsBodySlice in
    if negb (Nat.eqb (lenb buf) 2) then Err ErrBadLength else
    do mi <- get16 buf 0 S; Ok (Unsuback mi).

Definition unpack_pingreq (buf : bytes) : outcome packet :=
  let S := PsBodySlice in
    Ok (Pingreq buf).

Definition unpack_pingresp (buf : bytes) : outcome packet :=
  let S := PsBodySlice in
    if negb (Nat.eqb (lenb buf) 0) then Err ErrBadLength else Ok Pingresp.

Definition unpack_disconnect (buf : bytes) : outcome packet :=
  let S := PsBodySlice in
    match lenb buf with
    | 2%nat => do d <- get16 buf 0 S; Ok (Disconnect d)
    | O => Ok (Disconnect 0)
    | _ => Err ErrBadLength
    end.

Definition unpack_willtopicupd (buf : bytes) : outcome packet :=
  let S := PsBodySlice in
    match lenb buf with
    | O => Ok (WillTopicUpd 0 false [])
    | 1%nat => Err ErrBadLength
    | _ => do f <- idx buf 0 S; do w <- slice_from buf 1 S;
           Ok (WillTopicUpd ((f / 32) mod 4) (bit f 16) w)
    end.

Definition unpack_willtopicresp (buf : bytes) : outcome packet :=
  let S := PsBodySlice in
    if negb (Nat.eqb (lenb buf) 1) then Err ErrBadLength else
    do r <- idx buf 0 S; Ok (WillTopicResp r).

Definition unpack_willmsgupd (buf : bytes) : outcome packet :=
  let S := PsBodySlice in
    Ok (WillMsgUpd buf).

Definition unpack_willmsgresp (buf : bytes) : outcome packet :=
  let S := PsBodySlice in
    if negb (Nat.eqb (lenb buf) 1) then Err ErrBadLength else
    do r <- idx buf 0 S; Ok (WillMsgResp r).

Definition unpack_body (t : N) (buf : bytes) : outcome packet :=
  if t =? T_ADVERTISE then unpack_advertise buf
  else if t =? T_SEARCHGW then unpack_searchgw buf
  else if t =? T_GWINFO then unpack_gwinfo buf
  else if t =? T_AUTH then unpack_auth buf
  else if t =? T_CONNECT then unpack_connect buf
  else if t =? T_CONNACK then unpack_connack buf
  else if t =? T_WILLTOPICREQ then unpack_willtopicreq buf
  else if t =? T_WILLTOPIC then unpack_willtopic buf
  else if t =? T_WILLMSGREQ then unpack_willmsgreq buf
  else if t =? T_WILLMSG then unpack_willmsg buf
  else if t =? T_REGISTER then unpack_register buf
  else if t =? T_REGACK then unpack_regack buf
  else if t =? T_PUBLISH then unpack_publish buf
  else if t =? T_PUBACK then unpack_puback buf
  else if t =? T_PUBCOMP then unpack_pubcomp buf
  else if t =? T_PUBREC then unpack_pubrec buf
  else if t =? T_PUBREL then unpack_pubrel buf
  else if t =? T_SUBSCRIBE then unpack_subscribe buf
  else if t =? T_SUBACK then unpack_suback buf
  else if t =? T_UNSUBSCRIBE then unpack_unsubscribe buf
  else if t =? T_UNSUBACK then unpack_unsuback buf
  else if t =? T_PINGREQ then unpack_pingreq buf
  else if t =? T_PINGRESP then unpack_pingresp buf
  else if t =? T_DISCONNECT then unpack_disconnect buf
  else if t =? T_WILLTOPICUPD then unpack_willtopicupd buf
  else if t =? T_WILLTOPICRESP then unpack_willtopicresp buf
  else if t =? T_WILLMSGUPD then unpack_willmsgupd buf
  else if t =? T_WILLMSGRESP then unpack_willmsgresp buf
  else Err ErrBadType.

Definition known_type (t : N) : bool :=
  ((t <=? 16) || ((18 <=? t) && (t <=? 24)) || ((26 <=? t) && (t <=? 29))).

(* packets1.ReadPacket on the n bytes one Read returned (n <= MaxPacketLen) *)
Definition read_packet (raw : bytes) : outcome packet :=
  do h <- header_unpack raw;
  if negb (known_type (h_type h)) then Err ErrBadType else
  do body <- slice_from raw (encoded_header_length raw) PsBodySlice;
  unpack_body (h_type h) body.

(* What ReadPacket sees of a datagram: Read fills a MaxPacketLen buffer, longer
   datagrams are cut (bytes.Reader and UDP sockets alike). *)
Definition read_dgram (dg : bytes) : outcome packet := read_packet (firstn (N.to_nat MaxPacketLen) dg).
