(* Codec/RefParseProofs.v — decoded packets reflect the datagram (C22).  Lemmas only. *)
From Coq Require Import List NArith Bool Lia ZArith ZifyN ZifyNat ZifyBool.
From Verif.Base Require Import Bytes BytesProofs.
From Verif.Codec Require Import Packets Decode Encode RefParse.
From Verif.Checkers Require Import ChkCodec.
Open Scope N_scope.
