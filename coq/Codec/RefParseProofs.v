(* Codec/RefParseProofs.v — decoded packets reflect the datagram (C22).  Lemmas only. *)
From Coq Require Import List NArith Bool Lia ZArith ZifyN ZifyNat ZifyBool.
From Verif.Base Require Import Bytes BytesProofs.
From Verif.Codec Require Import Packets Decode Encode RefParse.
From Verif.Checkers Require Import ChkCodec.
From Verif.Codec Require Import EncodeProofs.
Open Scope N_scope.
Ltac Zify.zify_post_hook ::= Z.div_mod_to_equations.

(* ------------------------------------------------------------------ finite sweep over one octet *)

Lemma byte_sweep (P : N -> bool) :
  forallb P (map N.of_nat (seq 0 256)) = true -> forall f, f < 256 -> P f = true.
Proof.
  intros H f Hf. rewrite forallb_forall in H. apply H.
  apply in_map_iff. exists (N.to_nat f). split; [apply N2Nat.id|].
  apply in_seq. lia.
Qed.

Ltac sweep_bool :=
  let f := fresh "f" in let Hf := fresh "Hf" in
  intros f Hf; apply eqb_prop; revert f Hf; apply byte_sweep; vm_compute; reflexivity.
Ltac sweep_N :=
  let f := fresh "f" in let Hf := fresh "Hf" in
  intros f Hf; apply N.eqb_eq; revert f Hf; apply byte_sweep; vm_compute; reflexivity.

Lemma bit128_dup : forall f, f < 256 -> bit f 128 = f_dup f.
Proof. sweep_bool. Qed.
Lemma bit16_retain : forall f, f < 256 -> bit f 16 = f_retain f.
Proof. sweep_bool. Qed.
Lemma bit8_will : forall f, f < 256 -> bit f 8 = f_will f.
Proof. sweep_bool. Qed.
Lemma bit4_clean : forall f, f < 256 -> bit f 4 = f_clean f.
Proof. sweep_bool. Qed.
Lemma div32_qos : forall f, f < 256 -> (f / 32) mod 4 = f_qos f.
Proof. sweep_N. Qed.
Lemma mod4_tit : forall f, f < 256 -> f mod 4 = f_tit f.
Proof. sweep_N. Qed.

Lemma connect_flags : forall f, f < 256 -> bN (bit f 8) 8 + bN (bit f 4) 4 = N.land f 12.
Proof. sweep_N. Qed.
Lemma will_flags : forall f, f < 256 -> qos_bits ((f / 32) mod 4) + bN (bit f 16) 16 = N.land f 112.
Proof. sweep_N. Qed.
Lemma publish_flags : forall f, f < 256 ->
  pub_flags (bit f 128) ((f / 32) mod 4) (bit f 16) (f mod 4) = N.land f 243.
Proof. sweep_N. Qed.
Lemma subscribe_flags : forall f, f < 256 ->
  bN (bit f 128) 128 + qos_bits ((f / 32) mod 4) + (f mod 4) mod 4 = N.land f 227.
Proof. sweep_N. Qed.
Lemma suback_flags : forall f, f < 256 -> qos_bits ((f / 32) mod 4) = N.land f 96.
Proof. sweep_N. Qed.
Lemma unsubscribe_flags : forall f, f < 256 -> (f mod 4) mod 4 = N.land f 3.
Proof. sweep_N. Qed.

(* ------------------------------------------------------------------ generic facts *)

Lemma be16_w16 (hi lo : N) : be16 hi lo = w16 hi lo.
Proof. unfold be16, w16. lia. Qed.

Lemma enc16w_be16 (hi lo : N) : hi < 256 -> lo < 256 -> enc16w (be16 hi lo) = [hi; lo].
Proof. intros Hh Hl. unfold enc16w, be16. f_equal; [|f_equal]; lia. Qed.

Lemma wf_cons_inv (x : N) (l : bytes) : wf_bytes (x :: l) -> x < 256 /\ wf_bytes l.
Proof.
  unfold wf_bytes. intros H. inversion H as [|y l' Hx Hl]; subst.
  split; [apply is_byte_lt, Hx|exact Hl].
Qed.

Lemma wf_app_inv (a b : bytes) : wf_bytes (a ++ b) -> wf_bytes a /\ wf_bytes b.
Proof. unfold wf_bytes. apply Forall_app. Qed.

(* the reference splitter on an encoded header followed by a variable part *)
Lemma ref_split_hdr_eq (vl t : N) (b b' : bytes) :
  t < 256 -> vl + 4 < 65536 -> b = b' -> ref_split (hdr vl t ++ b) = Some (t, b').
Proof.
  intros Ht Hv <-. destruct (N.le_gt_cases (vl + 2) 255) as [Hs|Hl].
  - rewrite hdr_short by assumption. cbn [app ref_split].
    destruct (N.eqb_spec (vl + 2) 1) as [E|_]; [lia|reflexivity].
  - rewrite hdr_long by assumption. cbn [app ref_split N.eqb Pos.eqb]. reflexivity.
Qed.

Lemma ref_split_hdr0 (t : N) (b' : bytes) : t < 256 -> [] = b' -> ref_split (hdr 0 t) = Some (t, b').
Proof.
  intros Ht E. rewrite <- (app_nil_r (hdr 0 t)). apply ref_split_hdr_eq; [exact Ht|reflexivity|exact E].
Qed.

(* ------------------------------------------------------------------ per-type agreement *)

(* what both C22 clauses say about one body *)
Definition both (t : N) (body : bytes) (p : packet) : Prop :=
  ref_body t body = Some p /\
  (len body + 4 < 65536 -> ref_split (pack p) = Some (t, mask_ignored t body)).

Ltac run_in H :=
  cbn [lenb length Nat.ltb Nat.leb Nat.eqb negb obind idx get16 nth_error slice_from skipn] in H.

Ltac wf_split :=
  repeat match goal with
         | H : wf_bytes (_ :: _) |- _ =>
           let Hx := fresh "Hb" in apply wf_cons_inv in H; destruct H as [Hx H]
         end.

Ltac ref_side :=
  cbn [ref_body N.eqb Pos.eqb];
  rewrite ?be16_w16, ?bit128_dup, ?bit16_retain, ?bit8_will, ?bit4_clean, ?div32_qos, ?mod4_tit
    by assumption;
  reflexivity.

Ltac pack_side :=
  let Hlen := fresh "Hlen" in
  intros Hlen; rewrite ?len_cons in Hlen;
  cbn [pack];
  first [ apply ref_split_hdr_eq; [reflexivity|rewrite ?len_cons; unfold u16; lia|]
        | apply ref_split_hdr0; [reflexivity|] ];
  rewrite ?u8_small, ?enc16w_be16, ?connect_flags, ?will_flags, ?publish_flags, ?suback_flags
    by assumption;
  reflexivity.

Ltac finish H :=
  wf_split; injection H as <-; split; [ref_side|pack_side].

Lemma advertise_both body p : wf_bytes body ->
  unpack_advertise body = Ok p -> both 0 body p.
Proof.
  intros Hwf H. unfold unpack_advertise in H.
  destruct body as [|b0 [|b1 [|b2 [|b3 r]]]]; run_in H; try discriminate H.
  finish H.
Qed.

Lemma searchgw_both body p : wf_bytes body ->
  unpack_searchgw body = Ok p -> both 1 body p.
Proof.
  intros Hwf H. unfold unpack_searchgw in H.
  destruct body as [|b0 [|b1 r]]; run_in H; try discriminate H.
  finish H.
Qed.

Lemma gwinfo_both body p : wf_bytes body ->
  unpack_gwinfo body = Ok p -> both 2 body p.
Proof.
  intros Hwf H. unfold unpack_gwinfo in H.
  destruct body as [|b0 r]; run_in H; try discriminate H.
  finish H.
Qed.

Lemma connect_both body p : wf_bytes body ->
  unpack_connect body = Ok p -> both 4 body p.
Proof.
  intros Hwf H. unfold unpack_connect in H.
  destruct body as [|f [|pr [|d1 [|d2 [|c cid]]]]]; run_in H; try discriminate H.
  destruct (N.eqb_spec pr 1) as [E|E]; cbn [negb] in H; [subst pr|discriminate H].
  finish H.
Qed.

Lemma connack_both body p : wf_bytes body ->
  unpack_connack body = Ok p -> both 5 body p.
Proof.
  intros Hwf H. unfold unpack_connack in H.
  destruct body as [|b0 [|b1 r]]; run_in H; try discriminate H.
  finish H.
Qed.

Lemma willtopicreq_both body p : wf_bytes body ->
  unpack_willtopicreq body = Ok p -> both 6 body p.
Proof.
  intros Hwf H. unfold unpack_willtopicreq in H.
  destruct body as [|b0 r]; run_in H; try discriminate H.
  finish H.
Qed.

Lemma willtopic_both body p : wf_bytes body ->
  unpack_willtopic body = Ok p -> both 7 body p.
Proof.
  intros Hwf H. unfold unpack_willtopic in H.
  destruct body as [|f [|c topic]]; run_in H; try discriminate H.
  - finish H.
  - wf_split. injection H as <-. split; [ref_side|].
    intros Hlen; rewrite ?len_cons in Hlen.
    cbn [pack]. rewrite varpart_pos by (rewrite ?len_cons; unfold u16; lia).
    apply ref_split_hdr_eq; [reflexivity|rewrite ?len_cons; unfold u16; lia|].
    rewrite will_flags by assumption. reflexivity.
Qed.

Lemma willmsgreq_both body p : wf_bytes body ->
  unpack_willmsgreq body = Ok p -> both 8 body p.
Proof.
  intros Hwf H. unfold unpack_willmsgreq in H.
  destruct body as [|b0 r]; run_in H; try discriminate H.
  finish H.
Qed.

Lemma willmsg_both body p : wf_bytes body ->
  unpack_willmsg body = Ok p -> both 9 body p.
Proof.
  intros Hwf H. unfold unpack_willmsg in H. finish H.
Qed.

Lemma register_both body p : wf_bytes body ->
  unpack_register body = Ok p -> both 10 body p.
Proof.
  intros Hwf H. unfold unpack_register in H.
  destruct body as [|t1 [|t2 [|m1 [|m2 [|c name]]]]]; run_in H; try discriminate H.
  finish H.
Qed.

Lemma regack_both body p : wf_bytes body ->
  unpack_regack body = Ok p -> both 11 body p.
Proof.
  intros Hwf H. unfold unpack_regack in H.
  destruct body as [|t1 [|t2 [|m1 [|m2 [|rc [|x r]]]]]]; run_in H; try discriminate H.
  finish H.
Qed.

Lemma publish_both body p : wf_bytes body ->
  unpack_publish body = Ok p -> both 12 body p.
Proof.
  intros Hwf H. unfold unpack_publish in H.
  destruct body as [|f [|t1 [|t2 [|m1 [|m2 data]]]]]; run_in H; try discriminate H.
  finish H.
Qed.

Lemma puback_both body p : wf_bytes body ->
  unpack_puback body = Ok p -> both 13 body p.
Proof.
  intros Hwf H. unfold unpack_puback in H.
  destruct body as [|t1 [|t2 [|m1 [|m2 [|rc [|x r]]]]]]; run_in H; try discriminate H.
  finish H.
Qed.

Lemma pubcomp_both body p : wf_bytes body ->
  unpack_pubcomp body = Ok p -> both 14 body p.
Proof.
  intros Hwf H. unfold unpack_pubcomp in H.
  destruct body as [|m1 [|m2 [|x r]]]; run_in H; try discriminate H.
  finish H.
Qed.

Lemma pubrec_both body p : wf_bytes body ->
  unpack_pubrec body = Ok p -> both 15 body p.
Proof.
  intros Hwf H. unfold unpack_pubrec in H.
  destruct body as [|m1 [|m2 [|x r]]]; run_in H; try discriminate H.
  finish H.
Qed.

Lemma pubrel_both body p : wf_bytes body ->
  unpack_pubrel body = Ok p -> both 16 body p.
Proof.
  intros Hwf H. unfold unpack_pubrel in H.
  destruct body as [|m1 [|m2 [|x r]]]; run_in H; try discriminate H.
  finish H.
Qed.

Lemma suback_both body p : wf_bytes body ->
  unpack_suback body = Ok p -> both 19 body p.
Proof.
  intros Hwf H. unfold unpack_suback in H.
  destruct body as [|f [|t1 [|t2 [|m1 [|m2 [|rc [|x r]]]]]]]; run_in H; try discriminate H.
  finish H.
Qed.

Lemma unsuback_both body p : wf_bytes body ->
  unpack_unsuback body = Ok p -> both 21 body p.
Proof.
  intros Hwf H. unfold unpack_unsuback in H.
  destruct body as [|m1 [|m2 [|x r]]]; run_in H; try discriminate H.
  finish H.
Qed.

Lemma pingreq_both body p : wf_bytes body ->
  unpack_pingreq body = Ok p -> both 22 body p.
Proof.
  intros Hwf H. unfold unpack_pingreq in H. finish H.
Qed.

Lemma pingresp_both body p : wf_bytes body ->
  unpack_pingresp body = Ok p -> both 23 body p.
Proof.
  intros Hwf H. unfold unpack_pingresp in H.
  destruct body as [|b0 r]; run_in H; try discriminate H.
  finish H.
Qed.

Lemma willtopicupd_both body p : wf_bytes body ->
  unpack_willtopicupd body = Ok p -> both 26 body p.
Proof.
  intros Hwf H. unfold unpack_willtopicupd in H.
  destruct body as [|f [|c topic]]; run_in H; try discriminate H.
  - finish H.
  - wf_split. injection H as <-. split; [ref_side|].
    intros Hlen; rewrite ?len_cons in Hlen.
    cbn [pack]. rewrite varpart_pos by (rewrite ?len_cons; unfold u16; lia).
    apply ref_split_hdr_eq; [reflexivity|rewrite ?len_cons; unfold u16; lia|].
    rewrite will_flags by assumption. reflexivity.
Qed.

Lemma willtopicresp_both body p : wf_bytes body ->
  unpack_willtopicresp body = Ok p -> both 27 body p.
Proof.
  intros Hwf H. unfold unpack_willtopicresp in H.
  destruct body as [|b0 [|b1 r]]; run_in H; try discriminate H.
  finish H.
Qed.

Lemma willmsgupd_both body p : wf_bytes body ->
  unpack_willmsgupd body = Ok p -> both 28 body p.
Proof.
  intros Hwf H. unfold unpack_willmsgupd in H. finish H.
Qed.

Lemma willmsgresp_both body p : wf_bytes body ->
  unpack_willmsgresp body = Ok p -> both 29 body p.
Proof.
  intros Hwf H. unfold unpack_willmsgresp in H.
  destruct body as [|b0 [|b1 r]]; run_in H; try discriminate H.
  finish H.
Qed.

Lemma disconnect_both body p : wf_bytes body ->
  unpack_disconnect body = Ok p -> both 24 body p.
Proof.
  intros Hwf H. unfold unpack_disconnect in H.
  destruct body as [|d1 [|d2 [|x r]]]; run_in H; try discriminate H.
  - finish H.
  - wf_split. injection H as <-. split; [ref_side|].
    intros _.
    cbn [pack]. destruct (N.eqb_spec (u16 (be16 d1 d2)) 0) as [E|E].
    + assert (E1 : d1 = 0) by (unfold u16, be16 in E; lia).
      assert (E2 : d2 = 0) by (unfold u16, be16 in E; lia).
      subst d1 d2. apply ref_split_hdr0; reflexivity.
    + apply ref_split_hdr_eq; [reflexivity|reflexivity|].
      rewrite enc16w_be16 by assumption.
      destruct d1 as [|q1]; [destruct d2 as [|q2]; [exfalso; apply E; reflexivity|]|]; reflexivity.
Qed.

Lemma subscribe_both body p : wf_bytes body ->
  unpack_subscribe body = Ok p -> both 18 body p.
Proof.
  intros Hwf H. unfold unpack_subscribe, TIT_STRING, TIT_PREDEFINED, TIT_SHORT in H.
  destruct body as [|f [|m1 [|m2 [|c rest]]]]; run_in H; try discriminate H.
  wf_split.
  assert (Hc : f mod 4 = 0 \/ f mod 4 = 1 \/ f mod 4 = 2 \/ f mod 4 = 3) by lia.
  destruct Hc as [E|[E|[E|E]]]; rewrite E in H; cbn [N.eqb Pos.eqb orb] in H;
    try discriminate H.
  - injection H as <-. split.
    + cbn [ref_body]. rewrite <- (mod4_tit f) by assumption. rewrite E.
      rewrite be16_w16, bit128_dup, div32_qos by assumption. reflexivity.
    + intros Hlen; rewrite ?len_cons in Hlen.
      cbn [pack N.eqb Pos.eqb orb TIT_STRING TIT_PREDEFINED TIT_SHORT].
      apply ref_split_hdr_eq; [reflexivity|rewrite ?len_cons; unfold u16; lia|].
      rewrite enc16w_be16 by assumption.
      cbn [mask_ignored has_flags flags_mask N.eqb Pos.eqb orb].
      rewrite <- (subscribe_flags f) by assumption. rewrite E. reflexivity.
  - destruct rest as [|c2 [|c3 r]]; run_in H; try discriminate H.
    wf_split. injection H as <-. split.
    + cbn [ref_body]. rewrite <- (mod4_tit f) by assumption. rewrite E.
      rewrite !be16_w16, bit128_dup, div32_qos by assumption. reflexivity.
    + intros Hlen; rewrite ?len_cons in Hlen.
      cbn [pack N.eqb Pos.eqb orb TIT_STRING TIT_PREDEFINED TIT_SHORT].
      apply ref_split_hdr_eq; [reflexivity|reflexivity|].
      rewrite !enc16w_be16 by assumption.
      cbn [mask_ignored has_flags flags_mask N.eqb Pos.eqb orb].
      rewrite <- (subscribe_flags f) by assumption. rewrite E. reflexivity.
  - destruct rest as [|c2 [|c3 r]]; run_in H; try discriminate H.
    wf_split. injection H as <-. split.
    + cbn [ref_body]. rewrite <- (mod4_tit f) by assumption. rewrite E.
      rewrite !be16_w16, bit128_dup, div32_qos by assumption. reflexivity.
    + intros Hlen; rewrite ?len_cons in Hlen.
      cbn [pack N.eqb Pos.eqb orb TIT_STRING TIT_PREDEFINED TIT_SHORT].
      apply ref_split_hdr_eq; [reflexivity|reflexivity|].
      rewrite !enc16w_be16 by assumption.
      cbn [mask_ignored has_flags flags_mask N.eqb Pos.eqb orb].
      rewrite <- (subscribe_flags f) by assumption. rewrite E. reflexivity.
Qed.

Lemma unsubscribe_both body p : wf_bytes body ->
  unpack_unsubscribe body = Ok p -> both 20 body p.
Proof.
  intros Hwf H. unfold unpack_unsubscribe, TIT_STRING, TIT_PREDEFINED, TIT_SHORT in H.
  destruct body as [|f [|m1 [|m2 [|c rest]]]]; run_in H; try discriminate H.
  wf_split.
  assert (Hc : f mod 4 = 0 \/ f mod 4 = 1 \/ f mod 4 = 2 \/ f mod 4 = 3) by lia.
  destruct Hc as [E|[E|[E|E]]]; rewrite E in H; cbn [N.eqb Pos.eqb orb] in H;
    try discriminate H.
  - injection H as <-. split.
    + cbn [ref_body]. rewrite <- (mod4_tit f) by assumption. rewrite E.
      rewrite be16_w16. reflexivity.
    + intros Hlen; rewrite ?len_cons in Hlen.
      cbn [pack N.eqb Pos.eqb orb TIT_STRING TIT_PREDEFINED TIT_SHORT].
      apply ref_split_hdr_eq; [reflexivity|rewrite ?len_cons; unfold u16; lia|].
      rewrite enc16w_be16 by assumption.
      cbn [mask_ignored has_flags flags_mask N.eqb Pos.eqb orb].
      rewrite <- (unsubscribe_flags f) by assumption. rewrite E. reflexivity.
  - destruct rest as [|c2 [|c3 r]]; run_in H; try discriminate H.
    wf_split. injection H as <-. split.
    + cbn [ref_body]. rewrite <- (mod4_tit f) by assumption. rewrite E.
      rewrite !be16_w16. reflexivity.
    + intros Hlen; rewrite ?len_cons in Hlen.
      cbn [pack N.eqb Pos.eqb orb TIT_STRING TIT_PREDEFINED TIT_SHORT].
      apply ref_split_hdr_eq; [reflexivity|reflexivity|].
      rewrite !enc16w_be16 by assumption.
      cbn [mask_ignored has_flags flags_mask N.eqb Pos.eqb orb].
      rewrite <- (unsubscribe_flags f) by assumption. rewrite E. reflexivity.
  - destruct rest as [|c2 [|c3 r]]; run_in H; try discriminate H.
    wf_split. injection H as <-. split.
    + cbn [ref_body]. rewrite <- (mod4_tit f) by assumption. rewrite E.
      rewrite !be16_w16. reflexivity.
    + intros Hlen; rewrite ?len_cons in Hlen.
      cbn [pack N.eqb Pos.eqb orb TIT_STRING TIT_PREDEFINED TIT_SHORT].
      apply ref_split_hdr_eq; [reflexivity|reflexivity|].
      rewrite !enc16w_be16 by assumption.
      cbn [mask_ignored has_flags flags_mask N.eqb Pos.eqb orb].
      rewrite <- (unsubscribe_flags f) by assumption. rewrite E. reflexivity.
Qed.

Lemma auth_both body p : wf_bytes body ->
  unpack_auth body = Ok p -> both 3 body p.
Proof.
  intros Hwf. unfold unpack_auth, lenb, both.
  destruct body as [|r [|ml rest]];
    [cbn [length Nat.ltb Nat.leb]; intros H; discriminate H
    |cbn [length Nat.ltb Nat.leb]; intros H; discriminate H|].
  wf_split.
  cbn [ref_body].
  set (buf := r :: ml :: rest).
  assert (Hl : length buf = S (S (length rest))) by reflexivity.
  destruct (Nat.ltb_spec (length buf) 2) as [Hc|_]; [lia|].
  change (idx buf 0 PsBodySlice) with (Ok r). change (idx buf 1 PsBodySlice) with (Ok ml).
  cbn [obind]. cbv zeta.
  remember (N.to_nat ml) as k eqn:Ek.
  destruct (Nat.ltb_spec (length buf) (2 + k)) as [Hc|Hk]; [intros H; discriminate H|].
  unfold slice, slice_from.
  destruct (Nat.leb_spec 2 (2 + k)) as [_|Hc]; [|lia].
  destruct (Nat.leb_spec (2 + k) (length buf)) as [_|Hc]; [|lia].
  cbn [andb obind].
  replace (2 + k - 2)%nat with k by lia.
  change (skipn 2 buf) with rest. change (skipn (2 + k) buf) with (skipn k rest).
  intros H. injection H as <-.
  split.
  - destruct (Nat.leb_spec k (length rest)) as [_|Hc]; [reflexivity|lia].
  - intros Hlen; unfold buf in Hlen; rewrite ?len_cons in Hlen.
    cbn [pack].
    assert (Hm : len (firstn k rest) = ml).
    { unfold len. rewrite firstn_length_le by lia. rewrite Ek. apply N2Nat.id. }
    assert (Hd : ml + len (skipn k rest) = len rest).
    { rewrite <- Hm, <- len_app, firstn_skipn. reflexivity. }
    rewrite Hm, firstn_skipn.
    apply ref_split_hdr_eq; [reflexivity|unfold u16; lia|].
    rewrite !u8_small by assumption. reflexivity.
Qed.

Lemma unpack_body_both (t : N) (body : bytes) (p : packet) :
  wf_bytes body -> unpack_body t body = Ok p -> both t body p.
Proof.
  intros Hwf. unfold unpack_body.
  destruct (N.eqb_spec t T_ADVERTISE) as [->|_]; [apply advertise_both; assumption|].
  destruct (N.eqb_spec t T_SEARCHGW) as [->|_]; [apply searchgw_both; assumption|].
  destruct (N.eqb_spec t T_GWINFO) as [->|_]; [apply gwinfo_both; assumption|].
  destruct (N.eqb_spec t T_AUTH) as [->|_]; [apply auth_both; assumption|].
  destruct (N.eqb_spec t T_CONNECT) as [->|_]; [apply connect_both; assumption|].
  destruct (N.eqb_spec t T_CONNACK) as [->|_]; [apply connack_both; assumption|].
  destruct (N.eqb_spec t T_WILLTOPICREQ) as [->|_]; [apply willtopicreq_both; assumption|].
  destruct (N.eqb_spec t T_WILLTOPIC) as [->|_]; [apply willtopic_both; assumption|].
  destruct (N.eqb_spec t T_WILLMSGREQ) as [->|_]; [apply willmsgreq_both; assumption|].
  destruct (N.eqb_spec t T_WILLMSG) as [->|_]; [apply willmsg_both; assumption|].
  destruct (N.eqb_spec t T_REGISTER) as [->|_]; [apply register_both; assumption|].
  destruct (N.eqb_spec t T_REGACK) as [->|_]; [apply regack_both; assumption|].
  destruct (N.eqb_spec t T_PUBLISH) as [->|_]; [apply publish_both; assumption|].
  destruct (N.eqb_spec t T_PUBACK) as [->|_]; [apply puback_both; assumption|].
  destruct (N.eqb_spec t T_PUBCOMP) as [->|_]; [apply pubcomp_both; assumption|].
  destruct (N.eqb_spec t T_PUBREC) as [->|_]; [apply pubrec_both; assumption|].
  destruct (N.eqb_spec t T_PUBREL) as [->|_]; [apply pubrel_both; assumption|].
  destruct (N.eqb_spec t T_SUBSCRIBE) as [->|_]; [apply subscribe_both; assumption|].
  destruct (N.eqb_spec t T_SUBACK) as [->|_]; [apply suback_both; assumption|].
  destruct (N.eqb_spec t T_UNSUBSCRIBE) as [->|_]; [apply unsubscribe_both; assumption|].
  destruct (N.eqb_spec t T_UNSUBACK) as [->|_]; [apply unsuback_both; assumption|].
  destruct (N.eqb_spec t T_PINGREQ) as [->|_]; [apply pingreq_both; assumption|].
  destruct (N.eqb_spec t T_PINGRESP) as [->|_]; [apply pingresp_both; assumption|].
  destruct (N.eqb_spec t T_DISCONNECT) as [->|_]; [apply disconnect_both; assumption|].
  destruct (N.eqb_spec t T_WILLTOPICUPD) as [->|_]; [apply willtopicupd_both; assumption|].
  destruct (N.eqb_spec t T_WILLTOPICRESP) as [->|_]; [apply willtopicresp_both; assumption|].
  destruct (N.eqb_spec t T_WILLMSGUPD) as [->|_]; [apply willmsgupd_both; assumption|].
  destruct (N.eqb_spec t T_WILLMSGRESP) as [->|_]; [apply willmsgresp_both; assumption|].
  intros H. discriminate H.
Qed.

(* ------------------------------------------------------------------ header *)

(* ReadPacket and the reference splitter cut the datagram at the same place *)
Lemma read_packet_split (dg : bytes) (p : packet) :
  read_packet dg = Ok p ->
  exists t body pre,
    ref_split dg = Some (t, body) /\ unpack_body t body = Ok p /\
    dg = pre ++ body /\ (2 <= length pre)%nat.
Proof.
  unfold read_packet, header_unpack.
  destruct dg as [|b0 [|b1 rest]];
    [cbn [length Nat.ltb Nat.leb obind]; intros H; discriminate H
    |cbn [length Nat.ltb Nat.leb obind]; intros H; discriminate H|].
  cbn [length Nat.ltb Nat.leb obind idx nth_error encoded_header_length ref_split].
  destruct (N.eqb_spec b0 1) as [->|Hb0].
  - destruct rest as [|b2 [|b3 body]];
      [cbn [length Nat.ltb Nat.leb obind]; intros H; discriminate H
      |cbn [length Nat.ltb Nat.leb obind]; intros H; discriminate H|].
    cbn [length Nat.ltb Nat.leb obind idx get16 nth_error h_type slice_from skipn].
    destruct (known_type b3); cbn [negb]; [|intros H; discriminate H].
    cbn [obind]. intros H. exists b3, body, [1; b1; b2; b3].
    repeat split; [exact H|cbn [length]; lia].
  - cbn [obind h_type length Nat.leb slice_from skipn].
    destruct (known_type b1); cbn [negb]; [|intros H; discriminate H].
    cbn [obind]. intros H. exists b1, rest, [b0; b1].
    repeat split; [exact H|cbn [length]; lia].
Qed.

(* ------------------------------------------------------------------ C22 *)

Lemma read_packet_both (dg : bytes) (p : packet) :
  wf_bytes dg -> read_packet dg = Ok p ->
  exists t body pre, ref_split dg = Some (t, body) /\ both t body p /\
                     dg = pre ++ body /\ (2 <= length pre)%nat.
Proof.
  intros Hwf H. apply read_packet_split in H.
  destruct H as [t [body [pre [Hs [Hu [Hdg Hpre]]]]]].
  exists t, body, pre. repeat split; try assumption.
  - apply (unpack_body_both t body p); [|exact Hu].
    rewrite Hdg in Hwf. apply wf_app_inv in Hwf. apply Hwf.
  - apply (unpack_body_both t body p); [|exact Hu].
    rewrite Hdg in Hwf. apply wf_app_inv in Hwf. apply Hwf.
Qed.

(* every successfully decoded packet carries the values at the specified byte positions *)
Lemma read_packet_ref_parse : forall (dg : bytes) (p : packet),
  wf_bytes dg -> read_packet dg = Ok p -> ref_parse dg = Some p.
Proof.
  intros dg p Hwf H. destruct (read_packet_both dg p Hwf H) as [t [body [pre [Hs [[Hr _] _]]]]].
  unfold ref_parse. rewrite Hs. exact Hr.
Qed.

(* re-encoding reproduces type and body, up to flag bits the type ignores and a DISCONNECT
   duration of zero *)
Lemma repack_reproduces : forall (dg : bytes) (p : packet),
  wf_bytes dg -> (length dg <= N.to_nat MaxPacketLen)%nat -> read_packet dg = Ok p ->
  exists t body, ref_split dg = Some (t, body) /\ ref_split (pack p) = Some (t, mask_ignored t body).
Proof.
  intros dg p Hwf Hlen H.
  destruct (read_packet_both dg p Hwf H) as [t [body [pre [Hs [[_ Hp] [Hdg Hpre]]]]]].
  exists t, body. split; [exact Hs|]. apply Hp.
  rewrite Hdg, app_length in Hlen. unfold MaxPacketLen in Hlen. unfold len. lia.
Qed.

(* the extracted checker accepts the model's own behaviour *)
Lemma chk_C22_sound : forall (dg : bytes) (p : packet),
  wf_bytes dg -> (length dg <= N.to_nat MaxPacketLen)%nat -> read_dgram dg = Ok p ->
  chk_C22 dg p (pack p) = [].
Proof.
  intros dg p Hwf Hlen H. unfold read_dgram in H. rewrite firstn_all2 in H by exact Hlen.
  unfold chk_C22.
  rewrite (read_packet_ref_parse dg p Hwf H), pkt_eqb_refl.
  destruct (repack_reproduces dg p Hwf Hlen H) as [t [body [Hs Hp]]].
  rewrite Hs, Hp, N.eqb_refl, beq_refl. reflexivity.
Qed.

Print Assumptions read_packet_ref_parse.
Print Assumptions repack_reproduces.
Print Assumptions chk_C22_sound.
