(* Codec/DecodeProofs.v — decoding never panics (C20). *)
From Coq Require Import List NArith Bool Lia ZArith ZifyN ZifyNat ZifyBool.
From Verif.Base Require Import Bytes BytesProofs.
From Verif.Codec Require Import Packets Decode.
Open Scope N_scope.

Definition np {A} (o : outcome A) : Prop := is_panic o = false.

Lemma np_ok {A} (a : A) : np (Ok a).  Proof. reflexivity. Qed.
Lemma np_err {A} e : np (@Err A e).   Proof. reflexivity. Qed.

Lemma np_bind {A B} (o : outcome A) (f : A -> outcome B) :
  np o -> (forall a, o = Ok a -> np (f a)) -> np (obind o f).
Proof.
  intros Ho Hf. destruct o as [a|e|s]; cbn [obind].
  - apply Hf. reflexivity.
  - reflexivity.
  - discriminate Ho.
Qed.

Lemma idx_np b i s : (i < length b)%nat -> np (idx b i s).
Proof.
  intros Hi. unfold idx. destruct (nth_error b i) eqn:E; [reflexivity|].
  apply nth_error_None in E. lia.
Qed.

Lemma slice_from_np b i s : (i <= length b)%nat -> np (slice_from b i s).
Proof.
  intros Hi. unfold slice_from. destruct (Nat.leb i (length b)) eqn:E; [reflexivity|].
  apply Nat.leb_gt in E. lia.
Qed.

Lemma slice_np b i j s : (i <= j)%nat -> (j <= length b)%nat -> np (slice b i j s).
Proof.
  intros Hij Hj. unfold slice.
  destruct (Nat.leb i j) eqn:E1; [|apply Nat.leb_gt in E1; lia].
  destruct (Nat.leb j (length b)) eqn:E2; [reflexivity|apply Nat.leb_gt in E2; lia].
Qed.

Lemma get16_np b i s : (S i < length b)%nat -> np (get16 b i s).
Proof.
  intros Hi. unfold get16. apply np_bind; [apply idx_np; lia|intros hi _].
  apply np_bind; [apply idx_np; lia|intros lo _]. reflexivity.
Qed.

Ltac side := unfold lenb in *; cbn [length] in *; lia.

Ltac np_step :=
  lazymatch goal with
  | |- np (Ok _) => apply np_ok
  | |- np (Err _) => apply np_err
  | |- np (if ?c then _ else _) => destruct c eqn:?
  | |- np (match ?n with O => _ | S _ => _ end) => destruct n eqn:?
  | |- np (obind (idx _ _ _) _) => apply np_bind; [apply idx_np; side|intros ? _]
  | |- np (obind (get16 _ _ _) _) => apply np_bind; [apply get16_np; side|intros ? _]
  | |- np (obind (slice_from _ _ _) _) => apply np_bind; [apply slice_from_np; side|intros ? _]
  | |- np (obind (slice _ _ _ _) _) => apply np_bind; [apply slice_np; side|intros ? _]
  end.

Lemma unpack_advertise_np buf : np (unpack_advertise buf).
Proof. unfold unpack_advertise. repeat np_step. Qed.

Lemma unpack_searchgw_np buf : np (unpack_searchgw buf).
Proof. unfold unpack_searchgw. repeat np_step. Qed.

Lemma unpack_gwinfo_np buf : np (unpack_gwinfo buf).
Proof. unfold unpack_gwinfo. repeat np_step. Qed.

Lemma unpack_auth_np buf : np (unpack_auth buf).
Proof. unfold unpack_auth. repeat np_step. Qed.

Lemma unpack_connect_np buf : np (unpack_connect buf).
Proof. unfold unpack_connect. repeat np_step. Qed.

Lemma unpack_connack_np buf : np (unpack_connack buf).
Proof. unfold unpack_connack. repeat np_step. Qed.

Lemma unpack_willtopicreq_np buf : np (unpack_willtopicreq buf).
Proof. unfold unpack_willtopicreq. repeat np_step. Qed.

Lemma unpack_willtopic_np buf : np (unpack_willtopic buf).
Proof. unfold unpack_willtopic. repeat np_step. Qed.

Lemma unpack_willmsgreq_np buf : np (unpack_willmsgreq buf).
Proof. unfold unpack_willmsgreq. repeat np_step. Qed.

Lemma unpack_willmsg_np buf : np (unpack_willmsg buf).
Proof. unfold unpack_willmsg. repeat np_step. Qed.

Lemma unpack_register_np buf : np (unpack_register buf).
Proof. unfold unpack_register. repeat np_step. Qed.

Lemma unpack_regack_np buf : np (unpack_regack buf).
Proof. unfold unpack_regack. repeat np_step. Qed.

Lemma unpack_publish_np buf : np (unpack_publish buf).
Proof. unfold unpack_publish. repeat np_step. Qed.

Lemma unpack_puback_np buf : np (unpack_puback buf).
Proof. unfold unpack_puback. repeat np_step. Qed.

Lemma unpack_pubcomp_np buf : np (unpack_pubcomp buf).
Proof. unfold unpack_pubcomp. repeat np_step. Qed.

Lemma unpack_pubrec_np buf : np (unpack_pubrec buf).
Proof. unfold unpack_pubrec. repeat np_step. Qed.

Lemma unpack_pubrel_np buf : np (unpack_pubrel buf).
Proof. unfold unpack_pubrel. repeat np_step. Qed.

Lemma unpack_subscribe_np buf : np (unpack_subscribe buf).
Proof. unfold unpack_subscribe. repeat np_step. Qed.

Lemma unpack_suback_np buf : np (unpack_suback buf).
Proof. unfold unpack_suback. repeat np_step. Qed.

Lemma unpack_unsubscribe_np buf : np (unpack_unsubscribe buf).
Proof. unfold unpack_unsubscribe. repeat np_step. Qed.

Lemma unpack_unsuback_np buf : np (unpack_unsuback buf).
Proof. unfold unpack_unsuback. repeat np_step. Qed.

Lemma unpack_pingreq_np buf : np (unpack_pingreq buf).
Proof. unfold unpack_pingreq. repeat np_step. Qed.

Lemma unpack_pingresp_np buf : np (unpack_pingresp buf).
Proof. unfold unpack_pingresp. repeat np_step. Qed.

Lemma unpack_disconnect_np buf : np (unpack_disconnect buf).
Proof. unfold unpack_disconnect. repeat np_step. Qed.

Lemma unpack_willtopicupd_np buf : np (unpack_willtopicupd buf).
Proof. unfold unpack_willtopicupd. repeat np_step. Qed.

Lemma unpack_willtopicresp_np buf : np (unpack_willtopicresp buf).
Proof. unfold unpack_willtopicresp. repeat np_step. Qed.

Lemma unpack_willmsgupd_np buf : np (unpack_willmsgupd buf).
Proof. unfold unpack_willmsgupd. repeat np_step. Qed.

Lemma unpack_willmsgresp_np buf : np (unpack_willmsgresp buf).
Proof. unfold unpack_willmsgresp. repeat np_step. Qed.

Lemma unpack_body_np (t : N) (buf : bytes) : np (unpack_body t buf).
Proof.
  unfold unpack_body.
  repeat (match goal with |- np (if ?c then _ else _) => destruct c end);
  first [apply np_err | apply unpack_advertise_np | apply unpack_searchgw_np | apply unpack_gwinfo_np | apply unpack_auth_np | apply unpack_connect_np | apply unpack_connack_np | apply unpack_willtopicreq_np | apply unpack_willtopic_np | apply unpack_willmsgreq_np | apply unpack_willmsg_np | apply unpack_register_np | apply unpack_regack_np | apply unpack_publish_np | apply unpack_puback_np | apply unpack_pubcomp_np | apply unpack_pubrec_np | apply unpack_pubrel_np | apply unpack_subscribe_np | apply unpack_suback_np | apply unpack_unsubscribe_np | apply unpack_unsuback_np | apply unpack_pingreq_np | apply unpack_pingresp_np | apply unpack_disconnect_np | apply unpack_willtopicupd_np | apply unpack_willtopicresp_np | apply unpack_willmsgupd_np | apply unpack_willmsgresp_np].
Qed.

Lemma header_unpack_np (buf : bytes) : np (header_unpack buf).
Proof.
  unfold header_unpack. repeat np_step.
Qed.

Lemma header_unpack_len (buf : bytes) (h : header) :
  header_unpack buf = Ok h -> (encoded_header_length buf <= length buf)%nat.
Proof.
  unfold header_unpack, encoded_header_length.
  destruct buf as [|b0 [|b1 [|b2 [|b3 rest]]]]; cbn; try discriminate;
    destruct (b0 =? 1); cbn; try discriminate; intros _; lia.
Qed.

Theorem read_packet_np (raw : bytes) : np (read_packet raw).
Proof.
  unfold read_packet. apply np_bind; [apply header_unpack_np|intros h Hh].
  destruct (negb (known_type (h_type h))); [apply np_err|].
  apply np_bind; [apply slice_from_np, (header_unpack_len raw h Hh)|intros body _].
  apply unpack_body_np.
Qed.

Theorem read_packet_never_panics (raw : bytes) (s : panic_site) : read_packet raw <> Panic s.
Proof.
  intros H. pose proof (read_packet_np raw) as Hn. unfold np in Hn. rewrite H in Hn. discriminate.
Qed.

Theorem read_dgram_never_panics (dg : bytes) (s : panic_site) : read_dgram dg <> Panic s.
Proof. apply read_packet_never_panics. Qed.
