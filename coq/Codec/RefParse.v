(* Codec/RefParse.v — an independent positional reference parser written from the
   MQTT-SN 1.2 specification tables (section 5.2-5.4), sharing no code with Decode.v:
   the header is 2 or 4 octets as selected by the first octet, fields sit at fixed
   offsets after it, flag bits are tested by position. *)
From Verif.Base Require Import Bytes.
From Verif.Codec Require Import Packets.
Open Scope N_scope.

(* Flags octet (5.3.4): DUP b7 | QoS b6 b5 | Retain b4 | Will b3 | CleanSession b2 | TopicIdType b1 b0 *)
Definition f_dup (f : N) := N.testbit f 7.
Definition f_qos (f : N) := 2 * N.b2n (N.testbit f 6) + N.b2n (N.testbit f 5).
Definition f_retain (f : N) := N.testbit f 4.
Definition f_will (f : N) := N.testbit f 3.
Definition f_clean (f : N) := N.testbit f 2.
Definition f_tit (f : N) := 2 * N.b2n (N.testbit f 1) + N.b2n (N.testbit f 0).

Definition w16 (hi lo : N) : N := 256 * hi + lo.

(* 5.2: Length (1 or 3 octets) | MsgType | variable part *)
Definition ref_split (dg : bytes) : option (N * bytes) :=
  match dg with
  | l :: rest =>
    if l =? 1 then
      match rest with
      | _ :: _ :: t :: body => Some (t, body)
      | _ => None
      end
    else
      match rest with
      | t :: body => Some (t, body)
      | [] => None
      end
  | [] => None
  end.

Definition ref_body (t : N) (body : bytes) : option packet :=
  match t, body with
  | 0, [g; d1; d2] => Some (Advertise g (w16 d1 d2))
  | 1, [r] => Some (SearchGw r)
  | 2, g :: addr => Some (GwInfo g addr)
  | 3, r :: ml :: rest =>
    if Nat.leb (N.to_nat ml) (length rest)
    then Some (Auth r (firstn (N.to_nat ml) rest) (skipn (N.to_nat ml) rest)) else None
  | 4, f :: pr :: d1 :: d2 :: c :: cid =>
    if pr =? 1 then Some (Connect (f_will f) (f_clean f) pr (w16 d1 d2) (c :: cid)) else None
  | 5, [rc] => Some (Connack rc)
  | 6, [] => Some WillTopicReq
  | 7, [] => Some (WillTopic 0 false [])
  | 7, f :: c :: topic => Some (WillTopic (f_qos f) (f_retain f) (c :: topic))
  | 8, [] => Some WillMsgReq
  | 9, msg => Some (WillMsg msg)
  | 10, t1 :: t2 :: m1 :: m2 :: c :: name => Some (Register (w16 t1 t2) (w16 m1 m2) (c :: name))
  | 11, [t1; t2; m1; m2; rc] => Some (Regack (w16 t1 t2) (w16 m1 m2) rc)
  | 12, f :: t1 :: t2 :: m1 :: m2 :: data =>
    Some (Publish (f_dup f) (f_qos f) (f_retain f) (f_tit f) (w16 t1 t2) (w16 m1 m2) data)
  | 13, [t1; t2; m1; m2; rc] => Some (Puback (w16 t1 t2) (w16 m1 m2) rc)
  | 14, [m1; m2] => Some (Pubcomp (w16 m1 m2))
  | 15, [m1; m2] => Some (Pubrec (w16 m1 m2))
  | 16, [m1; m2] => Some (Pubrel (w16 m1 m2))
  | 18, f :: m1 :: m2 :: c :: rest =>
    match f_tit f with
    | 0 => Some (Subscribe (f_dup f) (f_qos f) 0 (w16 m1 m2) 0 (c :: rest))
    | 3 => None
    | tit => match rest with
             | [c2] => Some (Subscribe (f_dup f) (f_qos f) tit (w16 m1 m2) (w16 c c2) [])
             | _ => None
             end
    end
  | 19, [f; t1; t2; m1; m2; rc] => Some (Suback (f_qos f) (w16 t1 t2) (w16 m1 m2) rc)
  | 20, f :: m1 :: m2 :: c :: rest =>
    match f_tit f with
    | 0 => Some (Unsubscribe 0 (w16 m1 m2) 0 (c :: rest))
    | 3 => None
    | tit => match rest with
             | [c2] => Some (Unsubscribe tit (w16 m1 m2) (w16 c c2) [])
             | _ => None
             end
    end
  | 21, [m1; m2] => Some (Unsuback (w16 m1 m2))
  | 22, cid => Some (Pingreq cid)
  | 23, [] => Some Pingresp
  | 24, [] => Some (Disconnect 0)
  | 24, [d1; d2] => Some (Disconnect (w16 d1 d2))
  | 26, [] => Some (WillTopicUpd 0 false [])
  | 26, f :: c :: topic => Some (WillTopicUpd (f_qos f) (f_retain f) (c :: topic))
  | 27, [rc] => Some (WillTopicResp rc)
  | 28, msg => Some (WillMsgUpd msg)
  | 29, [rc] => Some (WillMsgResp rc)
  | _, _ => None
  end.

Definition ref_parse (dg : bytes) : option packet :=
  match ref_split dg with
  | Some (t, body) => ref_body t body
  | None => None
  end.

(* Re-encoding reproduces type and body: which differences C22 allows.
   mask_ignored clears, in the first body octet of the original datagram, the flag
   bits the packet type ignores. *)
Definition flags_mask (t : N) : N :=
  if t =? 4 then 12                      (* CONNECT: Will, CleanSession *)
  else if (t =? 7) || (t =? 26) then 112 (* WILLTOPIC[UPD]: QoS, Retain *)
  else if t =? 12 then 243               (* PUBLISH: DUP, QoS, Retain, TopicIdType *)
  else if t =? 18 then 227               (* SUBSCRIBE: DUP, QoS, TopicIdType *)
  else if t =? 19 then 96                (* SUBACK: QoS *)
  else if t =? 20 then 3                 (* UNSUBSCRIBE: TopicIdType *)
  else 255.

Definition has_flags (t : N) : bool :=
  (t =? 4) || (t =? 7) || (t =? 26) || (t =? 12) || (t =? 18) || (t =? 19) || (t =? 20).

Definition mask_ignored (t : N) (body : bytes) : bytes :=
  if has_flags t then
    match body with
    | f :: rest => N.land f (flags_mask t) :: rest
    | [] => []
    end
  else if t =? 24 then
    match body with
    | [0; 0] => []                       (* DISCONNECT duration 0 = no duration *)
    | _ => body
    end
  else body.
