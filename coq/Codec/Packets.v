(* Codec/Packets.v — the 28 MQTT-SN 1.2 packet structs of packets1/*.go as one inductive.
   Field order follows the Go structs.  The embedded Header is not a field: every Pack
   recomputes or was constructed with the right length (C23 checks the bytes sent). *)
From Verif.Base Require Import Bytes.
Open Scope N_scope.

Inductive packet :=
| Advertise (gw dur : N)
| SearchGw (radius : N)
| GwInfo (gw : N) (addr : bytes)
| Auth (reason : N) (method data : bytes)
| Connect (will clean : bool) (proto dur : N) (cid : bytes)
| Connack (rc : N)
| WillTopicReq
| WillTopic (qos : N) (retain : bool) (topic : bytes)
| WillMsgReq
| WillMsg (msg : bytes)
| Register (tid mid : N) (name : bytes)
| Regack (tid mid rc : N)
| Publish (dup : bool) (qos : N) (retain : bool) (tit tid mid : N) (data : bytes)
| Puback (tid mid rc : N)
| Pubcomp (mid : N)
| Pubrec (mid : N)
| Pubrel (mid : N)
| Subscribe (dup : bool) (qos tit mid tid : N) (name : bytes)
| Suback (qos tid mid rc : N)
| Unsubscribe (tit mid tid : N) (name : bytes)
| Unsuback (mid : N)
| Pingreq (cid : bytes)
| Pingresp
| Disconnect (dur : N)
| WillTopicUpd (qos : N) (retain : bool) (topic : bytes)
| WillTopicResp (rc : N)
| WillMsgUpd (msg : bytes)
| WillMsgResp (rc : N).

(* packets/packet_type.go *)
Definition T_ADVERTISE := 0.   Definition T_SEARCHGW := 1.  Definition T_GWINFO := 2.
Definition T_AUTH := 3.        Definition T_CONNECT := 4.   Definition T_CONNACK := 5.
Definition T_WILLTOPICREQ := 6. Definition T_WILLTOPIC := 7. Definition T_WILLMSGREQ := 8.
Definition T_WILLMSG := 9.     Definition T_REGISTER := 10. Definition T_REGACK := 11.
Definition T_PUBLISH := 12.    Definition T_PUBACK := 13.   Definition T_PUBCOMP := 14.
Definition T_PUBREC := 15.     Definition T_PUBREL := 16.   Definition T_SUBSCRIBE := 18.
Definition T_SUBACK := 19.     Definition T_UNSUBSCRIBE := 20. Definition T_UNSUBACK := 21.
Definition T_PINGREQ := 22.    Definition T_PINGRESP := 23. Definition T_DISCONNECT := 24.
Definition T_WILLTOPICUPD := 26. Definition T_WILLTOPICRESP := 27.
Definition T_WILLMSGUPD := 28. Definition T_WILLMSGRESP := 29.

Definition ptype (p : packet) : N :=
  match p with
  | Advertise _ _ => T_ADVERTISE | SearchGw _ => T_SEARCHGW | GwInfo _ _ => T_GWINFO
  | Auth _ _ _ => T_AUTH | Connect _ _ _ _ _ => T_CONNECT | Connack _ => T_CONNACK
  | WillTopicReq => T_WILLTOPICREQ | WillTopic _ _ _ => T_WILLTOPIC | WillMsgReq => T_WILLMSGREQ
  | WillMsg _ => T_WILLMSG | Register _ _ _ => T_REGISTER | Regack _ _ _ => T_REGACK
  | Publish _ _ _ _ _ _ _ => T_PUBLISH | Puback _ _ _ => T_PUBACK | Pubcomp _ => T_PUBCOMP
  | Pubrec _ => T_PUBREC | Pubrel _ => T_PUBREL | Subscribe _ _ _ _ _ _ => T_SUBSCRIBE
  | Suback _ _ _ _ => T_SUBACK | Unsubscribe _ _ _ _ => T_UNSUBSCRIBE | Unsuback _ => T_UNSUBACK
  | Pingreq _ => T_PINGREQ | Pingresp => T_PINGRESP | Disconnect _ => T_DISCONNECT
  | WillTopicUpd _ _ _ => T_WILLTOPICUPD | WillTopicResp _ => T_WILLTOPICRESP
  | WillMsgUpd _ => T_WILLMSGUPD | WillMsgResp _ => T_WILLMSGRESP
  end.

(* packets1.go constants *)
Definition TIT_REGISTERED := 0. Definition TIT_STRING := 0.
Definition TIT_PREDEFINED := 1. Definition TIT_SHORT := 2.
Definition RC_ACCEPTED := 0. Definition RC_CONGESTION := 1.
Definition RC_INVALID_TOPIC_ID := 2. Definition RC_NOT_SUPPORTED := 3.
Definition MaxPacketLen := 8192.
Definition MaxPayloadLength := 7168.

(* packets/packets.go short topics *)
Definition is_short_topic (t : bytes) : bool := len t =? 2.
Definition encode_short (t : bytes) : N :=
  match t with
  | [] => 0
  | [a] => a * 256
  | a :: b :: _ => a * 256 + b        (* OR of disjoint bytes *)
  end.
Definition decode_short (i : N) : bytes := [(i / 256) mod 256; i mod 256].
