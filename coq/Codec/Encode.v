(* Codec/Encode.v — Header.SetVarPartLength / PackToBuffer and the per-type Pack methods,
   with the uint16 / uint8 wrap-around of the Go arithmetic written out. *)
From Verif.Base Require Import Bytes.
From Verif.Codec Require Import Packets.
Open Scope N_scope.

(* Header.SetVarPartLength(length uint16): pktLength *)
Definition pkt_length (varlen : N) : N :=
  let l := u16 varlen in
  if u16 (l + 2) <=? 255 then u16 (l + 2) else u16 (l + 4).

(* Header.PackToBuffer *)
Definition pack_header (pktlen t : N) : bytes :=
  (if 255 <? pktlen then 1 :: enc16w pktlen else [u8 pktlen]) ++ [u8 t].

Definition hdr (varlen t : N) : bytes := pack_header (pkt_length varlen) t.

Definition bN (b : bool) (k : N) : N := if b then k else 0.

(* (QOS << 5) & flagsQOSBits on a uint8 *)
Definition qos_bits (q : N) : N := (q mod 4) * 32.

Definition pub_flags (dup : bool) (qos : N) (retain : bool) (tit : N) : N :=
  bN dup 128 + qos_bits qos + bN retain 16 + tit mod 4.

Definition pack (p : packet) : bytes :=
  match p with
  | Advertise g d => hdr 3 T_ADVERTISE ++ [u8 g] ++ enc16w d
  | SearchGw r => hdr 1 T_SEARCHGW ++ [u8 r]
  | GwInfo g a => hdr (1 + u16 (len a)) T_GWINFO ++ [u8 g] ++ a
  | Auth r m d => hdr (2 + u16 (len m) + u16 (len d)) T_AUTH ++ [u8 r; u8 (len m)] ++ m ++ d
  | Connect w c pr d cid =>
    hdr (4 + u16 (len cid)) T_CONNECT ++ [bN w 8 + bN c 4; u8 pr] ++ enc16w d ++ cid
  | Connack rc => hdr 1 T_CONNACK ++ [u8 rc]
  | WillTopicReq => hdr 0 T_WILLTOPICREQ
  | WillTopic q r t =>
    match t with
    | [] => hdr 0 T_WILLTOPIC
    | _ => let vl := 1 + u16 (len t) in
           hdr vl T_WILLTOPIC ++
           (* Pack writes the body only when VarPartLength() > 0 *)
           (if 0 <? u16 (pkt_length vl + 65536 - (if pkt_length vl <=? 255 then 2 else 4))
            then [qos_bits q + bN r 16] ++ t else [])
    end
  | WillMsgReq => hdr 0 T_WILLMSGREQ
  | WillMsg m => hdr (u16 (len m)) T_WILLMSG ++ m
  | Register ti mi nm => hdr (4 + u16 (len nm)) T_REGISTER ++ enc16w ti ++ enc16w mi ++ nm
  | Regack ti mi rc => hdr 5 T_REGACK ++ enc16w ti ++ enc16w mi ++ [u8 rc]
  | Publish dup q r tit ti mi d =>
    hdr (5 + u16 (len d)) T_PUBLISH ++ [pub_flags dup q r tit] ++ enc16w ti ++ enc16w mi ++ d
  | Puback ti mi rc => hdr 5 T_PUBACK ++ enc16w ti ++ enc16w mi ++ [u8 rc]
  | Pubcomp mi => hdr 2 T_PUBCOMP ++ enc16w mi
  | Pubrec mi => hdr 2 T_PUBREC ++ enc16w mi
  | Pubrel mi => hdr 2 T_PUBREL ++ enc16w mi
  | Subscribe dup q tit mi ti nm =>
    let tl := if tit =? TIT_STRING then u16 (len nm)
              else if (tit =? TIT_PREDEFINED) || (tit =? TIT_SHORT) then 2 else 0 in
    hdr (3 + tl) T_SUBSCRIBE ++ [bN dup 128 + qos_bits q + tit mod 4] ++ enc16w mi ++
    (if tit =? TIT_STRING then nm
     else if (tit =? TIT_PREDEFINED) || (tit =? TIT_SHORT) then enc16w ti else [])
  | Suback q ti mi rc => hdr 6 T_SUBACK ++ [qos_bits q] ++ enc16w ti ++ enc16w mi ++ [u8 rc]
  | Unsubscribe tit mi ti nm =>
    let tl := if tit =? TIT_STRING then u16 (len nm)
              else if (tit =? TIT_PREDEFINED) || (tit =? TIT_SHORT) then 2 else 0 in
    hdr (3 + tl) T_UNSUBSCRIBE ++ [tit mod 4] ++ enc16w mi ++
    (if tit =? TIT_STRING then nm
     else if (tit =? TIT_PREDEFINED) || (tit =? TIT_SHORT) then enc16w ti else [])
  | Unsuback mi => hdr 2 T_UNSUBACK ++ enc16w mi
  | Pingreq cid => hdr (u16 (len cid)) T_PINGREQ ++ cid
  | Pingresp => hdr 0 T_PINGRESP
  | Disconnect d =>
    if u16 d =? 0 then hdr 0 T_DISCONNECT else hdr 2 T_DISCONNECT ++ enc16w d
  | WillTopicUpd q r t =>
    match t with
    | [] => hdr 0 T_WILLTOPICUPD
    | _ => let vl := 1 + u16 (len t) in
           hdr vl T_WILLTOPICUPD ++
           (if 0 <? u16 (pkt_length vl + 65536 - (if pkt_length vl <=? 255 then 2 else 4))
            then [qos_bits q + bN r 16] ++ t else [])
    end
  | WillTopicResp rc => hdr 1 T_WILLTOPICRESP ++ [u8 rc]
  | WillMsgUpd m => hdr (u16 (len m)) T_WILLMSGUPD ++ m
  | WillMsgResp rc => hdr 1 T_WILLMSGRESP ++ [u8 rc]
  end.
