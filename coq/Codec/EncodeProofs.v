(* Codec/EncodeProofs.v — encode/decode round trip (C21).  Lemmas only. *)
From Coq Require Import List NArith Bool Lia ZArith ZifyN ZifyNat ZifyBool.
From Verif.Base Require Import Bytes BytesProofs.
From Verif.Codec Require Import Packets Decode Encode RefParse.
From Verif.Checkers Require Import ChkCodec.
Open Scope N_scope.
Ltac Zify.zify_post_hook ::= Z.div_mod_to_equations.

(* ------------------------------------------------------------------ short topics *)

Lemma short_topic_enc_dec : forall i : N, i < 65536 -> encode_short (decode_short i) = i.
Proof. intros i Hi. unfold decode_short, encode_short. lia. Qed.

Lemma short_topic_dec_enc : forall a b : N, a < 256 -> b < 256 -> decode_short (encode_short [a; b]) = [a; b].
Proof.
  intros a b Ha Hb. unfold decode_short, encode_short.
  f_equal; [|f_equal]; lia.
Qed.

Lemma short_topic_shape : forall i : N, i < 65536 -> wf_bytes (decode_short i) /\ is_short_topic (decode_short i) = true.
Proof.
  intros i Hi. split; [|reflexivity].
  unfold decode_short, wf_bytes. repeat constructor; apply is_byte_lt; lia.
Qed.

(* ------------------------------------------------------------------ packet equality *)

Lemma beql_refl (a : list bytes) : beql a a = true.
Proof. induction a as [|x a IH]; cbn [beql]; [reflexivity|]. rewrite beq_refl, IH. reflexivity. Qed.

Lemma beql_true (a b : list bytes) : beql a b = true -> a = b.
Proof.
  revert b. induction a as [|x a IH]; intros [|y b]; cbn [beql]; try discriminate; [reflexivity|].
  intros H. apply andb_true_iff in H. destruct H as [Hxy Hab].
  apply beq_true in Hxy. subst y. f_equal. apply IH, Hab.
Qed.

Lemma pkt_eqb_refl : forall p : packet, pkt_eqb p p = true.
Proof.
  intros p. unfold pkt_eqb. destruct (pfields p) as [[t n] b].
  rewrite N.eqb_refl, beq_refl, beql_refl. reflexivity.
Qed.

Lemma pkt_eqb_pfields (p q : packet) : pkt_eqb p q = true -> pfields p = pfields q.
Proof.
  unfold pkt_eqb. destruct (pfields p) as [[t1 n1] b1]. destruct (pfields q) as [[t2 n2] b2].
  intros H. apply andb_true_iff in H. destruct H as [H Hb].
  apply andb_true_iff in H. destruct H as [Ht Hn].
  apply N.eqb_eq in Ht. apply beq_true in Hn. apply beql_true in Hb.
  subst. reflexivity.
Qed.

Lemma N_of_bool_inj (a b : bool) : N_of_bool a = N_of_bool b -> a = b.
Proof. destruct a, b; cbn [N_of_bool]; intros H; try reflexivity; discriminate H. Qed.

Lemma pfields_inj (p q : packet) : pfields p = pfields q -> p = q.
Proof.
  destruct p, q; cbn [pfields]; intros H; try discriminate H; try reflexivity;
    injection H; intros; subst;
    repeat match goal with
           | Hb : N_of_bool _ = N_of_bool _ |- _ => apply N_of_bool_inj in Hb
           end; subst; reflexivity.
Qed.

(* holds without the well-formedness hypothesis *)
Lemma pkt_eqb_true (p q : packet) : pkt_eqb p q = true -> p = q.
Proof. intros H. apply pfields_inj, pkt_eqb_pfields, H. Qed.

Lemma pkt_eqb_eq : forall p q : packet, wf_pkt p = true -> pkt_eqb p q = true -> p = q.
Proof. intros p q _ H. apply pkt_eqb_true, H. Qed.

(* ------------------------------------------------------------------ generic facts *)

Lemma okb_spec (b : bytes) : okb b = true -> wf_bytes b /\ len b <= 7168.
Proof.
  unfold okb, MaxPayloadLength. intros H. apply andb_true_iff in H. destruct H as [Hw Hl].
  apply wf_bytesb_spec in Hw. apply N.leb_le in Hl. split; assumption.
Qed.

Lemma okb1_spec (b : bytes) : okb1 b = true -> wf_bytes b /\ len b <= 7168 /\ 0 < len b.
Proof.
  unfold okb1. intros H. apply andb_true_iff in H. destruct H as [Ho Hp].
  apply okb_spec in Ho. destruct Ho as [Hw Hl]. apply N.ltb_lt in Hp. repeat split; assumption.
Qed.

Lemma lt8_spec (x : N) : lt8 x = true -> x < 256.
Proof. unfold lt8. apply N.ltb_lt. Qed.

Lemma lt16_spec (x : N) : lt16 x = true -> x < 65536.
Proof. unfold lt16. apply N.ltb_lt. Qed.

Lemma wf_bytes_app (a b : bytes) : wf_bytes a -> wf_bytes b -> wf_bytes (a ++ b).
Proof. unfold wf_bytes. intros Ha Hb. apply Forall_app. split; assumption. Qed.

Lemma wf_bytes_cons (x : N) (b : bytes) : x < 256 -> wf_bytes b -> wf_bytes (x :: b).
Proof. unfold wf_bytes. intros Hx Hb. constructor; [apply is_byte_lt, Hx|exact Hb]. Qed.

Lemma wf_bytes_nil : wf_bytes [].
Proof. constructor. Qed.

Lemma enc16w_wf (x : N) : wf_bytes (enc16w x).
Proof. unfold enc16w. apply wf_bytes_cons; [lia|]. apply wf_bytes_cons; [lia|]. apply wf_bytes_nil. Qed.

Lemma len_enc16w (x : N) : len (enc16w x) = 2.
Proof. reflexivity. Qed.

Lemma len_pos_cons {A} (l : list A) : 0 < len l -> exists x l', l = x :: l'.
Proof. destruct l as [|x l']; [unfold len; cbn [length]; lia|]. intros _. exists x, l'. reflexivity. Qed.

Lemma len_zero_nil {A} (l : list A) : len l = 0 -> l = [].
Proof. destruct l as [|x l']; [reflexivity|]. rewrite len_cons. lia. Qed.

(* the datagram is not cut by the read buffer *)
Lemma firstn_max (l : bytes) : len l <= MaxPacketLen -> firstn (N.to_nat MaxPacketLen) l = l.
Proof. intros H. apply firstn_all2. unfold len in H. lia. Qed.

(* ------------------------------------------------------------------ header *)

Lemma hdr_short (vl t : N) : vl + 2 <= 255 -> t < 256 -> hdr vl t = [vl + 2; t].
Proof.
  intros Hv Ht. unfold hdr, pkt_length, pack_header.
  assert (E0 : u16 vl = vl) by (unfold u16; apply N.mod_small; lia).
  rewrite E0.
  assert (E1 : u16 (vl + 2) = vl + 2) by (unfold u16; apply N.mod_small; lia).
  rewrite E1.
  destruct (N.leb_spec (vl + 2) 255) as [_|Hc]; [|lia].
  destruct (N.ltb_spec 255 (vl + 2)) as [Hc|_]; [lia|].
  cbn [app]. unfold u8. f_equal; [|f_equal]; apply N.mod_small; lia.
Qed.

Lemma hdr_long (vl t : N) : 255 < vl + 2 -> vl + 4 < 65536 -> t < 256 ->
  hdr vl t = [1; (vl + 4) / 256; (vl + 4) mod 256; t].
Proof.
  intros Hv Hm Ht. unfold hdr, pkt_length, pack_header.
  assert (E0 : u16 vl = vl) by (unfold u16; apply N.mod_small; lia).
  rewrite E0.
  assert (E1 : u16 (vl + 2) = vl + 2) by (unfold u16; apply N.mod_small; lia).
  rewrite E1.
  assert (E2 : u16 (vl + 4) = vl + 4) by (unfold u16; apply N.mod_small; lia).
  rewrite E2.
  destruct (N.leb_spec (vl + 2) 255) as [Hc|_]; [lia|].
  destruct (N.ltb_spec 255 (vl + 4)) as [_|Hc]; [|lia].
  unfold enc16w, u8. cbn [app]. f_equal. f_equal; [|f_equal; f_equal]; apply N.mod_small; lia.
Qed.

Lemma read_packet_short (b0 t : N) (body : bytes) :
  b0 <> 1 -> known_type t = true -> read_packet (b0 :: t :: body) = unpack_body t body.
Proof.
  intros Hb Hk. unfold read_packet, header_unpack, encoded_header_length.
  apply N.eqb_neq in Hb. rewrite Hb.
  cbn [length Nat.ltb Nat.leb idx nth_error obind]. rewrite Hb.
  cbn [obind h_type]. rewrite Hk. cbn [negb].
  unfold slice_from. cbn [length Nat.leb skipn obind]. reflexivity.
Qed.

Lemma read_packet_long (hi lo t : N) (body : bytes) :
  known_type t = true -> read_packet (1 :: hi :: lo :: t :: body) = unpack_body t body.
Proof.
  intros Hk. unfold read_packet, header_unpack, encoded_header_length, get16.
  cbn [length Nat.ltb Nat.leb idx nth_error obind N.eqb Pos.eqb h_type].
  rewrite Hk. cbn [negb].
  unfold slice_from. cbn [length Nat.leb skipn obind]. reflexivity.
Qed.

(* facts about a datagram made of a header announcing its body *)
Section Framed.
  Variables (t : N) (body : bytes).
  Hypothesis Ht : t < 256.
  Hypothesis Hlen : len body <= 7500.

  Let dg := hdr (len body) t ++ body.

  Lemma framed_read : known_type t = true -> read_dgram dg = unpack_body t body.
  Proof.
    intros Hk. unfold read_dgram.
    rewrite firstn_max.
    - subst dg. destruct (N.le_gt_cases (len body + 2) 255) as [Hs|Hl].
      + rewrite hdr_short by assumption. cbn [app]. apply read_packet_short; [lia|exact Hk].
      + rewrite hdr_long by lia. cbn [app]. apply read_packet_long. exact Hk.
    - subst dg. unfold MaxPacketLen. destruct (N.le_gt_cases (len body + 2) 255) as [Hs|Hl].
      + rewrite hdr_short by assumption. cbn [app]. rewrite !len_cons. lia.
      + rewrite hdr_long by lia. cbn [app]. rewrite !len_cons. lia.
  Qed.

  Lemma framed_len : len dg = if len body + 2 <=? 255 then len body + 2 else len body + 4.
  Proof.
    subst dg. destruct (N.leb_spec (len body + 2) 255) as [Hs|Hl].
    - rewrite hdr_short by assumption. cbn [app]. rewrite !len_cons. lia.
    - rewrite hdr_long by lia. cbn [app]. rewrite !len_cons. lia.
  Qed.

  Lemma framed_size : len dg <= MaxPacketLen.
  Proof.
    rewrite framed_len. unfold MaxPacketLen.
    destruct (N.leb_spec (len body + 2) 255) as [Hs|Hl]; lia.
  Qed.

  Lemma framed_announced : announced_len dg = Some (len dg).
  Proof.
    rewrite framed_len. subst dg. destruct (N.leb_spec (len body + 2) 255) as [Hs|Hl].
    - rewrite hdr_short by assumption. cbn [app]. unfold announced_len.
      assert (E : (len body + 2 =? 1) = false) by (apply N.eqb_neq; lia).
      rewrite E. destruct body as [|x l]; reflexivity.
    - rewrite hdr_long by lia. cbn [app]. unfold announced_len.
      rewrite N.eqb_refl. f_equal. lia.
  Qed.

  Lemma framed_short_form : short_form dg = (len dg <=? 255).
  Proof.
    rewrite framed_len. subst dg. destruct (N.leb_spec (len body + 2) 255) as [Hs|Hl].
    - rewrite hdr_short by assumption. cbn [app]. unfold short_form.
      assert (E : (len body + 2 =? 1) = false) by (apply N.eqb_neq; lia).
      rewrite E. cbn [negb]. symmetry. apply N.leb_le. exact Hs.
    - rewrite hdr_long by lia. cbn [app]. unfold short_form.
      rewrite N.eqb_refl. cbn [negb]. symmetry. apply N.leb_gt. lia.
  Qed.

  Lemma framed_wf : wf_bytes body -> wf_bytes dg.
  Proof.
    intros Hb. subst dg. apply wf_bytes_app; [|exact Hb].
    destruct (N.le_gt_cases (len body + 2) 255) as [Hs|Hl].
    - rewrite hdr_short by assumption. repeat (apply wf_bytes_cons; [lia|]). apply wf_bytes_nil.
    - rewrite hdr_long by lia. repeat (apply wf_bytes_cons; [lia|]). apply wf_bytes_nil.
  Qed.
End Framed.

(* ------------------------------------------------------------------ packet bodies *)

Definition tail_sub (tit ti : N) (nm : bytes) : bytes :=
  if tit =? TIT_STRING then nm
  else if (tit =? TIT_PREDEFINED) || (tit =? TIT_SHORT) then enc16w ti else [].

(* the variable part Pack writes after the header, for a well-formed packet *)
Definition pbody (p : packet) : bytes :=
  match p with
  | Advertise g d => [u8 g] ++ enc16w d
  | SearchGw r => [u8 r]
  | GwInfo g a => [u8 g] ++ a
  | Auth r m d => [u8 r; u8 (len m)] ++ m ++ d
  | Connect w c pr d cid => [bN w 8 + bN c 4; u8 pr] ++ enc16w d ++ cid
  | Connack rc => [u8 rc]
  | WillTopicReq => []
  | WillTopic q r t => match t with [] => [] | _ => [qos_bits q + bN r 16] ++ t end
  | WillMsgReq => []
  | WillMsg m => m
  | Register ti mi nm => enc16w ti ++ enc16w mi ++ nm
  | Regack ti mi rc => enc16w ti ++ enc16w mi ++ [u8 rc]
  | Publish dup q r tit ti mi d => [pub_flags dup q r tit] ++ enc16w ti ++ enc16w mi ++ d
  | Puback ti mi rc => enc16w ti ++ enc16w mi ++ [u8 rc]
  | Pubcomp mi => enc16w mi
  | Pubrec mi => enc16w mi
  | Pubrel mi => enc16w mi
  | Subscribe dup q tit mi ti nm =>
    [bN dup 128 + qos_bits q + tit mod 4] ++ enc16w mi ++ tail_sub tit ti nm
  | Suback q ti mi rc => [qos_bits q] ++ enc16w ti ++ enc16w mi ++ [u8 rc]
  | Unsubscribe tit mi ti nm => [tit mod 4] ++ enc16w mi ++ tail_sub tit ti nm
  | Unsuback mi => enc16w mi
  | Pingreq cid => cid
  | Pingresp => []
  | Disconnect d => if u16 d =? 0 then [] else enc16w d
  | WillTopicUpd q r t => match t with [] => [] | _ => [qos_bits q + bN r 16] ++ t end
  | WillTopicResp rc => [u8 rc]
  | WillMsgUpd m => m
  | WillMsgResp rc => [u8 rc]
  end.

(* case analysis on a packet with the field names of Codec/Packets.v *)
Ltac destruct_pkt p :=
  destruct p as
    [gw dur|radius|gw addr|reason method data|will clean proto dur cid|rc| |qos retain topic|
     |msg|tid mid name|tid mid rc|dup qos retain tit tid mid data|tid mid rc|mid|mid|mid
     |dup qos tit mid tid name|qos tid mid rc|tit mid tid name|mid|cid| |dur
     |qos retain topic|rc|msg|rc].

(* break a wf_pkt hypothesis into arithmetic facts *)
Ltac split_wf :=
  repeat match goal with
         | H : _ && _ = true |- _ =>
           let H1 := fresh H in let H2 := fresh H in
           apply andb_true_iff in H; destruct H as [H1 H2]
         | H : lt8 _ = true |- _ => apply lt8_spec in H
         | H : lt16 _ = true |- _ => apply lt16_spec in H
         | H : okb1 _ = true |- _ =>
           let H1 := fresh H in let H2 := fresh H in let H3 := fresh H in
           apply okb1_spec in H; destruct H as [H1 [H2 H3]]
         | H : okb _ = true |- _ =>
           let H1 := fresh H in let H2 := fresh H in
           apply okb_spec in H; destruct H as [H1 H2]
         | H : wf_bytesb _ = true |- _ => apply wf_bytesb_spec in H
         | H : (_ <? _) = true |- _ => apply N.ltb_lt in H
         | H : (_ <=? _) = true |- _ => apply N.leb_le in H
         | H : (_ =? _) = true |- _ => apply N.eqb_eq in H
         | H : negb _ = true |- _ => apply negb_true_iff in H
         | H : _ || _ = true |- _ => apply orb_true_iff in H
         end.

Ltac len_norm :=
  cbn [app];
  repeat (rewrite len_app || rewrite len_cons || rewrite len_enc16w);
  change (@len N []) with 0.

Lemma u16_small (x : N) : x < 65536 -> u16 x = x.
Proof. intros H. unfold u16. apply N.mod_small. exact H. Qed.

Lemma u8_small (x : N) : x < 256 -> u8 x = x.
Proof. intros H. unfold u8. apply N.mod_small. exact H. Qed.

(* well-formed Subscribe / Unsubscribe topic part *)
Lemma wf_sub_cases (tit ti : N) (nm : bytes) :
  (if tit =? 0 then (ti =? 0) && okb1 nm
   else ((tit =? 1) || (tit =? 2)) && lt16 ti && (len nm =? 0)) = true ->
  (tit = 0 /\ ti = 0 /\ wf_bytes nm /\ len nm <= 7168 /\ 0 < len nm) \/
  ((tit = 1 \/ tit = 2) /\ ti < 65536 /\ nm = []).
Proof.
  intros H. destruct (N.eqb_spec tit 0) as [E|E].
  - left. apply andb_true_iff in H. destruct H as [Hti Hnm].
    apply N.eqb_eq in Hti. apply okb1_spec in Hnm. destruct Hnm as [Hw [Hl Hp]].
    repeat split; assumption.
  - right. apply andb_true_iff in H. destruct H as [H Hnm].
    apply andb_true_iff in H. destruct H as [Htit Hti].
    apply N.eqb_eq in Hnm. apply len_zero_nil in Hnm. apply lt16_spec in Hti.
    apply orb_true_iff in Htit.
    repeat split; try assumption.
    destruct Htit as [Htit|Htit]; apply N.eqb_eq in Htit; [left|right]; exact Htit.
Qed.

Lemma varpart_pos (vl : N) : 0 < vl -> vl + 4 < 65536 ->
  (0 <? u16 (pkt_length vl + 65536 - (if pkt_length vl <=? 255 then 2 else 4))) = true.
Proof.
  intros Hp Hm. unfold pkt_length.
  rewrite (u16_small vl) by lia. rewrite (u16_small (vl + 2)) by lia.
  rewrite (u16_small (vl + 4)) by lia.
  apply N.ltb_lt. unfold u16.
  destruct (N.leb_spec (vl + 2) 255) as [Hs|Hl].
  - destruct (N.leb_spec (vl + 2) 255) as [_|Hc]; lia.
  - destruct (N.leb_spec (vl + 4) 255) as [Hc|_]; lia.
Qed.

Ltac pack_eq_tac :=
  first [ reflexivity
        | split_wf; f_equal; f_equal; len_norm; unfold u16; lia ].

Lemma pack_eq (p : packet) : wf_pkt p = true -> pack p = hdr (len (pbody p)) (ptype p) ++ pbody p.
Proof.
  intros Hwf. destruct_pkt p; cbn [wf_pkt] in Hwf; cbn [pack pbody ptype].
  - (* Advertise *) pack_eq_tac.
  - (* SearchGw *) pack_eq_tac.
  - (* GwInfo *) pack_eq_tac.
  - (* Auth *) pack_eq_tac.
  - (* Connect *) pack_eq_tac.
  - (* Connack *) pack_eq_tac.
  - (* WillTopicReq *) symmetry. apply app_nil_r.
  - (* WillTopic *)
    destruct topic as [|x t]; [symmetry; apply app_nil_r|].
    split_wf. cbv zeta.
    match goal with H : len (_ :: _) <= _ |- _ => rewrite len_cons in H end.
    rewrite ?len_cons.
    rewrite varpart_pos by (unfold u16; lia).
    f_equal. f_equal. len_norm. unfold u16. lia.
  - (* WillMsgReq *) symmetry. apply app_nil_r.
  - (* WillMsg *) pack_eq_tac.
  - (* Register *) pack_eq_tac.
  - (* Regack *) pack_eq_tac.
  - (* Publish *) pack_eq_tac.
  - (* Puback *) pack_eq_tac.
  - (* Pubcomp *) pack_eq_tac.
  - (* Pubrec *) pack_eq_tac.
  - (* Pubrel *) pack_eq_tac.
  - (* Subscribe *)
    apply andb_true_iff in Hwf. destruct Hwf as [Hwf Hsub].
    apply wf_sub_cases in Hsub.
    cbv zeta. fold (tail_sub tit tid name).
    f_equal. f_equal. len_norm.
    destruct Hsub as [[Htit [Hti [Hw [Hl Hp]]]]|[[Htit|Htit] [Hti Hnm]]]; subst;
      unfold tail_sub, TIT_STRING, TIT_PREDEFINED, TIT_SHORT; cbn [N.eqb Pos.eqb orb];
      [rewrite u16_small by lia|rewrite len_enc16w ..]; lia.
  - (* Suback *) pack_eq_tac.
  - (* Unsubscribe *)
    apply andb_true_iff in Hwf. destruct Hwf as [Hwf Hsub].
    apply wf_sub_cases in Hsub.
    cbv zeta. fold (tail_sub tit tid name).
    f_equal. f_equal. len_norm.
    destruct Hsub as [[Htit [Hti [Hw [Hl Hp]]]]|[[Htit|Htit] [Hti Hnm]]]; subst;
      unfold tail_sub, TIT_STRING, TIT_PREDEFINED, TIT_SHORT; cbn [N.eqb Pos.eqb orb];
      [rewrite u16_small by lia|rewrite len_enc16w ..]; lia.
  - (* Unsuback *) pack_eq_tac.
  - (* Pingreq *) pack_eq_tac.
  - (* Pingresp *) symmetry. apply app_nil_r.
  - (* Disconnect *)
    destruct (u16 dur =? 0); [symmetry; apply app_nil_r|reflexivity].
  - (* WillTopicUpd *)
    destruct topic as [|x t]; [symmetry; apply app_nil_r|].
    split_wf. cbv zeta.
    match goal with H : len (_ :: _) <= _ |- _ => rewrite len_cons in H end.
    rewrite ?len_cons.
    rewrite varpart_pos by (unfold u16; lia).
    f_equal. f_equal. len_norm. unfold u16. lia.
  - (* WillTopicResp *) pack_eq_tac.
  - (* WillMsgUpd *) pack_eq_tac.
  - (* WillMsgResp *) pack_eq_tac.
Qed.

Lemma tail_sub_string (ti : N) (nm : bytes) : tail_sub 0 ti nm = nm.
Proof. reflexivity. Qed.
Lemma tail_sub_predef (ti : N) (nm : bytes) : tail_sub 1 ti nm = enc16w ti.
Proof. reflexivity. Qed.
Lemma tail_sub_short (ti : N) (nm : bytes) : tail_sub 2 ti nm = enc16w ti.
Proof. reflexivity. Qed.

Lemma pbody_len (p : packet) : wf_pkt p = true -> len (pbody p) <= 7500.
Proof.
  intros Hwf. destruct_pkt p; cbn [wf_pkt] in Hwf; cbn [pbody];
    try (split_wf; len_norm; lia).
  - (* WillTopic *) destruct topic as [|x t]; split_wf; len_norm; [lia|].
    match goal with H : len (_ :: _) <= _ |- _ => rewrite len_cons in H end. lia.
  - (* Subscribe *)
    apply andb_true_iff in Hwf. destruct Hwf as [Hwf Hsub]. apply wf_sub_cases in Hsub.
    destruct Hsub as [[Htit [Hti [Hw [Hl Hp]]]]|[[Htit|Htit] [Hti Hnm]]]; subst;
      rewrite ?tail_sub_string, ?tail_sub_predef, ?tail_sub_short; len_norm; lia.
  - (* Unsubscribe *)
    apply andb_true_iff in Hwf. destruct Hwf as [Hwf Hsub]. apply wf_sub_cases in Hsub.
    destruct Hsub as [[Htit [Hti [Hw [Hl Hp]]]]|[[Htit|Htit] [Hti Hnm]]]; subst;
      rewrite ?tail_sub_string, ?tail_sub_predef, ?tail_sub_short; len_norm; lia.
  - (* Disconnect *) destruct (u16 dur =? 0); len_norm; lia.
  - (* WillTopicUpd *) destruct topic as [|x t]; split_wf; len_norm; [lia|].
    match goal with H : len (_ :: _) <= _ |- _ => rewrite len_cons in H end. lia.
Qed.

Ltac byte_bound :=
  unfold u8, pub_flags, qos_bits, bN;
  repeat match goal with |- context [if ?b then _ else _] => destruct b end;
  lia.

Ltac wfb :=
  cbn [app];
  repeat first [ apply wf_bytes_nil | apply enc16w_wf | assumption
               | apply wf_bytes_app | apply wf_bytes_cons ];
  try byte_bound.

Lemma pbody_wf (p : packet) : wf_pkt p = true -> wf_bytes (pbody p).
Proof.
  intros Hwf. destruct_pkt p; cbn [wf_pkt] in Hwf; cbn [pbody];
    try (split_wf; wfb; fail).
  - (* WillTopic *) destruct topic as [|x t]; split_wf; wfb.
  - (* Subscribe *)
    apply andb_true_iff in Hwf. destruct Hwf as [Hwf Hsub]. apply wf_sub_cases in Hsub.
    destruct Hsub as [[Htit [Hti [Hw [Hl Hp]]]]|[[Htit|Htit] [Hti Hnm]]]; subst;
      rewrite ?tail_sub_string, ?tail_sub_predef, ?tail_sub_short; split_wf; wfb.
  - (* Unsubscribe *)
    apply andb_true_iff in Hwf. destruct Hwf as [Hwf Hsub]. apply wf_sub_cases in Hsub.
    destruct Hsub as [[Htit [Hti [Hw [Hl Hp]]]]|[[Htit|Htit] [Hti Hnm]]]; subst;
      rewrite ?tail_sub_string, ?tail_sub_predef, ?tail_sub_short; split_wf; wfb.
  - (* Disconnect *) destruct (u16 dur =? 0); wfb.
  - (* WillTopicUpd *) destruct topic as [|x t]; split_wf; wfb.
Qed.

(* ------------------------------------------------------------------ decoding a body *)

Ltac dispatch :=
  match goal with
  | |- unpack_body _ ?b = _ =>
    let x := fresh "buf" in
    set (x := b);
    lazy beta iota delta
      [unpack_body N.eqb Pos.eqb
       T_ADVERTISE T_SEARCHGW T_GWINFO T_AUTH T_CONNECT T_CONNACK T_WILLTOPICREQ T_WILLTOPIC
       T_WILLMSGREQ T_WILLMSG T_REGISTER T_REGACK T_PUBLISH T_PUBACK T_PUBCOMP T_PUBREC T_PUBREL
       T_SUBSCRIBE T_SUBACK T_UNSUBSCRIBE T_UNSUBACK T_PINGREQ T_PINGRESP T_DISCONNECT
       T_WILLTOPICUPD T_WILLTOPICRESP T_WILLMSGUPD T_WILLMSGRESP];
    subst x
  end.

Ltac run :=
  cbv beta zeta delta
    [unpack_advertise unpack_searchgw unpack_gwinfo unpack_connect unpack_connack
     unpack_willtopicreq unpack_willtopic unpack_willmsgreq unpack_willmsg unpack_register
     unpack_regack unpack_publish unpack_puback unpack_pubcomp unpack_pubrec unpack_pubrel
     unpack_subscribe unpack_suback unpack_unsubscribe unpack_unsuback unpack_pingreq
     unpack_pingresp unpack_disconnect unpack_willtopicupd unpack_willtopicresp
     unpack_willmsgupd unpack_willmsgresp enc16w];
  cbn [app lenb length Nat.ltb Nat.leb Nat.eqb negb obind idx get16 nth_error slice_from skipn].

(* field-by-field equality of the decoded packet *)
Ltac fld :=
  unfold u8, be16, bit, pub_flags, qos_bits, bN;
  match goal with
  | |- (_ =? _) = true => apply N.eqb_eq
  | |- (_ =? _) = false => apply N.eqb_neq
  | |- _ => idtac
  end; lia.

Ltac fields := f_equal; f_equal; fld.

Lemma unpack_auth_ok (r : N) (m d : bytes) :
  len m <= 255 -> unpack_auth (r :: len m :: m ++ d) = Ok (Auth r m d).
Proof.
  intros Hm. unfold unpack_auth, lenb.
  assert (El : N.to_nat (len m) = length m) by (unfold len; apply Nat2N.id).
  set (buf := r :: len m :: m ++ d).
  assert (Hlen : length buf = (2 + length m + length d)%nat)
    by (subst buf; cbn [length]; rewrite app_length; lia).
  destruct (Nat.ltb_spec (length buf) 2) as [Hc|_]; [lia|].
  change (idx buf 0 PsBodySlice) with (Ok r).
  change (idx buf 1 PsBodySlice) with (Ok (len m)).
  cbn [obind]. rewrite El.
  destruct (Nat.ltb_spec (length buf) (2 + length m)) as [Hc|_]; [lia|].
  unfold slice, slice_from.
  destruct (Nat.leb_spec 2 (2 + length m)) as [_|Hc]; [|lia].
  destruct (Nat.leb_spec (2 + length m) (length buf)) as [_|Hc]; [|lia].
  cbn [andb obind].
  replace (2 + length m - 2)%nat with (length m + 0)%nat by lia.
  subst buf.
  change (skipn 2 (r :: len m :: m ++ d)) with (m ++ d).
  change (skipn (2 + length m) (r :: len m :: m ++ d)) with (skipn (length m) (m ++ d)).
  rewrite firstn_app_2. cbn [firstn]. rewrite app_nil_r.
  rewrite skipn_app, skipn_all, Nat.sub_diag. cbn [skipn app].
  reflexivity.
Qed.

Ltac nonempty :=
  match goal with
  | H : 0 < len ?c |- _ =>
    let x := fresh "x" in let c' := fresh "tl" in let E := fresh "E" in
    apply len_pos_cons in H; destruct H as [x [c' E]]; subst c
  end.

Ltac tit_consts :=
  unfold TIT_STRING, TIT_PREDEFINED, TIT_SHORT; cbn [N.eqb Pos.eqb orb negb].

Lemma unpack_pbody (p : packet) : wf_pkt p = true -> unpack_body (ptype p) (pbody p) = Ok p.
Proof.
  intros Hwf. destruct_pkt p; cbn [wf_pkt] in Hwf; cbn [pbody ptype].
  - (* Advertise *) split_wf. dispatch. run. fields.
  - (* SearchGw *) split_wf. dispatch. run. fields.
  - (* GwInfo *) split_wf. dispatch. run. fields.
  - (* Auth *)
    split_wf. dispatch. cbn [app].
    rewrite (u8_small (len method)) by lia.
    rewrite unpack_auth_ok by assumption. fields.
  - (* Connect *)
    split_wf. subst proto. nonempty. change (u8 1) with 1.
    dispatch. run. cbn [N.eqb Pos.eqb negb obind].
    destruct will, clean; fields.
  - (* Connack *) split_wf. dispatch. run. fields.
  - (* WillTopicReq *) reflexivity.
  - (* WillTopic *)
    destruct topic as [|x t]; split_wf.
    + subst qos retain. reflexivity.
    + dispatch. run. destruct retain; fields.
  - (* WillMsgReq *) reflexivity.
  - (* WillMsg *) reflexivity.
  - (* Register *) split_wf. nonempty. dispatch. run. fields.
  - (* Regack *) split_wf. dispatch. run. fields.
  - (* Publish *) split_wf. dispatch. run. destruct dup, retain; fields.
  - (* Puback *) split_wf. dispatch. run. fields.
  - (* Pubcomp *) split_wf. dispatch. run. fields.
  - (* Pubrec *) split_wf. dispatch. run. fields.
  - (* Pubrel *) split_wf. dispatch. run. fields.
  - (* Subscribe *)
    apply andb_true_iff in Hwf. destruct Hwf as [Hwf Hsub]. apply wf_sub_cases in Hsub.
    split_wf.
    destruct Hsub as [[Htit [Hti [Hw [Hl Hp]]]]|[[Htit|Htit] [Hti Hnm]]]; subst.
    + rewrite tail_sub_string. nonempty. dispatch. run.
      match goal with
      | |- context [?f mod 4 =? TIT_STRING] =>
        replace (f mod 4) with 0 by (destruct dup; fld)
      end.
      tit_consts. run. destruct dup; fields.
    + rewrite tail_sub_predef. dispatch. run.
      match goal with
      | |- context [?f mod 4 =? TIT_STRING] =>
        replace (f mod 4) with 1 by (destruct dup; fld)
      end.
      tit_consts. run. destruct dup; fields.
    + rewrite tail_sub_short. dispatch. run.
      match goal with
      | |- context [?f mod 4 =? TIT_STRING] =>
        replace (f mod 4) with 2 by (destruct dup; fld)
      end.
      tit_consts. run. destruct dup; fields.
  - (* Suback *) split_wf. dispatch. run. fields.
  - (* Unsubscribe *)
    apply andb_true_iff in Hwf. destruct Hwf as [Hwf Hsub]. apply wf_sub_cases in Hsub.
    split_wf.
    destruct Hsub as [[Htit [Hti [Hw [Hl Hp]]]]|[[Htit|Htit] [Hti Hnm]]]; subst.
    + rewrite tail_sub_string. nonempty. dispatch. run.
      change (0 mod 4 mod 4) with 0.
      tit_consts. run. fields.
    + rewrite tail_sub_predef. dispatch. run.
      change (1 mod 4 mod 4) with 1.
      tit_consts. run. fields.
    + rewrite tail_sub_short. dispatch. run.
      change (2 mod 4 mod 4) with 2.
      tit_consts. run. fields.
  - (* Unsuback *) split_wf. dispatch. run. fields.
  - (* Pingreq *) reflexivity.
  - (* Pingresp *) reflexivity.
  - (* Disconnect *)
    split_wf. destruct (N.eqb_spec (u16 dur) 0) as [E|E].
    + rewrite u16_small in E by assumption. subst dur. reflexivity.
    + dispatch. run. fields.
  - (* WillTopicUpd *)
    destruct topic as [|x t]; split_wf.
    + subst qos retain. reflexivity.
    + dispatch. run. destruct retain; fields.
  - (* WillTopicResp *) split_wf. dispatch. run. fields.
  - (* WillMsgUpd *) reflexivity.
  - (* WillMsgResp *) split_wf. dispatch. run. fields.
Qed.

Lemma ptype_byte (p : packet) : ptype p < 256.
Proof. destruct p; cbn [ptype]; reflexivity. Qed.

Lemma ptype_known (p : packet) : known_type (ptype p) = true.
Proof. destruct p; reflexivity. Qed.

(* ------------------------------------------------------------------ C21 *)

(* encode/decode round trip *)
Lemma read_pack_roundtrip : forall p : packet, wf_pkt p = true -> read_dgram (pack p) = Ok p.
Proof.
  intros p Hwf. rewrite (pack_eq p Hwf).
  rewrite framed_read; [apply unpack_pbody, Hwf|apply ptype_byte|apply pbody_len, Hwf|apply ptype_known].
Qed.

(* the encoded length field equals the datagram size *)
Lemma pack_announced_len : forall p : packet, wf_pkt p = true -> announced_len (pack p) = Some (len (pack p)).
Proof.
  intros p Hwf. rewrite (pack_eq p Hwf).
  apply framed_announced; [apply ptype_byte|apply pbody_len, Hwf].
Qed.

(* the one-byte length form is used exactly when the size is at most 255 *)
Lemma pack_short_form : forall p : packet, wf_pkt p = true -> short_form (pack p) = (len (pack p) <=? 255).
Proof.
  intros p Hwf. rewrite (pack_eq p Hwf).
  apply framed_short_form; [apply ptype_byte|apply pbody_len, Hwf].
Qed.

(* every encoded datagram fits the transport maximum and consists of bytes *)
Lemma pack_size : forall p : packet, wf_pkt p = true -> len (pack p) <= MaxPacketLen.
Proof.
  intros p Hwf. rewrite (pack_eq p Hwf).
  apply framed_size; [apply ptype_byte|apply pbody_len, Hwf].
Qed.

Lemma pack_wf_bytes : forall p : packet, wf_pkt p = true -> wf_bytes (pack p).
Proof.
  intros p Hwf. rewrite (pack_eq p Hwf).
  apply framed_wf; [apply ptype_byte|apply pbody_len, Hwf|apply pbody_wf, Hwf].
Qed.

(* the extracted checker accepts the model's own behaviour *)
Lemma chk_C21_sound : forall p : packet,
  chk_C21 p (pack p) (match read_dgram (pack p) with Ok q => Some q | _ => None end) = [].
Proof.
  intros p. unfold chk_C21. destruct (wf_pkt p) eqn:Hwf; cbn [negb]; [|reflexivity].
  rewrite (read_pack_roundtrip p Hwf), pkt_eqb_refl.
  rewrite (pack_announced_len p Hwf), N.eqb_refl.
  rewrite (pack_short_form p Hwf), Bool.eqb_reflx.
  reflexivity.
Qed.

Print Assumptions read_pack_roundtrip.
Print Assumptions chk_C21_sound.
