(* Match/Match.v — client/message_handlers.go: topic routes, the handler table and the
   match function (taken by bisquitt from the paho client), next to the MQTT 3.1.1
   section 4.7 matching relation as an independent specification. *)
From Coq Require Import List NArith Bool.
From Verif.Base Require Import Bytes.
Import ListNotations.
Open Scope N_scope.

Definition SLASH := 47. Definition PLUS : bytes := [43]. Definition HASH : bytes := [35].

(* strings.Split(topic, "/"): never returns the empty list *)
Fixpoint split_slash (t : bytes) (cur : bytes) : list bytes :=
  match t with
  | [] => [cur]
  | b :: rest => if b =? SLASH then cur :: split_slash rest [] else split_slash rest (cur ++ [b])
  end.
Definition split (t : bytes) : list bytes := split_slash t [].

(* strings.Join(route, "/") *)
Fixpoint join (r : list bytes) : bytes :=
  match r with
  | [] => []
  | [l] => l
  | l :: r' => l ++ [SLASH] ++ join r'
  end.

(* func match(route []string, topic []string) bool *)
Fixpoint match_route (route topic : list bytes) : bool :=
  match route with
  | [] => match topic with [] => true | _ => false end
  | r :: route' =>
    match topic with
    | [] => beq r HASH
    | t :: topic' =>
      if beq r HASH then true
      else if beq r PLUS || beq r t then match_route route' topic'
      else false
    end
  end.

(* ---- MQTT 3.1.1, 4.7: the matching relation on level lists *)
Inductive mqtt_matches : list bytes -> list bytes -> Prop :=
| mm_nil : mqtt_matches [] []
| mm_hash : forall ts, mqtt_matches [HASH] ts                 (* multi-level wildcard, also matches the parent *)
| mm_plus : forall fs t ts, mqtt_matches fs ts -> mqtt_matches (PLUS :: fs) (t :: ts)   (* exactly one level *)
| mm_lit : forall f fs ts, f <> PLUS -> f <> HASH -> mqtt_matches fs ts -> mqtt_matches (f :: fs) (f :: ts).

(* a well-formed filter: '#' only as the last level ('+' and '#' occupy a whole level by
   construction, since levels are compared as wholes) *)
Fixpoint valid_filter (f : list bytes) : bool :=
  match f with
  | [] => true
  | [l] => true
  | l :: f' => negb (beq l HASH) && valid_filter f'
  end.

(* ---- the handler table: sync.Map keyed by the joined route; store replaces, delete removes *)
Definition handler := (list bytes * N)%type.             (* route, callback id *)
Definition table := list (bytes * handler).              (* key = join route; keys are unique *)

Fixpoint tbl_delete (tb : table) (k : bytes) : table :=
  match tb with
  | [] => []
  | (k', h) :: tb' => if beq k' k then tbl_delete tb' k else (k', h) :: tbl_delete tb' k
  end.
Definition tbl_store (tb : table) (route : list bytes) (cb : N) : table :=
  tbl_delete tb (join route) ++ [(join route, (route, cb))].
Definition tbl_remove (tb : table) (route : list bytes) : table := tbl_delete tb (join route).

(* messageHandlers.handle ranges over the map in an unspecified order and calls the first
   handler whose route matches: the set of callbacks some order may call *)
Definition handle_set (tb : table) (topic : bytes) : list N :=
  flat_map (fun kh => if match_route (fst (snd kh)) (split topic) then [snd (snd kh)] else []) tb.
