(* Match/MatchProofs.v — the client's route matcher coincides with the MQTT 3.1.1 section 4.7
   matching relation on well-formed filters; split/join; the handler table.  Stdlib only. *)
From Coq Require Import List NArith Bool Lia.
From Verif.Base Require Import Bytes BytesProofs.
From Verif.Match Require Import Match.
Import ListNotations.
Open Scope N_scope.

(* ---- small facts *)

Lemma beq_PLUS_HASH : beq PLUS HASH = false.
Proof. reflexivity. Qed.

Lemma valid_filter_cons (l : bytes) (f : list bytes) :
  valid_filter (l :: f) = true -> valid_filter f = true.
Proof.
  destruct f as [|l' f']; [reflexivity|].
  intros Hv. change (negb (beq l HASH) && valid_filter (l' :: f') = true) in Hv.
  apply andb_true_iff in Hv. exact (proj2 Hv).
Qed.

Lemma valid_filter_hash (f : list bytes) :
  valid_filter (HASH :: f) = true -> f = [].
Proof.
  destruct f as [|l' f']; [reflexivity|].
  intros Hv. change (negb (beq HASH HASH) && valid_filter (l' :: f') = true) in Hv.
  rewrite beq_refl in Hv. discriminate Hv.
Qed.

(* ---- matcher vs. relation *)

Lemma mqtt_matches_match_route (f t : list bytes) :
  mqtt_matches f t -> match_route f t = true.
Proof.
  intros Hm. induction Hm as [|ts|fs t ts Hm IH|f fs ts Hp Hh Hm IH].
  - reflexivity.
  - destruct ts as [|t ts]; cbn [match_route]; rewrite beq_refl; reflexivity.
  - cbn [match_route]. rewrite beq_PLUS_HASH, beq_refl. cbn [orb]. exact IH.
  - cbn [match_route]. apply beq_false in Hh. rewrite Hh, beq_refl, orb_true_r. exact IH.
Qed.

Lemma match_route_mqtt_matches (f : list bytes) : forall t,
  valid_filter f = true -> match_route f t = true -> mqtt_matches f t.
Proof.
  induction f as [|r f' IH]; intros t Hv Hm.
  - destruct t as [|t0 t']; [constructor|discriminate Hm].
  - destruct t as [|t0 t']; cbn [match_route] in Hm.
    + apply beq_true in Hm. subst r. apply valid_filter_hash in Hv. subst f'. constructor.
    + destruct (beq r HASH) eqn:Eh.
      * apply beq_true in Eh. subst r. apply valid_filter_hash in Hv. subst f'. constructor.
      * apply valid_filter_cons in Hv.
        destruct (beq r PLUS) eqn:Ep.
        -- apply beq_true in Ep. subst r. cbn [orb] in Hm. apply mm_plus. apply IH; assumption.
        -- cbn [orb] in Hm. destruct (beq r t0) eqn:Et; [|discriminate Hm].
           apply beq_true in Et. subst t0.
           apply mm_lit; [apply beq_false, Ep|apply beq_false, Eh|apply IH; assumption].
Qed.

(* the implementation's matcher coincides with the MQTT matching relation on well-formed filters *)
Theorem match_route_spec : forall (f t : list bytes),
  valid_filter f = true -> (match_route f t = true <-> mqtt_matches f t).
Proof.
  intros f t Hv. split.
  - apply match_route_mqtt_matches, Hv.
  - apply mqtt_matches_match_route.
Qed.

(* ... and in particular for filters and names given as strings *)
Corollary match_split_spec : forall (filter name : bytes),
  valid_filter (split filter) = true ->
  (match_route (split filter) (split name) = true <-> mqtt_matches (split filter) (split name)).
Proof. intros filter name Hv. apply match_route_spec, Hv. Qed.

(* examples the property text singles out: empty levels, trailing '/', '#' at parent level *)
Example match_examples :
  match_route (split [97;47;35]) (split [97]) = true /\            (* "a/#" matches "a" *)
  match_route (split [97;47;35]) (split [97;47;98;47;99]) = true /\ (* "a/#" matches "a/b/c" *)
  match_route (split [97;47;43]) (split [97;47]) = true /\         (* "a/+" matches "a/" (empty level) *)
  match_route (split [97;47;43]) (split [97]) = false /\           (* "a/+" does not match "a" *)
  match_route (split [43]) (split [97;47;98]) = false /\           (* "+" does not match "a/b" *)
  match_route (split [97;47]) (split [97]) = false /\              (* "a/" does not match "a" *)
  match_route (split [35]) (split []) = true.                      (* "#" matches "" *)
Proof. vm_compute. repeat split; reflexivity. Qed.

(* why valid_filter is needed: on the ill-formed filter "a/#/b" the implementation stops at
   '#' and accepts "a/x", which the relation does not *)
Example invalid_filter_diverges :
  match_route (split [97;47;35;47;98]) (split [97;47;120]) = true /\
  ~ mqtt_matches (split [97;47;35;47;98]) (split [97;47;120]).
Proof.
  split; [vm_compute; reflexivity|].
  change (~ mqtt_matches [[97]; [35]; [98]] [[97]; [120]]).
  intros Hm.
  inversion Hm as [| | |f fs ts Hp Hh Hm1]; subst.
  inversion Hm1 as [| | |f fs ts Hp1 Hh1 Hm2]; subst.
Qed.

(* ---- split / join *)

Lemma split_slash_nonempty (t cur : bytes) : split_slash t cur <> [].
Proof.
  revert cur. induction t as [|b rest IH]; intros cur; cbn [split_slash].
  - discriminate.
  - destruct (b =? SLASH); [discriminate|apply IH].
Qed.

Theorem split_nonempty : forall t, split t <> [].
Proof. intros t. apply split_slash_nonempty. Qed.

Lemma join_cons (l : bytes) (r : list bytes) :
  r <> [] -> join (l :: r) = l ++ [SLASH] ++ join r.
Proof. destruct r as [|l' r']; [intros Hne; contradiction Hne; reflexivity|reflexivity]. Qed.

Lemma join_split_slash (t cur : bytes) : join (split_slash t cur) = cur ++ t.
Proof.
  revert cur. induction t as [|b rest IH]; intros cur; cbn [split_slash].
  - cbn [join]. rewrite app_nil_r. reflexivity.
  - destruct (b =? SLASH) eqn:Eb.
    + apply N.eqb_eq in Eb. subst b.
      rewrite join_cons by apply split_slash_nonempty.
      rewrite IH. reflexivity.
    + rewrite IH, <- app_assoc. reflexivity.
Qed.

Theorem join_split : forall t, join (split t) = t.
Proof. intros t. unfold split. rewrite join_split_slash. reflexivity. Qed.

(* ---- the handler table *)

Lemma tbl_delete_spec (tb : table) (key : bytes) k h :
  In (k, h) (tbl_delete tb key) <-> (In (k, h) tb /\ k <> key).
Proof.
  induction tb as [|[k' h'] tb' IH]; cbn [tbl_delete].
  - cbn [In]. tauto.
  - destruct (beq k' key) eqn:Ek.
    + apply beq_true in Ek. subst k'. rewrite IH. cbn [In]. split.
      * intros [Hin Hne]. split; [right; exact Hin|exact Hne].
      * intros [[Heq|Hin] Hne].
        -- inversion Heq; subst. contradiction Hne; reflexivity.
        -- split; assumption.
    + apply beq_false in Ek. cbn [In]. rewrite IH. split.
      * intros [Heq|[Hin Hne]].
        -- inversion Heq; subst. split; [left; reflexivity|exact Ek].
        -- split; [right; exact Hin|exact Hne].
      * intros [[Heq|Hin] Hne]; [left; exact Heq|right; split; assumption].
Qed.

(* dispatch: only callbacks of stored routes that match are candidates *)
Theorem handle_set_sound : forall (tb : table) (topic : bytes) (cb : N),
  In cb (handle_set tb topic) ->
  exists k route, In (k, (route, cb)) tb /\ match_route route (split topic) = true.
Proof.
  intros tb topic cb Hin. unfold handle_set in Hin.
  apply in_flat_map in Hin. destruct Hin as [[k [route cb']] [Htb Hcb]].
  cbn [fst snd] in Hcb.
  destruct (match_route route (split topic)) eqn:Em.
  - destruct Hcb as [Heq|[]]. subst cb'. exists k, route. split; [exact Htb|exact Em].
  - destruct Hcb.
Qed.

(* and a stored matching route always yields a candidate *)
Theorem handle_set_complete : forall (tb : table) (topic : bytes) k route cb,
  In (k, (route, cb)) tb -> match_route route (split topic) = true -> In cb (handle_set tb topic).
Proof.
  intros tb topic k route cb Htb Hm. unfold handle_set.
  apply in_flat_map. exists (k, (route, cb)). split; [exact Htb|].
  cbn [fst snd]. rewrite Hm. left. reflexivity.
Qed.

(* after removing a route its entry is gone, entries under other keys are untouched *)
Theorem tbl_remove_spec : forall (tb : table) (route : list bytes) k h,
  In (k, h) (tbl_remove tb route) <-> (In (k, h) tb /\ k <> join route).
Proof. intros tb route k h. unfold tbl_remove. apply tbl_delete_spec. Qed.

(* storing replaces the entry under the same key and keeps the others *)
Theorem tbl_store_spec : forall (tb : table) (route : list bytes) (cb : N) k h,
  In (k, h) (tbl_store tb route cb) <-> ((In (k, h) tb /\ k <> join route) \/ (k = join route /\ h = (route, cb))).
Proof.
  intros tb route cb k h. unfold tbl_store.
  rewrite in_app_iff, tbl_delete_spec. cbn [In]. split.
  - intros [Hold|[Heq|[]]]; [left; exact Hold|right].
    inversion Heq; subst. split; reflexivity.
  - intros [Hold|[Hk Hh]]; [left; exact Hold|right; left]. subst. reflexivity.
Qed.

(* hence: once a filter is unsubscribed its callback is no longer a candidate, unless the same
   callback is also stored under another (matching) filter *)
Corollary unsubscribed_not_invoked : forall (tb : table) (route : list bytes) (topic : bytes) (cb : N),
  In cb (handle_set (tbl_remove tb route) topic) ->
  exists k route', In (k, (route', cb)) tb /\ k <> join route /\ match_route route' (split topic) = true.
Proof.
  intros tb route topic cb Hin.
  apply handle_set_sound in Hin. destruct Hin as [k [route' [Htb Hm]]].
  apply tbl_remove_spec in Htb. destruct Htb as [Htb Hne].
  exists k, route'. split; [exact Htb|split; [exact Hne|exact Hm]].
Qed.

Print Assumptions match_route_spec.
Print Assumptions handle_set_sound.
Print Assumptions unsubscribed_not_invoked.
