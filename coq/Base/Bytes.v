(* Base/Bytes.v — bytes, fixed-width arithmetic, outcomes.  Stdlib only. *)
From Coq Require Export List NArith Bool Lia.
From Coq Require Import ZArith ZifyN ZifyNat ZifyBool.
Export ListNotations.
Open Scope N_scope.

(* A Go []byte / string is a list of N, each below 256. *)
Definition bytes := list N.
Definition is_byte (b : N) : bool := b <? 256.
Definition wf_bytes (l : bytes) : Prop := Forall (fun b => is_byte b = true) l.
Definition wf_bytesb (l : bytes) : bool := forallb is_byte l.

Definition u8 (x : N) : N := x mod 256.
Definition u16 (x : N) : N := x mod 65536.

(* encoding/binary.BigEndian *)
Definition be16 (hi lo : N) : N := hi * 256 + lo.
Definition enc16 (x : N) : bytes := [x / 256; x mod 256].

(* pkts.EncodeUint16 of a value that Go has already truncated to uint16 *)
Definition enc16w (x : N) : bytes := [(x / 256) mod 256; x mod 256].

Definition len {A} (l : list A) : N := N.of_nat (length l).

(* Equality on byte strings (Go string / bytes.Equal). *)
Fixpoint beq (a b : bytes) : bool :=
  match a, b with
  | [], [] => true
  | x :: a', y :: b' => (x =? y) && beq a' b'
  | _, _ => false
  end.

(* Result of running a piece of Go code: value, error (class only), or panic. *)
Inductive err_class :=
| ErrShort | ErrBadLength | ErrBadType | ErrBadProto | ErrBadTit | ErrOther.

Inductive panic_site :=
| PsHeaderIdx3 | PsHeaderSlice | PsBodySlice | PsAuthSlice | PsOther.

Inductive outcome (A : Type) :=
| Ok (a : A) | Err (e : err_class) | Panic (s : panic_site).
Arguments Ok {A} a.
Arguments Err {A} e.
Arguments Panic {A} s.

Definition is_panic {A} (o : outcome A) : bool :=
  match o with Panic _ => true | _ => false end.

Definition obind {A B} (o : outcome A) (f : A -> outcome B) : outcome B :=
  match o with Ok a => f a | Err e => Err e | Panic s => Panic s end.

Definition bool_of_N (x : N) : bool := negb (x =? 0).
Definition N_of_bool (b : bool) : N := if b then 1 else 0.
