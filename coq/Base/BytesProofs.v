(* Base/BytesProofs.v — lemmas about Base/Bytes.v.  Stdlib only. *)
From Coq Require Import List NArith Bool Lia ZArith ZifyN ZifyNat ZifyBool.
From Verif.Base Require Import Bytes.
Open Scope N_scope.
Ltac Zify.zify_post_hook ::= Z.div_mod_to_equations.

Lemma beq_refl (a : bytes) : beq a a = true.
Proof. induction a as [|x a IH]; cbn [beq]; [reflexivity|]. rewrite N.eqb_refl, IH. reflexivity. Qed.

Lemma beq_true (a b : bytes) : beq a b = true -> a = b.
Proof.
  revert b. induction a as [|x a IH]; intros [|y b]; cbn [beq]; try discriminate; [reflexivity|].
  intros H. apply andb_true_iff in H. destruct H as [Hxy Hab].
  apply N.eqb_eq in Hxy. subst y. f_equal. apply IH, Hab.
Qed.

Lemma beq_eq (a b : bytes) : beq a b = true <-> a = b.
Proof. split; [apply beq_true|intros ->; apply beq_refl]. Qed.

Lemma beq_false (a b : bytes) : beq a b = false <-> a <> b.
Proof.
  split.
  - intros H E. subst b. rewrite beq_refl in H. discriminate.
  - intros H. destruct (beq a b) eqn:E; [|reflexivity]. apply beq_true in E. contradiction.
Qed.

Lemma wf_bytesb_spec (l : bytes) : wf_bytesb l = true <-> wf_bytes l.
Proof.
  unfold wf_bytesb, wf_bytes. rewrite forallb_forall, Forall_forall. reflexivity.
Qed.

Lemma is_byte_lt (b : N) : is_byte b = true <-> b < 256.
Proof. unfold is_byte. apply N.ltb_lt. Qed.

Lemma enc16_wf (x : N) : x < 65536 -> wf_bytes (enc16 x).
Proof.
  intros Hx. unfold enc16, wf_bytes. repeat constructor; apply is_byte_lt; lia.
Qed.

Lemma be16_enc16 (x : N) : x < 65536 -> be16 (x / 256) (x mod 256) = x.
Proof. intros Hx. unfold be16. lia. Qed.

Lemma enc16_be16 (hi lo : N) : hi < 256 -> lo < 256 -> enc16 (be16 hi lo) = [hi; lo].
Proof. intros Hh Hl. unfold enc16, be16. f_equal; [|f_equal]; lia. Qed.

Lemma be16_lt (hi lo : N) : hi < 256 -> lo < 256 -> be16 hi lo < 65536.
Proof. intros Hh Hl. unfold be16. lia. Qed.

Lemma len_app {A} (a b : list A) : len (a ++ b) = len a + len b.
Proof. unfold len. rewrite app_length. lia. Qed.

Lemma len_cons {A} (x : A) (l : list A) : len (x :: l) = 1 + len l.
Proof. unfold len. cbn [length]. lia. Qed.

Lemma len_nil {A} : len (@nil A) = 0.
Proof. reflexivity. Qed.
