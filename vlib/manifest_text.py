"""Per-property wording for MANIFEST.json."""
HOOK_COMMITS = ["146c602"]
NOTES = ("Technique: machine-checked proof in Coq 8.16.1 about a hand-written executable model, tied to /repo by a "
         "correspondence check (extracted OCaml model vs. the Go implementation on the same inputs) that runs on "
         "every check.  See DESIGN.md.")
NOT_YET = {}
COMMON_NOTE = ("Trusted: Coq kernel, ExtrOcamlBasic extraction, hand-written OCaml/Go glue; the model is hand-written and "
               "tied to /repo by differential execution (testing) on generated inputs, not by proof.")
GW_NOTE = (COMMON_NOTE + " The gateway model is event-atomic (one packet/timer handled to completion); the Go scheduler, "
           "paho's MQTT codec, errgroup/context and timers are assumed to behave as documented.")
TEXT = {
    "C20": {
        "level": "Theorems C20_decoding_never_panics / C20_no_panic_site: in the decoder model every Go index and slice "
                 "expression of Header.Unpack, ReadPacket and the 28 Unpack methods is an explicit bounds-checked access "
                 "that yields Panic when Go would; the theorem shows no byte string reaches one (no length bound needed). "
                 "The model is compared with ReadPacket under recover() on exhaustive short datagrams and structural/"
                 "random streams on every run; a panic observed in the implementation is reported with the datagram.",
        "note": COMMON_NOTE,
        "technique": "Coq theorem over all byte strings (bounds-checked decoder model) + differential execution against packets1.ReadPacket",
    },
    "C21": {
        "level": "Theorem C21_round_trip: for every packet value satisfying the boolean legal-range predicate wf_pkt, "
                 "decoding the model's encoding returns the packet, the announced length equals the size, the short "
                 "length form is used iff size <= 255, size <= 8192; C21_short_topic_bijection for all 65 536 IDs / all "
                 "2-byte names. The encoder model (with uint16 wrap-around) is compared byte-for-byte with Pack on "
                 "constructor-built packets of all 28 types on every run.",
        "note": COMMON_NOTE,
        "technique": "Coq theorem over all packet values in legal ranges + differential execution against Pack/ReadPacket",
    },
    "C14": {
        "level": "Theorem C14_step: from ANY session state of the gateway model, a step writes an MQTT DISCONNECT only when "
                 "the event is the client's DISCONNECT datagram without duration (hence for every history: C14_histories). "
                 "The model is compared output-by-output with the real handler1 on generated session histories "
                 "(including every termination cause) and the extracted checker runs on the implementation's trace.",
        "note": GW_NOTE,
        "technique": "Coq step lemma over all states/events of the gateway model + differential execution of handler1 under synctest",
    },
    "C05": {
        "level": "Theorem C05_lookups_consistent (Properties/C05.v) proves, for every configuration, client ID, topic ID and "
                 "name, the by-ID precedence rule and that every ID GetTopicID can return under any map iteration order reads "
                 "back as the same name (and that a name some ID denotes is found). The model of topics.PredefinedTopics is "
                 "compared with the real package on generated overlapping configurations and topics.yaml on every run, and "
                 "the statement itself is evaluated on the implementation's answers.",
        "note": COMMON_NOTE + " Go map iteration order is modelled as the set of all possible results.",
        "technique": "Coq theorem over all configurations (finite maps, std++) + differential execution against topics package",
    },
}
